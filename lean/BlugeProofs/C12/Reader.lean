import Bluge.Codec
/-! Stream-level specification of the `bufio.Reader` model (helper module of C12):
what `Peek(10)`, `Discard`, `Read`, `io.ReadFull` and the chunked read return in terms of the
logical remaining stream `stream inp r = r.buf ++ inp.drop r.pos`. -/
namespace Bluge.C12
open Bluge.Codec

/-- the bytes the decoder has not consumed yet -/
def stream (inp : Bytes) (r : Rd) : Bytes := r.buf ++ inp.drop r.pos

/-- what every reader operation preserves -/
structure Inv (r : Rd) : Prop where
  buf_le : r.buf.length ≤ 4096
  noeof : r.eof = false

theorem bufSize_eq : bufSize = 4096 := rfl

theorem inv_init : Inv {} := ⟨by simp, rfl⟩
theorem stream_init (inp : Bytes) : stream inp {} = inp := by simp [stream]

theorem fill_stream (inp : Bytes) (r : Rd) : stream inp (fill inp r) = stream inp r := by
  unfold fill stream
  by_cases h : inp.length - r.pos = 0
  · simp [h]
  · simp only [h, if_false]
    rw [List.append_assoc, ← List.drop_drop, List.take_append_drop]

theorem fill_alloc (inp : Bytes) (r : Rd) : (fill inp r).alloc = r.alloc := by
  unfold fill; dsimp only; split <;> rfl

theorem fill_pos_le (inp : Bytes) (r : Rd) : r.pos ≤ (fill inp r).pos := by
  unfold fill; dsimp only; split <;> simp

/-- the result of the `Peek` loop -/
theorem peekLoop_spec (inp : Bytes) (r : Rd) (hr : Inv r) :
    ∃ r', peekLoop inp 11 r = r' ∧
    stream inp r' = stream inp r ∧ r'.buf.length ≤ 4096 ∧ r'.alloc = r.alloc ∧ r.pos ≤ r'.pos ∧
      ((10 ≤ r'.buf.length ∧ r'.eof = false) ∨ (r'.buf = stream inp r ∧ (stream inp r).length < 10)) := by
  obtain ⟨hb, he⟩ := hr
  by_cases h10 : 10 ≤ r.buf.length
  · have : peekLoop inp 11 r = r := by
      simp only [peekLoop]; rw [if_neg (by omega)]
    exact ⟨r, this, rfl, hb, rfl, Nat.le_refl _, Or.inl ⟨h10, he⟩⟩
  · have hlt : r.buf.length < 10 := by omega
    have step1 : peekLoop inp 11 r = peekLoop inp 10 (fill inp r) := by
      simp only [peekLoop]; rw [if_pos ⟨hlt, by rw [bufSize_eq]; omega, he⟩]
    by_cases hav : inp.length - r.pos = 0
    · -- nothing left: eof
      have hf : fill inp r = { r with eof := true } := by simp [fill, hav]
      have step2 : peekLoop inp 10 { r with eof := true } = { r with eof := true } := by
        simp only [peekLoop]; rw [if_neg (by simp)]
      have hd : inp.drop r.pos = [] := by
        apply List.drop_eq_nil_of_le; omega
      refine ⟨{ r with eof := true }, by rw [step1, hf, step2], by simp [stream], hb, rfl, Nat.le_refl _,
        Or.inr ⟨by simp [stream, hd], by simp [stream, hd]; omega⟩⟩
    · -- one underlying read
      have hf : fill inp r = { r with buf := r.buf ++ (inp.drop r.pos).take (min (bufSize - r.buf.length) (inp.length - r.pos)),
                                      pos := r.pos + min (bufSize - r.buf.length) (inp.length - r.pos) } := by
        simp [fill, hav]
      have hs1 := fill_stream inp r
      have ha1 := fill_alloc inp r
      generalize hk : min (bufSize - r.buf.length) (inp.length - r.pos) = k at hf
      have hklen : ((inp.drop r.pos).take k).length = k := by
        rw [List.length_take, List.length_drop]; rw [← hk]; omega
      have hkle : k ≤ 4096 - r.buf.length := by rw [← hk, bufSize_eq]; omega
      by_cases hge : 10 ≤ r.buf.length + k
      · have step2 : peekLoop inp 10 (fill inp r) = fill inp r := by
          simp only [peekLoop]; rw [if_neg]; rw [hf]; simp [hklen]; omega
        refine ⟨fill inp r, by rw [step1, step2], hs1, ?_, ha1, fill_pos_le inp r, Or.inl ⟨?_, ?_⟩⟩
        · rw [hf]; simp [hklen]; omega
        · rw [hf]; simp [hklen]; omega
        · rw [hf]; exact he
      · -- fewer than 10 bytes in total: a second fill hits EOF
        have hkav : k = inp.length - r.pos := by rw [← hk, bufSize_eq]; rw [← hk, bufSize_eq] at hge; omega
        have step2 : peekLoop inp 10 (fill inp r) = peekLoop inp 9 (fill inp (fill inp r)) := by
          simp only [peekLoop]; rw [if_pos]; rw [hf]; simp [hklen, bufSize_eq]; exact ⟨by omega, by omega, he⟩
        have hf2 : fill inp (fill inp r) = { fill inp r with eof := true } := by
          rw [hf]; simp [fill]; omega
        have step3 : peekLoop inp 9 { fill inp r with eof := true } = { fill inp r with eof := true } := by
          simp only [peekLoop]; rw [if_neg (by simp)]
        have hd : inp.drop (r.pos + k) = [] := by
          apply List.drop_eq_nil_of_le; omega
        have hst : (fill inp r).buf = stream inp r := by
          rw [← hs1, hf]; simp [stream, hd]
        refine ⟨{ fill inp r with eof := true }, by rw [step1, step2, hf2, step3], ?_, ?_, ha1, fill_pos_le inp r, Or.inr ⟨hst, ?_⟩⟩
        · rw [← hs1]; simp [stream]
        · rw [hf]; simp [hklen]; omega
        · rw [← hst, hf]; simp [hklen]; omega

/-- `Peek(10)`: the first 10 bytes of the stream, `io.EOF` iff the stream is shorter; nothing is consumed -/
theorem peek10_spec (inp : Bytes) (r : Rd) (hr : Inv r) :
    ∃ r', peek10 inp r = ((stream inp r).take 10, decide ((stream inp r).length < 10), r') ∧
      stream inp r' = stream inp r ∧ Inv r' ∧ r'.alloc = r.alloc ∧ r.pos ≤ r'.pos ∧
      min 10 (stream inp r).length ≤ r'.buf.length := by
  obtain ⟨r1, hr1, hs, hb, ha, hp, hcase⟩ := peekLoop_spec inp r hr
  unfold peek10
  simp only [hr1]
  rcases hcase with ⟨h10, he⟩ | ⟨hbuf, hlen⟩
  · rw [if_neg (by omega)]
    have hS : 10 ≤ (stream inp r).length := by
      rw [← hs]; simp [stream]; omega
    refine ⟨r1, ?_, hs, ⟨hb, he⟩, ha, hp, by omega⟩
    have h1 : r1.buf.take 10 = (stream inp r).take 10 := by
      rw [← hs]; unfold stream; rw [List.take_append_of_le_length h10]
    have h2 : decide ((stream inp r).length < 10) = false := by simp; omega
    rw [h1, h2]
  · have hl : r1.buf.length < 10 := by rw [hbuf]; exact hlen
    rw [if_pos hl]
    refine ⟨{ r1 with eof := false }, ?_, ?_, ⟨hb, rfl⟩, ha, hp, ?_⟩
    · have h1 : r1.buf = (stream inp r).take 10 := by
        rw [hbuf, List.take_of_length_le (by omega)]
      have h2 : decide ((stream inp r).length < 10) = true := by simp [hlen]
      rw [← h1, h2]
    · rw [← hs]; simp [stream]
    · show min 10 (stream inp r).length ≤ r1.buf.length
      rw [hbuf]; omega

/-- `Discard(n)` of bytes that are buffered -/
theorem discard_spec (inp : Bytes) (n : Nat) (r : Rd) (hn : n ≤ r.buf.length) :
    Codec.discard inp n r = (n, false, { r with buf := r.buf.drop n }) := by
  unfold Codec.discard
  by_cases h0 : n = 0
  · subst h0; simp
  · rw [if_neg h0]
    have hne : r.buf.length ≠ 0 := by omega
    simp only [discardLoop, hne, if_false, Nat.min_eq_right hn, Nat.sub_self, if_true]
    simp

/-- `Read(p)` when the buffer already holds `len(p)` bytes -/
theorem read_buffered (inp : Bytes) (n : Nat) (r : Rd) (hn : 0 < n) (hle : n ≤ r.buf.length) :
    Codec.read inp n r = (r.buf.take n, false, { r with buf := r.buf.drop n }) := by
  unfold Codec.read
  rw [if_neg (by omega), if_neg (by omega)]
  simp only [Nat.min_eq_left hle]

/-- one `Read(p)` with `len(p) = need > 0`: an error iff the stream is empty, otherwise between 1 and
`need` bytes from the front of the stream -/
theorem read_spec (inp : Bytes) (need : Nat) (r : Rd) (hr : Inv r) (hneed : 0 < need) :
    ∃ bs e r', Codec.read inp need r = (bs, e, r') ∧
      ((stream inp r = [] ∧ e = true) ∨
       (e = false ∧ 0 < bs.length ∧ bs.length ≤ need ∧ bs = (stream inp r).take bs.length ∧
        stream inp r' = (stream inp r).drop bs.length ∧ Inv r' ∧ r'.alloc = r.alloc ∧ r.pos ≤ r'.pos)) := by
  obtain ⟨hb, he⟩ := hr
  unfold Codec.read
  rw [if_neg (by omega)]
  by_cases hbuf : r.buf.length = 0
  · rw [if_pos hbuf, he]
    simp only [Bool.false_eq_true, if_false]
    have hnil : r.buf = [] := List.eq_nil_of_length_eq_zero hbuf
    by_cases hav : inp.length - r.pos = 0
    · rw [if_pos hav]
      refine ⟨_, _, _, rfl, Or.inl ⟨?_, rfl⟩⟩
      simp [stream, hnil]; omega
    · rw [if_neg hav]
      have hS : stream inp r = inp.drop r.pos := by simp [stream, hnil]
      by_cases hbig : need ≥ bufSize
      · rw [if_pos hbig]
        refine ⟨_, _, _, rfl, Or.inr ⟨rfl, ?_, ?_, ?_, ?_, ⟨hb, rfl⟩, rfl, by simp⟩⟩
        · simp [List.length_take, List.length_drop]; omega
        · simp [List.length_take, List.length_drop]; omega
        · rw [hS]; simp [List.length_take, List.length_drop]
        · rw [hS]; simp [stream, hnil, List.length_take, List.length_drop, List.drop_drop]
      · rw [if_neg hbig]
        rw [bufSize_eq] at hbig ⊢
        generalize hk : min 4096 (inp.length - r.pos) = k
        have hklen : ((inp.drop r.pos).take k).length = k := by
          rw [List.length_take, List.length_drop]; omega
        generalize hm : min need ((inp.drop r.pos).take k).length = m
        have hmk : m ≤ k := by rw [← hm, hklen]; omega
        have hm0 : 0 < m := by rw [← hm, hklen]; omega
        have hmn : m ≤ need := by rw [← hm]; omega
        have hlen : (((inp.drop r.pos).take k).take m).length = m := by
          rw [List.length_take, hklen]; omega
        refine ⟨_, _, _, rfl, Or.inr ⟨rfl, by rw [hlen]; exact hm0, by rw [hlen]; exact hmn, ?_, ?_, ⟨?_, rfl⟩, rfl, by simp⟩⟩
        · rw [hlen, hS, List.take_take, Nat.min_eq_left hmk]
        · rw [hlen, hS]
          simp only [stream]
          rw [← List.drop_drop, ← List.drop_append_of_le_length (by rw [hklen]; exact hmk), List.take_append_drop]
        · simp only [List.length_drop, hklen]; omega
  · rw [if_neg hbuf]
    generalize hm : min need r.buf.length = m
    have hmle : m ≤ r.buf.length := by omega
    have hlen : (r.buf.take m).length = m := by rw [List.length_take]; omega
    refine ⟨_, _, _, rfl, Or.inr ⟨rfl, by rw [hlen]; omega, by rw [hlen]; omega, ?_, ?_, ⟨?_, he⟩, rfl, Nat.le_refl _⟩⟩
    · rw [hlen]; unfold stream; rw [List.take_append_of_le_length hmle]
    · rw [hlen]; unfold stream; rw [List.drop_append_of_le_length hmle]
    · simp only [List.length_drop]; omega

/-- `io.ReadFull`: exactly the next `need` bytes of the stream, or an error when the stream is shorter -/
theorem readFullLoop_spec (inp : Bytes) : ∀ (fuel need : Nat) (acc : Bytes) (r : Rd), Inv r → need < fuel →
    (need ≤ (stream inp r).length →
      ∃ r', readFullLoop inp fuel need acc r = (some (acc ++ (stream inp r).take need), r') ∧
        stream inp r' = (stream inp r).drop need ∧ Inv r' ∧ r'.alloc = r.alloc ∧ r.pos ≤ r'.pos) ∧
    ((stream inp r).length < need → (readFullLoop inp fuel need acc r).1 = none) := by
  intro fuel
  induction fuel with
  | zero => intro need acc r _ h; omega
  | succ fuel ih =>
    intro need acc r hr hfuel
    by_cases h0 : need = 0
    · subst h0
      simp only [readFullLoop, if_true]
      exact ⟨fun _ => ⟨r, by simp, by simp, hr, rfl, Nat.le_refl _⟩, fun h => by omega⟩
    · simp only [readFullLoop, h0, if_false]
      obtain ⟨bs, e, r', hread, hcase⟩ := read_spec inp need r hr (by omega)
      rw [hread]
      rcases hcase with ⟨hnil, he⟩ | ⟨he, hpos, hle, hbs, hs', hr', ha', hp'⟩
      · subst he
        simp only [if_true]
        exact ⟨fun h => by rw [hnil] at h; simp at h; omega, fun _ => trivial⟩
      · subst he
        simp only [Bool.false_eq_true, if_false]
        have hlenS : bs.length ≤ (stream inp r).length := by
          have := congrArg List.length hbs
          rw [List.length_take] at this; omega
        obtain ⟨ih1, ih2⟩ := ih (need - bs.length) (acc ++ bs) r' hr' (by omega)
        constructor
        · intro hn
          have : need - bs.length ≤ (stream inp r').length := by
            rw [hs', List.length_drop]; omega
          obtain ⟨r'', h1, h2, h3, h4, h5⟩ := ih1 this
          refine ⟨r'', ?_, ?_, h3, by rw [h4, ha'], Nat.le_trans hp' h5⟩
          · rw [h1, hs']
            congr 2
            rw [List.append_assoc]
            congr 1
            have hsplit : need = bs.length + (need - bs.length) := by omega
            conv => rhs; rw [hsplit, List.take_add]
            rw [← hbs]
          · rw [h2, hs', List.drop_drop]; congr 1; omega
        · intro hn
          apply ih2
          rw [hs', List.length_drop]; omega

theorem readFull_spec (inp : Bytes) (n : Nat) (r : Rd) (hr : Inv r) (hn : n ≤ (stream inp r).length) :
    ∃ r', readFull inp n r = (some ((stream inp r).take n), r') ∧
      stream inp r' = (stream inp r).drop n ∧ Inv r' ∧ r'.alloc = r.alloc ∧ r.pos ≤ r'.pos := by
  have := (readFullLoop_spec inp (n + 1) n [] r hr (by omega)).1 hn
  simpa [readFull] using this

theorem readFull_short (inp : Bytes) (n : Nat) (r : Rd) (hr : Inv r) (hn : (stream inp r).length < n) :
    (readFull inp n r).1 = none :=
  (readFullLoop_spec inp (n + 1) n [] r hr (by omega)).2 hn

/-- the chunked read of the repair: the same result as one `io.ReadFull` of the whole length -/
theorem readChunked_spec (inp : Bytes) : ∀ (fuel need : Nat) (acc : Bytes) (r : Rd), Inv r → need < fuel →
    need ≤ (stream inp r).length →
      ∃ r', readChunked inp fuel need acc r = (some (acc ++ (stream inp r).take need), r') ∧
        stream inp r' = (stream inp r).drop need ∧ Inv r' ∧ r'.alloc = r.alloc ∧ r.pos ≤ r'.pos := by
  intro fuel
  induction fuel with
  | zero => intro need acc r _ h; omega
  | succ fuel ih =>
    intro need acc r hr hfuel hn
    by_cases h0 : need = 0
    · subst h0
      simp only [readChunked, if_true]
      exact ⟨r, by simp, by simp, hr, rfl, Nat.le_refl _⟩
    · simp only [readChunked, h0, if_false]
      generalize hstep : min need bufSize = step
      have hstep0 : 0 < step := by rw [← hstep, bufSize_eq]; omega
      have hstepn : step ≤ need := by rw [← hstep]; omega
      obtain ⟨r1, h1, hs1, hr1, ha1, hp1⟩ := readFull_spec inp step r hr (by omega)
      rw [h1]
      simp only
      have : need - step ≤ (stream inp r1).length := by rw [hs1, List.length_drop]; omega
      obtain ⟨r2, h2, hs2, hr2, ha2, hp2⟩ := ih (need - step) (acc ++ (stream inp r).take step) r1 hr1 (by omega) this
      refine ⟨r2, ?_, ?_, hr2, by rw [ha2, ha1], Nat.le_trans hp1 hp2⟩
      · rw [h2, hs1]
        congr 2
        rw [List.append_assoc]
        congr 1
        have hsplit : need = step + (need - step) := by omega
        conv => rhs; rw [hsplit, List.take_add]
      · rw [hs2, hs1, List.drop_drop]; congr 1; omega

end Bluge.C12

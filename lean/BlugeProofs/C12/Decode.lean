import Bluge.Codec
import BlugeProofs.C12.Uvarint
import BlugeProofs.C12.Reader
/-! The decoder run on encoder output (helper module of C12). -/
namespace Bluge.C12
open Bluge.Codec

@[simp] theorem ok_bind {α β : Type} (a : α) (f : α → Outcome β) : (Outcome.ok a >>= f) = f a := rfl
@[simp] theorem error_bind {α β : Type} (e : Err) (f : α → Outcome β) : (Outcome.error e >>= f) = Outcome.error e := rfl
@[simp] theorem panic_bind {α β : Type} (s : Site) (f : α → Outcome β) : (Outcome.panic s >>= f) = Outcome.panic s := rfl
@[simp] theorem alloc_bind {α β : Type} (s : Site) (n : Nat) (f : α → Outcome β) : (Outcome.alloc s n >>= f) = Outcome.alloc s n := rfl
@[simp] theorem fault_bind {α β : Type} (s : Site) (f : α → Outcome β) : (Outcome.fault s >>= f) = Outcome.fault s := rfl
@[simp] theorem pure_eq_ok {α : Type} (a : α) : (pure a : Outcome α) = Outcome.ok a := rfl

theorem be32_length (v : BitVec 32) : (be32 v).length = 4 := rfl

theorem be32get_be32 (v : BitVec 32) : be32get (be32 v) = v := by
  simp only [be32get, be32, List.getD_cons_zero, List.getD_cons_succ]
  ext i hi
  simp only [BitVec.getElem_or, BitVec.getElem_shiftLeft, BitVec.getElem_setWidth, BitVec.getLsbD_setWidth, BitVec.getLsbD_ushiftRight]
  have hv : v.getLsbD i = v[i] := by simp [BitVec.getLsbD_eq_getElem hi]
  by_cases h1 : i < 8
  · have a : i < 24 := by omega
    have b : i < 16 := by omega
    simp [h1, a, b, hv]
  · by_cases h2 : i < 16
    · have a : i < 24 := by omega
      have c : i - 8 < 8 := by omega
      have d : 8 + (i - 8) = i := by omega
      simp [h1, h2, a, c, d, hv]
    · by_cases h3 : i < 24
      · have c : i - 16 < 8 := by omega
        have d : 16 + (i - 16) = i := by omega
        have e : ¬ i - 8 < 8 := by omega
        simp [h1, h2, h3, c, d, e, hv]
      · have c : i - 24 < 8 := by omega
        have d : 24 + (i - 24) = i := by omega
        have e : ¬ i - 8 < 8 := by omega
        have f : ¬ i - 16 < 8 := by omega
        simp [h1, h2, h3, c, d, e, f, hv]

/-- a prefix of the stream that fits in the buffer is a prefix of the buffer -/
theorem buf_take_of_stream {inp : Bytes} {r : Rd} {X Y : Bytes} (h : stream inp r = X ++ Y)
    (hn : X.length ≤ r.buf.length) : r.buf.take X.length = X ∧ stream inp { r with buf := r.buf.drop X.length } = Y := by
  unfold stream at h
  constructor
  · have := congrArg (List.take X.length) h
    rwa [List.take_append_of_le_length hn, List.take_left'] at this
    rfl
  · have := congrArg (List.drop X.length) h
    rw [List.drop_append_of_le_length hn, List.drop_left'] at this
    · exact this
    · rfl

/-- `Peek(10)`, `Uvarint`, `Discard` on a stream that starts with an encoding of `v` -/
theorem peekUvarint_put (cfg : Cfg) (inp : Bytes) (strict : Bool) (r : Rd) (hr : Inv r) (v : Nat) (hv : v < 2 ^ 64) (rest : Bytes)
    (hs : stream inp r = putUvarint v ++ rest) (hstrict : strict = true → 10 ≤ (stream inp r).length) :
    ∃ r', peekUvarintC cfg inp strict r = .ok (v, (putUvarint v).length, r') ∧ stream inp r' = rest ∧ Inv r' ∧
      r'.alloc = r.alloc ∧ r.pos ≤ r'.pos ∧ min 10 (stream inp r).length - (putUvarint v).length ≤ r'.buf.length := by
  obtain ⟨r1, hpk, hs1, hr1, ha1, hp1, hb1⟩ := peek10_spec inp r hr
  have hL := putUvarint_length_le v hv
  have hLS : (putUvarint v).length ≤ (stream inp r).length := by rw [hs]; simp
  have hLb : (putUvarint v).length ≤ r1.buf.length := by omega
  unfold peekUvarintC
  rw [hpk]
  simp only
  have he : (strict && decide ((stream inp r).length < 10)) = false := by
    cases strict
    · rfl
    · have := hstrict rfl; simp; omega
  rw [he]
  simp only [Bool.false_eq_true, if_false]
  rw [hs, uvarint_put_take v hv rest]
  simp only
  rw [if_neg (by omega)]
  have hpos := putUvarint_length_pos v
  have hz : (cfg.lengthChecked && ((putUvarint v).length : Int) == 0) = false := by
    have : (((putUvarint v).length : Int) == 0) = false := by
      simp only [beq_eq_false_iff_ne, ne_eq]; omega
    rw [this, Bool.and_false]
  rw [hz]
  simp only [Bool.false_eq_true, if_false]
  simp only [Int.toNat_natCast]
  rw [discard_spec inp _ r1 hLb]
  simp only [Bool.false_eq_true, if_false]
  have hsplit := buf_take_of_stream (inp := inp) (r := r1) (X := putUvarint v) (Y := rest) (by rw [hs1, hs]) hLb
  refine ⟨_, rfl, hsplit.2, ⟨?_, hr1.noeof⟩, ha1, hp1, ?_⟩
  · simp only [List.length_drop]; have := hr1.buf_le; omega
  · simp only [List.length_drop]; have := congrArg List.length hs; omega

section
variable {R : Type} (ro : Roar R)

/-- the deleted-set part of a segment record -/
def encDel (s : Seg R) : Bytes :=
  match s.deleted with
  | some d => putUvarint (ro.enc d).length ++ ro.enc d
  | none => putUvarint 0

theorem encSeg_eq (s : Seg R) :
    encSeg ro s = putUvarint s.typ.length ++ (s.typ ++ (be32 s.ver ++ (putUvarint s.id.toNat ++ encDel ro s))) := by
  unfold encSeg encStr encDel
  cases s.deleted <;> simp [List.append_assoc]

theorem encSeg_length (s : Seg R) :
    (encSeg ro s).length = (putUvarint s.typ.length).length + s.typ.length + 4 + (putUvarint s.id.toNat).length + (encDel ro s).length := by
  rw [encSeg_eq]; simp [be32_length]; omega

theorem normSeg_none (s : Seg R) (h : s.deleted = none) : normSeg ro s = s := by
  simp [normSeg, h]

theorem normSeg_some (s : Seg R) (d : R) (h : s.deleted = some d) :
    normSeg ro s = { s with deleted := if ro.isEmpty d then none else some d } := by
  cases s with
  | mk id typ ver del =>
    simp only at h; subst h
    simp only [normSeg]
    split <;> simp_all

/-- the pinned decoder reads one encoded segment back (type name of 3..5 bytes) -/
theorem readSegment_pinned (hl : ro.Lawful) (cfg : Cfg) (hcfg : cfg.boundedReads = false) (inp : Bytes) (lim : Nat) (r : Rd) (hr : Inv r) (s : Seg R) (rest : Bytes)
    (hs : stream inp r = encSeg ro s ++ rest)
    (ht3 : 3 ≤ s.typ.length) (ht5 : s.typ.length ≤ 5)
    (hbudget : r.alloc + (stream inp r).length ≤ lim) (hmax : (stream inp r).length ≤ maxAlloc) :
    ∃ r', readSegment ro cfg inp lim r = .ok (normSeg ro s, (encSeg ro s).length, r') ∧
      stream inp r' = rest ∧ Inv r' ∧ r.pos ≤ r'.pos ∧ r'.alloc + rest.length ≤ lim := by
  have hSlen : (stream inp r).length = (encSeg ro s).length + rest.length := by rw [hs]; simp
  have hseglen := encSeg_length ro s
  have hidpos := putUvarint_length_pos s.id.toNat
  have hL1 : (putUvarint s.typ.length).length = 1 := putUvarint_length_one _ (by omega)
  have hdelpos : 0 < (encDel ro s).length := by
    unfold encDel
    cases s.deleted with
    | none => simp only []; exact putUvarint_length_pos 0
    | some d => simp only [List.length_append]; have := putUvarint_length_pos (ro.enc d).length; omega
  -- 1. the type string
  rw [encSeg_eq, List.append_assoc] at hs
  obtain ⟨r1, h1, hs1, hr1, ha1, hp1, hb1⟩ := peekUvarint_put cfg inp true r hr s.typ.length (by omega) _ hs (by intro _; omega)
  have hb1' : 9 ≤ r1.buf.length := by omega
  -- make([]byte, strLen) ; Read
  have hmk : makeBytes .str lim s.typ.length r1 = .ok { r1 with alloc := r1.alloc + s.typ.length } := by
    unfold makeBytes maxAlloc
    rw [if_neg (by omega), if_neg (by omega)]
  have hrd := read_buffered inp s.typ.length { r1 with alloc := r1.alloc + s.typ.length } (by omega) (by simp; omega)
  have hsp1 := buf_take_of_stream (inp := inp) (r := r1) (X := s.typ) (by rw [hs1, List.append_assoc]) (by omega)
  -- 2. the version
  let r2 : Rd := { r1 with alloc := r1.alloc + s.typ.length, buf := r1.buf.drop s.typ.length }
  have hs2 : stream inp r2 = be32 s.ver ++ (putUvarint s.id.toNat ++ encDel ro s ++ rest) := by
    have := hsp1.2; simp only [stream] at this ⊢; simp only [r2]; rw [this]; simp [List.append_assoc]
  have hr2 : Inv r2 := ⟨by simp [r2]; have := hr1.buf_le; omega, hr1.noeof⟩
  have hb2 : 4 ≤ r2.buf.length := by simp [r2]; omega
  have hrd2 := read_buffered inp 4 r2 (by omega) hb2
  have hsp2 := buf_take_of_stream (inp := inp) (r := r2) (X := be32 s.ver) hs2 (by rw [be32_length]; exact hb2)
  rw [be32_length] at hsp2
  let r3 : Rd := { r2 with buf := r2.buf.drop 4 }
  have hr3 : Inv r3 := ⟨by simp [r3]; have := hr2.buf_le; omega, hr2.noeof⟩
  -- 3. the id
  have hs3 : stream inp r3 = putUvarint s.id.toNat ++ (encDel ro s ++ rest) := by
    rw [hsp2.2, List.append_assoc]
  obtain ⟨r4, h4, hs4, hr4, ha4, hp4, _⟩ := peekUvarint_put cfg inp false r3 hr3 s.id.toNat s.id.isLt _ hs3 (by intro h; cases h)
  have hpre : readVarLenString cfg inp lim r = .ok (s.typ, 1 + s.typ.length, r2) := by
    unfold readVarLenString
    simp only [hcfg, Bool.not_false]
    rw [h1]
    simp only [ok_bind, readStrBytes, hcfg, Bool.false_eq_true, if_false]
    rw [hmk]
    simp only [ok_bind]
    rw [hrd, hsp1.1]
    simp [hL1, r2]
  unfold readSegment
  rw [hpre]
  simp only [ok_bind, hcfg, Bool.false_eq_true, if_false]
  rw [hrd2, hsp2.1]
  simp only [Bool.false_eq_true, if_false, be32get_be32]
  show ∃ r', ((peekUvarintC cfg inp false r3) >>= _) = _ ∧ _
  rw [h4]
  simp only [ok_bind]
  -- 4. the deleted set
  cases hdel : s.deleted with
  | none =>
    have hs4' : stream inp r4 = putUvarint 0 ++ rest := by rw [hs4]; simp [encDel, hdel]
    obtain ⟨r5, h5, hs5, hr5, ha5, hp5, _⟩ := peekUvarint_put cfg inp false r4 hr4 0 (by omega) _ hs4' (by intro h; cases h)
    rw [h5]
    simp only [ok_bind, Nat.lt_irrefl, if_false, gt_iff_lt]
    refine ⟨r5, ?_, hs5, hr5, ?_, ?_⟩
    · rw [normSeg_none ro s hdel]
      have hlen : 1 + s.typ.length + (be32 s.ver).length + (putUvarint s.id.toNat).length + (putUvarint 0).length = (encSeg ro s).length := by
        rw [hseglen, hL1, be32_length]; simp [encDel, hdel]
      rw [hlen]
      have hid : BitVec.ofNat 64 s.id.toNat = s.id := by simp
      rw [hid]
      cases s; simp_all
    · have : r3.pos = r1.pos := rfl
      omega
    · have e1 : r5.alloc = r.alloc + s.typ.length := by
        rw [ha5, ha4]; show r1.alloc + s.typ.length = _; rw [ha1]
      omega
  | some d =>
    have hpl : 0 < (ro.enc d).length := by
      have := hl.enc_ne d
      cases h : ro.enc d with
      | nil => exact absurd h this
      | cons _ _ => simp
    have hdl : (encDel ro s).length = (putUvarint (ro.enc d).length).length + (ro.enc d).length := by
      simp [encDel, hdel]
    have hplS : (ro.enc d).length ≤ (stream inp r).length := by omega
    have hs4' : stream inp r4 = putUvarint (ro.enc d).length ++ (ro.enc d ++ rest) := by
      rw [hs4]; simp [encDel, hdel, List.append_assoc]
    obtain ⟨r5, h5, hs5, hr5, ha5, hp5, _⟩ := peekUvarint_put cfg inp false r4 hr4 (ro.enc d).length
      (by unfold maxAlloc at hmax; omega) _ hs4' (by intro h; cases h)
    rw [h5]
    simp only [ok_bind, gt_iff_lt, hpl, if_true, readDelBytes, hcfg, Bool.false_eq_true, if_false]
    have e5 : r5.alloc = r.alloc + s.typ.length := by
      rw [ha5, ha4]; show r1.alloc + s.typ.length = _; rw [ha1]
    have hmk2 : makeBytes .del lim (ro.enc d).length r5 = .ok { r5 with alloc := r5.alloc + (ro.enc d).length } := by
      unfold makeBytes
      rw [if_neg (by omega), if_neg (by omega)]
    rw [hmk2]
    simp only [ok_bind]
    have hr6 : Inv { r5 with alloc := r5.alloc + (ro.enc d).length } := ⟨hr5.buf_le, hr5.noeof⟩
    have hs6 : stream inp { r5 with alloc := r5.alloc + (ro.enc d).length } = ro.enc d ++ rest := hs5
    obtain ⟨r7, h7, hs7, hr7, ha7, hp7⟩ := readFull_spec inp (ro.enc d).length _ hr6 (by rw [hs6]; simp)
    rw [h7, hs6]
    simp only [List.take_left', ok_bind, hl.dec_enc d]
    refine ⟨r7, ?_, ?_, hr7, ?_, ?_⟩
    · rw [normSeg_some ro s d hdel]
      have hlen : 1 + s.typ.length + (be32 s.ver).length + (putUvarint s.id.toNat).length + (putUvarint (ro.enc d).length).length + (ro.enc d).length = (encSeg ro s).length := by
        rw [hseglen, hL1, be32_length, hdl]; omega
      rw [hlen]
      have hid : BitVec.ofNat 64 s.id.toNat = s.id := by simp
      rw [hid]
    · rw [hs7, hs6]; simp
    · have : r3.pos = r1.pos := rfl
      have : r5.pos ≤ r7.pos := hp7
      omega
    · have : r7.alloc = r.alloc + s.typ.length + (ro.enc d).length := by rw [ha7]; show r5.alloc + _ = _; rw [e5]
      omega

/-- the loop of `readFromVersion1` over the encodings of a list of segments -/
theorem readSegments_pinned (hl : ro.Lawful) (cfg : Cfg) (hcfg : cfg.boundedReads = false) (inp : Bytes) (lim : Nat) :
    ∀ (segs : List (Seg R)) (r : Rd) (rest : Bytes), Inv r →
      stream inp r = (segs.map (encSeg ro)).flatten ++ rest →
      (∀ s ∈ segs, 3 ≤ s.typ.length ∧ s.typ.length ≤ 5) →
      r.alloc + (stream inp r).length ≤ lim → (stream inp r).length ≤ maxAlloc →
      ∃ r', readSegments ro cfg inp lim segs.length r =
          .ok (segs.map (normSeg ro), ((segs.map (encSeg ro)).flatten).length, r') ∧
        stream inp r' = rest ∧ Inv r' ∧ r.pos ≤ r'.pos := by
  intro segs
  induction segs with
  | nil =>
    intro r rest hr hs _ _ _
    exact ⟨r, by simp [readSegments], by simpa using hs, hr, Nat.le_refl _⟩
  | cons s segs ih =>
    intro r rest hr hs ht hb hm
    have hs' : stream inp r = encSeg ro s ++ ((segs.map (encSeg ro)).flatten ++ rest) := by
      rw [hs]; simp [List.append_assoc]
    obtain ⟨r1, h1, hs1, hr1, hp1, hb1⟩ := readSegment_pinned ro hl cfg hcfg inp lim r hr s _ hs'
      (ht s (by simp)).1 (ht s (by simp)).2 hb hm
    have hlen1 : (stream inp r1).length ≤ (stream inp r).length := by rw [hs1, hs']; simp
    obtain ⟨r2, h2, hs2, hr2, hp2⟩ := ih r1 rest hr1 hs1 (fun t ht' => ht t (by simp [ht']))
      (by rw [hs1]; exact hb1) (by omega)
    refine ⟨r2, ?_, hs2, hr2, by omega⟩
    simp only [List.length_cons, readSegments]
    rw [h1]
    simp only [ok_bind]
    rw [h2]
    simp

/-- `ReadFrom` (pinned) on everything `WriteTo` writes before the CRC -/
theorem readFrom_pinned (hl : ro.Lawful) (cfg : Cfg) (hcfg : cfg.boundedReads = false) (segs : List (Seg R))
    (ht : ∀ s ∈ segs, 3 ≤ s.typ.length ∧ s.typ.length ≤ 5)
    (hsize : (encBody ro segs).length ≤ maxAlloc) :
    ∃ r', readFrom ro cfg (encBody ro segs) = .ok (segs.map (normSeg ro), (encBody ro segs).length, r') ∧
      stream (encBody ro segs) r' = [] ∧ Inv r' := by
  generalize hinp : encBody ro segs = inp at *
  have hbody : inp = putUvarint 1 ++ (putUvarint segs.length ++ ((segs.map (encSeg ro)).flatten ++ [])) := by
    rw [← hinp]; simp [encBody, List.append_assoc]
  have hcnt : segs.length ≤ inp.length := by
    have h1 : ∀ l : List (Seg R), l.length ≤ ((l.map (encSeg ro)).flatten).length := by
      intro l
      induction l with
      | nil => simp
      | cons a l ih =>
        have := encSeg_length ro a
        have := putUvarint_length_pos a.typ.length
        simp only [List.map_cons, List.flatten_cons, List.length_append, List.length_cons]
        omega
    have := h1 segs
    rw [hbody]; simp only [List.length_append]; omega
  unfold maxAlloc at hsize
  unfold readFrom readFromRd
  have hs0 : stream inp {} = putUvarint 1 ++ (putUvarint segs.length ++ ((segs.map (encSeg ro)).flatten ++ [])) := by
    rw [stream_init]; exact hbody
  obtain ⟨r1, h1, hs1, hr1, ha1, hp1, _⟩ := peekUvarint_put cfg inp false {} inv_init 1 (by omega) _ hs0 (by intro h; cases h)
  rw [h1]
  simp only [ok_bind, if_true]
  obtain ⟨r2, h2, hs2, hr2, ha2, hp2, _⟩ := peekUvarint_put cfg inp false r1 hr1 segs.length (by omega) _ hs1 (by intro h; cases h)
  rw [h2]
  simp only [ok_bind]
  have hlc : loopCount cfg segs.length = segs.length := by
    unfold loopCount; split
    · rfl
    · rw [if_pos (by omega)]
  rw [hlc]
  have hlen2 : (stream inp r2).length ≤ inp.length := by
    rw [hs2, hbody]; simp only [List.length_append]; omega
  have halloc : r2.alloc = 0 := by rw [ha2, ha1]
  obtain ⟨r3, h3, hs3, hr3, _⟩ := readSegments_pinned ro hl cfg hcfg inp (allocLimit inp.length) segs r2 [] hr2 hs2 ht
    (by rw [halloc]; unfold allocLimit; omega) (by unfold maxAlloc; omega)
  rw [h3]
  simp only [ok_bind]
  refine ⟨r3, ?_, hs3, hr3⟩
  have hlen := congrArg List.length hbody
  simp only [List.length_append, List.length_nil] at hlen
  have : (putUvarint 1).length + (putUvarint segs.length).length + ((segs.map (encSeg ro)).flatten).length = inp.length := by omega
  rw [this]

/-- the repaired decoder reads one encoded segment back (no condition on the type name) -/
theorem readSegment_guarded (hl : ro.Lawful) (cfg : Cfg) (hcfg : cfg.boundedReads = true) (inp : Bytes) (lim : Nat) (r : Rd) (hr : Inv r) (s : Seg R) (rest : Bytes)
    (hs : stream inp r = encSeg ro s ++ rest) (hmax : (stream inp r).length < 2 ^ 64) :
    ∃ r', readSegment ro cfg inp lim r = .ok (normSeg ro s, (encSeg ro s).length, r') ∧
      stream inp r' = rest ∧ Inv r' ∧ r.pos ≤ r'.pos := by
  have hSlen : (stream inp r).length = (encSeg ro s).length + rest.length := by rw [hs]; simp
  have hseglen := encSeg_length ro s
  -- 1. the type string
  rw [encSeg_eq] at hs
  simp only [List.append_assoc] at hs
  obtain ⟨r1, h1, hs1, hr1, _, hp1, _⟩ := peekUvarint_put cfg inp false r hr s.typ.length (by omega) _ hs (by intro h; cases h)
  obtain ⟨r2, h2, hs2, hr2, _, hp2⟩ := readChunked_spec inp (s.typ.length + 1) s.typ.length [] r1 hr1 (by omega)
    (by rw [hs1]; simp)
  rw [hs1, List.nil_append, List.take_left] at h2
  rw [hs1, List.drop_left] at hs2
  -- 2. the version
  obtain ⟨r3, h3, hs3, hr3, _, hp3⟩ := readFull_spec inp 4 r2 hr2 (by rw [hs2]; simp [be32_length])
  have h3' : (stream inp r2).take 4 = be32 s.ver := by
    rw [hs2]; exact List.take_left' (be32_length _)
  rw [h3'] at h3
  have hs3' : stream inp r3 = putUvarint s.id.toNat ++ (encDel ro s ++ rest) := by
    rw [hs3, hs2]; exact List.drop_left' (be32_length _)
  -- 3. the id
  obtain ⟨r4, h4, hs4, hr4, _, hp4, _⟩ := peekUvarint_put cfg inp false r3 hr3 s.id.toNat s.id.isLt _ hs3' (by intro h; cases h)
  have hpre : readVarLenString cfg inp lim r = .ok (s.typ, (putUvarint s.typ.length).length + s.typ.length, r2) := by
    unfold readVarLenString
    simp only [hcfg, Bool.not_true]
    rw [h1]
    simp only [ok_bind, readStrBytes, hcfg, if_true]
    rw [h2]
    simp only [ok_bind]
  unfold readSegment
  rw [hpre]
  simp only [ok_bind, hcfg, if_true]
  rw [h3]
  simp only [Bool.false_eq_true, if_false, be32get_be32]
  rw [h4]
  simp only [ok_bind]
  cases hdel : s.deleted with
  | none =>
    have hs4' : stream inp r4 = putUvarint 0 ++ rest := by rw [hs4]; simp [encDel, hdel]
    obtain ⟨r5, h5, hs5, hr5, _, hp5, _⟩ := peekUvarint_put cfg inp false r4 hr4 0 (by omega) _ hs4' (by intro h; cases h)
    rw [h5]
    simp only [ok_bind, Nat.lt_irrefl, if_false, gt_iff_lt]
    refine ⟨r5, ?_, hs5, hr5, by omega⟩
    rw [normSeg_none ro s hdel]
    have hlen : (putUvarint s.typ.length).length + s.typ.length + (be32 s.ver).length + (putUvarint s.id.toNat).length + (putUvarint 0).length = (encSeg ro s).length := by
      rw [hseglen, be32_length]; simp [encDel, hdel]
    rw [hlen]
    have hid : BitVec.ofNat 64 s.id.toNat = s.id := by simp
    rw [hid]
    cases s; simp_all
  | some d =>
    have hpl : 0 < (ro.enc d).length := by
      have := hl.enc_ne d
      cases h : ro.enc d with
      | nil => exact absurd h this
      | cons _ _ => simp
    have hdl : (encDel ro s).length = (putUvarint (ro.enc d).length).length + (ro.enc d).length := by
      simp [encDel, hdel]
    have hs4' : stream inp r4 = putUvarint (ro.enc d).length ++ (ro.enc d ++ rest) := by
      rw [hs4]; simp [encDel, hdel, List.append_assoc]
    obtain ⟨r5, h5, hs5, hr5, _, hp5, _⟩ := peekUvarint_put cfg inp false r4 hr4 (ro.enc d).length
      (by omega) _ hs4' (by intro h; cases h)
    rw [h5]
    simp only [ok_bind, gt_iff_lt, hpl, if_true, readDelBytes, hcfg]
    obtain ⟨r7, h7, hs7, hr7, _, hp7⟩ := readChunked_spec inp ((ro.enc d).length + 1) (ro.enc d).length [] r5 hr5 (by omega)
      (by rw [hs5]; simp)
    rw [hs5, List.nil_append, List.take_left] at h7
    rw [h7]
    simp only [ok_bind, hl.dec_enc d]
    refine ⟨r7, ?_, by rw [hs7, hs5]; simp, hr7, by omega⟩
    rw [normSeg_some ro s d hdel]
    have hlen : (putUvarint s.typ.length).length + s.typ.length + (be32 s.ver).length + (putUvarint s.id.toNat).length + (putUvarint (ro.enc d).length).length + (ro.enc d).length = (encSeg ro s).length := by
      rw [hseglen, be32_length, hdl]; omega
    rw [hlen]
    have hid : BitVec.ofNat 64 s.id.toNat = s.id := by simp
    rw [hid]

theorem readSegments_guarded (hl : ro.Lawful) (cfg : Cfg) (hcfg : cfg.boundedReads = true) (inp : Bytes) (lim : Nat) :
    ∀ (segs : List (Seg R)) (r : Rd) (rest : Bytes), Inv r →
      stream inp r = (segs.map (encSeg ro)).flatten ++ rest → (stream inp r).length < 2 ^ 64 →
      ∃ r', readSegments ro cfg inp lim segs.length r =
          .ok (segs.map (normSeg ro), ((segs.map (encSeg ro)).flatten).length, r') ∧
        stream inp r' = rest ∧ Inv r' ∧ r.pos ≤ r'.pos := by
  intro segs
  induction segs with
  | nil =>
    intro r rest hr hs _
    exact ⟨r, by simp [readSegments], by simpa using hs, hr, Nat.le_refl _⟩
  | cons s segs ih =>
    intro r rest hr hs hm
    have hs' : stream inp r = encSeg ro s ++ ((segs.map (encSeg ro)).flatten ++ rest) := by
      rw [hs]; simp [List.append_assoc]
    obtain ⟨r1, h1, hs1, hr1, hp1⟩ := readSegment_guarded ro hl cfg hcfg inp lim r hr s _ hs' hm
    have hlen1 : (stream inp r1).length ≤ (stream inp r).length := by rw [hs1, hs']; simp
    obtain ⟨r2, h2, hs2, hr2, hp2⟩ := ih r1 rest hr1 hs1 (by omega)
    refine ⟨r2, ?_, hs2, hr2, by omega⟩
    simp only [List.length_cons, readSegments]
    rw [h1]
    simp only [ok_bind]
    rw [h2]
    simp

/-- `ReadFrom` (repaired) on everything `WriteTo` writes before the CRC: no condition on type names -/
theorem readFrom_guarded (hl : ro.Lawful) (cfg : Cfg) (hcfg : cfg.boundedReads = true) (segs : List (Seg R)) (hsize : (encBody ro segs).length < 2 ^ 63) :
    ∃ r', readFrom ro cfg (encBody ro segs) = .ok (segs.map (normSeg ro), (encBody ro segs).length, r') ∧
      stream (encBody ro segs) r' = [] ∧ Inv r' := by
  generalize hinp : encBody ro segs = inp at *
  have hbody : inp = putUvarint 1 ++ (putUvarint segs.length ++ ((segs.map (encSeg ro)).flatten ++ [])) := by
    rw [← hinp]; simp [encBody, List.append_assoc]
  have hcnt : segs.length ≤ inp.length := by
    have h1 : ∀ l : List (Seg R), l.length ≤ ((l.map (encSeg ro)).flatten).length := by
      intro l
      induction l with
      | nil => simp
      | cons a l ih =>
        have := encSeg_length ro a
        have := putUvarint_length_pos a.typ.length
        simp only [List.map_cons, List.flatten_cons, List.length_append, List.length_cons]
        omega
    have := h1 segs
    rw [hbody]; simp only [List.length_append]; omega
  unfold readFrom readFromRd
  have hs0 : stream inp {} = putUvarint 1 ++ (putUvarint segs.length ++ ((segs.map (encSeg ro)).flatten ++ [])) := by
    rw [stream_init]; exact hbody
  obtain ⟨r1, h1, hs1, hr1, _, _, _⟩ := peekUvarint_put cfg inp false {} inv_init 1 (by omega) _ hs0 (by intro h; cases h)
  rw [h1]
  simp only [ok_bind, if_true]
  obtain ⟨r2, h2, hs2, hr2, _, _, _⟩ := peekUvarint_put cfg inp false r1 hr1 segs.length (by omega) _ hs1 (by intro h; cases h)
  rw [h2]
  simp only [ok_bind]
  have hlc : loopCount cfg segs.length = segs.length := by
    unfold loopCount; split
    · rfl
    · rw [if_pos (by omega)]
  rw [hlc]
  have hlen2 : (stream inp r2).length ≤ inp.length := by
    rw [hs2, hbody]; simp only [List.length_append]; omega
  obtain ⟨r3, h3, hs3, hr3, _⟩ := readSegments_guarded ro hl cfg hcfg inp (allocLimit inp.length) segs r2 [] hr2 hs2 (by omega)
  rw [h3]
  simp only [ok_bind]
  refine ⟨r3, ?_, hs3, hr3⟩
  have hlen := congrArg List.length hbody
  simp only [List.length_append, List.length_nil] at hlen
  have : (putUvarint 1).length + (putUvarint segs.length).length + ((segs.map (encSeg ro)).flatten).length = inp.length := by omega
  rw [this]

/-- from the decoder's round trip to `loadSnapshot`'s: the whole body was pulled, so the CRC matches -/
theorem loadSnapshot_of_readFrom (cfg : Cfg) (mmap : Bool) (segs : List (Seg R)) (ss : List (Seg R)) (n : Nat) (r : Rd)
    (h : readFrom ro cfg (encBody ro segs) = .ok (ss, n, r)) (hs : stream (encBody ro segs) r = [])
    (hn : n = (encBody ro segs).length) :
    loadSnapshot ro cfg mmap (encFile ro segs) = .ok ss := by
  have hb : bodyOf (encFile ro segs) = encBody ro segs := by
    simp [bodyOf, encFile, be32_length]
  have ht : trailerOf (encFile ro segs) = be32 (crc32 (encBody ro segs)) := by
    simp [trailerOf, encFile, be32_length]
  have hpos : (encBody ro segs).take r.pos = encBody ro segs := by
    apply List.take_of_length_le
    have : (encBody ro segs).drop r.pos = [] := by
      unfold stream at hs
      exact (List.append_eq_nil_iff.mp hs).2
    have := List.drop_eq_nil_iff.mp this
    omega
  unfold loadSnapshot
  simp only [hb, h, ht, hpos]
  rw [if_neg (by simp [hn])]
  rw [if_neg (by simp [encFile, be32_length])]
  simp

end

end Bluge.C12

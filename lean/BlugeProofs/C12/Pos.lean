import BlugeProofs.C12.PeekC
import Bluge.Codec
import BlugeProofs.C12.Reader
import BlugeProofs.C12.Decode
/-! The number of bytes pulled from the file never decreases, and the first `Peek` pulls a whole file of
at most 4096 bytes (helper module of C12: which bytes the CRC covers). -/
namespace Bluge.C12
open Bluge.Codec

theorem peekLoop_pos_le (inp : Bytes) : ∀ (fuel : Nat) (r : Rd), r.pos ≤ (peekLoop inp fuel r).pos := by
  intro fuel
  induction fuel with
  | zero => intro r; exact Nat.le_refl _
  | succ fuel ih =>
    intro r
    simp only [peekLoop]
    split
    · exact Nat.le_trans (fill_pos_le inp r) (ih _)
    · exact Nat.le_refl _

theorem fill_pos_bound (inp : Bytes) (r : Rd) (h : r.pos ≤ inp.length) : (fill inp r).pos ≤ inp.length := by
  unfold fill; dsimp only; split
  · exact h
  · dsimp only; omega

theorem peekLoop_pos_bound (inp : Bytes) : ∀ (fuel : Nat) (r : Rd), r.pos ≤ inp.length →
    (peekLoop inp fuel r).pos ≤ inp.length := by
  intro fuel
  induction fuel with
  | zero => intro r h; exact h
  | succ fuel ih =>
    intro r h
    simp only [peekLoop]
    split
    · exact ih _ (fill_pos_bound inp r h)
    · exact h

theorem peek10_pos_le (inp : Bytes) (r : Rd) : r.pos ≤ (peek10 inp r).2.2.pos := by
  unfold peek10
  simp only
  split <;> exact peekLoop_pos_le inp 11 r

theorem discardLoop_pos_le (inp : Bytes) : ∀ (fuel remain : Nat) (r : Rd),
    r.pos ≤ (discardLoop inp fuel remain r).2.2.pos := by
  intro fuel
  induction fuel with
  | zero => intro remain r; exact Nat.le_refl _
  | succ fuel ih =>
    intro remain r
    have key : ∀ r0 : Rd, r.pos ≤ r0.pos →
        r.pos ≤ (if remain - min r0.buf.length remain = 0 then
              ((false, 0, { r0 with buf := r0.buf.drop (min r0.buf.length remain) }) : Bool × Nat × Rd)
            else if r0.eof = true then
              (true, remain - min r0.buf.length remain, { r0 with buf := r0.buf.drop (min r0.buf.length remain), eof := false })
            else discardLoop inp fuel (remain - min r0.buf.length remain)
              { r0 with buf := r0.buf.drop (min r0.buf.length remain) }).2.2.pos := by
      intro r0 h0
      split
      · exact h0
      · split
        · exact h0
        · exact Nat.le_trans h0 (ih _ { r0 with buf := r0.buf.drop (min r0.buf.length remain) })
    simp only [discardLoop]
    by_cases hb : r.buf.length = 0
    · simp only [hb, if_true]
      exact key (fill inp r) (fill_pos_le inp r)
    · simp only [hb, if_false]
      exact key r (Nat.le_refl _)

theorem discard_pos_le (inp : Bytes) (n : Nat) (r : Rd) : r.pos ≤ (Codec.discard inp n r).2.2.pos := by
  unfold Codec.discard
  split
  · exact Nat.le_refl _
  · exact discardLoop_pos_le inp _ _ r

theorem read_pos_le (inp : Bytes) (n : Nat) (r : Rd) : r.pos ≤ (Codec.read inp n r).2.2.pos := by
  unfold Codec.read
  by_cases h0 : n = 0
  · rw [if_pos h0]; split <;> exact Nat.le_refl _
  · rw [if_neg h0]
    by_cases hb : r.buf.length = 0
    · rw [if_pos hb]
      by_cases he : r.eof = true
      · rw [if_pos he]; exact Nat.le_refl _
      · rw [if_neg he]
        dsimp only
        by_cases hav : inp.length - r.pos = 0
        · rw [if_pos hav]; exact Nat.le_refl _
        · rw [if_neg hav]
          split <;> (dsimp only; omega)
    · rw [if_neg hb]; exact Nat.le_refl _

theorem readFullLoop_pos_le (inp : Bytes) : ∀ (fuel need : Nat) (acc : Bytes) (r : Rd),
    r.pos ≤ (readFullLoop inp fuel need acc r).2.pos := by
  intro fuel
  induction fuel with
  | zero => intro need acc r; exact Nat.le_refl _
  | succ fuel ih =>
    intro need acc r
    simp only [readFullLoop]
    split
    · exact Nat.le_refl _
    · have h := read_pos_le inp need r
      rcases hrd : Codec.read inp need r with ⟨bs, e, r1⟩
      rw [hrd] at h
      simp only at h ⊢
      split
      · exact h
      · exact Nat.le_trans h (ih _ _ _)

theorem readFull_pos_le (inp : Bytes) (n : Nat) (r : Rd) : r.pos ≤ (readFull inp n r).2.pos :=
  readFullLoop_pos_le inp _ _ _ r

theorem readChunked_pos_le (inp : Bytes) : ∀ (fuel need : Nat) (acc : Bytes) (r : Rd),
    r.pos ≤ (readChunked inp fuel need acc r).2.pos := by
  intro fuel
  induction fuel with
  | zero => intro need acc r; exact Nat.le_refl _
  | succ fuel ih =>
    intro need acc r
    simp only [readChunked]
    split
    · exact Nat.le_refl _
    · have h := readFull_pos_le inp (min need bufSize) r
      rcases hrf : readFull inp (min need bufSize) r with ⟨o, r1⟩
      rw [hrf] at h
      cases o with
      | none => exact h
      | some bs => exact Nat.le_trans h (ih _ _ _)

/-- a successful outcome carries a reader that has pulled at least `p` bytes -/
def posGe {α : Type} (p : Nat) (proj : α → Rd) (x : Outcome α) : Prop :=
  ∀ a, x = .ok a → p ≤ (proj a).pos

theorem posGe_bind {α β : Type} {p : Nat} {pa : α → Rd} {pb : β → Rd} {x : Outcome α} {f : α → Outcome β}
    (hx : posGe p pa x) (hf : ∀ a, p ≤ (pa a).pos → posGe p pb (f a)) : posGe p pb (x >>= f) := by
  intro b hb
  cases x with
  | ok a => exact hf a (hx a rfl) b hb
  | error e => cases hb
  | panic s => cases hb
  | alloc s n => cases hb
  | fault s => cases hb

theorem posGe_mono {α : Type} {p q : Nat} {proj : α → Rd} {x : Outcome α} (h : p ≤ q) (hx : posGe q proj x) :
    posGe p proj x := fun a ha => Nat.le_trans h (hx a ha)

theorem posGe_error {α : Type} (p : Nat) (proj : α → Rd) (e : Err) : posGe p proj (.error e : Outcome α) := by
  intro a h; cases h

theorem posGe_ok {α : Type} {p : Nat} {proj : α → Rd} {a : α} (h : p ≤ (proj a).pos) : posGe p proj (.ok a) := by
  intro b hb; cases hb; exact h

theorem peekUvarint_posGe (inp : Bytes) (strict : Bool) (r : Rd) :
    posGe r.pos (fun x : Nat × Nat × Rd => x.2.2) (peekUvarint inp strict r) := by
  unfold peekUvarint
  have h1 := peek10_pos_le inp r
  rcases hpk : peek10 inp r with ⟨pk, e, r1⟩
  rw [hpk] at h1
  simp only at h1 ⊢
  split
  · exact posGe_error _ _ _
  · split
    · exact posGe_error _ _ _
    · have h2 := discard_pos_le inp (uvarint pk).2.toNat r1
      rcases hd : Codec.discard inp (uvarint pk).2.toNat r1 with ⟨k, e2, r2⟩
      rw [hd] at h2
      simp only at h2 ⊢
      split
      · exact posGe_error _ _ _
      · exact posGe_ok (Nat.le_trans h1 h2)

theorem peekUvarintC_posGe (cfg : Cfg) (inp : Bytes) (strict : Bool) (r : Rd) :
    posGe r.pos (fun x : Nat × Nat × Rd => x.2.2) (peekUvarintC cfg inp strict r) := by
  rcases peekUvarintC_cases cfg inp strict r with h | h
  · rw [h]; exact peekUvarint_posGe inp strict r
  · rw [h]; exact posGe_error _ _ _

theorem makeBytes_posGe (site : Site) (lim n : Nat) (r : Rd) : posGe r.pos (fun x : Rd => x) (makeBytes site lim n r) := by
  unfold makeBytes
  split
  · intro a h; cases h
  · split
    · intro a h; cases h
    · exact posGe_ok (Nat.le_refl _)

theorem readStrBytes_posGe (cfg : Cfg) (inp : Bytes) (lim n : Nat) (r : Rd) :
    posGe r.pos (fun x : Bytes × Nat × Rd => x.2.2) (readStrBytes cfg inp lim n r) := by
  unfold readStrBytes
  split
  · have h := readChunked_pos_le inp (n + 1) n [] r
    rcases hrc : readChunked inp (n + 1) n [] r with ⟨o, r1⟩
    rw [hrc] at h
    cases o with
    | none => exact posGe_error _ _ _
    | some bs => exact posGe_ok h
  · apply posGe_bind (makeBytes_posGe .str lim n r)
    intro r1 hr1
    have h := read_pos_le inp n r1
    rcases hrd : Codec.read inp n r1 with ⟨bs, e, r2⟩
    rw [hrd] at h
    simp only at h ⊢
    split
    · exact posGe_error _ _ _
    · exact posGe_ok (Nat.le_trans hr1 h)

theorem readDelBytes_posGe (cfg : Cfg) (inp : Bytes) (lim n : Nat) (r : Rd) :
    posGe r.pos (fun x : Bytes × Rd => x.2) (readDelBytes cfg inp lim n r) := by
  unfold readDelBytes
  split
  · have h := readChunked_pos_le inp (n + 1) n [] r
    rcases hrc : readChunked inp (n + 1) n [] r with ⟨o, r1⟩
    rw [hrc] at h
    cases o with
    | none => exact posGe_error _ _ _
    | some bs => exact posGe_ok h
  · apply posGe_bind (makeBytes_posGe .del lim n r)
    intro r1 hr1
    have h := readFull_pos_le inp n r1
    rcases hrf : readFull inp n r1 with ⟨o, r2⟩
    rw [hrf] at h
    cases o with
    | none => exact posGe_error _ _ _
    | some bs => exact posGe_ok (Nat.le_trans hr1 h)

theorem readVarLenString_posGe (cfg : Cfg) (inp : Bytes) (lim : Nat) (r : Rd) :
    posGe r.pos (fun x : Bytes × Nat × Rd => x.2.2) (readVarLenString cfg inp lim r) := by
  unfold readVarLenString
  apply posGe_bind (peekUvarintC_posGe cfg inp _ r)
  rintro ⟨strLen, k, r1⟩ h1
  apply posGe_bind (posGe_mono h1 (readStrBytes_posGe cfg inp lim strLen r1))
  rintro ⟨s, k2, r2⟩ h2
  exact posGe_ok h2

section
variable {R : Type} (ro : Roar R)

local macro "seg_tail_pos" h:ident : tactic => `(tactic| (
    apply posGe_bind (posGe_mono $h (peekUvarintC_posGe _ _ _ _))
    rintro ⟨id, n3, r3⟩ h3
    apply posGe_bind (posGe_mono h3 (peekUvarintC_posGe _ _ _ _))
    rintro ⟨delLen, n4, r4⟩ h4
    dsimp only
    split
    · apply posGe_bind (posGe_mono h4 (readDelBytes_posGe _ _ _ _ _))
      rintro ⟨db, r5⟩ h5
      dsimp only
      split
      · exact posGe_error _ _ _
      · exact posGe_ok h5
    · exact posGe_ok h4))

theorem readSegment_posGe (cfg : Cfg) (inp : Bytes) (lim : Nat) (r : Rd) :
    posGe r.pos (fun x : Seg R × Nat × Rd => x.2.2) (readSegment ro cfg inp lim r) := by
  unfold readSegment
  apply posGe_bind (readVarLenString_posGe cfg inp lim r)
  rintro ⟨typ, n1, r1⟩ h1
  dsimp only at h1 ⊢
  by_cases hc : cfg.boundedReads = true
  · simp only [hc, if_true]
    have hf := readFull_pos_le inp 4 r1
    rcases hrf : readFull inp 4 r1 with ⟨_ | bs, r2⟩
    · try dsimp only
      exact posGe_error _ _ _
    · rw [hrf] at hf
      try dsimp only
      rw [if_neg (by simp)]
      have h2 : r.pos ≤ r2.pos := Nat.le_trans h1 hf
      seg_tail_pos h2
  · simp only [hc]
    have hf := read_pos_le inp 4 r1
    generalize Codec.read inp 4 r1 = t at hf
    rcases t with ⟨vb, e, r2⟩
    have h2 : r.pos ≤ r2.pos := Nat.le_trans h1 hf
    cases e
    · rw [if_neg (by simp)]
      seg_tail_pos h2
    · rw [if_pos (by simp)]
      exact posGe_error _ _ _

theorem readSegments_posGe (cfg : Cfg) (inp : Bytes) (lim : Nat) : ∀ (cnt : Nat) (r : Rd),
    posGe r.pos (fun x : List (Seg R) × Nat × Rd => x.2.2) (readSegments ro cfg inp lim cnt r) := by
  intro cnt
  induction cnt with
  | zero => intro r; exact posGe_ok (Nat.le_refl _)
  | succ cnt ih =>
    intro r
    simp only [readSegments]
    apply posGe_bind (readSegment_posGe ro cfg inp lim r)
    rintro ⟨s, n, r1⟩ h1
    apply posGe_bind (posGe_mono h1 (ih r1))
    rintro ⟨ss, m, r2⟩ h2
    exact posGe_ok h2

theorem readFromRd_posGe (cfg : Cfg) (inp : Bytes) (lim : Nat) (r : Rd) (p : Nat)
    (hfirst : ∀ v k r1, peekUvarint inp false r = .ok (v, k, r1) → p ≤ r1.pos) :
    posGe p (fun x : List (Seg R) × Nat × Rd => x.2.2) (readFromRd ro cfg inp lim r) := by
  unfold readFromRd
  intro a ha
  cases hpk : peekUvarintC cfg inp false r with
  | ok x =>
    obtain ⟨v, k, r1⟩ := x
    have hp := hfirst v k r1 (peekUvarintC_ok hpk)
    rw [hpk] at ha
    simp only [ok_bind] at ha
    revert a
    show posGe p _ _
    split
    · apply posGe_bind (posGe_mono hp (peekUvarintC_posGe cfg inp false r1))
      rintro ⟨c, n1, r2⟩ h2
      apply posGe_bind (posGe_mono h2 (readSegments_posGe ro cfg inp lim _ r2))
      rintro ⟨ss, m, r3⟩ h3
      exact posGe_ok h3
    · exact posGe_error _ _ _
  | error e => rw [hpk] at ha; cases ha
  | panic s => rw [hpk] at ha; cases ha
  | alloc s n => rw [hpk] at ha; cases ha
  | fault s => rw [hpk] at ha; cases ha

end

/-- the first `Peek` of a decode pulls everything when the input fits the buffer -/
theorem peek10_init_pos (inp : Bytes) (h : inp.length ≤ 4096) : (peek10 inp {}).2.2.pos = inp.length := by
  obtain ⟨r1, hr1, hs, hb, _, _, hcase⟩ := peekLoop_spec inp {} inv_init
  unfold peek10
  simp only [hr1]
  have hst : stream inp {} = inp := stream_init inp
  rw [hst] at hs hcase
  -- stream r1 = inp and r1.buf is all of it unless pos stopped early; pos + buffered = length
  have hlen : r1.buf.length + (inp.length - r1.pos) = inp.length := by
    have := congrArg List.length hs
    simp [stream, List.length_drop] at this
    exact this
  have hbound : r1.pos ≤ inp.length := by
    rw [← hr1]; exact peekLoop_pos_bound inp 11 {} (Nat.zero_le _)
  have : r1.pos = inp.length := by
    by_cases h0 : inp.length = 0
    · omega
    · have hf : fill inp {} = { buf := inp, pos := inp.length } := by
        simp only [fill]
        rw [if_neg (by simpa using h0)]
        simp only [bufSize_eq, List.length_nil, Nat.sub_zero, List.drop_zero, List.nil_append, Nat.zero_add]
        rw [Nat.min_eq_right h, List.take_of_length_le (Nat.le_refl _)]
      have hge := peekLoop_pos_le inp 10 (fill inp {})
      have h1 : peekLoop inp 11 {} = peekLoop inp 10 (fill inp {}) := by
        simp [peekLoop, bufSize_eq]
      rw [h1, hf] at hr1
      rw [hf] at hge
      simp only at hge
      rw [hr1] at hge
      omega
  split <;> simp only [this]

theorem pulled_all_of_small {R : Type} (ro : Roar R) (cfg : Cfg) (inp : Bytes) (h : inp.length ≤ 4096)
    (ss : List (Seg R)) (n : Nat) (r : Rd) (hok : readFrom ro cfg inp = .ok (ss, n, r)) :
    inp.take r.pos = inp := by
  apply List.take_of_length_le
  have := readFromRd_posGe ro cfg inp (allocLimit inp.length) {} inp.length (by
    intro v k r1 hpk
    unfold peekUvarint at hpk
    have hp := peek10_init_pos inp h
    rcases hpk10 : peek10 inp {} with ⟨pk, e, r0⟩
    rw [hpk10] at hpk hp
    simp only [Bool.false_and, Bool.false_eq_true, if_false] at hpk hp
    split at hpk
    · cases hpk
    · have hd := discard_pos_le inp (uvarint pk).2.toNat r0
      rcases hdd : Codec.discard inp (uvarint pk).2.toNat r0 with ⟨k', e', r0'⟩
      rw [hdd] at hpk hd
      simp only at hpk hd
      split at hpk
      · cases hpk
      · cases hpk
        omega)
  exact this (ss, n, r) hok

end Bluge.C12

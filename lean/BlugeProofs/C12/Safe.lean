import BlugeProofs.C12.PeekC
import Bluge.Codec
import BlugeProofs.C12.Decode
/-! Where the decoder can leave the safe outcomes `ok | error` (helper module of C12). -/
namespace Bluge.C12
open Bluge.Codec

/-- every unsafe outcome (`panic`, `alloc`, `fault`) of `x` arises at a site satisfying `P` -/
def sitesIn {α : Type} (P : Site → Prop) : Outcome α → Prop
  | .ok _ => True
  | .error _ => True
  | .panic s => P s
  | .alloc s _ => P s
  | .fault s => P s

theorem sitesIn_ok {α : Type} (P : Site → Prop) (a : α) : sitesIn P (Outcome.ok a) := trivial
theorem sitesIn_error {α : Type} (P : Site → Prop) (e : Err) : sitesIn P (Outcome.error e : Outcome α) := trivial

theorem sitesIn_bind {α β : Type} {P : Site → Prop} {x : Outcome α} {f : α → Outcome β}
    (hx : sitesIn P x) (hf : ∀ a, sitesIn P (f a)) : sitesIn P (x >>= f) := by
  cases x with
  | ok a => exact hf a
  | error e => trivial
  | panic s => exact hx
  | alloc s n => exact hx
  | fault s => exact hx

theorem sitesIn_mono {α : Type} {P Q : Site → Prop} (h : ∀ s, P s → Q s) {x : Outcome α} (hx : sitesIn P x) : sitesIn Q x := by
  cases x <;> first | trivial | exact h _ hx

theorem safe_of_sitesIn_false {α : Type} {x : Outcome α} (h : sitesIn (fun _ => False) x) : x.safe = true := by
  cases x <;> first | rfl | exact h.elim

theorem peekUvarint_sites (P : Site → Prop) (inp : Bytes) (strict : Bool) (r : Rd) :
    sitesIn P (peekUvarint inp strict r) := by
  unfold peekUvarint
  simp only []
  split
  · trivial
  · split
    · trivial
    · split <;> trivial

theorem peekUvarintC_sites (P : Site → Prop) (cfg : Cfg) (inp : Bytes) (strict : Bool) (r : Rd) :
    sitesIn P (peekUvarintC cfg inp strict r) := by
  rcases peekUvarintC_cases cfg inp strict r with h | h
  · rw [h]; exact peekUvarint_sites P inp strict r
  · rw [h]; trivial

theorem makeBytes_sites (site : Site) (lim n : Nat) (r : Rd) : sitesIn (· = site) (makeBytes site lim n r) := by
  unfold makeBytes
  split
  · rfl
  · split
    · rfl
    · trivial

section
variable {R : Type} (ro : Roar R)

/-- the sites at which configuration `cfg` can leave `ok | error` while decoding -/
def decodeSites (cfg : Cfg) (s : Site) : Prop := cfg.boundedReads = false ∧ (s = .str ∨ s = .del)

theorem readStrBytes_sites (cfg : Cfg) (inp : Bytes) (lim n : Nat) (r : Rd) :
    sitesIn (decodeSites cfg) (readStrBytes cfg inp lim n r) := by
  unfold readStrBytes
  by_cases hc : cfg.boundedReads = true
  · rw [if_pos hc]; split <;> trivial
  · rw [if_neg hc]
    apply sitesIn_bind
    · exact sitesIn_mono (fun s hs => ⟨by simpa using hc, Or.inl hs⟩) (makeBytes_sites .str lim n r)
    · intro r'
      (repeat' split) <;> trivial

theorem readDelBytes_sites (cfg : Cfg) (inp : Bytes) (lim n : Nat) (r : Rd) :
    sitesIn (decodeSites cfg) (readDelBytes cfg inp lim n r) := by
  unfold readDelBytes
  by_cases hc : cfg.boundedReads = true
  · rw [if_pos hc]; split <;> trivial
  · rw [if_neg hc]
    apply sitesIn_bind
    · exact sitesIn_mono (fun s hs => ⟨by simpa using hc, Or.inr hs⟩) (makeBytes_sites .del lim n r)
    · intro r'
      (repeat' split) <;> trivial

theorem readVarLenString_sites (cfg : Cfg) (inp : Bytes) (lim : Nat) (r : Rd) :
    sitesIn (decodeSites cfg) (readVarLenString cfg inp lim r) := by
  unfold readVarLenString
  apply sitesIn_bind (peekUvarintC_sites _ _ _ _ _)
  rintro ⟨strLen, k, r1⟩
  apply sitesIn_bind (readStrBytes_sites cfg inp lim strLen r1)
  rintro ⟨s, k2, r2⟩
  trivial

local macro "seg_tail" : tactic => `(tactic| (
    apply sitesIn_bind (peekUvarintC_sites _ _ _ _ _)
    rintro ⟨id, n3, r3⟩
    apply sitesIn_bind (peekUvarintC_sites _ _ _ _ _)
    rintro ⟨delLen, n4, r4⟩
    dsimp only
    split
    · apply sitesIn_bind (readDelBytes_sites _ _ _ _ _)
      rintro ⟨db, r5⟩
      dsimp only
      split <;> trivial
    · trivial))

theorem readSegment_sites (cfg : Cfg) (inp : Bytes) (lim : Nat) (r : Rd) :
    sitesIn (decodeSites cfg) (readSegment ro cfg inp lim r) := by
  unfold readSegment
  apply sitesIn_bind (readVarLenString_sites cfg inp lim r)
  rintro ⟨typ, n1, r1⟩
  dsimp only
  by_cases hc : cfg.boundedReads = true
  · simp only [hc, if_true]
    rcases hrf : readFull inp 4 r1 with ⟨_ | bs, r2⟩
    · try dsimp only
      trivial
    · try dsimp only
      rw [if_neg (by simp)]
      seg_tail
  · simp only [hc]
    generalize Codec.read inp 4 r1 = t
    rcases t with ⟨vb, e, r2⟩
    cases e
    · rw [if_neg (by simp)]
      seg_tail
    · rw [if_pos (by simp)]
      trivial

theorem readSegments_sites (cfg : Cfg) (inp : Bytes) (lim : Nat) : ∀ (cnt : Nat) (r : Rd),
    sitesIn (decodeSites cfg) (readSegments ro cfg inp lim cnt r) := by
  intro cnt
  induction cnt with
  | zero => intro r; trivial
  | succ cnt ih =>
    intro r
    simp only [readSegments]
    apply sitesIn_bind (readSegment_sites ro cfg inp lim r)
    rintro ⟨s, n, r1⟩
    apply sitesIn_bind (ih r1)
    rintro ⟨ss, m, r2⟩
    trivial

theorem readFromRd_sites (cfg : Cfg) (inp : Bytes) (lim : Nat) (r : Rd) :
    sitesIn (decodeSites cfg) (readFromRd ro cfg inp lim r) := by
  unfold readFromRd
  apply sitesIn_bind (peekUvarintC_sites _ _ _ _ _)
  rintro ⟨v, n0, r1⟩
  simp only []
  split
  · apply sitesIn_bind (peekUvarintC_sites _ _ _ _ _)
    rintro ⟨c, n1, r2⟩
    apply sitesIn_bind (readSegments_sites ro cfg inp lim _ r2)
    rintro ⟨ss, m, r3⟩
    trivial
  · trivial

theorem readFrom_sites (cfg : Cfg) (inp : Bytes) : sitesIn (decodeSites cfg) (readFrom ro cfg inp) :=
  readFromRd_sites ro cfg inp _ _

/-- an input without a single byte is rejected: format version 0 (a missing field, once `Uvarint`'s `n` is checked) -/
theorem readFrom_nil (cfg : Cfg) :
    readFrom ro cfg [] = .error (if cfg.lengthChecked = true then .eof else .version) := by
  cases h : cfg.lengthChecked
  · have : readFrom ro cfg [] = readFrom ro { cfg with lengthChecked := false } [] := by
      congr 1; cases cfg; simp_all
    rw [this]; rfl
  · have : readFrom ro cfg [] = readFrom ro { cfg with lengthChecked := true } [] := by
      congr 1; cases cfg; simp_all
    rw [this]; rfl

theorem readFrom_nil_error (cfg : Cfg) : ∃ e, readFrom ro cfg [] = .error e := ⟨_, readFrom_nil ro cfg⟩

end

theorem loadSnapshot_sites {R : Type} (ro : Roar R) (cfg : Cfg) (mmap : Bool) (file : Bytes) :
    sitesIn (fun s => decodeSites cfg s ∨ (s = .crcBytes ∧ mmap = true ∧ cfg.crcCopy = false))
      (loadSnapshot ro cfg mmap file) := by
  unfold loadSnapshot
  dsimp only
  have h := readFrom_sites ro cfg (bodyOf file)
  cases hrf : readFrom ro cfg (bodyOf file) with
  | ok x =>
    obtain ⟨ss', n, r⟩ := x
    simp only
    by_cases h4 : file.length < 4
    · exfalso
      have hb : bodyOf file = [] := by
        unfold bodyOf
        have : file.length - 4 = 0 := by omega
        rw [this]; rfl
      rw [hb, readFrom_nil] at hrf; cases hrf
    · simp only [h4, if_false]
      split
      · trivial
      · split
        · trivial
        · split
          · rename_i hc
            simp only [Bool.and_eq_true, Bool.not_eq_true'] at hc
            exact Or.inr ⟨rfl, hc.1, hc.2⟩
          · trivial
  | error e => trivial
  | panic s => rw [hrf] at h; exact Or.inl h
  | alloc s n => rw [hrf] at h; exact Or.inl h
  | fault s => rw [hrf] at h; exact Or.inl h


end Bluge.C12

import Bluge.Codec
/-! Lemmas about `putUvarint` / `uvarint` (helper module of C12). -/
namespace Bluge.C12
open Bluge.Codec

theorem putUvarintFuel_small (f x : Nat) (h : x < 128) : putUvarintFuel f x = [BitVec.ofNat 8 x] := by
  cases f <;> simp [putUvarintFuel, h]

/-- enough fuel is as good as any other amount of enough fuel -/
theorem putUvarintFuel_irrel : ∀ (f x : Nat), x ≤ f → putUvarintFuel f x = putUvarintFuel x x := by
  intro f
  induction f using Nat.strongRecOn with
  | _ f ih =>
    intro x hx
    by_cases h : x < 128
    · rw [putUvarintFuel_small f x h, putUvarintFuel_small x x h]
    · cases f with
      | zero => omega
      | succ f' =>
        cases x with
        | zero => omega
        | succ x' =>
          simp only [putUvarintFuel, h, if_false]
          have hdiv : (x' + 1) / 128 ≤ x' := by omega
          rw [ih f' (by omega) _ (by omega), ih x' (by omega) _ hdiv]

theorem putUvarint_small (x : Nat) (h : x < 128) : putUvarint x = [BitVec.ofNat 8 x] :=
  putUvarintFuel_small x x h

theorem putUvarint_big (x : Nat) (h : ¬ x < 128) :
    putUvarint x = BitVec.ofNat 8 (x % 128 + 128) :: putUvarint (x / 128) := by
  unfold putUvarint
  cases x with
  | zero => omega
  | succ x' =>
    simp only [putUvarintFuel, h, if_false]
    rw [putUvarintFuel_irrel x' _ (by omega)]

theorem putUvarint_ne_nil (x : Nat) : putUvarint x ≠ [] := by
  by_cases h : x < 128
  · rw [putUvarint_small x h]; simp
  · rw [putUvarint_big x h]; simp

/-- length of the encoding: at most `10 - i` bytes when the value fits in `64 - 7i` bits -/
theorem putUvarint_length_aux (x : Nat) : ∀ i : Nat, i ≤ 9 → x < 2 ^ (64 - 7 * i) →
    (putUvarint x).length ≤ 10 - i := by
  induction x using Nat.strongRecOn with
  | _ x ih =>
    intro i hi hx
    by_cases h : x < 128
    · rw [putUvarint_small x h]; simp; omega
    · rw [putUvarint_big x h]
      have hi8 : i ≤ 8 := by
        by_cases h9 : i = 9
        · subst h9; simp at hx; omega
        · omega
      have hpow : (2:Nat) ^ (64 - 7 * i) = 128 * 2 ^ (64 - 7 * (i + 1)) := by
        have : 64 - 7 * i = 7 + (64 - 7 * (i + 1)) := by omega
        rw [this, Nat.pow_add]
      have hx' : x / 128 < 2 ^ (64 - 7 * (i + 1)) := by
        rw [hpow] at hx
        exact Nat.div_lt_of_lt_mul hx
      have := ih (x / 128) (by omega) (i + 1) (by omega) hx'
      simp; omega

theorem putUvarint_length_le (x : Nat) (h : x < 2 ^ 64) : (putUvarint x).length ≤ 10 := by
  have := putUvarint_length_aux x 0 (by omega) (by simpa using h)
  omega

theorem putUvarint_length_pos (x : Nat) : 0 < (putUvarint x).length := by
  have := putUvarint_ne_nil x
  cases h : putUvarint x with
  | nil => exact absurd h this
  | cons _ _ => simp

theorem putUvarint_length_one (x : Nat) (h : x < 128) : (putUvarint x).length = 1 := by
  rw [putUvarint_small x h]; rfl

/-- the decoding loop run on an encoding (followed by anything) returns the value and the length -/
theorem uvarintAux_put (x : Nat) : ∀ (i acc : Nat) (rest : Bytes), i ≤ 9 → x < 2 ^ (64 - 7 * i) →
    uvarintAux (putUvarint x ++ rest) i acc (7 * i) =
      (acc + x * 2 ^ (7 * i), ((i + (putUvarint x).length : Nat) : Int)) := by
  induction x using Nat.strongRecOn with
  | _ x ih =>
    intro i acc rest hi hx
    by_cases h : x < 128
    · rw [putUvarint_small x h]
      have hb : (BitVec.ofNat 8 x).toNat = x := by simp [BitVec.toNat_ofNat]; omega
      have h9 : ¬ (i = 9 ∧ x > 1) := by
        rintro ⟨rfl, h1⟩; simp at hx; omega
      simp only [List.cons_append, List.nil_append, uvarintAux, hb]
      rw [if_neg (by omega), if_pos h, if_neg h9]
      simp
    · rw [putUvarint_big x h]
      have hb : (BitVec.ofNat 8 (x % 128 + 128)).toNat = x % 128 + 128 := by
        simp [BitVec.toNat_ofNat]; omega
      have hi8 : i ≤ 8 := by
        by_cases h9 : i = 9
        · subst h9; simp at hx; omega
        · omega
      have hpow : (2:Nat) ^ (64 - 7 * i) = 128 * 2 ^ (64 - 7 * (i + 1)) := by
        have : 64 - 7 * i = 7 + (64 - 7 * (i + 1)) := by omega
        rw [this, Nat.pow_add]
      have hx' : x / 128 < 2 ^ (64 - 7 * (i + 1)) := by
        rw [hpow] at hx
        exact Nat.div_lt_of_lt_mul hx
      simp only [List.cons_append, uvarintAux, hb]
      rw [if_neg (by omega), if_neg (by omega)]
      have hs : 7 * i + 7 = 7 * (i + 1) := by omega
      rw [hs, ih (x / 128) (by omega) (i + 1) _ rest (by omega) hx']
      have hmod : (x % 128 + 128) % 128 = x % 128 := by omega
      have hval : x % 128 * 2 ^ (7 * i) + x / 128 * 2 ^ (7 * (i + 1)) = x * 2 ^ (7 * i) := by
        have h2 : (2:Nat) ^ (7 * (i + 1)) = 128 * 2 ^ (7 * i) := by
          have : 7 * (i + 1) = 7 + 7 * i := by omega
          rw [this, Nat.pow_add]
        rw [h2]
        have hdm := Nat.div_add_mod x 128
        generalize (2:Nat) ^ (7 * i) = p
        calc x % 128 * p + x / 128 * (128 * p) = (128 * (x / 128) + x % 128) * p := by
              rw [Nat.add_mul, Nat.add_comm, Nat.mul_comm 128 (x / 128), Nat.mul_assoc]
          _ = x * p := by rw [hdm]
      rw [hmod]
      simp only [List.length_cons, Prod.mk.injEq]
      constructor
      · rw [Nat.add_assoc, hval]
      · push_cast; omega

/-- `binary.Uvarint(binary.PutUvarint(n) ++ rest) = (n, len)` for every `n < 2^64` -/
theorem uvarint_put (n : Nat) (h : n < 2 ^ 64) (rest : Bytes) :
    uvarint (putUvarint n ++ rest) = (n, ((putUvarint n).length : Int)) := by
  have := uvarintAux_put n 0 0 rest (by omega) (by simpa using h)
  simpa [uvarint] using this

/-- through a 10-byte peek window -/
theorem uvarint_put_take (n : Nat) (h : n < 2 ^ 64) (rest : Bytes) :
    uvarint ((putUvarint n ++ rest).take 10) = (n, ((putUvarint n).length : Int)) := by
  have hl := putUvarint_length_le n h
  rw [List.take_append, List.take_of_length_le hl]
  exact uvarint_put n h _

/-- every value the loop returns fits in 64 bits (the Nat arithmetic of the model never leaves uint64) -/
theorem uvarintAux_lt : ∀ (buf : Bytes) (i acc : Nat), acc < 2 ^ (7 * i) → i ≤ 10 →
    (uvarintAux buf i acc (7 * i)).1 < 2 ^ 64 := by
  intro buf
  induction buf with
  | nil => intro i acc _ _; simp [uvarintAux]
  | cons b rest ih =>
    intro i acc hacc hi
    simp only [uvarintAux]
    by_cases h10 : i = 10
    · simp [h10]
    · rw [if_neg h10]
      have hb := b.isLt
      by_cases hlt : b.toNat < 128
      · rw [if_pos hlt]
        by_cases h9 : i = 9 ∧ b.toNat > 1
        · rw [if_pos h9]; simp
        · rw [if_neg h9]
          show acc + b.toNat * 2 ^ (7 * i) < 2 ^ 64
          by_cases hi9 : i = 9
          · subst hi9
            have : b.toNat ≤ 1 := by omega
            have h63 : (2:Nat) ^ (7 * 9) = 2 ^ 63 := by decide
            rw [h63] at hacc ⊢
            have : b.toNat * 2 ^ 63 ≤ 1 * 2 ^ 63 := Nat.mul_le_mul_right _ this
            omega
          · have hi8 : i ≤ 8 := by omega
            have h1 : acc + b.toNat * 2 ^ (7 * i) < 2 ^ (7 * (i + 1)) := by
              have h2 : (2:Nat) ^ (7 * (i + 1)) = 128 * 2 ^ (7 * i) := by
                have : 7 * (i + 1) = 7 + 7 * i := by omega
                rw [this, Nat.pow_add]
              rw [h2]
              have : b.toNat * 2 ^ (7 * i) ≤ 127 * 2 ^ (7 * i) := Nat.mul_le_mul_right _ (by omega)
              omega
            have h3 : (2:Nat) ^ (7 * (i + 1)) ≤ 2 ^ 64 := Nat.pow_le_pow_right (by omega) (by omega)
            omega
      · rw [if_neg hlt]
        have hs : 7 * i + 7 = 7 * (i + 1) := by omega
        rw [hs]
        apply ih (i + 1) _ _ (by omega)
        have h2 : (2:Nat) ^ (7 * (i + 1)) = 128 * 2 ^ (7 * i) := by
          have : 7 * (i + 1) = 7 + 7 * i := by omega
          rw [this, Nat.pow_add]
        rw [h2]
        have : b.toNat % 128 * 2 ^ (7 * i) ≤ 127 * 2 ^ (7 * i) := Nat.mul_le_mul_right _ (by omega)
        omega

theorem uvarint_lt (buf : Bytes) : (uvarint buf).1 < 2 ^ 64 := by
  have := uvarintAux_lt buf 0 0 (by simp) (by omega)
  simpa [uvarint] using this

/-- the count `n` that `Uvarint` reports never exceeds the bytes it was given -/
theorem uvarintAux_n_le : ∀ (buf : Bytes) (i acc s : Nat),
    (uvarintAux buf i acc s).2 ≤ ((i + buf.length : Nat) : Int) := by
  intro buf
  induction buf with
  | nil => intro i acc s; simp [uvarintAux]
  | cons b rest ih =>
    intro i acc s
    simp only [uvarintAux]
    split
    · simp; omega
    · split
      · split
        · simp; omega
        · simp; omega
      · have := ih (i + 1) (acc + b.toNat % 128 * 2 ^ s) (s + 7)
        simp at this ⊢; omega

theorem uvarint_n_le (buf : Bytes) : (uvarint buf).2 ≤ (buf.length : Int) := by
  have := uvarintAux_n_le buf 0 0 0
  simpa [uvarint] using this

end Bluge.C12

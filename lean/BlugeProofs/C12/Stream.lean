import Bluge.Codec
import BlugeProofs.C12.Uvarint
import BlugeProofs.C12.Reader
import BlugeProofs.C12.Decode
/-! The buffered decoder computes the buffer-free grammar `sDecode` (helper module of C12).

`Sim inp r x y`: the result `x` of a decoder function started in reader state `r` is the result `y` of its
grammar counterpart on the remaining stream `stream inp r`; on success the reader that is left holds the
stream without the `k` consumed bytes. -/
namespace Bluge.C12
open Bluge.Codec Bluge.Codec.Outcome

def Sim {α : Type} (inp : Bytes) (r : Rd) (x : Outcome (α × Nat × Rd)) (y : Outcome (α × Nat)) : Prop :=
  match y with
  | .ok (a, k) => ∃ r', x = .ok (a, k, r') ∧ stream inp r' = (stream inp r).drop k ∧ Inv r' ∧
      k ≤ (stream inp r).length ∧ r.pos ≤ r'.pos
  | .error e => x = .error e
  | _ => False

theorem Sim.bind {α β : Type} {inp : Bytes} {r : Rd} {x : Outcome (α × Nat × Rd)} {y : Outcome (α × Nat)}
    {f : α × Nat × Rd → Outcome (β × Nat × Rd)} {g : α × Nat → Outcome (β × Nat)}
    (h : Sim inp r x y)
    (hfg : ∀ a k r', Inv r' → stream inp r' = (stream inp r).drop k → k ≤ (stream inp r).length → r.pos ≤ r'.pos →
      Sim inp r (f (a, k, r')) (g (a, k))) : Sim inp r (x >>= f) (y >>= g) := by
  cases y with
  | ok p =>
    obtain ⟨a, k⟩ := p
    obtain ⟨r', hx, hs, hi, hk, hp⟩ := h
    subst hx
    exact hfg a k r' hi hs hk hp
  | error e =>
    have hx : x = .error e := h
    subst hx
    exact (rfl : (Outcome.error e : Outcome (β × Nat × Rd)) = .error e)
  | panic s => exact h.elim
  | alloc s n => exact h.elim
  | fault s => exact h.elim

theorem stream_drop_buf (inp : Bytes) (r : Rd) (n : Nat) (hn : n ≤ r.buf.length) :
    stream inp { r with buf := r.buf.drop n } = (stream inp r).drop n := by
  unfold stream
  rw [List.drop_append_of_le_length hn]

/-- `Peek(10)` / `Uvarint` / [`n <= 0`] / `Discard` on any stream -/
theorem peekUvarintC_sim (cfg : Cfg) (inp : Bytes) (r : Rd) (hr : Inv r) :
    Sim inp r (peekUvarintC cfg inp false r) (sUvarint cfg.lengthChecked (stream inp r)) := by
  obtain ⟨r1, hpk, hs1, hr1, _, hp1, hb1⟩ := peek10_spec inp r hr
  unfold peekUvarintC sUvarint
  rw [hpk]
  simp only [Bool.false_and, Bool.false_eq_true, if_false]
  have hnle := uvarint_n_le ((stream inp r).take 10)
  have hlen : ((stream inp r).take 10).length = min 10 (stream inp r).length := List.length_take
  generalize uvarint ((stream inp r).take 10) = u at hnle ⊢
  obtain ⟨v, n⟩ := u
  simp only at hnle ⊢
  by_cases hneg : n < 0
  · rw [if_pos hneg, if_pos hneg]; exact (rfl : (Outcome.error Err.negCount : Outcome (Nat × Nat × Rd)) = _)
  · rw [if_neg hneg, if_neg hneg]
    by_cases hz : (cfg.lengthChecked && n == 0) = true
    · rw [if_pos hz, if_pos hz]; exact (rfl : (Outcome.error Err.eof : Outcome (Nat × Nat × Rd)) = _)
    · rw [if_neg hz, if_neg hz]
      have hk : n.toNat ≤ r1.buf.length := by omega
      rw [discard_spec inp _ r1 hk]
      simp only [Bool.false_eq_true, if_false]
      refine ⟨_, rfl, ?_, ⟨?_, hr1.noeof⟩, by omega, hp1⟩
      · rw [stream_drop_buf inp r1 _ hk, hs1]
      · simp only [List.length_drop]; have := hr1.buf_le; omega

/-- `readN` on a stream that is too short -/
theorem readChunked_short (inp : Bytes) : ∀ (fuel need : Nat) (acc : Bytes) (r : Rd), Inv r → need < fuel →
    (stream inp r).length < need → (readChunked inp fuel need acc r).1 = none := by
  intro fuel
  induction fuel with
  | zero => intro need acc r _ h; omega
  | succ fuel ih =>
    intro need acc r hr hfuel hn
    have h0 : need ≠ 0 := by omega
    simp only [readChunked, h0, if_false]
    generalize hstep : min need bufSize = step
    have hstepn : step ≤ need := by rw [← hstep]; omega
    have hstep0 : 0 < step := by rw [← hstep, bufSize_eq]; omega
    by_cases hsh : (stream inp r).length < step
    · have := readFull_short inp step r hr hsh
      rcases hrf : readFull inp step r with ⟨o, r1⟩
      rw [hrf] at this
      simp only at this
      subst this
      rfl
    · obtain ⟨r1, h1, hs1, hr1, _, _⟩ := readFull_spec inp step r hr (by omega)
      rw [h1]
      simp only
      apply ih _ _ _ hr1 (by omega)
      rw [hs1, List.length_drop]; omega

/-- `readN(r, n)` as the repaired code uses it -/
theorem readN_cases (inp : Bytes) (n : Nat) (r : Rd) (hr : Inv r) :
    (n ≤ (stream inp r).length ∧ ∃ r', readChunked inp (n + 1) n [] r = (some ((stream inp r).take n), r') ∧
      stream inp r' = (stream inp r).drop n ∧ Inv r' ∧ r.pos ≤ r'.pos) ∨
    ((stream inp r).length < n ∧ (readChunked inp (n + 1) n [] r).1 = none) := by
  by_cases h : n ≤ (stream inp r).length
  · left
    obtain ⟨r', h1, h2, h3, _, h5⟩ := readChunked_spec inp (n + 1) n [] r hr (by omega) h
    exact ⟨h, r', by simpa using h1, h2, h3, h5⟩
  · right
    exact ⟨by omega, readChunked_short inp (n + 1) n [] r hr (by omega) (by omega)⟩

theorem readVarLenString_sim (cfg : Cfg) (hcfg : cfg.boundedReads = true) (inp : Bytes) (lim : Nat) (r : Rd) (hr : Inv r) :
    Sim inp r (readVarLenString cfg inp lim r) (sStr cfg.lengthChecked (stream inp r)) := by
  unfold readVarLenString sStr
  simp only [hcfg, Bool.not_true]
  apply Sim.bind (peekUvarintC_sim cfg inp r hr)
  intro len k r1 hr1 hs1 hk hp1
  simp only
  unfold readStrBytes
  simp only [hcfg, if_true]
  rcases readN_cases inp len r1 hr1 with ⟨hle, r2, h2, hs2, hr2, hp2⟩ | ⟨hlt, h2⟩
  · rw [h2]
    simp only [ok_bind]
    rw [hs1] at hle hs2 h2 ⊢
    rw [if_neg (by omega)]
    have hlen : ((List.drop k (stream inp r)).take len).length = len := by
      rw [List.length_take]; omega
    refine ⟨r2, by rw [hlen], ?_, hr2, ?_, by omega⟩
    · rw [hs2, List.drop_drop]
    · rw [List.length_drop] at hle; omega
  · rcases hrc : readChunked inp (len + 1) len [] r1 with ⟨o, r2⟩
    rw [hrc] at h2
    simp only at h2
    subst h2
    simp only
    rw [hs1] at hlt
    rw [if_pos hlt]
    rfl

section
variable {R : Type} (ro : Roar R)

theorem readSegment_sim (cfg : Cfg) (hcfg : cfg.boundedReads = true) (inp : Bytes) (lim : Nat) (r : Rd) (hr : Inv r) :
    Sim inp r (readSegment ro cfg inp lim r) (sSegment ro cfg.lengthChecked (stream inp r)) := by
  unfold readSegment sSegment
  apply Sim.bind (readVarLenString_sim cfg hcfg inp lim r hr)
  intro typ n1 r1 hr1 hs1 hk1 hp1
  simp only [hcfg, if_true]
  -- the four version bytes
  by_cases h4 : ((stream inp r).drop n1).length < 4
  · rw [if_pos h4]
    have := readFull_short inp 4 r1 hr1 (by rw [hs1]; exact h4)
    rcases hrf : readFull inp 4 r1 with ⟨o, r2⟩
    rw [hrf] at this
    simp only at this
    subst this
    simp only [if_true]
    rfl
  · rw [if_neg h4]
    obtain ⟨r2, h2, hs2, hr2, _, hp2⟩ := readFull_spec inp 4 r1 hr1 (by rw [hs1]; omega)
    rw [h2]
    simp only [Bool.false_eq_true, if_false]
    rw [hs1] at hs2 h2 ⊢
    have hvlen : (((stream inp r).drop n1).take 4).length = 4 := by rw [List.length_take]; omega
    -- id
    have hsim3 := peekUvarintC_sim cfg inp r2 hr2
    rw [hs2] at hsim3
    cases h3 : sUvarint cfg.lengthChecked (((stream inp r).drop n1).drop 4) with
    | ok p3 =>
      obtain ⟨id, n3⟩ := p3
      rw [h3] at hsim3
      obtain ⟨r3, hx3, hs3, hr3, hk3, hp3⟩ := hsim3
      rw [hx3]
      simp only [ok_bind]
      rw [hs2] at hs3 hk3
      -- deleted length
      have hsim4 := peekUvarintC_sim cfg inp r3 hr3
      rw [hs3] at hsim4
      cases h4' : sUvarint cfg.lengthChecked ((((stream inp r).drop n1).drop 4).drop n3) with
      | ok p4 =>
        obtain ⟨dlen, n4⟩ := p4
        rw [h4'] at hsim4
        obtain ⟨r4, hx4, hs4, hr4, hk4, hp4⟩ := hsim4
        rw [hx4]
        simp only [ok_bind]
        rw [hs3] at hs4 hk4
        have hl1 : ((stream inp r).drop n1).length = (stream inp r).length - n1 := List.length_drop
        have hl2 : (((stream inp r).drop n1).drop 4).length = (stream inp r).length - n1 - 4 := by
          rw [List.length_drop, hl1]
        have hl3 : ((((stream inp r).drop n1).drop 4).drop n3).length = (stream inp r).length - n1 - 4 - n3 := by
          rw [List.length_drop, hl2]
        by_cases hd : dlen > 0
        · rw [if_pos hd, if_pos hd]
          unfold readDelBytes
          simp only [hcfg, if_true]
          rcases readN_cases inp dlen r4 hr4 with ⟨hle, r5, h5, hs5, hr5, hp5⟩ | ⟨hlt, h5⟩
          · rw [h5]
            simp only [ok_bind]
            rw [hs4] at hle hs5 ⊢
            rw [if_neg (by omega)]
            cases hdec : ro.dec ((((((stream inp r).drop n1).drop 4).drop n3).drop n4).take dlen) with
            | none => rfl
            | some d =>
              simp only
              have hdl : ((((((stream inp r).drop n1).drop 4).drop n3).drop n4).take dlen).length = dlen := by
                rw [List.length_take]; omega
              have hl4 : (((((stream inp r).drop n1).drop 4).drop n3).drop n4).length
                  = (stream inp r).length - n1 - 4 - n3 - n4 := by rw [List.length_drop, hl3]
              refine ⟨r5, ?_, ?_, hr5, ?_, by omega⟩
              · rw [hvlen, hdl]
              · rw [hs5]; simp only [List.drop_drop] <;> (congr 1 <;> omega)
              · rw [hl4] at hle; omega
          · rcases hrc : readChunked inp (dlen + 1) dlen [] r4 with ⟨o, r5⟩
            rw [hrc] at h5
            simp only at h5
            subst h5
            simp only
            rw [hs4] at hlt
            rw [if_pos hlt]
            rfl
        · rw [if_neg hd, if_neg hd]
          refine ⟨r4, ?_, ?_, hr4, ?_, by omega⟩
          · rw [hvlen]
          · rw [hs4]; simp only [List.drop_drop] <;> (congr 1 <;> omega)
          · rw [hl3] at hk4; omega
      | error e =>
        rw [h4'] at hsim4
        have : peekUvarintC cfg inp false r3 = .error e := hsim4
        rw [this]; rfl
      | panic s => rw [h4'] at hsim4; exact hsim4.elim
      | alloc s n => rw [h4'] at hsim4; exact hsim4.elim
      | fault s => rw [h4'] at hsim4; exact hsim4.elim
    | error e =>
      rw [h3] at hsim3
      have : peekUvarintC cfg inp false r2 = .error e := hsim3
      rw [this]; rfl
    | panic s => rw [h3] at hsim3; exact hsim3.elim
    | alloc s n => rw [h3] at hsim3; exact hsim3.elim
    | fault s => rw [h3] at hsim3; exact hsim3.elim

theorem readSegments_sim (cfg : Cfg) (hcfg : cfg.boundedReads = true) (inp : Bytes) (lim : Nat) :
    ∀ (cnt : Nat) (r : Rd), Inv r →
      Sim inp r (readSegments ro cfg inp lim cnt r) (sSegments ro cfg.lengthChecked cnt (stream inp r)) := by
  intro cnt
  induction cnt with
  | zero =>
    intro r hr
    exact ⟨r, rfl, by simp, hr, by omega, Nat.le_refl _⟩
  | succ cnt ih =>
    intro r hr
    simp only [readSegments, sSegments]
    apply Sim.bind (readSegment_sim ro cfg hcfg inp lim r hr)
    intro s n r1 hr1 hs1 hk1 hp1
    simp only
    have h := ih r1 hr1
    rw [hs1] at h
    cases hss : sSegments ro cfg.lengthChecked cnt ((stream inp r).drop n) with
    | ok p =>
      obtain ⟨ss, m⟩ := p
      rw [hss] at h
      obtain ⟨r2, hx, hs2, hr2, hk2, hp2⟩ := h
      rw [hx]
      simp only [ok_bind]
      refine ⟨r2, rfl, ?_, hr2, ?_, by omega⟩
      · rw [hs2, hs1, List.drop_drop]
      · rw [hs1, List.length_drop] at hk2; omega
    | error e =>
      rw [hss] at h
      have : readSegments ro cfg inp lim cnt r1 = .error e := h
      rw [this]; rfl
    | panic s => rw [hss] at h; exact h.elim
    | alloc s n => rw [hss] at h; exact h.elim
    | fault s => rw [hss] at h; exact h.elim

/-- **the buffered decoder computes the grammar**: for the repaired reads, whatever the input and wherever
the buffer edges fall -/
theorem readFromRd_sim (cfg : Cfg) (hcfg : cfg.boundedReads = true) (huint : cfg.uintLoop = true) (inp : Bytes) (lim : Nat)
    (r : Rd) (hr : Inv r) :
    Sim inp r (readFromRd ro cfg inp lim r) (sDecode ro cfg.lengthChecked (stream inp r)) := by
  unfold readFromRd sDecode
  apply Sim.bind (peekUvarintC_sim cfg inp r hr)
  intro v k0 r1 hr1 hs1 hk0 hp1
  simp only
  by_cases hv : v = 1
  · rw [if_pos hv, if_pos hv]
    have h1 := peekUvarintC_sim cfg inp r1 hr1
    rw [hs1] at h1
    cases hc : sUvarint cfg.lengthChecked ((stream inp r).drop k0) with
    | ok p =>
      obtain ⟨cnt, k1⟩ := p
      rw [hc] at h1
      obtain ⟨r2, hx, hs2, hr2, hk1, hp2⟩ := h1
      rw [hx]
      simp only [ok_bind]
      rw [hs1] at hs2 hk1
      have hloop : loopCount cfg cnt = cnt := by simp [loopCount, huint]
      rw [hloop]
      have h2 := readSegments_sim ro cfg hcfg inp lim cnt r2 hr2
      rw [hs2] at h2
      cases hss : sSegments ro cfg.lengthChecked cnt (((stream inp r).drop k0).drop k1) with
      | ok q =>
        obtain ⟨ss, m⟩ := q
        rw [hss] at h2
        obtain ⟨r3, hx3, hs3, hr3, hk3, hp3⟩ := h2
        rw [hx3]
        simp only [ok_bind]
        refine ⟨r3, rfl, ?_, hr3, ?_, by omega⟩
        · rw [hs3, hs2]; simp only [List.drop_drop] <;> (congr 1 <;> omega)
        · rw [hs2] at hk3; simp only [List.length_drop] at hk3 hk1; omega
      | error e =>
        rw [hss] at h2
        have : readSegments ro cfg inp lim cnt r2 = .error e := h2
        rw [this]; rfl
      | panic s => rw [hss] at h2; exact h2.elim
      | alloc s n => rw [hss] at h2; exact h2.elim
      | fault s => rw [hss] at h2; exact h2.elim
    | error e =>
      rw [hc] at h1
      have : peekUvarintC cfg inp false r1 = .error e := h1
      rw [this]; rfl
    | panic s => rw [hc] at h1; exact h1.elim
    | alloc s n => rw [hc] at h1; exact h1.elim
    | fault s => rw [hc] at h1; exact h1.elim
  · rw [if_neg hv, if_neg hv]
    rfl

end

end Bluge.C12

import Bluge.Codec
/-! CRC-32 as a linear, injective shift register: a change confined to one byte always changes the
checksum (helper module of C12). -/
namespace Bluge.C12
open Bluge.Codec

theorem crcBit_xor (a b : BitVec 32) : crcBit (a ^^^ b) = crcBit a ^^^ crcBit b := by
  unfold crcBit
  have hx : (a ^^^ b).getLsbD 0 = (a.getLsbD 0 ^^ b.getLsbD 0) := BitVec.getLsbD_xor
  rw [hx, BitVec.ushiftRight_xor_distrib]
  cases a.getLsbD 0 <;> cases b.getLsbD 0 <;> simp
  · ac_rfl
  · ac_rfl
  · rw [show a >>> 1 ^^^ crcPoly ^^^ (b >>> 1 ^^^ crcPoly) = (crcPoly ^^^ crcPoly) ^^^ (a >>> 1 ^^^ b >>> 1) by ac_rfl]
    simp

theorem crcBit_zero : crcBit 0 = 0 := by decide

/-- the register step is injective: the polynomial has its top bit set, a shifted word has not -/
theorem crcBit_eq_zero (x : BitVec 32) (h : crcBit x = 0) : x = 0 := by
  unfold crcBit at h
  cases hx : x.getLsbD 0
  · rw [hx] at h
    simp at h
    have : x.toNat % 2 = 0 := by
      have := hx
      rw [BitVec.getLsbD] at this
      simp [Nat.testBit] at this
      omega
    bv_omega
  · rw [hx] at h
    simp at h
    have hm : ((x >>> 1) ^^^ crcPoly).msb = true := by
      rw [BitVec.msb_xor]
      have : (x >>> 1).msb = false := by
        simp [BitVec.msb_ushiftRight]
      rw [this]; decide
    rw [h] at hm
    simp at hm

def crcBit8 (c : BitVec 32) : BitVec 32 := crcBit (crcBit (crcBit (crcBit (crcBit (crcBit (crcBit (crcBit c)))))))

theorem crcBit8_xor (a b : BitVec 32) : crcBit8 (a ^^^ b) = crcBit8 a ^^^ crcBit8 b := by
  simp only [crcBit8, crcBit_xor]

theorem crcBit8_eq_zero (x : BitVec 32) (h : crcBit8 x = 0) : x = 0 := by
  unfold crcBit8 at h
  exact crcBit_eq_zero _ (crcBit_eq_zero _ (crcBit_eq_zero _ (crcBit_eq_zero _
    (crcBit_eq_zero _ (crcBit_eq_zero _ (crcBit_eq_zero _ (crcBit_eq_zero _ h)))))))

theorem crcByte_eq (c : BitVec 32) (b : Byte) : crcByte c b = crcBit8 (c ^^^ b.setWidth 32) := rfl

theorem crcByte_xor (c d : BitVec 32) (a b : Byte) :
    crcByte (c ^^^ d) (a ^^^ b) = crcByte c a ^^^ crcByte d b := by
  rw [crcByte_eq, crcByte_eq, crcByte_eq, ← crcBit8_xor]
  congr 1
  rw [BitVec.setWidth_xor]
  ac_rfl

/-- the register run over a byte string -/
def raw (c : BitVec 32) (p : Bytes) : BitVec 32 := p.foldl crcByte c

theorem raw_append (c : BitVec 32) (p q : Bytes) : raw c (p ++ q) = raw (raw c p) q := by
  simp [raw, List.foldl_append]

/-- a difference in the register propagates as the register run on zeros -/
theorem raw_xor_left (B : Bytes) : ∀ u v : BitVec 32,
    raw (u ^^^ v) B = raw u B ^^^ raw v (List.replicate B.length 0) := by
  induction B with
  | nil => intro u v; simp [raw]
  | cons b B ih =>
    intro u v
    simp only [raw, List.foldl_cons, List.length_cons, List.replicate_succ] at ih ⊢
    have h : crcByte (u ^^^ v) b = crcByte u b ^^^ crcByte v 0 := by
      have := crcByte_xor u v b 0
      simpa using this
    rw [h]
    exact ih _ _

theorem raw_zeros_ne (n : Nat) : ∀ v : BitVec 32, v ≠ 0 → raw v (List.replicate n 0) ≠ 0 := by
  induction n with
  | zero => intro v hv; simpa [raw] using hv
  | succ n ih =>
    intro v hv
    simp only [raw, List.replicate_succ, List.foldl_cons] at ih ⊢
    apply ih
    intro h
    apply hv
    have := crcBit8_eq_zero _ (by rw [← crcByte_eq]; exact h)
    simpa using this

/-- **a change confined to one byte changes the CRC-32**, whatever precedes and follows (every
single-bit flip in particular) -/
theorem crc32_byte_change_ne (A B : Bytes) (b e : Byte) (he : e ≠ 0) :
    crc32 (A ++ (b ^^^ e) :: B) ≠ crc32 (A ++ b :: B) := by
  unfold crc32 crcUpdate
  intro h
  have h' : raw (~~~(0 : BitVec 32)) (A ++ (b ^^^ e) :: B) = raw (~~~(0 : BitVec 32)) (A ++ b :: B) := by
    have := congrArg (fun x => ~~~x) h
    simpa [raw] using this
  rw [raw_append, raw_append] at h'
  generalize raw (~~~(0 : BitVec 32)) A = c1 at h'
  simp only [raw, List.foldl_cons] at h'
  have hb : crcByte c1 (b ^^^ e) = crcByte c1 b ^^^ crcByte 0 e := by
    have := crcByte_xor c1 0 b e
    simpa using this
  rw [hb] at h'
  have hx := raw_xor_left B (crcByte c1 b) (crcByte 0 e)
  simp only [raw] at hx
  rw [hx] at h'
  have hne : crcByte 0 e ≠ 0 := by
    intro h0
    have := crcBit8_eq_zero _ (by rw [← crcByte_eq]; exact h0)
    simp at this
    apply he
    have h2 := congrArg (fun x => BitVec.setWidth 8 x) this
    simpa using h2
  have hz := raw_zeros_ne B.length _ hne
  apply hz
  have : ∀ x y : BitVec 32, x ^^^ y = x → y = 0 := by
    intro x y hxy
    have := congrArg (fun t => x ^^^ t) hxy
    simp only [← BitVec.xor_assoc, BitVec.xor_self, BitVec.zero_xor] at this
    exact this
  exact this _ _ h'

end Bluge.C12

import Bluge.Codec
/-! `peekUvarintC` (the `Peek`/`Uvarint`/`Discard` idiom with the optional `if n <= 0 { return error }`) against
`peekUvarint` (without it): the check only ever turns a result into an error. -/
namespace Bluge.C12
open Bluge.Codec Bluge.Codec.Outcome

theorem peekUvarintC_cases (cfg : Cfg) (inp : Bytes) (strict : Bool) (r : Rd) :
    peekUvarintC cfg inp strict r = peekUvarint inp strict r ∨ peekUvarintC cfg inp strict r = .error .eof := by
  unfold peekUvarintC peekUvarint
  rcases peek10 inp r with ⟨pk, e, r1⟩
  simp only
  split
  · exact Or.inl rfl
  · split
    · exact Or.inl rfl
    · split
      · exact Or.inr rfl
      · exact Or.inl rfl

theorem peekUvarintC_ok {cfg : Cfg} {inp : Bytes} {strict : Bool} {r : Rd} {x : Nat × Nat × Rd}
    (h : peekUvarintC cfg inp strict r = .ok x) : peekUvarint inp strict r = .ok x := by
  rcases peekUvarintC_cases cfg inp strict r with h1 | h1
  · rw [← h1]; exact h
  · rw [h1] at h; cases h

/-- without the check the two are the same function -/
theorem peekUvarintC_unchecked {cfg : Cfg} (hc : cfg.lengthChecked = false) (inp : Bytes) (strict : Bool) (r : Rd) :
    peekUvarintC cfg inp strict r = peekUvarint inp strict r := by
  unfold peekUvarintC peekUvarint
  simp [hc]

end Bluge.C12

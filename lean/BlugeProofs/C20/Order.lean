import BlugeProofs.C20.Marks
/-! The result of BestFragments does not depend on the order among locations that `Less` does not separate,
as long as such locations have the same span (C20 helpers): everything downstream of OrderTermLocations
reads only Start and End of the ordered locations, and two `Less`-sorted permutations of the same locations
list the same spans in the same order. -/
namespace Bluge.C20
open Bluge.Highlight

/-- a location reduced to its span -/
def eraseTL (l : TermLocation) : TermLocation := { l with term := "", pos := 0 }

@[simp] theorem eraseTL_start (l : TermLocation) : (eraseTL l).start = l.start := rfl
@[simp] theorem eraseTL_stop (l : TermLocation) : (eraseTL l).stop = l.stop := rfl

theorem eraseTL_eq_iff (a b : TermLocation) : eraseTL a = eraseTL b ↔ a.start = b.start ∧ a.stop = b.stop := by
  cases a; cases b; simp [eraseTL]

/-! ### the fragmenter reads spans only -/

theorem minEnd_erase (e : Int) : ∀ (tail : List TermLocation) (m : Int), minEnd e (tail.map eraseTL) m = minEnd e tail m
  | [], _ => rfl
  | tl :: rest, m => by
    simp only [List.map_cons, minEnd, eraseTL_stop]
    by_cases h : tl.stop > e
    · simp only [h, if_true]
    · simp only [h, if_false]; exact minEnd_erase e rest tl.stop

theorem fragOne_erase (g : Bool) (orig : Bytes) (fsize maxbegin : Int) (tl : TermLocation) (tail : List TermLocation) :
    fragOne g orig fsize maxbegin (eraseTL tl) (tail.map eraseTL) = fragOne g orig fsize maxbegin tl tail := by
  unfold fragOne
  simp only [eraseTL_start, minEnd_erase]

theorem fragmentLoop_erase (g : Bool) (orig : Bytes) (fsize : Int) :
    ∀ (ot : List TermLocation) (mb : Int), fragmentLoop g orig fsize (ot.map eraseTL) mb = fragmentLoop g orig fsize ot mb
  | [], _ => rfl
  | tl :: rest, mb => by
    have h := fragOne_erase g orig fsize mb tl (tl :: rest)
    simp only [List.map_cons] at h
    simp only [List.map_cons, fragmentLoop, h, eraseTL_stop]
    split
    · rfl
    · exact fragmentLoop_erase g orig fsize rest mb
    · rw [fragmentLoop_erase g orig fsize rest tl.stop]

theorem usable_erase (l : TermLocation) : usable (eraseTL l) = usable l := rfl

theorem filter_usable_erase : ∀ (ot : List TermLocation), (ot.map eraseTL).filter usable = (ot.filter usable).map eraseTL
  | [] => rfl
  | a :: rest => by
    by_cases h : usable a = true
    · simp only [List.map_cons, List.filter_cons, usable_erase, h, if_true, filter_usable_erase rest]
    · simp only [List.map_cons, List.filter_cons, usable_erase, h, filter_usable_erase rest]
      rfl

theorem fragment_erase (v : Variant) (orig : Bytes) (fsize : Int) (ot : List TermLocation) :
    fragment v orig fsize (ot.map eraseTL) = fragment v orig fsize ot := by
  unfold fragment
  have hfil : (if v.locGuard = true then (ot.map eraseTL).filter usable else ot.map eraseTL) =
      (if v.locGuard = true then ot.filter usable else ot).map eraseTL := by
    split
    · exact filter_usable_erase ot
    · rfl
  rw [hfil]
  generalize (if v.locGuard = true then ot.filter usable else ot) = l
  cases l with
  | nil => rfl
  | cons a r => exact fragmentLoop_erase v.sizeGuard orig fsize (a :: r) 0

/-! ### MergeOverlapping and the formatters read spans only -/

theorem overlaps_erase (a b : TermLocation) : (eraseTL a).overlaps (eraseTL b) = a.overlaps b := rfl

theorem mergeLoop_erase (mx : Bool) : ∀ (rest : List TermLocation) (last : TermLocation),
    mergeLoop mx (eraseTL last) (rest.map eraseTL) =
      (eraseTL (mergeLoop mx last rest).1, (mergeLoop mx last rest).2.map (Option.map eraseTL))
  | [], _ => rfl
  | tl :: rest, last => by
    simp only [List.map_cons, mergeLoop, overlaps_erase, eraseTL_stop]
    by_cases hov : last.overlaps tl = true
    · simp only [hov, if_true]
      have ih := mergeLoop_erase mx rest { last with stop := if (mx && decide (tl.stop ≤ last.stop)) = true then last.stop else tl.stop }
      simp only [eraseTL] at ih ⊢
      erw [ih]
      rfl
    · simp only [hov]
      rw [mergeLoop_erase mx rest last]
      rfl

theorem mergeOverlapping_erase (mx : Bool) (ot : List TermLocation) :
    mergeOverlapping mx (ot.map eraseTL) = (mergeOverlapping mx ot).map (Option.map eraseTL) := by
  cases ot with
  | nil => rfl
  | cons a rest =>
    simp only [List.map_cons, mergeOverlapping, mergeLoop_erase]
    rfl

theorem formatLoop_erase (fm : Fmt) (lg : Bool) (orig : Bytes) (fend : Int) :
    ∀ (tls : List (Option TermLocation)) (curr : Int),
      formatLoop fm lg orig fend (tls.map (Option.map eraseTL)) curr = formatLoop fm lg orig fend tls curr
  | [], _ => rfl
  | none :: rest, curr => by
    simp only [List.map_cons, Option.map_none, formatLoop]
    exact formatLoop_erase fm lg orig fend rest curr
  | some tl :: rest, curr => by
    simp only [List.map_cons, Option.map_some, formatLoop, eraseTL_start, eraseTL_stop]
    rw [formatLoop_erase fm lg orig fend rest curr, formatLoop_erase fm lg orig fend rest tl.stop]
    rfl

theorem render_erase (v : Variant) (fm : Fmt) (orig : Bytes) (tls : List (Option TermLocation)) (f : Fragment) :
    render v fm orig (tls.map (Option.map eraseTL)) f = render v fm orig tls f := by
  unfold render format
  rw [formatLoop_erase]

theorem bestSelectionOrd_erase (v : Variant) (orig : Bytes) (fsize num : Int) (locs ot : List TermLocation) :
    bestSelectionOrd v orig fsize num locs (ot.map eraseTL) = bestSelectionOrd v orig fsize num locs ot := by
  unfold bestSelectionOrd
  rw [fragment_erase]

theorem bestFragmentsOrd_erase (v : Variant) (fm : Fmt) (orig : Bytes) (fsize num : Int) (locs ot : List TermLocation) :
    bestFragmentsOrd v fm orig fsize num locs (ot.map eraseTL) = bestFragmentsOrd v fm orig fsize num locs ot := by
  unfold bestFragmentsOrd
  rw [bestSelectionOrd_erase, mergeOverlapping_erase]
  have : render v fm orig ((mergeOverlapping v.mergeMax ot).map (Option.map eraseTL)) =
      render v fm orig (mergeOverlapping v.mergeMax ot) := by
    funext f; exact render_erase v fm orig _ f
  rw [this]

/-- BestFragments reads only the spans of the ordered locations -/
theorem bestOrd_congr (v : Variant) (fm : Fmt) (orig : Bytes) (fsize num : Int) (locs ot ot' : List TermLocation)
    (h : ot.map eraseTL = ot'.map eraseTL) :
    bestSelectionOrd v orig fsize num locs ot = bestSelectionOrd v orig fsize num locs ot' ∧
    bestFragmentsOrd v fm orig fsize num locs ot = bestFragmentsOrd v fm orig fsize num locs ot' := by
  constructor
  · rw [← bestSelectionOrd_erase v orig fsize num locs ot, h, bestSelectionOrd_erase]
  · rw [← bestFragmentsOrd_erase v fm orig fsize num locs ot, h, bestFragmentsOrd_erase]

/-! ### two sorted permutations list the same spans -/

theorem lessTL_erase (tb : Bool) (a b : TermLocation) : lessTL tb (eraseTL a) (eraseTL b) = lessTL tb a b := rfl

/-- `¬ Less(b, a)` is transitive -/
theorem notLess_trans {tb : Bool} {a b c : TermLocation} (h1 : lessTL tb b a = false) (h2 : lessTL tb c b = false) :
    lessTL tb c a = false := by
  unfold lessTL at h1 h2 ⊢
  cases tb
  · simp only [Bool.false_eq_true, if_false, decide_eq_false_iff_not] at h1 h2 ⊢; omega
  · simp only [if_true, Bool.or_eq_false_iff, decide_eq_false_iff_not, Bool.and_eq_false_imp, decide_eq_true_eq] at h1 h2 ⊢
    constructor
    · omega
    · intro he
      have := h1.1; have := h2.1
      have e1 : b.start = a.start := by omega
      have e2 : c.start = b.start := by omega
      have := h1.2 e1; have := h2.2 e2
      omega

theorem pairwise_of_sortedFor {tb : Bool} : ∀ {l : List TermLocation}, sortedFor tb l = true →
    l.Pairwise (fun a b => lessTL tb b a = false)
  | [], _ => List.Pairwise.nil
  | [_], _ => by simp
  | a :: b :: rest, h => by
    simp only [sortedFor, Bool.and_eq_true, Bool.not_eq_eq_eq_not, Bool.not_true] at h
    have ih := pairwise_of_sortedFor h.2
    rw [List.pairwise_cons]
    refine ⟨?_, ih⟩
    intro c hc
    simp only [List.mem_cons] at hc
    rcases hc with hc | hc
    · subst hc; exact h.1
    · exact notLess_trans h.1 ((List.pairwise_cons.mp ih).1 c hc)

theorem tiesAgree_iff (locs : List TermLocation) :
    tiesAgree locs = true ↔ ∀ a ∈ locs, ∀ b ∈ locs, a.start = b.start → a.stop = b.stop := by
  simp only [tiesAgree, List.all_eq_true, Bool.or_eq_true, bne_iff_ne, ne_eq, beq_iff_eq]
  constructor
  · intro h a ha b hb e
    rcases h a ha b hb with h | h
    · exact absurd e h
    · exact h
  · intro h a ha b hb
    by_cases e : a.start = b.start
    · exact Or.inr (h a ha b hb e)
    · exact Or.inl e

/-- two `Less`-sorted arrangements of the same locations list the same spans in the same order, when `Less`
separates different spans: always with repair 4, and on the current tree when equal Starts come with equal Ends -/
theorem erase_eq_of_sorted_perm (tb : Bool) (ot ot' : List TermLocation) (hp : ot.Perm ot')
    (hs : sortedFor tb ot = true) (hs' : sortedFor tb ot' = true) (ht : tb = true ∨ tiesAgree ot = true) :
    ot.map eraseTL = ot'.map eraseTL := by
  apply List.Perm.eq_of_pairwise (le := fun a b => lessTL tb b a = false)
  · intro a b ha hb h1 h2
    simp only [List.mem_map] at ha hb
    obtain ⟨x, hx, rfl⟩ := ha
    obtain ⟨y, hy, rfl⟩ := hb
    rw [lessTL_erase] at h1 h2
    rw [eraseTL_eq_iff]
    have hy' : y ∈ ot := hp.symm.subset hy
    unfold lessTL at h1 h2
    rcases ht with ht | ht
    · subst ht
      simp only [if_true, Bool.or_eq_false_iff, decide_eq_false_iff_not, Bool.and_eq_false_imp, decide_eq_true_eq] at h1 h2
      have e : x.start = y.start := by omega
      have := h1.2 e.symm; have := h2.2 e
      exact ⟨e, by omega⟩
    · have hst : x.start = y.start := by
        cases tb
        · simp only [Bool.false_eq_true, if_false, decide_eq_false_iff_not] at h1 h2; omega
        · simp only [if_true, Bool.or_eq_false_iff, decide_eq_false_iff_not, Bool.and_eq_false_imp, decide_eq_true_eq] at h1 h2
          omega
      exact ⟨hst, (tiesAgree_iff ot).mp ht x hx y hy' hst⟩
  · have := pairwise_of_sortedFor hs
    rw [List.pairwise_map]
    exact this.imp (fun h => by rw [lessTL_erase]; exact h)
  · have := pairwise_of_sortedFor hs'
    rw [List.pairwise_map]
    exact this.imp (fun h => by rw [lessTL_erase]; exact h)
  · exact hp.map eraseTL

theorem tiesAgree_perm {l l' : List TermLocation} (hp : l.Perm l') (h : tiesAgree l = true) : tiesAgree l' = true := by
  rw [tiesAgree_iff] at h ⊢
  intro a ha b hb
  exact h a (hp.symm.subset ha) b (hp.symm.subset hb)

/-- the result for any `Less`-sorted arrangement `ot` of the map's locations equals the result for the stable
sort the model (and the driver) uses -/
theorem best_order_irrelevant (v : Variant) (fm : Fmt) (orig : Bytes) (fsize num : Int) (locs ot : List TermLocation)
    (hp : ot.Perm locs) (hs : sortedFor v.tieBreak ot = true) (ht : v.tieBreak = true ∨ tiesAgree locs = true) :
    bestSelectionOrd v orig fsize num locs ot = bestSelection v orig fsize num locs ∧
    bestFragmentsOrd v fm orig fsize num locs ot = bestFragments v fm orig fsize num locs := by
  unfold bestSelection bestFragments
  apply bestOrd_congr
  apply erase_eq_of_sorted_perm v.tieBreak ot _ (hp.trans (orderTermLocations_perm _ locs).symm) hs
    (sortedFor_orderTermLocations _ locs)
  rcases ht with h | h
  · exact Or.inl h
  · exact Or.inr (tiesAgree_perm hp.symm h)

end Bluge.C20

import BlugeProofs.C20.Marks
/-! What MergeOverlapping (with its `lastTl` that is never advanced and its `lastTl.End = tl.End`) computes on a
list sorted by Start, in closed form, and which marked spans follow from it (C20 helpers). -/
namespace Bluge.C20
open Bluge.Highlight

theorem sorted_head_le : ∀ {a : TermLocation} {rest : List TermLocation}, sortedByStart (a :: rest) = true →
    ∀ x ∈ rest, a.start ≤ x.start
  | _, [], _ => by simp
  | a, b :: rest, h => by
    simp only [sortedByStart, Bool.and_eq_true, decide_eq_true_eq] at h
    intro x hx
    simp only [List.mem_cons] at hx
    rcases hx with hx | hx
    · subst hx; exact h.1
    · have := sorted_head_le h.2 x hx; omega

theorem sorted_tail' {a : TermLocation} {rest : List TermLocation} (h : sortedByStart (a :: rest) = true) :
    sortedByStart rest = true := by
  cases rest with
  | nil => rfl
  | cons b r =>
    simp only [sortedByStart, Bool.and_eq_true] at h
    exact h.2

/-- for a non-empty `last` that starts at or before `tl`: they overlap iff `tl` starts before `last` ends -/
theorem overlaps_iff_of_le {last tl : TermLocation} (hl : last.start < last.stop) (hle : last.start ≤ tl.start) :
    last.overlaps tl = decide (tl.start < last.stop) := by
  unfold TermLocation.overlaps
  by_cases h : tl.start < last.stop
  · rw [if_pos ⟨by omega, h⟩]; simp [h]
  · rw [if_neg (by omega), if_neg (by omega)]; simp [h]

/-- the loop of MergeOverlapping in closed form (list sorted by Start, non-empty spans) -/
theorem mergeLoop_exact (mx : Bool) : ∀ (rest : List TermLocation) (last : TermLocation),
    last.start < last.stop → (∀ x ∈ rest, last.start ≤ x.start ∧ x.start < x.stop) → sortedByStart rest = true →
    mergeLoop mx last rest =
      ({ last with stop := (absorbRun mx last.stop rest).2 },
       List.replicate (absorbRun mx last.stop rest).1 none ++ (rest.drop (absorbRun mx last.stop rest).1).map some)
  | [], last, _, _, _ => rfl
  | tl :: rest, last, hl, hr, hs => by
    have htl := hr tl (by simp)
    have hov := overlaps_iff_of_le hl htl.1
    simp only [mergeLoop, absorbRun, hov, decide_eq_true_eq]
    by_cases h : tl.start < last.stop
    · simp only [h, if_true]
      have hl' : ({ last with stop := if (mx && decide (tl.stop ≤ last.stop)) = true then last.stop else tl.stop } : TermLocation).start <
          ({ last with stop := if (mx && decide (tl.stop ≤ last.stop)) = true then last.stop else tl.stop } : TermLocation).stop := by
        simp only []
        split <;> omega
      have ih := mergeLoop_exact mx rest
        { last with stop := if (mx && decide (tl.stop ≤ last.stop)) = true then last.stop else tl.stop } hl'
        (fun x hx => hr x (by simp [hx])) (sorted_tail' hs)
      simp only [] at ih
      rw [ih]
      simp only [List.replicate_succ, List.cons_append, List.drop_succ_cons]
    · simp only [h, if_false, List.replicate_zero, List.nil_append, List.drop_zero]
      have hno : ∀ x ∈ tl :: rest, last.overlaps x = false := by
        intro x hx
        have hx1 := hr x hx
        have : tl.start ≤ x.start := by
          simp only [List.mem_cons] at hx
          rcases hx with hx | hx
          · subst hx; omega
          · exact sorted_head_le hs x hx
        rw [overlaps_iff_of_le hl hx1.1]
        simp only [decide_eq_false_iff_not]
        omega
      have := mergeLoop_of_no_overlap mx last (tl :: rest) hno
      simp only [mergeLoop, hov, decide_eq_true_eq, h, if_false] at this
      rw [this]

/-- MergeOverlapping in closed form: the head absorbs the maximal prefix of locations that start before its
current End and is left with `absorbRun`'s End; everything else is untouched -/
theorem mergeOverlapping_exact (mx : Bool) (a : TermLocation) (rest : List TermLocation)
    (hs : sortedByStart (a :: rest) = true) (hne : ∀ l ∈ a :: rest, l.start < l.stop) :
    mergeOverlapping mx (a :: rest) =
      some { a with stop := (absorbRun mx a.stop rest).2 } ::
        (List.replicate (absorbRun mx a.stop rest).1 none ++ (rest.drop (absorbRun mx a.stop rest).1).map some) := by
  simp only [mergeOverlapping]
  rw [mergeLoop_exact mx rest a (hne a (by simp))
    (fun x hx => ⟨sorted_head_le hs x hx, hne x (by simp [hx])⟩) (sorted_tail' hs)]

/-! ### Ends that do not decrease: overwriting the End is taking the maximum -/

theorem monotone_tail {a : TermLocation} {rest : List TermLocation} (h : monotoneStops (a :: rest) = true) :
    monotoneStops rest = true := by
  cases rest with
  | nil => rfl
  | cons b r =>
    simp only [monotoneStops, Bool.and_eq_true] at h
    exact h.2

theorem monotone_head_le : ∀ {a : TermLocation} {rest : List TermLocation}, monotoneStops (a :: rest) = true →
    ∀ x ∈ rest, a.stop ≤ x.stop
  | _, [], _ => by simp
  | a, b :: rest, h => by
    simp only [monotoneStops, Bool.and_eq_true, decide_eq_true_eq] at h
    intro x hx
    simp only [List.mem_cons] at hx
    rcases hx with hx | hx
    · subst hx; exact h.1
    · have := monotone_head_le h.2 x hx; omega

theorem absorbRun_monotone : ∀ (rest : List TermLocation) (e : Int), (∀ x ∈ rest, e ≤ x.stop) →
    monotoneStops rest = true → absorbRun false e rest = absorbRun true e rest
  | [], _, _, _ => rfl
  | tl :: rest, e, he, hm => by
    simp only [absorbRun, Bool.false_and, Bool.false_eq_true, if_false, Bool.true_and, decide_eq_true_eq]
    have h1 := he tl (by simp)
    have hle := monotone_head_le hm
    by_cases h : tl.start < e
    · simp only [h, if_true]
      by_cases h2 : tl.stop ≤ e
      · have e1 : tl.stop = e := by omega
        simp only [h2, if_true]
        rw [e1, absorbRun_monotone rest e (fun x hx => by have := hle x hx; omega) (monotone_tail hm)]
      · simp only [h2, if_false]
        rw [absorbRun_monotone rest tl.stop (fun x hx => hle x hx) (monotone_tail hm)]
    · simp only [h, if_false]

/-! ### the spans of runs -/

theorem chainFrom_head (s e : Int) (rest : List TermLocation) : (s, e) ∈ chainFrom s e rest := by
  cases rest <;> simp [chainFrom]

/-- the End the head is left with under repair 5 (or with non-decreasing Ends) is the union of a run -/
theorem absorbRun_mem_chainFrom (s : Int) : ∀ (rest : List TermLocation) (e : Int),
    (s, (absorbRun true e rest).2) ∈ chainFrom s e rest
  | [], _ => by simp [absorbRun, chainFrom]
  | tl :: rest, e => by
    simp only [absorbRun, chainFrom, Bool.true_and, decide_eq_true_eq]
    by_cases h : tl.start < e
    · simp only [h, if_true, List.mem_cons]
      exact Or.inr (absorbRun_mem_chainFrom s rest _)
    · simp only [h, if_false, List.mem_cons, List.not_mem_nil, or_false]

theorem mem_runUnions_of_mem : ∀ {ot : List TermLocation} {l : TermLocation}, l ∈ ot → (l.start, l.stop) ∈ runUnions ot
  | [], _, h => by simp at h
  | a :: rest, l, h => by
    simp only [runUnions, List.mem_append]
    simp only [List.mem_cons] at h
    rcases h with h | h
    · subst h; exact Or.inl (chainFrom_head _ _ _)
    · exact Or.inr (mem_runUnions_of_mem h)

/-- every entry MergeOverlapping leaves is one location or the union of a run of overlapping ones, when it takes
the larger End (repair 5) or when the Ends never decrease along the sorted list -/
theorem merged_entries_are_runs (mx : Bool) (ot : List TermLocation) (hs : sortedByStart ot = true)
    (hne : ∀ l ∈ ot, l.start < l.stop) (hm : mx = true ∨ monotoneStops ot = true) (m : TermLocation)
    (h : some m ∈ mergeOverlapping mx ot) : markOK ot (m.start, m.stop) = true := by
  cases ot with
  | nil => simp [mergeOverlapping] at h
  | cons a rest =>
    rw [mergeOverlapping_exact mx a rest hs hne] at h
    simp only [markOK, List.contains_eq_mem, decide_eq_true_eq]
    simp only [List.mem_cons, Option.some.injEq, List.mem_append, List.mem_replicate, reduceCtorEq, and_false,
      List.mem_map, false_or] at h
    rcases h with h | ⟨x, hx, rfl⟩
    · subst h
      simp only [runUnions, List.mem_append]
      left
      have e : (absorbRun mx a.stop rest).2 = (absorbRun true a.stop rest).2 := by
        rcases hm with hm | hm
        · rw [hm]
        · cases mx
          · rw [absorbRun_monotone rest a.stop (monotone_head_le hm) (monotone_tail hm)]
          · rfl
      rw [e]
      exact absorbRun_mem_chainFrom a.start rest a.stop
    · exact mem_runUnions_of_mem (List.mem_cons_of_mem _ (List.mem_of_mem_drop hx))

end Bluge.C20

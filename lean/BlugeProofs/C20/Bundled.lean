import BlugeProofs.C20.Order
import BlugeProofs.C20.Merge
/-! The location sets a bundled analyzer yields on one field value (tokens of a tokenizer, any selection of them,
CJK bigrams of adjacent tokens) advance strictly in both ends; such sets satisfy the premises of the partial
theorems about ties and about merged marks (C20 helpers). -/
namespace Bluge.C20
open Bluge.Highlight

theorem advancing_tail {a : TermLocation} {rest : List TermLocation} (h : advancing (a :: rest) = true) :
    advancing rest = true := by
  cases rest with
  | nil => rfl
  | cons b r =>
    simp only [advancing, Bool.and_eq_true] at h
    exact h.2

theorem advancing_head {a : TermLocation} {rest : List TermLocation} (h : advancing (a :: rest) = true) :
    a.start < a.stop := by
  cases rest with
  | nil => simpa [advancing] using h
  | cons b r =>
    simp only [advancing, Bool.and_eq_true, decide_eq_true_eq] at h
    exact h.1.1.1

theorem advancing_head_lt : ∀ {a : TermLocation} {rest : List TermLocation}, advancing (a :: rest) = true →
    ∀ x ∈ rest, a.start < x.start ∧ a.stop < x.stop
  | _, [], _ => by simp
  | a, b :: rest, h => by
    have h' := h
    simp only [advancing, Bool.and_eq_true, decide_eq_true_eq] at h'
    intro x hx
    simp only [List.mem_cons] at hx
    rcases hx with hx | hx
    · subst hx; exact ⟨h'.1.1.2, h'.1.2⟩
    · have := advancing_head_lt h'.2 x hx
      exact ⟨by omega, by omega⟩

theorem advancing_nonempty : ∀ {ot : List TermLocation}, advancing ot = true → ∀ l ∈ ot, l.start < l.stop
  | [], _ => by simp
  | a :: rest, h => by
    intro l hl
    simp only [List.mem_cons] at hl
    rcases hl with hl | hl
    · subst hl; exact advancing_head h
    · exact advancing_nonempty (advancing_tail h) l hl

theorem advancing_cons {a : TermLocation} {rest : List TermLocation} (ha : a.start < a.stop)
    (hlt : ∀ x ∈ rest, a.start < x.start ∧ a.stop < x.stop) (hr : advancing rest = true) :
    advancing (a :: rest) = true := by
  cases rest with
  | nil => simpa [advancing] using ha
  | cons b r =>
    have := hlt b (by simp)
    simp only [advancing, Bool.and_eq_true, decide_eq_true_eq]
    exact ⟨⟨⟨ha, this.1⟩, this.2⟩, hr⟩

/-- any selection of an advancing list (the locations a query matched) is advancing -/
theorem advancing_sublist {l' l : List TermLocation} (hs : l'.Sublist l) : advancing l = true → advancing l' = true := by
  induction hs with
  | slnil => intro h; exact h
  | cons a _ ih => intro h; exact ih (advancing_tail h)
  | cons_cons a hsub ih =>
    intro h
    exact advancing_cons (advancing_head h) (fun x hx => advancing_head_lt h x (hsub.subset hx)) (ih (advancing_tail h))

theorem advancing_sorted : ∀ {ot : List TermLocation}, advancing ot = true → sortedByStart ot = true
  | [], _ => rfl
  | [_], _ => rfl
  | a :: b :: rest, h => by
    have h' := h
    simp only [advancing, Bool.and_eq_true, decide_eq_true_eq] at h'
    simp only [sortedByStart, Bool.and_eq_true, decide_eq_true_eq]
    exact ⟨by omega, advancing_sorted h'.2⟩

theorem advancing_monotone : ∀ {ot : List TermLocation}, advancing ot = true → monotoneStops ot = true
  | [], _ => rfl
  | [_], _ => rfl
  | a :: b :: rest, h => by
    have h' := h
    simp only [advancing, Bool.and_eq_true, decide_eq_true_eq] at h'
    simp only [monotoneStops, Bool.and_eq_true, decide_eq_true_eq]
    exact ⟨by omega, advancing_monotone h'.2⟩

theorem advancing_starts_ne : ∀ {ot : List TermLocation}, advancing ot = true →
    ∀ a ∈ ot, ∀ b ∈ ot, a.start = b.start → a.stop = b.stop
  | [], _ => by simp
  | x :: rest, h => by
    intro a ha b hb e
    simp only [List.mem_cons] at ha hb
    have hlt := advancing_head_lt h
    rcases ha with ha | ha <;> rcases hb with hb | hb
    · subst ha; subst hb; rfl
    · subst ha; have := (hlt b hb).1; omega
    · subst hb; have := (hlt a ha).1; omega
    · exact advancing_starts_ne (advancing_tail h) a ha b hb e

theorem advancing_tiesAgree {ot : List TermLocation} (h : advancing ot = true) : tiesAgree ot = true :=
  (tiesAgree_iff ot).mpr (advancing_starts_ne h)

/-- the tokens of a tokenizer: sorted, pairwise disjoint, non-empty -/
theorem advancing_of_disjoint : ∀ {ot : List TermLocation}, disjointLocs ot = true → (∀ l ∈ ot, l.start < l.stop) →
    advancing ot = true
  | [], _, _ => rfl
  | [a], _, hne => by simpa [advancing] using hne a (by simp)
  | a :: b :: rest, hd, hne => by
    have hd' := hd
    simp only [disjointLocs, Bool.and_eq_true, decide_eq_true_eq] at hd'
    have ha := hne a (by simp)
    have hb := hne b (by simp)
    simp only [advancing, Bool.and_eq_true, decide_eq_true_eq]
    exact ⟨⟨⟨ha, by omega⟩, by omega⟩, advancing_of_disjoint hd'.2 (fun l hl => hne l (by simp [hl]))⟩

/-- the CJK bigrams of adjacent tokens: overlapping, but both ends advance -/
theorem advancing_bigrams : ∀ {ot : List TermLocation}, disjointLocs ot = true → (∀ l ∈ ot, l.start < l.stop) →
    advancing (bigramSpans ot) = true
  | [], _, _ => rfl
  | [_], _, _ => rfl
  | [a, b], hd, hne => by
    simp only [disjointLocs, Bool.and_eq_true, decide_eq_true_eq] at hd
    have ha := hne a (by simp); have hb := hne b (by simp)
    simp only [bigramSpans, advancing, decide_eq_true_eq]
    omega
  | a :: b :: c :: rest, hd, hne => by
    have hd' := hd
    simp only [disjointLocs, Bool.and_eq_true, decide_eq_true_eq] at hd'
    have ha := hne a (by simp); have hb := hne b (by simp); have hc := hne c (by simp)
    have ih := advancing_bigrams (ot := b :: c :: rest) (by
      simp only [disjointLocs, Bool.and_eq_true, decide_eq_true_eq]; exact ⟨hd'.2.1, hd'.2.2⟩)
      (fun l hl => hne l (by simp [hl]))
    simp only [bigramSpans] at ih ⊢
    simp only [advancing, Bool.and_eq_true, decide_eq_true_eq]
    exact ⟨⟨⟨by omega, by omega⟩, by omega⟩, ih⟩

end Bluge.C20

import Bluge.Highlight
/-! Lemmas about the UTF-8 decoder model (C20 helpers). -/
namespace Bluge.C20
open Bluge.Highlight

theorem decodeRune_nil : decodeRune [] = (runeError, 0) := rfl

theorem decodeRune_size_pos (p : Bytes) (h : p ≠ []) : 1 ≤ (decodeRune p).2 := by
  unfold decodeRune
  split
  · contradiction
  · repeat' split
    all_goals simp

theorem decodeRune_size_le (p : Bytes) : (decodeRune p).2 ≤ p.length := by
  unfold decodeRune
  split
  · simp
  · repeat' split
    all_goals simp

theorem secondOK_cont {x : Nat} {b : Byte} (h : secondOK x b = true) : isCont b = true := by
  unfold secondOK at h
  unfold isCont
  simp only [Bool.and_eq_true, decide_eq_true_eq] at h ⊢
  split at h <;> split at h <;> (try split at h) <;> (try split at h) <;> omega

/-- a decoded rune that is not the (RuneError,1) of an invalid byte: the shape of its encoding -/
inductive RuneShape : Bytes → Nat → Prop
  | one (b : Byte) (t : Bytes) : b.toNat < 0x80 → RuneShape (b :: t) 1
  | two (b0 b1 : Byte) (t : Bytes) : 0xC2 ≤ b0.toNat → isCont b1 = true → RuneShape (b0 :: b1 :: t) 2
  | three (b0 b1 b2 : Byte) (t : Bytes) : 0xC2 ≤ b0.toNat → isCont b1 = true → isCont b2 = true → RuneShape (b0 :: b1 :: b2 :: t) 3
  | four (b0 b1 b2 b3 : Byte) (t : Bytes) : 0xC2 ≤ b0.toNat → isCont b1 = true → isCont b2 = true → isCont b3 = true → RuneShape (b0 :: b1 :: b2 :: b3 :: t) 4

theorem decodeRune_shape (p : Bytes) (hp : p ≠ []) (h : ¬((decodeRune p).1 = runeError ∧ (decodeRune p).2 ≤ 1)) :
    RuneShape p (decodeRune p).2 := by
  unfold decodeRune at h ⊢
  split at h
  · contradiction
  · rename_i b0 t
    split at h
    · rename_i h0; simp only [h0, if_true]; exact .one _ _ h0
    · rename_i h0; simp only [h0, if_false]
      split at h
      · simp at h
      · rename_i h1; simp only [h1, if_false]
        split at h
        · rename_i h2; simp only [h2, if_true]
          split at h
          · rename_i b1 t1
            split at h
            · rename_i h3; simp only [h3, if_true]; exact .two _ _ _ (by omega) (secondOK_cont h3)
            · simp at h
          · simp at h
        · rename_i h2; simp only [h2, if_false]
          split at h
          · rename_i h4; simp only [h4, if_true]
            split at h
            · split at h
              · rename_i h3; simp only [h3, if_true]
                simp only [Bool.and_eq_true] at h3
                exact .three _ _ _ _ (by omega) (secondOK_cont h3.1) h3.2
              · simp at h
            · simp at h
          · rename_i h4; simp only [h4, if_false]
            split at h
            · rename_i h5; simp only [h5, if_true]
              split at h
              · split at h
                · rename_i h3; simp only [h3, if_true]
                  simp only [Bool.and_eq_true] at h3
                  exact .four _ _ _ _ _ (by omega) (secondOK_cont h3.1.1) h3.1.2 h3.2
                · simp at h
              · simp at h
            · simp at h

theorem RuneShape.pos {p : Bytes} {n : Nat} (h : RuneShape p n) : 1 ≤ n := by cases h <;> omega

theorem RuneShape.size_le {p : Bytes} {n : Nat} (h : RuneShape p n) : n ≤ p.length := by
  cases h <;> simp

theorem RuneShape.head_start {p : Bytes} {n : Nat} (h : RuneShape p n) :
    ∃ b t, p = b :: t ∧ runeStart b = true := by
  cases h with
  | one b t hb => exact ⟨b, t, rfl, by simp [runeStart, isCont]; omega⟩
  | two b0 b1 t hb => exact ⟨b0, _, rfl, by simp [runeStart, isCont]; omega⟩
  | three b0 b1 b2 t hb => exact ⟨b0, _, rfl, by simp [runeStart, isCont]; omega⟩
  | four b0 b1 b2 b3 t hb => exact ⟨b0, _, rfl, by simp [runeStart, isCont]; omega⟩

theorem RuneShape.cont {p : Bytes} {n : Nat} (h : RuneShape p n) (i : Nat) (h0 : 0 < i) (hi : i < n) :
    ∃ b, p[i]? = some b ∧ isCont b = true := by
  cases h with
  | one b t hb => omega
  | two b0 b1 t hb h1 =>
    have : i = 1 := by omega
    subst this; exact ⟨b1, rfl, h1⟩
  | three b0 b1 b2 t hb h1 h2 =>
    rcases i with _ | _ | _ | i
    · omega
    · exact ⟨b1, rfl, h1⟩
    · exact ⟨b2, rfl, h2⟩
    · omega
  | four b0 b1 b2 b3 t hb h1 h2 h3 =>
    rcases i with _ | _ | _ | _ | i
    · omega
    · exact ⟨b1, rfl, h1⟩
    · exact ⟨b2, rfl, h2⟩
    · exact ⟨b3, rfl, h3⟩
    · omega

/-- a shape only looks at the first `n` bytes -/
theorem RuneShape.take {p : Bytes} {n : Nat} (h : RuneShape p n) : RuneShape (p.take n) n := by
  cases h with
  | one b t hb => exact .one b _ hb
  | two b0 b1 t hb h1 => exact .two _ _ _ hb h1
  | three b0 b1 b2 t hb h1 h2 => exact .three _ _ _ _ hb h1 h2
  | four b0 b1 b2 b3 t hb h1 h2 h3 => exact .four _ _ _ _ _ hb h1 h2 h3

/-! ### rune boundaries -/

theorem boundsFrom_head (f k : Nat) (p : Bytes) : k ∈ boundsFrom f k p := by
  cases f <;> cases p <;> simp [boundsFrom]

theorem boundsFrom_mem_range {f k : Nat} {p : Bytes} {x : Nat} (h : x ∈ boundsFrom f k p) :
    k ≤ x ∧ x ≤ k + p.length := by
  induction f generalizing k p with
  | zero => cases p <;> simp [boundsFrom] at h <;> omega
  | succ f ih =>
    cases p with
    | nil => simp [boundsFrom] at h; omega
    | cons b t =>
      simp only [boundsFrom, List.mem_cons] at h
      rcases h with h | h
      · subst h; omega
      · have := ih h
        have hle := decodeRune_size_le (b :: t)
        simp only [List.length_drop] at this
        omega

/-- decoding at a boundary inside the text lands on the next boundary -/
theorem boundsFrom_step {f k : Nat} {p : Bytes} {x : Nat} (hf : p.length ≤ f)
    (h : x ∈ boundsFrom f k p) (hx : x < k + p.length) :
    x + (decodeRune (p.drop (x - k))).2 ∈ boundsFrom f k p := by
  induction f generalizing k p with
  | zero =>
    cases p with
    | nil => simp at hx; have := (boundsFrom_mem_range h).1; omega
    | cons b t => simp at hf
  | succ f ih =>
    cases p with
    | nil => have := (boundsFrom_mem_range h).1; simp at hx; omega
    | cons b t =>
      have hpos := decodeRune_size_pos (b :: t) (by simp)
      have hle := decodeRune_size_le (b :: t)
      simp only [boundsFrom, List.mem_cons] at h ⊢
      rcases h with h | h
      · subst h
        right
        simp only [Nat.sub_self, List.drop_zero]
        exact boundsFrom_head _ _ _
      · right
        have hr := boundsFrom_mem_range h
        have hlen : ((b :: t).drop (decodeRune (b :: t)).2).length ≤ f := by
          simp only [List.length_drop, List.length_cons] at *; omega
        have := ih hlen h (by simp only [List.length_drop]; omega)
        rw [List.drop_drop] at this
        have e : (decodeRune (b :: t)).2 + (x - (k + (decodeRune (b :: t)).2)) = x - k := by omega
        rw [e] at this
        exact this

/-- in a valid text every offset that is not a rune boundary holds a continuation byte -/
theorem valid_nonboundary_cont {f k : Nat} {p : Bytes} (hv : runesOK false f p = true) (hf : p.length ≤ f)
    (i : Nat) (hi : i < p.length) (hn : (k + i) ∉ boundsFrom f k p) :
    ∃ b, p[i]? = some b ∧ isCont b = true := by
  induction f generalizing k p i with
  | zero => cases p <;> simp at hf hi
  | succ f ih =>
    cases p with
    | nil => simp at hi
    | cons b t =>
      simp only [runesOK, Bool.false_eq_true, if_false, Bool.and_eq_true, Bool.not_eq_true',
        decide_eq_false_iff_not] at hv
      have hshape := decodeRune_shape (b :: t) (by simp) hv.1
      have hle := decodeRune_size_le (b :: t)
      simp only [boundsFrom, List.mem_cons, not_or] at hn
      by_cases hlt : i < (decodeRune (b :: t)).2
      · exact hshape.cont i (by omega) hlt
      · have hlen : ((b :: t).drop (decodeRune (b :: t)).2).length ≤ f := by
          have := hshape.pos
          simp only [List.length_drop, List.length_cons] at *; omega
        have := ih (k := k + (decodeRune (b :: t)).2) hv.2 hlen (i - (decodeRune (b :: t)).2)
          (by simp only [List.length_drop]; omega)
          (by have e : k + (decodeRune (b :: t)).2 + (i - (decodeRune (b :: t)).2) = k + i := by omega
              rw [e]; exact hn.2)
        rcases this with ⟨c, hc, hcc⟩
        refine ⟨c, ?_, hcc⟩
        rw [List.getElem?_drop] at hc
        have e : (decodeRune (b :: t)).2 + (i - (decodeRune (b :: t)).2) = i := by omega
        rw [e] at hc; exact hc

/-- in a valid text every rune boundary before the end holds a rune-start byte -/
theorem valid_boundary_start {f k : Nat} {p : Bytes} (hv : runesOK false f p = true) (hf : p.length ≤ f)
    (i : Nat) (hi : i < p.length) (hm : (k + i) ∈ boundsFrom f k p) :
    ∃ b, p[i]? = some b ∧ runeStart b = true := by
  induction f generalizing k p i with
  | zero => cases p <;> simp at hf hi
  | succ f ih =>
    cases p with
    | nil => simp at hi
    | cons b t =>
      simp only [runesOK, Bool.false_eq_true, if_false, Bool.and_eq_true, Bool.not_eq_true',
        decide_eq_false_iff_not] at hv
      have hshape := decodeRune_shape (b :: t) (by simp) hv.1
      have hle := decodeRune_size_le (b :: t)
      simp only [boundsFrom, List.mem_cons] at hm
      rcases hm with hm | hm
      · have : i = 0 := by omega
        subst this
        rcases hshape.head_start with ⟨c, t', e, hs⟩
        cases e
        exact ⟨b, rfl, hs⟩
      · have hr := (boundsFrom_mem_range hm).1
        have hlen : ((b :: t).drop (decodeRune (b :: t)).2).length ≤ f := by
          have := hshape.pos
          simp only [List.length_drop, List.length_cons] at *; omega
        have := ih (k := k + (decodeRune (b :: t)).2) hv.2 hlen (i - (decodeRune (b :: t)).2)
          (by simp only [List.length_drop]; omega)
          (by have e : k + (decodeRune (b :: t)).2 + (i - (decodeRune (b :: t)).2) = k + i := by omega
              rw [e]; exact hm)
        rcases this with ⟨c, hc, hcc⟩
        refine ⟨c, ?_, hcc⟩
        rw [List.getElem?_drop] at hc
        have e : (decodeRune (b :: t)).2 + (i - (decodeRune (b :: t)).2) = i := by omega
        rw [e] at hc; exact hc

/-! ### the decoded value: a relational description of a successful decode -/

inductive Decodes : Bytes → Nat → Nat → Prop
  | one (b : Byte) (t : Bytes) : b.toNat < 0x80 → Decodes (b :: t) b.toNat 1
  | two (b0 b1 : Byte) (t : Bytes) : 0xC2 ≤ b0.toNat → b0.toNat < 0xE0 → secondOK b0.toNat b1 = true →
      Decodes (b0 :: b1 :: t) ((b0.toNat % 32) * 64 + b1.toNat % 64) 2
  | three (b0 b1 b2 : Byte) (t : Bytes) : 0xE0 ≤ b0.toNat → b0.toNat < 0xF0 → secondOK b0.toNat b1 = true →
      isCont b2 = true →
      Decodes (b0 :: b1 :: b2 :: t) ((b0.toNat % 16) * 4096 + (b1.toNat % 64) * 64 + b2.toNat % 64) 3
  | four (b0 b1 b2 b3 : Byte) (t : Bytes) : 0xF0 ≤ b0.toNat → b0.toNat ≤ 0xF4 → secondOK b0.toNat b1 = true →
      isCont b2 = true → isCont b3 = true →
      Decodes (b0 :: b1 :: b2 :: b3 :: t)
        ((b0.toNat % 8) * 262144 + (b1.toNat % 64) * 4096 + (b2.toNat % 64) * 64 + b3.toNat % 64) 4

theorem decodeRune_decodes (p : Bytes) (hp : p ≠ []) (h : ¬((decodeRune p).1 = runeError ∧ (decodeRune p).2 ≤ 1)) :
    Decodes p (decodeRune p).1 (decodeRune p).2 := by
  unfold decodeRune at h ⊢
  split at h
  · contradiction
  · rename_i b0 t
    split at h
    · rename_i h0; simp only [h0, if_true]; exact .one _ _ h0
    · rename_i h0; simp only [h0, if_false]
      split at h
      · simp at h
      · rename_i h1; simp only [h1, if_false]
        split at h
        · rename_i h2; simp only [h2, if_true]
          split at h
          · rename_i b1 t1
            split at h
            · rename_i h3; simp only [h3, if_true]; exact .two _ _ _ (by omega) h2 h3
            · simp at h
          · simp at h
        · rename_i h2; simp only [h2, if_false]
          split at h
          · rename_i h4; simp only [h4, if_true]
            split at h
            · split at h
              · rename_i h3; simp only [h3, if_true]
                simp only [Bool.and_eq_true] at h3
                exact .three _ _ _ _ (by omega) h4 h3.1 h3.2
              · simp at h
            · simp at h
          · rename_i h4; simp only [h4, if_false]
            split at h
            · rename_i h5; simp only [h5, if_true]
              split at h
              · split at h
                · rename_i h3; simp only [h3, if_true]
                  simp only [Bool.and_eq_true] at h3
                  exact .four _ _ _ _ _ (by omega) h5 h3.1.1 h3.1.2 h3.2
                · simp at h
              · simp at h
            · simp at h

theorem Decodes.eq {p : Bytes} {r n : Nat} (h : Decodes p r n) : decodeRune p = (r, n) := by
  cases h with
  | one b t hb => simp only [decodeRune, hb, if_true]
  | two b0 b1 t h1 h2 h3 =>
    simp only [decodeRune]
    rw [if_neg (by omega), if_neg (by omega), if_pos h2]
    simp only [h3, if_true]
  | three b0 b1 b2 t h1 h2 h3 h4 =>
    simp only [decodeRune]
    rw [if_neg (by omega), if_neg (by omega), if_neg (by omega), if_pos h2]
    simp only [h3, h4, Bool.and_self, if_true]
  | four b0 b1 b2 b3 t h1 h2 h3 h4 h5 =>
    simp only [decodeRune]
    rw [if_neg (by omega), if_neg (by omega), if_neg (by omega), if_neg (by omega), if_pos h2]
    simp only [h3, h4, h5, Bool.and_self, if_true]

theorem Decodes.shape {p : Bytes} {r n : Nat} (h : Decodes p r n) : RuneShape p n := by
  cases h with
  | one b t hb => exact .one b t hb
  | two b0 b1 t h1 h2 h3 => exact .two _ _ _ h1 (secondOK_cont h3)
  | three b0 b1 b2 t h1 h2 h3 h4 => exact .three _ _ _ _ (by omega) (secondOK_cont h3) h4
  | four b0 b1 b2 b3 t h1 h2 h3 h4 h5 => exact .four _ _ _ _ _ (by omega) (secondOK_cont h3) h4 h5

/-- a decode only looks at the first `n` bytes -/
theorem Decodes.take {p : Bytes} {r n : Nat} (h : Decodes p r n) (k : Nat) (hk : n ≤ k) : Decodes (p.take k) r n := by
  cases h with
  | one b t hb =>
    obtain ⟨k', rfl⟩ : ∃ k', k = k' + 1 := ⟨k - 1, by omega⟩
    exact .one b _ hb
  | two b0 b1 t h1 h2 h3 =>
    obtain ⟨k', rfl⟩ : ∃ k', k = k' + 2 := ⟨k - 2, by omega⟩
    exact .two _ _ _ h1 h2 h3
  | three b0 b1 b2 t h1 h2 h3 h4 =>
    obtain ⟨k', rfl⟩ : ∃ k', k = k' + 3 := ⟨k - 3, by omega⟩
    exact .three _ _ _ _ h1 h2 h3 h4
  | four b0 b1 b2 b3 t h1 h2 h3 h4 h5 =>
    obtain ⟨k', rfl⟩ : ∃ k', k = k' + 4 := ⟨k - 4, by omega⟩
    exact .four _ _ _ _ _ h1 h2 h3 h4 h5

/-- a decode is unchanged by what follows the `n` bytes -/
theorem Decodes.append {q : Bytes} {r n : Nat} (h : Decodes q r n) (rest : Bytes) : Decodes (q ++ rest) r n := by
  cases h with
  | one b t hb => exact .one b _ hb
  | two b0 b1 t h1 h2 h3 => exact .two _ _ _ h1 h2 h3
  | three b0 b1 b2 t h1 h2 h3 h4 => exact .three _ _ _ _ h1 h2 h3 h4
  | four b0 b1 b2 b3 t h1 h2 h3 h4 h5 => exact .four _ _ _ _ _ h1 h2 h3 h4 h5

end Bluge.C20

import Bluge.Highlight
/-! The fragment queue (container/heap) and the selection loop of BestFragments (C20 helpers). -/
namespace Bluge.C20
open Bluge.Highlight

/-! ### swaps -/

theorem hswap_length (h : List Fragment) (i j : Nat) : (hswap h i j).length = h.length := by
  simp [hswap]

theorem hswap_getElem? (h : List Fragment) (i j k : Nat) (hi : i < h.length) (hj : j < h.length) :
    (hswap h i j)[k]? = if k = j then h[i]? else if k = i then h[j]? else h[k]? := by
  unfold hswap
  rw [List.getD_eq_getElem?_getD, List.getD_eq_getElem?_getD, List.getElem?_eq_getElem hi,
    List.getElem?_eq_getElem hj]
  simp only [Option.getD_some]
  rw [List.getElem?_set, List.getElem?_set]
  simp only [List.length_set]
  by_cases h1 : k = j
  · subst h1; simp [hj]
  · have h1' : ¬ j = k := fun e => h1 e.symm
    simp only [h1, h1', if_false]
    by_cases h2 : k = i
    · subst h2; simp [hi]
    · have h2' : ¬ i = k := fun e => h2 e.symm
      simp only [h2, h2', if_false]

theorem mem_hswap {h : List Fragment} {i j : Nat} (hi : i < h.length) (hj : j < h.length) {x : Fragment} :
    x ∈ hswap h i j ↔ x ∈ h := by
  rw [List.mem_iff_getElem?, List.mem_iff_getElem?]
  constructor
  · rintro ⟨k, hk⟩
    rw [hswap_getElem? h i j k hi hj] at hk
    split at hk
    · exact ⟨i, hk⟩
    · split at hk
      · exact ⟨j, hk⟩
      · exact ⟨k, hk⟩
  · rintro ⟨k, hk⟩
    by_cases h1 : k = i
    · subst h1
      refine ⟨j, ?_⟩
      rw [hswap_getElem? h k j j hi hj]; simpa using hk
    · by_cases h2 : k = j
      · subst h2
        refine ⟨i, ?_⟩
        rw [hswap_getElem? h i k i hi hj]
        have : ¬ i = k := fun e => h1 e.symm
        simpa [this] using hk
      · refine ⟨k, ?_⟩
        rw [hswap_getElem? h i j k hi hj]
        simpa [h1, h2] using hk

/-- score at an index (0 beyond the end) -/
def sc (h : List Fragment) (k : Nat) : Nat := (h.getD k default).score

theorem hless_iff (h : List Fragment) (i j : Nat) : hless h i j = true ↔ sc h j < sc h i := by
  simp [hless, sc]

theorem sc_hswap (h : List Fragment) (i j k : Nat) (hi : i < h.length) (hj : j < h.length) :
    sc (hswap h i j) k = if k = j then sc h i else if k = i then sc h j else sc h k := by
  unfold sc
  rw [List.getD_eq_getElem?_getD, hswap_getElem? h i j k hi hj]
  split
  · rw [List.getD_eq_getElem?_getD]
  · split
    · rw [List.getD_eq_getElem?_getD]
    · rw [List.getD_eq_getElem?_getD]

/-! ### heap.up -/

theorem heapUp_length : ∀ (f : Nat) (h : List Fragment) (j : Nat), (heapUp h f j).length = h.length := by
  intro f
  induction f with
  | zero => intro h j; rfl
  | succ f ih =>
    intro h j
    simp only [heapUp]
    split
    · rfl
    · rw [ih, hswap_length]

theorem parent_lt {j : Nat} (h : ¬ (j - 1) / 2 = j) : (j - 1) / 2 < j := by omega

theorem mem_heapUp : ∀ (f : Nat) (h : List Fragment) (j : Nat), j < h.length →
    ∀ x, x ∈ heapUp h f j ↔ x ∈ h := by
  intro f
  induction f with
  | zero => intro h j _ x; rfl
  | succ f ih =>
    intro h j hj x
    simp only [heapUp]
    split
    · rfl
    · rename_i hc
      have hne : ¬ (j - 1) / 2 = j := fun e => hc (Or.inl e)
      have hi : (j - 1) / 2 < h.length := by have := parent_lt hne; omega
      rw [ih _ _ (by rw [hswap_length]; exact hi), mem_hswap hi hj]

/-- the root holds a maximal score -/
def rootMax (h : List Fragment) : Prop := ∀ k, k < h.length → sc h k ≤ sc h 0

theorem heapUp_rootMax : ∀ (f : Nat) (h : List Fragment) (j : Nat), j < h.length → j < f →
    (rootMax h ∨ (∀ k, k < h.length → k ≠ j → sc h k < sc h j)) → rootMax (heapUp h f j) := by
  intro f
  induction f with
  | zero => intro h j _ hf; omega
  | succ f ih =>
    intro h j hj hf hpre
    simp only [heapUp]
    split
    · rename_i hc
      rcases hpre with hr | hs
      · exact hr
      · rcases hc with hc | hc
        · have j0 : j = 0 := by omega
          subst j0
          intro k hk
          by_cases hk0 : k = 0
          · subst hk0; exact Nat.le_refl _
          · exact Nat.le_of_lt (hs k hk hk0)
        · -- the parent is not smaller, but j is the strict maximum: only possible when the parent is j
          by_cases hne : (j - 1) / 2 = j
          · have j0 : j = 0 := by omega
            subst j0
            intro k hk
            by_cases hk0 : k = 0
            · subst hk0; exact Nat.le_refl _
            · exact Nat.le_of_lt (hs k hk hk0)
          · have hi : (j - 1) / 2 < h.length := by have := parent_lt hne; omega
            have := hs _ hi hne
            have hl : hless h j ((j - 1) / 2) = true := (hless_iff _ _ _).mpr this
            simp [hl] at hc
    · rename_i hc
      have hne : ¬ (j - 1) / 2 = j := fun e => hc (Or.inl e)
      have hlt := parent_lt hne
      have hi : (j - 1) / 2 < h.length := by omega
      have hl : sc h ((j - 1) / 2) < sc h j := by
        have : ¬ (!hless h j ((j - 1) / 2)) = true := fun e => hc (Or.inr e)
        have : hless h j ((j - 1) / 2) = true := by simpa using this
        exact (hless_iff _ _ _).mp this
      apply ih _ _ (by rw [hswap_length]; exact hi) (by omega)
      rcases hpre with hr | hs
      · left
        have hi0 : (j - 1) / 2 ≠ 0 := by
          intro e
          have := hr j hj
          rw [e] at hl; omega
        have hj0 : j ≠ 0 := by omega
        intro k hk
        rw [hswap_length] at hk
        rw [sc_hswap h _ _ k hi hj, sc_hswap h _ _ 0 hi hj]
        rw [if_neg (Ne.symm hj0), if_neg (Ne.symm hi0)]
        split
        · exact hr _ hi
        · split
          · exact hr _ hj
          · exact hr _ hk
      · right
        intro k hk hki
        rw [hswap_length] at hk
        rw [sc_hswap h _ _ k hi hj, sc_hswap h _ _ ((j - 1) / 2) hi hj]
        rw [if_neg hne, if_pos rfl]
        split
        · exact hl
        · rename_i hkj
          first | rw [if_neg hki] | skip
          exact hs k hk hkj

/-! ### heap.Push -/

theorem mem_heapPush (h : List Fragment) (x y : Fragment) : y ∈ heapPush h x ↔ y ∈ h ∨ y = x := by
  unfold heapPush
  rw [mem_heapUp _ _ _ (by simp)]
  simp

theorem sc_append_lt (h : List Fragment) (x : Fragment) (k : Nat) (hk : k < h.length) : sc (h ++ [x]) k = sc h k := by
  unfold sc
  rw [List.getD_eq_getElem?_getD, List.getD_eq_getElem?_getD, List.getElem?_append_left hk]

theorem sc_append_last (h : List Fragment) (x : Fragment) : sc (h ++ [x]) h.length = x.score := by
  unfold sc
  rw [List.getD_eq_getElem?_getD]
  simp

theorem heapPush_rootMax (h : List Fragment) (x : Fragment) (hr : rootMax h) : rootMax (heapPush h x) := by
  unfold heapPush
  apply heapUp_rootMax _ _ _ (by simp) (by omega)
  cases h with
  | nil =>
    right
    intro k hk hne
    simp at hk; simp at hne; omega
  | cons a t =>
    by_cases hx : x.score ≤ sc (a :: t) 0
    · left
      intro k hk
      simp only [List.length_append, List.length_cons, List.length_nil] at hk
      rw [sc_append_lt (a :: t) x 0 (by simp)]
      by_cases hkl : k < (a :: t).length
      · rw [sc_append_lt _ _ _ hkl]; exact hr k hkl
      · have : k = (a :: t).length := by simp only [List.length_cons] at hkl ⊢; omega
        rw [this, sc_append_last]; exact hx
    · right
      intro k hk hne
      simp only [List.length_append, List.length_cons, List.length_nil] at hk
      have hkl : k < (a :: t).length := by simp only [List.length_cons] at hne ⊢; omega
      rw [sc_append_last, sc_append_lt _ _ _ hkl]
      have := hr k hkl
      omega

theorem foldl_heapPush (frags : List Fragment) :
    ∀ acc : List Fragment, rootMax acc →
      rootMax (frags.foldl heapPush acc) ∧ ∀ y, y ∈ frags.foldl heapPush acc ↔ y ∈ acc ∨ y ∈ frags := by
  induction frags with
  | nil => intro acc hr; exact ⟨hr, by simp⟩
  | cons x xs ih =>
    intro acc hr
    simp only [List.foldl_cons]
    have := ih (heapPush acc x) (heapPush_rootMax acc x hr)
    refine ⟨this.1, fun y => ?_⟩
    rw [this.2 y, mem_heapPush]
    simp only [List.mem_cons]
    constructor
    · rintro ((h | h) | h)
      · exact Or.inl h
      · exact Or.inr (Or.inl h)
      · exact Or.inr (Or.inr h)
    · rintro (h | h | h)
      · exact Or.inl (Or.inl h)
      · exact Or.inl (Or.inr h)
      · exact Or.inr h

theorem rootMax_nil : rootMax [] := by intro k hk; simp at hk

/-! ### heap.down and heap.Pop -/

theorem heapDown_succ (h : List Fragment) (n f i : Nat) :
    heapDown h n (f + 1) i =
      if 2 * i + 1 ≥ n then h else
      if (!hless h (if 2 * i + 1 + 1 < n ∧ hless h (2 * i + 1 + 1) (2 * i + 1) = true then 2 * i + 1 + 1 else 2 * i + 1) i) = true then h
      else heapDown (hswap h i (if 2 * i + 1 + 1 < n ∧ hless h (2 * i + 1 + 1) (2 * i + 1) = true then 2 * i + 1 + 1 else 2 * i + 1)) n f
        (if 2 * i + 1 + 1 < n ∧ hless h (2 * i + 1 + 1) (2 * i + 1) = true then 2 * i + 1 + 1 else 2 * i + 1) := by
  simp only [heapDown]

theorem heapDown_length (n : Nat) : ∀ (f : Nat) (h : List Fragment) (i : Nat), (heapDown h n f i).length = h.length := by
  intro f
  induction f with
  | zero => intro h i; rfl
  | succ f ih =>
    intro h i
    rw [heapDown_succ]
    by_cases h1 : 2 * i + 1 ≥ n
    · rw [if_pos h1]
    · rw [if_neg h1]
      generalize (if 2 * i + 1 + 1 < n ∧ hless h (2 * i + 1 + 1) (2 * i + 1) = true then 2 * i + 1 + 1 else 2 * i + 1) = j
      by_cases h2 : (!hless h j i) = true
      · rw [if_pos h2]
      · rw [if_neg h2, ih, hswap_length]

theorem heapDown_spec (n : Nat) : ∀ (f : Nat) (h : List Fragment) (i : Nat), n ≤ h.length →
    (∀ x, x ∈ heapDown h n f i ↔ x ∈ h) ∧ (∀ k, n ≤ k → (heapDown h n f i)[k]? = h[k]?) := by
  intro f
  induction f with
  | zero => intro h i _; exact ⟨fun x => Iff.rfl, fun k _ => rfl⟩
  | succ f ih =>
    intro h i hn
    rw [heapDown_succ]
    by_cases h1 : 2 * i + 1 ≥ n
    · rw [if_pos h1]; exact ⟨fun x => Iff.rfl, fun k _ => rfl⟩
    · rw [if_neg h1]
      have hjn : (if 2 * i + 1 + 1 < n ∧ hless h (2 * i + 1 + 1) (2 * i + 1) = true then 2 * i + 1 + 1 else 2 * i + 1) < n := by
        split
        · rename_i hc; exact hc.1
        · omega
      have hij : i < (if 2 * i + 1 + 1 < n ∧ hless h (2 * i + 1 + 1) (2 * i + 1) = true then 2 * i + 1 + 1 else 2 * i + 1) := by
        split <;> omega
      revert hjn hij
      generalize (if 2 * i + 1 + 1 < n ∧ hless h (2 * i + 1 + 1) (2 * i + 1) = true then 2 * i + 1 + 1 else 2 * i + 1) = j
      intro hjn hij
      by_cases h2 : (!hless h j i) = true
      · rw [if_pos h2]; exact ⟨fun x => Iff.rfl, fun k _ => rfl⟩
      · rw [if_neg h2]
        have hi : i < h.length := by omega
        have hj : j < h.length := by omega
        have := ih (hswap h i j) j (by rw [hswap_length]; exact hn)
        refine ⟨fun x => ?_, fun k hk => ?_⟩
        · rw [this.1 x, mem_hswap hi hj]
        · rw [this.2 k hk, hswap_getElem? h _ _ k hi hj, if_neg (by omega), if_neg (by omega)]

theorem heapPop_spec (h : List Fragment) (hne : h ≠ []) :
    (heapPop h).1 = h.getD 0 default ∧ (heapPop h).1 ∈ h ∧ ∀ x ∈ (heapPop h).2, x ∈ h := by
  have hlen : 0 < h.length := List.length_pos_iff.mpr hne
  have hn : h.length - 1 < h.length := by omega
  have hd := heapDown_spec (h.length - 1) (h.length - 1 + 1) (hswap h 0 (h.length - 1)) 0
    (by rw [hswap_length]; omega)
  have e1 : (heapPop h).1 = h.getD 0 default := by
    unfold heapPop
    simp only []
    rw [List.getD_eq_getElem?_getD, hd.2 _ (Nat.le_refl _), hswap_getElem? h 0 _ _ hlen hn, if_pos rfl,
      List.getD_eq_getElem?_getD]
  refine ⟨e1, ?_, ?_⟩
  · rw [e1, List.getD_eq_getElem?_getD, List.getElem?_eq_getElem hlen]
    simp
  · intro x hx
    unfold heapPop at hx
    simp only [] at hx
    have := List.mem_of_mem_take hx
    rw [hd.1 x, mem_hswap hlen hn] at this
    exact this

/-! ### the selection loop -/

theorem Fragment.overlaps_symm (a b : Fragment) : a.overlaps b = b.overlaps a := by
  unfold Fragment.overlaps
  by_cases h1 : b.start ≥ a.start ∧ b.start < a.stop <;> by_cases h2 : a.start ≥ b.start ∧ a.start < b.stop <;> simp [h1, h2]

/-- what the selection loop maintains: at most `num` fragments, pairwise non-overlapping, all from `S` -/
def SelInv (num : Int) (S : Fragment → Prop) (best : List Fragment) : Prop :=
  ((best.length : Int) ≤ max num 0) ∧ best.Pairwise (fun a b => a.overlaps b = false) ∧ ∀ x ∈ best, S x

theorem selectLoop_inv (num : Int) (S : Fragment → Prop) :
    ∀ (fuel : Nat) (c : Fragment) (fq best : List Fragment), S c → (∀ x ∈ fq, S x) → SelInv num S best →
      SelInv num S (selectLoop num fuel c fq best) := by
  intro fuel
  induction fuel with
  | zero => intro c fq best _ _ hb; exact hb
  | succ f ih =>
    intro c fq best hc hfq hb
    simp only [selectLoop]
    have popS : fq.length ≥ 1 → S (heapPop fq).1 ∧ ∀ x ∈ (heapPop fq).2, S x := by
      intro hl
      have hne : fq ≠ [] := by intro e; subst e; simp at hl
      have := heapPop_spec fq hne
      exact ⟨hfq _ this.2.1, fun x hx => hfq x (this.2.2 x hx)⟩
    split
    · rename_i hlt
      split
      · split
        · exact hb
        · rename_i hl
          have := popS (by omega)
          exact ih _ _ _ this.1 this.2 hb
      · rename_i hov
        have hov' : ∀ b ∈ best, c.overlaps b = false := by
          intro b hbm
          cases hcb : c.overlaps b with
          | false => rfl
          | true => exact absurd (List.any_eq_true.mpr ⟨b, hbm, hcb⟩) hov
        have hb' : SelInv num S (best ++ [c]) := by
          refine ⟨?_, ?_, ?_⟩
          · simp only [List.length_append, List.length_cons, List.length_nil]; omega
          · rw [List.pairwise_append]
            refine ⟨hb.2.1, by simp, ?_⟩
            intro a ha b hbm
            simp only [List.mem_cons, List.not_mem_nil, or_false] at hbm
            subst hbm
            rw [Fragment.overlaps_symm]; exact hov' a ha
          · intro x hx
            simp only [List.mem_append, List.mem_cons, List.not_mem_nil, or_false] at hx
            rcases hx with hx | hx
            · exact hb.2.2 x hx
            · subst hx; exact hc
        split
        · exact hb'
        · rename_i hl
          have := popS (by omega)
          exact ih _ _ _ this.1 this.2 hb'
    · exact hb

theorem selectLoop_prefix (num : Int) :
    ∀ (fuel : Nat) (c : Fragment) (fq best : List Fragment), ∃ suf, selectLoop num fuel c fq best = best ++ suf := by
  intro fuel
  induction fuel with
  | zero => intro c fq best; exact ⟨[], by simp [selectLoop]⟩
  | succ f ih =>
    intro c fq best
    simp only [selectLoop]
    split
    · split
      · split
        · exact ⟨[], by simp⟩
        · exact ih _ _ _
      · split
        · exact ⟨[c], rfl⟩
        · obtain ⟨suf, hs⟩ := ih (heapPop fq).1 (heapPop fq).2 (best ++ [c])
          exact ⟨c :: suf, by rw [hs]; simp⟩
    · exact ⟨[], by simp⟩

/-- BestFragments' selection: at most `num`, pairwise non-overlapping, each one of the given fragments -/
theorem selectBest_inv (num : Int) (frags : List Fragment) :
    SelInv num (fun x => x ∈ frags) (selectBest num frags) := by
  unfold selectBest
  have hq := (foldl_heapPush frags [] rootMax_nil).2
  simp only []
  split
  · rename_i hl
    have hne : frags.foldl heapPush [] ≠ [] := by intro e; rw [e] at hl; simp at hl
    have hp := heapPop_spec _ hne
    apply selectLoop_inv
    · have := (hq _).mp hp.2.1; simpa using this
    · intro x hx; have := (hq _).mp (hp.2.2 x hx); simpa using this
    · exact ⟨by simp; omega, by simp, by simp⟩
  · exact ⟨by simp; omega, by simp, by simp⟩

/-- with `num ≥ 1` and at least one fragment, the first selected fragment has the maximal score -/
theorem selectBest_head (num : Int) (hnum : 1 ≤ num) (frags : List Fragment) (hne : frags ≠ []) :
    ∃ top rest, selectBest num frags = top :: rest ∧ top ∈ frags ∧ ∀ f ∈ frags, f.score ≤ top.score := by
  have hq := foldl_heapPush frags [] rootMax_nil
  have hne' : frags.foldl heapPush [] ≠ [] := by
    intro e
    cases frags with
    | nil => exact hne rfl
    | cons a t =>
      have := (hq.2 a).mpr (Or.inr (by simp))
      rw [e] at this; simp at this
  have hl : (frags.foldl heapPush []).length > 0 := List.length_pos_iff.mpr hne'
  have hp := heapPop_spec _ hne'
  unfold selectBest
  simp only [hl, if_true]
  have hstep : ∃ suf, selectLoop num (frags.length + 1) (heapPop (frags.foldl heapPush [])).1
      (heapPop (frags.foldl heapPush [])).2 [] = [(heapPop (frags.foldl heapPush [])).1] ++ suf := by
    simp only [selectLoop, List.length_nil, List.any_nil, Bool.false_eq_true, if_false, List.nil_append]
    rw [if_pos (by simp; omega)]
    split
    · exact ⟨[], rfl⟩
    · exact selectLoop_prefix _ _ _ _ _
  obtain ⟨suf, hs⟩ := hstep
  refine ⟨_, suf, hs, ?_, ?_⟩
  · have := (hq.2 _).mp hp.2.1; simpa using this
  · intro f hf
    have hm : f ∈ frags.foldl heapPush [] := (hq.2 f).mpr (Or.inr hf)
    obtain ⟨k, hk⟩ := List.mem_iff_getElem?.mp hm
    have hklt : k < (frags.foldl heapPush []).length := by
      apply Decidable.byContradiction
      intro hcon
      rw [List.getElem?_eq_none (by omega)] at hk
      cases hk
    have := hq.1 k hklt
    unfold sc at this
    rw [List.getD_eq_getElem?_getD, hk] at this
    rw [hp.1]
    simpa using this

end Bluge.C20

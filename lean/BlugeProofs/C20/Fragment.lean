import BlugeProofs.C20.Utf8
/-! The fragmenter keeps its window on rune boundaries inside the text (C20 helpers). -/
namespace Bluge.C20
open Bluge.Highlight

/-! ### DecodeLastRune -/

theorem lastRuneWidth_pos (r : Bytes) : 1 ≤ lastRuneWidth r := by
  unfold lastRuneWidth
  repeat' split
  all_goals omega

theorem decodeLastRune_cons {p : Bytes} {l0 : Byte} {rest : Bytes} (h : p.reverse = l0 :: rest) :
    decodeLastRune p =
      if l0.toNat < 0x80 then (l0.toNat, 1) else
      if (decodeRune ((l0 :: rest).take (lastRuneWidth rest)).reverse).2 ≠ lastRuneWidth rest then (runeError, 1)
      else decodeRune ((l0 :: rest).take (lastRuneWidth rest)).reverse := by
  unfold decodeLastRune
  simp only [h]

theorem decodeLastRune_nil : decodeLastRune [] = (runeError, 0) := rfl

/-- a last rune that is not RuneError: the text ends with a well-shaped encoding of that width -/
theorem decodeLastRune_shape (p : Bytes) (h : ¬((decodeLastRune p).1 = runeError ∧ (decodeLastRune p).2 ≤ 1)) :
    ∃ pre q, p = pre ++ q ∧ q.length = (decodeLastRune p).2 ∧ RuneShape q (decodeLastRune p).2 := by
  cases hrev : p.reverse with
  | nil =>
    have : p = [] := by simpa using hrev
    subst this
    exact absurd ⟨rfl, by simp [decodeLastRune_nil]⟩ h
  | cons l0 rest =>
    have hp : p = (l0 :: rest).reverse := by rw [← hrev, List.reverse_reverse]
    rw [decodeLastRune_cons hrev] at h ⊢
    split
    · rename_i hl
      refine ⟨rest.reverse, [l0], by simp [hp], rfl, .one l0 [] hl⟩
    · rename_i hl
      rw [if_neg hl] at h
      split
      · rename_i hk; rw [if_pos hk] at h; exact absurd ⟨rfl, Nat.le_refl _⟩ h
      · rename_i hk
        rw [if_neg hk] at h
        have hk' : (decodeRune ((l0 :: rest).take (lastRuneWidth rest)).reverse).2 = lastRuneWidth rest :=
          Decidable.not_not.mp hk
        have hpos := lastRuneWidth_pos rest
        have hne : ((l0 :: rest).take (lastRuneWidth rest)).reverse ≠ [] := by
          cases hw : lastRuneWidth rest with
          | zero => omega
          | succ n => simp
        have hshape := decodeRune_shape _ hne h
        have hlen := hshape.size_le
        refine ⟨((l0 :: rest).drop (lastRuneWidth rest)).reverse, ((l0 :: rest).take (lastRuneWidth rest)).reverse, ?_, ?_, hshape⟩
        · rw [hp, ← List.reverse_append, List.take_append_drop]
        · simp only [List.length_reverse, List.length_take] at hlen ⊢
          omega

/-- when the fragmenter does not bail (either variant of the test), the decode is not the (RuneError, ≤1) of an invalid byte -/
theorem not_bails {g : Bool} {rs : Nat × Nat} (h : ¬ bails g rs = true) : ¬(rs.1 = runeError ∧ rs.2 ≤ 1) := by
  intro hh
  apply h
  simp [bails, hh.1, hh.2]

/-! ### boundaries -/

/-- `k` is a rune boundary of `orig` inside the text -/
def Bd (orig : Bytes) (k : Int) : Prop := 0 ≤ k ∧ k ≤ orig.length ∧ k.toNat ∈ bounds orig

theorem isBoundary_iff (orig : Bytes) (k : Int) : isBoundary orig k = true ↔ (0 ≤ k ∧ k.toNat ∈ bounds orig) := by
  simp [isBoundary]

theorem bounds_le {orig : Bytes} {x : Nat} (h : x ∈ bounds orig) : x ≤ orig.length := by
  have := (boundsFrom_mem_range h).2; omega

theorem Bd_of_isBoundary {orig : Bytes} {k : Int} (h : isBoundary orig k = true) : Bd orig k := by
  have ⟨h0, hm⟩ := (isBoundary_iff orig k).mp h
  have := bounds_le hm
  exact ⟨h0, by omega, hm⟩

theorem Bd.isBoundary {orig : Bytes} {k : Int} (h : Bd orig k) : isBoundary orig k = true :=
  (isBoundary_iff orig k).mpr ⟨h.1, h.2.2⟩

theorem Bd_zero (orig : Bytes) : Bd orig 0 :=
  ⟨by omega, by omega, boundsFrom_head _ _ _⟩

theorem Bd_fwd {orig : Bytes} {e : Int} (h : Bd orig e) (hlt : e < orig.length) :
    Bd orig (e + (decodeRune (orig.drop e.toNat)).2) := by
  have hs := boundsFrom_step (k := 0) (p := orig) (f := orig.length) (Nat.le_refl _) h.2.2 (by have := h.1; omega)
  simp only [Nat.sub_zero] at hs
  have hle := bounds_le hs
  have e1 : (e + ((decodeRune (orig.drop e.toNat)).2 : Int)).toNat = e.toNat + (decodeRune (orig.drop e.toNat)).2 := by
    have := h.1; omega
  refine ⟨by have := h.1; omega, by have := h.1; omega, ?_⟩
  rw [e1]; exact hs

/-- the byte at offset `pre.length + i` of `orig` when `orig.take e = pre ++ q` -/
theorem getElem?_of_take_eq {orig pre q : Bytes} {e : Nat} (h : orig.take e = pre ++ q) (i : Nat) (hi : i < q.length) :
    orig[pre.length + i]? = q[i]? := by
  have hl : (orig.take e).length = pre.length + q.length := by rw [h, List.length_append]
  have hlt : pre.length + i < e := by
    simp only [List.length_take] at hl; omega
  have h1 : (orig.take e)[pre.length + i]? = orig[pre.length + i]? := by
    rw [List.getElem?_take]; simp [hlt]
  rw [← h1, h, List.getElem?_append_right (by omega)]
  congr 1; omega

/-- stepping one rune back from a boundary of a valid text -/
theorem Bd_back {orig : Bytes} (hv : validUtf8 orig = true) {s : Int} (h : Bd orig s)
    (hne : ¬((decodeLastRune (orig.take s.toNat)).1 = runeError ∧ (decodeLastRune (orig.take s.toNat)).2 ≤ 1)) :
    1 ≤ (decodeLastRune (orig.take s.toNat)).2 ∧ ((decodeLastRune (orig.take s.toNat)).2 : Int) ≤ s ∧
    Bd orig (s - (decodeLastRune (orig.take s.toNat)).2) ∧
    (∀ x : Int, Bd orig x → s - (decodeLastRune (orig.take s.toNat)).2 < x → x < s → False) := by
  obtain ⟨pre, q, hpq, hql, hshape⟩ := decodeLastRune_shape _ hne
  have hpos := hshape.pos
  have hlen : pre.length + q.length = s.toNat := by
    have := congrArg List.length hpq
    simp only [List.length_take, List.length_append] at this
    have := h.1; have := h.2.1; omega
  have hs' : (s - ((decodeLastRune (orig.take s.toNat)).2 : Int)).toNat = pre.length := by
    have := h.1; omega
  refine ⟨hpos, by have := h.1; omega, ⟨by have := h.1; omega, by have := h.2.1; omega, ?_⟩, ?_⟩
  · rw [hs']
    apply Decidable.byContradiction
    intro hn
    have hc := valid_nonboundary_cont (k := 0) (p := orig) (f := orig.length) hv (Nat.le_refl _) pre.length
      (by have := h.2.1; omega) (by simpa [bounds] using hn)
    obtain ⟨b, hb, hcont⟩ := hc
    obtain ⟨c, t, hq, hstart⟩ := hshape.head_start
    have := getElem?_of_take_eq hpq 0 (by omega)
    simp only [Nat.add_zero, hb, hq, List.getElem?_cons_zero, Option.some.injEq] at this
    subst this
    simp [runeStart, hcont] at hstart
  · intro x hx h1 h2
    have hxl : x.toNat < orig.length := by have := h.2.1; have := hx.1; omega
    obtain ⟨b, hb, hstart⟩ := valid_boundary_start (k := 0) (p := orig) (f := orig.length) hv (Nat.le_refl _) x.toNat hxl
      (by simpa [bounds] using hx.2.2)
    have hidx : x.toNat = pre.length + (x.toNat - pre.length) := by have := hx.1; omega
    obtain ⟨c, hc, hcont⟩ := hshape.cont (x.toNat - pre.length) (by have := hx.1; omega) (by have := hx.1; omega)
    have := getElem?_of_take_eq hpq (x.toNat - pre.length) (by have := hx.1; omega)
    rw [← hidx, hb, hc] at this
    simp only [Option.some.injEq] at this
    subst this
    simp [runeStart, hcont] at hstart

/-! ### the loops of `Fragment` -/

theorem fwd_bd (g : Bool) (orig : Bytes) (fsize : Int) :
    ∀ (fuel : Nat) (e used e' u' : Int), fwd g orig fsize fuel e used = .done (e', u') → Bd orig e →
      Bd orig e' ∧ e ≤ e' := by
  intro fuel
  induction fuel with
  | zero =>
    intro e used e' u' h hb
    simp only [fwd, Loop.done.injEq, Prod.mk.injEq] at h
    rw [← h.1]; exact ⟨hb, Int.le_refl _⟩
  | succ f ih =>
    intro e used e' u' h hb
    simp only [fwd] at h
    split at h
    · rename_i hc
      split at h
      · cases h
      · split at h
        · cases h
        · have := ih _ _ _ _ h (Bd_fwd hb hc.1)
          exact ⟨this.1, by have := this.2; omega⟩
    · simp only [Loop.done.injEq, Prod.mk.injEq] at h
      rw [← h.1]; exact ⟨hb, Int.le_refl _⟩

theorem back_bd (g : Bool) (orig : Bytes) (hv : validUtf8 orig = true) (fsize maxbegin : Int) :
    ∀ (fuel : Nat) (s used s' u' : Int), back g orig fsize maxbegin fuel s used = .done (s', u') → Bd orig s →
      Bd orig s' ∧ s' ≤ s := by
  intro fuel
  induction fuel with
  | zero =>
    intro s used s' u' h hb
    simp only [back, Loop.done.injEq, Prod.mk.injEq] at h
    rw [← h.1]; exact ⟨hb, Int.le_refl _⟩
  | succ f ih =>
    intro s used s' u' h hb
    simp only [back] at h
    split at h
    · split at h
      · cases h
      · split at h
        · cases h
        · rename_i hne
          have hbk := Bd_back hv hb (not_bails hne)
          split at h
          · have := ih _ _ _ _ h hbk.2.2.1
            exact ⟨this.1, by have := this.2; have := hbk.1; omega⟩
          · simp only [Loop.done.injEq, Prod.mk.injEq] at h
            rw [← h.1]; exact ⟨hb, Int.le_refl _⟩
    · simp only [Loop.done.injEq, Prod.mk.injEq] at h
      rw [← h.1]; exact ⟨hb, Int.le_refl _⟩

theorem shiftLeft_bd (g : Bool) (orig : Bytes) (hv : validUtf8 orig = true) :
    ∀ (k : Nat) (s e s' e' : Int), shiftLeft g orig k s e = .done (s', e') → Bd orig s → Bd orig e → s ≤ e →
      Bd orig s' ∧ Bd orig e' ∧ s' ≤ e' ∧ s' ≤ s ∧ e' ≤ e := by
  intro k
  induction k with
  | zero =>
    intro s e s' e' h hs he hse
    simp only [shiftLeft, Loop.done.injEq, Prod.mk.injEq] at h
    rw [← h.1, ← h.2]; exact ⟨hs, he, hse, Int.le_refl _, Int.le_refl _⟩
  | succ k ih =>
    intro s e s' e' h hs he hse
    simp only [shiftLeft] at h
    split at h
    · cases h
    · split at h
      · cases h
      · rename_i hn1
        split at h
        · cases h
        · split at h
          · cases h
          · rename_i hn2
            have b1 := Bd_back hv hs (not_bails hn1)
            have b2 := Bd_back hv he (not_bails hn2)
            have hle : s - ((decodeLastRune (orig.take s.toNat)).2 : Int) ≤ e - ((decodeLastRune (orig.take e.toNat)).2 : Int) := by
              by_cases heq : s = e
              · subst heq; exact Int.le_refl _
              · have hlt : s < e := by omega
                apply Decidable.byContradiction
                intro hcon
                exact b2.2.2.2 s hs (by have := b1.1; omega) hlt
            have := ih _ _ _ _ h b1.2.2.1 b2.2.2.1 hle
            exact ⟨this.1, this.2.1, this.2.2.1, by have := this.2.2.2.1; have := b1.1; omega,
              by have := this.2.2.2.2; have := b2.1; omega⟩

/-- a fragment produced for a location that starts on a rune boundary of a valid text -/
theorem fragOne_bd (g : Bool) (orig : Bytes) (hv : validUtf8 orig = true) (fsize maxbegin : Int) (tl : TermLocation)
    (tail : List TermLocation) (hb : Bd orig tl.start) (s e : Int)
    (h : fragOne g orig fsize maxbegin tl tail = .frag s e) :
    Bd orig s ∧ Bd orig e ∧ s ≤ e ∧ s ≤ tl.start := by
  unfold fragOne at h
  split at h
  · cases h
  · cases h
  · rename_i e0 used0 hf
    have f1 := fwd_bd g orig fsize _ _ _ _ _ hf hb
    split at h
    · cases h
    · cases h
    · rename_i s0 u0 hbk
      have f2 := back_bd g orig hv fsize maxbegin _ _ _ _ _ hbk hb
      simp only [] at h
      split at h
      · cases h
      · split at h
        · cases h
        · split at h
          · cases h
          · cases h
          · rename_i s1 e1 hsh
            simp only [LocRes.frag.injEq] at h
            have f3 := shiftLeft_bd g orig hv _ _ _ _ _ hsh f2.1 f1.1 (by have := f1.2; have := f2.2; omega)
            rw [← h.1, ← h.2]
            exact ⟨f3.1, f3.2.1, f3.2.2.1, by have := f3.2.2.2.1; have := f2.2; omega⟩

theorem fragmentLoop_bd (g : Bool) (orig : Bytes) (hv : validUtf8 orig = true) (fsize : Int) :
    ∀ (ot : List TermLocation) (maxbegin : Int) (frs : List Fragment),
      (∀ l ∈ ot, Bd orig l.start) → fragmentLoop g orig fsize ot maxbegin = some frs →
      ∀ f ∈ frs, Bd orig f.start ∧ Bd orig f.stop ∧ f.start ≤ f.stop := by
  intro ot
  induction ot with
  | nil =>
    intro mb frs _ h f hf
    simp only [fragmentLoop, Option.some.injEq] at h
    subst h; simp at hf
  | cons tl rest ih =>
    intro mb frs hall h f hf
    simp only [fragmentLoop] at h
    split at h
    · cases h
    · exact ih mb frs (fun l hl => hall l (by simp [hl])) h f hf
    · rename_i s e hfo
      cases hr : fragmentLoop g orig fsize rest tl.stop with
      | none => simp [hr] at h
      | some fs =>
        simp only [hr, Option.map_some, Option.some.injEq] at h
        subst h
        simp only [List.mem_cons] at hf
        rcases hf with hf | hf
        · subst hf
          have := fragOne_bd g orig hv fsize mb tl (tl :: rest) (hall tl (by simp)) s e hfo
          exact ⟨this.1, this.2.1, this.2.2.1⟩
        · exact ih tl.stop fs (fun l hl => hall l (by simp [hl])) hr f hf

/-- the repaired no-location branch stops on a rune boundary -/
theorem cutRunes_bd (orig : Bytes) (fsize : Int) :
    ∀ (fuel : Nat) (e used : Int), Bd orig e → Bd orig (cutRunes orig fsize fuel e used) ∧ e ≤ cutRunes orig fsize fuel e used := by
  intro fuel
  induction fuel with
  | zero => intro e used hb; exact ⟨hb, Int.le_refl _⟩
  | succ f ih =>
    intro e used hb
    simp only [cutRunes]
    split
    · rename_i hc
      have := ih (e + ((decodeRune (orig.drop e.toNat)).2 : Int)) (used + 1) (Bd_fwd hb hc.1)
      exact ⟨this.1, by have := this.2; omega⟩
    · exact ⟨hb, Int.le_refl _⟩

end Bluge.C20

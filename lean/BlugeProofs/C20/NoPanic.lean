import BlugeProofs.C20.Fragment
import BlugeProofs.C20.Marks
import BlugeProofs.C20.Select
import BlugeProofs.C20.Strip
/-! Highlighting does not panic on any text when every location has 0 ≤ Start ≤ End (C20 helpers). -/
namespace Bluge.C20
open Bluge.Highlight

theorem decodeLastRune_size_le (p : Bytes) : (decodeLastRune p).2 ≤ p.length := by
  cases hrev : p.reverse with
  | nil =>
    have : p = [] := by simpa using hrev
    subst this; simp [decodeLastRune_nil]
  | cons l0 rest =>
    have hlen : p.length = rest.length + 1 := by
      have := congrArg List.length hrev
      simpa using this
    rw [decodeLastRune_cons hrev]
    split
    · simp only []; omega
    · split
      · simp only []; omega
      · have := decodeRune_size_le ((l0 :: rest).take (lastRuneWidth rest)).reverse
        simp only [List.length_reverse, List.length_take, List.length_cons] at this
        omega

/-- stepping back one rune from two offsets keeps their order (any text) -/
theorem dlr_order {orig : Bytes} {s e : Int} (h0 : 0 ≤ s) (hse : s ≤ e) (hel : e ≤ orig.length)
    (h1 : ¬((decodeLastRune (orig.take s.toNat)).1 = runeError ∧ (decodeLastRune (orig.take s.toNat)).2 ≤ 1))
    (h2 : ¬((decodeLastRune (orig.take e.toNat)).1 = runeError ∧ (decodeLastRune (orig.take e.toNat)).2 ≤ 1)) :
    s - ((decodeLastRune (orig.take s.toNat)).2 : Int) ≤ e - ((decodeLastRune (orig.take e.toNat)).2 : Int) := by
  obtain ⟨pre1, q1, hpq1, hql1, hsh1⟩ := decodeLastRune_shape _ h1
  obtain ⟨pre2, q2, hpq2, hql2, hsh2⟩ := decodeLastRune_shape _ h2
  have hl1 : pre1.length + q1.length = s.toNat := by
    have := congrArg List.length hpq1
    simp only [List.length_take, List.length_append] at this
    omega
  have hl2 : pre2.length + q2.length = e.toNat := by
    have := congrArg List.length hpq2
    simp only [List.length_take, List.length_append] at this
    omega
  have hp1 := hsh1.pos
  apply Decidable.byContradiction
  intro hcon
  have hlt : pre2.length < pre1.length := by omega
  obtain ⟨c, t, hq, hstart⟩ := hsh1.head_start
  have g1 := getElem?_of_take_eq hpq1 0 (by omega)
  obtain ⟨d, hd, hcont⟩ := hsh2.cont (pre1.length - pre2.length) (by omega) (by omega)
  have g2 := getElem?_of_take_eq hpq2 (pre1.length - pre2.length) (by omega)
  have e1 : pre2.length + (pre1.length - pre2.length) = pre1.length + 0 := by omega
  rw [e1, g1, hd, hq] at g2
  simp only [List.getElem?_cons_zero, Option.some.injEq] at g2
  subst g2
  simp [runeStart, hcont] at hstart

theorem fwd_np (g : Bool) (orig : Bytes) (fsize : Int) :
    ∀ (fuel : Nat) (e used : Int), 0 ≤ e →
      (∀ r, fwd g orig fsize fuel e used = r → r ≠ .panic) ∧
      ∀ e' u', fwd g orig fsize fuel e used = .done (e', u') →
        e ≤ e' ∧ (e ≤ orig.length → e' ≤ orig.length) ∧ ((orig.length : Int) < e → e' = e ∧ u' = used) := by
  intro fuel
  induction fuel with
  | zero =>
    intro e used h0
    refine ⟨fun r hr => (by simp only [fwd] at hr; subst hr; exact fun h => nomatch h), ?_⟩
    intro e' u' h
    simp only [fwd, Loop.done.injEq, Prod.mk.injEq] at h
    rw [← h.1, ← h.2]; exact ⟨Int.le_refl _, fun h => h, fun _ => ⟨rfl, rfl⟩⟩
  | succ f ih =>
    intro e used h0
    have hsz := decodeRune_size_le (orig.drop e.toNat)
    simp only [List.length_drop] at hsz
    have ih' := ih (e + ((decodeRune (orig.drop e.toNat)).2 : Int)) (used + 1) (by omega)
    refine ⟨fun r hr => ?_, fun e' u' h => ?_⟩
    · simp only [fwd] at hr
      split at hr
      · split at hr
        · omega
        · split at hr
          · subst hr; exact fun h => nomatch h
          · exact ih'.1 r hr
      · subst hr; exact fun h => nomatch h
    · simp only [fwd] at h
      split at h
      · rename_i hc
        split at h
        · cases h
        · split at h
          · cases h
          · have := ih'.2 e' u' h
            refine ⟨by omega, fun _ => this.2.1 (by omega), fun hh => by omega⟩
      · simp only [Loop.done.injEq, Prod.mk.injEq] at h
        rw [← h.1, ← h.2]; exact ⟨Int.le_refl _, fun h => h, fun _ => ⟨rfl, rfl⟩⟩

theorem back_np (g : Bool) (orig : Bytes) (fsize maxbegin : Int) :
    ∀ (fuel : Nat) (s used : Int),
      (∀ r, back g orig fsize maxbegin fuel s used = r → r ≠ .panic) ∧
      ∀ s' u', back g orig fsize maxbegin fuel s used = .done (s', u') → 0 ≤ s → s' ≤ s ∧ 0 ≤ s' := by
  intro fuel
  induction fuel with
  | zero =>
    intro s used
    refine ⟨fun r hr => (by simp only [back] at hr; subst hr; exact fun h => nomatch h), ?_⟩
    intro s' u' h h0
    simp only [back, Loop.done.injEq, Prod.mk.injEq] at h
    rw [← h.1]; exact ⟨Int.le_refl _, h0⟩
  | succ f ih =>
    intro s used
    have hsz := decodeLastRune_size_le (orig.take s.toNat)
    simp only [List.length_take] at hsz
    refine ⟨fun r hr => ?_, fun s' u' h h0 => ?_⟩
    · simp only [back] at hr
      split at hr
      · split at hr
        · subst hr; exact fun h => nomatch h
        · split at hr
          · subst hr; exact fun h => nomatch h
          · split at hr
            · exact (ih _ _).1 r hr
            · subst hr; exact fun h => nomatch h
      · subst hr; exact fun h => nomatch h
    · simp only [back] at h
      split at h
      · split at h
        · cases h
        · split at h
          · cases h
          · split at h
            · have := (ih _ _).2 s' u' h (by omega)
              exact ⟨by omega, this.2⟩
            · simp only [Loop.done.injEq, Prod.mk.injEq] at h
              rw [← h.1]; exact ⟨Int.le_refl _, h0⟩
      · simp only [Loop.done.injEq, Prod.mk.injEq] at h
        rw [← h.1]; exact ⟨Int.le_refl _, h0⟩

/-- a location that starts beyond the text is skipped (for a positive fragment size) -/
theorem back_beyond (g : Bool) (orig : Bytes) (fsize maxbegin : Int) (f : Nat) (s used : Int)
    (hs : (orig.length : Int) < s) (hu : used < fsize) :
    back g orig fsize maxbegin (f + 1) s used = .bail := by
  simp only [back]
  rw [if_pos ⟨by omega, hu⟩, if_pos hs]

theorem minEnd_bounds (e : Int) : ∀ (tail : List TermLocation) (m : Int), (∀ l ∈ tail, 0 ≤ l.stop) → 0 ≤ m → m ≤ e →
    0 ≤ minEnd e tail m ∧ minEnd e tail m ≤ e := by
  intro tail
  induction tail with
  | nil => intro m _ h0 h1; exact ⟨h0, h1⟩
  | cons tl rest ih =>
    intro m hall h0 h1
    simp only [minEnd]
    split
    · exact ⟨h0, h1⟩
    · exact ih tl.stop (fun l hl => hall l (by simp [hl])) (hall tl (by simp)) (by omega)

theorem shiftLeft_np (g : Bool) (orig : Bytes) :
    ∀ (k : Nat) (s e : Int), 0 ≤ s → s ≤ e → e ≤ orig.length →
      (∀ r, shiftLeft g orig k s e = r → r ≠ .panic) ∧
      ∀ s' e', shiftLeft g orig k s e = .done (s', e') → 0 ≤ s' ∧ s' ≤ e' ∧ e' ≤ orig.length := by
  intro k
  induction k with
  | zero =>
    intro s e h0 hse hel
    refine ⟨fun r hr => (by simp only [shiftLeft] at hr; subst hr; exact fun h => nomatch h), ?_⟩
    intro s' e' h
    simp only [shiftLeft, Loop.done.injEq, Prod.mk.injEq] at h
    rw [← h.1, ← h.2]; exact ⟨h0, hse, hel⟩
  | succ k ih =>
    intro s e h0 hse hel
    have hs1 := decodeLastRune_size_le (orig.take s.toNat)
    have hs2 := decodeLastRune_size_le (orig.take e.toNat)
    simp only [List.length_take] at hs1 hs2
    refine ⟨fun r hr => ?_, fun s' e' h => ?_⟩
    · simp only [shiftLeft] at hr
      split at hr
      · omega
      · split at hr
        · subst hr; exact fun h => nomatch h
        · rename_i hn1
          split at hr
          · omega
          · split at hr
            · subst hr; exact fun h => nomatch h
            · rename_i hn2
              exact (ih _ _ (by omega) (dlr_order h0 hse hel (not_bails hn1) (not_bails hn2)) (by omega)).1 r hr
    · simp only [shiftLeft] at h
      split at h
      · cases h
      · split at h
        · cases h
        · rename_i hn1
          split at h
          · cases h
          · split at h
            · cases h
            · rename_i hn2
              exact (ih _ _ (by omega) (dlr_order h0 hse hel (not_bails hn1) (not_bails hn2)) (by omega)).2 s' e' h

theorem fragOne_np (g : Bool) (orig : Bytes) (fsize maxbegin : Int) (tl : TermLocation) (tail : List TermLocation)
    (hf : 1 ≤ fsize) (hmb : 0 ≤ maxbegin) (h0 : 0 ≤ tl.start) (hall : ∀ l ∈ tail, 0 ≤ l.stop) :
    ∀ r, fragOne g orig fsize maxbegin tl tail = r →
      r ≠ .panic ∧ ∀ s e, r = .frag s e → 0 ≤ s ∧ s ≤ e ∧ e ≤ orig.length := by
  intro r hr
  unfold fragOne at hr
  have F := fwd_np g orig fsize (orig.length + 1) tl.start 0 h0
  split at hr
  · rename_i hfw; exact absurd rfl (F.1 _ hfw)
  · subst hr; exact ⟨(fun h => nomatch h), (fun s e h => nomatch h)⟩
  · rename_i e0 used0 hfw
    have F2 := F.2 e0 used0 hfw
    have B := back_np g orig fsize maxbegin (orig.length + 1) tl.start used0
    split at hr
    · rename_i hbk; exact absurd rfl (B.1 _ hbk)
    · subst hr; exact ⟨(fun h => nomatch h), (fun s e h => nomatch h)⟩
    · rename_i s0 u0 hbk
      have B2 := B.2 s0 u0 hbk h0
      -- the location starts inside the text, otherwise `back` bails
      have hin : tl.start ≤ orig.length := by
        apply Decidable.byContradiction
        intro hcon
        have hgt : (orig.length : Int) < tl.start := by omega
        have := F2.2.2 hgt
        rw [this.2] at hbk
        rw [back_beyond g orig fsize maxbegin orig.length tl.start 0 hgt (by omega)] at hbk
        cases hbk
      have he0 : e0 ≤ orig.length := F2.2.1 hin
      have hme := minEnd_bounds e0 tail e0 hall (by omega) (Int.le_refl _)
      simp only [] at hr
      split at hr
      · rename_i hsl
        obtain ⟨x, hx⟩ := slice_isSome (orig := orig) hme.1 hme.2 he0
        rw [hx] at hsl; cases hsl
      · split at hr
        · rename_i hrs
          split at hrs
          · rename_i hge
            obtain ⟨x, hx⟩ := slice_isSome (orig := orig) hmb hge (by omega : s0 ≤ orig.length)
            rw [hx] at hrs; simp at hrs
          · cases hrs
        · have S := fun k => shiftLeft_np g orig k s0 e0 B2.2 (by omega) he0
          split at hr
          · rename_i hsh; exact absurd rfl ((S _).1 _ hsh)
          · subst hr; exact ⟨(fun h => nomatch h), (fun s e h => nomatch h)⟩
          · rename_i s1 e1 hsh
            subst hr
            refine ⟨(fun h => nomatch h), fun s e h => ?_⟩
            simp only [LocRes.frag.injEq] at h
            rw [← h.1, ← h.2]
            exact (S _).2 s1 e1 hsh

theorem fragmentLoop_np (g : Bool) (orig : Bytes) (fsize : Int) (hf : 1 ≤ fsize) :
    ∀ (ot : List TermLocation) (maxbegin : Int), 0 ≤ maxbegin → (∀ l ∈ ot, 0 ≤ l.start ∧ l.start ≤ l.stop) →
      ∃ frs, fragmentLoop g orig fsize ot maxbegin = some frs ∧
        ∀ f ∈ frs, 0 ≤ f.start ∧ f.start ≤ f.stop ∧ f.stop ≤ orig.length := by
  intro ot
  induction ot with
  | nil => intro mb _ _; exact ⟨[], rfl, by simp⟩
  | cons tl rest ih =>
    intro mb hmb hall
    have htl := hall tl (by simp)
    have hrest : ∀ l ∈ rest, 0 ≤ l.start ∧ l.start ≤ l.stop := fun l hl => hall l (by simp [hl])
    have O := fragOne_np g orig fsize mb tl (tl :: rest) hf hmb htl.1
      (fun l hl => by have := hall l hl; omega) _ rfl
    simp only [fragmentLoop]
    split
    · rename_i hp; exact absurd hp O.1
    · exact ih mb hmb hrest
    · rename_i s e hfo
      obtain ⟨frs, hfr, hb⟩ := ih tl.stop (by omega) hrest
      refine ⟨{ start := s, stop := e } :: frs, by rw [hfr]; rfl, ?_⟩
      intro f hfm
      simp only [List.mem_cons] at hfm
      rcases hfm with hfm | hfm
      · subst hfm; exact O.2 s e hfo
      · exact hb f hfm

theorem cutRunes_bounds (orig : Bytes) (fsize : Int) :
    0 ≤ cutRunes orig fsize (orig.length + 1) 0 0 ∧ cutRunes orig fsize (orig.length + 1) 0 0 ≤ orig.length := by
  have := (cutRunes_bd orig fsize (orig.length + 1) 0 0 (Bd_zero orig)).1
  exact ⟨this.1, this.2.1⟩

theorem usable_iff (l : TermLocation) : usable l = true ↔ (0 ≤ l.start ∧ l.start ≤ l.stop) := by
  simp [usable]

/-- the fragmenter does not panic when the locations are usable: either because the tree filters them
(`locGuard`) or by hypothesis -/
theorem fragment_np (v : Variant) (orig : Bytes) (fsize : Int) (hf : 1 ≤ fsize) (ot : List TermLocation)
    (hall : v.locGuard = true ∨ ∀ l ∈ ot, 0 ≤ l.start ∧ l.start ≤ l.stop) :
    ∃ frs, fragment v orig fsize ot = some frs ∧
      ∀ f ∈ frs, 0 ≤ f.start ∧ f.start ≤ f.stop ∧ f.stop ≤ orig.length := by
  have hall' : ∀ l ∈ (if v.locGuard = true then ot.filter usable else ot), 0 ≤ l.start ∧ l.start ≤ l.stop := by
    intro l hl
    split at hl
    · exact (usable_iff l).mp (List.mem_filter.mp hl).2
    · rename_i hg
      rcases hall with h | h
      · exact absurd h hg
      · exact h l hl
  unfold fragment
  split
  · split
    · refine ⟨_, rfl, ?_⟩
      intro f hfm
      simp only [List.mem_cons, List.not_mem_nil, or_false] at hfm
      subst hfm
      have := cutRunes_bounds orig fsize
      exact ⟨Int.le_refl _, this.1, this.2⟩
    · refine ⟨_, rfl, ?_⟩
      intro f hfm
      simp only [List.mem_cons, List.not_mem_nil, or_false] at hfm
      subst hfm
      simp only []
      split <;> omega
  · exact fragmentLoop_np v.sizeGuard orig fsize hf _ 0 (Int.le_refl _) hall'

theorem formatLoop_np (fm : Fmt) (lg : Bool) (orig : Bytes) (fend : Int) (hfl : fend ≤ orig.length) :
    ∀ (tls : List (Option TermLocation)) (curr : Int), (lg = true ∨ ∀ tl, some tl ∈ tls → tl.start ≤ tl.stop) →
      0 ≤ curr → curr ≤ fend → ∃ out, formatLoop fm lg orig fend tls curr = some out := by
  intro tls
  induction tls with
  | nil =>
    intro curr _ h0 h1
    obtain ⟨x, hx⟩ := slice_isSome (orig := orig) h0 h1 hfl
    exact ⟨fm.esc x, by simp [formatLoop, hx]⟩
  | cons o rest ih =>
    intro curr hle h0 h1
    have hle' : lg = true ∨ ∀ tl, some tl ∈ rest → tl.start ≤ tl.stop := by
      rcases hle with h | h
      · exact Or.inl h
      · exact Or.inr (fun tl ht => h tl (by simp [ht]))
    cases o with
    | none => exact ih curr hle' h0 h1
    | some tl =>
      simp only [formatLoop]
      split
      · exact ih curr hle' h0 h1
      · rename_i hng
        have ht : tl.start ≤ tl.stop := by
          rcases hle with h | h
          · subst h
            simp only [Bool.true_and, decide_eq_true_eq] at hng
            omega
          · exact h tl (by simp)
        split
        · exact ih curr hle' h0 h1
        · split
          · obtain ⟨x, hx⟩ := slice_isSome (orig := orig) h0 h1 hfl
            exact ⟨fm.esc x, by simp [hx]⟩
          · obtain ⟨a, ha⟩ := slice_isSome (orig := orig) (a := curr) (b := tl.start) h0 (by omega) (by omega)
            obtain ⟨b, hb⟩ := slice_isSome (orig := orig) (a := tl.start) (b := tl.stop) (by omega) ht (by omega)
            obtain ⟨r, hr⟩ := ih tl.stop hle' (by omega) (by omega)
            exact ⟨_, by simp only [ha, hb, hr]; rfl⟩

theorem mapM'_some {α β : Type} (g : α → Option β) (l : List α) (h : ∀ x ∈ l, ∃ y, g x = some y) :
    ∃ ys, mapM' g l = some ys := by
  induction l with
  | nil => exact ⟨[], rfl⟩
  | cons x xs ih =>
    obtain ⟨y, hy⟩ := h x (by simp)
    obtain ⟨ys, hys⟩ := ih (fun z hz => h z (by simp [hz]))
    exact ⟨y :: ys, by simp [mapM', hy, hys]⟩

/-- element-wise relation between two lists of the same length -/
inductive Forall2 {α β : Type} (R : α → β → Prop) : List α → List β → Prop
  | nil : Forall2 R [] []
  | cons {a : α} {b : β} {as : List α} {bs : List β} : R a b → Forall2 R as bs → Forall2 R (a :: as) (b :: bs)

theorem Forall2.length_eq {α β : Type} {R : α → β → Prop} {l : List α} {m : List β} (h : Forall2 R l m) :
    l.length = m.length := by
  induction h with
  | nil => rfl
  | cons _ _ ih => simp [ih]

theorem Forall2.imp {α β : Type} {R S : α → β → Prop} {l : List α} {m : List β} (h : Forall2 R l m)
    (hi : ∀ a b, a ∈ l → R a b → S a b) : Forall2 S l m := by
  induction h with
  | nil => exact .nil
  | cons hab _ ih => exact .cons (hi _ _ (by simp) hab) (ih (fun a b ha => hi a b (by simp [ha])))

theorem mapM'_forall2 {α β : Type} (g : α → Option β) : ∀ (l : List α) (ys : List β), mapM' g l = some ys →
    Forall2 (fun x y => g x = some y) l ys := by
  intro l
  induction l with
  | nil => intro ys h; simp only [mapM', Option.some.injEq] at h; subst h; exact .nil
  | cons x xs ih =>
    intro ys h
    simp only [mapM'] at h
    split at h
    · rename_i y ys' hy hys
      simp only [Option.some.injEq] at h
      subst h
      exact .cons hy (ih ys' hys)
    · cases h

/-- BestFragments does not panic when the locations are usable (filtered by the tree or by hypothesis),
whatever order OrderTermLocations returned them in -/
theorem bestFragmentsOrd_np (v : Variant) (fm : Fmt) (orig : Bytes) (fsize num : Int) (locs ot : List TermLocation)
    (hf : 1 ≤ fsize) (hord : v.locGuard = true ∨ ∀ l ∈ ot, 0 ≤ l.start ∧ l.start ≤ l.stop) :
    ∃ outs, bestFragmentsOrd v fm orig fsize num locs ot = some outs := by
  obtain ⟨frags, hfr, hb⟩ := fragment_np v orig fsize hf ot hord
  unfold bestFragmentsOrd bestSelectionOrd
  simp only [hfr, Option.map_some]
  apply mapM'_some
  intro b hbm
  have := (selectBest_inv num (frags.map fun f => { f with score := scoreOf locs f })).2.2 b hbm
  simp only [List.mem_map] at this
  obtain ⟨f, hfm, e⟩ := this
  have hbf := hb f hfm
  subst e
  have hm : v.locGuard = true ∨ ∀ tl, some tl ∈ mergeOverlapping v.mergeMax ot → tl.start ≤ tl.stop := by
    rcases hord with h | h
    · exact Or.inl h
    · exact Or.inr (fun tl ht => mergeOverlapping_le (fun l hl => (h l hl).2) ht)
  obtain ⟨s, hs⟩ := formatLoop_np fm v.locGuard orig f.stop hbf.2.2 (mergeOverlapping v.mergeMax ot) f.start
    hm hbf.1 hbf.2.1
  simp only [render, format, hs, Option.map_some]
  exact ⟨_, rfl⟩

theorem bestFragments_faithful_aux {fm : Fmt} {strip : Bytes → Bytes} {Q : Byte → Prop} (ok : StripOK fm strip Q)
    (v : Variant) (orig : Bytes) (hQ : ∀ x ∈ orig, Q x) (fsize num : Int) (locs : List TermLocation) (outs : List Bytes)
    (ot : List TermLocation) (h : bestFragmentsOrd v fm orig fsize num locs ot = some outs) :
    ∃ best, bestSelectionOrd v orig fsize num locs ot = some best ∧
      Forall2 (fun f out => ∃ s, out = (if f.start ≠ 0 then separator else []) ++ s ++
          (if f.stop ≠ (orig.length : Int) then separator else []) ∧ slice orig f.start f.stop = some (strip s)) best outs := by
  unfold bestFragmentsOrd at h
  split at h
  · cases h
  · rename_i best hb
    refine ⟨best, hb, ?_⟩
    refine (mapM'_forall2 _ best outs h).imp ?_
    intro f out _ hr
    unfold render at hr
    cases hf : format v fm orig f (mergeOverlapping v.mergeMax ot) with
    | none => simp [hf] at hr
    | some s =>
      simp only [hf, Option.map_some, Option.some.injEq] at hr
      exact ⟨s, hr.symm, formatLoop_strip ok v.locGuard orig hQ f.stop _ f.start s hf⟩

theorem bestSelection_spec (v : Variant) (orig : Bytes) (fsize num : Int) (locs ot : List TermLocation)
    (best : List Fragment) (h : bestSelectionOrd v orig fsize num locs ot = some best) :
    (best.length : Int) ≤ max num 0 ∧ best.Pairwise (fun a b => a.overlaps b = false) ∧
    ∃ frags, fragment v orig fsize ot = some frags ∧
      ∀ b ∈ best, ∃ f ∈ frags, b = { f with score := scoreOf locs f } := by
  unfold bestSelectionOrd at h
  cases hf : fragment v orig fsize ot with
  | none => simp [hf] at h
  | some frags =>
    simp only [hf, Option.map_some, Option.some.injEq] at h
    subst h
    have := selectBest_inv num (frags.map fun f => { f with score := scoreOf locs f })
    refine ⟨this.1, this.2.1, frags, rfl, ?_⟩
    intro b hb
    have := this.2.2 b hb
    simp only [List.mem_map] at this
    obtain ⟨f, hf, e⟩ := this
    exact ⟨f, hf, e.symm⟩

theorem bestFragments_count (v : Variant) (fm : Fmt) (orig : Bytes) (fsize num : Int) (locs ot : List TermLocation)
    (outs : List Bytes) (h : bestFragmentsOrd v fm orig fsize num locs ot = some outs) : (outs.length : Int) ≤ max num 0 := by
  unfold bestFragmentsOrd at h
  split at h
  · cases h
  · rename_i best hb
    have := (mapM'_forall2 _ best outs h).length_eq
    have := (bestSelection_spec v orig fsize num locs ot best hb).1
    omega

theorem overlaps_false_iff (a b : Fragment) (ha : a.start < a.stop) (hb : b.start < b.stop) :
    a.overlaps b = false ↔ (a.stop ≤ b.start ∨ b.stop ≤ a.start) := by
  unfold Fragment.overlaps
  by_cases h1 : b.start ≥ a.start ∧ b.start < a.stop <;>
    by_cases h2 : a.start ≥ b.start ∧ a.start < b.stop <;> simp [h1, h2] <;> omega

theorem marks_term_occurrences_aux (mx lg : Bool) (fstart fend : Int) (ot : List TermLocation) (hd : disjointLocs ot = true)
    (hne : ∀ l ∈ ot, l.start < l.stop) :
    ∀ m ∈ marksLoop lg fend (mergeOverlapping mx ot) fstart, ∃ l ∈ ot, m = (l.start, l.stop) ∧ l.stop ≤ fend := by
  rw [mergeOverlapping_of_disjoint hd hne]
  intro m hm
  obtain ⟨tl, hmem, he, hle⟩ := marksLoop_mem' lg fend _ fstart m hm
  simp only [List.mem_map, Option.some.injEq] at hmem
  obtain ⟨l, hl, rfl⟩ := hmem
  exact ⟨l, hl, he, hle⟩

/-- under `locsOK` with at least one location every fragment is inside the text and on rune boundaries -/
theorem fragment_bd (v : Variant) (orig : Bytes) (fsize : Int) (ot : List TermLocation) (frs : List Fragment)
    (hok : locsOK orig ot = true) (hne : ot ≠ [] ∨ v.runeCut = true) (h : fragment v orig fsize ot = some frs) :
    ∀ f ∈ frs, Bd orig f.start ∧ Bd orig f.stop ∧ f.start ≤ f.stop := by
  simp only [locsOK, Bool.and_eq_true, List.all_eq_true] at hok
  obtain ⟨⟨hv, _⟩, hall⟩ := hok
  have hb : ∀ l ∈ ot, Bd orig l.start ∧ usable l = true := by
    intro l hl
    have := hall l hl
    simp only [locOK, Bool.and_eq_true, decide_eq_true_eq] at this
    exact ⟨Bd_of_isBoundary this.1.2, (usable_iff l).mpr ⟨this.1.1.1.1, this.1.1.1.2⟩⟩
  have hfil : (if v.locGuard = true then ot.filter usable else ot) = ot := by
    split
    · exact List.filter_eq_self.mpr (fun l hl => (hb l hl).2)
    · rfl
  unfold fragment at h
  rw [hfil] at h
  split at h
  · -- no location
    split at h
    · simp only [Option.some.injEq] at h
      subst h
      intro f hf
      simp only [List.mem_cons, List.not_mem_nil, or_false] at hf
      subst hf
      have := cutRunes_bd orig fsize (orig.length + 1) 0 0 (Bd_zero orig)
      exact ⟨Bd_zero orig, this.1, this.2⟩
    · rename_i hrc
      rcases hne with hne | hne
      · exact absurd rfl hne
      · exact absurd hne hrc
  · exact fragmentLoop_bd v.sizeGuard orig hv fsize ot 0 frs (fun l hl => (hb l hl).1) h

end Bluge.C20

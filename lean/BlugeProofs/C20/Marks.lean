import Bluge.Highlight
/-! MergeOverlapping and the marked spans of a formatter run (C20 helpers). -/
namespace Bluge.C20
open Bluge.Highlight

/-! ### OrderTermLocations -/

theorem mem_insertByStart {x y : TermLocation} {l : List TermLocation} :
    y ∈ insertByStart x l ↔ y = x ∨ y ∈ l := by
  induction l with
  | nil => simp [insertByStart]
  | cons z zs ih =>
    simp only [insertByStart]
    split
    · simp
    · simp only [List.mem_cons, ih]
      constructor
      · rintro (h | h | h)
        · exact Or.inr (Or.inl h)
        · exact Or.inl h
        · exact Or.inr (Or.inr h)
      · rintro (h | h | h)
        · exact Or.inr (Or.inl h)
        · exact Or.inl h
        · exact Or.inr (Or.inr h)

theorem mem_orderTermLocations {y : TermLocation} {locs : List TermLocation} :
    y ∈ orderTermLocations locs ↔ y ∈ locs := by
  induction locs with
  | nil => simp [orderTermLocations]
  | cons x xs ih =>
    have : orderTermLocations (x :: xs) = insertByStart x (orderTermLocations xs) := rfl
    rw [this, mem_insertByStart, ih]; simp

theorem orderTermLocations_nil_iff {locs : List TermLocation} : orderTermLocations locs = [] ↔ locs = [] := by
  constructor
  · intro h
    cases locs with
    | nil => rfl
    | cons x xs =>
      have : x ∈ orderTermLocations (x :: xs) := mem_orderTermLocations.mpr (by simp)
      rw [h] at this; simp at this
  · intro h; subst h; rfl

theorem sorted_insertByStart {x : TermLocation} {l : List TermLocation} (h : sortedByStart l = true) :
    sortedByStart (insertByStart x l) = true := by
  induction l with
  | nil => simp [insertByStart, sortedByStart]
  | cons y ys ih =>
    simp only [insertByStart]
    split
    · rename_i hlt
      simp only [sortedByStart, Bool.and_eq_true, decide_eq_true_eq]
      exact ⟨by omega, h⟩
    · rename_i hge
      cases ys with
      | nil =>
        simp only [insertByStart, sortedByStart, Bool.and_eq_true, decide_eq_true_eq, and_true]
        omega
      | cons z zs =>
        simp only [sortedByStart, Bool.and_eq_true, decide_eq_true_eq] at h
        have ih' := ih h.2
        simp only [insertByStart] at ih' ⊢
        split
        · rename_i hlt
          simp only [hlt, if_true] at ih'
          simp only [sortedByStart, Bool.and_eq_true, decide_eq_true_eq] at ih' ⊢
          exact ⟨by omega, by omega, h.2⟩
        · rename_i hge2
          simp only [hge2, if_false] at ih'
          simp only [sortedByStart, Bool.and_eq_true, decide_eq_true_eq]
          exact ⟨h.1, ih'⟩

/-- OrderTermLocations returns the locations sorted by Start -/
theorem sorted_orderTermLocations (locs : List TermLocation) : sortedByStart (orderTermLocations locs) = true := by
  induction locs with
  | nil => rfl
  | cons x xs ih => exact sorted_insertByStart ih

/-! ### MergeOverlapping -/

theorem mergeLoop_fst_start (last : TermLocation) (rest : List TermLocation) :
    (mergeLoop last rest).1.start = last.start ∧ (mergeLoop last rest).1.term = last.term ∧
    (mergeLoop last rest).1.pos = last.pos := by
  induction rest generalizing last with
  | nil => simp [mergeLoop]
  | cons tl rest ih =>
    simp only [mergeLoop]
    split
    · exact ih _
    · exact ih _

theorem mergeLoop_fst_stop (last : TermLocation) (rest : List TermLocation) :
    (mergeLoop last rest).1.stop = last.stop ∨ ∃ tl ∈ rest, (mergeLoop last rest).1.stop = tl.stop := by
  induction rest generalizing last with
  | nil => simp [mergeLoop]
  | cons tl rest ih =>
    simp only [mergeLoop]
    split
    · rcases ih { last with stop := tl.stop } with h | ⟨x, hx, h⟩
      · exact Or.inr ⟨tl, by simp, h⟩
      · exact Or.inr ⟨x, by simp [hx], h⟩
    · rcases ih last with h | ⟨x, hx, h⟩
      · exact Or.inl h
      · exact Or.inr ⟨x, by simp [hx], h⟩

theorem mergeLoop_snd_mem (last : TermLocation) (rest : List TermLocation) (x : TermLocation) :
    some x ∈ (mergeLoop last rest).2 → x ∈ rest := by
  induction rest generalizing last with
  | nil => simp [mergeLoop]
  | cons tl rest ih =>
    simp only [mergeLoop]
    split
    · intro h
      simp only [List.mem_cons, reduceCtorEq, false_or] at h
      exact List.mem_cons_of_mem _ (ih _ h)
    · intro h
      simp only [List.mem_cons, Option.some.injEq] at h
      rcases h with h | h
      · subst h; simp
      · exact List.mem_cons_of_mem _ (ih _ h)

theorem overlaps_le_stop {a b : TermLocation} (_ha : a.start ≤ a.stop) (hb : b.start ≤ b.stop)
    (h : a.overlaps b = true) : a.start ≤ b.stop := by
  unfold TermLocation.overlaps at h
  split at h
  · omega
  · split at h
    · omega
    · simp at h

theorem mergeLoop_fst_le (last : TermLocation) (rest : List TermLocation)
    (hl : last.start ≤ last.stop) (hr : ∀ l ∈ rest, l.start ≤ l.stop) :
    (mergeLoop last rest).1.start ≤ (mergeLoop last rest).1.stop := by
  induction rest generalizing last with
  | nil => simpa [mergeLoop] using hl
  | cons tl rest ih =>
    simp only [mergeLoop]
    split
    · rename_i hov
      exact ih _ (by have := overlaps_le_stop hl (hr tl (by simp)) hov; exact this) (fun l h => hr l (by simp [h]))
    · exact ih _ hl (fun l h => hr l (by simp [h]))

/-- every entry MergeOverlapping leaves starts where some location starts and ends where some location ends -/
theorem mergeOverlapping_mem {locs : List TermLocation} {m : TermLocation} (h : some m ∈ mergeOverlapping locs) :
    (∃ l ∈ locs, m.start = l.start ∧ m.term = l.term) ∧ (∃ l ∈ locs, m.stop = l.stop) := by
  cases locs with
  | nil => simp [mergeOverlapping] at h
  | cons hd tl =>
    simp only [mergeOverlapping, List.mem_cons, Option.some.injEq] at h
    rcases h with h | h
    · subst h
      have h1 := mergeLoop_fst_start hd tl
      refine ⟨⟨hd, by simp, h1.1, h1.2.1⟩, ?_⟩
      rcases mergeLoop_fst_stop hd tl with h2 | ⟨x, hx, h2⟩
      · exact ⟨hd, by simp, h2⟩
      · exact ⟨x, by simp [hx], h2⟩
    · have := mergeLoop_snd_mem hd tl m h
      exact ⟨⟨m, by simp [this], rfl, rfl⟩, ⟨m, by simp [this], rfl⟩⟩

theorem mergeOverlapping_le {locs : List TermLocation} (hr : ∀ l ∈ locs, l.start ≤ l.stop)
    {m : TermLocation} (h : some m ∈ mergeOverlapping locs) : m.start ≤ m.stop := by
  cases locs with
  | nil => simp [mergeOverlapping] at h
  | cons hd tl =>
    simp only [mergeOverlapping, List.mem_cons, Option.some.injEq] at h
    rcases h with h | h
    · subst h
      exact mergeLoop_fst_le hd tl (hr hd (by simp)) (fun l hl => hr l (by simp [hl]))
    · exact hr m (by simp [mergeLoop_snd_mem hd tl m h])

theorem mergeLoop_of_no_overlap (last : TermLocation) (rest : List TermLocation)
    (h : ∀ tl ∈ rest, last.overlaps tl = false) : mergeLoop last rest = (last, rest.map some) := by
  induction rest with
  | nil => rfl
  | cons tl rest ih =>
    simp only [mergeLoop, h tl (by simp), Bool.false_eq_true, if_false, List.map_cons]
    rw [ih (fun x hx => h x (by simp [hx]))]

theorem disjoint_head_le {a : TermLocation} {rest : List TermLocation}
    (hd : disjointLocs (a :: rest) = true) (hne : ∀ l ∈ rest, l.start < l.stop) :
    ∀ tl ∈ rest, a.stop ≤ tl.start := by
  induction rest generalizing a with
  | nil => simp
  | cons b r ih =>
    simp only [disjointLocs, Bool.and_eq_true, decide_eq_true_eq] at hd
    intro tl htl
    simp only [List.mem_cons] at htl
    rcases htl with h | h
    · subst h; exact hd.1
    · have := ih hd.2 (fun l hl => hne l (by simp [hl])) tl h
      have := hne b (by simp)
      omega

/-- on the locations a tokenizer produces (sorted, disjoint, non-empty) MergeOverlapping changes nothing -/
theorem mergeOverlapping_of_disjoint {locs : List TermLocation} (hd : disjointLocs locs = true)
    (hne : ∀ l ∈ locs, l.start < l.stop) : mergeOverlapping locs = locs.map some := by
  cases locs with
  | nil => rfl
  | cons a rest =>
    simp only [mergeOverlapping, List.map_cons]
    have hle := disjoint_head_le hd (fun l hl => hne l (by simp [hl]))
    have ha := hne a (by simp)
    rw [mergeLoop_of_no_overlap a rest]
    intro tl htl
    have h1 := hle tl htl
    have h2 := hne tl (by simp [htl])
    unfold TermLocation.overlaps
    rw [if_neg (by omega), if_neg (by omega)]

/-! ### marks -/

theorem marksLoop_mem (lg : Bool) (fend : Int) :
    ∀ (tls : List (Option TermLocation)) (curr : Int) (m : Int × Int), m ∈ marksLoop lg fend tls curr →
      ∃ tl, some tl ∈ tls ∧ m = (tl.start, tl.stop) ∧ curr ≤ tl.start ∧ tl.stop ≤ fend ∨
            ∃ tl, some tl ∈ tls ∧ m = (tl.start, tl.stop) ∧ tl.stop ≤ fend := by
  intro tls
  induction tls with
  | nil => intro curr m h; simp [marksLoop] at h
  | cons o rest ih =>
    intro curr m h
    cases o with
    | none =>
      obtain ⟨tl, h'⟩ := ih curr m h
      refine ⟨tl, ?_⟩
      rcases h' with ⟨a, b, c, d⟩ | ⟨tl', a, b, c⟩
      · exact Or.inl ⟨by simp [a], b, c, d⟩
      · exact Or.inr ⟨tl', by simp [a], b, c⟩
    | some t =>
      have skip : m ∈ marksLoop lg fend rest curr → ∃ tl, some tl ∈ some t :: rest ∧ m = (tl.start, tl.stop) ∧ curr ≤ tl.start ∧ tl.stop ≤ fend ∨
            ∃ tl, some tl ∈ some t :: rest ∧ m = (tl.start, tl.stop) ∧ tl.stop ≤ fend := by
        intro h
        obtain ⟨tl, h'⟩ := ih curr m h
        refine ⟨tl, ?_⟩
        rcases h' with ⟨a, b, c, d⟩ | ⟨tl', a, b, c⟩
        · exact Or.inl ⟨by simp [a], b, c, d⟩
        · exact Or.inr ⟨tl', by simp [a], b, c⟩
      simp only [marksLoop] at h
      split at h
      · exact skip h
      · split at h
        · exact skip h
        · split at h
          · simp at h
          · simp only [List.mem_cons] at h
            rcases h with h | h
            · exact ⟨t, Or.inl ⟨by simp, h, by omega, by omega⟩⟩
            · obtain ⟨tl, h'⟩ := ih t.stop m h
              refine ⟨tl, Or.inr ?_⟩
              rcases h' with ⟨a, b, c, d⟩ | ⟨tl', a, b, c⟩
              · exact ⟨tl, by simp [a], b, d⟩
              · exact ⟨tl', by simp [a], b, c⟩

/-- every marked span is the (Start, End) of an entry of the location list handed to the formatter -/
theorem marksLoop_mem' (lg : Bool) (fend : Int) (tls : List (Option TermLocation)) (curr : Int) (m : Int × Int)
    (h : m ∈ marksLoop lg fend tls curr) : ∃ tl, some tl ∈ tls ∧ m = (tl.start, tl.stop) ∧ tl.stop ≤ fend := by
  obtain ⟨tl, h'⟩ := marksLoop_mem lg fend tls curr m h
  rcases h' with ⟨a, b, _, d⟩ | ⟨tl', a, b, c⟩
  · exact ⟨tl, a, b, d⟩
  · exact ⟨tl', a, b, c⟩

theorem marksLoop_ge (lg : Bool) (fend : Int) :
    ∀ (tls : List (Option TermLocation)) (curr : Int), (∀ tl, some tl ∈ tls → tl.start ≤ tl.stop) →
      ∀ m ∈ marksLoop lg fend tls curr, curr ≤ m.1 ∧ m.1 ≤ m.2 := by
  intro tls
  induction tls with
  | nil => intro curr _ m h; simp [marksLoop] at h
  | cons o rest ih =>
    intro curr hle m h
    cases o with
    | none => exact ih curr (fun tl ht => hle tl (by simp [ht])) m h
    | some t =>
      simp only [marksLoop] at h
      split at h
      · exact ih curr (fun tl ht => hle tl (by simp [ht])) m h
      · split at h
        · exact ih curr (fun tl ht => hle tl (by simp [ht])) m h
        · split at h
          · simp at h
          · simp only [List.mem_cons] at h
            have ht := hle t (by simp)
            rcases h with h | h
            · subst h; exact ⟨by simp only; omega, ht⟩
            · have := ih t.stop (fun tl ht => hle tl (by simp [ht])) m h
              exact ⟨by omega, this.2⟩

/-- the marked spans are in increasing order and do not overlap -/
theorem marksLoop_sorted (lg : Bool) (fend : Int) :
    ∀ (tls : List (Option TermLocation)) (curr : Int), (∀ tl, some tl ∈ tls → tl.start ≤ tl.stop) →
      (marksLoop lg fend tls curr).Pairwise (fun m n => m.2 ≤ n.1) := by
  intro tls
  induction tls with
  | nil => intro curr _; simp [marksLoop]
  | cons o rest ih =>
    intro curr hle
    cases o with
    | none => exact ih curr (fun tl ht => hle tl (by simp [ht]))
    | some t =>
      simp only [marksLoop]
      split
      · exact ih curr (fun tl ht => hle tl (by simp [ht]))
      · split
        · exact ih curr (fun tl ht => hle tl (by simp [ht]))
        · split
          · simp
          · rw [List.pairwise_cons]
            refine ⟨?_, ih t.stop (fun tl ht => hle tl (by simp [ht]))⟩
            intro n hn
            exact (marksLoop_ge lg fend rest t.stop (fun tl ht => hle tl (by simp [ht])) n hn).1

end Bluge.C20

import Bluge.Highlight
/-! MergeOverlapping and the marked spans of a formatter run (C20 helpers). -/
namespace Bluge.C20
open Bluge.Highlight

/-! ### OrderTermLocations -/

theorem lessTL_start {tb : Bool} {a b : TermLocation} (h : lessTL tb a b = true) : a.start ≤ b.start := by
  unfold lessTL at h
  split at h
  · simp only [Bool.or_eq_true, Bool.and_eq_true, decide_eq_true_eq] at h; omega
  · simp only [decide_eq_true_eq] at h; omega

theorem not_lessTL_start {tb : Bool} {a b : TermLocation} (h : lessTL tb a b = false) : b.start ≤ a.start := by
  unfold lessTL at h
  split at h
  · simp only [Bool.or_eq_false_iff, Bool.and_eq_false_imp, decide_eq_false_iff_not, decide_eq_true_eq] at h; omega
  · simp only [decide_eq_false_iff_not] at h; omega

theorem lessTL_asymm {tb : Bool} {a b : TermLocation} (h : lessTL tb a b = true) : lessTL tb b a = false := by
  unfold lessTL at h ⊢
  cases tb
  · simp only [Bool.false_eq_true, if_false, decide_eq_true_eq, decide_eq_false_iff_not] at h ⊢; omega
  · simp only [if_true, Bool.or_eq_true, Bool.and_eq_true, decide_eq_true_eq] at h
    simp only [if_true, Bool.or_eq_false_iff, decide_eq_false_iff_not, Bool.and_eq_false_imp, decide_eq_true_eq]
    constructor
    · omega
    · intro; omega

theorem lessTL_irrefl (tb : Bool) (a : TermLocation) : lessTL tb a a = false := by
  unfold lessTL; split <;> simp

theorem mem_insertBy {tb : Bool} {x y : TermLocation} {l : List TermLocation} :
    y ∈ insertBy tb x l ↔ y = x ∨ y ∈ l := by
  induction l with
  | nil => simp [insertBy]
  | cons z zs ih =>
    simp only [insertBy]
    split
    · simp
    · simp only [List.mem_cons, ih]
      constructor
      · rintro (h | h | h)
        · exact Or.inr (Or.inl h)
        · exact Or.inl h
        · exact Or.inr (Or.inr h)
      · rintro (h | h | h)
        · exact Or.inr (Or.inl h)
        · exact Or.inl h
        · exact Or.inr (Or.inr h)

theorem mem_orderTermLocations {tb : Bool} {y : TermLocation} {locs : List TermLocation} :
    y ∈ orderTermLocations tb locs ↔ y ∈ locs := by
  induction locs with
  | nil => simp [orderTermLocations]
  | cons x xs ih =>
    have : orderTermLocations tb (x :: xs) = insertBy tb x (orderTermLocations tb xs) := rfl
    rw [this, mem_insertBy, ih]; simp

theorem insertBy_perm (tb : Bool) (x : TermLocation) (l : List TermLocation) : (insertBy tb x l).Perm (x :: l) := by
  induction l with
  | nil => exact List.Perm.refl _
  | cons y ys ih =>
    simp only [insertBy]
    split
    · exact List.Perm.refl _
    · exact (List.Perm.cons y ih).trans (List.Perm.swap x y ys)

/-- the stable sort is a permutation of its input -/
theorem orderTermLocations_perm (tb : Bool) (locs : List TermLocation) : (orderTermLocations tb locs).Perm locs := by
  induction locs with
  | nil => exact List.Perm.refl _
  | cons x xs ih =>
    have : orderTermLocations tb (x :: xs) = insertBy tb x (orderTermLocations tb xs) := rfl
    rw [this]
    exact (insertBy_perm tb x _).trans (List.Perm.cons x ih)

theorem sortedFor_insertBy {tb : Bool} {x : TermLocation} {l : List TermLocation} (h : sortedFor tb l = true) :
    sortedFor tb (insertBy tb x l) = true := by
  induction l with
  | nil => simp [insertBy, sortedFor]
  | cons y ys ih =>
    simp only [insertBy]
    split
    · rename_i hlt
      have hyx : lessTL tb y x = false := lessTL_asymm hlt
      simp only [sortedFor, hyx, Bool.not_false, Bool.true_and]
      exact h
    · rename_i hge
      have hge' : lessTL tb x y = false := by simpa using hge
      cases ys with
      | nil => simp [insertBy, sortedFor, hge']
      | cons z zs =>
        simp only [sortedFor, Bool.and_eq_true, Bool.not_eq_eq_eq_not, Bool.not_true] at h
        have ih' := ih h.2
        simp only [insertBy] at ih' ⊢
        split
        · rename_i hlt
          simp only [hlt, if_true] at ih'
          simp only [sortedFor, Bool.and_eq_true, Bool.not_eq_eq_eq_not, Bool.not_true]
          simp only [sortedFor, Bool.and_eq_true, Bool.not_eq_eq_eq_not, Bool.not_true] at ih'
          exact ⟨hge', ih'.1, h.2⟩
        · rename_i hge2
          simp only [hge2, if_false] at ih'
          simp only [sortedFor, Bool.and_eq_true, Bool.not_eq_eq_eq_not, Bool.not_true]
          exact ⟨h.1, ih'⟩

/-- the stable sort is sorted for `Less` -/
theorem sortedFor_orderTermLocations (tb : Bool) (locs : List TermLocation) :
    sortedFor tb (orderTermLocations tb locs) = true := by
  induction locs with
  | nil => rfl
  | cons x xs ih => exact sortedFor_insertBy ih

/-- a `Less`-sorted list is sorted by Start -/
theorem sortedByStart_of_sortedFor {tb : Bool} : ∀ {l : List TermLocation}, sortedFor tb l = true → sortedByStart l = true
  | [], _ => rfl
  | [_], _ => rfl
  | a :: b :: rest, h => by
    simp only [sortedFor, Bool.and_eq_true, Bool.not_eq_eq_eq_not, Bool.not_true] at h
    simp only [sortedByStart, Bool.and_eq_true, decide_eq_true_eq]
    exact ⟨not_lessTL_start h.1, sortedByStart_of_sortedFor h.2⟩

/-- OrderTermLocations returns the locations sorted by Start -/
theorem sorted_orderTermLocations (tb : Bool) (locs : List TermLocation) :
    sortedByStart (orderTermLocations tb locs) = true :=
  sortedByStart_of_sortedFor (sortedFor_orderTermLocations tb locs)

/-! ### MergeOverlapping -/

theorem mergeLoop_fst_start (mx : Bool) (last : TermLocation) (rest : List TermLocation) :
    (mergeLoop mx last rest).1.start = last.start ∧ (mergeLoop mx last rest).1.term = last.term ∧
    (mergeLoop mx last rest).1.pos = last.pos := by
  induction rest generalizing last with
  | nil => simp [mergeLoop]
  | cons tl rest ih =>
    simp only [mergeLoop]
    split
    · exact ih _
    · exact ih _

theorem mergeLoop_fst_stop (mx : Bool) (last : TermLocation) (rest : List TermLocation) :
    (mergeLoop mx last rest).1.stop = last.stop ∨ ∃ tl ∈ rest, (mergeLoop mx last rest).1.stop = tl.stop := by
  induction rest generalizing last with
  | nil => simp [mergeLoop]
  | cons tl rest ih =>
    simp only [mergeLoop]
    split
    · by_cases hc : (mx && decide (tl.stop ≤ last.stop)) = true
      · simp only [hc, if_true]
        rcases ih { last with stop := last.stop } with h | ⟨x, hx, h⟩
        · exact Or.inl h
        · exact Or.inr ⟨x, by simp [hx], h⟩
      · simp only [hc, if_false]
        rcases ih { last with stop := tl.stop } with h | ⟨x, hx, h⟩
        · exact Or.inr ⟨tl, by simp, h⟩
        · exact Or.inr ⟨x, by simp [hx], h⟩
    · rcases ih last with h | ⟨x, hx, h⟩
      · exact Or.inl h
      · exact Or.inr ⟨x, by simp [hx], h⟩

theorem mergeLoop_snd_mem (mx : Bool) (last : TermLocation) (rest : List TermLocation) (x : TermLocation) :
    some x ∈ (mergeLoop mx last rest).2 → x ∈ rest := by
  induction rest generalizing last with
  | nil => simp [mergeLoop]
  | cons tl rest ih =>
    simp only [mergeLoop]
    split
    · intro h
      simp only [List.mem_cons, reduceCtorEq, false_or] at h
      exact List.mem_cons_of_mem _ (ih _ h)
    · intro h
      simp only [List.mem_cons, Option.some.injEq] at h
      rcases h with h | h
      · subst h; simp
      · exact List.mem_cons_of_mem _ (ih _ h)

theorem overlaps_le_stop {a b : TermLocation} (_ha : a.start ≤ a.stop) (hb : b.start ≤ b.stop)
    (h : a.overlaps b = true) : a.start ≤ b.stop := by
  unfold TermLocation.overlaps at h
  split at h
  · omega
  · split at h
    · omega
    · simp at h

theorem mergeLoop_fst_le (mx : Bool) (last : TermLocation) (rest : List TermLocation)
    (hl : last.start ≤ last.stop) (hr : ∀ l ∈ rest, l.start ≤ l.stop) :
    (mergeLoop mx last rest).1.start ≤ (mergeLoop mx last rest).1.stop := by
  induction rest generalizing last with
  | nil => simpa [mergeLoop] using hl
  | cons tl rest ih =>
    simp only [mergeLoop]
    split
    · rename_i hov
      refine ih _ ?_ (fun l h => hr l (by simp [h]))
      have := overlaps_le_stop hl (hr tl (by simp)) hov
      simp only []
      split <;> omega
    · exact ih _ hl (fun l h => hr l (by simp [h]))

/-- every entry MergeOverlapping leaves starts where some location starts and ends where some location ends -/
theorem mergeOverlapping_mem {mx : Bool} {locs : List TermLocation} {m : TermLocation} (h : some m ∈ mergeOverlapping mx locs) :
    (∃ l ∈ locs, m.start = l.start ∧ m.term = l.term) ∧ (∃ l ∈ locs, m.stop = l.stop) := by
  cases locs with
  | nil => simp [mergeOverlapping] at h
  | cons hd tl =>
    simp only [mergeOverlapping, List.mem_cons, Option.some.injEq] at h
    rcases h with h | h
    · subst h
      have h1 := mergeLoop_fst_start mx hd tl
      refine ⟨⟨hd, by simp, h1.1, h1.2.1⟩, ?_⟩
      rcases mergeLoop_fst_stop mx hd tl with h2 | ⟨x, hx, h2⟩
      · exact ⟨hd, by simp, h2⟩
      · exact ⟨x, by simp [hx], h2⟩
    · have := mergeLoop_snd_mem mx hd tl m h
      exact ⟨⟨m, by simp [this], rfl, rfl⟩, ⟨m, by simp [this], rfl⟩⟩

theorem mergeOverlapping_le {mx : Bool} {locs : List TermLocation} (hr : ∀ l ∈ locs, l.start ≤ l.stop)
    {m : TermLocation} (h : some m ∈ mergeOverlapping mx locs) : m.start ≤ m.stop := by
  cases locs with
  | nil => simp [mergeOverlapping] at h
  | cons hd tl =>
    simp only [mergeOverlapping, List.mem_cons, Option.some.injEq] at h
    rcases h with h | h
    · subst h
      exact mergeLoop_fst_le mx hd tl (hr hd (by simp)) (fun l hl => hr l (by simp [hl]))
    · exact hr m (by simp [mergeLoop_snd_mem mx hd tl m h])

theorem mergeLoop_of_no_overlap (mx : Bool) (last : TermLocation) (rest : List TermLocation)
    (h : ∀ tl ∈ rest, last.overlaps tl = false) : mergeLoop mx last rest = (last, rest.map some) := by
  induction rest with
  | nil => rfl
  | cons tl rest ih =>
    simp only [mergeLoop, h tl (by simp), Bool.false_eq_true, if_false, List.map_cons]
    rw [ih (fun x hx => h x (by simp [hx]))]

theorem disjoint_head_le {a : TermLocation} {rest : List TermLocation}
    (hd : disjointLocs (a :: rest) = true) (hne : ∀ l ∈ rest, l.start < l.stop) :
    ∀ tl ∈ rest, a.stop ≤ tl.start := by
  induction rest generalizing a with
  | nil => simp
  | cons b r ih =>
    simp only [disjointLocs, Bool.and_eq_true, decide_eq_true_eq] at hd
    intro tl htl
    simp only [List.mem_cons] at htl
    rcases htl with h | h
    · subst h; exact hd.1
    · have := ih hd.2 (fun l hl => hne l (by simp [hl])) tl h
      have := hne b (by simp)
      omega

/-- on the locations a tokenizer produces (sorted, disjoint, non-empty) MergeOverlapping changes nothing -/
theorem mergeOverlapping_of_disjoint {mx : Bool} {locs : List TermLocation} (hd : disjointLocs locs = true)
    (hne : ∀ l ∈ locs, l.start < l.stop) : mergeOverlapping mx locs = locs.map some := by
  cases locs with
  | nil => rfl
  | cons a rest =>
    simp only [mergeOverlapping, List.map_cons]
    have hle := disjoint_head_le hd (fun l hl => hne l (by simp [hl]))
    have ha := hne a (by simp)
    rw [mergeLoop_of_no_overlap mx a rest]
    intro tl htl
    have h1 := hle tl htl
    have h2 := hne tl (by simp [htl])
    unfold TermLocation.overlaps
    rw [if_neg (by omega), if_neg (by omega)]

/-! ### marks -/

theorem marksLoop_mem (lg : Bool) (fend : Int) :
    ∀ (tls : List (Option TermLocation)) (curr : Int) (m : Int × Int), m ∈ marksLoop lg fend tls curr →
      ∃ tl, some tl ∈ tls ∧ m = (tl.start, tl.stop) ∧ curr ≤ tl.start ∧ tl.stop ≤ fend ∨
            ∃ tl, some tl ∈ tls ∧ m = (tl.start, tl.stop) ∧ tl.stop ≤ fend := by
  intro tls
  induction tls with
  | nil => intro curr m h; simp [marksLoop] at h
  | cons o rest ih =>
    intro curr m h
    cases o with
    | none =>
      obtain ⟨tl, h'⟩ := ih curr m h
      refine ⟨tl, ?_⟩
      rcases h' with ⟨a, b, c, d⟩ | ⟨tl', a, b, c⟩
      · exact Or.inl ⟨by simp [a], b, c, d⟩
      · exact Or.inr ⟨tl', by simp [a], b, c⟩
    | some t =>
      have skip : m ∈ marksLoop lg fend rest curr → ∃ tl, some tl ∈ some t :: rest ∧ m = (tl.start, tl.stop) ∧ curr ≤ tl.start ∧ tl.stop ≤ fend ∨
            ∃ tl, some tl ∈ some t :: rest ∧ m = (tl.start, tl.stop) ∧ tl.stop ≤ fend := by
        intro h
        obtain ⟨tl, h'⟩ := ih curr m h
        refine ⟨tl, ?_⟩
        rcases h' with ⟨a, b, c, d⟩ | ⟨tl', a, b, c⟩
        · exact Or.inl ⟨by simp [a], b, c, d⟩
        · exact Or.inr ⟨tl', by simp [a], b, c⟩
      simp only [marksLoop] at h
      split at h
      · exact skip h
      · split at h
        · exact skip h
        · split at h
          · simp at h
          · simp only [List.mem_cons] at h
            rcases h with h | h
            · exact ⟨t, Or.inl ⟨by simp, h, by omega, by omega⟩⟩
            · obtain ⟨tl, h'⟩ := ih t.stop m h
              refine ⟨tl, Or.inr ?_⟩
              rcases h' with ⟨a, b, c, d⟩ | ⟨tl', a, b, c⟩
              · exact ⟨tl, by simp [a], b, d⟩
              · exact ⟨tl', by simp [a], b, c⟩

/-- every marked span is the (Start, End) of an entry of the location list handed to the formatter -/
theorem marksLoop_mem' (lg : Bool) (fend : Int) (tls : List (Option TermLocation)) (curr : Int) (m : Int × Int)
    (h : m ∈ marksLoop lg fend tls curr) : ∃ tl, some tl ∈ tls ∧ m = (tl.start, tl.stop) ∧ tl.stop ≤ fend := by
  obtain ⟨tl, h'⟩ := marksLoop_mem lg fend tls curr m h
  rcases h' with ⟨a, b, _, d⟩ | ⟨tl', a, b, c⟩
  · exact ⟨tl, a, b, d⟩
  · exact ⟨tl', a, b, c⟩

theorem marksLoop_ge (lg : Bool) (fend : Int) :
    ∀ (tls : List (Option TermLocation)) (curr : Int), (∀ tl, some tl ∈ tls → tl.start ≤ tl.stop) →
      ∀ m ∈ marksLoop lg fend tls curr, curr ≤ m.1 ∧ m.1 ≤ m.2 := by
  intro tls
  induction tls with
  | nil => intro curr _ m h; simp [marksLoop] at h
  | cons o rest ih =>
    intro curr hle m h
    cases o with
    | none => exact ih curr (fun tl ht => hle tl (by simp [ht])) m h
    | some t =>
      simp only [marksLoop] at h
      split at h
      · exact ih curr (fun tl ht => hle tl (by simp [ht])) m h
      · split at h
        · exact ih curr (fun tl ht => hle tl (by simp [ht])) m h
        · split at h
          · simp at h
          · simp only [List.mem_cons] at h
            have ht := hle t (by simp)
            rcases h with h | h
            · subst h; exact ⟨by simp only; omega, ht⟩
            · have := ih t.stop (fun tl ht => hle tl (by simp [ht])) m h
              exact ⟨by omega, this.2⟩

/-- the marked spans are in increasing order and do not overlap -/
theorem marksLoop_sorted (lg : Bool) (fend : Int) :
    ∀ (tls : List (Option TermLocation)) (curr : Int), (∀ tl, some tl ∈ tls → tl.start ≤ tl.stop) →
      (marksLoop lg fend tls curr).Pairwise (fun m n => m.2 ≤ n.1) := by
  intro tls
  induction tls with
  | nil => intro curr _; simp [marksLoop]
  | cons o rest ih =>
    intro curr hle
    cases o with
    | none => exact ih curr (fun tl ht => hle tl (by simp [ht]))
    | some t =>
      simp only [marksLoop]
      split
      · exact ih curr (fun tl ht => hle tl (by simp [ht]))
      · split
        · exact ih curr (fun tl ht => hle tl (by simp [ht]))
        · split
          · simp
          · rw [List.pairwise_cons]
            refine ⟨?_, ih t.stop (fun tl ht => hle tl (by simp [ht]))⟩
            intro n hn
            exact (marksLoop_ge lg fend rest t.stop (fun tl ht => hle tl (by simp [ht])) n hn).1

end Bluge.C20

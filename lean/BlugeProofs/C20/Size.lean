import BlugeProofs.C20.Match
/-! A fragment is at most `fragmentSize` runes long and its window does not cross `maxbegin` (C20 helpers). -/
namespace Bluge.C20
open Bluge.Highlight

theorem drop_ne_nil {orig : Bytes} {k : Nat} (h : k < orig.length) : orig.drop k ≠ [] := by
  intro e
  have := congrArg List.length e
  simp only [List.length_drop, List.length_nil] at this; omega

theorem fwd_count (g : Bool) (orig : Bytes) (hv : validUtf8 orig = true) (fsize : Int) :
    ∀ (fuel : Nat) (e used e' u' : Int), fwd g orig fsize fuel e used = .done (e', u') → Bd orig e →
      u' = used + (rc orig e.toNat e'.toNat : Int) ∧ (used ≤ fsize → u' ≤ fsize) := by
  intro fuel
  induction fuel with
  | zero =>
    intro e used e' u' h _
    simp only [fwd, Loop.done.injEq, Prod.mk.injEq] at h
    rw [← h.1, ← h.2, rc_self]; exact ⟨by omega, fun h => h⟩
  | succ f ih =>
    intro e used e' u' h hb
    have hfull := fwd_bd g orig fsize (f + 1) e used e' u' h hb
    simp only [fwd] at h
    split at h
    · rename_i hc
      split at h
      · cases h
      · split at h
        · cases h
        · have hb' := Bd_fwd hb hc.1
          have hrec := fwd_bd g orig fsize f _ _ e' u' h hb'
          have := ih _ _ _ _ h hb'
          have hpos := decodeRune_size_pos (orig.drop e.toNat) (drop_ne_nil (by have := hb.1; omega))
          have e1 : (e + ((decodeRune (orig.drop e.toNat)).2 : Int)).toNat = e.toNat + (decodeRune (orig.drop e.toNat)).2 := by
            have := hb.1; omega
          have hstep := rc_step hv hb.2.2 hrec.1.2.2 (by have := hrec.2; have := hb.1; omega)
          rw [e1] at this
          exact ⟨by have := this.1; have := hstep.2; omega, fun hu => this.2 (by omega)⟩
    · simp only [Loop.done.injEq, Prod.mk.injEq] at h
      rw [← h.1, ← h.2, rc_self]; exact ⟨by omega, fun h => h⟩

theorem bails_nil (g : Bool) : bails g (decodeLastRune []) = true := by
  cases g <;> decide

/-- in the non-bailing branch of `back`/`shiftLeft` the position is positive and one rune back is the predecessor boundary -/
theorem dlr_step {g : Bool} {orig : Bytes} (hv : validUtf8 orig = true) {s : Int} (hb : Bd orig s)
    (hn : ¬ bails g (decodeLastRune (orig.take s.toNat)) = true) :
    ∃ j : Nat, j ∈ bounds orig ∧ j < s.toNat ∧ j + (decodeRune (orig.drop j)).2 = s.toNat ∧
      s - ((decodeLastRune (orig.take s.toNat)).2 : Int) = j := by
  have h0 : 0 < s.toNat := by
    apply Decidable.byContradiction
    intro hcon
    have : s.toNat = 0 := by omega
    rw [this, List.take_zero, bails_nil] at hn
    exact hn rfl
  obtain ⟨j, hj, hjs, hjn, hdl⟩ := dlr_at_boundary hv hb.2.2 h0
  exact ⟨j, hj, hjs, hjn, by rw [hdl]; have := hb.1; omega⟩

theorem back_count (g : Bool) (orig : Bytes) (hv : validUtf8 orig = true) (fsize mb : Int) :
    ∀ (fuel : Nat) (s used s' u' : Int), back g orig fsize mb fuel s used = .done (s', u') → Bd orig s →
      u' = used + (rc orig s'.toNat s.toNat : Int) ∧ (used ≤ fsize → u' ≤ fsize) ∧ (mb ≤ s → mb ≤ s') := by
  intro fuel
  induction fuel with
  | zero =>
    intro s used s' u' h _
    simp only [back, Loop.done.injEq, Prod.mk.injEq] at h
    rw [← h.1, ← h.2, rc_self]; exact ⟨by omega, fun h => h, fun h => h⟩
  | succ f ih =>
    intro s used s' u' h hb
    simp only [back] at h
    split at h
    · rename_i hc
      split at h
      · cases h
      · split at h
        · cases h
        · rename_i hn
          obtain ⟨j, hj, hjs, hjn, hsj⟩ := dlr_step hv hb hn
          split at h
          · rename_i hge
            rw [hsj] at h hge
            have hbj := Bd_nat hj
            have hrec := back_bd g orig hv fsize mb f _ _ s' u' h hbj
            have := ih _ _ _ _ h hbj
            have hjnat : ((j : Int)).toNat = j := by omega
            rw [hjnat] at this
            have hback := rc_back hv hrec.1.2.2 hj hb.2.2 hjn hjs (by have := hrec.2; have := hrec.1.1; omega)
            exact ⟨by have := this.1; have := hback.2; omega, fun hu => this.2.1 (by omega), fun _ => this.2.2 hge⟩
          · simp only [Loop.done.injEq, Prod.mk.injEq] at h
            rw [← h.1, ← h.2, rc_self]; exact ⟨by omega, fun h => h, fun h => h⟩
    · simp only [Loop.done.injEq, Prod.mk.injEq] at h
      rw [← h.1, ← h.2, rc_self]; exact ⟨by omega, fun h => h, fun h => h⟩

theorem shift_count (g : Bool) (orig : Bytes) (hv : validUtf8 orig = true) :
    ∀ (k : Nat) (s e s' e' : Int), shiftLeft g orig k s e = .done (s', e') → Bd orig s → Bd orig e → s ≤ e →
      rc orig s'.toNat e'.toNat = rc orig s.toNat e.toNat ∧
      ∀ mb : Nat, mb ∈ bounds orig → (mb : Int) ≤ s → k ≤ rc orig mb s.toNat → (mb : Int) ≤ s' := by
  intro k
  induction k with
  | zero =>
    intro s e s' e' h _ _ _
    simp only [shiftLeft, Loop.done.injEq, Prod.mk.injEq] at h
    rw [← h.1, ← h.2]; exact ⟨rfl, fun mb _ h _ => h⟩
  | succ k ih =>
    intro s e s' e' h hs he hse
    simp only [shiftLeft] at h
    split at h
    · cases h
    · split at h
      · cases h
      · rename_i hn1
        split at h
        · cases h
        · split at h
          · cases h
          · rename_i hn2
            obtain ⟨j1, hj1, hjs1, hjn1, hsj1⟩ := dlr_step hv hs hn1
            obtain ⟨j2, hj2, hjs2, hjn2, hsj2⟩ := dlr_step hv he hn2
            have hord := dlr_order hs.1 hse he.2.1 (not_bails hn1) (not_bails hn2)
            rw [hsj1, hsj2] at h hord
            have := ih _ _ _ _ h (Bd_nat hj1) (Bd_nat hj2) hord
            have n1 : ((j1 : Int)).toNat = j1 := by omega
            have n2 : ((j2 : Int)).toNat = j2 := by omega
            rw [n1, n2] at this
            -- both ends moved one rune back: the count is unchanged
            have a1 := rc_add hv he.2.2 (s.toNat - j1) j1 s.toNat (Nat.le_refl _) hj1 hs.2.2 (by omega) (by have := hs.1; omega)
            have s1 := (rc_step hv hj1 hs.2.2 hjs1).2
            rw [hjn1, rc_self] at s1
            have b2 := rc_back hv hj1 hj2 he.2.2 hjn2 hjs2 (by omega)
            refine ⟨by have := this.1; omega, ?_⟩
            intro mb hmb hle hk
            have hlt : mb < s.toNat := by
              apply Decidable.byContradiction
              intro hcon
              have : mb = s.toNat := by have := hs.1; omega
              rw [this, rc_self] at hk; omega
            have r1 := rc_back hv hmb hj1 hs.2.2 hjn1 hjs1 hlt
            exact this.2 mb hmb (by have := r1.1; omega) (by have := r1.2; omega)

/-- the fragment produced for one location: at most `fragmentSize` runes, and it does not reach back over
`maxbegin` (the end of the previous location that produced a fragment) if the location starts at or after it -/
theorem fragOne_size (g : Bool) (orig : Bytes) (hv : validUtf8 orig = true) (fsize maxbegin : Int) (hf : 0 ≤ fsize)
    (tl : TermLocation) (tail : List TermLocation) (hb : Bd orig tl.start) (s e : Int)
    (h : fragOne g orig fsize maxbegin tl tail = .frag s e) :
    (rc orig s.toNat e.toNat : Int) ≤ fsize ∧ (Bd orig maxbegin → maxbegin ≤ tl.start → maxbegin ≤ s) := by
  unfold fragOne at h
  split at h
  · cases h
  · cases h
  · rename_i e0 used0 hfw
    have f1 := fwd_bd g orig fsize _ _ _ _ _ hfw hb
    have c1 := fwd_count g orig hv fsize _ _ _ _ _ hfw hb
    split at h
    · cases h
    · cases h
    · rename_i s0 u0 hbk
      have f2 := back_bd g orig hv fsize maxbegin _ _ _ _ _ hbk hb
      have c2 := back_count g orig hv fsize maxbegin _ _ _ _ _ hbk hb
      have hadd := rc_add hv f1.1.2.2 (tl.start.toNat - s0.toNat) s0.toNat tl.start.toNat (Nat.le_refl _)
        f2.1.2.2 hb.2.2 (by have := f2.2; have := f2.1.1; omega) (by have := f1.2; have := hb.1; omega)
      have htot : (rc orig s0.toNat e0.toNat : Int) ≤ fsize := by
        have := c1.1; have := c1.2 hf; have := c2.1; have := c2.2.1 (c1.2 hf); omega
      simp only [] at h
      split at h
      · cases h
      · rename_i after haft
        split at h
        · cases h
        · rename_i rs rts hrs
          split at h
          · cases h
          · cases h
          · rename_i s1 e1 hsh
            simp only [LocRes.frag.injEq] at h
            have c3 := shift_count g orig hv _ _ _ _ _ hsh f2.1 f1.1 (by have := f1.2; have := f2.2; omega)
            rw [← h.1, ← h.2]
            refine ⟨by rw [c3.1]; exact htot, ?_⟩
            intro hmb hle
            have hs0 : maxbegin ≤ s0 := c2.2.2 hle
            rw [if_pos hs0] at hrs
            cases hsl : slice orig maxbegin s0 with
            | none => rw [hsl] at hrs; simp at hrs
            | some bef =>
              rw [hsl] at hrs
              simp only [Option.map_some, Option.some.injEq] at hrs
              have hbef := (slice_some hsl).2.2.2
              have hrc : rts = rc orig maxbegin.toNat s0.toNat := by rw [← hrs, hbef]; rfl
              have := c3.2 maxbegin.toNat hmb.2.2 (by have := hmb.1; omega) (by rw [← hrc]; split <;> omega)
              have := hmb.1; omega

theorem fragmentLoop_size (g : Bool) (orig : Bytes) (hv : validUtf8 orig = true) (fsize : Int) (hf : 0 ≤ fsize) :
    ∀ (ot : List TermLocation) (maxbegin : Int) (frs : List Fragment),
      (∀ l ∈ ot, Bd orig l.start) → fragmentLoop g orig fsize ot maxbegin = some frs →
      ∀ f ∈ frs, (rc orig f.start.toNat f.stop.toNat : Int) ≤ fsize := by
  intro ot
  induction ot with
  | nil =>
    intro mb frs _ h f hfm
    simp only [fragmentLoop, Option.some.injEq] at h
    subst h; simp at hfm
  | cons tl rest ih =>
    intro mb frs hall h f hfm
    simp only [fragmentLoop] at h
    split at h
    · cases h
    · exact ih mb frs (fun l hl => hall l (by simp [hl])) h f hfm
    · rename_i s e hfo
      cases hr : fragmentLoop g orig fsize rest tl.stop with
      | none => simp [hr] at h
      | some fs =>
        simp only [hr, Option.map_some, Option.some.injEq] at h
        subst h
        simp only [List.mem_cons] at hfm
        rcases hfm with hfm | hfm
        · subst hfm
          exact (fragOne_size g orig hv fsize mb hf tl (tl :: rest) (hall tl (by simp)) s e hfo).1
        · exact ih tl.stop fs (fun l hl => hall l (by simp [hl])) hr f hfm

/-- every fragment produced for a location (valid text, locations on rune boundaries) has at most `fsize` runes -/
theorem fragment_size (v : Variant) (orig : Bytes) (fsize : Int) (hf : 0 ≤ fsize) (ot : List TermLocation)
    (frs : List Fragment) (hok : locsOK orig ot = true) (hne : ot ≠ []) (h : fragment v orig fsize ot = some frs) :
    ∀ f ∈ frs, ∃ x, slice orig f.start f.stop = some x ∧ (runeCount x : Int) ≤ fsize := by
  have hbd := fragment_bd v orig fsize ot frs hok (Or.inl hne) h
  have hv := locsOK_valid hok
  simp only [locsOK, Bool.and_eq_true, List.all_eq_true] at hok
  obtain ⟨_, hall⟩ := hok
  have hb : ∀ l ∈ ot, Bd orig l.start ∧ usable l = true := by
    intro l hl
    have := (locOK_iff orig l).mp (hall l hl)
    exact ⟨this.2.2.2.1, (usable_iff l).mpr ⟨this.1, this.2.1⟩⟩
  have hfil : (if v.locGuard = true then ot.filter usable else ot) = ot := by
    split
    · exact List.filter_eq_self.mpr (fun l hl => (hb l hl).2)
    · rfl
  intro f hfm
  have hfb := hbd f hfm
  obtain ⟨x, hx, hxr⟩ := slice_rc (orig := orig) hfb.1.1 hfb.2.2 hfb.2.1.2.1
  refine ⟨x, hx, ?_⟩
  rw [hxr]
  unfold fragment at h
  rw [hfil] at h
  cases ot with
  | nil => exact absurd rfl hne
  | cons tl rest =>
    exact fragmentLoop_size v.sizeGuard orig hv fsize hf (tl :: rest) 0 frs (fun l hl => (hb l hl).1) h f hfm

end Bluge.C20

import Bluge.Highlight
import BlugeGen.C20
/-! What the model was transcribed from, as regenerated from /repo's source by go/extract/c20.go (C20 helpers). -/
namespace Bluge.C20
open Bluge.Highlight

/-- the guard and statement table the hand-written model corresponds to; the variant-dependent entries are
the no-location branch of `Fragment` (its `if end > len(orig)` disappears with repair 3) and the assignment
of `lastTl.End` in MergeOverlapping (guarded by `tl.End > lastTl.End` with repair 5) -/
def expectedFacts (v : Variant) : List (String × String) := [
  ("score.onHit", "_ += 1.0; break"),
  ("html.init", "_ := \"\""),
  ("html.init", "_ := _.Start"),
  ("html.loop", "if _ == nil { continue }; if _.Start < _ { continue }; if _.End > _.End { break }; _ += html.EscapeString(string(_.Orig[_:_.Start])); _ += _.before; _ += html.EscapeString(string(_.Orig[_.Start:_.End])); _ += _.after; _ = _.End"),
  ("html.tail", "_ += html.EscapeString(string(_.Orig[_:_.End])); return _"),
  ("ansi.init", "_ := \"\""),
  ("ansi.init", "_ := _.Start"),
  ("ansi.loop", "if _ == nil { continue }; if _.Start < _ { continue }; if _.End > _.End { break }; _ += string(_.Orig[_:_.Start]); _ += _.color; _ += string(_.Orig[_.Start:_.End]); _ += Reset; _ = _.End"),
  ("ansi.tail", "_ += string(_.Orig[_:_.End]); return _"),
  ("merge", if v.mergeMax
    then "var lastTl *TermLocation; range _ { if _ == nil && _ != nil { _ = _ } else if _ != nil && _ != nil { if _.Overlaps(_) { if _.End > _.End { _.End = _.End }; _[_] = nil } } }"
    else "var lastTl *TermLocation; range _ { if _ == nil && _ != nil { _ = _ } else if _ != nil && _ != nil { if _.Overlaps(_) { _.End = _.End; _[_] = nil } } }"),
  ("fragment.conds", "for _ < len(_) && _ < _.fragmentSize; for _ > 0 && _ < _.fragmentSize; if _ > len(_); if _ - _ >= _; if _.End > _; if _ >= _; if _ < _; for _ > 0; if len(_) == 0"),
  ("fragment.noLocation", if v.runeCut then "for _ < len(_) && _ < _.fragmentSize" else "if _ > len(_)")
]

theorem overlapsTL_eq (a b : TermLocation) : BlugeGen.C20.overlapsTL a b = a.overlaps b := by
  unfold BlugeGen.C20.overlapsTL TermLocation.overlaps
  by_cases h1 : b.start ≥ a.start ∧ b.start < a.stop <;>
    by_cases h2 : a.start ≥ b.start ∧ a.start < b.stop <;> simp [h1, h2] <;> omega

theorem overlapsFrag_eq (a b : Fragment) : BlugeGen.C20.overlapsFrag a b = a.overlaps b := by
  unfold BlugeGen.C20.overlapsFrag Fragment.overlaps
  by_cases h1 : b.start ≥ a.start ∧ b.start < a.stop <;>
    by_cases h2 : a.start ≥ b.start ∧ a.start < b.stop <;> simp [h1, h2] <;> omega

/-- the order the model sorts by is the translated `Less` of this tree -/
theorem lessTL_gen (a b : TermLocation) : BlugeGen.C20.lessTL a b = lessTL BlugeGen.C20.variant.tieBreak a b := by
  simp [BlugeGen.C20.lessTL, BlugeGen.C20.variant, lessTL]

/-- the model's score counts the distinct terms of the locations the scorer's test accepts -/
theorem scoreOf_inside (locs : List TermLocation) (f : Fragment) :
    scoreOf locs f = (dedup ((locs.filter fun l => BlugeGen.C20.inside l f).map (·.term))).length := by
  unfold scoreOf
  have : (fun l : TermLocation => decide (l.start ≥ f.start ∧ l.stop ≤ f.stop)) = (fun l => BlugeGen.C20.inside l f) := by
    funext l
    simp [BlugeGen.C20.inside]
  rw [this]

end Bluge.C20

import BlugeProofs.C20.NoPanic
/-! When the text decodes without a bail, a location that fits the fragment size yields a fragment that
contains a location (C20 helpers for `best_contains_match`). -/
namespace Bluge.C20
open Bluge.Highlight

/-! ### DecodeLastRune undoes DecodeRune -/

theorem runeStart_of_lead {b : Byte} (h : 0xC2 ≤ b.toNat) : runeStart b = true := by
  simp [runeStart, isCont]; omega

theorem runeStart_of_cont {b : Byte} (h : isCont b = true) : runeStart b = false := by
  simp [runeStart, h]

theorem not_ascii_of_cont {b : Byte} (h : isCont b = true) : ¬ b.toNat < 0x80 := by
  simp [isCont] at h; omega

theorem decodeLastRune_append {q : Bytes} {r n : Nat} (h : Decodes q r n) (hl : q.length = n) (pre : Bytes) :
    decodeLastRune (pre ++ q) = (r, n) := by
  cases h with
  | one b t hb =>
    have ht : t = [] := by cases t with | nil => rfl | cons _ _ => simp at hl
    subst ht
    have hrev : (pre ++ [b]).reverse = b :: pre.reverse := by simp
    rw [decodeLastRune_cons hrev, if_pos hb]
  | two b0 b1 t h1 h2 h3 =>
    have ht : t = [] := by cases t with | nil => rfl | cons _ _ => simp at hl
    subst ht
    have hc1 := secondOK_cont h3
    have hrev : (pre ++ [b0, b1]).reverse = b1 :: (b0 :: pre.reverse) := by simp
    have hw : lastRuneWidth (b0 :: pre.reverse) = 2 := by
      simp only [lastRuneWidth, runeStart_of_lead h1, if_true]
    have hd := (Decodes.two b0 b1 [] h1 h2 h3).eq
    rw [decodeLastRune_cons hrev, if_neg (not_ascii_of_cont hc1), hw]
    simp only [List.take_succ_cons, List.take_zero, List.reverse_cons, List.reverse_nil, List.nil_append, List.cons_append]
    rw [hd]; simp
  | three b0 b1 b2 t h1 h2 h3 h4 =>
    have ht : t = [] := by cases t with | nil => rfl | cons _ _ => simp at hl
    subst ht
    have hc1 := secondOK_cont h3
    have hrev : (pre ++ [b0, b1, b2]).reverse = b2 :: (b1 :: b0 :: pre.reverse) := by simp
    have hw : lastRuneWidth (b1 :: b0 :: pre.reverse) = 3 := by
      simp only [lastRuneWidth, runeStart_of_cont hc1, runeStart_of_lead (show 0xC2 ≤ b0.toNat by omega), if_true,
        Bool.false_eq_true, if_false]
    have hd := (Decodes.three b0 b1 b2 [] h1 h2 h3 h4).eq
    rw [decodeLastRune_cons hrev, if_neg (not_ascii_of_cont h4), hw]
    simp only [List.take_succ_cons, List.take_zero, List.reverse_cons, List.reverse_nil, List.nil_append, List.cons_append]
    rw [hd]; simp
  | four b0 b1 b2 b3 t h1 h2 h3 h4 h5 =>
    have ht : t = [] := by cases t with | nil => rfl | cons _ _ => simp at hl
    subst ht
    have hc1 := secondOK_cont h3
    have hrev : (pre ++ [b0, b1, b2, b3]).reverse = b3 :: (b2 :: b1 :: b0 :: pre.reverse) := by simp
    have hw : lastRuneWidth (b2 :: b1 :: b0 :: pre.reverse) = 4 := by
      simp only [lastRuneWidth, runeStart_of_cont hc1, runeStart_of_cont h4,
        runeStart_of_lead (show 0xC2 ≤ b0.toNat by omega), if_true, Bool.false_eq_true, if_false]
    have hd := (Decodes.four b0 b1 b2 b3 [] h1 h2 h3 h4 h5).eq
    rw [decodeLastRune_cons hrev, if_neg (not_ascii_of_cont h5), hw]
    simp only [List.take_succ_cons, List.take_zero, List.reverse_cons, List.reverse_nil, List.nil_append, List.cons_append]
    rw [hd]; simp

/-! ### the runes of a valid text -/

theorem runesOK_weaken {f : Nat} {p : Bytes} (h : runesOK true f p = true) : runesOK false f p = true := by
  induction f generalizing p with
  | zero => cases p <;> simp_all [runesOK]
  | succ f ih =>
    cases p with
    | nil => simp [runesOK]
    | cons b t =>
      simp only [runesOK, if_true, Bool.and_eq_true, decide_eq_true_eq] at h
      simp only [runesOK, Bool.false_eq_true, if_false, Bool.and_eq_true, Bool.not_eq_true', decide_eq_false_iff_not]
      exact ⟨fun hh => h.1 hh.1, ih h.2⟩

theorem clean_valid {orig : Bytes} (h : cleanUtf8 orig = true) : validUtf8 orig = true := runesOK_weaken h

/-- at every rune boundary inside a valid text the decode is a proper one (and not U+FFFD when `strict`) -/
theorem runesOK_at {strict : Bool} {f k : Nat} {p : Bytes} (hv : runesOK strict f p = true) (hf : p.length ≤ f)
    (i : Nat) (hi : i < p.length) (hm : (k + i) ∈ boundsFrom f k p) :
    ¬((decodeRune (p.drop i)).1 = runeError ∧ (decodeRune (p.drop i)).2 ≤ 1) ∧
    (strict = true → (decodeRune (p.drop i)).1 ≠ runeError) := by
  induction f generalizing k p i with
  | zero => cases p <;> simp at hf hi
  | succ f ih =>
    cases p with
    | nil => simp at hi
    | cons b t =>
      have hle := decodeRune_size_le (b :: t)
      have hpos := decodeRune_size_pos (b :: t) (by simp)
      simp only [runesOK, Bool.and_eq_true] at hv
      simp only [boundsFrom, List.mem_cons] at hm
      rcases hm with hm | hm
      · have : i = 0 := by omega
        subst this
        simp only [List.drop_zero]
        cases strict with
        | true =>
          simp only [if_true, decide_eq_true_eq] at hv
          exact ⟨fun hh => hv.1 hh.1, fun _ => hv.1⟩
        | false =>
          simp only [Bool.false_eq_true, if_false, Bool.not_eq_true', decide_eq_false_iff_not] at hv
          exact ⟨hv.1, fun hh => by cases hh⟩
      · have hr := (boundsFrom_mem_range hm).1
        have hlen : ((b :: t).drop (decodeRune (b :: t)).2).length ≤ f := by
          simp only [List.length_drop, List.length_cons] at *; omega
        have := ih (k := k + (decodeRune (b :: t)).2) hv.2 hlen (i - (decodeRune (b :: t)).2)
          (by simp only [List.length_drop]; omega)
          (by have e : k + (decodeRune (b :: t)).2 + (i - (decodeRune (b :: t)).2) = k + i := by omega
              rw [e]; exact hm)
        rw [List.drop_drop] at this
        have e : (decodeRune (b :: t)).2 + (i - (decodeRune (b :: t)).2) = i := by omega
        rw [e] at this; exact this

/-- the next boundary after `x` is `x + size` -/
theorem boundsFrom_next {f k : Nat} {p : Bytes} {x y : Nat} (hf : p.length ≤ f)
    (hx : x ∈ boundsFrom f k p) (hy : y ∈ boundsFrom f k p) (hxy : x < y) :
    x + (decodeRune (p.drop (x - k))).2 ≤ y := by
  induction f generalizing k p with
  | zero =>
    cases p with
    | nil => simp [boundsFrom] at hx hy; omega
    | cons b t => simp at hf
  | succ f ih =>
    cases p with
    | nil => simp [boundsFrom] at hx hy; omega
    | cons b t =>
      have hpos := decodeRune_size_pos (b :: t) (by simp)
      have hle := decodeRune_size_le (b :: t)
      simp only [boundsFrom, List.mem_cons] at hx hy
      have hlen : ((b :: t).drop (decodeRune (b :: t)).2).length ≤ f := by
        simp only [List.length_drop, List.length_cons] at *; omega
      rcases hx with hx | hx
      · subst hx
        rcases hy with hy | hy
        · omega
        · have := (boundsFrom_mem_range hy).1
          simp only [Nat.sub_self, List.drop_zero]; exact this
      · have hxr := (boundsFrom_mem_range hx).1
        rcases hy with hy | hy
        · omega
        · have := ih hlen hx hy
          rw [List.drop_drop] at this
          have e : (decodeRune (b :: t)).2 + (x - (k + (decodeRune (b :: t)).2)) = x - k := by omega
          rw [e] at this; exact this

/-- every boundary after the first has a predecessor one rune before it -/
theorem boundsFrom_pred {f k : Nat} {p : Bytes} {x : Nat} (hf : p.length ≤ f)
    (hx : x ∈ boundsFrom f k p) (hk : k < x) :
    ∃ j, j ∈ boundsFrom f k p ∧ j < x ∧ j + (decodeRune (p.drop (j - k))).2 = x := by
  induction f generalizing k p with
  | zero =>
    cases p with
    | nil => simp [boundsFrom] at hx; omega
    | cons b t => simp at hf
  | succ f ih =>
    cases p with
    | nil => simp [boundsFrom] at hx; omega
    | cons b t =>
      have hpos := decodeRune_size_pos (b :: t) (by simp)
      have hle := decodeRune_size_le (b :: t)
      simp only [boundsFrom, List.mem_cons] at hx
      have hlen : ((b :: t).drop (decodeRune (b :: t)).2).length ≤ f := by
        simp only [List.length_drop, List.length_cons] at *; omega
      rcases hx with hx | hx
      · omega
      · have hxr := (boundsFrom_mem_range hx).1
        by_cases he : x = k + (decodeRune (b :: t)).2
        · refine ⟨k, by simp [boundsFrom], by omega, ?_⟩
          simp only [Nat.sub_self, List.drop_zero]; omega
        · obtain ⟨j, hj, hjx, hjs⟩ := ih hlen hx (by omega)
          have hjr := (boundsFrom_mem_range hj).1
          refine ⟨j, by simp only [boundsFrom, List.mem_cons]; exact Or.inr hj, hjx, ?_⟩
          rw [List.drop_drop] at hjs
          have e : (decodeRune (b :: t)).2 + (j - (k + (decodeRune (b :: t)).2)) = j - k := by omega
          rw [e] at hjs; exact hjs

/-! ### consequences for a whole text -/

/-- the text never makes the fragmenter bail: it is valid and either the tree has the size guard or
the text has no U+FFFD -/
def NoBail (g : Bool) (orig : Bytes) : Prop := validUtf8 orig = true ∧ (g = true ∨ cleanUtf8 orig = true)

theorem NoBail.decodes {g : Bool} {orig : Bytes} (H : NoBail g orig) {k : Nat} (hk : k ∈ bounds orig)
    (hlt : k < orig.length) :
    Decodes (orig.drop k) (decodeRune (orig.drop k)).1 (decodeRune (orig.drop k)).2 ∧
    bails g (decodeRune (orig.drop k)) = false := by
  have hv := runesOK_at (k := 0) (p := orig) (f := orig.length) H.1 (Nat.le_refl _) k hlt (by simpa [bounds] using hk)
  have hne : orig.drop k ≠ [] := by
    intro e
    have := congrArg List.length e
    simp only [List.length_drop, List.length_nil] at this; omega
  refine ⟨decodeRune_decodes _ hne hv.1, ?_⟩
  rcases H.2 with hg | hc
  · subst hg
    cases hb : bails true (decodeRune (orig.drop k)) with
    | false => rfl
    | true =>
      simp only [bails, Bool.not_true, Bool.false_or, Bool.and_eq_true, beq_iff_eq, decide_eq_true_eq] at hb
      exact absurd hb hv.1
  · have hs := runesOK_at (strict := true) (k := 0) (p := orig) (f := orig.length) hc (Nat.le_refl _) k hlt
      (by simpa [bounds] using hk)
    have := hs.2 rfl
    simp [bails, this]

/-- DecodeLastRune at a boundary returns the rune that ends there -/
theorem dlr_at_boundary {orig : Bytes} (hv : validUtf8 orig = true) {s : Nat} (hs : s ∈ bounds orig) (h0 : 0 < s) :
    ∃ j, j ∈ bounds orig ∧ j < s ∧ j + (decodeRune (orig.drop j)).2 = s ∧
      decodeLastRune (orig.take s) = decodeRune (orig.drop j) := by
  obtain ⟨j, hj, hjs, hjn⟩ := boundsFrom_pred (k := 0) (p := orig) (f := orig.length) (Nat.le_refl _) hs h0
  simp only [Nat.sub_zero] at hjn
  have hsl := bounds_le hs
  have hjl : j < orig.length := by omega
  have hd := runesOK_at (k := 0) (p := orig) (f := orig.length) hv (Nat.le_refl _) j hjl (by simpa [bounds] using hj)
  have hne : orig.drop j ≠ [] := by
    intro e
    have := congrArg List.length e
    simp only [List.length_drop, List.length_nil] at this; omega
  have hdec := decodeRune_decodes _ hne hd.1
  refine ⟨j, hj, hjs, hjn, ?_⟩
  have htake : orig.take s = orig.take j ++ (orig.drop j).take (decodeRune (orig.drop j)).2 := by
    rw [← hjn, List.take_add]
  rw [htake, decodeLastRune_append (hdec.take _ (Nat.le_refl _))
    (by simp only [List.length_take, List.length_drop]; omega)]

/-! ### counting runes between boundaries -/

theorem runeCountAux_fuel : ∀ (f1 f2 : Nat) (p : Bytes), p.length ≤ f1 → p.length ≤ f2 →
    runeCountAux f1 p = runeCountAux f2 p := by
  intro f1
  induction f1 with
  | zero =>
    intro f2 p h1 _
    have : p = [] := List.eq_nil_of_length_eq_zero (by omega)
    subst this
    cases f2 <;> rfl
  | succ f1 ih =>
    intro f2 p h1 h2
    cases p with
    | nil => cases f2 <;> rfl
    | cons b t =>
      cases f2 with
      | zero => simp at h2
      | succ f2 =>
        have hpos := decodeRune_size_pos (b :: t) (by simp)
        simp only [runeCountAux]
        congr 1
        apply ih <;> (simp only [List.length_drop, List.length_cons] at *; omega)

/-- number of runes in `orig[m:s]` -/
def rc (orig : Bytes) (m s : Nat) : Nat := runeCount ((orig.drop m).take (s - m))

theorem rc_self (orig : Bytes) (m : Nat) : rc orig m m = 0 := by
  simp [rc, runeCount, runeCountAux]

theorem rc_step {orig : Bytes} (hv : validUtf8 orig = true) {m s : Nat} (hm : m ∈ bounds orig) (hs : s ∈ bounds orig)
    (hlt : m < s) :
    m + (decodeRune (orig.drop m)).2 ≤ s ∧ rc orig m s = 1 + rc orig (m + (decodeRune (orig.drop m)).2) s := by
  have hsl := bounds_le hs
  have hnext := boundsFrom_next (k := 0) (p := orig) (f := orig.length) (Nat.le_refl _) hm hs hlt
  simp only [Nat.sub_zero] at hnext
  refine ⟨hnext, ?_⟩
  have hd := runesOK_at (k := 0) (p := orig) (f := orig.length) hv (Nat.le_refl _) m (by omega) (by simpa [bounds] using hm)
  have hne : orig.drop m ≠ [] := by
    intro e
    have := congrArg List.length e
    simp only [List.length_drop, List.length_nil] at this; omega
  have hdec := (decodeRune_decodes _ hne hd.1).take (s - m) (by omega)
  have heq := hdec.eq
  unfold rc runeCount
  cases hp : (orig.drop m).take (s - m) with
  | nil =>
    have := congrArg List.length hp
    simp only [List.length_take, List.length_drop, List.length_nil] at this; omega
  | cons b t =>
    rw [hp] at heq
    have hlen : (b :: t).length = s - m := by
      rw [← hp]; simp only [List.length_take, List.length_drop]; omega
    simp only [List.length_cons, runeCountAux]
    congr 1
    rw [heq]
    simp only []
    have hdrop : (b :: t).drop (decodeRune (orig.drop m)).2 =
        (orig.drop (m + (decodeRune (orig.drop m)).2)).take (s - (m + (decodeRune (orig.drop m)).2)) := by
      rw [← hp, List.drop_take, List.drop_drop]
      congr 1; omega
    rw [hdrop]
    have hpos := decodeRune_size_pos (orig.drop m) hne
    apply runeCountAux_fuel
    · simp only [List.length_take, List.length_drop, List.length_cons] at hlen ⊢; omega
    · exact Nat.le_refl _

theorem rc_pos {orig : Bytes} (hv : validUtf8 orig = true) {m s : Nat} (hm : m ∈ bounds orig) (hs : s ∈ bounds orig)
    (hlt : m < s) : 1 ≤ rc orig m s := by
  have := (rc_step hv hm hs hlt).2; omega

theorem bounds_step {orig : Bytes} {m : Nat} (hm : m ∈ bounds orig) (hlt : m < orig.length) :
    m + (decodeRune (orig.drop m)).2 ∈ bounds orig := by
  have := boundsFrom_step (k := 0) (p := orig) (f := orig.length) (Nat.le_refl _) hm (by omega)
  simpa [bounds] using this

/-- rune counts add up over a boundary in the middle -/
theorem rc_add {orig : Bytes} (hv : validUtf8 orig = true) {s : Nat} (hs : s ∈ bounds orig) :
    ∀ (d m j : Nat), j - m ≤ d → m ∈ bounds orig → j ∈ bounds orig → m ≤ j → j ≤ s →
      rc orig m s = rc orig m j + rc orig j s := by
  intro d
  induction d with
  | zero =>
    intro m j hd _ _ hmj _
    have : m = j := by omega
    subst this
    rw [rc_self]; omega
  | succ d ih =>
    intro m j hd hm hj hmj hjs
    by_cases he : m = j
    · subst he; rw [rc_self]; omega
    · have hlt : m < j := by omega
      have hsl := bounds_le hs
      have h1 := rc_step hv hm hs (by omega)
      have h2 := rc_step hv hm hj hlt
      have hpos := decodeRune_size_pos (orig.drop m) (by
        intro e
        have := congrArg List.length e
        simp only [List.length_drop, List.length_nil] at this; omega)
      have := ih (m + (decodeRune (orig.drop m)).2) j (by omega) (bounds_step hm (by omega)) hj h2.1 hjs
      omega

/-- one rune back from a boundary: the count to the left drops by one -/
theorem rc_back {orig : Bytes} (hv : validUtf8 orig = true) {m j s : Nat} (hm : m ∈ bounds orig) (hj : j ∈ bounds orig)
    (hs : s ∈ bounds orig) (hjs : j + (decodeRune (orig.drop j)).2 = s) (hjlt : j < s) (hms : m < s) :
    m ≤ j ∧ rc orig m s = rc orig m j + 1 := by
  have hmj : m ≤ j := by
    apply Decidable.byContradiction
    intro hcon
    have := boundsFrom_next (k := 0) (p := orig) (f := orig.length) (Nat.le_refl _) hj hm (by omega)
    simp only [Nat.sub_zero] at this
    omega
  refine ⟨hmj, ?_⟩
  have hadd := rc_add hv hs (j - m) m j (Nat.le_refl _) hm hj hmj (by omega)
  have hone := (rc_step hv hj hs hjlt).2
  rw [hjs, rc_self] at hone
  omega

/-! ### the loops never bail on such a text -/

theorem Bd_nat {orig : Bytes} {j : Nat} (hj : j ∈ bounds orig) : Bd orig (j : Int) :=
  ⟨by omega, by have := bounds_le hj; omega, by simpa using hj⟩

theorem fwd_done {g : Bool} {orig : Bytes} (H : NoBail g orig) (fsize : Int) :
    ∀ (fuel : Nat) (e used : Int), Bd orig e →
      ∃ e' u', fwd g orig fsize fuel e used = .done (e', u') ∧ Bd orig e' ∧ e ≤ e' := by
  intro fuel
  induction fuel with
  | zero => intro e used hb; exact ⟨e, used, rfl, hb, Int.le_refl _⟩
  | succ f ih =>
    intro e used hb
    simp only [fwd]
    by_cases hc : e < orig.length ∧ used < fsize
    · rw [if_pos hc, if_neg (by have := hb.1; omega)]
      have hd := H.decodes hb.2.2 (by have := hb.1; omega)
      simp only [hd.2, Bool.false_eq_true, if_false]
      obtain ⟨e', u', h1, h2, h3⟩ := ih (e + ((decodeRune (orig.drop e.toNat)).2 : Int)) (used + 1) (Bd_fwd hb hc.1)
      exact ⟨e', u', h1, h2, by omega⟩
    · rw [if_neg hc]; exact ⟨e, used, rfl, hb, Int.le_refl _⟩

theorem fwd_reach {g : Bool} {orig : Bytes} (H : NoBail g orig) (fsize : Int) {stop : Nat} (hstop : stop ∈ bounds orig) :
    ∀ (fuel : Nat) (e used : Int), Bd orig e → e ≤ stop → (orig.length : Int) - e < fuel →
      used + (rc orig e.toNat stop : Int) ≤ fsize →
      ∃ e' u', fwd g orig fsize fuel e used = .done (e', u') ∧ Bd orig e' ∧ (stop : Int) ≤ e' := by
  intro fuel
  induction fuel with
  | zero => intro e used hb _ hfu _; have := hb.2.1; omega
  | succ f ih =>
    intro e used hb hes hfu hrc
    by_cases heq : e = stop
    · obtain ⟨e', u', h1, h2, h3⟩ := fwd_done H fsize (f + 1) e used hb
      exact ⟨e', u', h1, h2, by omega⟩
    · have hlt : e.toNat < stop := by have := hb.1; omega
      have hsl := bounds_le hstop
      have hstep := rc_step H.1 hb.2.2 hstop hlt
      have hc : e < orig.length ∧ used < fsize := ⟨by have := hb.1; omega, by omega⟩
      simp only [fwd]
      rw [if_pos hc, if_neg (by have := hb.1; omega)]
      have hd := H.decodes hb.2.2 (by have := hb.1; omega)
      simp only [hd.2, Bool.false_eq_true, if_false]
      have e1 : (e + ((decodeRune (orig.drop e.toNat)).2 : Int)).toNat = e.toNat + (decodeRune (orig.drop e.toNat)).2 := by
        have := hb.1; omega
      have hpos := decodeRune_size_pos (orig.drop e.toNat) (by
        intro ee
        have := congrArg List.length ee
        simp only [List.length_drop, List.length_nil] at this; omega)
      exact ih (e + ((decodeRune (orig.drop e.toNat)).2 : Int)) (used + 1) (Bd_fwd hb hc.1)
        (by have := hb.1; have := hstep.1; omega) (by omega) (by rw [e1]; have := hstep.2; omega)

/-- the decode `back` and `shiftLeft` make at a boundary `s > 0` -/
theorem dlr_Bd {g : Bool} {orig : Bytes} (H : NoBail g orig) {s : Int} (hb : Bd orig s) (h0 : 0 < s) :
    ∃ j : Nat, j ∈ bounds orig ∧ j < s.toNat ∧ j + (decodeRune (orig.drop j)).2 = s.toNat ∧
      s - ((decodeLastRune (orig.take s.toNat)).2 : Int) = j ∧
      bails g (decodeLastRune (orig.take s.toNat)) = false := by
  obtain ⟨j, hj, hjs, hjn, hdl⟩ := dlr_at_boundary H.1 hb.2.2 (by omega)
  have hsl := bounds_le hb.2.2
  refine ⟨j, hj, hjs, hjn, ?_, ?_⟩
  · rw [hdl]; have := hb.1; omega
  · rw [hdl]; exact (H.decodes hj (by omega)).2

theorem back_done {g : Bool} {orig : Bytes} (H : NoBail g orig) (fsize mb : Int) :
    ∀ (fuel : Nat) (s used : Int), Bd orig s →
      ∃ s' u', back g orig fsize mb fuel s used = .done (s', u') ∧ Bd orig s' ∧ s' ≤ s := by
  intro fuel
  induction fuel with
  | zero => intro s used hb; exact ⟨s, used, rfl, hb, Int.le_refl _⟩
  | succ f ih =>
    intro s used hb
    simp only [back]
    by_cases hc : s > 0 ∧ used < fsize
    · rw [if_pos hc, if_neg (by have := hb.2.1; omega)]
      obtain ⟨j, hj, hjs, hjn, hsj, hnb⟩ := dlr_Bd H hb hc.1
      simp only [hnb, Bool.false_eq_true, if_false]
      by_cases hm : s - ((decodeLastRune (orig.take s.toNat)).2 : Int) ≥ mb
      · rw [if_pos hm, hsj]
        obtain ⟨s', u', h1, h2, h3⟩ := ih (j : Int) (used + 1) (Bd_nat hj)
        exact ⟨s', u', h1, h2, by have := hb.1; omega⟩
      · rw [if_neg hm]; exact ⟨s, used, rfl, hb, Int.le_refl _⟩
    · rw [if_neg hc]; exact ⟨s, used, rfl, hb, Int.le_refl _⟩

theorem shift_done {g : Bool} {orig : Bytes} (H : NoBail g orig) :
    ∀ (k : Nat) (s e : Int) (mb me : Nat), Bd orig s → Bd orig e → mb ∈ bounds orig → me ∈ bounds orig →
      (mb : Int) ≤ s → (me : Int) ≤ e → k ≤ rc orig mb s.toNat → k ≤ rc orig me e.toNat →
      ∃ s' e', shiftLeft g orig k s e = .done (s', e') ∧ (mb : Int) ≤ s' ∧ s' ≤ s ∧ (me : Int) ≤ e' := by
  intro k
  induction k with
  | zero => intro s e mb me _ _ _ _ h1 h2 _ _; exact ⟨s, e, rfl, h1, Int.le_refl _, h2⟩
  | succ k ih =>
    intro s e mb me hs he hmb hme h1 h2 hk1 hk2
    have hmbs : mb < s.toNat := by
      apply Decidable.byContradiction
      intro hcon
      have : mb = s.toNat := by have := hs.1; omega
      rw [this, rc_self] at hk1; omega
    have hmee : me < e.toNat := by
      apply Decidable.byContradiction
      intro hcon
      have : me = e.toNat := by have := he.1; omega
      rw [this, rc_self] at hk2; omega
    obtain ⟨j1, hj1, hjs1, hjn1, hsj1, hnb1⟩ := dlr_Bd H hs (by omega)
    obtain ⟨j2, hj2, hjs2, hjn2, hsj2, hnb2⟩ := dlr_Bd H he (by omega)
    have r1 := rc_back H.1 hmb hj1 hs.2.2 hjn1 hjs1 hmbs
    have r2 := rc_back H.1 hme hj2 he.2.2 hjn2 hjs2 hmee
    simp only [shiftLeft]
    rw [if_neg (by have := hs.1; have := hs.2.1; omega)]
    simp only [hnb1, Bool.false_eq_true, if_false]
    rw [if_neg (by have := he.1; have := he.2.1; omega)]
    simp only [hnb2, Bool.false_eq_true, if_false]
    rw [hsj1, hsj2]
    obtain ⟨s', e', h3, h4, h5, h6⟩ := ih (j1 : Int) (j2 : Int) mb me (Bd_nat hj1) (Bd_nat hj2) hmb hme
      (by have := r1.1; omega) (by have := r2.1; omega)
      (by have : ((j1 : Int)).toNat = j1 := by omega
          rw [this]; have := r1.2; omega)
      (by have : ((j2 : Int)).toNat = j2 := by omega
          rw [this]; have := r2.2; omega)
    exact ⟨s', e', h3, h4, by have := hs.1; omega, h6⟩

/-! ### a fitting location yields a fragment that contains a location -/

theorem locOK_iff (orig : Bytes) (l : TermLocation) :
    locOK orig l = true ↔ (0 ≤ l.start ∧ l.start ≤ l.stop ∧ l.stop ≤ orig.length ∧ Bd orig l.start ∧ Bd orig l.stop) := by
  simp only [locOK, Bool.and_eq_true, decide_eq_true_eq]
  constructor
  · rintro ⟨⟨⟨⟨h0, h1⟩, h2⟩, h3⟩, h4⟩
    exact ⟨h0, h1, h2, Bd_of_isBoundary h3, Bd_of_isBoundary h4⟩
  · rintro ⟨h0, h1, h2, h3, h4⟩
    exact ⟨⟨⟨⟨h0, h1⟩, h2⟩, h3.isBoundary⟩, h4.isBoundary⟩

theorem sorted_tail {a : TermLocation} {rest : List TermLocation} (h : sortedByStart (a :: rest) = true) :
    sortedByStart rest = true := by
  cases rest with
  | nil => rfl
  | cons b r => simp only [sortedByStart, Bool.and_eq_true] at h; exact h.2

theorem sorted_head_le {a : TermLocation} {rest : List TermLocation} (h : sortedByStart (a :: rest) = true) :
    ∀ x ∈ rest, a.start ≤ x.start := by
  induction rest generalizing a with
  | nil => simp
  | cons b r ih =>
    simp only [sortedByStart, Bool.and_eq_true, decide_eq_true_eq] at h
    intro x hx
    simp only [List.mem_cons] at hx
    rcases hx with hx | hx
    · subst hx; exact h.1
    · have := ih h.2 x hx; omega

/-- `minend` is the End of one of the locations from the current one on that end inside the window -/
theorem minEnd_witness (e : Int) : ∀ (tail : List TermLocation) (cur : TermLocation), cur.stop ≤ e →
    ∃ l', (l' = cur ∨ l' ∈ tail) ∧ minEnd e tail cur.stop = l'.stop ∧ l'.stop ≤ e := by
  intro tail
  induction tail with
  | nil => intro cur hc; exact ⟨cur, Or.inl rfl, rfl, hc⟩
  | cons tl rest ih =>
    intro cur hc
    simp only [minEnd]
    split
    · exact ⟨cur, Or.inl rfl, rfl, hc⟩
    · rename_i hle
      obtain ⟨l', hl', h1, h2⟩ := ih tl (by omega)
      refine ⟨l', ?_, h1, h2⟩
      rcases hl' with h | h
      · exact Or.inr (by simp [h])
      · exact Or.inr (by simp [h])

theorem slice_rc {orig : Bytes} {a b : Int} (h0 : 0 ≤ a) (h1 : a ≤ b) (h2 : b ≤ orig.length) :
    ∃ x, slice orig a b = some x ∧ runeCount x = rc orig a.toNat b.toNat := by
  refine ⟨(orig.drop a.toNat).take (b.toNat - a.toNat), ?_, rfl⟩
  unfold slice; rw [if_pos ⟨h0, h1, h2⟩]

theorem fragOne_good {g : Bool} {orig : Bytes} (H : NoBail g orig) (fsize mb : Int) (hmb : Bd orig mb)
    (l : TermLocation) (tail : List TermLocation) (hl : locOK orig l = true) (htail : ∀ x ∈ tail, locOK orig x = true)
    (hsorted : sortedByStart (l :: tail) = true) (hfit : fits orig fsize l = true) :
    ∃ s e, fragOne g orig fsize mb l (l :: tail) = .frag s e ∧ ∃ l' ∈ l :: tail, s ≤ l'.start ∧ l'.stop ≤ e := by
  obtain ⟨l0, l1, l2, lb, le⟩ := (locOK_iff orig l).mp hl
  -- the location has at most `fsize` runes
  have hrc : (rc orig l.start.toNat l.stop.toNat : Int) ≤ fsize := by
    obtain ⟨x, hx, hxr⟩ := slice_rc (orig := orig) l0 l1 l2
    simp only [fits, hx, decide_eq_true_eq] at hfit
    omega
  -- forward loop reaches the end of the location
  obtain ⟨e0, u0, hfw, hbe0, hse0⟩ := fwd_reach H fsize le.2.2 (orig.length + 1) l.start 0 lb
    (by omega) (by have := l0; omega) (by omega)
  have hse0' : l.stop ≤ e0 := by omega
  -- backward loop
  obtain ⟨s0, us, hbk, hbs0, hs0⟩ := back_done H fsize mb (orig.length + 1) l.start u0 lb
  -- minend
  obtain ⟨l', hl'mem, hme, hme2⟩ := minEnd_witness e0 tail l hse0'
  have hl'in : l' ∈ l :: tail := by
    rcases hl'mem with h | h
    · simp [h]
    · simp [h]
  have hl'ok : locOK orig l' = true := by
    rcases hl'mem with h | h
    · rw [h]; exact hl
    · exact htail l' h
  obtain ⟨m0, m1, m2, mbd, med⟩ := (locOK_iff orig l').mp hl'ok
  have hl'start : l.start ≤ l'.start := by
    rcases hl'mem with h | h
    · rw [h]; exact Int.le_refl _
    · exact sorted_head_le hsorted l' h
  have hminend : minEnd e0 (l :: tail) e0 = l'.stop := by
    simp only [minEnd, if_neg (by omega : ¬ l.stop > e0)]
    exact hme
  obtain ⟨after, haft, haftrc⟩ := slice_rc (orig := orig) (a := l'.stop) (b := e0) (by omega) hme2 hbe0.2.1
  unfold fragOne
  rw [hfw]; simp only []
  rw [hbk]; simp only []
  rw [hminend, haft]; simp only []
  by_cases hge : s0 ≥ mb
  · obtain ⟨bef, hbef, hbefrc⟩ := slice_rc (orig := orig) (a := mb) (b := s0) hmb.1 hge hbs0.2.1
    rw [if_pos hge, hbef]; simp only [Option.map_some]
    obtain ⟨s', e', hsh, h4, h5, h6⟩ := shift_done H
      ((if runeCount bef < runeCount after then runeCount bef else runeCount after) / 2) s0 e0 mb.toNat l'.stop.toNat
      hbs0 hbe0 hmb.2.2 med.2.2 (by have := hmb.1; omega) (by omega)
      (by rw [← hbefrc]; split <;> omega) (by rw [← haftrc]; split <;> omega)
    rw [hsh]
    exact ⟨s', e', rfl, l', hl'in, by omega, by omega⟩
  · rw [if_neg hge]; simp only []
    have hk : (if 0 < runeCount after then 0 else runeCount after) / 2 = 0 := by split <;> omega
    rw [hk]
    simp only [shiftLeft]
    exact ⟨s0, e0, rfl, l', hl'in, by omega, by omega⟩

theorem fragmentLoop_good {g : Bool} {orig : Bytes} (H : NoBail g orig) (fsize : Int) (hf : 1 ≤ fsize)
    (l : TermLocation) (hfit : fits orig fsize l = true) :
    ∀ (ot : List TermLocation) (mb : Int), Bd orig mb → l ∈ ot → (∀ x ∈ ot, locOK orig x = true) →
      sortedByStart ot = true →
      ∃ frs, fragmentLoop g orig fsize ot mb = some frs ∧
        ∃ f ∈ frs, ∃ l' ∈ ot, f.start ≤ l'.start ∧ l'.stop ≤ f.stop := by
  intro ot
  induction ot with
  | nil => intro mb _ hl; simp at hl
  | cons tl rest ih =>
    intro mb hmb hl hall hsorted
    have husable : ∀ x ∈ tl :: rest, 0 ≤ x.start ∧ x.start ≤ x.stop := by
      intro x hx
      have := (locOK_iff orig x).mp (hall x hx)
      exact ⟨this.1, this.2.1⟩
    have htlok := (locOK_iff orig tl).mp (hall tl (by simp))
    simp only [fragmentLoop]
    by_cases he : l = tl
    · subst he
      obtain ⟨s, e, hfo, l', hl', h1, h2⟩ := fragOne_good H fsize mb hmb l rest (hall l (by simp))
        (fun x hx => hall x (by simp [hx])) hsorted hfit
      rw [hfo]
      obtain ⟨frs, hfrs, _⟩ := fragmentLoop_np g orig fsize hf rest l.stop (by omega)
        (fun x hx => husable x (by simp [hx]))
      rw [hfrs]
      exact ⟨_, rfl, ⟨s, e, 0⟩, by simp, l', hl', h1, h2⟩
    · have hlr : l ∈ rest := by
        simp only [List.mem_cons] at hl
        rcases hl with h | h
        · exact absurd h he
        · exact h
      have O := fragOne_np g orig fsize mb tl (tl :: rest) hf hmb.1 htlok.1
        (fun x hx => by have := husable x hx; omega) _ rfl
      split
      · rename_i hp; exact absurd hp O.1
      · obtain ⟨frs, hfrs, f, hfm, l', hl', h1, h2⟩ := ih mb hmb hlr (fun x hx => hall x (by simp [hx])) (sorted_tail hsorted)
        exact ⟨frs, hfrs, f, hfm, l', by simp [hl'], h1, h2⟩
      · rename_i s e hfo
        obtain ⟨frs, hfrs, f, hfm, l', hl', h1, h2⟩ := ih tl.stop htlok.2.2.2.2 hlr
          (fun x hx => hall x (by simp [hx])) (sorted_tail hsorted)
        rw [hfrs]
        exact ⟨_, rfl, f, by simp [hfm], l', by simp [hl'], h1, h2⟩

theorem dedup_ne_nil : ∀ (l : List String), l ≠ [] → dedup l ≠ [] := by
  intro l
  induction l with
  | nil => intro h; exact absurd rfl h
  | cons x xs ih =>
    intro _
    simp only [dedup]
    split
    · rename_i hc
      apply ih
      intro e; subst e; simp at hc
    · simp

theorem scoreOf_pos (locs : List TermLocation) (f : Fragment) (l' : TermLocation) (hl : l' ∈ locs)
    (h1 : f.start ≤ l'.start) (h2 : l'.stop ≤ f.stop) : 1 ≤ scoreOf locs f := by
  unfold scoreOf
  have hm : l' ∈ locs.filter (fun l => decide (l.start ≥ f.start ∧ l.stop ≤ f.stop)) := by
    rw [List.mem_filter]
    exact ⟨hl, by simp; omega⟩
  have hne : ((locs.filter (fun l => decide (l.start ≥ f.start ∧ l.stop ≤ f.stop))).map (·.term)) ≠ [] := by
    intro e
    have := List.map_eq_nil_iff.mp e
    rw [this] at hm; simp at hm
  have := dedup_ne_nil _ hne
  exact List.length_pos_iff.mpr this

theorem locsOK_valid {orig : Bytes} {ot : List TermLocation} (h : locsOK orig ot = true) : validUtf8 orig = true := by
  simp only [locsOK, Bool.and_eq_true] at h
  exact h.1.1

/-- the top fragment contains a match when the text never makes the fragmenter bail; `ot` = the ordered slice,
any arrangement of (some of) the map's locations that is sorted by Start -/
theorem best_top_score (v : Variant) (orig : Bytes) (fsize num : Int) (locs ot : List TermLocation)
    (hsub : ∀ x ∈ ot, x ∈ locs)
    (H : NoBail v.sizeGuard orig) (hok : locsOK orig ot = true) (hf : 1 ≤ fsize) (hnum : 1 ≤ num)
    (hfit : ∃ l ∈ ot, fits orig fsize l = true) :
    ∃ top rest, bestSelectionOrd v orig fsize num locs ot = some (top :: rest) ∧ 1 ≤ top.score := by
  obtain ⟨l, hlo, hlfit⟩ := hfit
  simp only [locsOK, Bool.and_eq_true, List.all_eq_true] at hok
  obtain ⟨⟨_, hsorted⟩, hall⟩ := hok
  have hfil : (if v.locGuard = true then ot.filter usable else ot) = ot := by
    split
    · apply List.filter_eq_self.mpr
      intro x hx
      have := (locOK_iff orig x).mp (hall x hx)
      exact (usable_iff x).mpr ⟨this.1, this.2.1⟩
    · rfl
  obtain ⟨frs, hfrs, f, hfm, l', hl', h1, h2⟩ := fragmentLoop_good H fsize hf l hlfit ot 0
    (Bd_zero orig) hlo hall hsorted
  have hfrag : fragment v orig fsize ot = some frs := by
    unfold fragment
    rw [hfil]
    cases ot with
    | nil => simp at hlo
    | cons a r => exact hfrs
  unfold bestSelectionOrd
  rw [hfrag]
  simp only [Option.map_some]
  have hne : (frs.map fun f => ({ f with score := scoreOf locs f } : Fragment)) ≠ [] := by
    intro e
    have := List.map_eq_nil_iff.mp e
    rw [this] at hfm; simp at hfm
  obtain ⟨top, rest, hsel, _, hmax⟩ := selectBest_head num hnum _ hne
  refine ⟨top, rest, by rw [hsel], ?_⟩
  have hin : ({ f with score := scoreOf locs f } : Fragment) ∈ frs.map fun f => ({ f with score := scoreOf locs f } : Fragment) :=
    List.mem_map.mpr ⟨f, hfm, rfl⟩
  have := hmax _ hin
  have hs := scoreOf_pos locs f l' (hsub l' hl') h1 h2
  simp only [] at this
  omega

end Bluge.C20

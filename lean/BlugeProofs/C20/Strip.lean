import Bluge.Highlight
/-! Stripping the markup undoes the formatters (C20 helpers). -/
namespace Bluge.C20
open Bluge.Highlight

/-! ### slices -/

theorem slice_some {orig : Bytes} {a b : Int} {s : Bytes} (h : slice orig a b = some s) :
    0 ≤ a ∧ a ≤ b ∧ b ≤ orig.length ∧ s = (orig.drop a.toNat).take (b.toNat - a.toNat) := by
  unfold slice at h
  split at h
  · rename_i hc; simp only [Option.some.injEq] at h; exact ⟨hc.1, hc.2.1, hc.2.2, h.symm⟩
  · simp at h

theorem slice_isSome {orig : Bytes} {a b : Int} (h0 : 0 ≤ a) (h1 : a ≤ b) (h2 : b ≤ orig.length) :
    ∃ s, slice orig a b = some s := by
  unfold slice; rw [if_pos ⟨h0, h1, h2⟩]; exact ⟨_, rfl⟩

theorem slice_append {orig : Bytes} {a b c : Int} {x y : Bytes}
    (h1 : slice orig a b = some x) (h2 : slice orig b c = some y) : slice orig a c = some (x ++ y) := by
  have ⟨ha, hab, hb, hx⟩ := slice_some h1
  have ⟨_, hbc, hc, hy⟩ := slice_some h2
  unfold slice
  rw [if_pos ⟨ha, by omega, hc⟩]
  congr 1
  subst hx hy
  have e1 : b.toNat = a.toNat + (b.toNat - a.toNat) := by omega
  have e2 : c.toNat - a.toNat = (b.toNat - a.toNat) + (c.toNat - b.toNat) := by omega
  rw [e2, List.take_add, List.drop_drop, ← e1]

theorem slice_mem {orig : Bytes} {a b : Int} {s : Bytes} (h : slice orig a b = some s) :
    ∀ x ∈ s, x ∈ orig := by
  have ⟨_, _, _, hs⟩ := slice_some h
  subst hs
  intro x hx
  exact List.mem_of_mem_drop (List.mem_of_mem_take hx)

theorem slice_length {orig : Bytes} {a b : Int} {s : Bytes} (h : slice orig a b = some s) :
    (s.length : Int) = b - a := by
  have ⟨_, _, _, hs⟩ := slice_some h
  subst hs
  simp only [List.length_take, List.length_drop]
  omega

/-! ### what "strip undoes the formatter" needs of a formatter -/

structure StripOK (fm : Fmt) (strip : Bytes → Bytes) (Q : Byte → Prop) : Prop where
  esc : ∀ a rest, (∀ x ∈ a, Q x) → strip (fm.esc a ++ rest) = a ++ strip rest
  before : ∀ rest, strip (fm.before ++ rest) = strip rest
  after : ∀ rest, strip (fm.after ++ rest) = strip rest
  nil : strip [] = []

/-! ### HTML -/

theorem stripHtmlAux_skip (n : Nat) (pre rest : Bytes) (h : pre.length = n) :
    stripHtmlAux n (pre ++ rest) = stripHtmlAux 0 rest := by
  induction n generalizing pre with
  | zero => cases pre with
    | nil => rfl
    | cons _ _ => simp at h
  | succ n ih => cases pre with
    | nil => simp at h
    | cons b t =>
      simp only [List.cons_append, stripHtmlAux]
      exact ih t (by simpa using h)

theorem strip_amp (rest : Bytes) : stripHtmlAux 0 (amp ++ rest) = 0x26 :: stripHtmlAux 0 rest := by
  simp [stripHtmlAux, amp, markOpen, markClose, List.isPrefixOf]
theorem strip_apos (rest : Bytes) : stripHtmlAux 0 (apos ++ rest) = 0x27 :: stripHtmlAux 0 rest := by
  simp [stripHtmlAux, amp, apos, markOpen, markClose, List.isPrefixOf]
theorem strip_lt (rest : Bytes) : stripHtmlAux 0 (ltE ++ rest) = 0x3C :: stripHtmlAux 0 rest := by
  simp [stripHtmlAux, amp, apos, ltE, markOpen, markClose, List.isPrefixOf]
theorem strip_gt (rest : Bytes) : stripHtmlAux 0 (gtE ++ rest) = 0x3E :: stripHtmlAux 0 rest := by
  simp [stripHtmlAux, amp, apos, ltE, gtE, markOpen, markClose, List.isPrefixOf]
theorem strip_quot (rest : Bytes) : stripHtmlAux 0 (quot ++ rest) = 0x22 :: stripHtmlAux 0 rest := by
  simp [stripHtmlAux, amp, apos, ltE, gtE, quot, markOpen, markClose, List.isPrefixOf]
theorem stripHtml_open (rest : Bytes) : stripHtmlAux 0 (markOpen ++ rest) = stripHtmlAux 0 rest := by
  simp [stripHtmlAux, markOpen, List.isPrefixOf]
theorem stripHtml_close (rest : Bytes) : stripHtmlAux 0 (markClose ++ rest) = stripHtmlAux 0 rest := by
  simp [stripHtmlAux, markOpen, markClose, List.isPrefixOf]
theorem strip_other (b : Byte) (rest : Bytes) (h1 : b ≠ 0x26) (h2 : b ≠ 0x3C) :
    stripHtmlAux 0 (b :: rest) = b :: stripHtmlAux 0 rest := by
  have e1 : ¬ (38#8 = b) := fun h => h1 h.symm
  have e2 : ¬ (60#8 = b) := fun h => h2 h.symm
  simp [stripHtmlAux, amp, apos, ltE, gtE, quot, markOpen, markClose, List.isPrefixOf, e1, e2]

theorem stripHtml_escByte (b : Byte) (rest : Bytes) :
    stripHtmlAux 0 (escByte b ++ rest) = b :: stripHtmlAux 0 rest := by
  unfold escByte
  split
  · rename_i h; subst h; exact strip_amp rest
  · split
    · rename_i h; subst h; exact strip_apos rest
    · split
      · rename_i h; subst h; exact strip_lt rest
      · split
        · rename_i h; subst h; exact strip_gt rest
        · split
          · rename_i h; subst h; exact strip_quot rest
          · rename_i h1 _ h2 _ _
            exact strip_other b rest h1 h2

theorem stripHtml_escape (bs rest : Bytes) :
    stripHtmlAux 0 (htmlEscape bs ++ rest) = bs ++ stripHtmlAux 0 rest := by
  induction bs with
  | nil => rfl
  | cons b t ih =>
    simp only [htmlEscape, List.append_assoc, List.cons_append]
    rw [stripHtml_escByte, ih]

theorem stripOK_html : StripOK htmlFmt stripHtml (fun _ => True) where
  esc := fun a rest _ => stripHtml_escape a rest
  before := stripHtml_open
  after := stripHtml_close
  nil := rfl

/-! ### ANSI -/

theorem stripAnsiAux_skip (n : Nat) (pre rest : Bytes) (h : pre.length = n) :
    stripAnsiAux n (pre ++ rest) = stripAnsiAux 0 rest := by
  induction n generalizing pre with
  | zero => cases pre with
    | nil => rfl
    | cons _ _ => simp at h
  | succ n ih => cases pre with
    | nil => simp at h
    | cons b t =>
      simp only [List.cons_append, stripAnsiAux]
      exact ih t (by simpa using h)

theorem stripAnsi_color (rest : Bytes) : stripAnsiAux 0 (ansiColor ++ rest) = stripAnsiAux 0 rest := by
  simp [stripAnsiAux, ansiColor, List.isPrefixOf]
theorem stripAnsi_reset (rest : Bytes) : stripAnsiAux 0 (ansiReset ++ rest) = stripAnsiAux 0 rest := by
  simp [stripAnsiAux, ansiColor, ansiReset, List.isPrefixOf]
theorem stripAnsi_other (b : Byte) (rest : Bytes) (h1 : b ≠ 0x1B) :
    stripAnsiAux 0 (b :: rest) = b :: stripAnsiAux 0 rest := by
  have e1 : ¬ (27#8 = b) := fun h => h1 h.symm
  simp [stripAnsiAux, ansiColor, ansiReset, List.isPrefixOf, e1]

theorem stripAnsi_raw (bs rest : Bytes) (h : ∀ x ∈ bs, x ≠ 0x1B) :
    stripAnsiAux 0 (bs ++ rest) = bs ++ stripAnsiAux 0 rest := by
  induction bs with
  | nil => rfl
  | cons b t ih =>
    simp only [List.cons_append]
    rw [stripAnsi_other b _ (h b (by simp)), ih (fun x hx => h x (by simp [hx]))]

theorem stripOK_ansi : StripOK ansiFmt stripAnsi (fun x => x ≠ 0x1B) where
  esc := fun a rest h => stripAnsi_raw a rest h
  before := stripAnsi_color
  after := stripAnsi_reset
  nil := rfl

/-! ### the formatter loop -/

theorem formatLoop_strip {fm : Fmt} {strip : Bytes → Bytes} {Q : Byte → Prop} (ok : StripOK fm strip Q)
    (lg : Bool) (orig : Bytes) (hQ : ∀ x ∈ orig, Q x) (fend : Int) :
    ∀ (tls : List (Option TermLocation)) (curr : Int) (out : Bytes),
      formatLoop fm lg orig fend tls curr = some out → slice orig curr fend = some (strip out) := by
  have last : ∀ (curr : Int) (out : Bytes), (slice orig curr fend).map fm.esc = some out →
      slice orig curr fend = some (strip out) := by
    intro curr out h
    cases hs : slice orig curr fend with
    | none => simp [hs] at h
    | some s =>
      simp only [hs, Option.map_some, Option.some.injEq] at h
      subst h
      have := ok.esc s [] (fun x hx => hQ x (slice_mem hs x hx))
      simp only [List.append_nil, ok.nil] at this
      rw [this]
  intro tls
  induction tls with
  | nil => intro curr out h; exact last curr out h
  | cons o rest ih =>
    intro curr out h
    cases o with
    | none => exact ih curr out h
    | some tl =>
      simp only [formatLoop] at h
      split at h
      · exact ih curr out h
      · split at h
        · exact ih curr out h
        · split at h
          · exact last curr out h
          · split at h
            · rename_i a b ha hb
              cases hr : formatLoop fm lg orig fend rest tl.stop with
              | none => simp [hr] at h
              | some r =>
                simp only [hr, Option.map_some, Option.some.injEq] at h
                subst h
                have h3 := ih tl.stop r hr
                have ea := ok.esc a (fm.before ++ (fm.esc b ++ (fm.after ++ r))) (fun x hx => hQ x (slice_mem ha x hx))
                have eb := ok.esc b (fm.after ++ r) (fun x hx => hQ x (slice_mem hb x hx))
                simp only [List.append_assoc]
                rw [ea, ok.before, eb, ok.after]
                exact slice_append ha (slice_append hb h3)
            · simp at h

/-- the formatter's output is determined by its marked spans -/
theorem formatLoop_eq_renderMarks (fm : Fmt) (lg : Bool) (orig : Bytes) (fend : Int) :
    ∀ (tls : List (Option TermLocation)) (curr : Int),
      formatLoop fm lg orig fend tls curr = renderMarks fm orig fend (marksLoop lg fend tls curr) curr := by
  intro tls
  induction tls with
  | nil => intro curr; rfl
  | cons o rest ih =>
    intro curr
    cases o with
    | none => exact ih curr
    | some tl =>
      simp only [formatLoop, marksLoop]
      split
      · exact ih curr
      · split
        · exact ih curr
        · split
          · rfl
          · simp only [renderMarks]
            rw [ih tl.stop]

end Bluge.C20

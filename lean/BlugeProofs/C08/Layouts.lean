import Bluge.Layout
/-! helper lemmas for C08: layouts, the searcher over a layout, statistics, sorting -/
namespace Bluge.C08
open Bluge.Layout

variable {α : Type}

theorem zip_range_filter_map (docs : List (α × Bool)) (off : Nat) :
    ((((List.range docs.length).zip docs).filter (fun p => !p.2.2)).map (fun p => (off + p.1, p.2.1))).map (·.2)
      = (docs.filter (!·.2)).map (·.1) := by
  have h1 : ((List.range docs.length).zip docs).map (·.2) = docs := by
    apply List.map_snd_zip; simp
  rw [List.map_map]
  have : ((fun p : Nat × α => p.2) ∘ fun p : Nat × α × Bool => (off + p.1, p.2.1)) = (fun q : α × Bool => q.1) ∘ (·.2) := by
    funext p; rfl
  rw [this, ← List.map_map]
  congr 1
  conv => rhs; rw [← h1]
  rw [List.filter_map]
  rfl

/-- the documents a searcher can see are the abstraction of the layout, whatever the offsets -/
theorem numbered_docs (off : Nat) (L : Layout α) : (numbered off L).map (·.2) = abs L := by
  induction L generalizing off with
  | nil => simp [numbered, abs]
  | cons s rest ih =>
    simp only [numbered, List.map_append, ih, abs, List.flatMap_cons]
    rw [zip_range_filter_map]
    rfl

/-- the documents matched by a per-document predicate are the matching documents of the abstraction -/
theorem search_docs (L : Layout α) (m : α → Bool) : (search L m).map (·.2) = (abs L).filter m := by
  unfold search
  rw [← numbered_docs 0 L, List.filter_map]
  rfl

theorem statsOf_eq (c : α → Nat × Nat) (docs : List α) :
    statsOf c docs = (docs.length, (docs.map fun d => (c d).1).sum, (docs.map fun d => (c d).2).sum) := by
  unfold statsOf
  suffices h : ∀ (acc : Nat × Nat × Nat),
      docs.foldl (fun acc d => (acc.1 + 1, acc.2.1 + (c d).1, acc.2.2 + (c d).2)) acc
        = (acc.1 + docs.length, acc.2.1 + (docs.map fun d => (c d).1).sum, acc.2.2 + (docs.map fun d => (c d).2).sum) by
    simpa using h (0, 0, 0)
  induction docs with
  | nil => intro acc; simp
  | cons d docs ih => intro acc; simp only [List.foldl_cons, ih, List.length_cons, List.map_cons, List.sum_cons]; grind

theorem collectionStats_eq (L : Layout α) :
    collectionStats L = ((L.map (·.stats.1)).sum, (L.map (·.stats.2.1)).sum, (L.map (·.stats.2.2)).sum) := by
  unfold collectionStats
  suffices h : ∀ (acc : Nat × Nat × Nat),
      L.foldl (fun acc s => (acc.1 + s.stats.1, acc.2.1 + s.stats.2.1, acc.2.2 + s.stats.2.2)) acc
        = (acc.1 + (L.map (·.stats.1)).sum, acc.2.1 + (L.map (·.stats.2.1)).sum, acc.2.2 + (L.map (·.stats.2.2)).sum) by
    simpa using h (0, 0, 0)
  induction L with
  | nil => intro acc; simp
  | cons s L ih => intro acc; simp only [List.foldl_cons, ih, List.map_cons, List.sum_cons]; grind

theorem statsOf_perm (c : α → Nat × Nat) {a b : List α} (h : a.Perm b) : statsOf c a = statsOf c b := by
  rw [statsOf_eq, statsOf_eq, h.length_eq, (h.map _).sum_nat, (h.map _).sum_nat]

theorem statsOf_append (c : α → Nat × Nat) (a b : List α) :
    statsOf c (a ++ b) = ((statsOf c a).1 + (statsOf c b).1, (statsOf c a).2.1 + (statsOf c b).2.1,
      (statsOf c a).2.2 + (statsOf c b).2.2) := by
  simp [statsOf_eq]

theorem fresh_live (c : α → Nat × Nat) {L : Layout α} (h : Layout.fresh c L) {s : Seg α} (hs : s ∈ L) :
    s.live = s.docs.map (·.1) := by
  unfold Seg.live
  rw [List.filter_eq_self.2]
  intro p hp; simp [(h s hs).2 p hp]

/-- without merged segments and pending deletions the collection statistics are those of the logical content -/
theorem fresh_stats (c : α → Nat × Nat) (L : Layout α) (h : Layout.fresh c L) :
    collectionStats L = statsOf c (abs L) := by
  induction L with
  | nil => simp [collectionStats, abs, statsOf]
  | cons s L ih =>
    have hL : Layout.fresh c L := fun t ht => h t (List.mem_cons_of_mem _ ht)
    have ih' := ih hL
    rw [collectionStats_eq] at ih' ⊢
    simp only [abs, List.flatMap_cons] at ih' ⊢
    rw [statsOf_append, ← ih', fresh_live c h List.mem_cons_self, ← (h s List.mem_cons_self).1]
    simp

theorem hits_def (L : Layout α) (m : α → Bool) : hits L m = (search L m).map (·.2) := by simp only [hits]

theorem abs_result_def (r : OffResult α) : r.abs = r.segments.flatMap (·.2) := by simp only [OffResult.abs]

end Bluge.C08

import BlugeProofs.C07
import BlugeProofs.C08.Layouts
/-! bridging definitions (a `Bluge.Layout` as the snapshot layout + index C07's machines run over) and helper lemmas
for `BlugeProofs.C08.ViaC07` -/
namespace Bluge.C08
open Bluge.Layout Bluge.Search Bluge.C07

/-- `snapshot.offsets[i]` and `segment[i].Count()` of a layout, the shape C07's postings machines run over -/
def snapLayoutFrom {α : Type} : Nat → Layout α → SnapLayout
  | _, [] => []
  | off, s :: rest => (off, s.docs.length) :: snapLayoutFrom (off + s.docs.length) rest

def snapLayoutOf {α : Type} (L : Layout α) : SnapLayout := snapLayoutFrom 0 L

/-- the index a reader over the layout searches: the live documents with their global numbers (`Layout.numbered`) -/
def indexOf (L : Layout C07.Doc) : C07.Index := numbered 0 L

/-- the documents a result (a list of doc numbers) names, in index order -/
def docsAt (idx : C07.Index) (res : List Nat) : List C07.Doc := (idx.filter fun e => res.contains e.1).map (·.2)

theorem offsetsOK_snapLayoutFrom {α : Type} (L : Layout α) : ∀ off, offsetsOK off (snapLayoutFrom off L) = true := by
  induction L with
  | nil => intro off; rfl
  | cons s rest ih => intro off; simp [snapLayoutFrom, offsetsOK, ih]

theorem total_snapLayoutFrom_cons {α : Type} (s : Seg α) (rest : Layout α) (off : Nat) :
    SnapLayout.total (snapLayoutFrom off (s :: rest)) =
      s.docs.length + SnapLayout.total (snapLayoutFrom (off + s.docs.length) rest) := by
  simp [snapLayoutFrom, SnapLayout.total]

/-- the numbers `Layout.numbered` hands out are strictly increasing and lie in the snapshot's range -/
theorem numbered_wf {α : Type} (L : Layout α) : ∀ off,
    ((numbered off L).map (·.1)).Pairwise (· < ·) ∧
    ∀ e ∈ numbered off L, off ≤ e.1 ∧ e.1 < off + SnapLayout.total (snapLayoutFrom off L) := by
  induction L with
  | nil => intro off; simp [numbered]
  | cons s rest ih =>
    intro off
    obtain ⟨ih1, ih2⟩ := ih (off + s.docs.length)
    rw [total_snapLayoutFrom_cons]
    -- the head segment
    have hz : ∀ p ∈ (List.range s.docs.length).zip s.docs, p.1 < s.docs.length := by
      intro p hp
      have := (List.of_mem_zip hp).1
      simpa using this
    have hzp : ((List.range s.docs.length).zip s.docs).Pairwise (fun a b => a.1 < b.1) := by
      have h1 : ((List.range s.docs.length).zip s.docs).map (·.1) = List.range s.docs.length := by
        apply List.map_fst_zip; simp
      have := List.pairwise_lt_range (n := s.docs.length)
      rw [← h1] at this
      exact List.pairwise_map.1 this
    have hhead_mem : ∀ e ∈ (((List.range s.docs.length).zip s.docs).filter (fun p => !p.2.2)).map
        (fun p => (off + p.1, p.2.1)), off ≤ e.1 ∧ e.1 < off + s.docs.length := by
      intro e he
      obtain ⟨p, hp, rfl⟩ := List.mem_map.1 he
      have := hz p (List.mem_filter.1 hp).1
      simp only; omega
    constructor
    · simp only [numbered, List.map_append]
      apply List.pairwise_append.2
      refine ⟨?_, ih1, ?_⟩
      · rw [List.map_map]
        apply List.pairwise_map.2
        apply (hzp.sublist List.filter_sublist).imp
        intro a b hab; simp only [Function.comp]; omega
      · intro a ha b hb
        obtain ⟨e, he, rfl⟩ := List.mem_map.1 ha
        obtain ⟨e', he', rfl⟩ := List.mem_map.1 hb
        have h1 := (hhead_mem e he).2
        have h2 := (ih2 e' he').1
        omega
    · intro e he
      simp only [numbered, List.mem_append] at he
      rcases he with he | he
      · have := hhead_mem e he; omega
      · have := ih2 e he; omega

theorem indexOf_wf (L : Layout C07.Doc) : (indexOf L).WF (snapLayoutOf L).total := by
  obtain ⟨h1, h2⟩ := numbered_wf L 0
  refine ⟨h1, fun e he => ?_⟩
  have := (h2 e he).2
  simpa [snapLayoutOf] using this

theorem indexOf_docs (L : Layout C07.Doc) : (indexOf L).map (·.2) = abs L := numbered_docs 0 L

/-- strictly increasing first components: the first component determines the entry -/
theorem eq_of_fst_eq {β : Type} : ∀ (l : List (Nat × β)), l.Pairwise (fun a b => a.1 < b.1) →
    ∀ a ∈ l, ∀ b ∈ l, a.1 = b.1 → a = b
  | [], _, a, ha, _, _, _ => by cases ha
  | x :: xs, hp, a, ha, b, hb, hab => by
    rw [List.pairwise_cons] at hp
    rcases List.mem_cons.1 ha with rfl | ha' <;> rcases List.mem_cons.1 hb with rfl | hb'
    · rfl
    · have := hp.1 b hb'; omega
    · have := hp.1 a ha'; omega
    · exact eq_of_fst_eq xs hp.2 a ha' b hb' hab

/-- the documents named by `denote idx q` are the live documents that satisfy the query -/
theorem docsAt_denote (idx : C07.Index) (hnd : (idx.map (·.1)).Pairwise (· < ·)) (q : Query) :
    docsAt idx (denote idx q) = (idx.map (·.2)).filter (fun d => sat d q) := by
  unfold docsAt denote
  rw [List.filter_map]
  congr 1
  apply List.filter_congr
  intro e he
  have hinj : ∀ e' ∈ idx, e'.1 = e.1 → e' = e := fun e' he' h =>
    eq_of_fst_eq idx (List.pairwise_map.1 hnd) e' he' e he h
  simp only [Function.comp]
  rw [Bool.eq_iff_iff]
  simp only [List.contains_iff_mem, List.mem_map, List.mem_filter]
  constructor
  · rintro ⟨e', ⟨he', hs⟩, h1⟩
    rw [hinj e' he' h1] at hs; exact hs
  · intro hs; exact ⟨e, ⟨he, hs⟩, rfl⟩

end Bluge.C08

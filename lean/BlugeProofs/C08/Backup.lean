import Bluge.Layout
/-! helper lemmas for `backup_equiv` and the partial-backup theorems (model: `Bluge/Layout.lean` part E) -/
namespace Bluge.C08
open Bluge.Layout

variable {α : Type}

/-! ### association lists -/

theorem lookup_cons_eq (k a : Nat) (b : β) (l : List (Nat × β)) :
    ((a, b) :: l).lookup k = if k = a then some b else l.lookup k := by
  simp only [List.lookup]
  by_cases h : k = a
  · subst h; simp
  · have : (k == a) = false := by simpa using h
    simp [this, h]

theorem lookup_filter_ne (id k : Nat) (l : List (Nat × β)) :
    (l.filter fun f => f.1 != id).lookup k = if k = id then none else l.lookup k := by
  induction l with
  | nil => simp [List.lookup]
  | cons x xs ih =>
    obtain ⟨a, b⟩ := x
    by_cases ha : a = id
    · subst ha
      have : (List.filter (fun f : Nat × β => f.1 != a) ((a, b) :: xs)) = List.filter (fun f => f.1 != a) xs := by
        simp
      rw [this, ih, lookup_cons_eq]
      by_cases hk : k = a <;> simp [hk]
    · have : (List.filter (fun f : Nat × β => f.1 != id) ((a, b) :: xs)) = (a, b) :: List.filter (fun f => f.1 != id) xs := by
        simp [ha]
      rw [this, lookup_cons_eq, lookup_cons_eq, ih]
      by_cases hk : k = a
      · subst hk; simp [ha]
      · simp [hk]

theorem seg_putSeg (d : BDir α) (id k : Nat) (x : List α) :
    (d.putSeg id x).seg? k = if k = id then some x else d.seg? k := by
  simp [BDir.putSeg, BDir.seg?, lookup_cons_eq]

theorem seg_dropSeg (d : BDir α) (id k : Nat) :
    (d.dropSeg id).seg? k = if k = id then none else d.seg? k := by
  simp [BDir.dropSeg, BDir.seg?, lookup_filter_ne]

/-! ### the segment loop -/

theorem backupSegs_snapFiles (failAt : Option Nat) (segs : List (RSeg α)) :
    ∀ (k : Nat) (d : BDir α), (backupSegs failAt k segs d).1.snapFiles = d.snapFiles := by
  induction segs with
  | nil => intro k d; rfl
  | cons g rest ih =>
    intro k d
    unfold backupSegs
    split
    · rfl
    · rw [ih]; rfl

/-- nothing fails: no failure is reported -/
theorem backupSegs_none_ok (segs : List (RSeg α)) :
    ∀ (k : Nat) (d : BDir α), (backupSegs none k segs d).2 = none := by
  induction segs with
  | nil => intro k d; rfl
  | cons g rest ih => intro k d; unfold backupSegs; simp [ih]

/-- nothing fails: ids that are not written keep their file -/
theorem backupSegs_none_other (segs : List (RSeg α)) :
    ∀ (k : Nat) (d : BDir α) (id : Nat), id ∉ segs.map (·.id) →
      (backupSegs none k segs d).1.seg? id = d.seg? id := by
  induction segs with
  | nil => intro k d id _; rfl
  | cons g rest ih =>
    intro k d id hid
    unfold backupSegs
    simp only [List.map_cons, List.mem_cons, not_or] at hid
    simp only [reduceCtorEq, if_false]
    rw [ih _ _ _ hid.2, seg_putSeg]
    simp [hid.1]

/-- nothing fails, distinct ids: every segment's file holds its documents -/
theorem backupSegs_none_written (segs : List (RSeg α)) :
    ∀ (k : Nat) (d : BDir α), (segs.map (·.id)).Nodup →
      ∀ g ∈ segs, (backupSegs none k segs d).1.seg? g.id = some g.docs := by
  induction segs with
  | nil => intro k d _ g hg; simp at hg
  | cons g0 rest ih =>
    intro k d hnd g hg
    simp only [List.map_cons, List.nodup_cons] at hnd
    unfold backupSegs
    simp only [reduceCtorEq, if_false]
    rcases List.mem_cons.1 hg with rfl | hg
    · rw [backupSegs_none_other _ _ _ _ hnd.1, seg_putSeg]; simp
    · exact ih _ _ hnd.2 g hg

/-- a failure at `k ≥ j`: reported unless `k` lies beyond the segments -/
theorem backupSegs_some_result (k : Nat) (segs : List (RSeg α)) :
    ∀ (j : Nat) (d : BDir α), j ≤ k →
      ((backupSegs (some k) j segs d).2 = none ↔ j + segs.length ≤ k) := by
  induction segs with
  | nil => intro j d hj; simp [backupSegs]; omega
  | cons g rest ih =>
    intro j d hj
    unfold backupSegs
    by_cases h : k = j
    · subst h; simp
    · have h' : ¬ (some k = some j) := by simpa using h
      simp only [h', if_false]
      rw [ih (j + 1) _ (by omega)]
      simp only [List.length_cons]; omega

/-- whatever fails: a file of the result is a file of the target or one of the segments written -/
theorem backupSegs_origin (failAt : Option Nat) (all : List (RSeg α)) (d0 : BDir α) (segs : List (RSeg α)) :
    ∀ (k : Nat) (d : BDir α), (∀ g ∈ segs, g ∈ all) →
      (∀ id y, d.seg? id = some y → d0.seg? id = some y ∨ ∃ g ∈ all, g.id = id ∧ g.docs = y) →
      ∀ id y, (backupSegs failAt k segs d).1.seg? id = some y →
        d0.seg? id = some y ∨ ∃ g ∈ all, g.id = id ∧ g.docs = y := by
  induction segs with
  | nil => intro k d _ h id y hy; exact h id y hy
  | cons g rest ih =>
    intro k d hsub h id y hy
    unfold backupSegs at hy
    split at hy
    · rw [seg_dropSeg] at hy
      by_cases hid : id = g.id
      · simp [hid] at hy
      · simp only [hid, if_false] at hy; exact h id y hy
    · refine ih (k + 1) (d.putSeg g.id g.docs) (fun g' hg' => hsub g' (List.mem_cons_of_mem _ hg')) ?_ id y hy
      intro id' y' hy'
      rw [seg_putSeg] at hy'
      by_cases hid : id' = g.id
      · simp only [hid, if_true, Option.some.injEq] at hy'
        exact Or.inr ⟨g, hsub g (List.mem_cons_self ..), hid.symm, hy'⟩
      · simp only [hid, if_false] at hy'; exact h id' y' hy'

/-! ### loading -/

theorem allSome_map_some {β γ : Type} (f : β → Option γ) (g : β → γ) (l : List β) (h : ∀ x ∈ l, f x = some (g x)) :
    allSome (l.map f) = some (l.map g) := by
  induction l with
  | nil => rfl
  | cons x xs ih =>
    simp only [List.map_cons]
    rw [h x (List.mem_cons_self ..)]
    simp only [allSome]
    rw [ih (fun y hy => h y (List.mem_cons_of_mem _ hy))]
    rfl

theorem load_entries (d : BDir α) (s : RSnap α) (h : ∀ g ∈ s.segs, d.seg? g.id = some g.docs) :
    d.load s.entries = some s.content := by
  unfold BDir.load RSnap.entries RSnap.content
  rw [List.map_map]
  exact allSome_map_some _ _ _ (fun g hg => by simp [Function.comp, h g hg])

/-- two directories whose segment files agree wherever both have one load the same content, when both load -/
theorem load_agree (d d' : BDir α) (hag : ∀ id y z, d'.seg? id = some y → d.seg? id = some z → y = z)
    (ent : List (Nat × List Nat)) :
    ∀ c c', d.load ent = some c → d'.load ent = some c' → c' = c := by
  unfold BDir.load
  induction ent with
  | nil => intro c c' h h'; simp [allSome] at h h'; rw [h, h']
  | cons e rest ih =>
    intro c c' h h'
    simp only [List.map_cons] at h h'
    cases hz : d.seg? e.1 with
    | none => simp [hz, allSome] at h
    | some z =>
      cases hy : d'.seg? e.1 with
      | none => simp [hy, allSome] at h'
      | some y =>
        have hyz := hag _ _ _ hy hz
        subst hyz
        simp only [hz, hy, Option.map_some, allSome] at h h'
        cases hr : allSome (rest.map fun e => (d.seg? e.1).map fun docs => (docs, e.2)) with
        | none => simp [hr] at h
        | some cr =>
          cases hr' : allSome (rest.map fun e => (d'.seg? e.1).map fun docs => (docs, e.2)) with
          | none => simp [hr'] at h'
          | some cr' =>
            have := ih cr cr' hr hr'
            simp only [hr, hr', Option.map_some, Option.some.injEq] at h h'
            rw [← h, ← h', this]

/-! ### the walk of OpenReader -/

theorem fold_pick_keeps (d : BDir α) (E : Nat) (c : List (List α × List Nat)) (l : List (Nat × List (Nat × List Nat)))
    (h : ∀ f ∈ l, f.1 < E) : l.foldl (pickSnap d) (some (E, c)) = some (E, c) := by
  induction l with
  | nil => rfl
  | cons f rest ih =>
    simp only [List.foldl_cons]
    have hf := h f (List.mem_cons_self ..)
    have : pickSnap d (some (E, c)) f = some (E, c) := by
      unfold pickSnap
      cases d.load f.2 with
      | none => rfl
      | some c' => simp; omega
    rw [this]
    exact ih (fun g hg => h g (List.mem_cons_of_mem _ hg))

theorem fold_pick_origin (d : BDir α) (l : List (Nat × List (Nat × List Nat))) :
    ∀ best r, l.foldl (pickSnap d) best = some r →
      best = some r ∨ ∃ f ∈ l, f.1 = r.1 ∧ d.load f.2 = some r.2 := by
  induction l with
  | nil => intro best r h; exact Or.inl h
  | cons f rest ih =>
    intro best r h
    simp only [List.foldl_cons] at h
    rcases ih _ _ h with h1 | ⟨g, hg, h2⟩
    · unfold pickSnap at h1
      cases hl : d.load f.2 with
      | none => rw [hl] at h1; exact Or.inl h1
      | some c =>
        rw [hl] at h1
        cases best with
        | none =>
          simp only [Option.some.injEq] at h1
          exact Or.inr ⟨f, List.mem_cons_self .., by rw [← h1], by rw [← h1]; exact hl⟩
        | some b =>
          simp only at h1
          split at h1
          · simp only [Option.some.injEq] at h1
            exact Or.inr ⟨f, List.mem_cons_self .., by rw [← h1], by rw [← h1]; exact hl⟩
          · exact Or.inl h1
    · exact Or.inr ⟨g, List.mem_cons_of_mem _ hg, h2⟩

end Bluge.C08

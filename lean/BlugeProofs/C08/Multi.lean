import Bluge.Layout
/-! helper lemmas for C08: a collector that keeps its store sorted, and k-way merging -/
namespace Bluge.C08
open Bluge.Layout

variable {μ : Type}

theorem insertS_perm (le : μ → μ → Bool) (m : μ) (l : List μ) : (insertS le m l).Perm (m :: l) := by
  induction l with
  | nil => simp [insertS]
  | cons x xs ih =>
    unfold insertS
    split
    · exact List.Perm.refl _
    · exact (List.Perm.cons x ih).trans (List.Perm.swap m x xs)

theorem insertS_sorted (le : μ → μ → Bool) (trans : ∀ a b c, le a b → le b c → le a c)
    (total : ∀ a b, le a b || le b a) (m : μ) (l : List μ) (h : l.Pairwise (fun a b => le a b)) :
    (insertS le m l).Pairwise (fun a b => le a b) := by
  induction l with
  | nil => simp [insertS]
  | cons x xs ih =>
    unfold insertS
    split
    · rename_i hmx
      refine List.Pairwise.cons ?_ h
      intro y hy
      rcases List.mem_cons.1 hy with rfl | hy
      · exact hmx
      · exact trans _ _ _ hmx (List.rel_of_pairwise_cons h hy)
    · rename_i hmx
      have hxm : le x m = true := by
        have := total m x
        simp only [Bool.or_eq_true] at this
        rcases this with h1 | h1
        · exact absurd h1 hmx
        · exact h1
      refine List.Pairwise.cons ?_ (ih h.tail)
      intro y hy
      rcases (List.Perm.mem_iff (insertS_perm le m xs)).1 hy |> List.mem_cons.1 with rfl | hy
      · exact hxm
      · exact List.rel_of_pairwise_cons h hy

theorem collect_go_spec (le : μ → μ → Bool) (trans : ∀ a b c, le a b → le b c → le a c)
    (total : ∀ a b, le a b || le b a) (ms st : List μ) (h : st.Pairwise (fun a b => le a b)) :
    (ms.foldl (fun st m => insertS le m st) st).Perm (st ++ ms) ∧
    (ms.foldl (fun st m => insertS le m st) st).Pairwise (fun a b => le a b) := by
  induction ms generalizing st with
  | nil => simpa using h
  | cons m ms ih =>
    obtain ⟨p, s⟩ := ih (insertS le m st) (insertS_sorted le trans total m st h)
    refine ⟨?_, s⟩
    simp only [List.foldl_cons]
    refine p.trans ?_
    refine (List.Perm.append_right ms (insertS_perm le m st)).trans ?_
    simp only [List.cons_append]
    exact (List.perm_middle).symm

theorem collect_spec (le : μ → μ → Bool) (trans : ∀ a b c, le a b → le b c → le a c)
    (total : ∀ a b, le a b || le b a) (ms : List μ) :
    (collect le ms).Perm ms ∧ (collect le ms).Pairwise (fun a b => le a b) := by
  have := collect_go_spec le trans total ms [] (by simp)
  simpa [collect] using this

theorem kmerge_perm (le : μ → μ → Bool) (ls : List (List μ)) : (kmerge le ls).Perm ls.flatten := by
  induction ls with
  | nil => simp [kmerge]
  | cons l ls ih =>
    simp only [kmerge, List.flatten_cons]
    exact (List.merge_perm_append le).trans (List.Perm.append_left l ih)

theorem kmerge_sorted (le : μ → μ → Bool) (trans : ∀ a b c, le a b → le b c → le a c)
    (total : ∀ a b, le a b || le b a) (ls : List (List μ))
    (h : ∀ l ∈ ls, l.Pairwise (fun a b => le a b)) : (kmerge le ls).Pairwise (fun a b => le a b) := by
  induction ls with
  | nil => simp [kmerge]
  | cons l ls ih =>
    simp only [kmerge]
    exact List.pairwise_merge trans total _ _ (h l List.mem_cons_self)
      (ih fun l' hl' => h l' (List.mem_cons_of_mem _ hl'))

end Bluge.C08

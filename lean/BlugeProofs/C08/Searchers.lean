import BlugeProofs.C08.Sets
/-! helper lemmas for C08: the leap-frog conjunction and the min ≤ 1 disjunction enumerate the
intersection / the union of strictly increasing lists, in increasing order -/
namespace Bluge.C08
open Bluge.Layout

theorem sumLen_cons (l : List Nat) (ls : List (List Nat)) : sumLen (l :: ls) = l.length + sumLen ls := by
  simp [sumLen]

theorem sumLen_map_le {f : List Nat → List Nat} {ls : List (List Nat)}
    (h : ∀ l ∈ ls, (f l).length ≤ l.length) : sumLen (ls.map f) ≤ sumLen ls := by
  induction ls with
  | nil => simp [sumLen]
  | cons l ls ih =>
    simp only [List.map_cons, sumLen_cons]
    have := ih (fun l hl => h l (List.mem_cons_of_mem _ hl))
    have := h l List.mem_cons_self
    omega

theorem sumLen_map_lt {f : List Nat → List Nat} {ls : List (List Nat)}
    (h : ∀ l ∈ ls, (f l).length ≤ l.length) (hex : ∃ l ∈ ls, (f l).length < l.length) :
    sumLen (ls.map f) < sumLen ls := by
  induction ls with
  | nil => simp at hex
  | cons l ls ih =>
    simp only [List.map_cons, sumLen_cons]
    have h1 := h l List.mem_cons_self
    have h2 := sumLen_map_le (fun l hl => h l (List.mem_cons_of_mem _ hl))
    obtain ⟨l0, hl0, hlt⟩ := hex
    rcases List.mem_cons.1 hl0 with rfl | hl0
    · omega
    · have := ih (fun l hl => h l (List.mem_cons_of_mem _ hl)) ⟨l0, hl0, hlt⟩
      omega

theorem mem_heads {ls : List (List Nat)} {x : Nat} : x ∈ heads ls ↔ ∃ l ∈ ls, l.head? = some x := by
  simp [heads, List.mem_filterMap]

theorem le_foldl_max {l : List Nat} {a x : Nat} (h : x ∈ l ∨ x ≤ a) : x ≤ l.foldl max a := by
  induction l generalizing a with
  | nil => simpa using h
  | cons y l ih =>
    simp only [List.foldl_cons]
    apply ih
    rcases h with h | h
    · rcases List.mem_cons.1 h with rfl | h
      · right; exact Nat.le_max_right _ _
      · left; exact h
    · right; exact Nat.le_trans h (Nat.le_max_left _ _)

theorem foldl_max_mem {l : List Nat} {a : Nat} : l.foldl max a = a ∨ l.foldl max a ∈ l := by
  induction l generalizing a with
  | nil => simp
  | cons y l ih =>
    simp only [List.foldl_cons]
    rcases ih (a := max a y) with h | h
    · rw [h]
      rcases Nat.le_total a y with h1 | h1
      · right; simp [Nat.max_eq_right h1]
      · left; exact Nat.max_eq_left h1
    · right; exact List.mem_cons_of_mem _ h

theorem foldl_max_zero_mem {l : List Nat} (hne : l ≠ []) : l.foldl max 0 ∈ l := by
  rcases foldl_max_mem (l := l) (a := 0) with h | h
  · cases l with
    | nil => exact absurd rfl hne
    | cons y l =>
      have : y ≤ (y :: l).foldl max 0 := le_foldl_max (Or.inl List.mem_cons_self)
      have : y = 0 := by omega
      subst this; rw [h]; exact List.mem_cons_self
  · exact h

theorem foldl_min_le {l : List Nat} {a x : Nat} (h : x ∈ l ∨ a ≤ x) : l.foldl min a ≤ x := by
  induction l generalizing a with
  | nil => simpa using h
  | cons y l ih =>
    simp only [List.foldl_cons]
    apply ih
    rcases h with h | h
    · rcases List.mem_cons.1 h with rfl | h
      · right; exact Nat.min_le_right _ _
      · left; exact h
    · right; exact Nat.le_trans (Nat.min_le_left _ _) h

theorem foldl_min_mem {l : List Nat} {a : Nat} : l.foldl min a = a ∨ l.foldl min a ∈ l := by
  induction l generalizing a with
  | nil => simp
  | cons y l ih =>
    simp only [List.foldl_cons]
    rcases ih (a := min a y) with h | h
    · rw [h]
      rcases Nat.le_total a y with h1 | h1
      · left; exact Nat.min_eq_left h1
      · right; simp [Nat.min_eq_right h1]
    · right; exact List.mem_cons_of_mem _ h

/-- in a strictly increasing list every element is at least the head -/
theorem head_le_of_mem {l : List Nat} {h x : Nat} (hs : SSorted l) (hh : l.head? = some h) (hx : x ∈ l) : h ≤ x := by
  cases l with
  | nil => simp at hh
  | cons a l =>
    simp only [List.head?_cons, Option.some.injEq] at hh; subst hh
    rcases List.mem_cons.1 hx with rfl | hx
    · exact Nat.le_refl _
    · exact Nat.le_of_lt (List.rel_of_pairwise_cons hs hx)

theorem mem_dropWhile_lt {l : List Nat} {m x : Nat} (hs : SSorted l) :
    x ∈ l.dropWhile (· < m) ↔ x ∈ l ∧ m ≤ x := by
  induction l with
  | nil => simp
  | cons a l ih =>
    simp only [List.dropWhile_cons]
    split
    · rename_i ha
      have ha : a < m := by simpa using ha
      rw [ih hs.tail]
      constructor
      · rintro ⟨h1, h2⟩; exact ⟨List.mem_cons_of_mem _ h1, h2⟩
      · rintro ⟨h1, h2⟩
        rcases List.mem_cons.1 h1 with rfl | h1
        · omega
        · exact ⟨h1, h2⟩
    · rename_i ha
      have ha : m ≤ a := by simpa using ha
      constructor
      · intro h; refine ⟨h, ?_⟩
        rcases List.mem_cons.1 h with rfl | h
        · exact ha
        · exact Nat.le_trans ha (Nat.le_of_lt (List.rel_of_pairwise_cons hs h))
      · exact fun h => h.1

theorem sorted_dropWhile {l : List Nat} (p : Nat → Bool) (hs : SSorted l) : SSorted (l.dropWhile p) :=
  hs.sublist (List.dropWhile_sublist p)

theorem length_dropWhile_le {l : List Nat} (p : Nat → Bool) : (l.dropWhile p).length ≤ l.length :=
  (List.dropWhile_sublist p).length_le

/-- `ConjunctionSearcher` on strictly increasing posting lists enumerates the intersection, increasing -/
theorem leapfrog_spec (fuel : Nat) (ls : List (List Nat)) (hf : sumLen ls < fuel)
    (hs : ∀ l ∈ ls, SSorted l) (hne : ls ≠ []) :
    SSorted (leapfrog fuel ls) ∧ ∀ x, x ∈ leapfrog fuel ls ↔ ∀ l ∈ ls, x ∈ l := by
  induction fuel generalizing ls with
  | zero => omega
  | succ fuel ih =>
    unfold leapfrog
    by_cases hE : (ls.isEmpty || ls.any List.isEmpty) = true
    · rw [if_pos hE]
      refine ⟨by simp [SSorted], ?_⟩
      intro x
      simp only [List.not_mem_nil, false_iff]
      intro hall
      have hE2 : ls = [] ∨ ∃ l ∈ ls, l = [] := by simpa using hE
      rcases hE2 with h | ⟨l, hl, rfl⟩
      · exact hne h
      · exact absurd (hall _ hl) (by simp)
    · rw [if_neg hE]
      have hE' : ∀ l ∈ ls, l ≠ [] := by
        intro l hl hnil
        apply hE
        simp only [Bool.or_eq_true, List.any_eq_true]
        exact Or.inr ⟨l, hl, by simp [hnil]⟩
      -- the largest current number
      have hhne : heads ls ≠ [] := by
        cases ls with
        | nil => exact absurd rfl hne
        | cons l ls =>
          cases l with
          | nil => exact absurd rfl (hE' [] List.mem_cons_self)
          | cons a l => simp [heads]
      have hm_mem := foldl_max_zero_mem hhne
      have hm_le : ∀ x ∈ heads ls, x ≤ (heads ls).foldl max 0 := fun x hx => le_foldl_max (Or.inl hx)
      generalize (heads ls).foldl max 0 = m at hm_mem hm_le
      obtain ⟨lm, hlm, hlmh⟩ := mem_heads.1 hm_mem
      simp only
      by_cases hall : (heads ls).all (· == m) = true
      · rw [if_pos hall]
        have hhead : ∀ l ∈ ls, ∃ t, l = m :: t := by
          intro l hl
          cases l with
          | nil => exact absurd rfl (hE' [] hl)
          | cons a t =>
            have : a ∈ heads ls := mem_heads.2 ⟨_, hl, rfl⟩
            have := List.all_eq_true.1 hall a this
            have : a = m := by simpa using this
            subst this; exact ⟨t, rfl⟩
        have hlt : sumLen (ls.map List.tail) < sumLen ls := by
          apply sumLen_map_lt
          · intro l _; simp
          · obtain ⟨t, rfl⟩ := hhead lm hlm
            exact ⟨_, hlm, by simp⟩
        have hmapne : ls.map List.tail ≠ [] := by simpa using hne
        obtain ⟨ih1, ih2⟩ := ih (ls.map List.tail) (by omega)
          (by
            intro l hl
            obtain ⟨l0, hl0, rfl⟩ := List.mem_map.1 hl
            exact (hs l0 hl0).sublist (List.tail_sublist l0)) hmapne
        constructor
        · refine List.Pairwise.cons ?_ ih1
          intro y hy
          have := (ih2 y).1 hy _ (List.mem_map.2 ⟨lm, hlm, rfl⟩)
          obtain ⟨t, rfl⟩ := hhead lm hlm
          exact List.rel_of_pairwise_cons (hs _ hlm) (by simpa using this)
        · intro x
          simp only [List.mem_cons, ih2, List.forall_mem_map]
          constructor
          · rintro (rfl | h) l hl
            · obtain ⟨t, rfl⟩ := hhead l hl; exact List.mem_cons_self
            · exact List.mem_of_mem_tail (h l hl)
          · intro h
            by_cases hx : x = m
            · exact Or.inl hx
            · right
              intro l hl
              obtain ⟨t, rfl⟩ := hhead l hl
              have := h _ hl
              simpa [hx] using this
      · rw [if_neg hall]
        -- some cursor is behind: it moves
        have hbehind : ∃ l ∈ ls, ∃ a t, l = a :: t ∧ a < m := by
          have : ¬ ∀ a ∈ heads ls, (a == m) = true := fun h => hall (List.all_eq_true.2 h)
          have : ∃ a ∈ heads ls, a ≠ m := by
            apply Classical.byContradiction
            intro hc
            apply this
            intro a ha
            have : a = m := Classical.byContradiction fun hne => hc ⟨a, ha, hne⟩
            simp [this]
          obtain ⟨a, ha, hane⟩ := this
          obtain ⟨l, hl, hlh⟩ := mem_heads.1 ha
          cases l with
          | nil => simp at hlh
          | cons b t =>
            simp only [List.head?_cons, Option.some.injEq] at hlh; subst hlh
            exact ⟨_, hl, b, t, rfl, by have := hm_le b ha; omega⟩
        have hlt : sumLen (ls.map fun l => l.dropWhile (· < m)) < sumLen ls := by
          apply sumLen_map_lt
          · intro l _; exact length_dropWhile_le _
          · obtain ⟨l, hl, a, t, rfl, ha⟩ := hbehind
            refine ⟨_, hl, ?_⟩
            simp only [List.dropWhile_cons, ha, decide_true, ↓reduceIte, List.length_cons]
            have := length_dropWhile_le (l := t) (· < m)
            omega
        obtain ⟨ih1, ih2⟩ := ih (ls.map fun l => l.dropWhile (· < m)) (by omega)
          (by
            intro l hl
            obtain ⟨l0, hl0, rfl⟩ := List.mem_map.1 hl
            exact sorted_dropWhile _ (hs l0 hl0)) (by simpa using hne)
        refine ⟨ih1, ?_⟩
        intro x
        rw [ih2]
        simp only [List.forall_mem_map]
        constructor
        · intro h l hl; exact ((mem_dropWhile_lt (hs l hl)).1 (h l hl)).1
        · intro h l hl
          exact (mem_dropWhile_lt (hs l hl)).2 ⟨h l hl, head_le_of_mem (hs lm hlm) hlmh (h lm hlm)⟩

theorem djStep_length_le (m : Nat) (l : List Nat) : (djStep m l).length ≤ l.length := by
  cases l with
  | nil => simp [djStep]
  | cons a t => simp only [djStep]; split <;> simp

theorem djStep_sorted {m : Nat} {l : List Nat} (hs : SSorted l) : SSorted (djStep m l) := by
  cases l with
  | nil => simp [djStep, SSorted]
  | cons a t => simp only [djStep]; split; exact hs.tail; exact hs

theorem mem_djStep {m x : Nat} {l : List Nat} (hs : SSorted l) (hm : ∀ h, l.head? = some h → m ≤ h) :
    x ∈ djStep m l ↔ x ∈ l ∧ x ≠ m := by
  cases l with
  | nil => simp [djStep]
  | cons a t =>
    have ham := hm a rfl
    simp only [djStep]
    split
    · rename_i h; subst h
      constructor
      · intro hx; exact ⟨List.mem_cons_of_mem _ hx, Nat.ne_of_gt (List.rel_of_pairwise_cons hs hx)⟩
      · rintro ⟨h1, h2⟩
        rcases List.mem_cons.1 h1 with rfl | h1
        · exact absurd rfl h2
        · exact h1
    · rename_i h
      constructor
      · intro hx; refine ⟨hx, ?_⟩
        have := head_le_of_mem hs rfl hx
        omega
      · exact fun h => h.1

/-- `DisjunctionSearcher` (min ≤ 1) on strictly increasing posting lists enumerates the union, increasing -/
theorem disjLoop_spec (fuel : Nat) (ls : List (List Nat)) (hf : sumLen ls < fuel)
    (hs : ∀ l ∈ ls, SSorted l) :
    SSorted (disjLoop fuel ls) ∧ ∀ x, x ∈ disjLoop fuel ls ↔ ∃ l ∈ ls, x ∈ l := by
  induction fuel generalizing ls with
  | zero => omega
  | succ fuel ih =>
    unfold disjLoop
    cases hh : heads ls with
    | nil =>
      refine ⟨by simp [SSorted], ?_⟩
      intro x
      simp only [List.not_mem_nil, false_iff, not_exists, not_and]
      intro l hl hx
      cases l with
      | nil => simp at hx
      | cons a t =>
        have : a ∈ heads ls := mem_heads.2 ⟨_, hl, rfl⟩
        simp [hh] at this
    | cons h hs' =>
      simp only
      have hm_le : ∀ x ∈ heads ls, hs'.foldl min h ≤ x := by
        intro x hx
        rw [hh] at hx
        rcases List.mem_cons.1 hx with rfl | hx
        · exact foldl_min_le (Or.inr (Nat.le_refl _))
        · exact foldl_min_le (Or.inl hx)
      have hm_mem : hs'.foldl min h ∈ heads ls := by
        rw [hh]
        rcases foldl_min_mem (l := hs') (a := h) with h1 | h1
        · rw [h1]; exact List.mem_cons_self
        · exact List.mem_cons_of_mem _ h1
      generalize hs'.foldl min h = m at hm_le hm_mem
      obtain ⟨lm, hlm, hlmh⟩ := mem_heads.1 hm_mem
      have hlt : sumLen (ls.map (djStep m)) < sumLen ls := by
        apply sumLen_map_lt
        · intro l _; exact djStep_length_le m l
        · refine ⟨lm, hlm, ?_⟩
          cases lm with
          | nil => simp at hlmh
          | cons a t =>
            simp only [List.head?_cons, Option.some.injEq] at hlmh; subst hlmh
            simp [djStep]
      obtain ⟨ih1, ih2⟩ := ih (ls.map (djStep m)) (by omega)
        (by
          intro l hl
          obtain ⟨l0, hl0, rfl⟩ := List.mem_map.1 hl
          exact djStep_sorted (hs l0 hl0))
      have hmle : ∀ l ∈ ls, ∀ h, l.head? = some h → m ≤ h := fun l hl h hh => hm_le h (mem_heads.2 ⟨l, hl, hh⟩)
      have hmem : ∀ x, x ∈ disjLoop fuel (ls.map (djStep m)) ↔ ∃ l ∈ ls, x ∈ l ∧ x ≠ m := by
        intro x
        rw [ih2]
        constructor
        · rintro ⟨l', hl', hx⟩
          obtain ⟨l, hl, rfl⟩ := List.mem_map.1 hl'
          exact ⟨l, hl, (mem_djStep (hs l hl) (hmle l hl)).1 hx⟩
        · rintro ⟨l, hl, hx⟩
          exact ⟨_, List.mem_map.2 ⟨l, hl, rfl⟩, (mem_djStep (hs l hl) (hmle l hl)).2 hx⟩
      constructor
      · refine List.Pairwise.cons ?_ ih1
        intro y hy
        obtain ⟨l, hl, hyl, hym⟩ := (hmem y).1 hy
        cases l with
        | nil => simp at hyl
        | cons a t =>
          have h1 := hmle _ hl a rfl
          have h2 := head_le_of_mem (hs _ hl) rfl hyl
          omega
      · intro x
        simp only [List.mem_cons, hmem]
        constructor
        · rintro (rfl | ⟨l, hl, hx, _⟩)
          · refine ⟨lm, hlm, ?_⟩
            cases lm with
            | nil => simp at hlmh
            | cons a t =>
              simp only [List.head?_cons, Option.some.injEq] at hlmh; subst hlmh
              exact List.mem_cons_self
          · exact ⟨l, hl, hx⟩
        · rintro ⟨l, hl, hx⟩
          by_cases hxm : x = m
          · exact Or.inl hxm
          · exact Or.inr ⟨l, hl, hx, hxm⟩

end Bluge.C08

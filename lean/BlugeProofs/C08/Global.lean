import BlugeProofs.C08.Seg
/-! helper lemmas for C08: from segments to the snapshot -/
namespace Bluge.C08
open Bluge.Layout

theorem mem_enumerate {nS : Nat} {off : Nat → Nat} {docs : Nat → List Nat} {x : Nat} :
    x ∈ enumerate nS off docs ↔ ∃ i, i < nS ∧ ∃ d ∈ docs i, x = d + off i := by
  simp [enumerate, List.mem_flatMap, List.mem_range, eq_comm]

theorem sorted_enumerate {nS : Nat} {off size : Nat → Nat} {docs : Nat → List Nat}
    (hoff : ∀ i j, i < j → j < nS → off i + size i ≤ off j)
    (hd : ∀ i, i < nS → SSorted (docs i) ∧ ∀ d ∈ docs i, d < size i) :
    SSorted (enumerate nS off docs) := by
  induction nS with
  | zero => simp [enumerate, SSorted]
  | succ n ih =>
    have ih' := ih (fun i j hij hj => hoff i j hij (by omega)) (fun i hi => hd i (by omega))
    have : enumerate (n + 1) off docs = enumerate n off docs ++ (docs n).map (· + off n) := by
      simp [enumerate, List.range_succ, List.flatMap_append]
    rw [this]
    refine List.pairwise_append.2 ⟨ih', ?_, ?_⟩
    · exact (List.pairwise_map).2 ((hd n (by omega)).1.imp (by intro a b h; omega))
    · intro a ha b hb
      obtain ⟨i, hi, d, hdm, rfl⟩ := mem_enumerate.1 ha
      obtain ⟨e, he, rfl⟩ := List.mem_map.1 hb
      have h1 := (hd i (by omega)).2 d hdm
      have h2 := hoff i n hi (by omega)
      omega

theorem prefixOff_mono (size : Nat → Nat) : ∀ i j, i < j → prefixOff size i + size i ≤ prefixOff size j := by
  intro i j hij
  induction j with
  | zero => omega
  | succ j ih =>
    by_cases h : i = j
    · subst h; simp [prefixOff]
    · have := ih (by omega); simp only [prefixOff]; omega

theorem Snap.global_sorted {L : Snap} (hwf : L.wf) {t : Nat} (ht : t < L.nT) : SSorted (L.global t) :=
  sorted_enumerate (size := L.size) (fun i j hij hj => hwf.1 i j hij hj) (fun i hi => hwf.2 t i ht hi)

theorem mem_segPosts {L : Snap} {i : Nat} {p : SegPost} : p ∈ L.segPosts i ↔ ∃ t, t < L.nT ∧ L.post t i = p := by
  simp [Snap.segPosts]

theorem mem_globals {L : Snap} {l : List Nat} : l ∈ L.globals ↔ ∃ t, t < L.nT ∧ L.global t = l := by
  simp [Snap.globals]

/-- a global number is in every term's posting list iff its segment-local number is in every term's
iterator of that one segment (the ranges of the segments are disjoint) -/
theorem mem_all_globals {L : Snap} (hwf : L.wf) (hT : 0 < L.nT) {x : Nat} :
    (∀ l ∈ L.globals, x ∈ l) ↔ ∃ i, i < L.nS ∧ ∃ d, x = d + L.off i ∧ ∀ p ∈ L.segPosts i, d ∈ p.docs := by
  constructor
  · intro h
    have h0 := h _ (mem_globals.2 ⟨0, hT, rfl⟩)
    obtain ⟨i, hi, d, hd, rfl⟩ := mem_enumerate.1 h0
    refine ⟨i, hi, d, rfl, ?_⟩
    intro p hp
    obtain ⟨t, ht, rfl⟩ := mem_segPosts.1 hp
    have ht' := h _ (mem_globals.2 ⟨t, ht, rfl⟩)
    obtain ⟨j, hj, e, he, hxe⟩ := mem_enumerate.1 ht'
    have b1 := (hwf.2 0 i hT hi).2 d hd
    have b2 := (hwf.2 t j ht hj).2 e he
    have hij : i = j := by
      rcases Nat.lt_trichotomy i j with h1 | h1 | h1
      · have := hwf.1 i j h1 hj; omega
      · exact h1
      · have := hwf.1 j i h1 hi; omega
    subst hij
    have : d = e := by omega
    subst this; exact he
  · rintro ⟨i, hi, d, rfl, hall⟩ l hl
    obtain ⟨t, ht, rfl⟩ := mem_globals.1 hl
    exact mem_enumerate.2 ⟨i, hi, d, hall _ (mem_segPosts.2 ⟨t, ht, rfl⟩), rfl⟩

theorem mem_some_global {L : Snap} {x : Nat} :
    (∃ l ∈ L.globals, x ∈ l) ↔ ∃ i, i < L.nS ∧ ∃ d, x = d + L.off i ∧ ∃ p ∈ L.segPosts i, d ∈ p.docs := by
  constructor
  · rintro ⟨l, hl, hx⟩
    obtain ⟨t, ht, rfl⟩ := mem_globals.1 hl
    obtain ⟨i, hi, d, hd, rfl⟩ := mem_enumerate.1 hx
    exact ⟨i, hi, d, rfl, _, mem_segPosts.2 ⟨t, ht, rfl⟩, hd⟩
  · rintro ⟨i, hi, d, rfl, p, hp, hd⟩
    obtain ⟨t, ht, rfl⟩ := mem_segPosts.1 hp
    exact ⟨_, mem_globals.2 ⟨t, ht, rfl⟩, mem_enumerate.2 ⟨i, hi, d, hd, rfl⟩⟩

theorem allSome_spec {α} {l : List (Option α)} {r : List α} (h : allSome l = some r) :
    r.length = l.length ∧ ∀ i, i < l.length → l[i]? = some r[i]? := by
  induction l generalizing r with
  | nil => simp [allSome] at h; subst h; simp
  | cons a l ih =>
    cases a with
    | none => simp [allSome] at h
    | some a =>
      simp only [allSome, Option.map_eq_some_iff] at h
      obtain ⟨r', hr', rfl⟩ := h
      obtain ⟨h1, h2⟩ := ih hr'
      refine ⟨by simp [h1], ?_⟩
      intro i hi
      cases i with
      | zero => simp
      | succ i => simpa using h2 i (by simpa using hi)

/-- the per-segment results of a successful Finish -/
theorem finish_get {L : Snap} {f : List SegPost → Option SegOut} {outs : List SegOut}
    (h : allSome ((List.range L.nS).map fun i => f (L.segPosts i)) = some outs) {i : Nat} (hi : i < L.nS) :
    f (L.segPosts i) = some (outs.getD i .empty) := by
  obtain ⟨h1, h2⟩ := allSome_spec h
  have := h2 i (by simpa using hi)
  simp only [List.length_map, List.length_range] at h1
  rw [List.getElem?_map, List.getElem?_range hi] at this
  simp only [Option.map_some] at this
  have hi' : i < outs.length := by omega
  rw [List.getElem?_eq_getElem hi'] at this
  simp only [Option.some.injEq] at this
  rw [this]; simp [List.getD, List.getElem?_eq_getElem hi']

theorem globals_sorted {L : Snap} (hwf : L.wf) : ∀ l ∈ L.globals, SSorted l := by
  intro l hl; obtain ⟨t, ht, rfl⟩ := mem_globals.1 hl; exact Snap.global_sorted hwf ht

theorem globals_ne_nil {L : Snap} (hT : 0 < L.nT) : L.globals ≠ [] := by
  intro h
  have : L.globals.length = L.nT := by simp [Snap.globals]
  rw [h] at this; simp at this; omega

theorem witnessSnap_wf : witnessSnap.wf := by
  refine ⟨by intro i j hij hj; simp [witnessSnap] at hj; omega, ?_⟩
  intro t i ht hi
  simp only [witnessSnap] at ht hi ⊢
  by_cases h0 : t = 0
  · subst h0; simp [SegPost.docs, SSorted]
  · simp [h0, SegPost.docs, SSorted]


theorem enumOuts_def (L : Snap) (outs : List SegOut) :
    L.enumOuts outs = enumerate L.nS L.off fun i => (outs.getD i .empty).docs := by simp only [Snap.enumOuts]

end Bluge.C08

import BlugeProofs.C08.Sets
/-! helper lemmas for C08: one segment of each rewrite -/
namespace Bluge.C08
open Bluge.Layout

/-- membership in everything the accumulator has collected -/
def accMem (acc : ConjAcc) (x : Nat) : Prop := (∀ bm ∈ acc.bms, x ∈ bm) ∧ (∀ h, acc.hit = some h → x = h)

theorem conjFinishSeg_mem {acc : ConjAcc} {x : Nat} (hne : acc.hit.isSome ∨ acc.bms ≠ []) :
    x ∈ (conjFinishSeg acc).docs ↔ accMem acc x := by
  unfold conjFinishSeg accMem
  cases hh : acc.hit with
  | some h =>
    simp only
    split
    · rename_i hall
      simp only [SegOut.docs, List.mem_singleton]
      constructor
      · rintro rfl
        refine ⟨?_, by simp⟩
        intro bm hbm
        have := List.all_eq_true.1 hall bm hbm
        simpa using this
      · intro h1; exact h1.2 h rfl
    · rename_i hall
      simp only [SegOut.docs, List.not_mem_nil, false_iff]
      rintro ⟨h1, h2⟩
      have hx := h2 h rfl
      subst hx
      apply hall
      apply List.all_eq_true.2
      intro bm hbm
      simpa using h1 bm hbm
  | none =>
    simp only [hh] at hne
    match hb : acc.bms with
    | [] => simp [hb] at hne
    | [b] => simp [SegOut.docs]
    | b0 :: b1 :: rest =>
      simp [SegOut.docs, mem_andAll, mem_andBM]
      grind

theorem conjFinishSeg_sorted {acc : ConjAcc} (hs : ∀ bm ∈ acc.bms, SSorted bm) :
    SSorted (conjFinishSeg acc).docs := by
  unfold conjFinishSeg
  cases hh : acc.hit with
  | some h => simp only; split <;> simp [SegOut.docs, SSorted]
  | none =>
    match hb : acc.bms with
    | [] => simp [SegOut.docs, SSorted]
    | [b] => simp only [SegOut.docs]; exact hs b (by simp [hb])
    | b0 :: b1 :: rest =>
      simp only [SegOut.docs]
      exact sorted_andAll (sorted_andBM (hs b0 (by simp [hb])))

theorem conjSegGo_mem {ps : List SegPost} {acc : ConjAcc} {out : SegOut} {x : Nat}
    (h : conjSegGo acc ps = some out) (hne : acc.hit.isSome ∨ acc.bms ≠ [] ∨ ps ≠ []) :
    x ∈ out.docs ↔ accMem acc x ∧ ∀ p ∈ ps, x ∈ p.docs := by
  induction ps generalizing acc with
  | nil =>
    simp only [conjSegGo, Option.some.injEq] at h
    subst h
    have : acc.hit.isSome ∨ acc.bms ≠ [] := by simpa using hne
    simp [conjFinishSeg_mem this]
  | cons p ps ih =>
    simp only [conjSegGo] at h
    cases p with
    | empty =>
      simp only [conjStep, Option.some.injEq] at h
      subst h
      simp [SegOut.docs, SegPost.docs]
    | raw1 d => simp [conjStep] at h
    | oneHit d =>
      simp only [conjStep] at h
      cases hh : acc.hit with
      | some h0 =>
        simp only [hh] at h
        by_cases hd : h0 = d
        · subst hd
          simp only [ne_eq, not_true_eq_false, ↓reduceIte] at h
          rw [ih h (by simp)]
          simp only [accMem, hh, SegPost.docs, List.mem_cons, forall_eq_or_imp]
          grind
        · simp only [ne_eq, hd, not_false_eq_true, ↓reduceIte, Option.some.injEq] at h
          subst h
          simp only [SegOut.docs, List.not_mem_nil, accMem, hh, SegPost.docs, List.mem_cons,
            forall_eq_or_imp, false_iff]
          grind
      | none =>
        simp only [hh] at h
        rw [ih h (by simp)]
        simp only [accMem, hh, SegPost.docs, List.mem_cons, forall_eq_or_imp]
        grind
    | bitmap bm =>
      cases bm with
      | none =>
        simp only [conjStep, Option.some.injEq] at h
        subst h
        simp [SegOut.docs, SegPost.docs]
      | some l =>
        simp only [conjStep] at h
        rw [ih h (by simp)]
        simp only [accMem, SegPost.docs, List.mem_cons, forall_eq_or_imp, List.mem_append]
        grind

theorem conjSegGo_sorted {ps : List SegPost} {acc : ConjAcc} {out : SegOut}
    (h : conjSegGo acc ps = some out) (hs : ∀ bm ∈ acc.bms, SSorted bm)
    (hp : ∀ p ∈ ps, SSorted p.docs) : SSorted out.docs := by
  induction ps generalizing acc with
  | nil =>
    simp only [conjSegGo, Option.some.injEq] at h
    subst h
    exact conjFinishSeg_sorted hs
  | cons p ps ih =>
    simp only [conjSegGo] at h
    have hp' : ∀ p ∈ ps, SSorted p.docs := fun q hq => hp q (List.mem_cons_of_mem _ hq)
    cases p with
    | empty => simp only [conjStep, Option.some.injEq] at h; subst h; simp [SegOut.docs, SSorted]
    | raw1 d => simp [conjStep] at h
    | oneHit d =>
      simp only [conjStep] at h
      cases hh : acc.hit with
      | some h0 =>
        simp only [hh] at h
        by_cases hd : h0 = d
        · subst hd
          simp only [ne_eq, not_true_eq_false, ↓reduceIte] at h
          exact ih h hs hp'
        · simp only [ne_eq, hd, not_false_eq_true, ↓reduceIte, Option.some.injEq] at h
          subst h; simp [SegOut.docs, SSorted]
      | none =>
        simp only [hh] at h
        exact ih h hs hp'
    | bitmap bm =>
      cases bm with
      | none => simp only [conjStep, Option.some.injEq] at h; subst h; simp [SegOut.docs, SSorted]
      | some l =>
        simp only [conjStep] at h
        refine ih h ?_ hp'
        intro bm hbm
        rcases List.mem_append.1 hbm with hbm | hbm
        · exact hs bm hbm
        · have : bm = l := by simpa using hbm
          subst this
          exact hp _ (List.mem_cons_self)

/-- one segment of the unadorned conjunction: the installed iterator enumerates the intersection -/
theorem conjSeg_mem {ps : List SegPost} {out : SegOut} {x : Nat} (h : conjSeg ps = some out) (hne : ps ≠ []) :
    x ∈ out.docs ↔ ∀ p ∈ ps, x ∈ p.docs := by
  unfold conjSeg at h
  rw [conjSegGo_mem h (by simp [hne])]
  simp [accMem]

theorem conjSeg_sorted {ps : List SegPost} {out : SegOut} (h : conjSeg ps = some out)
    (hp : ∀ p ∈ ps, SSorted p.docs) : SSorted out.docs :=
  conjSegGo_sorted h (by simp) hp

/-- one segment of the unadorned disjunction: the installed bitmap is the union -/
theorem disjSeg_mem {ps : List SegPost} {out : SegOut} {x : Nat} (h : disjSeg ps = some out) :
    x ∈ out.docs ↔ ∃ p ∈ ps, x ∈ p.docs := by
  unfold disjSeg at h
  split at h
  · rename_i hopt
    simp only [Option.some.injEq] at h
    subst h
    simp only [SegOut.docs, mem_orInto, mem_foldl_orInto, List.not_mem_nil, false_or, List.mem_filterMap]
    constructor
    · rintro (⟨b, ⟨p, hp, hpb⟩, hx⟩ | ⟨p, hp, hpx⟩)
      · refine ⟨p, hp, ?_⟩
        cases p with
        | bitmap bm => cases bm <;> simp_all [SegPost.actual?, SegPost.docs]
        | _ => simp [SegPost.actual?] at hpb
      · refine ⟨p, hp, ?_⟩
        cases p with
        | oneHit d => simp_all [SegPost.hit?, SegPost.docs]
        | _ => simp [SegPost.hit?] at hpx
    · rintro ⟨p, hp, hx⟩
      have ho := List.all_eq_true.1 hopt p hp
      cases p with
      | empty => simp [SegPost.optimizable] at ho
      | raw1 d => simp [SegPost.optimizable] at ho
      | oneHit d =>
        right; exact ⟨.oneHit d, hp, by simpa [SegPost.docs, SegPost.hit?, eq_comm] using hx⟩
      | bitmap bm =>
        cases bm with
        | none => simp [SegPost.docs] at hx
        | some l => left; exact ⟨l, ⟨.bitmap (some l), hp, rfl⟩, by simpa [SegPost.docs] using hx⟩
  · simp at h

theorem disjSeg_sorted {ps : List SegPost} {out : SegOut} (h : disjSeg ps = some out) : SSorted out.docs := by
  unfold disjSeg at h
  split at h
  · simp only [Option.some.injEq] at h
    subst h
    exact sorted_orInto (sorted_foldl_orInto (by simp [SSorted]))
  · simp at h

end Bluge.C08

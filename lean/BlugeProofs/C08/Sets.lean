import Bluge.Layout
/-! helper lemmas for C08: the sorted-set operations -/
namespace Bluge.C08
open Bluge.Layout

theorem mem_ins {d x : Nat} {l : List Nat} : x ∈ ins d l ↔ x = d ∨ x ∈ l := by
  induction l with
  | nil => simp [ins]
  | cons a l ih =>
    unfold ins
    split
    · simp
    · split
      · subst_vars; simp
      · simp [ih]; grind

theorem sorted_ins {d : Nat} {l : List Nat} (h : SSorted l) : SSorted (ins d l) := by
  induction l with
  | nil => simp [ins, SSorted]
  | cons a l ih =>
    unfold ins
    split
    · rename_i hlt
      refine List.Pairwise.cons ?_ h
      intro y hy
      rcases List.mem_cons.1 hy with rfl | hy
      · exact hlt
      · exact Nat.lt_trans hlt (List.rel_of_pairwise_cons h hy)
    · split
      · exact h
      · rename_i h1 h2
        refine List.Pairwise.cons ?_ (ih h.tail)
        intro y hy
        rcases mem_ins.1 hy with rfl | hy
        · omega
        · exact List.rel_of_pairwise_cons h hy

theorem mem_orInto {a b : List Nat} {x : Nat} : x ∈ orInto a b ↔ x ∈ a ∨ x ∈ b := by
  unfold orInto
  induction b generalizing a with
  | nil => simp
  | cons d b ih => simp [List.foldl_cons, ih, mem_ins]; grind

theorem sorted_orInto {a b : List Nat} (h : SSorted a) : SSorted (orInto a b) := by
  unfold orInto
  induction b generalizing a with
  | nil => simpa
  | cons d b ih => simp only [List.foldl_cons]; exact ih (sorted_ins h)

theorem mem_andBM {a b : List Nat} {x : Nat} : x ∈ andBM a b ↔ x ∈ a ∧ x ∈ b := by
  simp [andBM]

theorem sorted_andBM {a b : List Nat} (h : SSorted a) : SSorted (andBM a b) :=
  List.Pairwise.filter _ h

theorem mem_andAll {a : List Nat} {bs : List (List Nat)} {x : Nat} :
    x ∈ andAll a bs ↔ x ∈ a ∧ ∀ b ∈ bs, x ∈ b := by
  induction bs generalizing a with
  | nil => simp [andAll]
  | cons b bs ih => simp [andAll, ih, mem_andBM]; grind

theorem sorted_andAll {a : List Nat} {bs : List (List Nat)} (h : SSorted a) : SSorted (andAll a bs) := by
  induction bs generalizing a with
  | nil => simpa [andAll]
  | cons b bs ih => exact ih (sorted_andBM h)

theorem sorted_foldl_orInto {bms : List (List Nat)} {a : List Nat} (h : SSorted a) :
    SSorted (bms.foldl orInto a) := by
  induction bms generalizing a with
  | nil => simpa
  | cons b bms ih => exact ih (sorted_orInto h)

theorem mem_foldl_orInto {bms : List (List Nat)} {a : List Nat} {x : Nat} :
    x ∈ bms.foldl orInto a ↔ x ∈ a ∨ ∃ b ∈ bms, x ∈ b := by
  induction bms generalizing a with
  | nil => simp
  | cons b bms ih => simp [ih, mem_orInto]; grind

/-- two strictly increasing lists with the same elements are equal -/
theorem sorted_ext {a b : List Nat} (ha : SSorted a) (hb : SSorted b) (h : ∀ x, x ∈ a ↔ x ∈ b) : a = b := by
  apply List.Perm.eq_of_pairwise (le := fun x y => x < y) _ ha hb
  · apply (List.perm_ext_iff_of_nodup _ _).2 h
    · exact ha.imp (fun h => Nat.ne_of_lt h)
    · exact hb.imp (fun h => Nat.ne_of_lt h)
  · intro x y _ _ h1 h2; omega

end Bluge.C08

import BlugeGen.C08
import BlugeProofs.C08.Facts
/-! # C08 — Gen obligations

`BlugeGen.C08` is rewritten from /repo's working tree by `go/extract/c08.go` on every run of `./check C08`. The theorems
below oblige what the extractor finds there NOW to be what the model `Bluge/Layout.lean` was transcribed from
(`BlugeProofs/C08/Facts.lean`: every expected table is annotated with the definition of the model it justifies).

Kept apart from `BlugeProofs.C08` so that a module importing the property theorems does not depend on the regenerated
layer. `checks/c08.py` lists this module in `LAKE_TARGETS` / `AUDIT_MODULES`. -/
namespace Bluge.C08
open Bluge.C08

/-- the dispatch of `postingsIterator.Optimize` on the kinds "conjunction", "conjunction:unadorned",
"disjunction:unadorned" (each behind its configuration switch), and the three collectors of term field readers -/
theorem gen_optimize_dispatch :
    BlugeGen.C08.optimizeDispatch = Expected.optimizeDispatch ∧
    BlugeGen.C08.optimizeConjunctionCollect = Expected.optimizeConjunctionCollect ∧
    BlugeGen.C08.optimizeConjunctionUnadornedCollect = Expected.optimizeConjunctionUnadornedCollect ∧
    BlugeGen.C08.optimizeDisjunctionUnadornedCollect = Expected.optimizeDisjunctionUnadornedCollect :=
  ⟨rfl, rfl, rfl, rfl⟩

/-- `optimizeConjunctionUnadorned.Finish` is, statement by statement, what `conjStep` / `conjFinishSeg` / `conjSegGo` /
`Snap.conjFinish` were transcribed from (per-segment loop, 1-hit state declared inside it, the empty short-cuts, `roaring.And`
then in-place `And`, the three kinds of installed iterators) -/
theorem gen_conj_unadorned_finish : BlugeGen.C08.conjUnadornedFinish = Expected.conjUnadornedFinish := rfl

/-- `optimizeDisjunctionUnadorned.Finish` is what `disjSeg` / `Snap.disjFinish` were transcribed from (give up on a
non-optimizable iterator, 1-hits collected as numbers, HeapOr / Or / Clone / New then `AddMany`) -/
theorem gen_disj_unadorned_finish : BlugeGen.C08.disjUnadornedFinish = Expected.disjUnadornedFinish := rfl

/-- `optimizeConjunction.Finish` is what `pdFun` / `pushdownSeg` / `Snap.pushdown` were transcribed from -/
theorem gen_pushdown_finish : BlugeGen.C08.pushdownFinish = Expected.pushdownFinish := rfl

/-- the per-segment iterators the unadorned rewrites install enumerate LOCAL numbers inside the multi-segment
`postingsIterator` of the snapshot (`SegOut.docs`, `Snap.enumOuts`), and `ReplaceActual` swaps the bitmap -/
theorem gen_unadorned_iterators :
    BlugeGen.C08.newFromBitmap = Expected.newFromBitmap ∧
    BlugeGen.C08.newFrom1Hit = Expected.newFrom1Hit ∧
    BlugeGen.C08.bitmapNextDocNumAtOrAfter = Expected.bitmapNextDocNumAtOrAfter ∧
    BlugeGen.C08.oneHitNextDocNumAtOrAfter = Expected.oneHitNextDocNumAtOrAfter ∧
    BlugeGen.C08.bitmapReplaceActual = Expected.bitmapReplaceActual ∧
    BlugeGen.C08.snapshotUnadornedPostingsIterator = Expected.snapshotUnadornedPostingsIterator :=
  ⟨rfl, rfl, rfl, rfl, rfl, rfl⟩

/-- when the searcher package attempts which rewrite (`NewConjunctionSearcher`, `newDisjunctionSearcher`,
`optionsDisjunctionOptimizable`, `optimizeCompositeSearcher`) and the `minSearcher` wrap that keeps `Min()`
(`Layout.newDisjunctionSearcher`, `rewrittenMin`; the `Min()` conjunct of `opt_equiv`) -/
theorem gen_rewrite_guards :
    BlugeGen.C08.newConjunctionSearcher = Expected.newConjunctionSearcher ∧
    BlugeGen.C08.newDisjunctionSearcher = Expected.newDisjunctionSearcher ∧
    BlugeGen.C08.optimizeCompositeSearcher = Expected.optimizeCompositeSearcher ∧
    BlugeGen.C08.optionsDisjunctionOptimizable = Expected.optionsDisjunctionOptimizable :=
  ⟨rfl, rfl, rfl, rfl⟩

/-- the offline writer is what `OffW.insert` / `flush` / `doMerge` / `close` / `closeEmpty` (`Layout.offlineRun`) were
transcribed from: flush when `batchCount > batchSize`, one segment per flushed batch, groups of `mergeMax` cut off the
front and the merged segment appended at the END of the queue, the empty-corpus branch of `Close` -/
theorem gen_offline_writer :
    BlugeGen.C08.offlineInsert = Expected.offlineInsert ∧
    BlugeGen.C08.offlineClose = Expected.offlineClose ∧
    BlugeGen.C08.writerOfflineBatch = Expected.writerOfflineBatch ∧
    BlugeGen.C08.writerOfflineDoMerge = Expected.writerOfflineDoMerge ∧
    BlugeGen.C08.writerOfflineClose = Expected.writerOfflineClose :=
  ⟨rfl, rfl, rfl, rfl, rfl⟩

/-- `Snapshot.Backup` / `Reader.Backup` persist the segments and then the snapshot, stopping at the first error
(`Layout.backup`), and `OpenReader` opens the first snapshot of the descending listing that loads, or fails
(`BDir.openReader`) -/
theorem gen_backup_and_open :
    BlugeGen.C08.snapshotBackup = Expected.snapshotBackup ∧
    BlugeGen.C08.readerBackup = Expected.readerBackup ∧
    BlugeGen.C08.openReader = Expected.openReader :=
  ⟨rfl, rfl, rfl⟩

/-- the classified facts: fresh bitmaps (package functions of roaring / `Clone`), in-place calls on the fresh bitmap only,
the 1-hit state of the unadorned conjunction is per segment, iterators installed under the segment index, which installed
iterator is optimizable, posting numbers get the segment offset, `loadSnapshot` offsets are running sums of full counts,
the guards of the rewrites and the `minSearcher` wrap, the offline writer's `>` flush test, `mergeMax = 10`, the merge queue,
Backup's order segments → snapshot -/
theorem gen_derived_facts : BlugeGen.C08.derived = Expected.derived := rfl

end Bluge.C08

import Bluge.Layout
/-! helper lemmas for C08: the offline writer -/
namespace Bluge.C08
open Bluge.Layout

variable {α : Type}

/-- the documents a writer state holds, in order: flushed segments, then the open batch -/
def qdocs (q : List (Nat × List α)) : List α := q.flatMap (·.2)

def content (w : OffW α) : List α := qdocs w.queue ++ w.batch

/-- structural invariant: the segment files are exactly the queued ids, ids increase along the
queue and are below `segCount`; `batchCount` counts the open batch -/
def SInv (w : OffW α) : Prop :=
  w.files = w.queue.map (·.1) ∧ (w.queue.map (·.1)).Pairwise (· < ·) ∧ (∀ p ∈ w.queue, p.1 < w.segCount) ∧
  w.batchCount = w.batch.length

theorem qdocs_append (a b : List (Nat × List α)) : qdocs (a ++ b) = qdocs a ++ qdocs b := by
  simp [qdocs, List.flatMap_append]

theorem SInv_init : SInv ({} : OffW α) := by simp [SInv]

theorem flush_spec (w : OffW α) (h : SInv w) :
    SInv { w.flush with batch := [], batchCount := 0 } ∧ qdocs w.flush.queue = content w := by
  unfold OffW.flush
  split
  · rename_i hb
    have : w.batch = [] := by simpa using hb
    refine ⟨⟨h.1, h.2.1, h.2.2.1, by simp⟩, by simp [content, this]⟩
  · obtain ⟨h1, h2, h3, h4⟩ := h
    refine ⟨⟨?_, ?_, ?_, by simp⟩, by simp [content, qdocs]⟩
    · simp [h1]
    · simp only [List.map_append, List.map_cons, List.map_nil]
      refine List.pairwise_append.2 ⟨h2, by simp, ?_⟩
      intro a ha b hb'
      obtain ⟨p, hp, rfl⟩ := List.mem_map.1 ha
      have : b = w.segCount := by simpa using hb'
      subst this; exact h3 p hp
    · intro p hp
      rcases List.mem_append.1 hp with hp | hp
      · have := h3 p hp
        show p.1 < w.segCount + 1
        omega
      · have : p = (w.segCount, w.batch) := by simpa using hp
        subst this
        show w.segCount < w.segCount + 1
        omega

theorem insert_spec (bs : Nat) (w : OffW α) (d : α) (h : SInv w) :
    SInv (w.insert bs d) ∧ content (w.insert bs d) = content w ++ [d] := by
  unfold OffW.insert
  simp only
  have h1 : SInv { w with batch := w.batch ++ [d], batchCount := w.batchCount + 1 } :=
    ⟨h.1, h.2.1, h.2.2.1, by simp [h.2.2.2]⟩
  split
  · obtain ⟨a, b⟩ := flush_spec _ h1
    refine ⟨a, ?_⟩
    simp only [content, List.append_nil]
    rw [b]; simp [content, List.append_assoc]
  · exact ⟨h1, by simp [content, List.append_assoc]⟩

theorem inserts_spec (bs : Nat) (docs : List α) (w : OffW α) (h : SInv w) :
    SInv (docs.foldl (OffW.insert bs) w) ∧ content (docs.foldl (OffW.insert bs) w) = content w ++ docs := by
  induction docs generalizing w with
  | nil => simp [h]
  | cons d docs ih =>
    obtain ⟨a, b⟩ := insert_spec bs w d h
    obtain ⟨c, e⟩ := ih _ a
    exact ⟨c, by rw [List.foldl_cons, e, b]; simp⟩

/-- filtering the merged ids out of the file list leaves the files of the remaining queue + the new one -/
theorem filter_files (ids rest : List Nat) (n : Nat) (hs : (ids ++ rest).Pairwise (· < ·))
    (hn : ∀ a ∈ ids ++ rest, a < n) :
    ((ids ++ rest) ++ [n]).filter (fun f => !ids.contains f) = rest ++ [n] := by
  obtain ⟨h1, h2, h3⟩ := List.pairwise_append.1 hs
  rw [List.filter_append, List.filter_append]
  have e1 : ids.filter (fun f => !ids.contains f) = [] := by
    apply List.filter_eq_nil_iff.2; intro a ha; simp [ha]
  have e2 : rest.filter (fun f => !ids.contains f) = rest := by
    apply List.filter_eq_self.2; intro a ha
    have : a ∉ ids := fun hc => by have := h3 a hc a ha; omega
    simp [this]
  have e3 : [n].filter (fun f => !ids.contains f) = [n] := by
    have : n ∉ ids := fun hc => by have := hn n (List.mem_append_left _ hc); omega
    simp [this]
  rw [e1, e2, e3]; simp

theorem doMerge_spec (mm : Nat) (hmm : 2 ≤ mm) (fuel : Nat) (w : OffW α) (h : SInv w)
    (hf : w.queue.length ≤ fuel) :
    SInv (w.doMerge mm fuel) ∧ (w.doMerge mm fuel).queue.length ≤ 1 ∧
    (w.queue ≠ [] → (w.doMerge mm fuel).queue ≠ []) ∧
    (qdocs (w.doMerge mm fuel).queue).Perm (qdocs w.queue) ∧
    (w.queue.length ≤ mm → qdocs (w.doMerge mm fuel).queue = qdocs w.queue) := by
  induction fuel generalizing w with
  | zero =>
    have : w.queue = [] := List.eq_nil_of_length_eq_zero (by omega)
    simp [OffW.doMerge, h, this]
  | succ fuel ih =>
    unfold OffW.doMerge
    by_cases hl : w.queue.length > 1
    · rw [if_pos hl]
      simp only
      obtain ⟨h1, h2, h3, h4⟩ := h
      generalize hk : (if mm > w.queue.length then w.queue.length else mm) = k
      have hk2 : 2 ≤ k ∧ k ≤ w.queue.length := by split at hk <;> omega
      -- the state after one round
      have hsplit : w.queue = w.queue.take k ++ w.queue.drop k := (List.take_append_drop k _).symm
      have hids : w.queue.map (·.1) = (w.queue.take k).map (·.1) ++ (w.queue.drop k).map (·.1) := by
        rw [← List.map_append, List.take_append_drop]
      have hinv : SInv { w with queue := w.queue.drop k ++ [(w.segCount, (w.queue.take k).flatMap (·.2))],
                                files := (w.files ++ [w.segCount]).filter (fun f => !((w.queue.take k).map (·.1)).contains f),
                                segCount := w.segCount + 1 } := by
        refine ⟨?_, ?_, ?_, h4⟩
        · simp only [List.map_append, List.map_cons, List.map_nil]
          rw [h1, hids]
          apply filter_files
          · rw [← hids]; exact h2
          · intro a ha; rw [← hids] at ha
            obtain ⟨p, hp, rfl⟩ := List.mem_map.1 ha; exact h3 p hp
        · simp only [List.map_append, List.map_cons, List.map_nil]
          refine List.pairwise_append.2 ⟨?_, by simp, ?_⟩
          · rw [hids] at h2; exact (List.pairwise_append.1 h2).2.1
          · intro a ha b hb
            obtain ⟨p, hp, rfl⟩ := List.mem_map.1 ha
            have : b = w.segCount := by simpa using hb
            subst this; exact h3 p (List.mem_of_mem_drop hp)
        · intro p hp
          rcases List.mem_append.1 hp with hp | hp
          · have := h3 p (List.mem_of_mem_drop hp); simp only; omega
          · have : p = (w.segCount, (w.queue.take k).flatMap (·.2)) := by simpa using hp
            subst this; simp
      have hlen : (w.queue.drop k ++ [(w.segCount, (w.queue.take k).flatMap (·.2))]).length ≤ fuel := by
        simp; omega
      obtain ⟨i1, i2, i3, i4, i5⟩ := ih _ hinv hlen
      have hq : qdocs (w.queue.drop k ++ [(w.segCount, (w.queue.take k).flatMap (·.2))])
          = qdocs (w.queue.drop k) ++ qdocs (w.queue.take k) := by
        simp [qdocs]
      refine ⟨i1, i2, fun _ => i3 (by simp), ?_, ?_⟩
      · refine i4.trans ?_
        rw [hq]
        have : qdocs w.queue = qdocs (w.queue.take k) ++ qdocs (w.queue.drop k) := by
          rw [← qdocs_append, List.take_append_drop]
        rw [this]; exact List.perm_append_comm
      · intro hle
        have hkk : k = w.queue.length := by split at hk <;> omega
        have hd : w.queue.drop k = [] := by rw [hkk]; simp
        have ht : w.queue.take k = w.queue := by rw [hkk]; simp
        have := i5 (by simp [hd]; omega)
        rw [this, hq, hd, ht]; simp [qdocs]
    · rw [if_neg hl]
      exact ⟨h, by omega, fun h => h, List.Perm.refl _, fun _ => rfl⟩

/-- the writer state when `Close` reaches `doMerge` -/
def flushed (bs : Nat) (docs : List α) : OffW α :=
  let w := docs.foldl (OffW.insert bs) {}
  if w.batchCount > 0 then w.flush else w

theorem flushed_spec (bs : Nat) (docs : List α) :
    SInv (flushed bs docs) ∧ qdocs (flushed bs docs).queue = docs := by
  obtain ⟨a, b⟩ := inserts_spec bs docs ({} : OffW α) SInv_init
  have b' : content (docs.foldl (OffW.insert bs) {}) = docs := by simpa [content, qdocs] using b
  unfold flushed
  simp only
  split
  · obtain ⟨c, e⟩ := flush_spec _ a
    refine ⟨?_, by rw [e, b']⟩
    -- flush keeps batch/batchCount: rebuild the invariant
    obtain ⟨c1, c2, c3, _⟩ := c
    exact ⟨c1, c2, c3, by
      have := a.2.2.2
      unfold OffW.flush; split <;> simpa using this⟩
  · rename_i hz
    have hb : (docs.foldl (OffW.insert bs) {}).batch = [] := by
      have := a.2.2.2
      exact List.eq_nil_of_length_eq_zero (by omega)
    exact ⟨a, by simpa [content, hb] using b'⟩

end Bluge.C08

import BlugeProofs.C08.ViaC07Lemmas
/-! # C08 — layout independence of the ANSWERS OF THE SEARCHER MACHINES, from C07

`BlugeProofs.C08.layout_irrelevant` is about queries whose meaning is a predicate on single documents, evaluated by
filtering the live documents of a layout. This module derives layout independence for what the modelled SEARCHERS
return: by `C07_exact_repaired_partial` the searcher tree the current code builds for a query, run over the per-segment
postings iterator machines of a snapshot (`Plan.runSeg`: offsets, the fall-through over segments, `Advance` by
`sort.Search` over the offsets, restarts), returns `denote idx q` — which only reads the live documents. Two snapshots
with the same live documents as a multiset — ANY segmentation, ANY pending deletions, ANY doc numbers — therefore return
the same documents for every query the C07 theorem covers.

Bridging definitions and helper lemmas: `BlugeProofs/C08/ViaC07Lemmas.lean` (`snapLayoutOf`, `indexOf`, `docsAt`).

A module of its own (listed in `LAKE_TARGETS` / `AUDIT_MODULES` of checks/c08.py): `BlugeProofs.C07` imports C07's
regenerated layer `BlugeGen.C07`, which `BlugeProofs.C08` must not depend on. `go/extract/c08.go` brings that layer up
to date for the tree under check (genC07). -/
namespace Bluge.C08
open Bluge.Layout Bluge.Search Bluge.C07

/-- **two snapshots with the same live documents give the same answers** — for ANY snapshot layouts with
well-formed offsets, ANY indexes over them (doc numbers strictly increasing, below the snapshot's total: any
renaming of doc numbers) whose documents are the same multiset, and every query in which each boolean has a
clause and whose plan passes the decidable `okB` the C07 driver evaluates: the searcher machines of both
snapshots return `denote` of their index, the documents returned are the same multiset — the same ids, the
same stored content, the same count. -/
theorem same_documents_same_answers {sn₁ sn₂ : SnapLayout} (hsn₁ : offsetsOK 0 sn₁ = true) (hsn₂ : offsetsOK 0 sn₂ = true)
    {idx₁ idx₂ : C07.Index} {W₁ W₂ : Nat} (hwf₁ : idx₁.WF sn₁.total) (hwf₂ : idx₂.WF sn₂.total)
    (hsame : (idx₁.map (·.2)).Perm (idx₂.map (·.2)))
    (q : Query) (hq : q.hasClauses = true)
    (hok₁ : (compile idx₁ q.norm).okB sn₁.total W₁ = true) (hok₂ : (compile idx₂ q.norm).okB sn₂.total W₂ = true) :
    (compile idx₁ q.norm).runSeg sn₁ W₁ = denote idx₁ q ∧ (compile idx₂ q.norm).runSeg sn₂ W₂ = denote idx₂ q ∧
    (docsAt idx₁ ((compile idx₁ q.norm).runSeg sn₁ W₁)).Perm (docsAt idx₂ ((compile idx₂ q.norm).runSeg sn₂ W₂)) ∧
    (∀ id, id ∈ (docsAt idx₁ ((compile idx₁ q.norm).runSeg sn₁ W₁)).map (·.id) ↔
           id ∈ (docsAt idx₂ ((compile idx₂ q.norm).runSeg sn₂ W₂)).map (·.id)) ∧
    ((compile idx₁ q.norm).runSeg sn₁ W₁).length = ((compile idx₂ q.norm).runSeg sn₂ W₂).length := by
  have e₁ := (C07_exact_repaired_partial hsn₁ hwf₁ q hq hok₁).1
  have e₂ := (C07_exact_repaired_partial hsn₂ hwf₂ q hq hok₂).1
  have hp : (docsAt idx₁ (denote idx₁ q)).Perm (docsAt idx₂ (denote idx₂ q)) := by
    rw [docsAt_denote idx₁ hwf₁.1, docsAt_denote idx₂ hwf₂.1]
    exact hsame.filter _
  have hlen : ∀ idx : C07.Index, (idx.map (·.1)).Pairwise (· < ·) → (denote idx q).length = (docsAt idx (denote idx q)).length := by
    intro idx h
    rw [docsAt_denote idx h]
    unfold denote
    rw [List.filter_map]
    simp only [List.length_map]
    rfl
  rw [e₁, e₂]
  refine ⟨rfl, rfl, hp, fun id => (hp.map (·.id)).mem_iff, ?_⟩
  rw [hlen idx₁ hwf₁.1, hlen idx₂ hwf₂.1]
  exact hp.length_eq

/-- **layout_irrelevant for the searcher machines**: two layouts (`Bluge.Layout`: any segmentation, any pending
deletions) with the same live documents as a multiset: the multi-segment searcher machines over their
snapshots return, for every query covered by `C07_exact_repaired_partial`, the same documents. The offsets of a
layout are well-formed and its numbering is a well-formed index by construction, so besides the query's shape
only the two `okB` side conditions remain (decidable; the C07 driver evaluates them on every query it replays). -/
theorem layout_irrelevant_searchers (L₁ L₂ : Layout C07.Doc) (h : (abs L₁).Perm (abs L₂)) {W₁ W₂ : Nat}
    (q : Query) (hq : q.hasClauses = true)
    (hok₁ : (compile (indexOf L₁) q.norm).okB (snapLayoutOf L₁).total W₁ = true)
    (hok₂ : (compile (indexOf L₂) q.norm).okB (snapLayoutOf L₂).total W₂ = true) :
    (docsAt (indexOf L₁) ((compile (indexOf L₁) q.norm).runSeg (snapLayoutOf L₁) W₁)).Perm
      (docsAt (indexOf L₂) ((compile (indexOf L₂) q.norm).runSeg (snapLayoutOf L₂) W₂)) ∧
    (∀ id, id ∈ (docsAt (indexOf L₁) ((compile (indexOf L₁) q.norm).runSeg (snapLayoutOf L₁) W₁)).map (·.id) ↔
           id ∈ (docsAt (indexOf L₂) ((compile (indexOf L₂) q.norm).runSeg (snapLayoutOf L₂) W₂)).map (·.id)) ∧
    ((compile (indexOf L₁) q.norm).runSeg (snapLayoutOf L₁) W₁).length =
      ((compile (indexOf L₂) q.norm).runSeg (snapLayoutOf L₂) W₂).length ∧
    docsAt (indexOf L₁) ((compile (indexOf L₁) q.norm).runSeg (snapLayoutOf L₁) W₁) = (abs L₁).filter (fun d => sat d q) := by
  unfold snapLayoutOf at hok₁ hok₂ ⊢
  have hs : ((indexOf L₁).map (·.2)).Perm ((indexOf L₂).map (·.2)) := by
    rw [indexOf_docs, indexOf_docs]; exact h
  have r := same_documents_same_answers (offsetsOK_snapLayoutFrom L₁ 0) (offsetsOK_snapLayoutFrom L₂ 0)
    (indexOf_wf L₁) (indexOf_wf L₂) hs q hq hok₁ hok₂
  refine ⟨r.2.2.1, r.2.2.2.1, r.2.2.2.2, ?_⟩
  rw [r.1, docsAt_denote _ (indexOf_wf L₁).1, indexOf_docs]

/-- non-vacuity of `layout_irrelevant_searchers`: the same two documents as one segment, and as two segments
the first of which still carries a deleted old version — the premises hold (same live multiset, a query with
clauses, both plans pass `okB` for their snapshot) -/
example :
    let a : C07.Doc := { id := "a", terms := [("t", ["x", "y"])], nums := [], geos := [] }
    let b : C07.Doc := { id := "b", terms := [("t", ["x", "z"])], nums := [], geos := [] }
    let L₁ : Layout C07.Doc := [{ docs := [(a, false), (b, false)], stats := (0, 0, 0) }]
    let L₂ : Layout C07.Doc := [{ docs := [(b, true), (b, false)], stats := (0, 0, 0) }, { docs := [(a, false)], stats := (0, 0, 0) }]
    (abs L₁).Perm (abs L₂) ∧ (Query.term "t" "z").hasClauses = true ∧
    (compile (indexOf L₁) (Query.term "t" "z").norm).okB (snapLayoutOf L₁).total 4 = true ∧
    (compile (indexOf L₂) (Query.term "t" "z").norm).okB (snapLayoutOf L₂).total 4 = true ∧
    post (indexOf L₁) "t" "z" = [1] ∧ post (indexOf L₂) "t" "z" = [1] ∧
    (snapLayoutOf L₁, snapLayoutOf L₂) = ([(0, 2)], [(0, 2), (2, 1)]) := by
  intro a b L₁ L₂
  have hn : (Query.term "t" "z").norm = .term "t" "z" := by simp [Query.norm]
  have p1 : post (indexOf L₁) "t" "z" = [1] := by decide
  have p2 : post (indexOf L₂) "t" "z" = [1] := by decide
  have s12 : (snapLayoutOf L₁, snapLayoutOf L₂) = ([(0, 2)], [(0, 2), (2, 1)]) := by decide
  rw [hn, compile_term, compile_term, p1, p2]
  have t1 : (snapLayoutOf L₁).total = 2 := by rw [(Prod.mk.inj s12).1]; rfl
  have t2 : (snapLayoutOf L₂).total = 3 := by rw [(Prod.mk.inj s12).2]; rfl
  rw [t1, t2]
  refine ⟨List.Perm.swap _ _ [], by simp [Query.hasClauses], by simp [Plan.okB, sortedB], by simp [Plan.okB, sortedB], rfl, rfl, s12⟩

end Bluge.C08

import BlugeProofs.C08.Global
/-! helper lemmas for C08: the conjunction push-down keeps every iterator inside its old content and
keeps the intersection -/
namespace Bluge.C08
open Bluge.Layout

theorem pushdownSeg_eq_map (ps : List SegPost) : pushdownSeg ps = ps.map (pdFun ps) := rfl

theorem pdFun_spec (ps : List SegPost) (hs : ∀ q ∈ ps, SSorted q.docs) (p : SegPost) (hp : p ∈ ps) :
    (∀ x ∈ (pdFun ps p).docs, x ∈ p.docs) ∧ SSorted (pdFun ps p).docs ∧
    (∀ x, (∀ q ∈ ps, x ∈ q.docs) → x ∈ (pdFun ps p).docs) := by
  unfold pdFun
  split
  · rename_i b0 b1 rest
    -- membership in the AND of all actual bitmaps
    have hbm : ∀ x, x ∈ andAll (andBM b0 b1) (rest.filterMap SegPost.actual?)
        ↔ ∀ l, SegPost.bitmap (some l) ∈ (SegPost.bitmap (some b0) :: SegPost.bitmap (some b1) :: rest) → x ∈ l := by
      intro x
      simp only [mem_andAll, mem_andBM, List.mem_filterMap, List.mem_cons]
      constructor
      · rintro ⟨⟨h0, h1⟩, h2⟩ l (h | h | h)
        · cases h; exact h0
        · cases h; exact h1
        · exact h2 l ⟨_, h, rfl⟩
      · intro h
        refine ⟨⟨h b0 (Or.inl rfl), h b1 (Or.inr (Or.inl rfl))⟩, ?_⟩
        rintro b ⟨q, hq, hqb⟩
        cases q with
        | bitmap bm =>
          cases bm with
          | some l => simp only [SegPost.actual?, Option.some.injEq] at hqb; subst hqb; exact h _ (Or.inr (Or.inr hq))
          | none => simp [SegPost.actual?] at hqb
        | _ => simp [SegPost.actual?] at hqb
    have hsorted : SSorted (andAll (andBM b0 b1) (rest.filterMap SegPost.actual?)) :=
      sorted_andAll (sorted_andBM (by simpa [SegPost.docs] using hs (.bitmap (some b0)) List.mem_cons_self))
    cases p with
    | bitmap bm =>
      cases bm with
      | some l =>
        simp only [SegPost.replaceActual, SegPost.docs]
        refine ⟨fun x hx => (hbm x).1 hx l hp, hsorted, ?_⟩
        intro x hx
        apply (hbm x).2
        intro l' hl'
        simpa [SegPost.docs] using hx _ hl'
      | none => exact ⟨fun x hx => hx, hs _ hp, fun x hx => hx _ hp⟩
    | empty => exact ⟨fun x hx => hx, hs _ hp, fun x hx => hx _ hp⟩
    | oneHit d => exact ⟨fun x hx => hx, hs _ hp, fun x hx => hx _ hp⟩
    | raw1 d => exact ⟨fun x hx => hx, hs _ hp, fun x hx => hx _ hp⟩
  · exact ⟨fun x hx => hx, hs _ hp, fun x hx => hx _ hp⟩

theorem pushdown_post {L : Snap} (h2 : ¬ L.nT ≤ 1) {t i : Nat} (ht : t < L.nT) :
    (L.pushdown).post t i = pdFun (L.segPosts i) (L.post t i) := by
  simp only [Snap.pushdown, if_neg h2, pushdownSeg_eq_map]
  simp [Snap.segPosts, List.getD, ht]

theorem pushdown_dims (L : Snap) : (L.pushdown).nS = L.nS ∧ (L.pushdown).nT = L.nT ∧
    (L.pushdown).off = L.off ∧ (L.pushdown).size = L.size := by
  unfold Snap.pushdown; split <;> simp

theorem pushdown_wf {L : Snap} (hwf : L.wf) : (L.pushdown).wf := by
  by_cases h2 : L.nT ≤ 1
  · simpa [Snap.pushdown, h2] using hwf
  · obtain ⟨d1, d2, d3, d4⟩ := pushdown_dims L
    refine ⟨by simpa [d1, d3, d4] using hwf.1, ?_⟩
    intro t i ht hi
    rw [d2] at ht; rw [d1] at hi
    rw [pushdown_post h2 ht, d4]
    have hs : ∀ q ∈ L.segPosts i, SSorted q.docs := by
      intro q hq; obtain ⟨t', ht', rfl⟩ := mem_segPosts.1 hq; exact (hwf.2 t' i ht' hi).1
    obtain ⟨a, b, _⟩ := pdFun_spec (L.segPosts i) hs (L.post t i) (mem_segPosts.2 ⟨t, ht, rfl⟩)
    exact ⟨b, fun d hd => (hwf.2 t i ht hi).2 d (a d hd)⟩

/-- the push-down does not change which numbers are in every posting list -/
theorem pushdown_mem_all {L : Snap} (hwf : L.wf) (hT : 0 < L.nT) (x : Nat) :
    (∀ l ∈ (L.pushdown).globals, x ∈ l) ↔ (∀ l ∈ L.globals, x ∈ l) := by
  by_cases h2 : L.nT ≤ 1
  · simp [Snap.pushdown, h2]
  · obtain ⟨d1, d2, d3, d4⟩ := pushdown_dims L
    rw [mem_all_globals (pushdown_wf hwf) (by omega), mem_all_globals hwf hT, d1, d3]
    have key : ∀ i, i < L.nS → ∀ d, (∀ p ∈ (L.pushdown).segPosts i, d ∈ p.docs) ↔ (∀ p ∈ L.segPosts i, d ∈ p.docs) := by
      intro i hi d
      have hs : ∀ q ∈ L.segPosts i, SSorted q.docs := by
        intro q hq; obtain ⟨t', ht', rfl⟩ := mem_segPosts.1 hq; exact (hwf.2 t' i ht' hi).1
      constructor
      · intro h p hp
        obtain ⟨t, ht, rfl⟩ := mem_segPosts.1 hp
        have := h _ (mem_segPosts.2 ⟨t, by omega, rfl⟩)
        rw [pushdown_post h2 ht] at this
        exact (pdFun_spec _ hs _ (mem_segPosts.2 ⟨t, ht, rfl⟩)).1 d this
      · intro h p hp
        obtain ⟨t, ht, rfl⟩ := mem_segPosts.1 hp
        rw [d2] at ht
        rw [pushdown_post h2 ht]
        exact (pdFun_spec _ hs _ (mem_segPosts.2 ⟨t, ht, rfl⟩)).2.2 d h
    constructor
    · rintro ⟨i, hi, d, rfl, h⟩; exact ⟨i, hi, d, rfl, (key i hi d).1 h⟩
    · rintro ⟨i, hi, d, rfl, h⟩; exact ⟨i, hi, d, rfl, (key i hi d).2 h⟩

end Bluge.C08

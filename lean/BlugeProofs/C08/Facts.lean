/-! The statements of `index/optimize.go`, `index/unadorned.go`, `search/searcher/search_conjunction.go`, `search_disjunction.go`,
`writer_offline.go`, `index/writer_offline.go`, `index/snapshot.go` (`Backup`), `reader.go` and `index/writer.go` (`OpenReader`) that
the hand-written model `Bluge/Layout.lean` was transcribed from, in the normalised form `go/extract/c08.go` produces (statement
skeletons: one entry per statement in source order, `{` / `} else {` / `}` for the control structure; statistics counters, log
lines and the text of error messages left out), and the CLASSIFIED facts the text alone does not give (`expectedDerived`).
`BlugeProofs.C08.Gen` obliges every table regenerated from /repo's current source to be the one below. Each table names the
definition of the model it justifies (→). -/
namespace Bluge.C08.Expected


/-- `postingsIterator.Optimize`: the three kinds and their configuration switches; anything else is `nil, nil` (no rewrite).
→ `Snap.pushdown` ("conjunction"), `Snap.conjFinish` ("conjunction:unadorned"), `Snap.disjFinish` ("disjunction:unadorned"); a switch that is
off makes `optimizeCompositeSearcher` give up (`octx == nil`), which is the `enabled` argument of `newDisjunctionSearcher` -/
def optimizeDispatch : List String := [
  "if i.snapshot.parent.config.OptimizeConjunction && kind == \"conjunction\" {",
  "return i.optimizeConjunction(octx)",
  "}",
  "if i.snapshot.parent.config.OptimizeConjunctionUnadorned && kind == \"conjunction:unadorned\" {",
  "return i.optimizeConjunctionUnadorned(octx)",
  "}",
  "if i.snapshot.parent.config.OptimizeDisjunctionUnadorned && kind == \"disjunction:unadorned\" {",
  "return i.optimizeDisjunctionUnadorned(octx)",
  "}",
  "return nil, nil"
]

/-- `optimizeConjunction.Finish` → `pdFun` / `pushdownSeg` / `Snap.pushdown`: `len(o.tfrs) <= 1` leaves everything alone; per segment,
when the FIRST TWO iterators both have an actual bitmap, `bm` = their `roaring.And` (fresh), narrowed in place by every further
actual bitmap (`rest.filterMap actual?`), and every iterator that has an actual bitmap gets `ReplaceActual(bm)`; `nil, nil` is
returned, so the regular conjunction searcher runs over the narrowed iterators (`opt_pushdown_equiv`) -/
def pushdownFinish : List String := [
  "if len(o.tfrs) <= 1 {",
  "return nil, nil",
  "}",
  "for i := range o.snapshot.segment {",
  "itr0, ok := o.tfrs[0].iterators[i].(segment.OptimizablePostingsIterator)",
  "if !ok || itr0.ActualBitmap() == nil {",
  "continue",
  "}",
  "itr1, ok := o.tfrs[1].iterators[i].(segment.OptimizablePostingsIterator)",
  "if !ok || itr1.ActualBitmap() == nil {",
  "continue",
  "}",
  "bm := roaring.And(itr0.ActualBitmap(), itr1.ActualBitmap())",
  "for _, tfr := range o.tfrs[2:] {",
  "itr, ok := tfr.iterators[i].(segment.OptimizablePostingsIterator)",
  "if !ok || itr.ActualBitmap() == nil {",
  "continue",
  "}",
  "bm.And(itr.ActualBitmap())",
  "}",
  "for _, tfr := range o.tfrs {",
  "itr, ok := tfr.iterators[i].(segment.OptimizablePostingsIterator)",
  "if ok && itr.ActualBitmap() != nil {",
  "itr.ReplaceActual(bm)",
  "}",
  "}",
  "}",
  "return nil, nil"
]

/-- `optimizeConjunctionUnadorned.Finish` → `Snap.conjFinish` (`L.nT ≤ 1` ⇒ `none`), per segment `conjSeg` = `conjSegGo {}`:
the accumulator `ConjAcc` (`actualBMs` reset, the 1-hit state DECLARED inside the per-segment loop) starts empty for every
segment; `conjStep`: `Empty()` ⇒ `.emptySeg`, not optimizable ⇒ `.giveUp` (`return nil, nil`), a 1-hit that differs from the
previous one ⇒ `.emptySeg`, else remembered; nil actual bitmap ⇒ `.emptySeg`; else collected. `conjFinishSeg`: with a 1-hit
every collected bitmap must contain it (⇒ `.oneHit`, else `.empty`); no bitmap ⇒ `.empty`; one ⇒ it; else
`andAll (andBM b0 b1) rest` (`roaring.And` then in-place `And` on that fresh bitmap). The iterators are stored under the segment
index `i` of the multi-segment `oTFR` (`Snap.enumOuts`: segment `i`'s numbers get `off i`) -/
def conjUnadornedFinish : List String := [
  "if len(o.tfrs) <= 1 {",
  "return nil, nil",
  "}",
  "oTFR := o.snapshot.unadornedPostingsIterator(optimizeConjunctionUnadornedTerm, optimizeConjunctionUnadornedField)",
  "var actualBMs []*roaring.Bitmap",
  "OUTER:",
  "for i := range o.snapshot.segment {",
  "actualBMs = actualBMs[:0]",
  "var docNum1HitLast uint64",
  "var docNum1HitLastOk bool",
  "for _, tfr := range o.tfrs {",
  "if tfr.iterators[i].Empty() {",
  "oTFR.iterators[i] = anEmptyPostingsIterator",
  "continue OUTER",
  "}",
  "itr, ok := tfr.iterators[i].(segment.OptimizablePostingsIterator)",
  "if !ok {",
  "return nil, nil",
  "}",
  "docNum1Hit, ok := itr.DocNum1Hit()",
  "if ok {",
  "if docNum1HitLastOk && docNum1HitLast != docNum1Hit {",
  "oTFR.iterators[i] = anEmptyPostingsIterator",
  "continue OUTER",
  "}",
  "docNum1HitLast = docNum1Hit",
  "docNum1HitLastOk = true",
  "continue",
  "}",
  "if itr.ActualBitmap() == nil {",
  "oTFR.iterators[i] = anEmptyPostingsIterator",
  "continue OUTER",
  "}",
  "actualBMs = append(actualBMs, itr.ActualBitmap())",
  "}",
  "if docNum1HitLastOk {",
  "for _, bm := range actualBMs {",
  "if !bm.Contains(uint32(docNum1HitLast)) {",
  "oTFR.iterators[i] = anEmptyPostingsIterator",
  "continue OUTER",
  "}",
  "}",
  "oTFR.iterators[i] = newUnadornedPostingsIteratorFrom1Hit(docNum1HitLast)",
  "continue OUTER",
  "}",
  "if len(actualBMs) == 0 {",
  "oTFR.iterators[i] = anEmptyPostingsIterator",
  "continue OUTER",
  "}",
  "if len(actualBMs) == 1 {",
  "oTFR.iterators[i] = newUnadornedPostingsIteratorFromBitmap(actualBMs[0])",
  "continue OUTER",
  "}",
  "bm := roaring.And(actualBMs[0], actualBMs[1])",
  "for _, actualBM := range actualBMs[2:] {",
  "bm.And(actualBM)",
  "}",
  "oTFR.iterators[i] = newUnadornedPostingsIteratorFromBitmap(bm)",
  "}",
  "return oTFR, nil"
]

/-- `optimizeDisjunctionUnadorned.Finish` → `Snap.disjFinish`, per segment `disjSeg`: any iterator that is not optimizable ⇒ `none`
(`return nil, nil`, in the pre-pass or in the build loop: `ps.all optimizable`); `docNums` = the 1-hits (`filterMap hit?`), `actualBMs`
= the non-nil actual bitmaps (`filterMap actual?`), both reset per segment; `bm` = HeapOr / Or / Clone / New of them — a FRESH
bitmap in every branch — then `AddMany(docNums)` (`orInto (bms.foldl orInto []) docNums`), installed under the segment index `i` -/
def disjUnadornedFinish : List String := [
  "if len(o.tfrs) <= 1 {",
  "return nil, nil",
  "}",
  "for i := range o.snapshot.segment {",
  "var cMax uint64",
  "for _, tfr := range o.tfrs {",
  "itr, ok := tfr.iterators[i].(segment.OptimizablePostingsIterator)",
  "if !ok {",
  "return nil, nil",
  "}",
  "if itr.ActualBitmap() != nil {",
  "c := itr.ActualBitmap().GetCardinality()",
  "if cMax < c {",
  "cMax = c",
  "}",
  "}",
  "}",
  "}",
  "oTFR := o.snapshot.unadornedPostingsIterator(optimizeDisjunctionUnadornedTerm, optimizeDisjunctionUnadornedField)",
  "var docNums []uint32",
  "var actualBMs []*roaring.Bitmap",
  "for i := range o.snapshot.segment {",
  "docNums = docNums[:0]",
  "actualBMs = actualBMs[:0]",
  "for _, tfr := range o.tfrs {",
  "itr, ok := tfr.iterators[i].(segment.OptimizablePostingsIterator)",
  "if !ok {",
  "return nil, nil",
  "}",
  "docNum, ok := itr.DocNum1Hit()",
  "if ok {",
  "docNums = append(docNums, uint32(docNum))",
  "continue",
  "}",
  "if itr.ActualBitmap() != nil {",
  "actualBMs = append(actualBMs, itr.ActualBitmap())",
  "}",
  "}",
  "var bm *roaring.Bitmap",
  "if len(actualBMs) > preferHeapOr {",
  "bm = roaring.HeapOr(actualBMs...)",
  "} else if len(actualBMs) == preferHeapOr {",
  "bm = roaring.Or(actualBMs[0], actualBMs[1])",
  "} else if len(actualBMs) == 1 {",
  "bm = actualBMs[0].Clone()",
  "}",
  "if bm == nil {",
  "bm = roaring.New()",
  "}",
  "bm.AddMany(docNums)",
  "oTFR.iterators[i] = newUnadornedPostingsIteratorFromBitmap(bm)",
  "}",
  "return oTFR, nil"
]

/-- `postingsIterator.optimizeConjunction`: appends the term field reader to `o.tfrs` (`Snap.post t i` = `o.tfrs[t].iterators[i]`) -/
def optimizeConjunctionCollect : List String := [
  "if octx == nil {",
  "octx = &optimizeConjunction{snapshot: i.snapshot}",
  "}",
  "o, ok := octx.(*optimizeConjunction)",
  "if !ok {",
  "return octx, nil",
  "}",
  "if o.snapshot != i.snapshot {",
  "return nil, fmt.Errorf(…)",
  "}",
  "o.tfrs = append(o.tfrs, i)",
  "return o, nil"
]

/-- `postingsIterator.optimizeConjunctionUnadorned`: the same for the unadorned conjunction (`Snap.nT` = `len(o.tfrs)`) -/
def optimizeConjunctionUnadornedCollect : List String := [
  "if octx == nil {",
  "octx = &optimizeConjunctionUnadorned{snapshot: i.snapshot}",
  "}",
  "o, ok := octx.(*optimizeConjunctionUnadorned)",
  "if !ok {",
  "return nil, nil",
  "}",
  "if o.snapshot != i.snapshot {",
  "return nil, fmt.Errorf(…)",
  "}",
  "o.tfrs = append(o.tfrs, i)",
  "return o, nil"
]

/-- `postingsIterator.optimizeDisjunctionUnadorned`: the same for the unadorned disjunction -/
def optimizeDisjunctionUnadornedCollect : List String := [
  "if octx == nil {",
  "octx = &optimizeDisjunctionUnadorned{snapshot: i.snapshot}",
  "}",
  "o, ok := octx.(*optimizeDisjunctionUnadorned)",
  "if !ok {",
  "return nil, nil",
  "}",
  "if o.snapshot != i.snapshot {",
  "return nil, fmt.Errorf(…)",
  "}",
  "o.tfrs = append(o.tfrs, i)",
  "return o, nil"
]

/-- `newUnadornedPostingsIteratorFromBitmap` → `SegOut.bitmap l` (`SegOut.docs` = the bitmap's content) -/
def newFromBitmap : List String := [
  "return &unadornedPostingsIteratorBitmap{actualBM: bm, actual: bm.Iterator()}"
]

/-- `newUnadornedPostingsIteratorFrom1Hit` → `SegOut.oneHit d` -/
def newFrom1Hit : List String := [
  "return &unadornedPostingsIterator1Hit{docNum1Hit}"
]

/-- `unadornedPostingsIteratorBitmap.nextDocNumAtOrAfter`: enumerates the bitmap, LOCAL numbers (`SegOut.docs`); the offset is added
by the enclosing `postingsIterator` (`enumerate`, derived facts `offsets`) -/
def bitmapNextDocNumAtOrAfter : List String := [
  "if i.actual == nil || !i.actual.HasNext() {",
  "return 0, false",
  "}",
  "i.actual.AdvanceIfNeeded(uint32(atOrAfter))",
  "if !i.actual.HasNext() {",
  "return 0, false",
  "}",
  "return int(i.actual.Next()), true"
]

/-- `unadornedPostingsIterator1Hit.nextDocNumAtOrAfter`: the one LOCAL number, once (`SegOut.docs (.oneHit d) = [d]`) -/
def oneHitNextDocNumAtOrAfter : List String := [
  "if i.docNum == docNum1HitFinished {",
  "return 0, false",
  "}",
  "if i.docNum < atOrAfter {",
  "i.docNum = docNum1HitFinished",
  "return 0, false",
  "}",
  "docNum := i.docNum",
  "i.docNum = docNum1HitFinished",
  "return docNum, true"
]

/-- `unadornedPostingsIteratorBitmap.ReplaceActual` → `SegPost.replaceActual` -/
def bitmapReplaceActual : List String := [
  "i.actualBM = actual",
  "i.actual = actual.Iterator()"
]

/-- `Snapshot.unadornedPostingsIterator`: a `postingsIterator` over THIS snapshot with one slot per segment — what `Snap.enumOuts`
enumerates (`enumerate L.nS L.off …`) -/
def snapshotUnadornedPostingsIterator : List String := [
  "return &postingsIterator{term: term, field: field, snapshot: i, iterators: make([]segment.PostingsIterator, len(i.segment)), segmentOffset: 0, includeFreq: false, includeNorm: false, includeTermVectors: false, recycle: false}"
]

/-- `NewConjunctionSearcher`: the unadorned rewrite is attempted first, for more than one searcher under score "none" without term
vectors; otherwise / when it gives up, the push-down is attempted for more than one searcher and (it returns nil) the regular
`ConjunctionSearcher` is built → the `opt` stream's `cU` / `cS` columns, `opt_conj_unadorned_equiv`, `opt_pushdown_equiv` -/
def newConjunctionSearcher : List String := [
  "searchers := make(OrderedSearcherList, len(qsearchers))",
  "for i, searcher := range qsearchers {",
  "searchers[i] = searcher",
  "}",
  "sort.Sort(searchers)",
  "if len(searchers) > 1 && options.Score == optionScoringNone && !options.IncludeTermVectors {",
  "rv, err := optimizeCompositeSearcher(\"conjunction:unadorned\", indexReader, searchers, options)",
  "if err != nil || rv != nil {",
  "return rv, err",
  "}",
  "}",
  "rv := ConjunctionSearcher{options: options, searchers: searchers, currs: make([]*search.DocumentMatch, len(searchers)), scorer: scorer}",
  "if len(searchers) > 1 {",
  "rv, err := optimizeCompositeSearcher(\"conjunction\", indexReader, searchers, options)",
  "if err != nil || rv != nil {",
  "return rv, err",
  "}",
  "}",
  "return &rv, nil"
]

/-- `newDisjunctionSearcher` → `Layout.newDisjunctionSearcher`: the rewrite is attempted iff `len(qsearchers) > 1 && min <= 1 &&
score none && !term vectors` (`L.nT > 1 ∧ min ≤ 1 ∧ scoreNone ∧ enabled`); when it fires and `min > 0` the result is wrapped in
`minSearcher{Searcher: rv, min: min}` → `rewrittenMin`, the `Min()` conjunct of `opt_equiv` (fix 9b2cf96) -/
def newDisjunctionSearcher : List String := [
  "if len(qsearchers) > 1 && min <= 1 && optionsDisjunctionOptimizable(options) {",
  "rv, err := optimizeCompositeSearcher(\"disjunction:unadorned\", indexReader, qsearchers, options)",
  "if err != nil || rv != nil {",
  "if rv != nil && min > 0 {",
  "rv = &minSearcher{Searcher: rv, min: min}",
  "}",
  "return rv, err",
  "}",
  "}",
  "if len(qsearchers) > DisjunctionHeapTakeover {",
  "return newDisjunctionHeapSearcher(qsearchers, min, scorer, options, limit)",
  "}",
  "return newDisjunctionSliceSearcher(qsearchers, min, scorer, options, limit)"
]

/-- `optimizeCompositeSearcher`: every child must be `Optimizable` and accept the kind, else no rewrite; `Finish()` nil ⇒ no rewrite
(`Snap.conjFinish` / `disjFinish` = `none`); else a `TermSearcher` over the returned iterator (`Snap.enumOuts`) -/
def optimizeCompositeSearcher : List String := [
  "var octx segment.OptimizableContext",
  "for _, searcher := range qsearchers {",
  "o, ok := searcher.(segment.Optimizable)",
  "if !ok {",
  "return nil, nil",
  "}",
  "var err error",
  "octx, err = o.Optimize(optimizationKind, octx)",
  "if err != nil {",
  "return nil, err",
  "}",
  "if octx == nil {",
  "return nil, nil",
  "}",
  "}",
  "optimized, err := octx.Finish()",
  "if err != nil || optimized == nil {",
  "return nil, err",
  "}",
  "return newTermSearcherFromReader(indexReader, optimized, []byte(optimizationKind), \"*\", 1.0, similarity.ConstantScorer(1), options)"
]

/-- `optionsDisjunctionOptimizable` → the `scoreNone` argument of `Layout.newDisjunctionSearcher` -/
def optionsDisjunctionOptimizable : List String := [
  "rv := options.Score == optionScoringNone && !options.IncludeTermVectors",
  "return rv"
]

/-- `OfflineWriter.Insert` → `OffW.insert`: append, count, flush when `batchCount > batchSize` (batches hold `batchSize + 1` documents),
then reset the batch and the count -/
def offlineInsert : List String := [
  "w.batch.Insert(doc)",
  "w.batchCount++",
  "if w.batchCount > w.batchSize {",
  "err := w.writer.Batch(w.batch)",
  "if err != nil {",
  "return err",
  "}",
  "w.batch.Reset()",
  "w.batchCount = 0",
  "}",
  "return nil"
]

/-- `OfflineWriter.Close` → `OffW.close`: a partial batch is flushed (`batchCount > 0`), then `WriterOffline.Close` -/
def offlineClose : List String := [
  "if w.batchCount > 0 {",
  "err := w.writer.Batch(w.batch)",
  "if err != nil {",
  "return err",
  "}",
  "}",
  "return w.writer.Close()"
]

/-- `WriterOffline.Batch` → `OffW.flush`: nothing for an empty batch; else ONE new segment persisted under id `segCount`, appended to
`segIDs`, `segCount++` -/
def writerOfflineBatch : List String := [
  "s.m.Lock()",
  "defer s.m.Unlock()",
  "if len(batch.documents) == 0 {",
  "return nil",
  "}",
  "for _, doc := range batch.documents {",
  "if doc != nil {",
  "doc.Analyze()",
  "}",
  "}",
  "newSegment, _, err := s.segPlugin.New(batch.documents, s.config.NormCalc)",
  "if err != nil {",
  "return err",
  "}",
  "err = s.directory.Persist(ItemKindSegment, s.segCount, newSegment, nil)",
  "if err != nil {",
  "return fmt.Errorf(…)",
  "}",
  "s.segIDs = append(s.segIDs, s.segCount)",
  "s.segCount++",
  "return nil"
]

/-- `WriterOffline.doMerge` → `OffW.doMerge`: while more than one id: the first `min(mergeMax, len)` ids are cut off the FRONT of the
queue, loaded, merged with NO drops (`drops` = fresh nil bitmaps) into segment `segCount`, which is appended at the END of the
queue; the merged files are removed -/
def writerOfflineDoMerge : List String := [
  "for len(s.segIDs) > 1 {",
  "mergeCount := s.mergeMax",
  "if mergeCount > len(s.segIDs) {",
  "mergeCount = len(s.segIDs)",
  "}",
  "mergeIDs := s.segIDs[0:mergeCount]",
  "s.segIDs = s.segIDs[mergeCount:]",
  "mergeSegs := make([]segment.Segment, 0, mergeCount)",
  "for _, mergeID := range mergeIDs {",
  "data, closer, err := s.directory.Load(ItemKindSegment, mergeID)",
  "if err != nil {",
  "return fmt.Errorf(…)",
  "}",
  "seg, err := s.segPlugin.Load(data)",
  "if err != nil {",
  "return fmt.Errorf(…)",
  "}",
  "mergeSegs = append(mergeSegs, seg)",
  "}",
  "drops := make([]*roaring.Bitmap, mergeCount)",
  "merger := s.segPlugin.Merge(mergeSegs, drops, s.config.MergeBufferSize)",
  "err := s.directory.Persist(ItemKindSegment, s.segCount, merger, nil)",
  "if err != nil {",
  "return fmt.Errorf(…)",
  "}",
  "s.segIDs = append(s.segIDs, s.segCount)",
  "s.segCount++",
  "if err != nil {",
  "return fmt.Errorf(…)",
  "}",
  "for _, mergeID := range mergeIDs {",
  "err = s.directory.Remove(ItemKindSegment, mergeID)",
  "if err != nil {",
  "return fmt.Errorf(…)",
  "}",
  "}",
  "}",
  "return nil"
]

/-- `WriterOffline.Close` → `OffW.close` / `closeEmpty`: `doMerge`; no segment (fix 07737c7) ⇒ the empty snapshot persisted as epoch 0;
else the snapshot names the one remaining segment `segIDs[0]` and is persisted under that number -/
def writerOfflineClose : List String := [
  "s.m.Lock()",
  "defer s.m.Unlock()",
  "err := s.doMerge()",
  "if err != nil {",
  "return fmt.Errorf(…)",
  "}",
  "if len(s.segIDs) == 0 {",
  "err = s.directory.Persist(ItemKindSnapshot, 0, &Snapshot{}, nil)",
  "if err != nil {",
  "return fmt.Errorf(…)",
  "}",
  "return nil",
  "}",
  "data, closer, err := s.directory.Load(ItemKindSegment, s.segIDs[0])",
  "if err != nil {",
  "return fmt.Errorf(…)",
  "}",
  "finalSeg, err := s.segPlugin.Load(data)",
  "if err != nil {",
  "if closer != nil {",
  "_ = closer.Close()",
  "}",
  "return fmt.Errorf(…)",
  "}",
  "snapshot := &Snapshot{segment: []*segmentSnapshot{{id: s.segIDs[0], segment: &segmentWrapper{Segment: finalSeg, refCounter: nil, persisted: true}, segmentType: s.segPlugin.Type, segmentVersion: s.segPlugin.Version}}, epoch: s.segIDs[0]}",
  "err = s.directory.Persist(ItemKindSnapshot, s.segIDs[0], snapshot, nil)",
  "if err != nil {",
  "return fmt.Errorf(…)",
  "}",
  "if closer != nil {",
  "return closer.Close()",
  "}",
  "return nil"
]

/-- `Snapshot.Backup` → `backupSegs` / `backup`: one `Persist` per segment in snapshot order under the segment's id, the first
error returns; only then the snapshot under its epoch (`backup_equiv`, `backup_partial_never_wrong`) -/
def snapshotBackup : List String := [
  "for j := range i.segment {",
  "err := remote.Persist(ItemKindSegment, i.segment[j].id, i.segment[j].segment, cancel)",
  "if err != nil {",
  "return fmt.Errorf(…)",
  "}",
  "}",
  "err := remote.Persist(ItemKindSnapshot, i.epoch, i, cancel)",
  "if err != nil {",
  "return fmt.Errorf(…)",
  "}",
  "return nil"
]

/-- `Reader.Backup`: that call on a `FileSystemDirectory` of the path (whose `Persist` either completes or removes the file: C13) -/
def readerBackup : List String := [
  "dir := index.NewFileSystemDirectory(path)",
  "return r.reader.Backup(dir, cancel)"
]

/-- `index.OpenReader` → `BDir.openReader`: the snapshot epochs the directory lists (descending), the first that loads; none ⇒ the
error (`none`) — also for a directory without any snapshot file (known finding never-written-index-cannot-be-opened-by-a-reader) -/
def openReader : List String := [
  "parent := &Writer{config: config, directory: config.DirectoryFunc()}",
  "var err error",
  "parent.segPlugin, err = loadSegmentPlugin(config.supportedSegmentPlugins, config.SegmentType, config.SegmentVersion)",
  "if err != nil {",
  "return nil, fmt.Errorf(…)",
  "}",
  "err = parent.directory.Setup(true)",
  "if err != nil {",
  "return nil, fmt.Errorf(…)",
  "}",
  "snapshotEpochs, err := parent.directory.List(ItemKindSnapshot)",
  "if err != nil {",
  "return nil, err",
  "}",
  "var indexSnapshot *Snapshot",
  "for _, snapshotEpoch := range snapshotEpochs {",
  "indexSnapshot, err = parent.loadSnapshot(snapshotEpoch)",
  "if err != nil {",
  "continue",
  "}",
  "break",
  "}",
  "if indexSnapshot == nil {",
  "return nil, fmt.Errorf(…)",
  "}",
  "return indexSnapshot, nil"
]

/-- classified facts (function, key, value):
* `Optimize`: the dispatch table (→ which of `Snap.pushdown` / `conjFinish` / `disjFinish` a kind selects).
* `conjUnadorned`: ONE loop over the snapshot's segments; **the 1-hit state (`docNum1HitLast`, `docNum1HitLastOk`) is declared in
  the body of that loop** — `conjSeg = conjSegGo {}` starts every segment with `hit := none` (hoisting it out of the loop and
  forgetting a reset lets a 1-hit of segment i empty segment i+1); `actualBMs` is reset first thing per segment (`bms := []`);
  the combined bitmap is the result of the PACKAGE function `roaring.And` (fresh: no segment's own bitmap is written) and the
  in-place `And` is called on that fresh bitmap only (`andAll (andBM b0 b1) rest`); every iterator is installed under the
  loop's segment index `i` into `o.snapshot.unadornedPostingsIterator(…)` (`Snap.enumOuts` adds `off i`).
* `disjUnadorned`: collections reset per segment; `bm` is a fresh bitmap in EVERY branch (HeapOr / Or / Clone / New), so
  `AddMany(docNums)` never writes a segment's own posting bitmap; `preferHeapOr = 2`; installed under index `i`.
* `pushdown`: `bm` fresh (`roaring.And`), narrowed in place, per segment.
* `unadorned`: the iterators the rewrites install as an enclosing rewrite sees them — `SegOut.toPost`: the bitmap iterator is
  optimizable (`ActualBitmap`, `DocNum1Hit` = (0, false), `ReplaceActual`) and never `Empty()`; the 1-hit iterator has none of
  the three methods (`.raw1`: not optimizable ⇒ the enclosing rewrite gives up) and is never `Empty()`; `anEmptyPostingsIterator`
  is `Empty()` and not optimizable (`.empty`).
* `offsets`: the global number of a posting is the local one plus `snapshot.offsets[segment]` in `Next` and `Advance`
  (`enumerate`); `loadSnapshot` computes the offsets of a re-opened index as running sums of the FULL segment counts
  (`prefixOff`). The offsets the introducer computes (`introduceSegment`, `introduceMerge`: `running += …segment.Count()`) are
  pinned by C06's table (`Bluge.C06.expectedFacts`) and exercised here by the `tail-merge` recipe.
* `NewConjunctionSearcher` / `newDisjunctionSearcher` / `minSearcher`: when a rewrite is attempted (`options.Score == "none"`,
  no term vectors, more than one child, `min <= 1`), and that the rewritten disjunction is wrapped in `minSearcher` (embeds the
  searcher, overrides `Min()` only, returning the requested `min`) when `min > 0` → `rewrittenMin`, `newDisjunction_spec`.
* `OfflineWriter.Insert`: the flush test is `>` (`OffW.insert`: `w1.batchCount > batchSize`); `mergeMax` is the constant 10 and
  nothing else writes it (`offline_equiv` needs `2 ≤ mergeMax`; the driver runs `offlineRun bs 10`); `doMerge`: the queue
  operations in order — the merged segment goes to the END (`w.queue.drop mergeCount ++ [(w.segCount, merged)]`).
* `Backup`: segments, then the snapshot (`backup`). -/
def derived : List (String × String × String) := [
  ("Optimize", "dispatch", "i.snapshot.parent.config.OptimizeConjunction && kind == \"conjunction\" -> i.optimizeConjunction(octx) | i.snapshot.parent.config.OptimizeConjunctionUnadorned && kind == \"conjunction:unadorned\" -> i.optimizeConjunctionUnadorned(octx) | i.snapshot.parent.config.OptimizeDisjunctionUnadorned && kind == \"disjunction:unadorned\" -> i.optimizeDisjunctionUnadorned(octx)"),
  ("Optimize", "otherwise", "return nil, nil"),
  ("conjUnadorned", "segment loop", "for i := range o.snapshot.segment"),
  ("conjUnadorned", "1-hit state docNum1HitLast", "per-segment"),
  ("conjUnadorned", "1-hit state docNum1HitLastOk", "per-segment"),
  ("conjUnadorned", "collected bitmaps actualBMs", "per-call, reset at the top of the segment loop by actualBMs = actualBMs[:0]"),
  ("conjUnadorned", "loops of the segment loop's body", "range o.tfrs; range actualBMs[2:]"),
  ("conjUnadorned", "combined bitmap bm", "fresh: package function roaring.And(actualBMs[0], actualBMs[1])"),
  ("conjUnadorned", "in-place bitmap calls", "bm.And(actualBM)"),
  ("conjUnadorned", "installs", "oTFR.iterators[i] = anEmptyPostingsIterator | oTFR.iterators[i] = anEmptyPostingsIterator | oTFR.iterators[i] = anEmptyPostingsIterator | oTFR.iterators[i] = anEmptyPostingsIterator | oTFR.iterators[i] = newUnadornedPostingsIteratorFrom1Hit(docNum1HitLast) | oTFR.iterators[i] = anEmptyPostingsIterator | oTFR.iterators[i] = newUnadornedPostingsIteratorFromBitmap(actualBMs[0]) | oTFR.iterators[i] = newUnadornedPostingsIteratorFromBitmap(bm)"),
  ("conjUnadorned", "oTFR", "o.snapshot.unadornedPostingsIterator"),
  ("disjUnadorned", "collected docNums", "per-call, reset at the top of the segment loop by docNums = docNums[:0]"),
  ("disjUnadorned", "collected actualBMs", "per-call, reset at the top of the segment loop by actualBMs = actualBMs[:0]"),
  ("disjUnadorned", "bm", "per-segment (declared after an inner loop)"),
  ("disjUnadorned", "combined bitmap bm", "fresh: package function roaring.HeapOr(actualBMs...) | fresh: package function roaring.Or(actualBMs[0], actualBMs[1]) | fresh: actualBMs[0].Clone() | fresh: package function roaring.New()"),
  ("disjUnadorned", "preferHeapOr", "2"),
  ("disjUnadorned", "in-place bitmap calls", "bm.AddMany(docNums)"),
  ("disjUnadorned", "installs", "oTFR.iterators[i] = newUnadornedPostingsIteratorFromBitmap(bm)"),
  ("disjUnadorned", "oTFR", "o.snapshot.unadornedPostingsIterator"),
  ("pushdown", "combined bitmap bm", "fresh: package function roaring.And(itr0.ActualBitmap(), itr1.ActualBitmap())"),
  ("pushdown", "bm", "per-segment"),
  ("pushdown", "in-place bitmap calls", "bm.And(itr.ActualBitmap())"),
  ("unadorned", "methods of unadornedPostingsIteratorBitmap", "ActualBitmap,Advance,Close,Count,DocNum1Hit,Empty,Next,ReplaceActual,Size,nextAtOrAfter,nextDocNumAtOrAfter"),
  ("unadorned", "methods of unadornedPostingsIterator1Hit", "Advance,Close,Count,Empty,Next,Size,nextAtOrAfter,nextDocNumAtOrAfter"),
  ("unadorned", "methods of emptyPostingsIterator", "Advance,Close,Count,Empty,Next,Size"),
  ("unadorned", "unadornedPostingsIteratorBitmap.Empty", "false"),
  ("unadorned", "unadornedPostingsIterator1Hit.Empty", "false"),
  ("unadorned", "emptyPostingsIterator.Empty", "true"),
  ("unadorned", "unadornedPostingsIteratorBitmap.DocNum1Hit", "0, false"),
  ("unadorned", "unadornedPostingsIteratorBitmap.ActualBitmap", "i.actualBM"),
  ("unadorned", "anEmptyPostingsIterator", "&emptyPostingsIterator{}"),
  ("offsets", "postingsIterator.Next rvNumber", "next.Number() + i.snapshot.offsets[i.segmentOffset]"),
  ("offsets", "postingsIterator.Advance rvNumber", "next.Number() + i.snapshot.offsets[i.segmentOffset]"),
  ("offsets", "Writer.loadSnapshot", "snapshot.offsets = append(snapshot.offsets, running) | running += segSnapshot.segment.Count()"),
  ("NewConjunctionSearcher", "rewrites attempted, in order", "conjunction:unadorned when len(searchers) > 1 && options.Score == optionScoringNone && !options.IncludeTermVectors | conjunction when len(searchers) > 1"),
  ("newDisjunctionSearcher", "rewrites attempted, in order", "disjunction:unadorned when len(qsearchers) > 1 && min <= 1 && optionsDisjunctionOptimizable(options)"),
  ("searcher", "optionScoringNone", "\"none\""),
  ("newDisjunctionSearcher", "minSearcher wrap", "rv = &minSearcher{Searcher: rv, min: min} when rv != nil && min > 0"),
  ("minSearcher", "Min", "m.min"),
  ("minSearcher", "methods", "Min"),
  ("minSearcher", "fields", "embedded search.Searcher; min int"),
  ("OfflineWriter.Insert", "flush when", "w.batchCount > w.batchSize"),
  ("OpenOfflineWriter", "mergeMax", "10"),
  ("OpenOfflineWriter", "other writes of mergeMax", ""),
  ("doMerge", "while", "len(s.segIDs) > 1"),
  ("doMerge", "queue", "mergeCount <- s.mergeMax | mergeCount <- len(s.segIDs) | mergeIDs <- s.segIDs[0:mergeCount] | s.segIDs <- s.segIDs[mergeCount:] | drops <- make([]*roaring.Bitmap, mergeCount) | s.segIDs <- append(s.segIDs, s.segCount)"),
  ("Backup", "persists, in order", "ItemKindSegment for each of i.segment | ItemKindSnapshot once")
]

end Bluge.C08.Expected

import Bluge.Analysis
import BlugeGen.C18
import BlugeProofs.C18.Pipeline
import BlugeProofs.C18.Tokenizers
import BlugeProofs.C18.Filters
import BlugeProofs.C18.Shingle
import BlugeProofs.C18.DictCamel
import BlugeProofs.C18.Cjk
import BlugeProofs.C18.Reverse
import BlugeProofs.C18.Witness
import BlugeProofs.C18.DepTokenizers
import BlugeProofs.C18.StemNorm
import BlugeProofs.C18.StemBytes
import BlugeProofs.C18.StemLatin2
import Bluge.C18.StemDrv
import BlugeGen.C18I
import BlugeProofs.C18.Indic
/-! # C18 — analysis is total, deterministic and offset-correct on any bytes

Property theorems only (lemmas: `BlugeProofs/C18/*.lean`; model: `Bluge/Analysis.lean`).

What is proved, over ALL byte strings, token streams and parameter values in the stated ranges:
* the pipeline laws (`pipeline_offsets`, `term_only_filters_safe`, `token_frequency_*`, `document_positions_monotone`,
  `index_query_agree`);
* for every component of /repo/analysis that writes an offset or increment, or builds a token (the list is
  extracted from the source, `every_offset_writer_is_modelled`): `…_valid` (offsets stay inside the text the
  tokenizer saw, increments stay non-negative) and, where the Go code can panic, `…_total` (it does not);
  for the pure tokenizers `…_slice_eq`;
* what is NOT true of the code, with the concrete witness (
  `camel_safe_FULL_is_false`, `dict_safe_FULL_is_false`, `shingle_safe_FULL_is_false`) next to the partial claim.

* NO PANIC AND TERMINATION OF THE IN-REPO STEMMERS AND NORMALISERS (section "translated stemmers" at the end): the
  rune helpers of analysis/util.go and the German, Arabic, Persian, Sorani, Hindi, Spanish, Italian, Portuguese and
  French (light, minimal) stemmers / normalisers are TRANSLATED from the Go source on every run
  (`BlugeGen.C18S`, go/extract/trans_runes.go); for each translated function `…_no_crash` says that no index or
  slice expression is out of range, no `make` gets a negative length and every loop ends within its fuel, for
  every input Go can hold (and, for the helpers, inside their stated domain); `…_filter_no_crash` lifts that to the
  token filters, for every term. `stemmers_translated_all_proved` ties the list to the generator's table.
* the Indic normaliser (analysis/lang/in; map / struct-pointer / bitset code outside the translated subset) is a
  HAND transcription (`Bluge.C18.Indic`) over the tables extracted from the source: `indic_normalize_no_crash`,
  `indic_filter_no_crash` for every rune slice and every script lookup; the transcription is tied by the `decide`
  obligations `indic_mask_is_a_total_bitset`, `indic_index_sites_reviewed`, `indic_source_reviewed`,
  `indic_tables_wellformed` and by the `stem in_normalize` replay.

What is not proved (exercised by the correspondence stream only): the term REWRITING of the stemmers (which
stem they produce), no-panic of the dependency stemmers (snowballstem, go-porterstemmer), of lower-casing /
unicode normalisation and of the dependency tokenizers (blevesearch/segment, regexp) — all term-only by the extracted table, so
`term_only_filters_safe` covers their offsets, nothing more. -/
namespace Bluge.C18
open Bluge.Analysis

/-! ## pipeline laws -/

/-- char filters → tokenizer → token filters: if the tokenizer's output is valid for the text it saw and
every filter of the chain is offset-safe, the analyzer's output is valid for that text -/
theorem pipeline_offsets (a : Analyzer) (input : Bytes)
    (htok : Valid (a.filtered input).length (a.tokenizer (a.filtered input)))
    (hf : ∀ f ∈ a.tokenFilters, OffsetSafe f) :
    Valid (a.filtered input).length (a.analyze input) :=
  foldl_filters_valid a.tokenFilters _ _ htok hf

/-- without char filters the text the tokenizer saw is the input itself -/
theorem pipeline_offsets_no_char_filter (a : Analyzer) (input : Bytes) (hcf : a.charFilters = [])
    (htok : Valid input.length (a.tokenizer input)) (hf : ∀ f ∈ a.tokenFilters, OffsetSafe f) :
    Valid input.length (a.analyze input) := by
  have hfl : a.filtered input = input := by unfold Analyzer.filtered; rw [hcf]; rfl
  have h := pipeline_offsets a input
  rw [hfl] at h
  exact h htok hf

example : ∃ (a : Analyzer) (input : Bytes), Valid (a.filtered input).length (a.tokenizer (a.filtered input)) ∧
    ∀ f ∈ a.tokenFilters, OffsetSafe f :=
  ⟨⟨[], singleTokenize, []⟩, [], by decide, by simp⟩

/-- a filter that only assigns Term / Type / KeyWord, or drops, repeats or reorders tokens, is offset-safe -/
theorem term_only_filters_safe (f : List Token → List Token) (h : TermOnly f) : OffsetSafe f :=
  termOnly_offsetSafe f h

/-- TokenFrequency: one location per token, carrying the token's offsets unchanged, in stream order -/
theorem token_frequency_offsets (ts : List Token) (so : Int) :
    (locations ts so).1.map (fun l => (l.start, l.stop)) = ts.map (fun t => (t.start, t.stop)) :=
  locations_offsets ts so

/-- positions are the start offset plus the increments so far: non-decreasing along the stream, between
the start offset and the returned last position, which is the start offset plus all increments -/
theorem token_frequency_positions (ts : List Token) (so : Int) (hpi : ∀ t ∈ ts, 0 ≤ t.posIncr) :
    (locations ts so).1.Pairwise (fun a b => a.pos ≤ b.pos) ∧
    (∀ l ∈ (locations ts so).1, so ≤ l.pos ∧ l.pos ≤ (tokenFrequency ts true so).2) ∧
    (tokenFrequency ts true so).2 = so + (ts.map (·.posIncr)).sum := by
  have h := locations_positions ts hpi so
  refine ⟨h.2.2, ?_, ?_⟩
  · exact h.1
  · exact locations_final ts so

example : ∃ ts : List Token, ts ≠ [] ∧ ∀ t ∈ ts, 0 ≤ t.posIncr := ⟨singleTokenize [], by decide, by decide⟩

/-- every location stored under a term in the frequency map is one of those per-token locations -/
theorem token_frequency_locations (ts : List Token) (so : Int) :
    ∀ e ∈ (tokenFrequency ts true so).1, ∀ l ∈ e.locs, l ∈ (locations ts so).1 :=
  tokenFrequency_locs_mem ts so

/-- Document.Analyze over the fields of one name: positions never decrease from one field to the next
(`gap ≥ 0`, increments ≥ 0) -/
theorem document_positions_monotone (gap : Int) (hg : 0 ≤ gap) (fields : List (List Token))
    (hpi : ∀ f ∈ fields, ∀ t ∈ f, 0 ≤ t.posIncr) (off : Int) :
    (docAnalyze gap fields off).Pairwise (fun A B => ∀ a ∈ A, ∀ b ∈ B, a.pos ≤ b.pos) :=
  docAnalyze_mono gap hg fields hpi off

/-- index time and query time run the same function on the same bytes, so every term of the match query
built from a field's own text is a key of that field's frequency map (with C07: operator AND finds the
document whenever there is at least one token) -/
theorem index_query_agree (a : Analyzer) (text : Bytes) (tv : Bool) (so : Int) :
    ∀ q ∈ a.analyze text, ∃ e ∈ (tokenFrequency (a.analyze text) tv so).1, e.term = q.term :=
  tokenFrequency_has_term (a.analyze text) tv so

/-! ## tokenizers -/

/-- letter / whitespace / any character-class tokenizer, for every class predicate and every byte string
(invalid bytes, truncated runes and U+FFFD end the scan): offsets inside the input, increment 1 -/
theorem character_tokenizer_valid (isTok : Rune → Bool) (input : Bytes) : Valid input.length (charTokenize isTok input) :=
  charTokenize_valid' isTok input

/-- token text = input slice at its offsets -/
theorem character_tokenizer_slice_eq (isTok : Rune → Bool) (input : Bytes) : SliceEq input (charTokenize isTok input) :=
  charTokenize_slice_eq' isTok input

/-- tokens come in text order, do not overlap, and are never empty -/
theorem character_tokenizer_ordered (isTok : Rune → Bool) (input : Bytes) :
    Ordered (charTokenize isTok input) ∧ ∀ t ∈ charTokenize isTok input, t.term ≠ [] :=
  ⟨(charTokenize_spec isTok input).2, charTokenize_nonempty' isTok input⟩

theorem whitespace_tokenizer_valid (input : Bytes) :
    Valid input.length (whitespaceTokenize input) ∧ SliceEq input (whitespaceTokenize input) :=
  ⟨charTokenize_valid' _ input, charTokenize_slice_eq' _ input⟩

theorem single_tokenizer_valid (input : Bytes) : Valid input.length (singleTokenize input) := singleTokenize_valid' input
theorem single_tokenizer_slice_eq (input : Bytes) : SliceEq input (singleTokenize input) := singleTokenize_slice_eq' input

/-- regexp tokenizer over the match indices `FindAllIndex` returned: whenever no slice expression panics, every
token lies inside the input and its text is the input slice at its offsets -/
theorem regexp_tokenizer_valid (typeOf : Bytes → Nat) (found : List (Int × Int)) (input : Bytes) (out : List Token)
    (h : regexpTokenize typeOf found input = some out) : Valid input.length out ∧ SliceEq input out :=
  regexpTokenize_valid' typeOf found input out h

/-- … and nothing panics when the matches are successive, non-overlapping and in range (`FindAllIndex`'s contract,
evaluated by the driver on every real match list) -/
theorem regexp_tokenizer_total (typeOf : Bytes → Nat) (found : List (Int × Int)) (input : Bytes)
    (hm : MatchesFrom input.length 0 found) : ∃ out, regexpTokenize typeOf found input = some out :=
  regexpTokenize_total' typeOf found input hm

/-- exceptions tokenizer (and so the web tokenizer): the offsets of the inner tokenizer's tokens are shifted by
the start of the unmatched section they came from; valid for every inner tokenizer that is valid on every input -/
theorem exceptions_tokenizer_valid (remaining : Bytes → List Token) (hrem : ∀ seg, Valid seg.length (remaining seg))
    (found : List (Int × Int)) (input : Bytes) (out : List Token) (hm : MatchesFrom input.length 0 found)
    (h : exceptionsTokenize remaining found input = some out) : Valid input.length out :=
  exceptionsTokenize_valid' remaining hrem found input out hm h

theorem exceptions_tokenizer_total (remaining : Bytes → List Token) (found : List (Int × Int)) (input : Bytes)
    (hm : MatchesFrom input.length 0 found) : ∃ out, exceptionsTokenize remaining found input = some out :=
  exceptionsTokenize_total' remaining found input hm

example : ∃ (input : Bytes) (found : List (Int × Int)), found ≠ [] ∧ MatchesFrom input.length 0 found :=
  ⟨[0x31#8, 0x20#8, 0x32#8], [(0, 1), (2, 3)], by decide, by decide⟩

/-- unicode tokenizer over the segments the word segmenter yields: offsets are running sums of segment lengths,
inside any text at least as long as the segments together -/
theorem unicode_tokenizer_valid (segs : List (Bytes × Nat)) (len : Int)
    (hlen : (((segs.map (fun s => s.1.length)).sum : Nat) : Int) ≤ len) : Valid len (unicodeTokenize segs) :=
  unicodeTokenize_valid' segs len hlen

/-- the output of a pure tokenizer satisfies the hypothesis of `dict_compound_valid` -/
theorem slices_fit_runes (input : Bytes) (ts : List Token) (hv : Valid input.length ts) (hs : SliceEq input ts) :
    ∀ t ∈ ts, FitsRunes t := by
  intro t ht
  have h1 := hv t ht
  have h2 := hs t ht
  unfold FitsRunes
  have h3 := runes_length_le t.term.length t.term rfl
  have h4 : t.term.length ≤ (t.stop - t.start).toNat := by
    rw [h2, slice]; simp only [List.length_take]; omega
  unfold Token.ok at h1
  omega

/-! ## filters that build tokens or write offsets / increments -/

theorem ngram_valid (min max len : Int) (input out : List Token) (hv : Valid len input)
    (h : ngramFilter min max input = some out) : Valid len out := ngramFilter_valid' min max len input out hv h

/-- no `runes[i:i+n]` panics for sizes ≥ 0 (the stated range is 1 ≤ min ≤ max) -/
theorem ngram_total (min max : Int) (hmin : 0 ≤ min) (input : List Token) : ∃ out, ngramFilter min max input = some out :=
  ngramFilter_total' min max hmin input

example : ∃ min max : Int, 1 ≤ min ∧ min ≤ max := ⟨1, 3, by decide⟩

theorem edge_ngram_valid (back : Bool) (min max len : Int) (input out : List Token) (hv : Valid len input)
    (h : edgeNgramFilter back min max input = some out) : Valid len out := edgeNgramFilter_valid' back min max len input out hv h

theorem edge_ngram_total (back : Bool) (min max : Int) (hmin : 0 ≤ min) (input : List Token) :
    ∃ out, edgeNgramFilter back min max input = some out := edgeNgramFilter_total' back min max hmin input

theorem truncate_valid (length len : Int) (input out : List Token) (hv : Valid len input)
    (h : truncateFilter length input = some out) : Valid len out := truncateFilter_valid' length len input out hv h

theorem truncate_total (length : Int) (hl : 0 ≤ length) (input : List Token) : ∃ out, truncateFilter length input = some out :=
  truncateFilter_total' length hl input

theorem length_filter_safe (min max : Int) : OffsetSafe (lengthFilter min max) :=
  fun len ts hv => lengthFilter_valid' min max len ts hv

theorem unique_filter_safe : OffsetSafe uniqueFilter := fun len ts hv => uniqueFilter_valid' len ts hv

theorem stop_filter_safe (stop : List Bytes) : OffsetSafe (stopFilter stop) := fun len ts hv => stopFilter_valid' stop len ts hv

/-- shingles span from the first to the last real token of their window: valid when the stream is valid
and monotone (no token starts after a later token ends) -/
theorem shingle_valid (min max : Int) (oo : Bool) (sep fill : Bytes) (len : Int) (input out : List Token)
    (hv : Valid len input) (hm : Mono input) (h : shingleFilter min max oo sep fill input = some out) : Valid len out :=
  shingleFilter_valid' min max oo sep fill len input out hv hm h

example : ∃ (len : Int) (input : List Token), input ≠ [] ∧ Valid len input ∧ Mono input :=
  ⟨0, singleTokenize [], by decide, by decide, by decide⟩

/-- `ring.New(max)` is non-nil -/
theorem shingle_total (min max : Int) (hmax : 1 ≤ max) (oo : Bool) (sep fill : Bytes) (input : List Token) :
    ∃ out, shingleFilter min max oo sep fill input = some out := shingleFilter_total' min max hmax oo sep fill input

/-- sub-word offsets are `Start + rune index`: valid while the term has no more runes than its span has bytes -/
theorem dict_compound_valid (dict : List Bytes) (minWord minSub maxSub : Int) (longest : Bool) (len : Int)
    (input out : List Token) (hv : Valid len input) (hfit : ∀ t ∈ input, FitsRunes t)
    (h : dictFilter dict minWord minSub maxSub longest input = some out) : Valid len out :=
  dictFilter_valid' dict minWord minSub maxSub longest len input out hv hfit h

theorem dict_compound_total (dict : List Bytes) (minWord minSub maxSub : Int) (hmin : 0 ≤ minSub) (longest : Bool)
    (input : List Token) : ∃ out, dictFilter dict minWord minSub maxSub longest input = some out :=
  dictFilter_total' dict minWord minSub maxSub hmin longest input

/-- camel-case pieces are laid out by the byte length of the *re-encoded* term: valid while that fits the span -/
theorem camel_case_valid (cls : Rune → Nat) (len : Int) (input : List Token) (hv : Valid len input)
    (hfit : ∀ t ∈ input, FitsBytes t) : Valid len (camelCaseFilter cls input) :=
  camelCaseFilter_valid' cls len input hv hfit

example : ∃ (len : Int) (input : List Token), input ≠ [] ∧ Valid len input ∧ (∀ t ∈ input, FitsRunes t) ∧ ∀ t ∈ input, FitsBytes t :=
  ⟨0, singleTokenize [], by decide, by decide, empty_token_fits.1, empty_token_fits.2.1⟩

theorem cjk_bigram_valid (ou : Bool) (len : Int) (input out : List Token) (hv : Valid len input)
    (hfit : ∀ t ∈ input, IdeoFits t) (h : cjkBigramFilter ou input = some out) : Valid len out :=
  cjkBigramFilter_valid' ou len input out hv hfit h

/-- FULL strength (after fix 2484287): the CJK bigram filter never slices out of range, on any token stream —
`sofar` walks the term by the widths `utf8.DecodeRune` reports on its bytes -/
theorem cjk_bigram_total (ou : Bool) (input : List Token) : ∃ out, cjkBigramFilter ou input = some out :=
  cjkBigramFilter_total' ou input

theorem reverse_valid (isMark : Rune → Bool) (len : Int) (input out : List Token) (hv : Valid len input)
    (h : reverseFilter isMark input = some out) : Valid len out := reverseFilter_valid' isMark len input out hv h

/-- FULL strength (after fix bc7e62e): the reverse filter never panics, on any bytes and any mark predicate -/
theorem reverse_total (isMark : Rune → Bool) (input : List Token) : ∃ out, reverseFilter isMark input = some out :=
  reverseFilter_total' isMark input

theorem keyword_marker_term_only (kws : List Bytes) : TermOnly (keywordMarkerFilter kws) := keywordMarkerFilter_termOnly' kws
theorem elision_term_only (articles : List Bytes) : TermOnly (elisionFilter articles) := elisionFilter_termOnly' articles
theorem apostrophe_term_only : TermOnly apostropheFilter := apostropheFilter_termOnly'

/-! ## what the code does NOT satisfy: full statements, refuted on concrete witnesses

Each `…FULL` is the claim the property text asks for; the theorem next to it is its negation, by a
witness that the harness reproduces on the real code (`pipe single camel fe`, …). The reverse and CJK bigram
panics on invalid UTF-8 were repaired in /repo (bc7e62e, 2484287): `reverse_total`, `cjk_bigram_total` now hold in full. -/

/-- "the camel-case filter is offset-safe" -/
def CamelSafeFULL : Prop := ∀ cls : Rune → Nat, OffsetSafe (camelCaseFilter cls)

/-- token/camelcase_parser.go: on the one-byte text 0xFF the single-token tokenizer gives the valid token
[0,1); the camel-case filter turns it into a token [0,3) — past the end of the text -/
theorem camel_safe_FULL_is_false : ¬ CamelSafeFULL := by
  intro h
  exact camel_ff_invalid _ (h (fun _ => 3) 1 (singleTokenize [0xff#8]) (by decide))

/-- "the dictionary compound filter is offset-safe" -/
def DictSafeFULL : Prop := ∀ (dict : List Bytes) (minWord minSub maxSub : Int) (longest : Bool) (len : Int)
  (input out : List Token), 1 ≤ minSub → minSub ≤ maxSub → Valid len input →
  dictFilter dict minWord minSub maxSub longest input = some out → Valid len out

/-- token/dict.go counts runes of the *term*: a token [0,1) whose term an earlier filter rewrote to "ab"
gets the sub-word "b" at [1,2) — past the end of a one-byte text -/
theorem dict_safe_FULL_is_false : ¬ DictSafeFULL := by
  intro h
  have := h [[0x62#8]] 1 1 1 false 1 [{ term := [0x61#8, 0x62#8], start := 0, stop := 1, posIncr := 1 }]
    [{ term := [0x61#8, 0x62#8], start := 0, stop := 1, posIncr := 1 }, { term := [0x62#8], start := 1, stop := 2, posIncr := 0 }]
    (by decide) (by decide) (by decide) dict_ab_eval
  exact absurd (this _ (List.mem_cons_of_mem _ List.mem_cons_self)) (by decide)

/-- "the shingle filter is offset-safe" -/
def ShingleSafeFULL : Prop := ∀ (min max : Int) (oo : Bool) (sep fill : Bytes) (len : Int) (input out : List Token),
  1 ≤ min → min ≤ max → Valid len input → shingleFilter min max oo sep fill input = some out → Valid len out

/-- token/shingle.go takes Start from the first and End from the last token of the window: on a stream that
is valid but not monotone ([5,8) before [0,3)) the 2-shingle is [5,3) -/
theorem shingle_safe_FULL_is_false : ¬ ShingleSafeFULL := by
  intro h
  have := h 2 2 false [] [] 8
    [{ term := [], start := 5, stop := 8, posIncr := 1 }, { term := [], start := 0, stop := 3, posIncr := 1 }]
    [{ term := [], start := 5, stop := 3, posIncr := 1, typ := tShingle }]
    (by decide) (by decide) (by decide) (by decide)
  exact absurd (this _ List.mem_cons_self) (by decide)

/-! ## the tie to the source: extracted facts (regenerated on every run) -/

/-- the components for which `Bluge.Analysis` has a model and this module a `…_valid` theorem -/
def modelledComponents : List String :=
  ["lang/cjk.BigramFilter", "token.CamelCaseFilter", "token.DictionaryCompoundFilter", "token.EdgeNgramFilter",
   "token.LengthFilter", "token.NgramFilter", "token.ShingleFilter", "token.StopTokensFilter", "token.UniqueTermFilter",
   "tokenizer.CharacterTokenizer", "tokenizer.SingleTokenTokenizer"]

/-- tokenizers whose offsets come from a dependency (regexp match indices, blevesearch/segment): their own
arithmetic is modelled over what the dependency returns (`regexp_tokenizer_*`, `exceptions_tokenizer_*`,
`unicode_tokenizer_valid`); the dependency itself is not: its contract (`MatchesFrom`, segment lengths within
the text) is evaluated on every real output by the stream `analysis`, together with `Valid`, `SliceEq`, `Ordered` -/
def dependencyTokenizers : List String :=
  ["tokenizer.ExceptionsTokenizer", "tokenizer.RegexpTokenizer", "tokenizer.UnicodeTokenizer"]

/-- every Tokenizer / TokenFilter / CharFilter of /repo/analysis that assigns `.Start`, `.End`,
`.PositionIncr` or builds an `analysis.Token` is modelled (or is one of the three dependency tokenizers);
all others are term-only and covered by `term_only_filters_safe`. A new offset-writing filter fails this. -/
theorem every_offset_writer_is_modelled :
    BlugeGen.C18.offsetWriters.all (fun n => modelledComponents.contains n || dependencyTokenizers.contains n) = true := by
  decide

/-- the literal list is the one computed from the per-component site table -/
theorem offset_writers_list_is_computed : BlugeGen.C18.offsetWritersComputed = BlugeGen.C18.offsetWriters := by decide

/-- at least the known components were found (an anchor that moved cannot empty the table silently) -/
theorem components_found : 55 ≤ BlugeGen.C18.components.length ∧
    modelledComponents.all (fun n => BlugeGen.C18.offsetWriters.contains n) = true := by decide

/-- the only map iterations in the analysis packages, none of which can reach the token stream:
`TokenFrequencies.Size` sums, `MergeAll` merges key by key, `in.init` fills one mask per script, and
`in.lookupScript` returns the unique script table containing a rune (Unicode scripts are disjoint) -/
def allowedIterationSites : List (String × String × String) :=
  [("analysis/freq.go", "TokenFrequencies.MergeAll", "range-map other"),
   ("analysis/freq.go", "TokenFrequencies.Size", "range-map tfs"),
   ("analysis/lang/in/scripts.go", "init", "range-map scripts"),
   ("analysis/lang/in/scripts.go", "lookupScript", "range-map scripts")]

/-- determinism: no `time.`, `rand.`, `go`, `select`, `sync`, and no map iteration except the four sites above -/
theorem analysis_has_no_nondeterminism_source :
    BlugeGen.C18.nondeterminismSites.all (fun s => allowedIterationSites.contains s) = true := by decide

/-- reviewed list of writes that may reach the receiver of a Tokenize / Filter / Analyze method: none. Every
component of the analysis packages builds its working state (rings, maps, parsers, buffers) per call. -/
def allowedReceiverWrites : List (String × String × String) := []

/-- "gives the same tokens every time", the part no sequential run can see: analyzers are STATELESS across
calls. `BlugeGen.C18.receiverWrites` (go/extract/c18state.go) lists every assignment, inc/dec, `delete`/`copy`
and known mutating call that reaches the receiver of a Tokenize / Filter / Analyze method, directly
(`s.x = …`, `s.buf[i] = …`), through a local alias (`r := s.ring; r.Value = …`) or through a package function the
receiver state is passed to. A component that keeps state between calls (and therefore is neither re-entrant
nor safe under the 4 analysis workers of `Writer.Batch`) fails this obligation. -/
theorem filters_do_not_mutate_receiver :
    BlugeGen.C18.receiverWrites.all (fun s => allowedReceiverWrites.contains s) = true ∧
    50 ≤ BlugeGen.C18.statefulEntryPoints := by decide

/-- index time (`TermField.Analyze`) and query time (`MatchQuery.Searcher`) both go through the analyzer's
`Analyze` method -/
theorem index_and_query_call_analyze :
    BlugeGen.C18.analyzeCalls.contains ("field.go", "TermField.Analyze", "b.analyzer") = true ∧
    BlugeGen.C18.analyzeCalls.contains ("query.go", "MatchQuery.Searcher", "q.analyzer") = true := by decide

/-! ## translated stemmers: no panic, termination (`BlugeGen.C18S`, regenerated from the Go source on every run)

`r ≠ .crash` = the translated Go function does not panic: every index is in range, every slice expression has
ordered bounds within the length, `make` never gets a negative length, and every `for` loop ends within the fuel
the generator supplies. Hypotheses `xs.length < 2 ^ k` hold for every slice the Go runtime can hold (`len` is a
non-negative `int`; the smaller exponents leave room for `4 * len(runes)` buffers and for U+FFFD re-encoding);
`n.toNat < 2 ^ 63` is "the `int` n is not negative". -/

section Stemmers
open Bluge.Go Bluge.C18.Stem BlugeGen.C18S

/-! ### analysis/util.go -/

theorem DeleteRune_no_crash (in_ : List (BitVec 32)) (pos : BitVec 64) (h : in_.length < 2 ^ 63) (hp : pos.toNat < 2 ^ 63) :
    DeleteRune in_ pos ≠ .crash := ne_crash_of_wp (DeleteRune_spec in_ pos h hp)

/-- outside the domain: a negative position panics (the slice expression `in[pos:]`) -/
theorem DeleteRune_negative_pos_panics : DeleteRune [0x61#32] (BitVec.ofInt 64 (-1)) = .crash := by decide

theorem InsertRune_no_crash (in_ : List (BitVec 32)) (pos : BitVec 64) (r : BitVec 32) (h : in_.length + 1 < 2 ^ 63)
    (hp : pos.toNat ≤ in_.length) : InsertRune in_ pos r ≠ .crash := ne_crash_of_wp (InsertRune_spec in_ pos r h hp)

theorem InsertRune_past_end_panics : InsertRune [0x61#32] 2#64 0x62#32 = .crash := by decide

/-- for ALL runes, valid or not (negative, surrogate, beyond U+10FFFF): the `4 * len(runes)` buffer always suffices -/
theorem BuildTermFromRunes_no_crash (runes : List (BitVec 32)) (h : runes.length < 2 ^ 61) :
    BuildTermFromRunes runes ≠ .crash := ne_crash_of_wp (BuildTermFromRunes_spec runes h)

/-- with a caller-supplied buffer: for runes `utf8.RuneLen` accepts (any buffer), or any runes in a full-size buffer -/
theorem BuildTermFromRunesOptimistic_no_crash (buf : List (BitVec 8)) (runes : List (BitVec 32))
    (h : runes.length < 2 ^ 61) (hb : buf.length < 2 ^ 63)
    (hv : (∀ r ∈ runes, ValidRune r) ∨ buf.length = 4 * runes.length) :
    BuildTermFromRunesOptimistic buf runes ≠ .crash := ne_crash_of_wp (BuildTermFromRunesOptimistic_spec buf runes h hb hv)

/-- FINDING (exported helper, not reachable from a bundled analyzer: `bytes.Runes` never yields such a rune,
`runes_valid`): for a rune that `utf8.RuneLen` rejects the length test `used+(-1) > len(rv)` passes and
`utf8.EncodeRune` writes the three bytes of U+FFFD into a buffer that is too short. Reproduced on the real code
by the op `util BuildTermOpt 0 55296` (panic on both sides). -/
theorem BuildTermFromRunesOptimistic_panics_on_invalid_rune_in_short_buffer :
    BuildTermFromRunesOptimistic [] [0xD800#32] = .crash := by decide

theorem TruncateRunes_no_crash (input : List (BitVec 8)) (num : BitVec 64) (h : input.length < 2 ^ 61)
    (hn : num.toNat ≤ (GoStd.runes input).length) : TruncateRunes input num ≠ .crash :=
  ne_crash_of_wp (TruncateRunes_spec input num h hn)

theorem RunesEndsWith_no_crash (input : List (BitVec 32)) (suffix : List (BitVec 8)) (h : input.length < 2 ^ 63)
    (hs : suffix.length < 2 ^ 63) : RunesEndsWith input suffix ≠ .crash :=
  ne_crash_of_wp (RunesEndsWith_spec input suffix h hs)

/-! ### the translated functions of analysis/lang -/

theorem de_normalize_no_crash (input : List (BitVec 8)) (h : input.length < 2 ^ 60) : de_normalize input ≠ .crash :=
  ne_crash_of_wp (de_normalize_spec input h)
theorem de_step1_no_crash (s : List (BitVec 32)) (h : s.length < 2 ^ 63) : de_step1 s ≠ .crash :=
  ne_crash_of_wp (de_step1_spec s h)
theorem de_step2_no_crash (s : List (BitVec 32)) (h : s.length < 2 ^ 63) : de_step2 s ≠ .crash :=
  ne_crash_of_wp (de_step2_spec s h)
theorem de_stem_no_crash (input : List (BitVec 32)) (h : input.length < 2 ^ 63) : de_stem input ≠ .crash :=
  ne_crash_of_wp (de_stem_spec input h)
theorem ar_normalize_no_crash (input : List (BitVec 8)) (h : input.length < 2 ^ 60) : ar_normalize input ≠ .crash :=
  ne_crash_of_wp (ar_normalize_spec input h)
theorem ar_canStemPrefix_no_crash (input prefix_ : List (BitVec 32)) (h : input.length < 2 ^ 63) (hp : prefix_.length < 2 ^ 63) :
    ar_canStemPrefix input prefix_ ≠ .crash := ne_crash_of_wp (ar_canStemPrefix_spec input prefix_ h hp)
theorem ar_canStemSuffix_no_crash (input suffix : List (BitVec 32)) (h : input.length < 2 ^ 63) (hp : suffix.length < 2 ^ 63) :
    ar_canStemSuffix input suffix ≠ .crash := ne_crash_of_wp (ar_canStemSuffix_spec input suffix h hp)
theorem ar_stem_no_crash (input : List (BitVec 8)) (h : input.length < 2 ^ 61) : ar_stem input ≠ .crash :=
  ne_crash_of_wp (ar_stem_spec input h)
theorem fa_normalize_no_crash (input : List (BitVec 8)) (h : input.length < 2 ^ 60) : fa_normalize input ≠ .crash :=
  ne_crash_of_wp (fa_normalize_spec input h)
theorem ckb_normalize_no_crash (uc : GoStd.Unicode) (input : List (BitVec 8)) (h : input.length < 2 ^ 60) :
    ckb_normalize uc input ≠ .crash := ne_crash_of_wp (ckb_normalize_spec uc input h)
/-- `make([]byte, utf8.RuneLen(r))` needs a rune `RuneLen` accepts; `ckb.truncateRunes` only passes runes of `bytes.Runes` -/
theorem ckb_buildTermFromRunes_no_crash (runes : List (BitVec 32)) (hv : ∀ r ∈ runes, ValidRune r) :
    ckb_buildTermFromRunes runes ≠ .crash := ne_crash_of_wp (ckb_buildTermFromRunes_spec runes hv)
theorem ckb_buildTermFromRunes_panics_on_invalid_rune : ckb_buildTermFromRunes [0xD800#32] = .crash := by decide
theorem ckb_truncateRunes_no_crash (input : List (BitVec 8)) (num : BitVec 64) (h : input.length < 2 ^ 63)
    (hn : num.toNat ≤ (GoStd.runes input).length) : ckb_truncateRunes input num ≠ .crash :=
  ne_crash_of_wp (ckb_truncateRunes_spec input num h hn)
theorem ckb_stem_no_crash (input : List (BitVec 8)) (h : input.length < 2 ^ 55) : ckb_stem input ≠ .crash :=
  ne_crash_of_wp (ckb_stem_spec input h)
theorem hi_normalize_no_crash (input : List (BitVec 8)) (h : input.length < 2 ^ 60) : hi_normalize input ≠ .crash :=
  ne_crash_of_wp (hi_normalize_spec input h)
theorem hi_stem_no_crash (input : List (BitVec 8)) (h : input.length < 2 ^ 61) : hi_stem input ≠ .crash :=
  ne_crash_of_wp (hi_stem_spec input h)
theorem es_stem_no_crash (input : List (BitVec 32)) (h : input.length < 2 ^ 63) : es_stem input ≠ .crash :=
  ne_crash_of_wp (es_stem_spec input h)
theorem it_stem_no_crash (input : List (BitVec 32)) (h : input.length < 2 ^ 63) : it_stem input ≠ .crash :=
  ne_crash_of_wp (it_stem_spec input h)
theorem pt_removeSuffix_no_crash (input : List (BitVec 32)) (h : input.length < 2 ^ 63) : pt_removeSuffix input ≠ .crash :=
  ne_crash_of_wp (pt_removeSuffix_spec input h)
theorem pt_normFeminine_no_crash (input : List (BitVec 32)) (h : input.length < 2 ^ 63) : pt_normFeminine input ≠ .crash :=
  ne_crash_of_wp (pt_normFeminine_spec input h)
theorem pt_stem_no_crash (input : List (BitVec 32)) (h : input.length < 2 ^ 63) : pt_stem input ≠ .crash :=
  ne_crash_of_wp (pt_stem_spec input h)
theorem fr_minstem_no_crash (input : List (BitVec 32)) (h : input.length < 2 ^ 63) : fr_minstem input ≠ .crash :=
  ne_crash_of_wp (fr_minstem_spec input h)
/-- for EVERY table `unicode.IsLetter` could be -/
theorem fr_norm_no_crash (uc : GoStd.Unicode) (input : List (BitVec 32)) (h : input.length < 2 ^ 62) :
    fr_norm uc input ≠ .crash := ne_crash_of_wp (fr_norm_spec uc input h)
theorem fr_stem_no_crash (uc : GoStd.Unicode) (input : List (BitVec 32)) (h : input.length < 2 ^ 62) :
    fr_stem uc input ≠ .crash := ne_crash_of_wp (fr_stem_spec uc input h)

/-! ### the token filters (the `stem` correspondence ops run exactly these on the real term bytes) -/

/-- `runes := bytes.Runes(term); runes = stem(runes); term = BuildTermFromRunes(runes)` -/
theorem viaRunes_no_crash (stem : List (BitVec 32) → Res (List (BitVec 32))) (term : List (BitVec 8))
    (h : term.length < 2 ^ 61)
    (hs : ∀ rs : List (BitVec 32), rs.length < 2 ^ 61 → wp (stem rs) (fun o => o.length ≤ rs.length)) :
    C18S.viaRunes stem term ≠ .crash := by
  have hr := Stem.runes_length_le term
  refine ne_crash_of_wp (Q := fun _ => True) ?_
  unfold C18S.viaRunes
  refine wp_bind_cut (hs _ (by omega)) (fun o ho => ?_)
  exact BuildTermFromRunes_spec o (by omega)

theorem de_light_filter_no_crash (term : List (BitVec 8)) (h : term.length < 2 ^ 61) : C18S.de_lightFilter term ≠ .crash :=
  viaRunes_no_crash _ term h (fun rs hrs => de_stem_spec rs (by omega))
theorem es_light_filter_no_crash (term : List (BitVec 8)) (h : term.length < 2 ^ 61) : C18S.es_lightFilter term ≠ .crash :=
  viaRunes_no_crash _ term h (fun rs hrs => es_stem_spec rs (by omega))
theorem it_light_filter_no_crash (term : List (BitVec 8)) (h : term.length < 2 ^ 61) : C18S.it_lightFilter term ≠ .crash :=
  viaRunes_no_crash _ term h (fun rs hrs => it_stem_spec rs (by omega))
theorem pt_light_filter_no_crash (term : List (BitVec 8)) (h : term.length < 2 ^ 61) : C18S.pt_lightFilter term ≠ .crash :=
  viaRunes_no_crash _ term h (fun rs hrs => pt_stem_spec rs (by omega))
theorem fr_min_filter_no_crash (term : List (BitVec 8)) (h : term.length < 2 ^ 61) : C18S.fr_minFilter term ≠ .crash :=
  viaRunes_no_crash _ term h (fun rs hrs => fr_minstem_spec rs (by omega))
theorem fr_light_filter_no_crash (uc : GoStd.Unicode) (term : List (BitVec 8)) (h : term.length < 2 ^ 61) :
    C18S.fr_lightFilter uc term ≠ .crash :=
  viaRunes_no_crash _ term h (fun rs hrs => fr_stem_spec uc rs (by omega))

/-- every filter the `stem` op runs, on every term (shorter than 2^55 bytes), whatever the unicode tables: no panic -/
theorem stem_filters_no_crash (uc : GoStd.Unicode) (name : String) (f : List (BitVec 8) → Res (List (BitVec 8))) (hf : C18S.stemFn uc name = some f)
    (term : List (BitVec 8)) (h : term.length < 2 ^ 55) : f term ≠ .crash := by
  unfold C18S.stemFn at hf
  split at hf <;> first
    | (injection hf with hf; subst hf)
    | cases hf
  · exact de_normalize_no_crash term (by omega)
  · exact de_light_filter_no_crash term (by omega)
  · exact ar_normalize_no_crash term (by omega)
  · exact ar_stem_no_crash term (by omega)
  · exact fa_normalize_no_crash term (by omega)
  · exact ckb_normalize_no_crash uc term (by omega)
  · exact ckb_stem_no_crash term h
  · exact hi_normalize_no_crash term (by omega)
  · exact hi_stem_no_crash term (by omega)
  · exact es_light_filter_no_crash term (by omega)
  · exact it_light_filter_no_crash term (by omega)
  · exact pt_light_filter_no_crash term (by omega)
  · exact fr_light_filter_no_crash uc term (by omega)
  · exact fr_min_filter_no_crash term (by omega)

/-- the hypotheses are satisfiable and the definitions compute: `Häuser` → `haus` through the German light stemmer -/
example : C18S.de_lightFilter [0x68#8, 0xc3#8, 0xa4#8, 0x75#8, 0x73#8, 0x65#8, 0x72#8] ≠ .crash :=
  de_light_filter_no_crash _ (by decide)

/-- the functions with a `…_no_crash` theorem above -/
def stemmersProved : List String :=
  ["analysis.DeleteRune", "analysis.InsertRune", "analysis.BuildTermFromRunesOptimistic", "analysis.BuildTermFromRunes",
   "analysis.TruncateRunes", "analysis.RunesEndsWith",
   "de.normalize", "de.stEnding", "de.step1", "de.step2", "de.stem", "ar.normalize", "ar.canStemPrefix", "ar.canStemSuffix", "ar.stem",
   "fa.normalize", "ckb.normalize", "ckb.buildTermFromRunes", "ckb.truncateRunes", "ckb.stem", "hi.normalize", "hi.stem",
   "es.stem", "it.stem", "pt.removeSuffix", "pt.normFeminine", "pt.stem", "fr.minstem", "fr.norm", "fr.stem"]

/-- every function the generator translated has its theorem (`de.stEnding` has no index, slice or loop: it is
translated as a pure `Bool` function, there is nothing that could panic) -/
theorem stemmers_translated_all_proved :
    BlugeGen.C18S.translated.all (fun n => stemmersProved.contains n) = true ∧ BlugeGen.C18S.translated.length = 30 := by
  decide

end Stemmers

/-! ## the Indic normaliser (analysis/lang/in): hand transcription over extracted tables -/
section IndicNormaliser
open Bluge.C18.Indic

/-- `normalize` (scripts.go) returns for EVERY rune slice and EVERY answer `lookupScript` could give: no index or
slice out of range, the loop ends, and the result is not longer than the input -/
theorem indic_normalize_no_crash (look : Indic.Rune → Option Nat) (input : List Indic.Rune) :
    ∃ out, Indic.normalize look input = .ok out ∧ out.length ≤ input.length :=
  normalizeWith_ok look scriptTable decompRows decompRows_five input

/-- `IndicNormalizeFilter.Filter` on every term -/
theorem indic_filter_no_crash (look : Indic.Rune → Option Nat) (term : List (BitVec 8)) (h : term.length < 2 ^ 61) :
    C18S.in_normalizeFilter look term ≠ .crash := by
  refine viaRunes_no_crash _ term h (fun rs _ => ?_)
  obtain ⟨out, ho, hl⟩ := indic_normalize_no_crash look rs
  rw [ho]; exact hl

/-- the per-script decomposition mask is a `*bitset.BitSet`, created by `bitset.New`, written by `Set(uint(ch))` in
`init` and read ONLY by `Test(uint(ch))` in `normalize`: `Test` is total (false beyond the set's length), which is
what `Indic.maskTest` transcribes. `ch = r - base` is far outside 0…0x7f for the code points of a script table
outside its main block (U+A8E0.., U+11B00.., U+11FC0..): an array or slice index in place of `Test` panics there. -/
theorem indic_mask_is_a_total_bitset :
    BlugeGen.C18I.maskField = "*bitset.BitSet" ∧
    BlugeGen.C18I.maskUses = [("init", "scriptData.decompMask = bitset.New(0x7d)"),
                              ("init", "scriptData.decompMask.Set(uint(ch))"),
                              ("normalize", "scriptData.decompMask.Test(uint(ch))")] := by decide

/-- every index / slice expression of the package is one the transcription guards (`idx`, `setAt`, the final `take`)
or a map lookup (`scripts[..]`) -/
theorem indic_index_sites_reviewed :
    BlugeGen.C18I.indexSites =
      [("compose", "input", "pos + 1"), ("compose", "input", "pos + 1"), ("compose", "input", "pos + 2"),
       ("compose", "input", "pos + 2"), ("compose", "input", "pos + 2"), ("compose", "decomposition", "0"),
       ("compose", "decomposition", "4"), ("compose", "decomposition", "1"), ("compose", "decomposition", "2"),
       ("compose", "decomposition", "2"), ("compose", "input", "pos"), ("compose", "decomposition", "3"),
       ("compose", "decomposition", "2"), ("flag", "scripts", "ub"), ("init", "decomposition", "0"),
       ("init", "decomposition", "4"), ("normalize", "input", "i"), ("normalize", "scripts", "script"),
       ("normalize", "input", "0:inputLen")] := by decide

/-- the transcription is of exactly this source text (comment-free, whitespace-normalised); an edit of any of
these functions asks for a re-review of `Bluge.C18.Indic` -/
theorem indic_source_reviewed :
    BlugeGen.C18I.digests =
      [("IndicNormalizeFilter.Filter", "5e186a374f3af74c"), ("NormalizeFilter", "16aad4fbc70e00ca"),
       ("compose", "7a92385f757ef435"), ("flag", "7a39b504adda2ac2"), ("init", "da2dbda3d305a3da"),
       ("lookupScript", "8c908af4324faf84"), ("normalize", "ccb3f76395953c75")] := by decide

/-- the extracted tables: nine scripts with distinct one-bit flags and 0x80-aligned bases, decomposition rows of
five entries whose first entry is a bit the `bitset.New(0x7d)` mask holds without growing -/
theorem indic_tables_wellformed :
    BlugeGen.C18I.scripts = [("unicode.Devanagari", 1, 2304), ("unicode.Bengali", 2, 2432), ("unicode.Gurmukhi", 4, 2560),
      ("unicode.Gujarati", 8, 2688), ("unicode.Oriya", 16, 2816), ("unicode.Tamil", 32, 2944), ("unicode.Telugu", 64, 3072),
      ("unicode.Kannada", 128, 3200), ("unicode.Malayalam", 256, 3328)] ∧
    BlugeGen.C18I.decompositions.all (fun d => d.length == 5 && decide (0 ≤ d.headD (-1) ∧ d.headD (-1) < 0x7d)) = true ∧
    BlugeGen.C18I.decompositions.length = 72 := by decide

end IndicNormaliser

end Bluge.C18

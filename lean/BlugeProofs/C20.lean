import BlugeProofs.C20.Size
import BlugeProofs.C20.Gen
/-! # C20 — highlighted fragments are faithful to the stored text
Property theorems only (helper lemmas live in `BlugeProofs/C20/*.lean`); the model is `Bluge.Highlight`.
`none` is a Go run-time panic; offsets are byte offsets; `locsOK` = valid UTF-8 text and locations sorted
by Start, in range, on rune boundaries (what a search with the bundled analyzers produces).
`v : Variant` says which of the proposed repairs the modelled tree contains: `pinned` = none (the tree as
pinned), `repaired` = all three (work/C20/fix-1..3); theorems without a condition on `v` hold for every tree. -/
namespace Bluge.C20
open Bluge.Highlight

/-! ## the formatted string, stripped of its markup, is exactly `orig[start:end]` -/

/-- HTML formatter, ANY text, fragment and location list: whenever `Format` returns (does not panic), removing
`<mark>`/`</mark>` and undoing html.EscapeString gives exactly the bytes `orig[f.Start:f.End]`. -/
theorem format_strip_eq_slice (v : Variant) (orig : Bytes) (f : Fragment) (tls : List (Option TermLocation))
    (out : Bytes) (h : format v htmlFmt orig f tls = some out) : slice orig f.start f.stop = some (stripHtml out) :=
  formatLoop_strip stripOK_html v.locGuard orig (fun _ _ => trivial) f.stop tls f.start out h

/-- ANSI formatter: the same, for texts without an ESC byte (the colour codes start with ESC). -/
theorem format_strip_eq_slice_ansi (v : Variant) (orig : Bytes) (hesc : ∀ x ∈ orig, x ≠ 0x1B) (f : Fragment)
    (tls : List (Option TermLocation)) (out : Bytes)
    (h : format v ansiFmt orig f tls = some out) : slice orig f.start f.stop = some (stripAnsi out) :=
  formatLoop_strip stripOK_ansi v.locGuard orig hesc f.stop tls f.start out h

/-- "a<b" with the location [2,3) formats to "a&lt;<mark>b</mark>" -/
example : format pinned htmlFmt [0x61, 0x3C, 0x62] ⟨0, 3, 0⟩ [some ⟨"b", 2, 2, 3⟩] =
    some ([0x61] ++ ltE ++ markOpen ++ [0x62] ++ markClose) := by decide

/-- what BestFragments returns for the selected fragment `f`: separator, formatted text `s`, separator, where
`s` stripped is `orig[f.Start:f.End]` -/
def FaithfulTo (strip : Bytes → Bytes) (orig : Bytes) (f : Fragment) (out : Bytes) : Prop :=
  ∃ s, out = (if f.start ≠ 0 then separator else []) ++ s ++ (if f.stop ≠ orig.length then separator else []) ∧
       slice orig f.start f.stop = some (strip s)

/-- BestFragments with the HTML formatter, ANY text, locations, size and count: the i-th returned string is
(separator) + s + (separator) with `s` stripped = `orig[f.Start:f.End]` for the i-th selected fragment `f`
— a contiguous piece of the original. -/
theorem best_fragments_faithful_html (v : Variant) (orig : Bytes) (fsize num : Int) (locs : List TermLocation)
    (outs : List Bytes) (h : bestFragments v htmlFmt orig fsize num locs = some outs) :
    ∃ best, bestSelection v orig fsize num locs = some best ∧ Forall2 (FaithfulTo stripHtml orig) best outs :=
  bestFragments_faithful_aux stripOK_html v orig (fun _ _ => trivial) fsize num locs outs h

theorem best_fragments_faithful_ansi (v : Variant) (orig : Bytes) (hesc : ∀ x ∈ orig, x ≠ 0x1B) (fsize num : Int)
    (locs : List TermLocation) (outs : List Bytes)
    (h : bestFragments v ansiFmt orig fsize num locs = some outs) :
    ∃ best, bestSelection v orig fsize num locs = some best ∧ Forall2 (FaithfulTo stripAnsi orig) best outs :=
  bestFragments_faithful_aux stripOK_ansi v orig hesc fsize num locs outs h

/-! ## fragment bounds -/

/-- the statement of DESIGN: every fragment lies in the text and starts and ends on rune boundaries -/
def FragmentBounds (v : Variant) : Prop :=
  ∀ (orig : Bytes) (fsize : Int) (ot : List TermLocation) (frs : List Fragment),
    locsOK orig ot = true → fragment v orig fsize ot = some frs →
    ∀ f ∈ frs, 0 ≤ f.start ∧ f.start ≤ f.stop ∧ f.stop ≤ orig.length ∧
      isBoundary orig f.start = true ∧ isBoundary orig f.stop = true

/-- FALSE on the pinned tree: with NO location the single fragment is cut after `fragmentSize` BYTES:
text "é" (C3 A9), fragment size 1 → fragment [0,1) ends inside the rune. -/
theorem fragment_bounds_fails : ¬ FragmentBounds pinned := by
  intro h
  have := h [0xC3, 0xA9] 1 [] [⟨0, 1, 0⟩] (by decide) (by decide) ⟨0, 1, 0⟩ (by simp)
  exact absurd this.2.2.2.2 (by decide)

/-- every tree, at least one location (valid text, locations sorted, in range, on rune boundaries; any fragment
size): every fragment has 0 ≤ Start ≤ End ≤ len and starts and ends on rune boundaries. -/
theorem fragment_bounds_partial (v : Variant) (orig : Bytes) (fsize : Int) (ot : List TermLocation)
    (frs : List Fragment) (hok : locsOK orig ot = true) (hne : ot ≠ []) (h : fragment v orig fsize ot = some frs) :
    ∀ f ∈ frs, 0 ≤ f.start ∧ f.start ≤ f.stop ∧ f.stop ≤ orig.length ∧
      isBoundary orig f.start = true ∧ isBoundary orig f.stop = true := by
  intro f hf
  have := fragment_bd v orig fsize ot frs hok (Or.inl hne) h f hf
  exact ⟨this.1.1, this.2.2, this.2.1.2.1, this.1.isBoundary, this.2.1.isBoundary⟩

/-- a tree with repair 3 (no-location fragment counted in runes): the full statement. -/
theorem fragment_bounds_repaired (v : Variant) (hv : v.runeCut = true) : FragmentBounds v := by
  intro orig fsize ot frs hok h f hf
  have := fragment_bd v orig fsize ot frs hok (Or.inr hv) h f hf
  exact ⟨this.1.1, this.2.2, this.2.1.2.1, this.1.isBoundary, this.2.1.isBoundary⟩

/-- every tree, at least one location (same premise): every fragment is at most `fragmentSize` runes long. -/
theorem fragment_size_le (v : Variant) (orig : Bytes) (fsize : Int) (hf : 0 ≤ fsize) (ot : List TermLocation)
    (frs : List Fragment) (hok : locsOK orig ot = true) (hne : ot ≠ []) (h : fragment v orig fsize ot = some frs) :
    ∀ f ∈ frs, ∃ x, slice orig f.start f.stop = some x ∧ (runeCount x : Int) ≤ fsize :=
  fragment_size v orig fsize hf ot frs hok hne h

/-- the loop body of `Fragment` for one location `tl` (valid text, `tl.Start` and `maxbegin` on rune boundaries,
`maxbegin` = End of the previous location that produced a fragment, or 0): the window starts at or before the
location and never reaches back over `maxbegin` when the location starts at or after it. -/
theorem fragment_window (g : Bool) (orig : Bytes) (hv : validUtf8 orig = true) (fsize maxbegin : Int) (hf : 0 ≤ fsize)
    (tl : TermLocation) (tail : List TermLocation) (hb : isBoundary orig tl.start = true)
    (hmb : isBoundary orig maxbegin = true) (hle : maxbegin ≤ tl.start) (s e : Int)
    (h : fragOne g orig fsize maxbegin tl tail = .frag s e) : maxbegin ≤ s ∧ s ≤ tl.start ∧ s ≤ e :=
  ⟨(fragOne_size g orig hv fsize maxbegin hf tl tail (Bd_of_isBoundary hb) s e h).2 (Bd_of_isBoundary hmb) hle,
   (fragOne_bd g orig hv fsize maxbegin tl tail (Bd_of_isBoundary hb) s e h).2.2.2,
   (fragOne_bd g orig hv fsize maxbegin tl tail (Bd_of_isBoundary hb) s e h).2.2.1⟩

/-- "héllo wörld", location "wörld" = [7,13), fragment size 3: the premise holds and the fragment is [7,11) = "wör" -/
example : locsOK [0x68, 0xC3, 0xA9, 0x6C, 0x6C, 0x6F, 0x20, 0x77, 0xC3, 0xB6, 0x72, 0x6C, 0x64] [⟨"wörld", 2, 7, 13⟩] = true := by decide
example : fragment pinned [0x68, 0xC3, 0xA9, 0x6C, 0x6C, 0x6F, 0x20, 0x77, 0xC3, 0xB6, 0x72, 0x6C, 0x64] 3 [⟨"wörld", 2, 7, 13⟩] =
    some [⟨7, 11, 0⟩] := by decide
example : fragment repaired [0xC3, 0xA9] 1 [] = some [⟨0, 2, 0⟩] := by decide

/-! ## marks -/

/-- ANY text, fragment, location list: the formatter's output is text, mark, text, …, text laid out by the
spans `marks v f tls`, and every marked span is the (Start, End) of an entry of the list, inside the fragment. -/
theorem marks_are_locations (v : Variant) (fm : Fmt) (orig : Bytes) (f : Fragment) (tls : List (Option TermLocation)) :
    format v fm orig f tls = renderMarks fm orig f.stop (marks v f tls) f.start ∧
    ∀ m ∈ marks v f tls, ∃ tl, some tl ∈ tls ∧ m = (tl.start, tl.stop) ∧ tl.stop ≤ f.stop :=
  ⟨formatLoop_eq_renderMarks fm v.locGuard orig f.stop tls f.start, marksLoop_mem' v.locGuard f.stop tls f.start⟩

/-- the marked spans lie at or after the fragment start, in increasing order, without overlap -/
theorem marks_sorted_disjoint (v : Variant) (f : Fragment) (tls : List (Option TermLocation))
    (hle : ∀ tl, some tl ∈ tls → tl.start ≤ tl.stop) :
    (∀ m ∈ marks v f tls, f.start ≤ m.1 ∧ m.1 ≤ m.2) ∧ (marks v f tls).Pairwise (fun m n => m.2 ≤ n.1) :=
  ⟨marksLoop_ge v.locGuard f.stop tls f.start hle, marksLoop_sorted v.locGuard f.stop tls f.start hle⟩

/-- what MergeOverlapping (with its `lastTl` that is never advanced) leaves: each entry starts where a
location starts (same term) and ends where a location ends, and keeps Start ≤ End -/
theorem merged_are_location_runs (locs : List TermLocation) (m : TermLocation) (h : some m ∈ mergeOverlapping locs) :
    (∃ l ∈ locs, m.start = l.start ∧ m.term = l.term) ∧ (∃ l ∈ locs, m.stop = l.stop) ∧
    ((∀ l ∈ locs, l.start ≤ l.stop) → m.start ≤ m.stop) :=
  ⟨(mergeOverlapping_mem h).1, (mergeOverlapping_mem h).2, fun hr => mergeOverlapping_le hr h⟩

/-- on sorted, pairwise disjoint, non-empty locations (tokens) MergeOverlapping changes nothing, so the marks
BestFragments produces are exactly matched term occurrences -/
theorem marks_are_term_occurrences (v : Variant) (f : Fragment) (ot : List TermLocation) (hd : disjointLocs ot = true)
    (hne : ∀ l ∈ ot, l.start < l.stop) :
    ∀ m ∈ marks v f (mergeOverlapping ot), ∃ l ∈ ot, m = (l.start, l.stop) ∧ l.stop ≤ f.stop :=
  marks_term_occurrences_aux v.locGuard f.start f.stop ot hd hne

example : mergeOverlapping [⟨"a", 1, 0, 5⟩, ⟨"b", 2, 3, 8⟩, ⟨"c", 3, 10, 15⟩, ⟨"d", 4, 12, 18⟩]
    = [some ⟨"a", 1, 0, 8⟩, none, some ⟨"c", 3, 10, 15⟩, some ⟨"d", 4, 12, 18⟩] := by decide

/-! ## selection -/

/-- ANY input: BestFragments selects at most `num` fragments, pairwise non-overlapping (`Fragment.Overlaps`),
each of them one of the fragmenter's fragments (with its score). -/
theorem best_nonoverlapping_at_most_num (v : Variant) (orig : Bytes) (fsize num : Int) (locs : List TermLocation)
    (best : List Fragment) (h : bestSelection v orig fsize num locs = some best) :
    (best.length : Int) ≤ max num 0 ∧ best.Pairwise (fun a b => a.overlaps b = false) ∧
    ∃ frags, fragment v orig fsize (orderTermLocations locs) = some frags ∧
      ∀ b ∈ best, ∃ f ∈ frags, b = { f with score := scoreOf locs f } :=
  bestSelection_spec v orig fsize num locs best h

/-- `Overlaps = false` on non-empty fragments means the byte ranges are disjoint -/
theorem overlaps_false_iff_disjoint (a b : Fragment) (ha : a.start < a.stop) (hb : b.start < b.stop) :
    a.overlaps b = false ↔ (a.stop ≤ b.start ∨ b.stop ≤ a.start) :=
  overlaps_false_iff a b ha hb

/-- as many strings as selected fragments, at most `num` -/
theorem best_count (v : Variant) (fm : Fmt) (orig : Bytes) (fsize num : Int) (locs : List TermLocation)
    (outs : List Bytes) (h : bestFragments v fm orig fsize num locs = some outs) : (outs.length : Int) ≤ max num 0 :=
  bestFragments_count v fm orig fsize num locs outs h

/-! ## no panic -/

/-- the statement of the property: highlighting never panics, whatever the text and locations -/
def NoPanic (v : Variant) : Prop :=
  ∀ (fm : Fmt) (orig : Bytes) (fsize num : Int) (locs : List TermLocation), 1 ≤ fsize →
    bestFragments v fm orig fsize num locs ≠ none

/-- FALSE on the pinned tree: a location with a negative Start makes `orig[end:]` panic. -/
theorem no_panic_fails : ¬ NoPanic pinned := by
  intro h
  exact h htmlFmt [0x61] 5 1 [⟨"a", 1, -1, 1⟩] (by decide) (by decide)

/-- also FALSE for a location whose End is before its Start (`orig[Start:End]` in the formatter). -/
theorem no_panic_fails_reversed : ¬ NoPanic pinned := by
  intro h
  exact h htmlFmt [0x61, 0x62, 0x63] 5 1 [⟨"a", 1, 2, 1⟩] (by decide) (by decide)

/-- every tree, ANY text (valid UTF-8 or not), any fragment size ≥ 1, any count, either formatter, ANY location
set whose locations have 0 ≤ Start ≤ End (unsorted, overlapping, nested, beyond the end, inside runes): no panic. -/
theorem no_panic_partial (v : Variant) (fm : Fmt) (orig : Bytes) (fsize num : Int) (locs : List TermLocation)
    (hf : 1 ≤ fsize) (hall : ∀ l ∈ locs, 0 ≤ l.start ∧ l.start ≤ l.stop) :
    ∃ outs, bestFragments v fm orig fsize num locs = some outs :=
  bestFragments_np v fm orig fsize num locs hf (Or.inr hall)

/-- a tree with repair 2 (unusable locations ignored): the full statement, any text and ANY locations. -/
theorem no_panic_repaired (v : Variant) (hv : v.locGuard = true) : NoPanic v := by
  intro fm orig fsize num locs hf hn
  obtain ⟨outs, h⟩ := bestFragments_np v fm orig fsize num locs hf (Or.inl hv)
  rw [h] at hn; cases hn

/-- "a b" with the location [2,3) and one beyond the end: no panic, one fragment "a <mark>b</mark>" -/
example : bestFragments pinned htmlFmt [0x61, 0x20, 0x62] 5 1 [⟨"b", 2, 2, 3⟩, ⟨"x", 1, 7, 9⟩] =
    some [[0x61, 0x20] ++ markOpen ++ [0x62] ++ markClose] := by decide
example : bestFragments repaired htmlFmt [0x61] 5 1 [⟨"a", 1, -1, 1⟩] = some [[0x61]] := by decide

/-! ## the best fragment contains a match -/

/-- the statement: if some location fits the fragment size, the first selected fragment contains a location -/
def BestContainsMatch (v : Variant) : Prop :=
  ∀ (orig : Bytes) (fsize num : Int) (locs : List TermLocation),
    locsOK orig (orderTermLocations locs) = true → 1 ≤ fsize → 1 ≤ num → (∃ l ∈ locs, fits orig fsize l = true) →
    ∃ top rest, bestSelection v orig fsize num locs = some (top :: rest) ∧ 1 ≤ top.score

/-- FALSE on the pinned tree: the valid text "a �" (61 20 EF BF BD) with the location "a" = [0,1), size 5:
`Fragment` bails on the genuine U+FFFD (decoded as RuneError, size 3) and returns no fragment at all. -/
theorem best_contains_match_fails : ¬ BestContainsMatch pinned := by
  intro h
  obtain ⟨top, rest, hb, _⟩ := h [0x61, 0x20, 0xEF, 0xBF, 0xBD] 5 1 [⟨"a", 1, 0, 1⟩] (by decide) (by decide) (by decide)
    ⟨_, List.mem_singleton.mpr rfl, by decide⟩
  have e : bestSelection pinned [0x61, 0x20, 0xEF, 0xBF, 0xBD] 5 1 [⟨"a", 1, 0, 1⟩] = some [] := by decide
  rw [e] at hb; cases hb

/-- every tree, texts WITHOUT U+FFFD (valid UTF-8, no EF BF BD), locations sorted, in range, on rune boundaries:
if some location is at most `fragmentSize` runes long, BestFragments (num ≥ 1) returns at least one fragment
and the first one contains a location (score ≥ 1). -/
theorem best_contains_match_partial (v : Variant) (orig : Bytes) (fsize num : Int) (locs : List TermLocation)
    (hclean : cleanUtf8 orig = true) (hok : locsOK orig (orderTermLocations locs) = true) (hf : 1 ≤ fsize)
    (hnum : 1 ≤ num) (hfit : ∃ l ∈ locs, fits orig fsize l = true) :
    ∃ top rest, bestSelection v orig fsize num locs = some (top :: rest) ∧ 1 ≤ top.score :=
  best_top_score v orig fsize num locs ⟨clean_valid hclean, Or.inr hclean⟩ hok hf hnum hfit

/-- a tree with repair 1 (`size <= 1` guards): the full statement, U+FFFD included. -/
theorem best_contains_match_repaired (v : Variant) (hv : v.sizeGuard = true) : BestContainsMatch v := by
  intro orig fsize num locs hok hf hnum hfit
  exact best_top_score v orig fsize num locs ⟨locsOK_valid hok, Or.inl hv⟩ hok hf hnum hfit

example : cleanUtf8 [0x68, 0xC3, 0xA9] = true ∧ fits [0x68, 0xC3, 0xA9] 2 ⟨"hé", 1, 0, 3⟩ = true := by decide
example : bestSelection repaired [0x61, 0x20, 0xEF, 0xBF, 0xBD] 5 1 [⟨"a", 1, 0, 1⟩] = some [⟨0, 5, 1⟩] := by decide

/-! ## the regenerated layer: what /repo's source says on this run (go/extract/c20.go → BlugeGen.C20) -/

/-- the byte constants of the model are the source's DefaultSeparator, HTML marks, ANSI codes; default size 200 -/
theorem gen_constants :
    separator = BlugeGen.C20.separator ∧ markOpen = BlugeGen.C20.htmlBefore ∧ markClose = BlugeGen.C20.htmlAfter ∧
    ansiColor = BlugeGen.C20.ansiColor ∧ ansiReset = BlugeGen.C20.ansiReset ∧ BlugeGen.C20.defaultFragmentSize = 200 := by
  decide

set_option maxRecDepth 8000 in
/-- the guards and statement order of Format (both), MergeOverlapping, Fragment and Score, as normalised source
text, are the ones the model was transcribed from (for the repair variant recognised in the source) -/
theorem gen_facts_match_model : BlugeGen.C20.facts = expectedFacts BlugeGen.C20.variant := by decide

/-- the translated `Overlaps`, `Less` and scorer test are what the model uses -/
theorem gen_overlaps_location (a b : TermLocation) : BlugeGen.C20.overlapsTL a b = a.overlaps b := overlapsTL_eq a b
theorem gen_overlaps_fragment (a b : Fragment) : BlugeGen.C20.overlapsFrag a b = a.overlaps b := overlapsFrag_eq a b
theorem gen_less (x y : TermLocation) (ys : List TermLocation) :
    insertByStart x (y :: ys) = if BlugeGen.C20.lessTL x y = true then x :: y :: ys else y :: insertByStart x ys :=
  insertByStart_less x y ys
theorem gen_score_test (locs : List TermLocation) (f : Fragment) :
    scoreOf locs f = (dedup ((locs.filter fun l => BlugeGen.C20.inside l f).map (·.term))).length :=
  scoreOf_inside locs f

end Bluge.C20

import BlugeProofs.C20.Size
import BlugeProofs.C20.Gen
import BlugeProofs.C20.Order
import BlugeProofs.C20.Merge
import BlugeProofs.C20.Bundled
/-! # C20 — highlighted fragments are faithful to the stored text
Property theorems only (helper lemmas live in `BlugeProofs/C20/*.lean`); the model is `Bluge.Highlight`.
`none` is a Go run-time panic; offsets are byte offsets; `locsOK` = valid UTF-8 text and locations sorted
by Start, in range, on rune boundaries (what a search with the bundled analyzers produces).

`v : Variant` says which repairs the modelled tree contains: `pinned` = none (the tree as pinned), `tree3` =
repairs 1–3 (the fix: commits a31c68e, 1070e7e, 997011d), `repaired` = all five (work/C20/fix-1..5); theorems
without a condition on `v` hold for every tree.

`BestFragments` sorts the map's locations with `sort.Sort` (not stable) after a random map iteration, so the
slice `ot` it works on is SOME `Less`-sorted permutation of the map's locations `locs`. The theorems about
BestFragments are therefore stated for `bestSelectionOrd`/`bestFragmentsOrd … locs ot` and EVERY such `ot`
(`Ordered v locs ot`, or no condition at all where none is needed); `bestFragments … locs` is the instance
`ot = orderTermLocations v.tieBreak locs` the driver computes (`stable_order_is_ordered`). -/
namespace Bluge.C20
open Bluge.Highlight

/-! ## the order OrderTermLocations returns -/

/-- what OrderTermLocations guarantees about the slice it returns, whatever the sorting algorithm and the map
iteration order: a permutation of the map's locations in which no element is `Less` than an earlier one -/
def Ordered (v : Variant) (locs ot : List TermLocation) : Prop := ot.Perm locs ∧ sortedFor v.tieBreak ot = true

/-- the order the model driver uses is one of them -/
theorem stable_order_is_ordered (v : Variant) (locs : List TermLocation) :
    Ordered v locs (orderTermLocations v.tieBreak locs) ∧
    (∀ fm orig fsize num, bestFragments v fm orig fsize num locs =
      bestFragmentsOrd v fm orig fsize num locs (orderTermLocations v.tieBreak locs)) :=
  ⟨⟨orderTermLocations_perm _ locs, sortedFor_orderTermLocations _ locs⟩, fun _ _ _ _ => rfl⟩

/-- the statement: the fragments and the formatted strings (either formatter) do not depend on which admissible
order OrderTermLocations returned -/
def OrderIndependent (v : Variant) : Prop :=
  ∀ (fm : Fmt) (orig : Bytes) (fsize num : Int) (locs ot : List TermLocation), Ordered v locs ot →
    bestSelectionOrd v orig fsize num locs ot = bestSelection v orig fsize num locs ∧
    bestFragmentsOrd v fm orig fsize num locs ot = bestFragments v fm orig fsize num locs

/-- FALSE on every tree whose `Less` compares Start only (with or without repair 5): text "abcde fgh", the
locations "abc" = [0,3), "abcde" = [0,5) (same Start, different End) and "fgh" = [6,9), fragment size 5, two
fragments asked for. The fragmenter sets `maxbegin` to the End of the location it just handled: with "abc" handled
last it falls back to 3, the window of "fgh" grows back to [4,9), overlaps the first fragment [0,5) and is dropped.
The two admissible orders give two fragments ([0,5), [5,9)) and one fragment ([0,5)). -/
theorem order_independent_fails (v : Variant) (hv : v.tieBreak = false) : ¬ OrderIndependent v := by
  intro h
  have h1 := (h htmlFmt [0x61, 0x62, 0x63, 0x64, 0x65, 0x20, 0x66, 0x67, 0x68] 5 2
    [⟨"abc", 1, 0, 3⟩, ⟨"abcde", 2, 0, 5⟩, ⟨"fgh", 3, 6, 9⟩] [⟨"abc", 1, 0, 3⟩, ⟨"abcde", 2, 0, 5⟩, ⟨"fgh", 3, 6, 9⟩]
    ⟨List.Perm.refl _, by rw [hv]; decide⟩).1
  have h2 := (h htmlFmt [0x61, 0x62, 0x63, 0x64, 0x65, 0x20, 0x66, 0x67, 0x68] 5 2
    [⟨"abc", 1, 0, 3⟩, ⟨"abcde", 2, 0, 5⟩, ⟨"fgh", 3, 6, 9⟩] [⟨"abcde", 2, 0, 5⟩, ⟨"abc", 1, 0, 3⟩, ⟨"fgh", 3, 6, 9⟩]
    ⟨List.Perm.swap _ _ _, by rw [hv]; decide⟩).1
  rw [← h2] at h1
  obtain ⟨a, b, c, d, e⟩ := v
  simp only at hv
  subst hv
  revert h1
  cases a <;> cases b <;> cases c <;> cases e <;> decide

/-- the formatted strings differ as well: "abcde" with "abc" = [0,3) and "abcde" = [0,5) gives
`<mark>abcde</mark>` or `<mark>abc</mark>de` on the current tree (observed on the real code, see DESIGN) -/
example : bestFragmentsOrd tree3 htmlFmt [0x61, 0x62, 0x63, 0x64, 0x65] 9 1 [⟨"abc", 1, 0, 3⟩, ⟨"abcde", 2, 0, 5⟩]
      [⟨"abc", 1, 0, 3⟩, ⟨"abcde", 2, 0, 5⟩] = some [markOpen ++ [0x61, 0x62, 0x63, 0x64, 0x65] ++ markClose] ∧
    bestFragmentsOrd tree3 htmlFmt [0x61, 0x62, 0x63, 0x64, 0x65] 9 1 [⟨"abc", 1, 0, 3⟩, ⟨"abcde", 2, 0, 5⟩]
      [⟨"abcde", 2, 0, 5⟩, ⟨"abc", 1, 0, 3⟩] = some [markOpen ++ [0x61, 0x62, 0x63] ++ markClose ++ [0x64, 0x65]] := by
  decide

/-- every tree, ANY text, size, count, formatter: when locations with the same Start also have the same End
(`tiesAgree`: all that a tokenizer followed by the n-gram / edge-n-gram filters, or by 1:1 filters, produces —
and trivially when all Starts are distinct), every admissible order gives the same fragments and the same strings. -/
theorem order_independent_partial (v : Variant) (fm : Fmt) (orig : Bytes) (fsize num : Int) (locs ot : List TermLocation)
    (ho : Ordered v locs ot) (ht : tiesAgree locs = true) :
    bestSelectionOrd v orig fsize num locs ot = bestSelection v orig fsize num locs ∧
    bestFragmentsOrd v fm orig fsize num locs ot = bestFragments v fm orig fsize num locs :=
  best_order_irrelevant v fm orig fsize num locs ot ho.1 ho.2 (Or.inr ht)

/-- a tree with repair 4 (`Less` compares (Start, End)): the full statement. -/
theorem order_independent_repaired (v : Variant) (hv : v.tieBreak = true) : OrderIndependent v :=
  fun fm orig fsize num locs ot ho => best_order_irrelevant v fm orig fsize num locs ot ho.1 ho.2 (Or.inl hv)

example : tiesAgree [⟨"q", 1, 0, 5⟩, ⟨"qu", 1, 0, 5⟩, ⟨"b", 2, 6, 11⟩] = true ∧
    Ordered tree3 [⟨"q", 1, 0, 5⟩, ⟨"qu", 1, 0, 5⟩, ⟨"b", 2, 6, 11⟩] [⟨"qu", 1, 0, 5⟩, ⟨"q", 1, 0, 5⟩, ⟨"b", 2, 6, 11⟩] :=
  ⟨by decide, List.Perm.swap _ _ _, by decide⟩

/-! ## the formatted string, stripped of its markup, is exactly `orig[start:end]` -/

/-- HTML formatter, ANY text, fragment and location list: whenever `Format` returns (does not panic), removing
`<mark>`/`</mark>` and undoing html.EscapeString gives exactly the bytes `orig[f.Start:f.End]`. -/
theorem format_strip_eq_slice (v : Variant) (orig : Bytes) (f : Fragment) (tls : List (Option TermLocation))
    (out : Bytes) (h : format v htmlFmt orig f tls = some out) : slice orig f.start f.stop = some (stripHtml out) :=
  formatLoop_strip stripOK_html v.locGuard orig (fun _ _ => trivial) f.stop tls f.start out h

/-- ANSI formatter: the same, for texts without an ESC byte (the colour codes start with ESC). -/
theorem format_strip_eq_slice_ansi (v : Variant) (orig : Bytes) (hesc : ∀ x ∈ orig, x ≠ 0x1B) (f : Fragment)
    (tls : List (Option TermLocation)) (out : Bytes)
    (h : format v ansiFmt orig f tls = some out) : slice orig f.start f.stop = some (stripAnsi out) :=
  formatLoop_strip stripOK_ansi v.locGuard orig hesc f.stop tls f.start out h

/-- "a<b" with the location [2,3) formats to "a&lt;<mark>b</mark>" -/
example : format pinned htmlFmt [0x61, 0x3C, 0x62] ⟨0, 3, 0⟩ [some ⟨"b", 2, 2, 3⟩] =
    some ([0x61] ++ ltE ++ markOpen ++ [0x62] ++ markClose) := by decide

/-- what BestFragments returns for the selected fragment `f`: separator, formatted text `s`, separator, where
`s` stripped is `orig[f.Start:f.End]` -/
def FaithfulTo (strip : Bytes → Bytes) (orig : Bytes) (f : Fragment) (out : Bytes) : Prop :=
  ∃ s, out = (if f.start ≠ 0 then separator else []) ++ s ++ (if f.stop ≠ orig.length then separator else []) ∧
       slice orig f.start f.stop = some (strip s)

/-- BestFragments with the HTML formatter, ANY text, locations, ORDER of the locations, size and count: the i-th
returned string is (separator) + s + (separator) with `s` stripped = `orig[f.Start:f.End]` for the i-th selected
fragment `f` — a contiguous piece of the original. -/
theorem best_fragments_faithful_html (v : Variant) (orig : Bytes) (fsize num : Int) (locs ot : List TermLocation)
    (outs : List Bytes) (h : bestFragmentsOrd v htmlFmt orig fsize num locs ot = some outs) :
    ∃ best, bestSelectionOrd v orig fsize num locs ot = some best ∧ Forall2 (FaithfulTo stripHtml orig) best outs :=
  bestFragments_faithful_aux stripOK_html v orig (fun _ _ => trivial) fsize num locs outs ot h

theorem best_fragments_faithful_ansi (v : Variant) (orig : Bytes) (hesc : ∀ x ∈ orig, x ≠ 0x1B) (fsize num : Int)
    (locs ot : List TermLocation) (outs : List Bytes)
    (h : bestFragmentsOrd v ansiFmt orig fsize num locs ot = some outs) :
    ∃ best, bestSelectionOrd v orig fsize num locs ot = some best ∧ Forall2 (FaithfulTo stripAnsi orig) best outs :=
  bestFragments_faithful_aux stripOK_ansi v orig hesc fsize num locs outs ot h

/-! ## fragment bounds -/

/-- the statement of DESIGN: every fragment lies in the text and starts and ends on rune boundaries -/
def FragmentBounds (v : Variant) : Prop :=
  ∀ (orig : Bytes) (fsize : Int) (ot : List TermLocation) (frs : List Fragment),
    locsOK orig ot = true → fragment v orig fsize ot = some frs →
    ∀ f ∈ frs, 0 ≤ f.start ∧ f.start ≤ f.stop ∧ f.stop ≤ orig.length ∧
      isBoundary orig f.start = true ∧ isBoundary orig f.stop = true

/-- FALSE on the pinned tree: with NO location the single fragment is cut after `fragmentSize` BYTES:
text "é" (C3 A9), fragment size 1 → fragment [0,1) ends inside the rune. -/
theorem fragment_bounds_fails : ¬ FragmentBounds pinned := by
  intro h
  have := h [0xC3, 0xA9] 1 [] [⟨0, 1, 0⟩] (by decide) (by decide) ⟨0, 1, 0⟩ (by simp)
  exact absurd this.2.2.2.2 (by decide)

/-- every tree, at least one location (valid text, locations sorted, in range, on rune boundaries; any fragment
size): every fragment has 0 ≤ Start ≤ End ≤ len and starts and ends on rune boundaries. -/
theorem fragment_bounds_partial (v : Variant) (orig : Bytes) (fsize : Int) (ot : List TermLocation)
    (frs : List Fragment) (hok : locsOK orig ot = true) (hne : ot ≠ []) (h : fragment v orig fsize ot = some frs) :
    ∀ f ∈ frs, 0 ≤ f.start ∧ f.start ≤ f.stop ∧ f.stop ≤ orig.length ∧
      isBoundary orig f.start = true ∧ isBoundary orig f.stop = true := by
  intro f hf
  have := fragment_bd v orig fsize ot frs hok (Or.inl hne) h f hf
  exact ⟨this.1.1, this.2.2, this.2.1.2.1, this.1.isBoundary, this.2.1.isBoundary⟩

/-- a tree with repair 3 (no-location fragment counted in runes): the full statement. -/
theorem fragment_bounds_repaired (v : Variant) (hv : v.runeCut = true) : FragmentBounds v := by
  intro orig fsize ot frs hok h f hf
  have := fragment_bd v orig fsize ot frs hok (Or.inr hv) h f hf
  exact ⟨this.1.1, this.2.2, this.2.1.2.1, this.1.isBoundary, this.2.1.isBoundary⟩

/-- every tree, at least one location (same premise): every fragment is at most `fragmentSize` runes long. -/
theorem fragment_size_le (v : Variant) (orig : Bytes) (fsize : Int) (hf : 0 ≤ fsize) (ot : List TermLocation)
    (frs : List Fragment) (hok : locsOK orig ot = true) (hne : ot ≠ []) (h : fragment v orig fsize ot = some frs) :
    ∀ f ∈ frs, ∃ x, slice orig f.start f.stop = some x ∧ (runeCount x : Int) ≤ fsize :=
  fragment_size v orig fsize hf ot frs hok hne h

/-- the loop body of `Fragment` for one location `tl` (valid text, `tl.Start` and `maxbegin` on rune boundaries,
`maxbegin` = End of the previous location that produced a fragment, or 0): the window starts at or before the
location and never reaches back over `maxbegin` when the location starts at or after it. -/
theorem fragment_window (g : Bool) (orig : Bytes) (hv : validUtf8 orig = true) (fsize maxbegin : Int) (hf : 0 ≤ fsize)
    (tl : TermLocation) (tail : List TermLocation) (hb : isBoundary orig tl.start = true)
    (hmb : isBoundary orig maxbegin = true) (hle : maxbegin ≤ tl.start) (s e : Int)
    (h : fragOne g orig fsize maxbegin tl tail = .frag s e) : maxbegin ≤ s ∧ s ≤ tl.start ∧ s ≤ e :=
  ⟨(fragOne_size g orig hv fsize maxbegin hf tl tail (Bd_of_isBoundary hb) s e h).2 (Bd_of_isBoundary hmb) hle,
   (fragOne_bd g orig hv fsize maxbegin tl tail (Bd_of_isBoundary hb) s e h).2.2.2,
   (fragOne_bd g orig hv fsize maxbegin tl tail (Bd_of_isBoundary hb) s e h).2.2.1⟩

/-- "héllo wörld", location "wörld" = [7,13), fragment size 3: the premise holds and the fragment is [7,11) = "wör" -/
example : locsOK [0x68, 0xC3, 0xA9, 0x6C, 0x6C, 0x6F, 0x20, 0x77, 0xC3, 0xB6, 0x72, 0x6C, 0x64] [⟨"wörld", 2, 7, 13⟩] = true := by decide
example : fragment pinned [0x68, 0xC3, 0xA9, 0x6C, 0x6C, 0x6F, 0x20, 0x77, 0xC3, 0xB6, 0x72, 0x6C, 0x64] 3 [⟨"wörld", 2, 7, 13⟩] =
    some [⟨7, 11, 0⟩] := by decide
example : fragment repaired [0xC3, 0xA9] 1 [] = some [⟨0, 2, 0⟩] := by decide

/-! ## marks -/

/-- ANY text, fragment, location list: the formatter's output is text, mark, text, …, text laid out by the
spans `marks v f tls`, and every marked span is the (Start, End) of an entry of the list, inside the fragment. -/
theorem marks_are_locations (v : Variant) (fm : Fmt) (orig : Bytes) (f : Fragment) (tls : List (Option TermLocation)) :
    format v fm orig f tls = renderMarks fm orig f.stop (marks v f tls) f.start ∧
    ∀ m ∈ marks v f tls, ∃ tl, some tl ∈ tls ∧ m = (tl.start, tl.stop) ∧ tl.stop ≤ f.stop :=
  ⟨formatLoop_eq_renderMarks fm v.locGuard orig f.stop tls f.start, marksLoop_mem' v.locGuard f.stop tls f.start⟩

/-- the marked spans lie at or after the fragment start, in increasing order, without overlap -/
theorem marks_sorted_disjoint (v : Variant) (f : Fragment) (tls : List (Option TermLocation))
    (hle : ∀ tl, some tl ∈ tls → tl.start ≤ tl.stop) :
    (∀ m ∈ marks v f tls, f.start ≤ m.1 ∧ m.1 ≤ m.2) ∧ (marks v f tls).Pairwise (fun m n => m.2 ≤ n.1) :=
  ⟨marksLoop_ge v.locGuard f.stop tls f.start hle, marksLoop_sorted v.locGuard f.stop tls f.start hle⟩

/-- what MergeOverlapping leaves, ANY list: each entry starts where a location starts (same term) and ends
where a location ends, and keeps Start ≤ End -/
theorem merged_are_location_runs (mx : Bool) (locs : List TermLocation) (m : TermLocation)
    (h : some m ∈ mergeOverlapping mx locs) :
    (∃ l ∈ locs, m.start = l.start ∧ m.term = l.term) ∧ (∃ l ∈ locs, m.stop = l.stop) ∧
    ((∀ l ∈ locs, l.start ≤ l.stop) → m.start ≤ m.stop) :=
  ⟨(mergeOverlapping_mem h).1, (mergeOverlapping_mem h).2, fun hr => mergeOverlapping_le hr h⟩

/-- MergeOverlapping EXACTLY, on any list sorted by Start with non-empty spans (`lastTl` is set once and never
advanced; `lastTl.End = tl.End` overwrites): the first location absorbs the maximal prefix of the following ones
that each start before its CURRENT End (`absorbRun`), and is left with the End of the LAST location it absorbed
(`mx = false`), resp. the largest End (`mx = true`, repair 5); the absorbed ones become nil; every later location —
a second, third, … run of overlapping locations included — is left exactly as it was. -/
theorem merge_exact (mx : Bool) (a : TermLocation) (rest : List TermLocation)
    (hs : sortedByStart (a :: rest) = true) (hne : ∀ l ∈ a :: rest, l.start < l.stop) :
    mergeOverlapping mx (a :: rest) =
      some { a with stop := (absorbRun mx a.stop rest).2 } ::
        (List.replicate (absorbRun mx a.stop rest).1 none ++ (rest.drop (absorbRun mx a.stop rest).1).map some) :=
  mergeOverlapping_exact mx a rest hs hne

/-- NESTED locations on a tree without repair 5: if the first location `a` contains the second one `b` and `b`
ends strictly earlier, the merged entry is [a.Start, b.End) — the mark stops BEFORE the end of the matched
occurrence `a` (and everything after `b.End` is left alone). -/
theorem merge_nested_shrinks (a b : TermLocation) (rest : List TermLocation)
    (hab : a.start ≤ b.start ∧ b.start < b.stop ∧ b.stop < a.stop)
    (hrest : ∀ l ∈ rest, b.stop ≤ l.start ∧ l.start < l.stop) (hs : sortedByStart rest = true) :
    mergeOverlapping false (a :: b :: rest) = some { a with stop := b.stop } :: none :: rest.map some := by
  have hs' : sortedByStart (a :: b :: rest) = true := by
    cases rest with
    | nil => simp [sortedByStart]; omega
    | cons c r =>
      have := (hrest c (by simp)).1
      simp only [sortedByStart, Bool.and_eq_true, decide_eq_true_eq] at hs ⊢
      exact ⟨by omega, by omega, hs⟩
  rw [merge_exact false a (b :: rest) hs' (by
    intro l hl
    simp only [List.mem_cons] at hl
    rcases hl with h | h | h
    · subst h; omega
    · subst h; omega
    · exact (hrest l h).2)]
  have h1 : b.start < a.stop := by omega
  have h2 : absorbRun false b.stop rest = (0, b.stop) := by
    cases rest with
    | nil => rfl
    | cons c r =>
      have := (hrest c (by simp)).1
      simp only [absorbRun]
      rw [if_neg (by omega)]
  simp [absorbRun, h1, h2]

/-- a CHAIN at the head of the list on a tree without repair 5: when the Ends never decrease along the sorted
list (tokens; CJK bigrams), overwriting the End is taking the maximum — the current tree computes what the
repaired one computes. -/
theorem merge_monotone_eq_repaired (ot : List TermLocation) (hs : sortedByStart ot = true)
    (hne : ∀ l ∈ ot, l.start < l.stop) (hm : monotoneStops ot = true) :
    mergeOverlapping false ot = mergeOverlapping true ot := by
  cases ot with
  | nil => rfl
  | cons a rest =>
    rw [merge_exact false a rest hs hne, merge_exact true a rest hs hne,
      absorbRun_monotone rest a.stop (monotone_head_le hm) (monotone_tail hm)]

/-- the property text's sentence "every marked span is exactly one matched term occurrence or a run of overlapping
ones", for the ordered slice `ot` BestFragments merges and formats with -/
def MarksAreRuns (v : Variant) : Prop :=
  ∀ (f : Fragment) (ot : List TermLocation), sortedByStart ot = true → (∀ l ∈ ot, l.start < l.stop) →
    ∀ m ∈ marks v f (mergeOverlapping v.mergeMax ot), markOK ot m = true

/-- FALSE on every tree without repair 5: "footballer" = [0,10) and the nested "ball" = [4,8) (what the
dictionary-compound filter produces; also two values of a multi-valued field) are merged into [0,8): the mark
"football" is neither of the two occurrences nor their union. -/
theorem marks_are_runs_fails (v : Variant) (hv : v.mergeMax = false) : ¬ MarksAreRuns v := by
  intro h
  have := h ⟨0, 10, 0⟩ [⟨"footballer", 1, 0, 10⟩, ⟨"ball", 1, 4, 8⟩] (by decide) (by decide) (0, 8)
  rw [hv] at this
  unfold marks at this
  cases hl : v.locGuard <;> rw [hl] at this <;> revert this <;> decide

/-- every tree: the statement holds for every sorted list whose Ends never decrease — no location nested in an
earlier one: the tokens of a tokenizer (disjoint) and the CJK bigrams (overlapping), i.e. every location set a
bundled analyzer produces on one field value. -/
theorem marks_are_runs_partial (v : Variant) (f : Fragment) (ot : List TermLocation) (hs : sortedByStart ot = true)
    (hne : ∀ l ∈ ot, l.start < l.stop) (hm : monotoneStops ot = true) :
    ∀ m ∈ marks v f (mergeOverlapping v.mergeMax ot), markOK ot m = true := by
  intro m hmm
  obtain ⟨tl, htl, rfl, _⟩ := marksLoop_mem' v.locGuard f.stop _ f.start m hmm
  exact merged_entries_are_runs v.mergeMax ot hs hne (Or.inr hm) tl htl

/-- a tree with repair 5 (MergeOverlapping keeps the larger End): the full statement. -/
theorem marks_are_runs_repaired (v : Variant) (hv : v.mergeMax = true) : MarksAreRuns v := by
  intro f ot hs hne m hmm
  obtain ⟨tl, htl, rfl, _⟩ := marksLoop_mem' v.locGuard f.stop _ f.start m hmm
  exact merged_entries_are_runs v.mergeMax ot hs hne (Or.inl hv) tl htl

/-! ### the location sets of the bundled analyzers on one field value -/

/-- the tokens of a tokenizer (sorted, disjoint, non-empty), the CJK bigrams of adjacent tokens, and any selection
of an advancing list (the locations of the terms a query matched) advance strictly in both ends -/
theorem bundled_locations_advance :
    (∀ ot : List TermLocation, disjointLocs ot = true → (∀ l ∈ ot, l.start < l.stop) →
      advancing ot = true ∧ advancing (bigramSpans ot) = true) ∧
    (∀ l' l : List TermLocation, l'.Sublist l → advancing l = true → advancing l' = true) :=
  ⟨fun _ hd hne => ⟨advancing_of_disjoint hd hne, advancing_bigrams hd hne⟩, fun _ _ hs h => advancing_sublist hs h⟩

/-- an advancing list satisfies the premises of the partial theorems: sorted by Start, Ends never decrease,
no two locations share a Start, no empty span -/
theorem advancing_premises (ot : List TermLocation) (h : advancing ot = true) :
    sortedByStart ot = true ∧ monotoneStops ot = true ∧ tiesAgree ot = true ∧ ∀ l ∈ ot, l.start < l.stop :=
  ⟨advancing_sorted h, advancing_monotone h, advancing_tiesAgree h, advancing_nonempty h⟩

/-- every tree, advancing locations (what a search with a bundled analyzer on ONE field value returns; the driver
evaluates `advancing` on every such search): the output does not depend on the order OrderTermLocations chose, and
every marked span is exactly one matched term occurrence or the union of a run of overlapping ones. -/
theorem bundled_marks_and_order (v : Variant) (fm : Fmt) (orig : Bytes) (fsize num : Int) (locs ot : List TermLocation)
    (ho : Ordered v locs ot) (ha : advancing ot = true) :
    bestFragmentsOrd v fm orig fsize num locs ot = bestFragments v fm orig fsize num locs ∧
    ∀ f : Fragment, ∀ m ∈ marks v f (mergeOverlapping v.mergeMax ot), markOK ot m = true :=
  ⟨(best_order_irrelevant v fm orig fsize num locs ot ho.1 ho.2
      (Or.inr (tiesAgree_perm ho.1 (advancing_tiesAgree ha)))).2,
   fun f => marks_are_runs_partial v f ot (advancing_sorted ha) (advancing_nonempty ha) (advancing_monotone ha)⟩

example : advancing (bigramSpans [⟨"日", 1, 0, 3⟩, ⟨"本", 2, 3, 6⟩, ⟨"語", 3, 6, 9⟩]) = true ∧
    bigramSpans [⟨"日", 1, 0, 3⟩, ⟨"本", 2, 3, 6⟩, ⟨"語", 3, 6, 9⟩] = [⟨"日本", 1, 0, 6⟩, ⟨"本語", 2, 3, 9⟩] := by decide

/-- on sorted, pairwise disjoint, non-empty locations (tokens) MergeOverlapping changes nothing, so the marks
BestFragments produces are exactly matched term occurrences -/
theorem marks_are_term_occurrences (v : Variant) (f : Fragment) (ot : List TermLocation) (hd : disjointLocs ot = true)
    (hne : ∀ l ∈ ot, l.start < l.stop) :
    ∀ m ∈ marks v f (mergeOverlapping v.mergeMax ot), ∃ l ∈ ot, m = (l.start, l.stop) ∧ l.stop ≤ f.stop :=
  marks_term_occurrences_aux v.mergeMax v.locGuard f.start f.stop ot hd hne

/-- two runs: the first is merged, the second ("c", "d") is left as two entries — the formatter then marks "c"
and skips "d", whose tail [15,18) stays unmarked -/
example : mergeOverlapping false [⟨"a", 1, 0, 5⟩, ⟨"b", 2, 3, 8⟩, ⟨"c", 3, 10, 15⟩, ⟨"d", 4, 12, 18⟩]
    = [some ⟨"a", 1, 0, 8⟩, none, some ⟨"c", 3, 10, 15⟩, some ⟨"d", 4, 12, 18⟩] := by decide
example : marks tree3 ⟨0, 20, 0⟩ (mergeOverlapping false [⟨"a", 1, 0, 5⟩, ⟨"b", 2, 3, 8⟩, ⟨"c", 3, 10, 15⟩, ⟨"d", 4, 12, 18⟩])
    = [(0, 8), (10, 15)] := by decide
/-- CJK bigrams 日本 [0,6), 本語 [3,9): Ends increase, the premise of `marks_are_runs_partial` holds, one mark [0,9) -/
example : monotoneStops [⟨"日本", 1, 0, 6⟩, ⟨"本語", 2, 3, 9⟩] = true ∧
    marks tree3 ⟨0, 9, 0⟩ (mergeOverlapping false [⟨"日本", 1, 0, 6⟩, ⟨"本語", 2, 3, 9⟩]) = [(0, 9)] := by decide
/-- nested, repaired tree: one mark [0,10) -/
example : marks repaired ⟨0, 10, 0⟩ (mergeOverlapping true [⟨"footballer", 1, 0, 10⟩, ⟨"ball", 1, 4, 8⟩]) = [(0, 10)] := by
  decide

/-! ## selection -/

/-- ANY input and order: BestFragments selects at most `num` fragments, pairwise non-overlapping
(`Fragment.Overlaps`), each of them one of the fragmenter's fragments (with its score). -/
theorem best_nonoverlapping_at_most_num (v : Variant) (orig : Bytes) (fsize num : Int) (locs ot : List TermLocation)
    (best : List Fragment) (h : bestSelectionOrd v orig fsize num locs ot = some best) :
    (best.length : Int) ≤ max num 0 ∧ best.Pairwise (fun a b => a.overlaps b = false) ∧
    ∃ frags, fragment v orig fsize ot = some frags ∧
      ∀ b ∈ best, ∃ f ∈ frags, b = { f with score := scoreOf locs f } :=
  bestSelection_spec v orig fsize num locs ot best h

/-- `Overlaps = false` on non-empty fragments means the byte ranges are disjoint -/
theorem overlaps_false_iff_disjoint (a b : Fragment) (ha : a.start < a.stop) (hb : b.start < b.stop) :
    a.overlaps b = false ↔ (a.stop ≤ b.start ∨ b.stop ≤ a.start) :=
  overlaps_false_iff a b ha hb

/-- as many strings as selected fragments, at most `num` -/
theorem best_count (v : Variant) (fm : Fmt) (orig : Bytes) (fsize num : Int) (locs ot : List TermLocation)
    (outs : List Bytes) (h : bestFragmentsOrd v fm orig fsize num locs ot = some outs) : (outs.length : Int) ≤ max num 0 :=
  bestFragments_count v fm orig fsize num locs ot outs h

/-! ## no panic -/

/-- the statement of the property: highlighting never panics, whatever the text, the locations and the order
OrderTermLocations returns them in -/
def NoPanic (v : Variant) : Prop :=
  ∀ (fm : Fmt) (orig : Bytes) (fsize num : Int) (locs ot : List TermLocation), 1 ≤ fsize → ot.Perm locs →
    bestFragmentsOrd v fm orig fsize num locs ot ≠ none

/-- FALSE on the pinned tree: a location with a negative Start makes `orig[end:]` panic. -/
theorem no_panic_fails : ¬ NoPanic pinned := by
  intro h
  exact h htmlFmt [0x61] 5 1 [⟨"a", 1, -1, 1⟩] [⟨"a", 1, -1, 1⟩] (by decide) (List.Perm.refl _) (by decide)

/-- also FALSE for a location whose End is before its Start (`orig[Start:End]` in the formatter). -/
theorem no_panic_fails_reversed : ¬ NoPanic pinned := by
  intro h
  exact h htmlFmt [0x61, 0x62, 0x63] 5 1 [⟨"a", 1, 2, 1⟩] [⟨"a", 1, 2, 1⟩] (by decide) (List.Perm.refl _) (by decide)

/-- every tree, ANY text (valid UTF-8 or not), any fragment size ≥ 1, any count, either formatter, ANY location
list in ANY order whose locations have 0 ≤ Start ≤ End (unsorted, overlapping, nested, equal Starts, beyond the
end, inside runes): no panic. -/
theorem no_panic_partial (v : Variant) (fm : Fmt) (orig : Bytes) (fsize num : Int) (locs ot : List TermLocation)
    (hf : 1 ≤ fsize) (hall : ∀ l ∈ ot, 0 ≤ l.start ∧ l.start ≤ l.stop) :
    ∃ outs, bestFragmentsOrd v fm orig fsize num locs ot = some outs :=
  bestFragmentsOrd_np v fm orig fsize num locs ot hf (Or.inr hall)

/-- a tree with repair 2 (unusable locations ignored): the full statement, any text and ANY locations. -/
theorem no_panic_repaired (v : Variant) (hv : v.locGuard = true) : NoPanic v := by
  intro fm orig fsize num locs ot hf _ hn
  obtain ⟨outs, h⟩ := bestFragmentsOrd_np v fm orig fsize num locs ot hf (Or.inl hv)
  rw [h] at hn; cases hn

/-- "a b" with the location [2,3) and one beyond the end: no panic, one fragment "a <mark>b</mark>" -/
example : bestFragments pinned htmlFmt [0x61, 0x20, 0x62] 5 1 [⟨"b", 2, 2, 3⟩, ⟨"x", 1, 7, 9⟩] =
    some [[0x61, 0x20] ++ markOpen ++ [0x62] ++ markClose] := by decide
example : bestFragments repaired htmlFmt [0x61] 5 1 [⟨"a", 1, -1, 1⟩] = some [[0x61]] := by decide

/-! ## the best fragment contains a match -/

/-- the statement: if some location fits the fragment size, the first selected fragment contains a location —
for every admissible order of the locations -/
def BestContainsMatch (v : Variant) : Prop :=
  ∀ (orig : Bytes) (fsize num : Int) (locs ot : List TermLocation), Ordered v locs ot →
    locsOK orig ot = true → 1 ≤ fsize → 1 ≤ num → (∃ l ∈ locs, fits orig fsize l = true) →
    ∃ top rest, bestSelectionOrd v orig fsize num locs ot = some (top :: rest) ∧ 1 ≤ top.score

/-- FALSE on the pinned tree: the valid text "a �" (61 20 EF BF BD) with the location "a" = [0,1), size 5:
`Fragment` bails on the genuine U+FFFD (decoded as RuneError, size 3) and returns no fragment at all. -/
theorem best_contains_match_fails : ¬ BestContainsMatch pinned := by
  intro h
  obtain ⟨top, rest, hb, _⟩ := h [0x61, 0x20, 0xEF, 0xBF, 0xBD] 5 1 [⟨"a", 1, 0, 1⟩] [⟨"a", 1, 0, 1⟩]
    ⟨List.Perm.refl _, by decide⟩ (by decide) (by decide) (by decide) ⟨_, List.mem_singleton.mpr rfl, by decide⟩
  have e : bestSelectionOrd pinned [0x61, 0x20, 0xEF, 0xBF, 0xBD] 5 1 [⟨"a", 1, 0, 1⟩] [⟨"a", 1, 0, 1⟩] = some [] := by decide
  rw [e] at hb; cases hb

/-- every tree, texts WITHOUT U+FFFD (valid UTF-8, no EF BF BD), locations in range and on rune boundaries, in
any order sorted by Start: if some location is at most `fragmentSize` runes long, BestFragments (num ≥ 1) returns
at least one fragment and the first one contains a location (score ≥ 1). -/
theorem best_contains_match_partial (v : Variant) (orig : Bytes) (fsize num : Int) (locs ot : List TermLocation)
    (ho : ot.Perm locs) (hclean : cleanUtf8 orig = true) (hok : locsOK orig ot = true) (hf : 1 ≤ fsize)
    (hnum : 1 ≤ num) (hfit : ∃ l ∈ locs, fits orig fsize l = true) :
    ∃ top rest, bestSelectionOrd v orig fsize num locs ot = some (top :: rest) ∧ 1 ≤ top.score := by
  obtain ⟨l, hl, hlf⟩ := hfit
  exact best_top_score v orig fsize num locs ot (fun x hx => ho.subset hx) ⟨clean_valid hclean, Or.inr hclean⟩ hok hf hnum
    ⟨l, ho.symm.subset hl, hlf⟩

/-- a tree with repair 1 (`size <= 1` guards): the full statement, U+FFFD included. -/
theorem best_contains_match_repaired (v : Variant) (hv : v.sizeGuard = true) : BestContainsMatch v := by
  intro orig fsize num locs ot ho hok hf hnum hfit
  obtain ⟨l, hl, hlf⟩ := hfit
  exact best_top_score v orig fsize num locs ot (fun x hx => ho.1.subset hx) ⟨locsOK_valid hok, Or.inl hv⟩ hok hf hnum
    ⟨l, ho.1.symm.subset hl, hlf⟩

example : cleanUtf8 [0x68, 0xC3, 0xA9] = true ∧ fits [0x68, 0xC3, 0xA9] 2 ⟨"hé", 1, 0, 3⟩ = true := by decide
example : bestSelection repaired [0x61, 0x20, 0xEF, 0xBF, 0xBD] 5 1 [⟨"a", 1, 0, 1⟩] = some [⟨0, 5, 1⟩] := by decide

/-! ## the regenerated layer: what /repo's source says on this run (go/extract/c20.go → BlugeGen.C20) -/

/-- the byte constants of the model are the source's DefaultSeparator, HTML marks, ANSI codes; default size 200 -/
theorem gen_constants :
    separator = BlugeGen.C20.separator ∧ markOpen = BlugeGen.C20.htmlBefore ∧ markClose = BlugeGen.C20.htmlAfter ∧
    ansiColor = BlugeGen.C20.ansiColor ∧ ansiReset = BlugeGen.C20.ansiReset ∧ BlugeGen.C20.defaultFragmentSize = 200 := by
  decide

set_option maxRecDepth 8000 in
/-- the guards and statement order of Format (both), MergeOverlapping, Fragment and Score, as normalised source
text, are the ones the model was transcribed from (for the repair variant recognised in the source) -/
theorem gen_facts_match_model : BlugeGen.C20.facts = expectedFacts BlugeGen.C20.variant := by decide

/-- the translated `Overlaps`, `Less` and scorer test are what the model uses -/
theorem gen_overlaps_location (a b : TermLocation) : BlugeGen.C20.overlapsTL a b = a.overlaps b := overlapsTL_eq a b
theorem gen_overlaps_fragment (a b : Fragment) : BlugeGen.C20.overlapsFrag a b = a.overlaps b := overlapsFrag_eq a b
theorem gen_less (a b : TermLocation) : BlugeGen.C20.lessTL a b = lessTL BlugeGen.C20.variant.tieBreak a b :=
  lessTL_gen a b
theorem gen_score_test (locs : List TermLocation) (f : Fragment) :
    scoreOf locs f = (dedup ((locs.filter fun l => BlugeGen.C20.inside l f).map (·.term))).length :=
  scoreOf_inside locs f

end Bluge.C20

import BlugeProofs.C07.PostScan
/-! The invariants of `postingsIterator` / `postingsIteratorAll` and what one scan does to them. -/
namespace Bluge.C07
open Bluge.Search

/-- the immutable part of the segments: (offset, what a fresh per-segment iterator enumerates) -/
def stat (segs : List PSeg) : List (Nat × List Nat) := segs.map (fun g => (g.off, g.fresh))

/-- per-segment lists are strictly increasing; offsets do not decrease; every global number of a
segment is below the offset of every later segment -/
def SegsOK (segs : List PSeg) : Prop :=
  (∀ g ∈ segs, Sorted g.fresh) ∧
  segs.Pairwise (fun g h => g.off ≤ h.off ∧ ∀ y ∈ g.fresh, y + g.off < h.off)

theorem segsOK_congr {a b : List PSeg} (h : stat a = stat b) (ha : SegsOK a) : SegsOK b := by
  have key : ∀ (l : List PSeg), SegsOK l ↔
      ((∀ e ∈ stat l, Sorted e.2) ∧ (stat l).Pairwise (fun e e' => e.1 ≤ e'.1 ∧ ∀ y ∈ e.2, y + e.1 < e'.1)) := by
    intro l
    simp only [SegsOK, stat, List.mem_map, forall_exists_index, and_imp, forall_apply_eq_imp_iff₂, List.pairwise_map]
  rw [key] at ha ⊢
  rw [← h]; exact ha

theorem mem_globOf {segs : List PSeg} {x : Nat} :
    x ∈ globOf segs ↔ ∃ g ∈ segs, ∃ y ∈ g.fresh, x = y + g.off := by
  simp only [globOf, List.mem_flatMap, List.mem_map]
  constructor
  · rintro ⟨g, hg, y, hy, rfl⟩; exact ⟨g, hg, y, hy, rfl⟩
  · rintro ⟨g, hg, y, hy, rfl⟩; exact ⟨g, hg, y, hy, rfl⟩

theorem globOf_congr {a b : List PSeg} (h : stat a = stat b) : globOf a = globOf b := by
  have key : ∀ (l : List PSeg), globOf l = (stat l).flatMap (fun e => e.2.map (fun x => x + e.1)) := by
    intro l
    simp [globOf, stat, List.flatMap_map]
  rw [key, key, h]

theorem stat_append (a b : List PSeg) : stat (a ++ b) = stat a ++ stat b := by simp [stat]

theorem stat_scan (post : List PSeg) : stat (scan post).2.2 = stat post := by
  induction post with
  | nil => rfl
  | cons g t ih =>
    unfold scan
    cases g.it.next.1 with
    | some x => simp [stat]
    | none =>
      simp only [stat, List.map_cons] at ih ⊢
      rw [ih]

/-- what a scan does, segment by segment -/
theorem scan_spec (post : List PSeg) :
    ((scan post).1 = none →
        (∀ g ∈ post, g.it.toList = []) ∧ (∀ g ∈ (scan post).2.2, g.it.toList = []) ∧ (scan post).2.1 = post.length) ∧
    (∀ d, (scan post).1 = some d →
        ∃ sk g t x r sk' it', post = sk ++ g :: t ∧ (∀ h ∈ sk, h.it.toList = []) ∧ g.it.toList = x :: r ∧
          d = x + g.off ∧ (scan post).2.1 = sk.length ∧ (scan post).2.2 = sk' ++ { g with it := it' } :: t ∧
          it'.toList = r ∧ sk'.length = sk.length ∧ stat sk' = stat sk ∧ (∀ h ∈ sk', h.it.toList = [])) := by
  induction post with
  | nil =>
    refine ⟨fun _ => ⟨by simp, by simp [scan], rfl⟩, ?_⟩
    intro d hd; simp [scan] at hd
  | cons g t ih =>
    have hfst := SegIt.next_fst g.it
    have hsnd := SegIt.next_snd g.it
    unfold scan
    cases hr : g.it.next.1 with
    | some x =>
      simp only
      rw [hr] at hfst
      refine ⟨fun h => (by cases h), ?_⟩
      intro d hd
      simp only [Option.some.injEq] at hd
      cases hl : g.it.toList with
      | nil => rw [hl] at hfst; simp at hfst
      | cons a r =>
        rw [hl] at hfst hsnd
        simp only [List.head?_cons, Option.some.injEq] at hfst
        subst hfst
        refine ⟨[], g, t, x, r, [], g.it.next.2, by simp, by simp, hl, hd.symm, rfl, by simp, ?_, rfl, rfl, by simp⟩
        simpa using hsnd
    | none =>
      simp only
      rw [hr] at hfst
      have hnil : g.it.toList = [] := by
        cases hl : g.it.toList with
        | nil => rfl
        | cons a r => rw [hl] at hfst; simp at hfst
      have hnil' : g.it.next.2.toList = [] := by rw [hsnd, hnil]; rfl
      refine ⟨?_, ?_⟩
      · intro hn
        obtain ⟨h1, h2, h3⟩ := ih.1 hn
        refine ⟨?_, ?_, by simp [h3]⟩
        · intro h hh
          cases hh with
          | head => exact hnil
          | tail _ hh => exact h1 h hh
        · intro h hh
          cases hh with
          | head => exact hnil'
          | tail _ hh => exact h2 h hh
      · intro d hd
        obtain ⟨sk, g0, t0, x, r, sk', it', hp, hsk, hg0, hdx, hcnt, hres, hit', hlen, hst, hsk'⟩ := ih.2 d hd
        refine ⟨g :: sk, g0, t0, x, r, { g with it := g.it.next.2 } :: sk', it', by simp [hp], ?_, hg0, hdx,
          by simp [hcnt], by simp [hres], hit', by simp [hlen], by simp [stat] at hst ⊢; exact hst, ?_⟩
        · intro h hh
          cases hh with
          | head => exact hnil
          | tail _ hh => exact hsk h hh
        · intro h hh
          cases hh with
          | head => exact hnil'
          | tail _ hh => exact hsk' h hh

/-! ### the live invariant -/

/-- `Inv L s lb`: the iterator `s` enumerates `L` and everything below `lb` has been passed -/
def Inv (L : List Nat) (s : PIter) (lb : Nat) : Prop :=
  ∃ pre post, s.segs = pre ++ post ∧ s.segOff = pre.length ∧
    SegsOK s.segs ∧ (∀ x, x ∈ L ↔ x ∈ globOf s.segs) ∧
    (∀ g ∈ pre, ∀ y ∈ g.fresh, y + g.off < lb) ∧
    (∀ g ∈ post, ∀ y ∈ g.fresh, lb ≤ y + g.off → y ∈ g.it.toList) ∧
    (∀ g ∈ post, ∀ y ∈ g.it.toList, lb ≤ y + g.off) ∧
    (∀ g ∈ s.segs, g.it.toList.Sublist g.fresh) ∧
    (∀ g, post.head? = some g → g.off ≤ lb) ∧
    (post ≠ [] ∨ s.segs = []) ∧
    (s.kind ≠ .all → s.started = true → s.curr < lb)

/-- after the first `nil`: every remaining posting is a posting of `L`; a `Next` answers nothing below `p` -/
def Done (L : List Nat) (s : PIter) (p : Nat) : Prop :=
  ∃ pre post, s.segs = pre ++ post ∧ s.segOff = pre.length ∧
    SegsOK s.segs ∧ (∀ x ∈ globOf s.segs, x ∈ L) ∧
    (∀ g ∈ s.segs, g.it.toList.Sublist g.fresh) ∧
    (∀ g ∈ post, ∀ y ∈ g.it.toList, p ≤ y + g.off)

def PRel (L : List Nat) (s : PIter) : Phase → Prop
  | .fresh => Inv L s 0
  | .at lb => Inv L s lb
  | .done p => Done L s p

theorem finish_segs (s : PIter) (pre : List PSeg) (r) : (finish s pre r).segs = pre ++ r.2.2 := rfl
theorem finish_segOff (s : PIter) (pre : List PSeg) (r) : (finish s pre r).segOff = pre.length + r.2.1 := rfl
theorem finish_kind (s : PIter) (pre : List PSeg) (r) : (finish s pre r).kind = s.kind := rfl

theorem mem_stat_of_eq {a b : List PSeg} (h : stat a = stat b) {g : PSeg} (hg : g ∈ a) :
    ∃ g' ∈ b, g'.off = g.off ∧ g'.fresh = g.fresh := by
  have : (g.off, g.fresh) ∈ stat a := List.mem_map.mpr ⟨g, hg, rfl⟩
  rw [h] at this
  obtain ⟨g', hg', he⟩ := List.mem_map.mp this
  simp only [Prod.mk.injEq] at he
  exact ⟨g', hg', he.1, he.2⟩

/-- the premises of a scan for the bound `m` that the live and the done phase share -/
structure ScanBase (L : List Nat) (pre post : List PSeg) (m : Nat) : Prop where
  ok : SegsOK (pre ++ post)
  sound : ∀ x ∈ globOf (pre ++ post), x ∈ L
  ahead : ∀ g ∈ post, ∀ y ∈ g.it.toList, m ≤ y + g.off
  sub : ∀ g ∈ pre ++ post, g.it.toList.Sublist g.fresh

/-- the additional premises in the live phase -/
structure ScanPre (L : List Nat) (pre post : List PSeg) (m : Nat) : Prop extends ScanBase L pre post m where
  complete : ∀ x ∈ L, x ∈ globOf (pre ++ post)
  passed : ∀ g ∈ pre, ∀ y ∈ g.fresh, y + g.off < m
  kept : ∀ g ∈ post, ∀ y ∈ g.fresh, m ≤ y + g.off → y ∈ g.it.toList

/-- facts about the segment a scan stops in -/
theorem scan_hit {L : List Nat} {pre sk t : List PSeg} {g : PSeg} {m x : Nat} {r : List Nat}
    (h : ScanBase L pre (sk ++ g :: t) m) (hg : g.it.toList = x :: r) :
    x ∈ g.fresh ∧ Sorted (x :: r) ∧ (∀ y ∈ r, x < y) ∧ r.Sublist g.fresh ∧ x + g.off ∈ L ∧ m ≤ x + g.off ∧
    (∀ g' ∈ t, x + g.off < g'.off) := by
  have hgm : g ∈ pre ++ (sk ++ g :: t) := by simp
  have hsub := h.sub g hgm
  rw [hg] at hsub
  have hxf : x ∈ g.fresh := hsub.subset List.mem_cons_self
  have hsrt : Sorted (x :: r) := List.Pairwise.sublist hsub (h.ok.1 g hgm)
  have hpw := h.ok.2
  rw [List.pairwise_append] at hpw
  have hpw2 := hpw.2.1
  rw [List.pairwise_append] at hpw2
  have hpw3 := List.pairwise_cons.mp hpw2.2.1
  refine ⟨hxf, hsrt, (List.pairwise_cons.mp hsrt).1, (List.sublist_cons_self x r).trans hsub, ?_, ?_, ?_⟩
  · exact h.sound _ (mem_globOf.mpr ⟨g, hgm, x, hxf, rfl⟩)
  · exact h.ahead g (by simp) x (by rw [hg]; exact List.mem_cons_self)
  · intro g' hg'
    exact (hpw3.1 g' hg').2 x hxf

/-- **one scan, soundness** (live and done phase): an answer is a posting of `L` at or after `m`, and the
iterator is `Done` afterwards -/
theorem scan_done {L : List Nat} {pre post : List PSeg} {m : Nat} (s : PIter) (h : ScanBase L pre post m) :
    (∀ d, (scan post).1 = some d → d ∈ L ∧ m ≤ d ∧ Done L (finish s pre (scan post)) (d + 1)) ∧
    ((scan post).1 = none → Done L (finish s pre (scan post)) 0) := by
  have hstat : stat (pre ++ (scan post).2.2) = stat (pre ++ post) := by
    rw [stat_append, stat_append, stat_scan]
  have hok' : SegsOK (pre ++ (scan post).2.2) := segsOK_congr hstat.symm h.ok
  have hglob : globOf (pre ++ (scan post).2.2) = globOf (pre ++ post) := globOf_congr hstat
  have spec := scan_spec post
  refine ⟨?_, ?_⟩
  · intro d hr
    obtain ⟨sk, g, t, x, r, sk', it', hp, hsk, hg, hdx, hcnt, hres, hit', hlen, hst, hsk'⟩ := spec.2 d hr
    subst hp
    obtain ⟨hxf, hsrt, hxr, hrsub, hdL, hmd, hlater⟩ := scan_hit h hg
    subst hdx
    refine ⟨hdL, hmd, pre ++ sk', { g with it := it' } :: t, ?_, ?_, ?_, ?_, ?_, ?_⟩
    · rw [finish_segs, hres]; simp
    · rw [finish_segOff, hcnt, List.length_append, hlen]
    · rw [finish_segs]; exact hok'
    · rw [finish_segs, hglob]; exact h.sound
    · rw [finish_segs, hres]
      intro g0 hg0
      simp only [List.mem_append, List.mem_cons] at hg0
      rcases hg0 with hp | hs | rfl | ht
      · exact h.sub g0 (by simp [hp])
      · rw [hsk' g0 hs]; exact List.nil_sublist _
      · simp only; rw [hit']; exact hrsub
      · exact h.sub g0 (by simp [ht])
    · intro g0 hg0 y hy
      simp only [List.mem_cons] at hg0
      rcases hg0 with rfl | ht
      · simp only at hy ⊢
        rw [hit'] at hy
        have := hxr y hy
        omega
      · have hsub := h.sub g0 (by simp [ht])
        have hyf : y ∈ g0.fresh := hsub.subset hy
        have := hlater g0 ht
        omega
  · intro hr
    obtain ⟨hall, hall', hcnt⟩ := spec.1 hr
    refine ⟨pre ++ (scan post).2.2, [], by simp [finish_segs], ?_, ?_, ?_, ?_, by simp⟩
    · rw [finish_segOff, hcnt, List.length_append, scan_length]
    · rw [finish_segs]; exact hok'
    · rw [finish_segs, hglob]; exact h.sound
    · rw [finish_segs]
      intro g hg
      rcases List.mem_append.mp hg with hp | hq
      · exact h.sub g (by simp [hp])
      · rw [hall' g hq]; exact List.nil_sublist _

/-- **one scan in the live phase**: the answer is the first element of `L` at or after `m`, and the
invariant holds again -/
theorem scan_live {L : List Nat} {pre post : List PSeg} {m : Nat} (s : PIter)
    (h : ScanPre L pre post m) :
    IsFirstGE L m (scan post).1 ∧
    (∀ d, (scan post).1 = some d → Inv L (finish s pre (scan post)) (d + 1)) := by
  have hstat : stat (pre ++ (scan post).2.2) = stat (pre ++ post) := by
    rw [stat_append, stat_append, stat_scan]
  have hok' : SegsOK (pre ++ (scan post).2.2) := segsOK_congr hstat.symm h.ok
  have hglob : globOf (pre ++ (scan post).2.2) = globOf (pre ++ post) := globOf_congr hstat
  have spec := scan_spec post
  cases hr : (scan post).1 with
  | none =>
    obtain ⟨hall, hall', hcnt⟩ := spec.1 hr
    refine ⟨?_, fun d hd => by cases hd⟩
    -- nothing at or after m is left
    intro z hz
    obtain ⟨g, hg, y, hy, rfl⟩ := mem_globOf.mp (h.complete z hz)
    rcases List.mem_append.mp hg with hp | hq
    · exact h.passed g hp y hy
    · apply Nat.lt_of_not_le
      intro hle
      have := h.kept g hq y hy hle
      rw [hall g hq] at this
      cases this
  | some d =>
    obtain ⟨sk, g, t, x, r, sk', it', hp, hsk, hg, hdx, hcnt, hres, hit', hlen, hst, hsk'⟩ := spec.2 d hr
    subst hp
    obtain ⟨hxf, hsrt, hxr, hrsub, hdL, hmd, hlater⟩ := scan_hit h.toScanBase hg
    subst hdx
    have hgpost : g ∈ sk ++ g :: t := by simp
    refine ⟨⟨hdL, hmd, ?_⟩, ?_⟩
    · -- minimality
      intro z hz hmz
      obtain ⟨g0, hg0, y, hy, rfl⟩ := mem_globOf.mp (h.complete z hz)
      simp only [List.mem_append, List.mem_cons] at hg0
      rcases hg0 with hp | hs | rfl | ht
      · have := h.passed g0 hp y hy; omega
      · have := h.kept g0 (by simp [hs]) y hy hmz
        rw [hsk g0 hs] at this; cases this
      · have := h.kept g0 hgpost y hy hmz
        rw [hg] at this
        cases this with
        | head => exact Nat.le_refl _
        | tail _ hyr => have := hxr y hyr; omega
      · have := hlater g0 ht; omega
    · intro d' hd'
      simp only [Option.some.injEq] at hd'
      subst hd'
      refine ⟨pre ++ sk', { g with it := it' } :: t, ?_, ?_, ?_, ?_, ?_, ?_, ?_, ?_, ?_, ?_, ?_⟩
      · rw [finish_segs, hres]; simp
      · rw [finish_segOff, hcnt, List.length_append, hlen]
      · rw [finish_segs]; exact hok'
      · rw [finish_segs, hglob]; intro z; exact ⟨h.complete z, h.sound z⟩
      · -- passed
        intro g0 hg0 y hy
        rcases List.mem_append.mp hg0 with hp | hs
        · have := h.passed g0 hp y hy; omega
        · obtain ⟨h0, hh0, hoff, hfr⟩ := mem_stat_of_eq hst hs
          apply Nat.lt_of_not_le
          intro hle
          have := h.kept h0 (by simp [hh0]) y (by rw [hfr]; exact hy) (by rw [hoff]; omega)
          rw [hsk h0 hh0] at this; cases this
      · -- kept
        intro g0 hg0 y hy hle
        simp only [List.mem_cons] at hg0
        rcases hg0 with rfl | ht
        · simp only at hy hle ⊢
          have := h.kept g hgpost y hy (by omega)
          rw [hg] at this
          rw [hit']
          cases this with
          | head => omega
          | tail _ hyr => exact hyr
        · exact h.kept g0 (by simp [ht]) y hy (by omega)
      · -- ahead
        intro g0 hg0 y hy
        simp only [List.mem_cons] at hg0
        rcases hg0 with rfl | ht
        · simp only at hy ⊢
          rw [hit'] at hy
          have := hxr y hy
          omega
        · have hsub := h.sub g0 (by simp [ht])
          have hyf : y ∈ g0.fresh := hsub.subset hy
          have := hlater g0 ht
          omega
      · -- sub
        rw [finish_segs, hres]
        intro g0 hg0
        simp only [List.mem_append, List.mem_cons] at hg0
        rcases hg0 with hp | hs | rfl | ht
        · exact h.sub g0 (by simp [hp])
        · rw [hsk' g0 hs]; exact List.nil_sublist _
        · simp only; rw [hit']; exact hrsub
        · exact h.sub g0 (by simp [ht])
      · intro g0 hg0
        simp only [List.head?_cons, Option.some.injEq] at hg0
        subst hg0
        simp only
        omega
      · left; simp
      · intro hk hst'
        simp only [finish, hr] at hst' ⊢
        have : (s.kind == LeafKind.all) = false := by
          cases hkk : s.kind <;> simp_all [finish_kind]
        simp [this]

end Bluge.C07

import BlugeProofs.C07.Kids
/-! `ConjunctionSearcher` (leap-frog on the max doc number) is a sorted-list iterator over the
intersection of its children. -/
namespace Bluge.C07
open Bluge.Search

/-- the composite's list is contained in the child's list `Li`, whose elements are `< B` -/
def SubC (L : List Nat) (B : Nat) (Li : List Nat) : Prop := (∀ t ∈ L, t ∈ Li) ∧ ∀ x ∈ Li, x < B

section defs
variable {ι : Type} (RelK : List Nat → ι → Phase → Prop) (L : List Nat) (B : Nat)

/-- exact-mode invariant of one child at lower bound `lb`: its current answer `x` is an element of `Li`
not beyond any common element `≥ lb`; the child is live just after `x` — or it has been exhausted and
resurrected, which can only happen once no common element `≥ lb` is left. -/
def CKOk (lb : Nat) (Li : List Nat) (k : ι) : Resp → Prop
  | some x => SubC L B Li ∧ x ∈ Li ∧ lb ≤ x ∧ (∀ t ∈ L, lb ≤ t → x ≤ t) ∧
      (RelK Li k (.at (x + 1)) ∨ (RelK Li k (.done (x + 1)) ∧ ∀ t ∈ L, t < lb))
  | none => SubC L B Li ∧ RelK Li k (.done 0) ∧ ∀ t ∈ L, t < lb

/-- sound-mode invariant -/
def CKSnd (lo : Nat) (Li : List Nat) (k : ι) : Resp → Prop
  | some x => SubC L B Li ∧ x ∈ Li ∧ lo ≤ x ∧ (RelK Li k (.at (x + 1)) ∨ RelK Li k (.done (x + 1)))
  | none => SubC L B Li ∧ RelK Li k (.done 0)

def ConjRel (Ls : List (List Nat)) (s : Conj ι) : Phase → Prop
  | .fresh => s.init = false ∧ s.maxIdx < Ls.length ∧
      AllK (fun Li k _ => SubC L B Li ∧ RelK Li k .fresh) Ls s.kids s.currs
  | .at lb => s.init = true ∧ s.maxIdx < Ls.length ∧ AllK (CKOk RelK L B lb) Ls s.kids s.currs
  | .done p => s.init = true ∧ s.maxIdx < Ls.length ∧ AllK (CKSnd RelK L B p) Ls s.kids s.currs

end defs

section lemmas
variable {ι : Type} {cs : Step ι} {RelK : List Nat → ι → Phase → Prop} {L : List Nat} {B : Nat}
variable (hK : ∀ Li, IsIter cs (RelK Li) Li)

theorem ck_to_snd {lb Li} {k : ι} {c : Resp} (h : CKOk RelK L B lb Li k c) : CKSnd RelK L B lb Li k c := by
  cases c with
  | none => exact ⟨h.1, h.2.1⟩
  | some x =>
    obtain ⟨h1, h2, h3, _, h5⟩ := h
    exact ⟨h1, h2, h3, h5.elim Or.inl (fun h => Or.inr h.1)⟩

theorem cksnd_mono {lo lo' Li} {k : ι} {c : Resp} (hle : lo' ≤ lo) (h : CKSnd RelK L B lo Li k c) :
    CKSnd RelK L B lo' Li k c := by
  cases c with
  | none => exact h
  | some x => obtain ⟨h1, h2, h3, h4⟩ := h; exact ⟨h1, h2, by omega, h4⟩

/-- what `done_sound` gives for one call of a child in phase `done p` -/
theorem kid_done_call (hK : ∀ Li, IsIter cs (RelK Li) Li) {Li} {k : ι} {p : Nat} (c : Call)
    (h : RelK Li k (.done p)) :
    match (cs k c).1 with
    | some d => d ∈ Li ∧ (c = .next → p ≤ d) ∧ (∀ n, c = .adv n → n ≤ d) ∧ RelK Li (cs k c).2 (.done (d + 1))
    | none => RelK Li (cs k c).2 (.done 0) := by
  have := (hK Li).done_sound k p c h
  cases hr : (cs k c).1 with
  | none => exact this.2 hr
  | some d => exact this.1 d hr

/-- what `adv_at` gives for a live child -/
theorem kid_adv_call (hK : ∀ Li, IsIter cs (RelK Li) Li) {Li} {k : ι} {lb n : Nat}
    (h : RelK Li k (.at lb)) (hn : lb ≤ n) :
    match (cs k (.adv n)).1 with
    | some d => d ∈ Li ∧ n ≤ d ∧ (∀ t ∈ Li, n ≤ t → d ≤ t) ∧ RelK Li (cs k (.adv n)).2 (.at (d + 1))
    | none => (∀ t ∈ Li, t < n) ∧ RelK Li (cs k (.adv n)).2 (.done 0) := by
  have := (hK Li).adv_at k lb n h hn
  cases hr : (cs k (.adv n)).1 with
  | none => rw [hr] at this; exact this
  | some d => rw [hr] at this; exact ⟨this.1.1, this.1.2.1, this.1.2.2, this.2⟩

theorem kid_next_call (hK : ∀ Li, IsIter cs (RelK Li) Li) {Li} {k : ι} {lb : Nat}
    (h : RelK Li k (.at lb)) :
    match (cs k .next).1 with
    | some d => d ∈ Li ∧ lb ≤ d ∧ (∀ t ∈ Li, lb ≤ t → d ≤ t) ∧ RelK Li (cs k .next).2 (.at (d + 1))
    | none => (∀ t ∈ Li, t < lb) ∧ RelK Li (cs k .next).2 (.done 0) := by
  have := (hK Li).next_at k lb h
  cases hr : (cs k .next).1 with
  | none => rw [hr] at this; exact this
  | some d => rw [hr] at this; exact ⟨this.1.1, this.1.2.1, this.1.2.2, this.2⟩

theorem kid_fresh_call (hK : ∀ Li, IsIter cs (RelK Li) Li) {Li} {k : ι}
    (h : RelK Li k .fresh) :
    match (cs k .next).1 with
    | some d => d ∈ Li ∧ (∀ t ∈ Li, d ≤ t) ∧ RelK Li (cs k .next).2 (.at (d + 1))
    | none => (∀ t ∈ Li, False) ∧ RelK Li (cs k .next).2 (.done 0) := by
  have := (hK Li).next_fresh k h
  cases hr : (cs k .next).1 with
  | none => rw [hr] at this; exact ⟨fun t ht => by have := this.1 t ht; omega, this.2⟩
  | some d => rw [hr] at this; exact ⟨this.1.1, fun t ht => this.1.2.2 t ht (Nat.zero_le _), this.2⟩

include hK in
/-- exact advance of a child that is behind `m`, where no common element `≥ lb` is below `m` -/
theorem ck_adv {lb Li} {k : ι} {x m : Nat} (h : CKOk RelK L B lb Li k (some x)) (hxm : x < m) (hlm : lb ≤ m)
    (hm : ∀ t ∈ L, lb ≤ t → m ≤ t) :
    CKOk RelK L B lb Li (cs k (.adv m)).2 (cs k (.adv m)).1 ∧ ∀ x', (cs k (.adv m)).1 = some x' → m ≤ x' := by
  obtain ⟨hsub, _, _, _, hrel⟩ := h
  rcases hrel with hat | ⟨hdone, hnone⟩
  · have := kid_adv_call hK hat (n := m) (by omega)
    cases hr : (cs k (.adv m)).1 with
    | none =>
      rw [hr] at this
      refine ⟨⟨hsub, this.2, ?_⟩, by intro x' hx'; cases hx'⟩
      intro t ht
      by_cases hlt : lb ≤ t
      · have h1 := hm t ht hlt
        have h2 := this.1 t (hsub.1 t ht)
        omega
      · omega
    | some x' =>
      rw [hr] at this
      refine ⟨⟨hsub, this.1, by have := this.2.1; omega, ?_, Or.inl this.2.2.2⟩, ?_⟩
      · intro t ht hlt
        exact this.2.2.1 t (hsub.1 t ht) (hm t ht hlt)
      · intro y hy; cases hy; exact this.2.1
  · have := kid_done_call hK (.adv m) hdone
    cases hr : (cs k (.adv m)).1 with
    | none => rw [hr] at this; exact ⟨⟨hsub, this, hnone⟩, by intro x' hx'; cases hx'⟩
    | some x' =>
      rw [hr] at this
      have h2 := this.2.2.1 m rfl
      refine ⟨⟨hsub, this.1, by omega, ?_, Or.inr ⟨this.2.2.2, hnone⟩⟩, ?_⟩
      · intro t ht hlt; have := hnone t ht; omega
      · intro y hy; cases hy; exact h2

include hK in
/-- `Advance n` (n ≥ lb) on a child that is behind `n` re-establishes the invariant at `n` -/
theorem ck_advn {lb n Li} {k : ι} {c : Resp} (h : CKOk RelK L B lb Li k c) (hln : lb ≤ n)
    (hc : ∀ x, c = some x → x < n) :
    CKOk RelK L B n Li (cs k (.adv n)).2 (cs k (.adv n)).1 := by
  have hsub : SubC L B Li := by cases c <;> exact h.1
  have hcases : (∃ x, c = some x ∧ RelK Li k (.at (x + 1))) ∨ ((∃ p, RelK Li k (.done p)) ∧ ∀ t ∈ L, t < lb) := by
    cases c with
    | none => exact Or.inr ⟨⟨0, h.2.1⟩, h.2.2⟩
    | some x =>
      obtain ⟨_, _, _, _, hrel⟩ := h
      exact hrel.elim (fun h => Or.inl ⟨x, rfl, h⟩) (fun h => Or.inr ⟨⟨_, h.1⟩, h.2⟩)
  rcases hcases with ⟨x, hx, hat⟩ | ⟨⟨p, hdone⟩, hnone⟩
  · have hxn := hc x hx
    have := kid_adv_call hK hat (n := n) (by omega)
    cases hr : (cs k (.adv n)).1 with
    | none => rw [hr] at this; exact ⟨hsub, this.2, fun t ht => this.1 t (hsub.1 t ht)⟩
    | some x' =>
      rw [hr] at this
      exact ⟨hsub, this.1, this.2.1, fun t ht hnt => this.2.2.1 t (hsub.1 t ht) hnt, Or.inl this.2.2.2⟩
  · have := kid_done_call hK (.adv n) hdone
    have hnone' : ∀ t ∈ L, t < n := fun t ht => by have := hnone t ht; omega
    cases hr : (cs k (.adv n)).1 with
    | none => rw [hr] at this; exact ⟨hsub, this, hnone'⟩
    | some x' =>
      rw [hr] at this
      exact ⟨hsub, this.1, this.2.2.1 n rfl, fun t ht hnt => by have := hnone' t ht; omega,
        Or.inr ⟨this.2.2.2, hnone'⟩⟩

theorem ck_keep {lb n Li} {k : ι} {x : Nat} (h : CKOk RelK L B lb Li k (some x)) (hln : lb ≤ n) (hnx : n ≤ x) :
    CKOk RelK L B n Li k (some x) := by
  obtain ⟨h1, h2, _, h4, h5⟩ := h
  refine ⟨h1, h2, hnx, fun t ht hnt => h4 t ht (by omega), ?_⟩
  rcases h5 with h | ⟨h, hn⟩
  · exact Or.inl h
  · exact Or.inr ⟨h, fun t ht => by have := hn t ht; omega⟩

include hK in
/-- `Next` on a child standing on a common element `m` -/
theorem ck_next {lb Li} {k : ι} {m : Nat} (h : CKOk RelK L B lb Li k (some m)) (hmL : m ∈ L) :
    CKOk RelK L B (m + 1) Li (cs k .next).2 (cs k .next).1 := by
  obtain ⟨hsub, _, hlm, _, hrel⟩ := h
  rcases hrel with hat | ⟨_, hnone⟩
  · have := kid_next_call hK hat
    cases hr : (cs k .next).1 with
    | none => rw [hr] at this; exact ⟨hsub, this.2, fun t ht => this.1 t (hsub.1 t ht)⟩
    | some x' =>
      rw [hr] at this
      exact ⟨hsub, this.1, this.2.1, fun t ht hnt => this.2.2.1 t (hsub.1 t ht) hnt, Or.inl this.2.2.2⟩
  · have := hnone m hmL; omega

include hK in
theorem ck_fresh_next {Li} {k : ι} (hsub : SubC L B Li) (h : RelK Li k .fresh) :
    CKOk RelK L B 0 Li (cs k .next).2 (cs k .next).1 := by
  have := kid_fresh_call hK h
  cases hr : (cs k .next).1 with
  | none => rw [hr] at this; exact ⟨hsub, this.2, fun t ht => (this.1 t (hsub.1 t ht)).elim⟩
  | some x' =>
    rw [hr] at this
    exact ⟨hsub, this.1, Nat.zero_le _, fun t ht _ => this.2.1 t (hsub.1 t ht), Or.inl this.2.2⟩

include hK in
/-- sound advance of a child that is behind `m` (or exhausted) -/
theorem sn_adv {lo m Li} {k : ι} {c : Resp} (h : CKSnd RelK L B lo Li k c) (hc : ∀ x, c = some x → x < m) :
    CKSnd RelK L B m Li (cs k (.adv m)).2 (cs k (.adv m)).1 := by
  have hsub : SubC L B Li := by cases c <;> exact h.1
  have hcases : (∃ x, c = some x ∧ RelK Li k (.at (x + 1))) ∨ ∃ p, RelK Li k (.done p) := by
    cases c with
    | none => exact Or.inr ⟨0, h.2⟩
    | some x => obtain ⟨_, _, _, hrel⟩ := h; exact hrel.elim (fun h => Or.inl ⟨x, rfl, h⟩) (fun h => Or.inr ⟨_, h⟩)
  rcases hcases with ⟨x, hx, hat⟩ | ⟨p, hdone⟩
  · have hxn := hc x hx
    have := kid_adv_call hK hat (n := m) (by omega)
    cases hr : (cs k (.adv m)).1 with
    | none => rw [hr] at this; exact ⟨hsub, this.2⟩
    | some x' => rw [hr] at this; exact ⟨hsub, this.1, this.2.1, Or.inl this.2.2.2⟩
  · have := kid_done_call hK (.adv m) hdone
    cases hr : (cs k (.adv m)).1 with
    | none => rw [hr] at this; exact ⟨hsub, this⟩
    | some x' => rw [hr] at this; exact ⟨hsub, this.1, this.2.2.1 m rfl, Or.inr this.2.2.2⟩

include hK in
/-- `Next` on a child standing on `x` answers beyond `x` -/
theorem sn_next {lo Li} {k : ι} {x : Nat} (h : CKSnd RelK L B lo Li k (some x)) :
    CKSnd RelK L B (x + 1) Li (cs k .next).2 (cs k .next).1 := by
  obtain ⟨hsub, _, _, hrel⟩ := h
  rcases hrel with hat | hdone
  · have := kid_next_call hK hat
    cases hr : (cs k .next).1 with
    | none => rw [hr] at this; exact ⟨hsub, this.2⟩
    | some x' => rw [hr] at this; exact ⟨hsub, this.1, this.2.1, Or.inl this.2.2.2⟩
  · have := kid_done_call hK .next hdone
    cases hr : (cs k .next).1 with
    | none => rw [hr] at this; exact ⟨hsub, this⟩
    | some x' => rw [hr] at this; exact ⟨hsub, this.1, this.2.1 rfl, Or.inr this.2.2.2⟩

end lemmas
end Bluge.C07

import BlugeProofs.C07.BoolIter
/-! `BooleanSearcher` over iterators is a sorted-list iterator over the boolean formula. -/
namespace Bluge.C07
open Bluge.Search

section
variable {ι : Type} {cs : Step ι} {RelK : List Nat → ι → Phase → Prop} {B : Nat}
variable {Lm Ls Ln : Option (List Nat)} {smin : Nat} {L : List Nat}
variable (hK : ∀ Li, IsIter cs (RelK Li) Li)

include hK in
theorem nextCore_spec (hL : ∀ x, x ∈ L ↔ BMem Lm Ls Ln smin x) {fuel : Nat} {s : BoolS ι} {b : Nat}
    (h : LInv RelK B Lm Ls smin Ln b s) (hf : B + 1 ≤ fuel + b) :
    IsFirstGE L b (BoolS.nextCore cs fuel s).1 ∧
    BoolRel RelK B Lm Ls smin Ln (BoolS.nextCore cs fuel s).2 (after (BoolS.nextCore cs fuel s).1) := by
  have := ni_exact hK hL fuel s b h hf
  unfold BoolS.nextCore
  cases hr : (BoolS.nextInternal cs fuel s).1 with
  | none =>
    rw [hr] at this
    simp only [hr]
    exact ⟨this.1, rfl⟩
  | some d =>
    rw [hr] at this
    simp only [hr]
    exact ⟨this.1, this.2 d rfl⟩

include hK in
theorem bool_is_iter_aux (hL : ∀ x, x ∈ L ↔ BMem Lm Ls Ln smin x) (fuel : Nat) (hfuel : B + 1 ≤ fuel) :
    IsIter (BoolS.step cs fuel) (BoolRel RelK B Lm Ls smin Ln) L := by
  constructor
  · -- next_fresh
    intro s h
    have hinv := init_spec hK h
    obtain ⟨hinit, hdone, _⟩ := h
    simp only [BoolS.step, hdone, hinit, Bool.false_eq_true, ↓reduceIte]
    exact nextCore_spec hK hL hinv (by omega)
  · -- next_at
    intro s lb h
    obtain ⟨hinv, _⟩ := h
    simp only [BoolS.step, hinv.ndone, hinv.init, Bool.false_eq_true, ↓reduceIte]
    exact nextCore_spec hK hL hinv (by omega)
  · -- adv_at
    intro s lb n h hn
    obtain ⟨hinv, hbeh⟩ := h
    simp only [BoolS.step, hinv.ndone, hinv.init, Bool.false_eq_true, ↓reduceIte]
    cases hcm : s.currentMatch with
    | none =>
      simp only [↓reduceIte]
      exact nextCore_spec hK hL (ait_spec hK hinv hbeh hn (by intro c hc; rw [hcm] at hc; cases hc)) (by omega)
    | some c =>
      simp only
      by_cases hlt : c < n
      · simp only [hlt, decide_true, ↓reduceIte]
        exact nextCore_spec hK hL
          (ait_spec hK hinv hbeh hn (by intro c' hc'; rw [hcm] at hc'; cases hc'; exact hlt)) (by omega)
      · simp only [hlt, decide_false, Bool.false_eq_true, ↓reduceIte]
        exact nextCore_spec hK hL (linv_raise hinv hcm hn (by omega)) (by omega)
  · -- done_sound
    intro s p c h
    have hd : s.done = true := h
    cases c <;> simp only [BoolS.step, hd, ↓reduceIte]
    · exact ⟨(by intro d hd'; cases hd'), fun _ => hd⟩
    · exact ⟨(by intro d hd'; cases hd'), fun _ => hd⟩
  · -- done_mono
    intro s p p' h _
    exact h

end
end Bluge.C07

import BlugeProofs.C07.Disj
/-! `container/heap` as an abstract priority queue: `popMin`, `popEq`, and `updateMatches` of the
`DisjunctionHeapSearcher`. -/
namespace Bluge.C07
open Bluge.Search

theorem perm_getElem_eraseIdx {α : Type} : ∀ (l : List α) (j : Nat) (hj : j < l.length), l.Perm (l[j] :: l.eraseIdx j)
  | a :: t, 0, _ => by simp
  | a :: t, j + 1, hj => by
    have ih := perm_getElem_eraseIdx t j (by simpa using hj)
    simp only [List.getElem_cons_succ, List.eraseIdx_cons_succ]
    exact (List.Perm.cons a ih).trans (List.Perm.swap _ _ _)

theorem minPos_spec : ∀ (h : List HEntry), h ≠ [] →
    ∃ j, minPos h = some j ∧ ∃ hj : j < h.length, ∀ e' ∈ h, (h[j]).2 ≤ e'.2
  | [], hne => absurd rfl hne
  | [e], _ => ⟨0, by simp [minPos], by simp, by intro e' he'; simp at he'; subst he'; exact Nat.le_refl _⟩
  | e :: e2 :: es, _ => by
    obtain ⟨j, hj1, hj2, hj3⟩ := minPos_spec (e2 :: es) (by simp)
    simp only [minPos] at hj1 ⊢
    rw [hj1]
    have hgd : (e2 :: es).getD j e = (e2 :: es)[j] := by
      simp [List.getD_eq_getElem?_getD, List.getElem?_eq_getElem hj2]
    simp only [hgd]
    by_cases hlt : ((e2 :: es)[j]).2 < e.2
    · simp only [hlt, ↓reduceIte]
      refine ⟨j + 1, rfl, by simp at hj2 ⊢; omega, ?_⟩
      intro e' he'
      simp only [List.getElem_cons_succ]
      cases he' with
      | head => omega
      | tail _ he' => exact hj3 e' he'
    · simp only [hlt, ↓reduceIte]
      refine ⟨0, rfl, by simp, ?_⟩
      intro e' he'
      simp only [List.getElem_cons_zero]
      cases he' with
      | head => exact Nat.le_refl _
      | tail _ he' => have := hj3 e' he'; omega

theorem popMin_none {h : List HEntry} : popMin h = none ↔ h = [] := by
  constructor
  · intro hp
    by_cases hne : h = []
    · exact hne
    · obtain ⟨j, hj1, hj2, _⟩ := minPos_spec h hne
      simp [popMin, hj1, List.getElem?_eq_getElem hj2] at hp
  · intro hh; subst hh; rfl

theorem popMin_some {h h' : List HEntry} {e : HEntry} (hp : popMin h = some (e, h')) :
    h.Perm (e :: h') ∧ ∀ e' ∈ h, e.2 ≤ e'.2 := by
  have hne : h ≠ [] := by intro hh; subst hh; simp [popMin, minPos] at hp
  obtain ⟨j, hj1, hj2, hj3⟩ := minPos_spec h hne
  simp only [popMin, hj1, List.getElem?_eq_getElem hj2, Option.some.injEq, Prod.mk.injEq] at hp
  obtain ⟨rfl, rfl⟩ := hp
  exact ⟨perm_getElem_eraseIdx h j hj2, hj3⟩

/-- `popEq v` on a queue whose entries are all `≥ v`: splits off the entries equal to `v` -/
theorem popEq_spec (v : Nat) : ∀ (f : Nat) (h acc : List HEntry), h.length ≤ f → (∀ e ∈ h, v ≤ e.2) →
    ∃ eqs, (DisjH.popEq v f h acc).1 = acc ++ eqs ∧ h.Perm (eqs ++ (DisjH.popEq v f h acc).2) ∧
      (∀ e ∈ eqs, e.2 = v) ∧ (∀ e ∈ (DisjH.popEq v f h acc).2, v < e.2)
  | 0, h, acc, hf, _ => by
    have : h = [] := List.length_eq_zero_iff.mp (by omega)
    subst this
    exact ⟨[], by simp [DisjH.popEq], by simp [DisjH.popEq], by simp, by simp [DisjH.popEq]⟩
  | f + 1, h, acc, hf, hge => by
    rw [DisjH.popEq]
    cases hp : popMin h with
    | none =>
      have := popMin_none.mp hp
      subst this
      exact ⟨[], by simp, by simp, by simp, by simp⟩
    | some r =>
      obtain ⟨e, h'⟩ := r
      obtain ⟨hperm, hmin⟩ := popMin_some hp
      simp only
      by_cases hev : e.2 = v
      · simp only [hev, ↓reduceIte]
        have hlen : h'.length ≤ f := by have := hperm.length_eq; simp at this; omega
        have hge' : ∀ e' ∈ h', v ≤ e'.2 := fun e' he' => hge e' (hperm.mem_iff.mpr (List.mem_cons_of_mem _ he'))
        obtain ⟨eqs, h1, h2, h3, h4⟩ := popEq_spec v f h' (acc ++ [e]) hlen hge'
        refine ⟨e :: eqs, by rw [h1]; simp, ?_, ?_, h4⟩
        · exact hperm.trans (by simpa using List.Perm.cons e h2)
        · intro x hx
          cases hx with
          | head => exact hev
          | tail _ hx => exact h3 x hx
      · simp only [hev, ↓reduceIte]
        refine ⟨[], by simp, by simp, by simp, ?_⟩
        intro e' he'
        have h1 := hmin e' he'
        have h2 := hge e (hperm.mem_iff.mpr List.mem_cons_self)
        omega

/-- the queue after `updateMatches`: empty, or the minimum `m` with `matching` = the entries at `m` -/
def Refreshed {ι : Type} (s : DisjH ι) : Prop :=
  (s.matching = [] ∧ s.heap = []) ∨
  (∃ m, s.matching ≠ [] ∧ (∀ e ∈ s.matching, e.2 = m) ∧ ∀ e ∈ s.heap, m < e.2)

theorem refresh_spec {ι : Type} (s : DisjH ι) (hm : s.matching = []) :
    (s.heap).Perm ((DisjH.refresh s).heap ++ (DisjH.refresh s).matching) ∧ Refreshed (DisjH.refresh s) ∧
    (DisjH.refresh s).kids = s.kids ∧ (DisjH.refresh s).min = s.min ∧ (DisjH.refresh s).init = s.init := by
  unfold DisjH.refresh
  cases hp : popMin s.heap with
  | none =>
    have := popMin_none.mp hp
    simp only
    refine ⟨by simp [this], Or.inl ⟨rfl, this⟩, ?_⟩
    simp
  | some r =>
    obtain ⟨e, h'⟩ := r
    obtain ⟨hperm, hmin⟩ := popMin_some hp
    simp only
    have hge' : ∀ e' ∈ h', e.2 ≤ e'.2 := fun e' he' => hmin e' (hperm.mem_iff.mpr (List.mem_cons_of_mem _ he'))
    obtain ⟨eqs, h1, h2, h3, h4⟩ := popEq_spec e.2 h'.length h' [e] (Nat.le_refl _) hge'
    refine ⟨?_, Or.inr ⟨e.2, ?_, ?_, h4⟩, trivial, trivial, trivial⟩
    · rw [h1]
      refine hperm.trans ?_
      have : (e :: h').Perm (e :: (eqs ++ (DisjH.popEq e.2 h'.length h' [e]).2)) := List.Perm.cons e h2
      refine this.trans ?_
      simp only [List.singleton_append]
      exact (List.perm_append_comm (l₁ := e :: eqs) (l₂ := (DisjH.popEq e.2 h'.length h' [e]).2)).trans (by simp)
    · rw [h1]; simp
    · rw [h1]
      intro x hx
      simp at hx
      rcases hx with rfl | hx
      · rfl
      · exact h3 x hx

end Bluge.C07

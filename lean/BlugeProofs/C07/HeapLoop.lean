import BlugeProofs.C07.HeapInv
/-! The pop-and-advance loop of `DisjunctionHeapSearcher.Advance`, the counting argument, and the
`for !found && len(matching) > 0` loop in exact mode. -/
namespace Bluge.C07
open Bluge.Search

/-- counting the lists that contain `m` through their indices -/
theorem filter_length_range (Ls : List (List Nat)) (p : List Nat → Bool) :
    (Ls.filter p).length =
      ((List.range Ls.length).filter (fun i => match Ls[i]? with | some Li => p Li | none => false)).length := by
  induction Ls with
  | nil => simp
  | cons L0 Lt ih =>
    rw [List.length_cons, List.range_succ_eq_map, List.filter_cons, List.filter_cons]
    simp only [List.getElem?_cons_zero]
    have hmap : ((List.map Nat.succ (List.range Lt.length)).filter
        (fun i => match (L0 :: Lt)[i]? with | some Li => p Li | none => false)).length =
        ((List.range Lt.length).filter (fun i => match Lt[i]? with | some Li => p Li | none => false)).length := by
      rw [List.filter_map, List.length_map]
      congr 1
    by_cases hp : p L0 = true
    · simp only [hp, ↓reduceIte, List.length_cons]; rw [hmap, ih]
    · have hp' : p L0 = false := by simpa using hp
      simp only [hp', Bool.false_eq_true, ↓reduceIte]; rw [hmap, ih]

theorem nodup_length_le {is js : List Nat} (hnd : is.Nodup) (hsub : ∀ i ∈ is, i ∈ js) : is.length ≤ js.length := by
  induction is generalizing js with
  | nil => exact Nat.zero_le _
  | cons a t ih =>
    have hnd' := List.nodup_cons.mp hnd
    have ha : a ∈ js := hsub a List.mem_cons_self
    have := ih hnd'.2 (js := js.erase a) (by
      intro i hi
      have hne : i ≠ a := by intro h; subst h; exact hnd'.1 hi
      exact (List.mem_erase_of_ne hne).mpr (hsub i (List.mem_cons_of_mem _ hi)))
    rw [List.length_erase_of_mem ha] at this
    have hpos : 0 < js.length := List.length_pos_of_mem ha
    simp only [List.length_cons]
    omega

section
variable {ι : Type} {cs : Step ι} {RelK : List Nat → ι → Phase → Prop} {B : Nat} {Ls : List (List Nat)}
variable (hK : ∀ Li, IsIter cs (RelK Li) Li)

include hK in
/-- `for len(heap) > 0 && heap[0].curr < number { pop; curr = searcher.Advance(number); … }` -/
theorem advLoop_exact {lb n : Nat} (hln : lb ≤ n) :
    ∀ (f : Nat) (s : DisjH ι) (tmp : List HEntry), s.heap.length ≤ f →
      ((s.heap ++ tmp).map (·.1)).Nodup →
      (∀ e ∈ s.heap, Ent (DKOk RelK B lb) Ls s.kids e) →
      (∀ e ∈ tmp, Ent (DKOk RelK B n) Ls s.kids e) →
      (∀ i Li, Ls[i]? = some Li → i ∉ (s.heap ++ tmp).map (·.1) → ∀ t ∈ Li, t < n) →
      s.kids.length = Ls.length →
      HInv RelK B Ls n (DisjH.advLoop cs n f s tmp).2.kids
        ((DisjH.advLoop cs n f s tmp).2.heap ++ (DisjH.advLoop cs n f s tmp).1) ∧
      (DisjH.advLoop cs n f s tmp).2.matching = s.matching ∧ (DisjH.advLoop cs n f s tmp).2.min = s.min ∧
      (DisjH.advLoop cs n f s tmp).2.init = s.init
  | 0, s, tmp, hf, hnd, hheap, htmp, hgone, hlen => by
    have hh : s.heap = [] := List.length_eq_zero_iff.mp (by omega)
    simp only [DisjH.advLoop]
    refine ⟨⟨hnd, ?_, hgone, hlen⟩, trivial, trivial, trivial⟩
    intro e he
    rw [hh] at he
    exact htmp e (by simpa using he)
  | f + 1, s, tmp, hf, hnd, hheap, htmp, hgone, hlen => by
    rw [DisjH.advLoop]
    cases hp : popMin s.heap with
    | none =>
      have hh := popMin_none.mp hp
      simp only
      refine ⟨⟨hnd, ?_, hgone, hlen⟩, trivial, trivial, trivial⟩
      intro e he
      rw [hh] at he
      exact htmp e (by simpa using he)
    | some r =>
      obtain ⟨e, h'⟩ := r
      obtain ⟨hperm, hmin⟩ := popMin_some hp
      simp only
      by_cases hlt : e.2 < n
      · simp only [hlt, ↓reduceIte]
        have he_mem : e ∈ s.heap := hperm.mem_iff.mpr List.mem_cons_self
        obtain ⟨Li, k, hLi, hk, hP⟩ := hheap e he_mem
        have hki : e.1 < s.kids.length := (List.getElem?_eq_some_iff.mp hk).1
        have hadv := dk_advn hK hP hln (by intro x hx; cases hx; exact hlt)
        rw [callKid_some cs hk]
        -- index bookkeeping
        have hnd1 : ((e :: h' ++ tmp).map (·.1)).Nodup :=
          (List.Perm.nodup_iff ((hperm.append_right tmp).map _)).mp hnd
        have hnd1' : (e.1 :: (h'.map (·.1) ++ tmp.map (·.1))).Nodup := by simpa using hnd1
        have hne_h' : ∀ e' ∈ h', e'.1 ≠ e.1 := by
          intro e' he' heq
          exact (List.nodup_cons.mp hnd1').1 (heq ▸ List.mem_append_left _ (List.mem_map_of_mem he'))
        have hne_tmp : ∀ e' ∈ tmp, e'.1 ≠ e.1 := by
          intro e' he' heq
          exact (List.nodup_cons.mp hnd1').1 (heq ▸ List.mem_append_right _ (List.mem_map_of_mem he'))
        have hlen' : h'.length ≤ f := by have := hperm.length_eq; simp at this; omega
        have hheap' : ∀ e' ∈ h', Ent (DKOk RelK B lb) Ls (s.kids.set e.1 (cs k (.adv n)).2) e' :=
          fun e' he' => (hheap e' (hperm.mem_iff.mpr (List.mem_cons_of_mem _ he'))).set_other (hne_h' e' he')
        have htmp' : ∀ e' ∈ tmp, Ent (DKOk RelK B n) Ls (s.kids.set e.1 (cs k (.adv n)).2) e' :=
          fun e' he' => (htmp e' he').set_other (hne_tmp e' he')
        cases hr : (cs k (.adv n)).1 with
        | none =>
          rw [hr] at hadv
          simp only
          apply advLoop_exact hln f { s with kids := s.kids.set e.1 (cs k (.adv n)).2, heap := h' } tmp hlen'
          · simp only [List.map_append]; exact (List.nodup_cons.mp hnd1').2
          · exact hheap'
          · exact htmp'
          · intro i Li' hLi' hni t ht
            simp only at hni
            by_cases hie : i = e.1
            · subst hie
              rw [hLi] at hLi'; cases hLi'
              exact hadv.2.2 t ht
            · apply hgone i Li' hLi' _ t ht
              intro hin
              have hin1 := ((hperm.append_right tmp).map (·.1)).mem_iff.mp hin
              simp only [List.cons_append, List.map_cons, List.mem_cons] at hin1
              rcases hin1 with h | h
              · exact hie h
              · exact hni h
          · simp [hlen]
        | some c =>
          rw [hr] at hadv
          simp only
          have := advLoop_exact hln f { s with kids := s.kids.set e.1 (cs k (.adv n)).2, heap := h' }
            (tmp ++ [(e.1, c)]) hlen' ?_ hheap' ?_ ?_ (by simp [hlen])
          · exact this
          · simp only [List.map_append, List.map_cons, List.map_nil]
            have : (h'.map (·.1) ++ (tmp.map (·.1) ++ [e.1])).Perm (e.1 :: (h'.map (·.1) ++ tmp.map (·.1))) := by
              rw [← List.append_assoc]
              exact List.perm_append_singleton _ _
            exact (List.Perm.nodup_iff this).mpr hnd1'
          · intro e' he'
            simp only [List.mem_append, List.mem_singleton] at he'
            rcases he' with he' | rfl
            · exact htmp' e' he'
            · exact ⟨Li, (cs k (.adv n)).2, hLi, by simp [List.getElem?_set_self hki], hadv⟩
          · intro i Li' hLi' hni t ht
            apply hgone i Li' hLi' _ t ht
            intro hin
            apply hni
            have hin1 := ((hperm.append_right tmp).map (·.1)).mem_iff.mp hin
            simp only [List.cons_append, List.map_cons, List.mem_cons, List.map_append, List.mem_append] at hin1
            simp only [List.map_append, List.map_cons, List.map_nil, List.mem_append, List.mem_cons, List.not_mem_nil,
              or_false]
            rcases hin1 with h | h | h
            · exact Or.inr (Or.inr h)
            · exact Or.inl h
            · exact Or.inr (Or.inl h)
      · simp only [hlt, ↓reduceIte]
        refine ⟨⟨hnd, ?_, hgone, hlen⟩, trivial, trivial, trivial⟩
        intro e' he'
        rcases List.mem_append.mp he' with he' | he'
        · have h1 := hmin e' he'
          exact (hheap e' he').mono (fun Li k hP => dk_keep hP hln (by omega))
        · exact htmp e' he'

end
end Bluge.C07

import BlugeProofs.C07.BoolPhase
/-! `BooleanSearcher.nextInternal`, `initSearchers`, `advanceIfTrailing`, and the assembled contract. -/
namespace Bluge.C07
open Bluge.Search

theorem isFirstGE_skip {L : List Nat} {b c : Nat} {r : Resp} (h : IsFirstGE L (c + 1) r) (hc : c ∉ L)
    (hmin : ∀ t ∈ L, b ≤ t → c ≤ t) (hbc : b ≤ c) : IsFirstGE L b r := by
  cases r with
  | none =>
    intro t ht
    have h1 := h t ht
    by_cases hbt : b ≤ t
    · have := hmin t ht hbt
      have : t = c := by omega
      subst this; exact absurd ht hc
    · omega
  | some d =>
    refine ⟨h.1, by have := h.2.1; omega, ?_⟩
    intro t ht hbt
    have h1 := hmin t ht hbt
    have : t ≠ c := by intro h'; subst h'; exact hc ht
    exact h.2.2 t ht (by omega)

section
variable {ι : Type} {cs : Step ι} {RelK : List Nat → ι → Phase → Prop} {B : Nat}
variable {Lm Ls Ln : Option (List Nat)} {smin : Nat} {L : List Nat}
variable (hK : ∀ Li, IsIter cs (RelK Li) Li)

include hK in
theorem ni_exact (hL : ∀ x, x ∈ L ↔ BMem Lm Ls Ln smin x) :
    ∀ (f : Nat) (s : BoolS ι) (b : Nat), LInv RelK B Lm Ls smin Ln b s → B + 1 ≤ f + b →
      IsFirstGE L b (BoolS.nextInternal cs f s).1 ∧
      (∀ d, (BoolS.nextInternal cs f s).1 = some d →
        LInv RelK B Lm Ls smin Ln (d + 1) (BoolS.nextInternal cs f s).2 ∧
        ShouldBehind Lm Ls smin (d + 1) (BoolS.nextInternal cs f s).2) := by
  intro f
  induction f with
  | zero =>
    intro s b h hf
    rw [BoolS.nextInternal]
    refine ⟨?_, by intro d hd; cases hd⟩
    intro t ht
    have := linv_bound h t ((hL t).mp ht).1
    omega
  | succ f ih =>
    intro s b h hf
    rw [BoolS.nextInternal]
    cases hcm : s.currentMatch with
    | none =>
      simp only
      refine ⟨?_, by intro d hd; cases hd⟩
      intro t ht
      exact linv_none h hcm t ((hL t).mp ht).1
    | some cand =>
      simp only
      obtain ⟨hbc, hcB, hcmem, hcmin⟩ := linv_cand h hcm
      have h' := linv_raise h hcm hbc (Nat.le_refl cand)
      have hminL : ∀ t ∈ L, b ≤ t → cand ≤ t := fun t ht hbt => hcmin t ((hL t).mp ht).1 hbt
      have mnp := mnp_spec hK h' hcm
      by_cases hex : (BoolS.mustNotPhase cs s cand).1 = true
      · simp only [hex, ↓reduceIte]
        obtain ⟨⟨N, hN, hin⟩, hinv⟩ := mnp.1 hex
        have hcL : cand ∉ L := by
          intro hc; exact ((hL cand).mp hc).2.1 N hN hin
        have := ih _ (cand + 1) hinv (by omega)
        exact ⟨isFirstGE_skip this.1 hcL hminL hbc, this.2⟩
      · have hexf : (BoolS.mustNotPhase cs s cand).1 = false := by simpa using hex
        simp only [hexf, Bool.false_eq_true, ↓reduceIte]
        obtain ⟨hnot, hinv, hcm'⟩ := mnp.2 hexf
        have sp := sp_spec hK hinv hcm' hnot
        by_cases hsp : (BoolS.shouldPhase cs (BoolS.mustNotPhase cs s cand).2 cand).1 = true
        · simp only [hsp, ↓reduceIte]
          obtain ⟨hb, hinv2, hbeh⟩ := sp.1 hsp
          refine ⟨⟨(hL cand).mpr hb, hbc, hminL⟩, ?_⟩
          intro d hd; cases hd; exact ⟨hinv2, hbeh⟩
        · have hspf : (BoolS.shouldPhase cs (BoolS.mustNotPhase cs s cand).2 cand).1 = false := by simpa using hsp
          simp only [hspf, Bool.false_eq_true, ↓reduceIte]
          obtain ⟨hnb, hinv2⟩ := sp.2 hspf
          have hcL : cand ∉ L := fun hc => hnb ((hL cand).mp hc)
          have := ih _ (cand + 1) hinv2 (by omega)
          exact ⟨isFirstGE_skip this.1 hcL hminL hbc, this.2⟩

include hK in
/-- `Next` on an optional fresh follower -/
theorem optf_fresh_next {Lo : Option (List Nat)} {ko : Option ι}
    (h : match Lo, ko with | some N, some k => RelK N k .fresh | none, none => True | _, _ => False) :
    OptF RelK 0 Lo (BoolS.callOpt cs ko .next).2 (BoolS.callOpt cs ko .next).1 := by
  cases Lo with
  | none => cases ko with
    | none => rfl
    | some k => exact h.elim
  | some N => cases ko with
    | none => exact h.elim
    | some k =>
      simp only [callOpt_some, OptF]
      have := kid_fresh_call hK h
      cases hr : (cs k .next).1 with
      | none => rw [hr] at this; exact ⟨this.2, fun t ht => (this.1 t ht).elim⟩
      | some d => rw [hr] at this; exact ⟨this.1, this.2.2, fun t ht _ => this.2.1 t ht⟩

include hK in
/-- `Advance n` on a follower that is behind `n` (or exhausted with nothing `≥ lb` left) -/
theorem fok_advn {lb n Li} {k : ι} {c : Resp} (h : FOk RelK lb Li k c) (hln : lb ≤ n)
    (hc : ∀ y, c = some y → y < n) : FOk RelK n Li (cs k (.adv n)).2 (cs k (.adv n)).1 := by
  cases c with
  | some y =>
    have hyn := hc y rfl
    have := kid_adv_call hK h.2.1 (n := n) (by omega)
    cases hr : (cs k (.adv n)).1 with
    | none => rw [hr] at this; exact ⟨this.2, this.1⟩
    | some d => rw [hr] at this; exact ⟨this.1, this.2.2.2, this.2.2.1⟩
  | none =>
    have := kid_done_call hK (.adv n) h.1
    cases hr : (cs k (.adv n)).1 with
    | none => rw [hr] at this; exact ⟨this, fun t ht => by have := h.2 t ht; omega⟩
    | some d =>
      rw [hr] at this
      have h1 := h.2 d this.1
      have h2 := this.2.2.1 n rfl
      omega

theorem setCurrent_must {s : BoolS ι} {k : ι} (h : s.must = some k) :
    (BoolS.setCurrent s).currentMatch = s.currMust := by
  simp only [BoolS.setCurrent, h, Option.isSome_some, Bool.true_and, Option.isNone_some, Bool.false_and,
    Bool.false_eq_true, ↓reduceIte]
  cases s.currMust <;> simp

theorem setCurrent_should {s : BoolS ι} (h : s.must = none) :
    (BoolS.setCurrent s).currentMatch = s.currShould := by
  simp only [BoolS.setCurrent, h, Option.isSome_none, Bool.false_and, Bool.false_eq_true, ↓reduceIte,
    Option.isNone_none, Bool.true_and]
  cases s.currShould <;> simp

include hK in
/-- `initSearchers` -/
theorem init_spec {s : BoolS ι} (h : BoolRel RelK B Lm Ls smin Ln s .fresh) :
    LInv RelK B Lm Ls smin Ln 0 (BoolS.initSearchers cs s) := by
  obtain ⟨hinit, hdone, hsmin, hm, hs, hn, hsome⟩ := h
  have hmn := optf_fresh_next hK hn
  cases s with
  | mk must should mustNot shouldMin currMust currShould currMustNot currentMatch init done =>
  simp only at hinit hdone hsmin hm hs hn hmn
  subst hinit hdone hsmin
  cases Lm with
  | none =>
    cases must with
    | some k => exact hm.elim
    | none =>
      cases Ls with
      | none => simp at hsome
      | some S =>
        cases should with
        | none => exact hs.elim
        | some ks =>
          simp only at hs
          refine ⟨rfl, rfl, rfl, ?_, hmn⟩
          refine ⟨(cs ks .next).2, rfl, rfl, dk_fresh_next hK hs.1 hs.2, ?_⟩
          exact setCurrent_should rfl
  | some M =>
    cases must with
    | none => exact hm.elim
    | some km =>
      simp only at hm
      cases Ls with
      | none =>
        cases should with
        | some k => exact hs.elim
        | none =>
          refine ⟨rfl, rfl, rfl, ?_, hmn⟩
          refine ⟨(cs km .next).2, rfl, rfl, rfl, dk_fresh_next hK hm.1 hm.2, ?_⟩
          exact setCurrent_must rfl
      | some S =>
        cases should with
        | none => exact hs.elim
        | some ks =>
          simp only at hs
          refine ⟨rfl, rfl, rfl, ?_, hmn⟩
          refine ⟨(cs km .next).2, (cs ks .next).2, rfl, rfl, dk_fresh_next hK hm.1 hm.2, setCurrent_must rfl, Or.inr ?_⟩
          have := kid_fresh_call hK hs.2
          show FOk RelK 0 S (cs ks .next).2 (cs ks .next).1
          cases hr : (cs ks .next).1 with
          | none => rw [hr] at this; exact ⟨this.2, fun t ht => (this.1 t ht).elim⟩
          | some d => rw [hr] at this; exact ⟨this.1, this.2.2, fun t ht _ => this.2.1 t ht⟩

include hK in
/-- the guarded advance of the must-not cursor -/
theorem mnb_spec {s0 : BoolS ι} {lb n : Nat} (hmn : OptF RelK lb Ln s0.mustNot s0.currMustNot) (hln : lb ≤ n) :
    OptF RelK n Ln (BoolS.advMustNotIfBehind cs s0 n).mustNot (BoolS.advMustNotIfBehind cs s0 n).currMustNot ∧
    (BoolS.advMustNotIfBehind cs s0 n).must = s0.must ∧ (BoolS.advMustNotIfBehind cs s0 n).should = s0.should ∧
    (BoolS.advMustNotIfBehind cs s0 n).currMust = s0.currMust ∧
    (BoolS.advMustNotIfBehind cs s0 n).currShould = s0.currShould ∧
    (BoolS.advMustNotIfBehind cs s0 n).init = s0.init ∧ (BoolS.advMustNotIfBehind cs s0 n).done = s0.done ∧
    (BoolS.advMustNotIfBehind cs s0 n).shouldMin = s0.shouldMin := by
  unfold BoolS.advMustNotIfBehind
  cases Ln with
  | none =>
    cases hk : s0.mustNot with
    | some k => rw [hk] at hmn; exact hmn.elim
    | none =>
      rw [hk] at hmn
      simp only [OptF] at hmn
      simp only [hk, hmn, OptF, and_self]
  | some N =>
    cases hk : s0.mustNot with
    | none => rw [hk] at hmn; exact hmn.elim
    | some kn =>
      rw [hk] at hmn
      simp only [OptF] at hmn
      simp only
      cases hcm : s0.currMustNot with
      | none =>
        rw [hcm] at hmn
        simp only [↓reduceIte, OptF, and_self, and_true]
        exact fok_advn hK hmn hln (by intro y hy; cases hy)
      | some mn =>
        rw [hcm] at hmn
        simp only
        by_cases hlt : mn < n
        · simp only [hlt, decide_true, ↓reduceIte, OptF, and_self, and_true]
          exact fok_advn hK hmn hln (by intro y hy; cases hy; exact hlt)
        · simp only [hlt, decide_false, Bool.false_eq_true, ↓reduceIte, hk, hcm, OptF, and_self, and_true]
          exact fok_mono hmn hln

include hK in
/-- `advanceIfTrailing(number)` when the candidate is behind `number` (or exhausted) -/
theorem ait_spec {s : BoolS ι} {lb n : Nat} (h : LInv RelK B Lm Ls smin Ln lb s)
    (hbeh : ShouldBehind Lm Ls smin lb s) (hln : lb ≤ n) (hc : ∀ c, s.currentMatch = some c → c < n) :
    LInv RelK B Lm Ls smin Ln n (BoolS.advanceIfTrailing cs s n) := by
  have hd := h.drv
  have hsmin := h.hsmin
  have hinit := h.init
  have hdone := h.ndone
  unfold BoolS.advanceIfTrailing
  cases s with
  | mk must should mustNot shouldMin currMust currShould currMustNot currentMatch init done =>
  simp only at hinit hdone hsmin hc
  subst hinit hdone hsmin
  have hmn0 := h.mn
  simp only at hmn0
  cases Lm with
  | none =>
    cases Ls with
    | none => exact hd.elim
    | some S =>
      obtain ⟨ks, h1, h2, h3, h4⟩ := hd
      simp only at h1 h2 h3 h4
      subst h1 h2 h4
      have hdrv := dk_advn hK h3 hln hc
      obtain ⟨m1, m2, m3, m4, m5, m6, m7, m8⟩ := mnb_spec (cs := cs) (n := n)
        (s0 := BoolS.advShould cs (BoolS.advMust cs
          ⟨none, some ks, mustNot, shouldMin, currMust, currentMatch, currMustNot, currentMatch, true, false⟩ n) n)
        (Ln := Ln) (lb := lb) hK (by simpa [BoolS.advShould, BoolS.advMust] using hmn0) hln
      simp only [BoolS.advShould, BoolS.advMust] at m1 m2 m3 m4 m5 m6 m7 m8 ⊢
      refine ⟨by simp only [BoolS.setCurrent]; exact m6, by simp only [BoolS.setCurrent]; exact m7,
        by simp only [BoolS.setCurrent]; exact m8, ?_, by simp only [BoolS.setCurrent]; exact m1⟩
      refine ⟨(cs ks (.adv n)).2, by simp only [BoolS.setCurrent]; exact m2,
        by simp only [BoolS.setCurrent]; exact m3, by simp only [BoolS.setCurrent]; rw [m5]; exact hdrv, ?_⟩
      rw [setCurrent_should m2]; rfl
  | some M =>
    cases Ls with
    | none =>
      obtain ⟨km, h1, h2, h3, h4, h5⟩ := hd
      simp only at h1 h2 h3 h4 h5
      subst h1 h2 h3 h5
      have hdrv := dk_advn hK h4 hln hc
      obtain ⟨m1, m2, m3, m4, m5, m6, m7, m8⟩ := mnb_spec (cs := cs) (n := n)
        (s0 := BoolS.advShould cs (BoolS.advMust cs
          ⟨some km, none, mustNot, shouldMin, currentMatch, none, currMustNot, currentMatch, true, false⟩ n) n)
        (Ln := Ln) (lb := lb) hK (by simpa [BoolS.advShould, BoolS.advMust] using hmn0) hln
      simp only [BoolS.advShould, BoolS.advMust] at m1 m2 m3 m4 m5 m6 m7 m8 ⊢
      refine ⟨by simp only [BoolS.setCurrent]; exact m6, by simp only [BoolS.setCurrent]; exact m7,
        by simp only [BoolS.setCurrent]; exact m8, ?_, by simp only [BoolS.setCurrent]; exact m1⟩
      refine ⟨(cs km (.adv n)).2, by simp only [BoolS.setCurrent]; exact m2,
        by simp only [BoolS.setCurrent]; exact m3, by simp only [BoolS.setCurrent]; exact m5,
        by simp only [BoolS.setCurrent]; rw [m4]; exact hdrv, ?_⟩
      rw [setCurrent_must (k := (cs km (.adv n)).2) m2]; rfl
    | some S =>
      obtain ⟨km, ks, h1, h2, h3, h4, h5⟩ := hd
      simp only at h1 h2 h3 h4 h5
      subst h1 h2 h4
      have hdrv := dk_advn hK h3 hln hc
      obtain ⟨m1, m2, m3, m4, m5, m6, m7, m8⟩ := mnb_spec (cs := cs) (n := n)
        (s0 := BoolS.advShould cs (BoolS.advMust cs
          ⟨some km, some ks, mustNot, shouldMin, currentMatch, currShould, currMustNot, currentMatch, true, false⟩ n) n)
        (Ln := Ln) (lb := lb) hK (by simpa [BoolS.advShould, BoolS.advMust] using hmn0) hln
      simp only [BoolS.advShould, BoolS.advMust] at m1 m2 m3 m4 m5 m6 m7 m8 ⊢
      refine ⟨by simp only [BoolS.setCurrent]; exact m6, by simp only [BoolS.setCurrent]; exact m7,
        by simp only [BoolS.setCurrent]; exact m8, ?_, by simp only [BoolS.setCurrent]; exact m1⟩
      refine ⟨(cs km (.adv n)).2, (cs ks (.adv n)).2, by simp only [BoolS.setCurrent]; exact m2,
        by simp only [BoolS.setCurrent]; exact m3, by simp only [BoolS.setCurrent]; rw [m4]; exact hdrv, ?_, ?_⟩
      · rw [setCurrent_must (k := (cs km (.adv n)).2) m2]; rfl
      · simp only [BoolS.setCurrent]
        rw [m5]
        have hb := hbeh
        simp only [ShouldBehind] at hb
        rcases hb with hz | hb
        · exact Or.inl hz
        · rcases h5 with hz | hf
          · exact Or.inl hz
          · exact Or.inr (fok_advn hK hf hln (fun y hy => by have := hb y hy; omega))

end
end Bluge.C07
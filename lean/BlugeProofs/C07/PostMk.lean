import BlugeProofs.C07.PostIter
import BlugeProofs.C07.Compile
/-! Freshly constructed postings iterators are in phase `fresh` for the list they are built from. -/
namespace Bluge.C07
open Bluge.Search

/-- (offset, size, what the per-segment iterator enumerates) with offsets = running sums of the sizes -/
def Running : Nat → List (Nat × Nat × List Nat) → Prop
  | _, [] => True
  | run, e :: t => e.1 = run ∧ Sorted e.2.2 ∧ (∀ y ∈ e.2.2, y < e.2.1) ∧ Running (run + e.2.1) t

def toPSeg (e : Nat × Nat × List Nat) : PSeg := { off := e.1, fresh := e.2.2, it := .list e.2.2 }

theorem running_segsOK : ∀ (run : Nat) (tr : List (Nat × Nat × List Nat)), Running run tr →
    SegsOK (tr.map toPSeg) ∧ ∀ g ∈ tr.map toPSeg, run ≤ g.off
  | _, [], _ => ⟨⟨by simp, by simp⟩, by simp⟩
  | run, e :: t, h => by
    obtain ⟨hoff, hsrt, hlt, hrest⟩ := h
    obtain ⟨⟨ih1, ih2⟩, ih3⟩ := running_segsOK (run + e.2.1) t hrest
    refine ⟨⟨?_, ?_⟩, ?_⟩
    · intro g hg
      simp only [List.map_cons, List.mem_cons] at hg
      rcases hg with rfl | hg
      · exact hsrt
      · exact ih1 g hg
    · simp only [List.map_cons]
      refine List.pairwise_cons.mpr ⟨?_, ih2⟩
      intro h hh
      have := ih3 h hh
      simp only [toPSeg]
      refine ⟨by omega, ?_⟩
      intro y hy
      have := hlt y hy
      omega
    · intro g hg
      simp only [List.map_cons, List.mem_cons] at hg
      rcases hg with rfl | hg
      · simp [toPSeg, hoff]
      · have := ih3 g hg; omega

theorem sorted_globOf {segs : List PSeg} (h : SegsOK segs) : Sorted (globOf segs) := by
  unfold Sorted globOf
  rw [List.pairwise_flatMap]
  refine ⟨?_, ?_⟩
  · intro g hg
    rw [List.pairwise_map]
    exact (h.1 g hg).imp (fun hab => by omega)
  · refine h.2.imp ?_
    intro g g' hgg x hx y hy
    obtain ⟨x0, hx0, rfl⟩ := List.mem_map.mp hx
    obtain ⟨y0, hy0, rfl⟩ := List.mem_map.mp hy
    have := hgg.2 x0 hx0
    omega

/-- a newly built iterator (all per-segment iterators at their start, `segmentOffset = 0`, no current
posting) over well-formed segments, the first at offset 0, is in phase `fresh` -/
theorem inv_fresh {L : List Nat} (kind : LeafKind) (tr : List (Nat × Nat × List Nat)) (h : Running 0 tr)
    (hL : ∀ x, x ∈ L ↔ x ∈ globOf (tr.map toPSeg)) :
    Inv L { kind := kind, segs := tr.map toPSeg, segOff := 0, started := false, curr := 0 } 0 := by
  obtain ⟨hok, hge⟩ := running_segsOK 0 tr h
  refine ⟨[], tr.map toPSeg, by simp, rfl, hok, hL, by simp, ?_, fun _ _ _ _ => Nat.zero_le _, ?_, ?_, ?_, ?_⟩
  · intro g hg y hy _
    obtain ⟨e, _, rfl⟩ := List.mem_map.mp hg
    exact hy
  · intro g hg
    obtain ⟨e, _, rfl⟩ := List.mem_map.mp hg
    exact List.Sublist.refl _
  · intro g hg
    cases tr with
    | nil => simp at hg
    | cons e t =>
      simp only [List.map_cons, List.head?_cons, Option.some.injEq] at hg
      subst hg
      simp [toPSeg, h.1]
  · cases tr with
    | nil => right; rfl
    | cons e t => left; simp
  · intro _ hst; cases hst

/-! ### `PIter.mk'`: the iterator over a list of global doc numbers in a snapshot layout -/

theorem sum_sizes_cons (e : Nat × Nat) (t : SnapLayout) : SnapLayout.total (e :: t) = e.2 + SnapLayout.total t := by
  simp [SnapLayout.total]

theorem covered : ∀ (run : Nat) (sn : SnapLayout), offsetsOK run sn = true → ∀ x, run ≤ x → x < run + sn.total →
    ∃ e ∈ sn, e.1 ≤ x ∧ x < e.1 + e.2
  | run, [], _, x, h1, h2 => by simp [SnapLayout.total] at h2; omega
  | run, (off, size) :: t, h, x, h1, h2 => by
    simp only [offsetsOK, Bool.and_eq_true, beq_iff_eq] at h
    obtain ⟨rfl, ht⟩ := h
    rw [sum_sizes_cons] at h2
    by_cases hx : x < off + size
    · exact ⟨(off, size), by simp, h1, hx⟩
    · obtain ⟨e, he, hh⟩ := covered (off + size) t ht x (by omega) (by simp only at h2; omega)
      exact ⟨e, by simp [he], hh⟩

theorem localsOf_sorted {l : List Nat} (hs : Sorted l) (off size : Nat) : Sorted (localsOf l off size) := by
  unfold localsOf Sorted
  rw [List.pairwise_map]
  have hf : (l.filter (fun x => decide (off ≤ x) && decide (x < off + size))).Pairwise (· < ·) :=
    List.Pairwise.sublist List.filter_sublist hs
  have hall : ∀ x ∈ l.filter (fun x => decide (off ≤ x) && decide (x < off + size)), off ≤ x := by
    intro x hx
    have := (List.mem_filter.mp hx).2
    simp only [Bool.and_eq_true, decide_eq_true_eq] at this
    exact this.1
  -- strengthen the pairwise relation with the membership facts
  have := List.Pairwise.and_mem.mp hf
  refine this.imp ?_
  intro a b hab
  have ha := hall a hab.1
  have hb := hall b hab.2.1
  omega

theorem mem_localsOf {l : List Nat} {off size y : Nat} :
    y ∈ localsOf l off size ↔ y + off ∈ l ∧ y < size := by
  unfold localsOf
  simp only [List.mem_map, List.mem_filter, Bool.and_eq_true, decide_eq_true_eq]
  constructor
  · rintro ⟨x, ⟨hx, h1, h2⟩, rfl⟩
    have : x - off + off = x := by omega
    rw [this]
    exact ⟨hx, by omega⟩
  · rintro ⟨h1, h2⟩
    exact ⟨y + off, ⟨h1, by omega, by omega⟩, by omega⟩

theorem running_mk' (l : List Nat) (hs : Sorted l) : ∀ (run : Nat) (sn : SnapLayout), offsetsOK run sn = true →
    Running run (sn.map (fun e => (e.1, e.2, localsOf l e.1 e.2)))
  | _, [], _ => trivial
  | run, (off, size) :: t, h => by
    simp only [offsetsOK, Bool.and_eq_true, beq_iff_eq] at h
    obtain ⟨rfl, ht⟩ := h
    refine ⟨rfl, localsOf_sorted hs _ _, ?_, running_mk' l hs _ t ht⟩
    intro y hy
    exact (mem_localsOf.mp hy).2

theorem mk'_segs (sn : SnapLayout) (kind : LeafKind) (l : List Nat) :
    PIter.mk' sn kind l =
      { kind := kind, segs := (sn.map (fun e => (e.1, e.2, localsOf l e.1 e.2))).map toPSeg,
        segOff := 0, started := false, curr := 0 } := by
  simp [PIter.mk', toPSeg, List.map_map, Function.comp_def]

/-- **the iterator built over the live postings `l` (sorted global doc numbers below the snapshot's total)
in a snapshot whose offsets are the running sums of its segment sizes is a fresh iterator for `l`** -/
theorem mk'_fresh {sn : SnapLayout} (hsn : offsetsOK 0 sn = true) (kind : LeafKind) {l : List Nat}
    (hs : Sorted l) (hb : ∀ x ∈ l, x < sn.total) : PRel l (PIter.mk' sn kind l) .fresh := by
  rw [mk'_segs]
  apply inv_fresh kind _ (running_mk' l hs 0 sn hsn)
  intro x
  rw [mem_globOf]
  constructor
  · intro hx
    obtain ⟨e, he, h1, h2⟩ := covered 0 sn hsn x (Nat.zero_le _) (by have := hb x hx; omega)
    refine ⟨toPSeg (e.1, e.2, localsOf l e.1 e.2), ?_, x - e.1, ?_, ?_⟩
    · exact List.mem_map.mpr ⟨_, List.mem_map.mpr ⟨e, he, rfl⟩, rfl⟩
    · simp only [toPSeg]
      rw [mem_localsOf]
      have : x - e.1 + e.1 = x := by omega
      rw [this]
      exact ⟨hx, by omega⟩
    · simp only [toPSeg]; omega
  · rintro ⟨g, hg, y, hy, rfl⟩
    obtain ⟨tr, htr, rfl⟩ := List.mem_map.mp hg
    obtain ⟨e, _, rfl⟩ := List.mem_map.mp htr
    simp only [toPSeg] at hy ⊢
    exact (mem_localsOf.mp hy).1

/-! ### `PIter.ofTerm`: `Snapshot.PostingsIterator(term, field)` from per-segment postings and deleted sets -/

theorem running_ofTerm : ∀ (run : Nat) (sd : List SegData), termOK run sd = true →
    Running run (sd.map (fun e => (e.off, e.size, e.live)))
  | _, [], _ => trivial
  | run, e :: t, h => by
    simp only [termOK, Bool.and_eq_true, beq_iff_eq, List.all_eq_true, decide_eq_true_eq] at h
    obtain ⟨⟨⟨hoff, hsrt⟩, hlt⟩, ht⟩ := h
    refine ⟨hoff, ?_, ?_, running_ofTerm _ t ht⟩
    · exact List.Pairwise.sublist List.filter_sublist (sortedB_sound _ hsrt)
    · intro y hy
      exact hlt y (List.mem_filter.mp hy).1

theorem ofTerm_segs (sd : List SegData) :
    PIter.ofTerm sd =
      { kind := .postings, segs := (sd.map (fun e => (e.off, e.size, e.live))).map toPSeg,
        segOff := 0, started := false, curr := 0 } := by
  simp [PIter.ofTerm, toPSeg, List.map_map, Function.comp_def]

theorem liveGlobals_eq (sd : List SegData) : liveGlobals sd = globOf (PIter.ofTerm sd).segs := by
  simp [liveGlobals, globOf, PIter.ofTerm, List.flatMap_map]

theorem mem_liveGlobals {sd : List SegData} {x : Nat} :
    x ∈ liveGlobals sd ↔ ∃ e ∈ sd, ∃ n ∈ e.raw, ¬ n ∈ e.deleted ∧ x = e.off + n := by
  simp only [liveGlobals, SegData.live, List.mem_flatMap, List.mem_map, List.mem_filter, Bool.not_eq_true',
    List.contains_eq_mem, decide_eq_false_iff_not]
  constructor
  · rintro ⟨e, he, n, ⟨hn, hd⟩, rfl⟩; exact ⟨e, he, n, hn, hd, by omega⟩
  · rintro ⟨e, he, n, hn, hd, rfl⟩; exact ⟨e, he, n, ⟨hn, hd⟩, by omega⟩

theorem ofTerm_fresh {sd : List SegData} (h : termOK 0 sd = true) :
    PRel (liveGlobals sd) (PIter.ofTerm sd) .fresh ∧ Sorted (liveGlobals sd) := by
  have hrun := running_ofTerm 0 sd h
  refine ⟨?_, ?_⟩
  · have heq := liveGlobals_eq sd
    rw [ofTerm_segs] at heq ⊢
    apply inv_fresh .postings _ hrun
    intro x
    rw [heq]
  · rw [liveGlobals_eq, ofTerm_segs]
    exact sorted_globOf (running_segsOK 0 _ hrun).1

/-- `Advance` cannot index `offsets[-1]` on a snapshot that has a segment and whose first offset is 0 -/
theorem segIndexOf_isSome {segs : List PSeg} {g : PSeg} {t : List PSeg} (hs : segs = g :: t) (h0 : g.off = 0)
    (n : Nat) : (segIndexOf (segs.map (·.off)) n).isSome = true := by
  cases h : segIndexOf (segs.map (·.off)) n with
  | some k => rfl
  | none =>
    rcases segIndexOf_none h with h1 | ⟨g', t', h2, h3⟩
    · rw [hs] at h1; cases h1
    · rw [hs] at h2; cases h2; omega

end Bluge.C07

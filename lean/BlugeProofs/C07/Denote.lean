import BlugeProofs.C07.Compile
/-! The plan compiled from a query (`compile`, mirroring query.go) denotes the query's meaning (`denote`). -/
namespace Bluge.C07
open Bluge.Search

/-- structural induction on queries -/
theorem Query.ind {P : Query → Prop}
    (hbase : ∀ q, (∀ ms ss ns k, q ≠ .bool ms ss ns k) → P q)
    (hbool : ∀ ms ss ns k, (∀ q ∈ ms, P q) → (∀ q ∈ ss, P q) → (∀ q ∈ ns, P q) → P (.bool ms ss ns k)) :
    ∀ q, P q
  | .bool ms ss ns k => hbool ms ss ns k
      (fun q _ => Query.ind hbase hbool q) (fun q _ => Query.ind hbase hbool q) (fun q _ => Query.ind hbase hbool q)
  | .term f t => hbase _ (by intro _ _ _ _ h; cases h)
  | .all => hbase _ (by intro _ _ _ _ h; cases h)
  | .none => hbase _ (by intro _ _ _ _ h; cases h)
  | .multi f m => hbase _ (by intro _ _ _ _ h; cases h)
  | .numRange f lo hi => hbase _ (by intro _ _ _ _ h; cases h)
  | .phrase f s p => hbase _ (by intro _ _ _ _ h; cases h)
  | .geoBox f a b c d => hbase _ (by intro _ _ _ _ h; cases h)
  | .geoDist f a b c => hbase _ (by intro _ _ _ _ h; cases h)
termination_by q => sizeOf q
decreasing_by
  all_goals simp_wf
  all_goals (have := List.sizeOf_lt_of_mem ‹_ ∈ _›; omega)

theorem sorted_ext : ∀ {a b : List Nat}, Sorted a → Sorted b → (∀ x, x ∈ a ↔ x ∈ b) → a = b
  | [], [], _, _, _ => rfl
  | [], y :: _, _, _, h => by have := (h y).mpr List.mem_cons_self; cases this
  | x :: _, [], _, _, h => by have := (h x).mp List.mem_cons_self; cases this
  | x :: a, y :: b, ha, hb, h => by
    have ha' := List.pairwise_cons.mp ha
    have hb' := List.pairwise_cons.mp hb
    have hxy : x = y := by
      have h1 := (h x).mp List.mem_cons_self
      have h2 := (h y).mpr List.mem_cons_self
      cases h1 with
      | head => rfl
      | tail _ h1 =>
        cases h2 with
        | head => rfl
        | tail _ h2 => have := hb'.1 x h1; have := ha'.1 y h2; omega
    subst hxy
    congr 1
    apply sorted_ext ha'.2 hb'.2
    intro z
    constructor
    · intro hz
      have := (h z).mp (List.mem_cons_of_mem _ hz)
      cases this with
      | head => have := ha'.1 _ hz; omega
      | tail _ h' => exact h'
    · intro hz
      have := (h z).mpr (List.mem_cons_of_mem _ hz)
      cases this with
      | head => have := hb'.1 _ hz; omega
      | tail _ h' => exact h'

section
variable {idx : Index} {B : Nat}

theorem mem_denote {q : Query} {x : Nat} : x ∈ denote idx q ↔ ∃ d, (x, d) ∈ idx ∧ sat d q = true := by
  simp only [denote, List.mem_map, List.mem_filter]
  constructor
  · rintro ⟨⟨n, d⟩, ⟨hmem, hs⟩, rfl⟩; exact ⟨d, hmem, hs⟩
  · rintro ⟨d, hmem, hs⟩; exact ⟨(x, d), ⟨hmem, hs⟩, rfl⟩

theorem idx_sorted_filter (hwf : idx.WF B) (p : Nat × Doc → Bool) : Sorted ((idx.filter p).map (·.1)) :=
  List.Pairwise.sublist (List.Sublist.map _ List.filter_sublist) hwf.1

theorem denote_sorted (hwf : idx.WF B) (q : Query) : Sorted (denote idx q) := idx_sorted_filter hwf _

theorem idx_unique (hwf : idx.WF B) {x : Nat} {d d' : Doc} (h : (x, d) ∈ idx) (h' : (x, d') ∈ idx) : d = d' := by
  have hp := hwf.1
  clear hwf
  induction idx with
  | nil => cases h
  | cons e t ih =>
    simp only [List.map_cons] at hp
    have hp' := List.pairwise_cons.mp hp
    cases h with
    | head =>
      cases h' with
      | head => rfl
      | tail _ h' =>
        have := hp'.1 x (List.mem_map_of_mem (f := (·.1)) h')
        simp at this
    | tail _ h =>
      cases h' with
      | head =>
        have := hp'.1 x (List.mem_map_of_mem (f := (·.1)) h)
        simp at this
      | tail _ h' => exact ih h h' hp'.2

theorem mem_denote_iff (hwf : idx.WF B) {q : Query} {x : Nat} {d : Doc} (h : (x, d) ∈ idx) :
    x ∈ denote idx q ↔ sat d q = true := by
  rw [mem_denote]
  constructor
  · rintro ⟨d', h', hs⟩; rw [idx_unique hwf h h']; exact hs
  · intro hs; exact ⟨d, h, hs⟩

theorem mem_allDocs {x : Nat} : x ∈ allDocs idx ↔ ∃ d, (x, d) ∈ idx := by
  simp only [allDocs, List.mem_map]
  constructor
  · rintro ⟨⟨n, d⟩, hmem, rfl⟩; exact ⟨d, hmem⟩
  · rintro ⟨d, hmem⟩; exact ⟨(x, d), hmem, rfl⟩

/-- over documents of the index: `x` is in all / in `cnt` many of the denotations -/
theorem all_denote (hwf : idx.WF B) {x : Nat} {d : Doc} (h : (x, d) ∈ idx) (qs : List Query) :
    (∀ Li ∈ qs.map (denote idx), x ∈ Li) ↔ (qs.map (fun q => sat d q)).all id = true := by
  simp only [List.mem_map, forall_exists_index, and_imp, forall_apply_eq_imp_iff₂, List.all_eq_true, id_eq]
  constructor
  · intro hall q hq; exact (mem_denote_iff hwf h).mp (hall q hq)
  · intro hall q hq; exact (mem_denote_iff hwf h).mpr (hall q hq)

theorem cnt_denote (hwf : idx.WF B) {x : Nat} {d : Doc} (h : (x, d) ∈ idx) :
    ∀ qs : List Query, cnt (qs.map (denote idx)) x = ((qs.map (fun q => sat d q)).filter id).length
  | [] => rfl
  | q :: qs => by
    have ih := cnt_denote hwf h qs
    unfold cnt at ih ⊢
    simp only [List.map_cons, List.filter_cons]
    have : (denote idx q).contains x = sat d q := by
      rw [Bool.eq_iff_iff, List.contains_iff_mem]
      exact mem_denote_iff hwf h
    rw [this]
    cases sat d q <;> simp at ih ⊢ <;> omega

theorem any_denote (hwf : idx.WF B) {x : Nat} {d : Doc} (h : (x, d) ∈ idx) (qs : List Query) :
    (1 ≤ cnt (qs.map (denote idx)) x) ↔ (qs.map (fun q => sat d q)).any id = true := by
  rw [cnt_denote hwf h]
  induction qs with
  | nil => simp
  | cons q qs ih =>
    simp only [List.map_cons, List.filter_cons, List.any_cons, id_eq, Bool.or_eq_true]
    cases sat d q <;> simp at ih ⊢ <;> first | exact ih | omega

end
end Bluge.C07

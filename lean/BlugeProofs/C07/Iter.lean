import Bluge.Search
/-! The sorted-list iterator contract (DESIGN 4.2) and the proof that the leaf searchers satisfy it. -/
namespace Bluge.C07
open Bluge.Search

/-- where a searcher stands, as seen by its caller:
`fresh`  nothing has been called yet;
`at lb`  the last answer was the doc `lb - 1` (every doc `< lb` has been passed);
`done p` an exact call has answered `nil` at some point in the past; since then every answer is only
         known to be sound, and a `Next` answers nothing below `p`. -/
inductive Phase where
  | fresh
  | at (lb : Nat)
  | done (p : Nat)

def after : Resp → Phase
  | some d => .at (d + 1)
  | none => .done 0

/-- `r` is the least element `≥ n` of `L`, or `none` if there is none -/
def IsFirstGE (L : List Nat) (n : Nat) : Resp → Prop
  | some d => d ∈ L ∧ n ≤ d ∧ ∀ x ∈ L, n ≤ x → d ≤ x
  | none => ∀ x ∈ L, x < n

/-- The iterator contract. A caller that respects the protocol
(first call `Next`; `Advance n` only with `n` beyond the last answer; after a `nil` anything)
gets: `Next` = the next element of `L`; `Advance n` = the first element `≥ n`; after the first `nil`
every answer is still an element of `L`, `≥ n` for `Advance n` and beyond the previous answer for `Next`
— the Go searchers may "resurrect" after exhaustion (postingsIterator restarts on a backward Advance),
callers only rely on soundness then.
`Advance n` with `n` at or before the last answer while live is outside the contract (no guarantee). -/
structure IsIter {σ : Type} (step : Step σ) (Rel : σ → Phase → Prop) (L : List Nat) : Prop where
  next_fresh : ∀ s, Rel s .fresh →
    IsFirstGE L 0 (step s .next).1 ∧ Rel (step s .next).2 (after (step s .next).1)
  next_at : ∀ s lb, Rel s (.at lb) →
    IsFirstGE L lb (step s .next).1 ∧ Rel (step s .next).2 (after (step s .next).1)
  adv_at : ∀ s lb n, Rel s (.at lb) → lb ≤ n →
    IsFirstGE L n (step s (.adv n)).1 ∧ Rel (step s (.adv n)).2 (after (step s (.adv n)).1)
  done_sound : ∀ s p c, Rel s (.done p) →
    (∀ d, (step s c).1 = some d →
      d ∈ L ∧ (c = .next → p ≤ d) ∧ (∀ n, c = .adv n → n ≤ d) ∧ Rel (step s c).2 (.done (d + 1))) ∧
    ((step s c).1 = none → Rel (step s c).2 (.done 0))
  done_mono : ∀ s p p', Rel s (.done p) → p' ≤ p → Rel s (.done p')

theorem IsFirstGE.unique {L n} {a b : Resp} (ha : IsFirstGE L n a) (hb : IsFirstGE L n b) : a = b := by
  cases a <;> cases b <;> simp only [IsFirstGE] at ha hb
  · rfl
  · exfalso; have := ha _ hb.1; have := hb.2.1; omega
  · exfalso; have := hb _ ha.1; have := ha.2.1; omega
  · have h1 := ha.2.2 _ hb.1 hb.2.1
    have h2 := hb.2.2 _ ha.1 ha.2.1
    rw [Nat.le_antisymm h1 h2]

/-! ### sorted lists -/
abbrev Sorted (L : List Nat) : Prop := L.Pairwise (· < ·)

theorem filter_ge_of_first {L : List Nat} (hs : Sorted L) {lb d : Nat}
    (hd : d ∈ L) (hlb : lb ≤ d) (hmin : ∀ x ∈ L, lb ≤ x → d ≤ x) :
    L.filter (fun x => decide (lb ≤ x)) = d :: L.filter (fun x => decide (d + 1 ≤ x)) := by
  induction L with
  | nil => cases hd
  | cons a t ih =>
    have hs := List.pairwise_cons.mp hs
    by_cases had : a = d
    · subst had
      have h2 : t.filter (fun x => decide (lb ≤ x)) = t.filter (fun x => decide (a + 1 ≤ x)) := by
        apply List.filter_congr
        intro x hx
        have := hs.1 x hx
        simp only [decide_eq_decide]
        omega
      simp [hlb, h2]
    · have hdt : d ∈ t := by
        cases hd with
        | head => exact absurd rfl had
        | tail _ h => exact h
      have had' : a < d := hs.1 d hdt
      have hna : ¬ lb ≤ a := by
        intro h
        have := hmin a (List.mem_cons_self) h
        omega
      have ih' := ih hs.2 hdt (fun x hx => hmin x (List.mem_cons_of_mem _ hx))
      have hna2 : ¬ d + 1 ≤ a := by omega
      simp [hna, hna2, ih']

theorem filter_ge_nil {L : List Nat} {lb : Nat} (h : ∀ x ∈ L, x < lb) :
    L.filter (fun x => decide (lb ≤ x)) = [] := by
  rw [List.filter_eq_nil_iff]
  intro x hx
  have := h x hx
  simp only [decide_eq_true_eq]
  omega

/-- a collector draining an iterator obtains exactly the elements `≥ lb`, in order -/
theorem drain_at {σ} {step : Step σ} {Rel L} (h : IsIter step Rel L) (hs : Sorted L) :
    ∀ k s lb, Rel s (.at lb) → (L.filter (fun x => decide (lb ≤ x))).length < k →
      drain step k s = L.filter (fun x => decide (lb ≤ x)) := by
  intro k
  induction k with
  | zero => intro s lb _ hk; omega
  | succ k ih =>
    intro s lb hr hk
    have hn := h.next_at s lb hr
    unfold drain
    rcases hstep : step s .next with ⟨r, s'⟩
    rw [hstep] at hn
    cases r with
    | none =>
      simp only [IsFirstGE] at hn
      simp [filter_ge_nil hn.1]
    | some d =>
      simp only [IsFirstGE, after] at hn
      have hf := filter_ge_of_first hs hn.1.1 hn.1.2.1 hn.1.2.2
      rw [hf] at hk ⊢
      simp only [List.length_cons] at hk
      simp only
      rw [ih s' (d + 1) hn.2 (by omega)]

theorem drain_fresh {σ} {step : Step σ} {Rel L} (h : IsIter step Rel L) (hs : Sorted L)
    (k : Nat) (s : σ) (hr : Rel s .fresh) (hk : L.length < k) : drain step k s = L := by
  cases k with
  | zero => omega
  | succ k =>
    have hn := h.next_fresh s hr
    unfold drain
    rcases hstep : step s .next with ⟨r, s'⟩
    rw [hstep] at hn
    have hall : L.filter (fun x => decide (0 ≤ x)) = L := by
      rw [List.filter_eq_self]; intro x _; simp
    cases r with
    | none =>
      simp only [IsFirstGE] at hn
      cases L with
      | nil => rfl
      | cons a t => have := hn.1 a List.mem_cons_self; omega
    | some d =>
      simp only [IsFirstGE, after] at hn
      have hf := filter_ge_of_first hs hn.1.1 hn.1.2.1 hn.1.2.2
      rw [hall] at hf
      have hlen : (L.filter (fun x => decide (d + 1 ≤ x))).length < k := by
        have : L.length = (L.filter (fun x => decide (d + 1 ≤ x))).length + 1 := by
          conv => lhs; rw [hf]
          simp
        omega
      simp only
      rw [drain_at h hs k s' (d + 1) hn.2 hlen]
      exact hf.symm

end Bluge.C07

import Bluge.C07.Query
/-! `findPhrasePaths` (search_phrase.go), as transcribed in `findPaths`, finds a path iff the declarative
`PhraseMatch` holds. -/
namespace Bluge.C07
open Bluge.Search

theorem realSlots_cons (car : List String) (cdr : List (List String)) (k : Nat) :
    realSlots (car :: cdr) k = if isHole car then realSlots cdr (k + 1) else (car, k) :: realSlots cdr (k + 1) := by
  unfold realSlots
  rw [List.zipIdx_cons, List.filter_cons]
  cases isHole car <;> simp

theorem realSlots_idx_ge : ∀ (slots : List (List String)) (k : Nat), ∀ e ∈ realSlots slots k, k ≤ e.2
  | [], _, e, h => by simp [realSlots] at h
  | car :: cdr, k, e, h => by
    rw [realSlots_cons] at h
    split at h
    · have := realSlots_idx_ge cdr (k + 1) e h; omega
    · cases h with
      | head => exact Nat.le_refl _
      | tail _ h => have := realSlots_idx_ge cdr (k + 1) e h; omega

/-- (slot index, chosen position) pairs -/
def pairsOf (rs : List (List String × Nat)) (ch : List (String × Nat)) : List (Nat × Nat) :=
  (rs.map (·.2)).zip (ch.map (·.2))

/-- the displacement still to be paid when the previous non-placeholder slot left `prev` (0: there was
none) and the next slot has index `k` -/
def costOf (prev k : Nat) (ps : List (Nat × Nat)) : Nat :=
  if prev = 0 then displacement ps else displacement ((k - 1, prev) :: ps)

theorem costOf_nil (prev k : Nat) : costOf prev k [] = 0 := by
  unfold costOf; split <;> simp [displacement]

theorem costOf_hole {prev k : Nat} {ps : List (Nat × Nat)} (hidx : ∀ e ∈ ps, k + 1 ≤ e.1) (hk : prev ≠ 0 → 1 ≤ k) :
    costOf (if prev = 0 then 0 else prev + 1) (k + 1) ps = costOf prev k ps := by
  unfold costOf
  by_cases hp : prev = 0
  · simp [hp]
  · have hk1 := hk hp
    simp only [hp, ↓reduceIte, Nat.add_eq_zero_iff, Nat.succ_ne_self, and_false, Nat.add_sub_cancel]
    cases ps with
    | nil => simp [displacement]
    | cons e rest =>
      obtain ⟨j, q⟩ := e
      have := hidx (j, q) List.mem_cons_self
      simp only at this
      simp only [displacement]
      have h1 : prev + 1 + (j - k) = prev + (j - (k - 1)) := by omega
      rw [h1]

theorem costOf_real {prev k pos : Nat} {ps : List (Nat × Nat)} (hk : prev ≠ 0 → 1 ≤ k) :
    (costOf prev k ((k, pos) :: ps) : Int) =
      (if prev != 0 then (((prev + 1 : Nat) : Int) - (pos : Int)).natAbs else 0 : Int) + (displacement ((k, pos) :: ps) : Int) := by
  unfold costOf
  by_cases hp : prev = 0
  · simp [hp]
  · have hk1 := hk hp
    have h1 : prev + (k - (k - 1)) = prev + 1 := by omega
    simp only [hp, ↓reduceIte, displacement, h1, bne_iff_ne, ne_eq, not_false_eq_true]
    push_cast
    rfl

theorem chooses_nil_left {tlm : String → List Nat} {ch : List (String × Nat)} (h : Chooses tlm [] ch) : ch = [] := by
  cases ch with
  | nil => rfl
  | cons c t => simp [Chooses] at h

theorem chooses_cons_left {tlm : String → List Nat} {e : List String × Nat} {rs : List (List String × Nat)}
    {ch : List (String × Nat)} (h : Chooses tlm (e :: rs) ch) :
    ∃ c ch', ch = c :: ch' ∧ c.1 ∈ e.1 ∧ c.2 ∈ tlm c.1 ∧ Chooses tlm rs ch' := by
  cases ch with
  | nil => simp [Chooses] at h
  | cons c t => exact ⟨c, t, rfl, h.1, h.2.1, h.2.2⟩

theorem pairsOf_idx_ge {slots : List (List String)} {k : Nat} {ch : List (String × Nat)} :
    ∀ e ∈ pairsOf (realSlots slots k) ch, k ≤ e.1 := by
  intro e he
  unfold pairsOf at he
  have := (List.of_mem_zip he).1
  obtain ⟨e0, he0, rfl⟩ := List.mem_map.mp this
  exact realSlots_idx_ge slots k e0 he0

/-- the general statement: `findPaths` from slot index `k` on, with previous position `prev` (0 = none
yet), the occurrences `path` already used and `s ≥ 0` slop left -/
theorem findPaths_iff (tlm : String → List Nat) (hpos : ∀ t p, p ∈ tlm t → 0 < p) :
    ∀ (slots : List (List String)) (k prev : Nat) (path : List (String × Nat)) (s : Int), 0 ≤ s → (prev ≠ 0 → 1 ≤ k) →
      (findPaths tlm slots prev path s = true ↔
        ∃ ch, Chooses tlm (realSlots slots k) ch ∧ ch.Nodup ∧ (∀ c ∈ ch, c ∉ path) ∧
          (costOf prev k (pairsOf (realSlots slots k) ch) : Int) ≤ s) := by
  intro slots
  induction slots with
  | nil =>
    intro k prev path s hs hk
    simp only [findPaths, true_iff]
    refine ⟨[], by simp [realSlots, Chooses], List.nodup_nil, by simp, ?_⟩
    simp only [realSlots, List.zipIdx_nil, List.filter_nil, pairsOf, List.map_nil, List.zip_nil_left, costOf_nil]
    exact hs
  | cons car cdr ih =>
    intro k prev path s hs hk
    rw [realSlots_cons]
    by_cases hh : isHole car = true
    · -- a placeholder slot
      have hh' : (car.isEmpty || car == [""]) = true := hh
      rw [findPaths]
      simp only [hh', ↓reduceIte, hh]
      have hprev : (if (prev == 0) = true then 0 else prev + 1) = (if prev = 0 then 0 else prev + 1) := by
        by_cases hp : prev = 0 <;> simp [hp]
      rw [hprev, ih (k + 1) _ path s hs (by intro _; omega)]
      constructor
      · rintro ⟨ch, h1, h2, h3, h4⟩
        refine ⟨ch, h1, h2, h3, ?_⟩
        rw [← costOf_hole (fun e he => pairsOf_idx_ge e he) hk]; exact h4
      · rintro ⟨ch, h1, h2, h3, h4⟩
        refine ⟨ch, h1, h2, h3, ?_⟩
        rw [costOf_hole (fun e he => pairsOf_idx_ge e he) hk]; exact h4
    · -- a real slot
      have hh' : (car.isEmpty || car == [""]) = false := by
        have : isHole car = false := by simpa using hh
        exact this
      rw [findPaths]
      simp only [hh', Bool.false_eq_true, ↓reduceIte, hh]
      simp only [List.any_eq_true]
      constructor
      · rintro ⟨t, ht, pos, hp, hbody⟩
        have hpp := hpos t pos hp
        split at hbody
        · rename_i hcond
          split at hbody
          · cases hbody
          · rename_i hnc
            have hs' : 0 ≤ s - (if prev != 0 then ((((prev + 1 : Nat) : Int) - (pos : Int)).natAbs : Int) else 0) := by
              by_cases hp0 : prev = 0
              · simp [hp0]; exact hs
              · simp only [bne_iff_ne, ne_eq, hp0, not_false_eq_true, ↓reduceIte]
                simp only [hp0, beq_iff_eq, Bool.false_or, decide_eq_true_eq, bne_iff_ne, ne_eq,
                  not_false_eq_true, ↓reduceIte] at hcond
                exact hcond
            obtain ⟨ch', c1, c2, c3, c4⟩ := (ih (k + 1) pos ((t, pos) :: path) _ hs' (by intro _; omega)).mp hbody
            refine ⟨(t, pos) :: ch', ⟨ht, hp, c1⟩, ?_, ?_, ?_⟩
            · refine List.nodup_cons.mpr ⟨?_, c2⟩
              intro hmem
              exact c3 _ hmem List.mem_cons_self
            · intro c hc
              cases hc with
              | head => simpa using hnc
              | tail _ hc => intro hcp; exact c3 c hc (List.mem_cons_of_mem _ hcp)
            · have hcost : costOf pos (k + 1) (pairsOf (realSlots cdr (k + 1)) ch') =
                  displacement ((k, pos) :: pairsOf (realSlots cdr (k + 1)) ch') := by
                unfold costOf
                have : pos ≠ 0 := by omega
                simp [this]
              rw [hcost] at c4
              have : pairsOf ((car, k) :: realSlots cdr (k + 1)) ((t, pos) :: ch') =
                  (k, pos) :: pairsOf (realSlots cdr (k + 1)) ch' := by simp [pairsOf]
              rw [this, costOf_real hk]
              omega
        · cases hbody
      · rintro ⟨ch, h1, h2, h3, h4⟩
        obtain ⟨c, ch', rfl, hc1, hc2, hc3⟩ := chooses_cons_left h1
        obtain ⟨t, pos⟩ := c
        simp only at hc1 hc2
        have hpp := hpos t pos hc2
        have hnd := List.nodup_cons.mp h2
        have hpairs : pairsOf ((car, k) :: realSlots cdr (k + 1)) ((t, pos) :: ch') =
            (k, pos) :: pairsOf (realSlots cdr (k + 1)) ch' := by simp [pairsOf]
        rw [hpairs, costOf_real hk] at h4
        refine ⟨t, hc1, pos, hc2, ?_⟩
        have hcond : (prev == 0 || decide (s - (if prev != 0 then ((((prev + 1 : Nat) : Int) - (pos : Int)).natAbs : Int) else 0) ≥ 0)) = true := by
          by_cases hp0 : prev = 0
          · simp [hp0]
          · simp only [hp0, beq_iff_eq, Bool.false_or, decide_eq_true_eq, bne_iff_ne, ne_eq,
              not_false_eq_true, ↓reduceIte] at h4 ⊢
            omega
        have hnc : path.contains (t, pos) = false := by
          have := h3 (t, pos) List.mem_cons_self
          simpa using this
        simp only [hcond, ↓reduceIte, hnc, Bool.false_eq_true]
        have hs' : 0 ≤ s - (if prev != 0 then ((((prev + 1 : Nat) : Int) - (pos : Int)).natAbs : Int) else 0) := by
          omega
        apply (ih (k + 1) pos ((t, pos) :: path) _ hs' (by intro _; omega)).mpr
        refine ⟨ch', hc3, hnd.2, ?_, ?_⟩
        · intro c hc hcp
          cases hcp with
          | head => exact hnd.1 hc
          | tail _ hcp => exact h3 c (List.mem_cons_of_mem _ hc) hcp
        · have hcost : costOf pos (k + 1) (pairsOf (realSlots cdr (k + 1)) ch') =
              displacement ((k, pos) :: pairsOf (realSlots cdr (k + 1)) ch') := by
            unfold costOf
            have : pos ≠ 0 := by omega
            simp [this]
          rw [hcost]
          omega

/-- **findPhrasePaths_sound_complete** (helper form): over any term-location map with 1-based positions -/
theorem findPaths_sound_complete (tlm : String → List Nat) (hpos : ∀ t p, p ∈ tlm t → 0 < p)
    (slots : List (List String)) (slop : Nat) :
    findPaths tlm slots 0 [] slop = true ↔ PhraseMatch tlm slots slop := by
  rw [findPaths_iff tlm hpos slots 0 0 [] slop (by omega) (by intro h; exact absurd rfl h)]
  unfold PhraseMatch
  constructor
  · rintro ⟨ch, h1, h2, _, h4⟩
    refine ⟨ch, h1, h2, ?_⟩
    simp only [costOf, ↓reduceIte, pairsOf] at h4
    exact_mod_cast h4
  · rintro ⟨ch, h1, h2, h4⟩
    refine ⟨ch, h1, h2, by simp, ?_⟩
    simp only [costOf, ↓reduceIte, pairsOf]
    exact_mod_cast h4

end Bluge.C07

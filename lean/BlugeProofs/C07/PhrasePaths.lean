import Bluge.C07.Query
/-! `findPhrasePaths` (search_phrase.go), as transcribed in `findPaths`, finds a path iff the declarative
`PhraseMatch` holds. -/
namespace Bluge.C07
open Bluge.Search

theorem realSlots_cons (car : List String) (cdr : List (List String)) (k : Nat) :
    realSlots (car :: cdr) k = if isHole car then realSlots cdr (k + 1) else (car, k) :: realSlots cdr (k + 1) := by
  unfold realSlots
  rw [List.zipIdx_cons, List.filter_cons]
  cases isHole car <;> simp

theorem realSlots_idx_ge : ∀ (slots : List (List String)) (k : Nat), ∀ e ∈ realSlots slots k, k ≤ e.2
  | [], _, e, h => by simp [realSlots] at h
  | car :: cdr, k, e, h => by
    rw [realSlots_cons] at h
    split at h
    · have := realSlots_idx_ge cdr (k + 1) e h; omega
    · cases h with
      | head => exact Nat.le_refl _
      | tail _ h => have := realSlots_idx_ge cdr (k + 1) e h; omega

/-- (slot index, chosen position) pairs -/
def pairsOf (rs : List (List String × Nat)) (ch : List (String × Nat)) : List (Nat × Nat) :=
  (rs.map (·.2)).zip (ch.map (·.2))

/-- the displacement still to be paid when the previous non-placeholder slot left `prev` (0: there was
none) and the next slot has index `k` -/
def costOf (prev k : Nat) (ps : List (Nat × Nat)) : Nat :=
  if prev = 0 then displacement ps else displacement ((k - 1, prev) :: ps)

theorem costOf_nil (prev k : Nat) : costOf prev k [] = 0 := by
  unfold costOf; split <;> simp [displacement]

theorem costOf_hole {prev k : Nat} {ps : List (Nat × Nat)} (hidx : ∀ e ∈ ps, k + 1 ≤ e.1) (hk : prev ≠ 0 → 1 ≤ k) :
    costOf (if prev = 0 then 0 else prev + 1) (k + 1) ps = costOf prev k ps := by
  unfold costOf
  by_cases hp : prev = 0
  · simp [hp]
  · have hk1 := hk hp
    simp only [hp, ↓reduceIte, Nat.add_eq_zero_iff, Nat.succ_ne_self, and_false, Nat.add_sub_cancel]
    cases ps with
    | nil => simp [displacement]
    | cons e rest =>
      obtain ⟨j, q⟩ := e
      have := hidx (j, q) List.mem_cons_self
      simp only at this
      simp only [displacement]
      have h1 : prev + 1 + (j - k) = prev + (j - (k - 1)) := by omega
      rw [h1]

/-- `editDistance(prevPos+1, loc.Pos)`, 0 when there is no previous position -/
def distN (prev pos : Nat) : Nat :=
  if prev != 0 then (((prev + 1 : Nat) : Int) - (pos : Int)).natAbs else 0

theorem costOf_real {prev k pos : Nat} {ps : List (Nat × Nat)} (hk : prev ≠ 0 → 1 ≤ k) :
    costOf prev k ((k, pos) :: ps) = distN prev pos + displacement ((k, pos) :: ps) := by
  unfold costOf distN
  by_cases hp : prev = 0
  · simp [hp]
  · have hk1 := hk hp
    have h1 : prev + (k - (k - 1)) = prev + 1 := by omega
    simp only [hp, ↓reduceIte, displacement, h1, bne_iff_ne, ne_eq, not_false_eq_true]

/-- the body of the two loops of `findPhrasePaths` for one candidate occurrence `(t, pos)` -/
def stepOK (tlm : String → List Nat) (cdr : List (List String)) (prev : Nat) (path : List (String × Nat)) (s : Int)
    (t : String) (pos : Nat) : Bool :=
  if prev == 0 || decide (s - (distN prev pos : Int) ≥ 0) then
    if path.contains (t, pos) then false
    else findPaths tlm cdr pos ((t, pos) :: path) (s - (distN prev pos : Int))
  else false

theorem findPaths_cons (tlm : String → List Nat) (car : List String) (cdr : List (List String)) (prev : Nat)
    (path : List (String × Nat)) (s : Int) :
    findPaths tlm (car :: cdr) prev path s =
      if car.isEmpty || car == [""] then findPaths tlm cdr (if prev == 0 then 0 else prev + 1) path s
      else car.any fun t => (tlm t).any fun pos => stepOK tlm cdr prev path s t pos := by
  rw [findPaths]
  split
  · rfl
  · congr 1
    funext t
    congr 1
    funext pos
    unfold stepOK distN
    by_cases hp : prev = 0
    · simp [hp]
    · simp [hp]

theorem stepOK_iff (tlm : String → List Nat) (cdr : List (List String)) (prev : Nat) (path : List (String × Nat))
    (s : Int) (t : String) (pos : Nat) :
    stepOK tlm cdr prev path s t pos = true ↔
      (prev = 0 ∨ (distN prev pos : Int) ≤ s) ∧ (t, pos) ∉ path ∧
        findPaths tlm cdr pos ((t, pos) :: path) (s - (distN prev pos : Int)) = true := by
  unfold stepOK
  by_cases hc : (prev == 0 || decide (s - (distN prev pos : Int) ≥ 0)) = true
  · rw [if_pos hc]
    have hc' : prev = 0 ∨ (distN prev pos : Int) ≤ s := by
      simp only [Bool.or_eq_true, beq_iff_eq, decide_eq_true_eq] at hc
      rcases hc with h | h
      · exact Or.inl h
      · right; omega
    by_cases hn : path.contains (t, pos) = true
    · rw [if_pos hn]
      have : (t, pos) ∈ path := by simpa using hn
      simp [this]
    · rw [if_neg hn]
      have : (t, pos) ∉ path := by simpa using hn
      simp [hc', this]
  · rw [if_neg hc]
    have hc' : ¬ (prev = 0 ∨ (distN prev pos : Int) ≤ s) := by
      simp only [Bool.or_eq_true, beq_iff_eq, decide_eq_true_eq, not_or] at hc
      intro h
      rcases h with h | h
      · exact hc.1 h
      · apply hc.2; omega
    simp [hc']

theorem chooses_nil_left {tlm : String → List Nat} {ch : List (String × Nat)} (h : Chooses tlm [] ch) : ch = [] := by
  cases ch with
  | nil => rfl
  | cons c t => simp [Chooses] at h

theorem chooses_cons_left {tlm : String → List Nat} {e : List String × Nat} {rs : List (List String × Nat)}
    {ch : List (String × Nat)} (h : Chooses tlm (e :: rs) ch) :
    ∃ c ch', ch = c :: ch' ∧ c.1 ∈ e.1 ∧ c.2 ∈ tlm c.1 ∧ Chooses tlm rs ch' := by
  cases ch with
  | nil => simp [Chooses] at h
  | cons c t => exact ⟨c, t, rfl, h.1, h.2.1, h.2.2⟩

theorem pairsOf_idx_ge {slots : List (List String)} {k : Nat} {ch : List (String × Nat)} :
    ∀ e ∈ pairsOf (realSlots slots k) ch, k ≤ e.1 := by
  intro e he
  unfold pairsOf at he
  have := (List.of_mem_zip he).1
  obtain ⟨e0, he0, heq⟩ := List.mem_map.mp this
  rw [← heq]
  exact realSlots_idx_ge slots k e0 he0

/-- the general statement: `findPaths` from slot index `k` on, with previous position `prev` (0 = none
yet), the occurrences `path` already used and `s ≥ 0` slop left -/
theorem findPaths_iff (tlm : String → List Nat) (hpos : ∀ t p, p ∈ tlm t → 0 < p) :
    ∀ (slots : List (List String)) (k prev : Nat) (path : List (String × Nat)) (s : Int), 0 ≤ s → (prev ≠ 0 → 1 ≤ k) →
      (findPaths tlm slots prev path s = true ↔
        ∃ ch, Chooses tlm (realSlots slots k) ch ∧ ch.Nodup ∧ (∀ c ∈ ch, c ∉ path) ∧
          (costOf prev k (pairsOf (realSlots slots k) ch) : Int) ≤ s) := by
  intro slots
  induction slots with
  | nil =>
    intro k prev path s hs hk
    simp only [findPaths, true_iff]
    refine ⟨[], by simp [realSlots, Chooses], List.nodup_nil, by simp, ?_⟩
    simp only [realSlots, List.zipIdx_nil, List.filter_nil, pairsOf, List.map_nil, List.zip_nil_left, costOf_nil]
    exact hs
  | cons car cdr ih =>
    intro k prev path s hs hk
    rw [realSlots_cons, findPaths_cons]
    by_cases hh : isHole car = true
    · -- a placeholder slot
      have hh' : (car.isEmpty || car == [""]) = true := hh
      simp only [hh', ↓reduceIte, hh]
      have hprev : (if (prev == 0) = true then 0 else prev + 1) = (if prev = 0 then 0 else prev + 1) := by
        by_cases hp : prev = 0 <;> simp [hp]
      rw [hprev, ih (k + 1) _ path s hs (by intro _; omega)]
      constructor
      · rintro ⟨ch, h1, h2, h3, h4⟩
        refine ⟨ch, h1, h2, h3, ?_⟩
        rw [← costOf_hole (fun e he => pairsOf_idx_ge e he) hk]; exact h4
      · rintro ⟨ch, h1, h2, h3, h4⟩
        refine ⟨ch, h1, h2, h3, ?_⟩
        rw [costOf_hole (fun e he => pairsOf_idx_ge e he) hk]; exact h4
    · -- a real slot
      have hh' : (car.isEmpty || car == [""]) = false := by
        have : isHole car = false := by simpa using hh
        exact this
      simp only [hh', Bool.false_eq_true, ↓reduceIte, hh]
      simp only [List.any_eq_true, stepOK_iff]
      have hpairs : ∀ (t : String) (pos : Nat) (ch' : List (String × Nat)),
          pairsOf ((car, k) :: realSlots cdr (k + 1)) ((t, pos) :: ch') =
            (k, pos) :: pairsOf (realSlots cdr (k + 1)) ch' := by
        intro t pos ch'; simp [pairsOf]
      have hcost : ∀ (pos : Nat) (ch' : List (String × Nat)), 0 < pos →
          costOf pos (k + 1) (pairsOf (realSlots cdr (k + 1)) ch') =
            displacement ((k, pos) :: pairsOf (realSlots cdr (k + 1)) ch') := by
        intro pos ch' hp
        unfold costOf
        have : pos ≠ 0 := by omega
        simp [this]
      have hd0 : ∀ pos, prev = 0 → distN prev pos = 0 := by
        intro pos hp; simp [distN, hp]
      constructor
      · rintro ⟨t, ht, pos, hp, hcond, hnc, hrec⟩
        have hpp := hpos t pos hp
        have hs' : 0 ≤ s - (distN prev pos : Int) := by
          rcases hcond with h0 | h1
          · rw [hd0 pos h0]; simpa using hs
          · omega
        obtain ⟨ch', c1, c2, c3, c4⟩ := (ih (k + 1) pos ((t, pos) :: path) _ hs' (by intro _; omega)).mp hrec
        refine ⟨(t, pos) :: ch', ⟨ht, hp, c1⟩, ?_, ?_, ?_⟩
        · refine List.nodup_cons.mpr ⟨?_, c2⟩
          intro hmem
          exact c3 _ hmem List.mem_cons_self
        · intro c hc
          cases hc with
          | head => exact hnc
          | tail _ hc => intro hcp; exact c3 c hc (List.mem_cons_of_mem _ hcp)
        · rw [hcost pos ch' hpp] at c4
          rw [hpairs, costOf_real hk]
          push_cast
          omega
      · rintro ⟨ch, h1, h2, h3, h4⟩
        obtain ⟨c, ch', rfl, hc1, hc2, hc3⟩ := chooses_cons_left h1
        obtain ⟨t, pos⟩ := c
        simp only at hc1 hc2
        have hpp := hpos t pos hc2
        have hnd := List.nodup_cons.mp h2
        rw [hpairs, costOf_real hk] at h4
        push_cast at h4
        have hs' : 0 ≤ s - (distN prev pos : Int) := by omega
        refine ⟨t, hc1, pos, hc2, Or.inr (by omega), h3 (t, pos) List.mem_cons_self, ?_⟩
        apply (ih (k + 1) pos ((t, pos) :: path) _ hs' (by intro _; omega)).mpr
        refine ⟨ch', hc3, hnd.2, ?_, ?_⟩
        · intro c hc hcp
          cases hcp with
          | head => exact hnd.1 hc
          | tail _ hcp => exact h3 c (List.mem_cons_of_mem _ hc) hcp
        · rw [hcost pos ch' hpp]
          omega

/-- **findPhrasePaths_sound_complete** (helper form): over any term-location map with 1-based positions -/
theorem findPaths_sound_complete (tlm : String → List Nat) (hpos : ∀ t p, p ∈ tlm t → 0 < p)
    (slots : List (List String)) (slop : Nat) :
    findPaths tlm slots 0 [] slop = true ↔ PhraseMatch tlm slots slop := by
  rw [findPaths_iff tlm hpos slots 0 0 [] slop (by omega) (by intro h; exact absurd rfl h)]
  unfold PhraseMatch
  constructor
  · rintro ⟨ch, h1, h2, _, h4⟩
    refine ⟨ch, h1, h2, ?_⟩
    simp only [costOf, ↓reduceIte, pairsOf] at h4
    exact_mod_cast h4
  · rintro ⟨ch, h1, h2, h4⟩
    refine ⟨ch, h1, h2, by simp, ?_⟩
    simp only [costOf, ↓reduceIte, pairsOf]
    exact_mod_cast h4

/-! ### the document-level statement -/

theorem positions_pos (d : Doc) (f t : String) : ∀ p ∈ d.positions f t, 0 < p := by
  intro p hp
  simp only [Doc.positions, List.mem_map, List.mem_filter] at hp
  obtain ⟨e, _, rfl⟩ := hp
  omega

theorem positions_hasTerm {d : Doc} {f t : String} {p : Nat} (hp : p ∈ d.positions f t) : d.hasTerm f t = true := by
  simp only [Doc.positions, List.mem_map, List.mem_filter, beq_iff_eq] at hp
  obtain ⟨e, ⟨he, rfl⟩, _⟩ := hp
  simp only [Doc.hasTerm, List.contains_eq_mem, decide_eq_true_eq]
  exact (List.mem_zipIdx he).2.2 ▸ List.getElem_mem _

theorem realSlots_map_fst : ∀ (slots : List (List String)) (k : Nat),
    (realSlots slots k).map (·.1) = slots.filter (fun car => !isHole car)
  | [], _ => by simp [realSlots]
  | car :: cdr, k => by
    rw [realSlots_cons, List.filter_cons]
    cases h : isHole car <;> simp [realSlots_map_fst cdr (k + 1)]

theorem chooses_each {tlm : String → List Nat} : ∀ (rs : List (List String × Nat)) (ch : List (String × Nat)),
    Chooses tlm rs ch → ∀ e ∈ rs, ∃ c : String × Nat, c.1 ∈ e.1 ∧ c.2 ∈ tlm c.1
  | [], _, _, e, he => by cases he
  | e0 :: rs, [], h, _, _ => by simp [Chooses] at h
  | e0 :: rs, c :: ch, h, e, he => by
    cases he with
    | head => exact ⟨c, h.1, h.2.1⟩
    | tail _ he => exact chooses_each rs ch h.2.2 e he

/-- the meaning of a (multi-)phrase query on a document: it has a non-placeholder slot and the
declarative `PhraseMatch` holds on the positions of the document's field -/
theorem phraseSat_iff_aux (d : Doc) (f : String) (slop : Nat) (pos : List (List String))
    (hempty : d.hasTerm f "" = false) :
    phraseSat d f slop pos = true ↔ (realSlots pos 0 ≠ [] ∧ PhraseMatch (d.positions f) pos slop) := by
  have hfp := findPaths_sound_complete (d.positions f) (fun t p hp => positions_pos d f t p hp) pos slop
  have hreal : pos.filter (fun car => !(car.isEmpty || car == [""])) = (realSlots pos 0).map (·.1) := by
    rw [realSlots_map_fst]; rfl
  unfold phraseSat
  simp only [Bool.and_eq_true, Bool.not_eq_true', List.isEmpty_eq_false_iff, ne_eq]
  rw [hreal, hfp]
  constructor
  · rintro ⟨⟨h1, _⟩, h3⟩
    exact ⟨by intro hn; apply h1; rw [hn]; rfl, h3⟩
  · rintro ⟨h1, h3⟩
    refine ⟨⟨by intro hn; apply h1; exact List.map_eq_nil_iff.mp hn, ?_⟩, h3⟩
    obtain ⟨ch, hch, _, _⟩ := h3
    rw [List.all_eq_true]
    intro car hcar
    obtain ⟨e, he, rfl⟩ := List.mem_map.mp hcar
    obtain ⟨c, hc1, hc2⟩ := chooses_each _ _ hch e he
    rw [List.any_eq_true]
    refine ⟨c.1, hc1, ?_⟩
    have hterm := positions_hasTerm hc2
    simp only [Bool.and_eq_true, bne_iff_ne, ne_eq, hterm, and_true]
    intro hc
    rw [hc] at hterm
    rw [hterm] at hempty
    cases hempty

end Bluge.C07

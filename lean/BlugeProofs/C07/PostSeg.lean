import Bluge.C07.Postings
import BlugeProofs.C07.Leaf
/-! Per-segment iterators (`SegIt`), `sort.Search`, `segmentIndexAndLocalDocNumFromGlobal`. -/
namespace Bluge.C07
open Bluge.Search

/-! ### `SegIt`: every per-segment iterator is a forward iterator over `toList` -/

theorem SegIt.nextAtOrAfter_fst (it : SegIt) (n : Nat) :
    (it.nextAtOrAfter n).1 = (it.toList.dropWhile (fun x => decide (x < n))).head? := by
  cases it with
  | list r =>
    simp only [SegIt.nextAtOrAfter, SegIt.toList]
    cases r.dropWhile (fun x => decide (x < n)) <;> rfl
  | oneHit d =>
    cases d with
    | none => rfl
    | some d =>
      simp only [SegIt.nextAtOrAfter, SegIt.toList]
      by_cases h : d < n <;> simp [h]

theorem SegIt.nextAtOrAfter_snd (it : SegIt) (n : Nat) :
    (it.nextAtOrAfter n).2.toList = (it.toList.dropWhile (fun x => decide (x < n))).tail := by
  cases it with
  | list r =>
    simp only [SegIt.nextAtOrAfter, SegIt.toList]
    cases r.dropWhile (fun x => decide (x < n)) <;> rfl
  | oneHit d =>
    cases d with
    | none => rfl
    | some d =>
      simp only [SegIt.nextAtOrAfter, SegIt.toList]
      by_cases h : d < n <;> simp [h]

theorem dropWhile_lt_zero (l : List Nat) : l.dropWhile (fun x => decide (x < 0)) = l := by
  cases l <;> simp

theorem SegIt.next_fst (it : SegIt) : it.next.1 = it.toList.head? := by
  rw [SegIt.next, SegIt.nextAtOrAfter_fst, dropWhile_lt_zero]

theorem SegIt.next_snd (it : SegIt) : it.next.2.toList = it.toList.tail := by
  rw [SegIt.next, SegIt.nextAtOrAfter_snd, dropWhile_lt_zero]

theorem SegIt.advanceIfNeeded_toList (it : SegIt) (n : Nat) :
    (it.advanceIfNeeded n).toList = it.toList.dropWhile (fun x => decide (x < n)) := by
  cases it with
  | list r => rfl
  | oneHit d =>
    cases d with
    | none => rfl
    | some d =>
      simp only [SegIt.advanceIfNeeded, SegIt.toList]
      by_cases h : d < n <;> simp [h]

/-- `Advance(n)` of a per-segment iterator is `AdvanceIfNeeded(n)` followed by `Next()` -/
theorem SegIt.adv_eq (it : SegIt) (n : Nat) : it.adv n = (it.advanceIfNeeded n).next := by
  cases it with
  | list r =>
    simp only [SegIt.adv, SegIt.next, SegIt.nextAtOrAfter, SegIt.advanceIfNeeded, dropWhile_lt_zero]
  | oneHit d =>
    cases d with
    | none => rfl
    | some d =>
      simp only [SegIt.adv, SegIt.next, SegIt.nextAtOrAfter, SegIt.advanceIfNeeded]
      by_cases h : d < n <;> simp [h]

/-- an iterator that answered `nil` stays exhausted -/
theorem SegIt.next_none_idem (it : SegIt) (h : it.next.1 = none) : it.next.2.next = (none, it.next.2) := by
  cases it with
  | list r =>
    simp only [SegIt.next, SegIt.nextAtOrAfter, dropWhile_lt_zero] at h ⊢
    cases r with
    | nil => rfl
    | cons a t => simp at h
  | oneHit d =>
    cases d with
    | none => rfl
    | some d => simp [SegIt.next, SegIt.nextAtOrAfter] at h

/-! ### `sort.Search` -/

/-- the loop invariant of `sort.Search`: for a predicate that is monotone (false … false true … true)
the result is the first index at which it holds (or `n`) -/
theorem goSearchLoop_spec (f : Nat → Bool) (n : Nat) (hmono : ∀ a b, a ≤ b → b < n → f a = true → f b = true) :
    ∀ (k i j : Nat), i ≤ j → j ≤ n → j - i ≤ k → (∀ x, x < i → f x = false) → (j < n → f j = true) →
      (goSearchLoop f k i j ≤ n ∧ (∀ x, x < goSearchLoop f k i j → f x = false) ∧
       (goSearchLoop f k i j < n → f (goSearchLoop f k i j) = true)) := by
  intro k
  induction k with
  | zero =>
    intro i j hij hjn hk hlo hhi
    have : i = j := by omega
    subst this
    simp only [goSearchLoop]
    exact ⟨hjn, hlo, hhi⟩
  | succ k ih =>
    intro i j hij hjn hk hlo hhi
    unfold goSearchLoop
    by_cases hlt : i < j
    · simp only [hlt, ↓reduceIte]
      have hh1 : i ≤ (i + j) / 2 := by omega
      have hh2 : (i + j) / 2 < j := by omega
      by_cases hf : f ((i + j) / 2) = true
      · simp only [hf, Bool.not_true, Bool.false_eq_true, ↓reduceIte]
        exact ih i ((i + j) / 2) hh1 (by omega) (by omega) hlo (fun _ => hf)
      · have hf' : f ((i + j) / 2) = false := by simpa using hf
        simp only [hf', Bool.not_false, ↓reduceIte]
        refine ih ((i + j) / 2 + 1) j (by omega) hjn (by omega) ?_ hhi
        intro x hx
        cases hfx : f x with
        | false => rfl
        | true =>
          have := hmono x ((i + j) / 2) (by omega) (by omega) hfx
          rw [hf'] at this; cases this
    · simp only [hlt, ↓reduceIte]
      have : i = j := by omega
      subst this
      exact ⟨hjn, hlo, hhi⟩

theorem goSearch_spec (f : Nat → Bool) (n : Nat) (hmono : ∀ a b, a ≤ b → b < n → f a = true → f b = true) :
    goSearch n f ≤ n ∧ (∀ x, x < goSearch n f → f x = false) ∧ (goSearch n f < n → f (goSearch n f) = true) :=
  goSearchLoop_spec f n hmono n 0 n (Nat.zero_le _) (Nat.le_refl _) (by omega) (by intro x hx; omega) (by intro h; omega)

/-! ### `segmentIndexAndLocalDocNumFromGlobal` on non-decreasing offsets -/

theorem getD_map_off (segs : List PSeg) (i : Nat) (h : i < segs.length) :
    (segs.map (·.off)).getD i 0 = segs[i].off := by
  simp [List.getD, h]

/-- `segIndexOf = some k`: segment `k` is the last one whose offset is `≤ n` -/
theorem segIndexOf_some {segs : List PSeg} {n k : Nat}
    (hmono : segs.Pairwise (fun g g' => g.off ≤ g'.off))
    (h : segIndexOf (segs.map (·.off)) n = some k) :
    ∃ pre g post, segs = pre ++ g :: post ∧ pre.length = k ∧ g.off ≤ n ∧ ∀ g' ∈ post, n < g'.off := by
  unfold segIndexOf at h
  have hm : ∀ a b, a ≤ b → b < (segs.map (·.off)).length →
      (fun x => decide (n < (segs.map (·.off)).getD x 0)) a = true →
      (fun x => decide (n < (segs.map (·.off)).getD x 0)) b = true := by
    intro a b hab hb ha
    rw [List.length_map] at hb
    simp only [decide_eq_true_eq] at ha ⊢
    have ha' : a < segs.length := by omega
    rw [getD_map_off _ _ hb]
    rw [getD_map_off _ _ ha'] at ha
    rcases Nat.lt_or_eq_of_le hab with hlt | heq
    · have := List.pairwise_iff_getElem.mp hmono a b ha' hb hlt
      omega
    · subst heq; exact ha
  have spec := goSearch_spec _ (segs.map (·.off)).length hm
  rw [List.length_map] at spec h
  cases hr : goSearch segs.length (fun x => decide (n < (segs.map (·.off)).getD x 0)) with
  | zero => rw [hr] at h; cases h
  | succ k' =>
    rw [hr] at h spec
    simp only [Option.some.injEq] at h
    subst h
    have hk : k' < segs.length := by omega
    refine ⟨segs.take k', segs[k'], segs.drop (k' + 1), ?_, ?_, ?_, ?_⟩
    · rw [List.getElem_cons_drop]
      exact (List.take_append_drop k' segs).symm
    · simp [List.length_take]; omega
    · have := spec.2.1 k' (by omega)
      simp only [decide_eq_false_iff_not] at this
      rw [getD_map_off _ _ hk] at this
      omega
    · intro g' hg'
      obtain ⟨j, hj, rfl⟩ := List.getElem_of_mem hg'
      simp only [List.length_drop] at hj
      simp only [List.getElem_drop]
      have hj' : k' + 1 + j < segs.length := by omega
      by_cases hlast : k' + 1 < segs.length
      · have h1 := spec.2.2 hlast
        simp only [decide_eq_true_eq] at h1
        rw [getD_map_off _ _ hlast] at h1
        rcases Nat.eq_zero_or_pos j with hj0 | hjpos
        · subst hj0; simpa using h1
        · have := List.pairwise_iff_getElem.mp hmono (k' + 1) (k' + 1 + j) hlast hj' (by omega)
          omega
      · omega

/-- `segIndexOf = none` (Go: index `-1`, a panic) needs an empty snapshot or a first offset above `n` -/
theorem segIndexOf_none {segs : List PSeg} {n : Nat} (h : segIndexOf (segs.map (·.off)) n = none) :
    segs = [] ∨ ∃ g t, segs = g :: t ∧ n < g.off := by
  unfold segIndexOf at h
  cases hr : goSearch (segs.map (·.off)).length (fun x => decide (n < (segs.map (·.off)).getD x 0)) with
  | succ k => rw [hr] at h; cases h
  | zero =>
    cases segs with
    | nil => exact Or.inl rfl
    | cons g t =>
      right
      refine ⟨g, t, rfl, ?_⟩
      -- the loop ends at 0 only through `j = h` steps, i.e. f holds somewhere and hence (first true = 0) at 0
      have key : ∀ (k i j : Nat) (f : Nat → Bool), goSearchLoop f k i j = 0 → i = 0 := by
        intro k
        induction k with
        | zero => intro i j f h; simpa [goSearchLoop] using h
        | succ k ih =>
          intro i j f h
          unfold goSearchLoop at h
          by_cases hlt : i < j
          · simp only [hlt, ↓reduceIte] at h
            by_cases hf : f ((i + j) / 2) = true
            · simp only [hf, Bool.not_true, Bool.false_eq_true, ↓reduceIte] at h
              exact ih _ _ _ h
            · have hf' : f ((i + j) / 2) = false := by simpa using hf
              simp only [hf', Bool.not_false, ↓reduceIte] at h
              have := ih _ _ _ h
              omega
          · simpa [hlt] using h
      -- use the specification with the trivially monotone direction: result 0 < length, so f 0 holds
      -- provided f is monotone; we avoid monotonicity by a direct argument on the loop instead
      have key2 : ∀ (k i j : Nat) (f : Nat → Bool), i ≤ j → j - i ≤ k → (j < (g :: t).length → f j = true) →
          j ≤ (g :: t).length → goSearchLoop f k i j = 0 → f 0 = true := by
        intro k
        induction k with
        | zero =>
          intro i j f hij hk hj hjn h
          simp only [goSearchLoop] at h
          subst h
          have : j = 0 := by omega
          subst this
          exact hj (by simp)
        | succ k ih =>
          intro i j f hij hk hj hjn h
          unfold goSearchLoop at h
          by_cases hlt : i < j
          · simp only [hlt, ↓reduceIte] at h
            by_cases hf : f ((i + j) / 2) = true
            · simp only [hf, Bool.not_true, Bool.false_eq_true, ↓reduceIte] at h
              exact ih i ((i + j) / 2) f (by omega) (by omega) (fun _ => hf) (by omega) h
            · have hf' : f ((i + j) / 2) = false := by simpa using hf
              simp only [hf', Bool.not_false, ↓reduceIte] at h
              have := key _ _ _ _ h
              omega
          · simp only [hlt, ↓reduceIte] at h
            subst h
            have : j = 0 := by omega
            subst this
            exact hj (by simp)
      unfold goSearch at hr
      rw [List.length_map] at hr
      have := key2 (g :: t).length 0 (g :: t).length _ (Nat.zero_le _) (by omega) (by intro h; omega) (Nat.le_refl _) hr
      simpa using this

end Bluge.C07

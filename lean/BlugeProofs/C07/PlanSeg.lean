import BlugeProofs.C07.PostMk
/-! Plans whose leaves are the per-segment postings iterators of a snapshot. -/
namespace Bluge.C07
open Bluge.Search

/-- **the searcher tree of a well-formed plan, with every leaf instantiated by the multi-segment postings
iterator machine over the snapshot layout `sn`, drained by a collector, yields exactly the plan's set** -/
theorem plan_runSeg_eq_den {sn : SnapLayout} (hsn : offsetsOK 0 sn = true) {W : Nat} (p : Plan)
    (h : PlanOK sn.total W p) : p.runSeg sn W = p.den sn.total :=
  plan_runWith_eq_den postings_is_iter_aux (fun k _ hs hb => mk'_fresh hsn k hs hb) p h

theorem plan_exact_seg_aux {sn : SnapLayout} (hsn : offsetsOK 0 sn = true) {W : Nat} (p : Plan)
    (h : p.okB sn.total W = true) :
    p.runSeg sn W = p.den sn.total ∧ (p.runSeg sn W).Pairwise (· < ·) := by
  have hok := okB_sound p h
  have := plan_runSeg_eq_den hsn p hok
  exact ⟨this, this ▸ den_sorted p hok⟩

end Bluge.C07

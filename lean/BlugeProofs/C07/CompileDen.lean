import BlugeProofs.C07.Denote
/-! `compile_den`: the plan of a (well-formed, core) query denotes exactly `denote`. -/
namespace Bluge.C07
open Bluge.Search

theorem cnt_pos_of_mem {Ls : List (List Nat)} {x : Nat} {Li : List Nat} (h : Li ∈ Ls) (hx : x ∈ Li) : 1 ≤ cnt Ls x := by
  unfold cnt
  have : Li ∈ Ls.filter (fun Li => Li.contains x) := List.mem_filter.mpr ⟨h, by simpa using hx⟩
  exact List.length_pos_of_mem this

theorem accepts_of_regular {m : Matcher} (h : m.regular = true) (t : String) : m.acceptsImpl t = m.accepts t := by
  cases m with
  | pfx p => rfl
  | wild p => rfl
  | oneOf ts => rfl
  | range lo hi il ih =>
    cases lo <;> cases hi <;> cases ih <;> simp [Matcher.regular] at h <;> simp [Matcher.acceptsImpl, Matcher.accepts, h]

section
variable {idx : Index} {B : Nat}

theorem mem_dict {f t : String} : t ∈ dict idx f ↔ ∃ e ∈ idx, t ∈ e.2.fieldTerms f := by
  simp [dict, List.mem_eraseDups, List.mem_flatMap]

theorem mem_post {f t : String} {x : Nat} : x ∈ post idx f t ↔ ∃ d, (x, d) ∈ idx ∧ d.hasTerm f t = true := by
  simp only [post, List.mem_map, List.mem_filter]
  constructor
  · rintro ⟨⟨n, d⟩, ⟨hmem, hs⟩, rfl⟩; exact ⟨d, hmem, hs⟩
  · rintro ⟨d, hmem, hs⟩; exact ⟨(x, d), ⟨hmem, hs⟩, rfl⟩

theorem mem_numDict {f : String} {v : Int} : v ∈ numDict idx f ↔ ∃ e ∈ idx, v ∈ e.2.numsOf f := by
  simp [numDict, List.mem_eraseDups, List.mem_flatMap]

theorem mem_numPost {f : String} {v : Int} {x : Nat} :
    x ∈ numPost idx f v ↔ ∃ d, (x, d) ∈ idx ∧ (d.numsOf f).contains v = true := by
  simp only [numPost, List.mem_map, List.mem_filter]
  constructor
  · rintro ⟨⟨n, d⟩, ⟨hmem, hs⟩, rfl⟩; exact ⟨d, hmem, hs⟩
  · rintro ⟨d, hmem, hs⟩; exact ⟨(x, d), ⟨hmem, hs⟩, rfl⟩

theorem idx_bound (hwf : idx.WF B) {x : Nat} {d : Doc} (h : (x, d) ∈ idx) : x < B := hwf.2 _ h

/-- the generic shape: a union (disjunction with min 0) of posting lists indexed by accepted keys -/
theorem den_union (hwf : idx.WF B) {α : Type} (keys : List α) (postOf : α → List Nat) (q : Query)
    (hq : ∀ x, (∃ k ∈ keys, x ∈ postOf k) ↔ x ∈ denote idx q) :
    (Plan.disj (keys.map (fun k => Plan.leaf .postings (postOf k))) 0).den B = denote idx q := by
  apply sorted_ext
  · simp only [Plan.den, atLeast]; exact sorted_filter (sorted_range B) _
  · exact denote_sorted hwf q
  · intro x
    simp only [Plan.den, atLeast, List.mem_filter, List.mem_range, decide_eq_true_eq, List.map_map]
    have hLs : (keys.map ((fun p => Plan.den B p) ∘ fun k => Plan.leaf .postings (postOf k))) = keys.map postOf := by
      apply List.map_congr_left; intro k _; simp [Plan.den]
    rw [hLs]
    constructor
    · rintro ⟨_, hc⟩
      have h1 : 1 ≤ cnt (keys.map postOf) x := by unfold cnt; omega
      obtain ⟨Li, hLi, hx⟩ := cnt_pos h1
      obtain ⟨k, hk, rfl⟩ := List.mem_map.mp hLi
      exact (hq x).mp ⟨k, hk, hx⟩
    · intro hx
      obtain ⟨k, hk, hxk⟩ := (hq x).mpr hx
      obtain ⟨d, hd, _⟩ := mem_denote.mp hx
      refine ⟨idx_bound hwf hd, ?_⟩
      have := cnt_pos_of_mem (List.mem_map_of_mem (f := postOf) hk) hxk
      unfold cnt at this
      omega

theorem den_filterPlan (hwf : idx.WF B) (p : Doc → Bool) :
    (filterPlan idx p).den B = (idx.filter (fun e => p e.2)).map (·.1) := by
  apply sorted_ext
  · simp only [filterPlan, Plan.den]
    exact sorted_filter (by simpa [allDocs] using hwf.1) _
  · exact idx_sorted_filter hwf _
  · intro x
    simp only [filterPlan, Plan.den, List.mem_filter, List.contains_iff_mem, List.mem_map, allDocs]
    constructor
    · rintro ⟨_, h⟩; exact h
    · rintro ⟨e, he, rfl⟩
      exact ⟨⟨e, he.1, rfl⟩, ⟨e, he, rfl⟩⟩

theorem compile_term (f t : String) : compile idx (.term f t) = .leaf .postings (post idx f t) := by
  simp [compile]
theorem compile_all : compile idx .all = .leaf .all (allDocs idx) := by simp [compile]
theorem compile_none : compile idx .none = .leaf .postings [] := by simp [compile]
theorem compile_multi (f m) : compile idx (.multi f m) =
    .disj (((dict idx f).filter m.acceptsImpl).map (fun t => .leaf .postings (post idx f t))) 0 := by simp [compile]
theorem compile_numRange (f lo hi) : compile idx (.numRange f lo hi) =
    .disj (((numDict idx f).filter (fun v => decide (lo ≤ v) && decide (v ≤ hi))).map
      (fun v => .leaf .postings (numPost idx f v))) 0 := by simp [compile]
theorem compile_geoBox (f a b c d) : compile idx (.geoBox f a b c d) =
    filterPlan idx (fun doc => sat doc (.geoBox f a b c d)) := by simp [compile]
theorem compile_geoDist (f a b c) : compile idx (.geoDist f a b c) =
    filterPlan idx (fun doc => sat doc (.geoDist f a b c)) := by simp [compile]

theorem compile_phrase (f : String) (slop : Nat) (pos : List (List String)) :
    compile idx (.phrase f slop pos) =
      (if ((pos.filter (fun car => !(car.isEmpty || car == [""]))).map (phraseKid idx f)).isEmpty then .leaf .postings []
       else .phrase (.conj ((pos.filter (fun car => !(car.isEmpty || car == [""]))).map (phraseKid idx f)))
         ((idx.filter (fun e => findPaths (e.2.positions f) pos 0 [] slop)).map (·.1))) := by
  rw [compile]

/-- the searcher of one (real) phrase position matches the documents having one of its terms -/
theorem mem_den_phraseKid (hwf : idx.WF B) (f : String) {car : List String}
    (hreal : (!(car.isEmpty || car == [""])) = true) {x : Nat} {d : Doc} (hd : (x, d) ∈ idx) :
    x ∈ (phraseKid idx f car).den B ↔ car.any (fun t => t != "" && d.hasTerm f t) = true := by
  have hpost : ∀ t, x ∈ post idx f t ↔ d.hasTerm f t = true := by
    intro t
    rw [mem_post]
    constructor
    · rintro ⟨d', hd', h⟩; rw [idx_unique hwf hd hd']; exact h
    · intro h; exact ⟨d, hd, h⟩
  cases car with
  | nil => simp at hreal
  | cons t rest =>
    cases rest with
    | nil =>
      have ht : t ≠ "" := by
        intro h; subst h; simp at hreal
      simp [phraseKid, Plan.den, hpost, ht]
    | cons t2 rest =>
      simp only [phraseKid]
      have := den_union hwf (B := B) ((t :: t2 :: rest).filter (· != "")) (fun t => post idx f t)
        (.multi f (.oneOf ((t :: t2 :: rest).filter (· != "")))) (by
          intro y
          rw [mem_denote]
          constructor
          · rintro ⟨k, hk, hy⟩
            obtain ⟨d', hd', hterm⟩ := mem_post.mp hy
            refine ⟨d', hd', ?_⟩
            simp only [sat, List.any_eq_true]
            exact ⟨k, by simpa [Doc.hasTerm] using hterm, by simpa [Matcher.accepts] using hk⟩
          · rintro ⟨d', hd', hs⟩
            simp only [sat, List.any_eq_true] at hs
            obtain ⟨k, hk, hacc⟩ := hs
            exact ⟨k, by simpa [Matcher.accepts] using hacc, mem_post.mpr ⟨d', hd', by simpa [Doc.hasTerm] using hk⟩⟩)
      -- the disjunction has min 1, `den_union` is stated for min 0: same set (max min 1 = 1)
      have hsame : (Plan.disj (((t :: t2 :: rest).filter (· != "")).map (fun t => Plan.leaf .postings (post idx f t))) 1).den B =
          (Plan.disj (((t :: t2 :: rest).filter (· != "")).map (fun t => Plan.leaf .postings (post idx f t))) 0).den B := by
        simp [Plan.den]
      rw [hsame, this, mem_denote_iff hwf hd]
      simp only [sat, List.any_eq_true, Matcher.accepts, List.contains_iff_mem, List.mem_filter, bne_iff_ne, ne_eq,
        Bool.and_eq_true, decide_eq_true_eq]
      constructor
      · rintro ⟨k, hk, hk2⟩; exact ⟨k, hk2.1, hk2.2, by simpa [Doc.hasTerm] using hk⟩
      · rintro ⟨k, hk, hne, hterm⟩; exact ⟨k, by simpa [Doc.hasTerm] using hterm, hk, hne⟩

theorem sat_phrase (d : Doc) (f : String) (slop : Nat) (pos : List (List String)) :
    sat d (.phrase f slop pos) = phraseSat d f slop pos := by
  rw [sat]

theorem mem_den_conj_map {α : Type} (l : List α) (g : α → Plan) (x : Nat) :
    x ∈ (Plan.conj (l.map g)).den B ↔ x < B ∧ ∀ a ∈ l, x ∈ (g a).den B := by
  simp only [Plan.den, List.mem_filter, List.mem_range, List.all_eq_true, List.map_map, List.mem_map,
    Function.comp_apply, List.contains_iff_mem]
  constructor
  · rintro ⟨h1, h2⟩
    exact ⟨h1, fun a ha => by simpa using h2 _ ⟨a, ha, rfl⟩⟩
  · rintro ⟨h1, h2⟩
    refine ⟨h1, ?_⟩
    rintro Li ⟨a, ha, rfl⟩
    simpa using h2 a ha

theorem compile_den_phrase (hwf : idx.WF B) (f : String) (slop : Nat) (pos : List (List String)) :
    (compile idx (.phrase f slop pos)).den B = denote idx (.phrase f slop pos) := by
  rw [compile_phrase]
  by_cases hempty : (pos.filter (fun car => !(car.isEmpty || car == [""]))) = []
  · -- no real position: a conjunction of zero searchers never matches
    simp only [hempty, List.map_nil, List.isEmpty_nil, ↓reduceIte]
    have : ∀ e ∈ idx, sat e.2 (.phrase f slop pos) = false := by
      intro e _
      rw [sat_phrase]
      simp only [phraseSat, hempty, List.isEmpty_nil, Bool.not_true, Bool.false_and]
    simp only [Plan.den, denote]
    rw [List.filter_eq_nil_iff.mpr (by intro e he; simp [this e he])]
    rfl
  · have hne : ((pos.filter (fun car => !(car.isEmpty || car == [""]))).map (phraseKid idx f)).isEmpty = false := by
      cases hq : pos.filter (fun car => !(car.isEmpty || car == [""])) with
      | nil => exact absurd hq hempty
      | cons a t => simp
    simp only [hne, Bool.false_eq_true, ↓reduceIte]
    apply sorted_ext
    · simp only [Plan.den]; exact sorted_filter (sorted_filter (sorted_range B) _) _
    · exact denote_sorted hwf _
    · intro x
      have hphrase : ∀ (p : Plan) (ok : List Nat), x ∈ (Plan.phrase p ok).den B ↔ x ∈ p.den B ∧ x ∈ ok := by
        intro p ok; simp [Plan.den, List.mem_filter]
      rw [hphrase, mem_den_conj_map, mem_denote]
      constructor
      · rintro ⟨⟨hxB, hall⟩, hok⟩
        obtain ⟨e, he, hex⟩ := List.mem_map.mp hok
        obtain ⟨hmem, hfp⟩ := List.mem_filter.mp he
        obtain ⟨n, d⟩ := e
        simp only at hex hfp
        subst hex
        refine ⟨d, hmem, ?_⟩
        rw [sat_phrase]
        simp only [phraseSat, Bool.and_eq_true, Bool.not_eq_true', List.all_eq_true]
        refine ⟨⟨by simpa using hempty, ?_⟩, hfp⟩
        intro car hcar
        exact (mem_den_phraseKid hwf f (List.mem_filter.mp hcar).2 hmem).mp (hall car hcar)
      · rintro ⟨d, hd, hs⟩
        rw [sat_phrase] at hs
        simp only [phraseSat, Bool.and_eq_true, Bool.not_eq_true', List.all_eq_true] at hs
        obtain ⟨⟨_, hall⟩, hfp⟩ := hs
        refine ⟨⟨idx_bound hwf hd, ?_⟩, List.mem_map.mpr ⟨(x, d), List.mem_filter.mpr ⟨hd, hfp⟩, rfl⟩⟩
        intro car hcar
        exact (mem_den_phraseKid hwf f (List.mem_filter.mp hcar).2 hd).mpr (hall car hcar)

theorem compile_den_base (hwf : idx.WF B) (q : Query) (hnb : ∀ ms ss ns k, q ≠ .bool ms ss ns k)
    (hq : q.WF = true) : (compile idx q).den B = denote idx q := by
  cases q with
  | term f t => rw [compile_term]; simp [Plan.den, post, denote, sat]
  | all =>
    rw [compile_all]
    have : idx.filter (fun e => sat e.2 .all) = idx := by
      rw [List.filter_eq_self]; intro a _; simp [sat]
    simp [Plan.den, allDocs, denote, this]
  | none => rw [compile_none]; simp [Plan.den, denote, sat]
  | multi f m =>
    rw [compile_multi]
    have hreg : m.regular = true := by simpa [Query.WF] using hq
    apply den_union hwf
    intro x
    rw [mem_denote]
    constructor
    · rintro ⟨t, ht, hx⟩
      obtain ⟨d, hd, hterm⟩ := mem_post.mp hx
      refine ⟨d, hd, ?_⟩
      have hacc := (List.mem_filter.mp ht).2
      rw [accepts_of_regular hreg] at hacc
      simp only [sat, List.any_eq_true]
      exact ⟨t, by simpa [Doc.hasTerm] using hterm, hacc⟩
    · rintro ⟨d, hd, hs⟩
      simp only [sat, List.any_eq_true] at hs
      obtain ⟨t, ht, hacc⟩ := hs
      refine ⟨t, List.mem_filter.mpr ⟨mem_dict.mpr ⟨(x, d), hd, ht⟩, ?_⟩, mem_post.mpr ⟨d, hd, by simpa [Doc.hasTerm] using ht⟩⟩
      rw [accepts_of_regular hreg]; exact hacc
  | numRange f lo hi =>
    rw [compile_numRange]
    apply den_union hwf
    intro x
    rw [mem_denote]
    constructor
    · rintro ⟨v, hv, hx⟩
      obtain ⟨d, hd, hval⟩ := mem_numPost.mp hx
      refine ⟨d, hd, ?_⟩
      have hacc := (List.mem_filter.mp hv).2
      simp only [sat, List.any_eq_true]
      exact ⟨v, by simpa using hval, hacc⟩
    · rintro ⟨d, hd, hs⟩
      simp only [sat, List.any_eq_true] at hs
      obtain ⟨v, hv, hacc⟩ := hs
      exact ⟨v, List.mem_filter.mpr ⟨mem_numDict.mpr ⟨(x, d), hd, hv⟩, hacc⟩,
        mem_numPost.mpr ⟨d, hd, by simpa using hv⟩⟩
  | phrase f s p => exact compile_den_phrase hwf f s p
  | geoBox f a b c d => rw [compile_geoBox, den_filterPlan hwf]; rfl
  | geoDist f a b c => rw [compile_geoDist, den_filterPlan hwf]; rfl
  | bool ms ss ns k => exact absurd rfl (hnb ms ss ns k)

theorem compile_bool (ms ss ns : List Query) (k : Nat) :
    compile idx (.bool ms ss ns k) =
      (match (if ms.isEmpty then none else some (Plan.conj (ms.map (fun q => compile idx q)))),
             (if ss.isEmpty then none else some (Plan.disj (ss.map (fun q => compile idx q)) k)),
             (if ns.isEmpty then none else some (Plan.disj (ns.map (fun q => compile idx q)) 1)) with
       | none, none, none => .leaf .postings []
       | none, none, some n => .bool (some (.leaf .all (allDocs idx))) none (some n) 0
       | m, s, n => .bool m s n (if ss.isEmpty then 0 else k)) := by
  rw [compile]
  cases ms <;> cases ss <;> cases ns <;> rfl

theorem mem_den_conj_compile {qs : List Query} (ih : ∀ q ∈ qs, (compile idx q).den B = denote idx q) (x : Nat) :
    x ∈ (Plan.conj (qs.map (fun q => compile idx q))).den B ↔ x < B ∧ ∀ Li ∈ qs.map (denote idx), x ∈ Li := by
  simp only [Plan.den, List.mem_filter, List.mem_range, List.all_eq_true, List.mem_map, forall_exists_index, and_imp,
    forall_apply_eq_imp_iff₂, List.contains_iff_mem]
  constructor
  · rintro ⟨h1, h2⟩; exact ⟨h1, fun q hq => by rw [← ih q hq]; exact h2 q hq⟩
  · rintro ⟨h1, h2⟩; exact ⟨h1, fun q hq => by rw [ih q hq]; exact h2 q hq⟩

theorem mem_den_disj_compile {qs : List Query} (ih : ∀ q ∈ qs, (compile idx q).den B = denote idx q) (k x : Nat) :
    x ∈ (Plan.disj (qs.map (fun q => compile idx q)) k).den B ↔ x < B ∧ max k 1 ≤ cnt (qs.map (denote idx)) x := by
  have hmap : (qs.map (fun q => compile idx q)).map (fun p => p.den B) = qs.map (denote idx) := by
    rw [List.map_map]; apply List.map_congr_left; intro q hq; exact ih q hq
  simp only [Plan.den, atLeast, List.mem_filter, List.mem_range, decide_eq_true_eq, hmap, cnt]

theorem wf_bool (ms ss ns : List Query) (k : Nat) :
    (Query.bool ms ss ns k).WF =
      ((!ms.isEmpty || !ss.isEmpty || !ns.isEmpty) && (!ss.isEmpty || k == 0) &&
       (ms.map (fun q => q.WF)).all id && (ss.map (fun q => q.WF)).all id && (ns.map (fun q => q.WF)).all id) := by
  rw [Query.WF]

theorem sat_bool (d : Doc) (ms ss ns : List Query) (k : Nat) :
    sat d (.bool ms ss ns k) =
      ((ms.map (fun q => sat d q)).all id && !((ns.map (fun q => sat d q)).any id) &&
       decide (need ms ss k ≤ ((ss.map (fun q => sat d q)).filter id).length)) := by
  rw [sat]

/-- membership of the should part, as the spec counts it -/
theorem should_count {k c : Nat} (hne : 1 ≤ c ∨ True) : (k = 0 ∨ max k 1 ≤ c) ↔ k ≤ c := by
  omega

theorem bmem_ssn (M S N : List Nat) (k x : Nat) :
    BMem (some M) (some S) (some N) k x ↔ x ∈ M ∧ x ∉ N ∧ (k = 0 ∨ x ∈ S) := by simp [BMem, DrvMem]
theorem bmem_ss (M S : List Nat) (k x : Nat) :
    BMem (some M) (some S) none k x ↔ x ∈ M ∧ (k = 0 ∨ x ∈ S) := by simp [BMem, DrvMem]
theorem bmem_sn (M N : List Nat) (k x : Nat) :
    BMem (some M) none (some N) k x ↔ x ∈ M ∧ x ∉ N := by simp [BMem, DrvMem]
theorem bmem_s (M : List Nat) (k x : Nat) : BMem (some M) none none k x ↔ x ∈ M := by simp [BMem, DrvMem]
theorem bmem_shn (S N : List Nat) (k x : Nat) :
    BMem none (some S) (some N) k x ↔ x ∈ S ∧ x ∉ N := by simp [BMem, DrvMem]
theorem bmem_sh (S : List Nat) (k x : Nat) : BMem none (some S) none k x ↔ x ∈ S := by simp [BMem, DrvMem]

theorem compile_den (hwf : idx.WF B) :
    ∀ q : Query, q.WF = true → (compile idx q).den B = denote idx q := by
  intro q
  induction q using Query.ind with
  | hbase q hnb => intro hq; exact compile_den_base hwf q hnb hq
  | hbool ms ss ns k ihm ihs ihn =>
    intro hq
    rw [wf_bool] at hq
    simp only [Bool.and_eq_true, Bool.or_eq_true, Bool.not_eq_true', List.all_eq_true, List.mem_map, id_eq,
      forall_exists_index, and_imp, forall_apply_eq_imp_iff₂, beq_iff_eq] at hq
    obtain ⟨⟨⟨⟨hne, hk⟩, hwm⟩, hws⟩, hwn⟩ := hq
    have ihm' : ∀ q ∈ ms, (compile idx q).den B = denote idx q := fun q hq => ihm q hq (hwm q hq)
    have ihs' : ∀ q ∈ ss, (compile idx q).den B = denote idx q := fun q hq => ihs q hq (hws q hq)
    have ihn' : ∀ q ∈ ns, (compile idx q).den B = denote idx q := fun q hq => ihn q hq (hwn q hq)
    have hmm := mem_den_conj_compile (B := B) ihm'
    have hms := fun k => mem_den_disj_compile (B := B) ihs' k
    have hmn := mem_den_disj_compile (B := B) ihn' 1
    apply sorted_ext
    · -- the compiled plan's set is sorted
      rw [compile_bool]
      cases ms with
      | nil =>
        cases ss with
        | nil =>
          cases ns with
          | nil => simp at hne
          | cons n0 nt =>
            simp only [List.isEmpty_nil, ↓reduceIte, List.isEmpty_cons, Bool.false_eq_true]
            rw [den_bool]
            exact sorted_filter (by simpa [Plan.den, allDocs] using hwf.1) _
        | cons s0 st =>
          cases ns <;> simp only [List.isEmpty_nil, ↓reduceIte, List.isEmpty_cons, Bool.false_eq_true] <;>
            rw [den_bool] <;> apply sorted_filter <;> simp only [Plan.den, atLeast] <;>
            exact sorted_filter (sorted_range B) _
      | cons m0 mt =>
        cases ss <;> cases ns <;> simp only [List.isEmpty_nil, ↓reduceIte, List.isEmpty_cons, Bool.false_eq_true] <;>
          rw [den_bool] <;> apply sorted_filter <;> simp only [Plan.den] <;>
          exact sorted_filter (sorted_range B) _
    · exact denote_sorted hwf _
    · intro x
      rw [mem_denote, compile_bool]
      -- per-document facts
      have facts : ∀ d, (x, d) ∈ idx →
          ((∀ Li ∈ ms.map (denote idx), x ∈ Li) ↔ (ms.map (fun q => sat d q)).all id = true) ∧
          (cnt (ss.map (denote idx)) x = ((ss.map (fun q => sat d q)).filter id).length) ∧
          ((1 ≤ cnt (ns.map (denote idx)) x) ↔ (ns.map (fun q => sat d q)).any id = true) ∧ x < B :=
        fun d hd => ⟨all_denote hwf hd ms, cnt_denote hwf hd ss, any_denote hwf hd ns, idx_bound hwf hd⟩
      cases ms with
      | nil =>
        cases ss with
        | nil =>
          cases ns with
          | nil => simp at hne
          | cons n0 nt =>
            have hk0 : k = 0 := by simpa using hk
            subst hk0
            simp only [List.isEmpty_nil, ↓reduceIte, List.isEmpty_cons, Bool.false_eq_true]
            have hden : (Plan.leaf LeafKind.all (allDocs idx)).den B = allDocs idx := by simp [Plan.den]
            rw [mem_den_bool]
            simp only [Option.map_some, Option.map_none]
            rw [bmem_sn, hden, mem_allDocs]
            constructor
            · rintro ⟨⟨d, hd⟩, hnot⟩
              obtain ⟨_, _, f3, f4⟩ := facts d hd
              refine ⟨d, hd, ?_⟩
              rw [sat_bool]
              have hany : (List.map (fun q => sat d q) (n0 :: nt)).any id = false := by
                rw [Bool.eq_false_iff]
                intro h
                exact hnot ((hmn x).mpr ⟨f4, by have := f3.mpr h; omega⟩)
              rw [hany]
              simp [need]
            · rintro ⟨d, hd, hs⟩
              obtain ⟨_, _, f3, f4⟩ := facts d hd
              refine ⟨⟨d, hd⟩, ?_⟩
              intro hin
              have h1 := ((hmn x).mp hin).2
              have := f3.mp (by omega)
              rw [sat_bool] at hs
              simp only [Bool.and_eq_true, Bool.not_eq_true'] at hs
              rw [hs.1.2] at this
              cases this
        | cons s0 st =>
          -- should-only: need = max 1 k
          have hneed : need [] (s0 :: st) k = max 1 k := by simp [need]
          have hcore : ∀ x, x ∈ (Plan.bool none (some (Plan.disj ((s0 :: st).map (fun q => compile idx q)) k))
                (if ns.isEmpty then none else some (Plan.disj (ns.map (fun q => compile idx q)) 1)) k).den B ↔
              (x < B ∧ max k 1 ≤ cnt ((s0 :: st).map (denote idx)) x) ∧ ¬ (1 ≤ cnt (ns.map (denote idx)) x) := by
            intro x
            rw [mem_den_bool]
            cases ns with
            | nil =>
              simp only [List.isEmpty_nil, ↓reduceIte, Option.map_some, Option.map_none]
              rw [bmem_sh, hms]
              have hc0 : ¬ (1 ≤ cnt (([] : List Query).map (denote idx)) x) := by simp [cnt]
              exact ⟨fun h => ⟨h, hc0⟩, fun h => h.1⟩
            | cons n0 nt =>
              simp only [List.isEmpty_cons, Bool.false_eq_true, ↓reduceIte, Option.map_some, Option.map_none]
              rw [bmem_shn, hms, hmn]
              constructor
              · rintro ⟨h1, h2⟩; exact ⟨h1, fun h => h2 ⟨h1.1, by omega⟩⟩
              · rintro ⟨h1, h2⟩; exact ⟨h1, fun h => h2 (by omega)⟩
          have : (match (if ([] : List Query).isEmpty then (none : Option Plan) else some (Plan.conj (([] : List Query).map (fun q => compile idx q)))),
              (if (s0 :: st).isEmpty then none else some (Plan.disj ((s0 :: st).map (fun q => compile idx q)) k)),
              (if ns.isEmpty then none else some (Plan.disj (ns.map (fun q => compile idx q)) 1)) with
            | none, none, none => Plan.leaf LeafKind.postings []
            | none, none, some n => Plan.bool (some (Plan.leaf LeafKind.all (allDocs idx))) none (some n) 0
            | m, s, n => Plan.bool m s n (if (s0 :: st).isEmpty then 0 else k)) =
              Plan.bool none (some (Plan.disj ((s0 :: st).map (fun q => compile idx q)) k))
                (if ns.isEmpty then none else some (Plan.disj (ns.map (fun q => compile idx q)) 1)) k := by
            cases ns <;> rfl
          rw [this, hcore]
          constructor
          · rintro ⟨⟨hB, hc⟩, hnot⟩
            have h1 : 1 ≤ cnt ((s0 :: st).map (denote idx)) x := by omega
            obtain ⟨Li, hLi, hx⟩ := cnt_pos h1
            obtain ⟨q, _, rfl⟩ := List.mem_map.mp hLi
            obtain ⟨d, hd, _⟩ := mem_denote.mp hx
            obtain ⟨_, f2, f3, _⟩ := facts d hd
            refine ⟨d, hd, ?_⟩
            rw [sat_bool, hneed]
            have hany : (List.map (fun q => sat d q) ns).any id = false := by
              rw [Bool.eq_false_iff]; intro h; exact hnot (f3.mpr h)
            rw [f2] at hc
            simp only [List.map_nil, List.all_nil, hany, Bool.not_false, Bool.and_self, Bool.true_and, decide_eq_true_eq]
            omega
          · rintro ⟨d, hd, hs⟩
            obtain ⟨_, f2, f3, f4⟩ := facts d hd
            rw [sat_bool, hneed] at hs
            simp only [List.map_nil, List.all_nil, Bool.true_and, Bool.and_eq_true, Bool.not_eq_true',
              decide_eq_true_eq] at hs
            refine ⟨⟨f4, by rw [f2]; omega⟩, ?_⟩
            intro h
            have := f3.mp h
            rw [hs.1] at this
            cases this
      | cons m0 mt =>
        have hneed : need (m0 :: mt) ss k = k := by simp [need]
        have hcore : ∀ x, x ∈ (Plan.bool (some (Plan.conj ((m0 :: mt).map (fun q => compile idx q))))
              (if ss.isEmpty then none else some (Plan.disj (ss.map (fun q => compile idx q)) k))
              (if ns.isEmpty then none else some (Plan.disj (ns.map (fun q => compile idx q)) 1))
              (if ss.isEmpty then 0 else k)).den B ↔
            (x < B ∧ ∀ Li ∈ (m0 :: mt).map (denote idx), x ∈ Li) ∧ ¬ (1 ≤ cnt (ns.map (denote idx)) x) ∧
            k ≤ cnt (ss.map (denote idx)) x := by
          intro x
          rw [mem_den_bool]
          have hc0 : ¬ (1 ≤ cnt (([] : List Query).map (denote idx)) x) := by simp [cnt]
          cases ss with
          | nil =>
            have hk0 : k = 0 := by simpa using hk
            subst hk0
            cases ns with
            | nil =>
              simp only [List.isEmpty_nil, ↓reduceIte, Option.map_some, Option.map_none]
              rw [bmem_s, hmm]
              exact ⟨fun h => ⟨h, hc0, Nat.zero_le _⟩, fun h => h.1⟩
            | cons n0 nt =>
              simp only [List.isEmpty_nil, List.isEmpty_cons, Bool.false_eq_true, ↓reduceIte, Option.map_some, Option.map_none]
              rw [bmem_sn, hmm, hmn]
              constructor
              · rintro ⟨h1, h2⟩; exact ⟨h1, fun h => h2 ⟨h1.1, by omega⟩, Nat.zero_le _⟩
              · rintro ⟨h1, h2, _⟩; exact ⟨h1, fun h => h2 (by omega)⟩
          | cons s0 st =>
            cases ns with
            | nil =>
              simp only [List.isEmpty_nil, List.isEmpty_cons, Bool.false_eq_true, ↓reduceIte, Option.map_some, Option.map_none]
              rw [bmem_ss, hmm, hms]
              constructor
              · rintro ⟨h1, h2⟩
                refine ⟨h1, hc0, ?_⟩
                rcases h2 with h | h
                · omega
                · have := h.2; omega
              · rintro ⟨h1, _, h3⟩
                refine ⟨h1, ?_⟩
                by_cases hk0 : k = 0
                · exact Or.inl hk0
                · exact Or.inr ⟨h1.1, by omega⟩
            | cons n0 nt =>
              simp only [List.isEmpty_cons, Bool.false_eq_true, ↓reduceIte, Option.map_some]
              rw [bmem_ssn, hmm, hms, hmn]
              constructor
              · rintro ⟨h1, h2, h3⟩
                refine ⟨h1, fun h => h2 ⟨h1.1, by omega⟩, ?_⟩
                rcases h3 with h | h
                · omega
                · have := h.2; omega
              · rintro ⟨h1, h2, h3⟩
                refine ⟨h1, fun h => h2 (by omega), ?_⟩
                by_cases hk0 : k = 0
                · exact Or.inl hk0
                · exact Or.inr ⟨h1.1, by omega⟩
        have : (match (if (m0 :: mt).isEmpty then (none : Option Plan) else some (Plan.conj ((m0 :: mt).map (fun q => compile idx q)))),
            (if ss.isEmpty then none else some (Plan.disj (ss.map (fun q => compile idx q)) k)),
            (if ns.isEmpty then none else some (Plan.disj (ns.map (fun q => compile idx q)) 1)) with
          | none, none, none => Plan.leaf LeafKind.postings []
          | none, none, some n => Plan.bool (some (Plan.leaf LeafKind.all (allDocs idx))) none (some n) 0
          | m, s, n => Plan.bool m s n (if ss.isEmpty then 0 else k)) =
            Plan.bool (some (Plan.conj ((m0 :: mt).map (fun q => compile idx q))))
              (if ss.isEmpty then none else some (Plan.disj (ss.map (fun q => compile idx q)) k))
              (if ns.isEmpty then none else some (Plan.disj (ns.map (fun q => compile idx q)) 1))
              (if ss.isEmpty then 0 else k) := by
          cases ss <;> cases ns <;> rfl
        rw [this, hcore]
        constructor
        · rintro ⟨⟨hB, hall⟩, hnot, hc⟩
          have hx0 := hall (denote idx m0) (by simp)
          obtain ⟨d, hd, _⟩ := mem_denote.mp hx0
          obtain ⟨f1, f2, f3, _⟩ := facts d hd
          refine ⟨d, hd, ?_⟩
          rw [sat_bool, hneed]
          have hany : (List.map (fun q => sat d q) ns).any id = false := by
            rw [Bool.eq_false_iff]; intro h; exact hnot (f3.mpr h)
          rw [f2] at hc
          simp only [f1.mp hall, hany, Bool.not_false, Bool.and_self, Bool.true_and, decide_eq_true_eq]
          exact hc
        · rintro ⟨d, hd, hs⟩
          obtain ⟨f1, f2, f3, f4⟩ := facts d hd
          rw [sat_bool, hneed] at hs
          simp only [Bool.and_eq_true, Bool.not_eq_true', decide_eq_true_eq] at hs
          refine ⟨⟨f4, f1.mpr hs.1.1⟩, ?_, by rw [f2]; exact hs.2⟩
          intro h
          have := f3.mp h
          rw [hs.1.2] at this
          cases this

end
end Bluge.C07

import BlugeProofs.C07.Conj
/-! The leap-frog loops of `ConjunctionSearcher.Next`, exact mode (with the fuel bound) and sound mode. -/
namespace Bluge.C07
open Bluge.Search

section
variable {ι : Type} {cs : Step ι} {RelK : List Nat → ι → Phase → Prop} {L : List Nat} {B : Nat}
variable (hK : ∀ Li, IsIter cs (RelK Li) Li)

theorem advChild_eq {s : Conj ι} {i : Nat} {k : ι} (h : s.kids[i]? = some k) (n : Nat) :
    Conj.advChild cs s i n =
      { s with kids := s.kids.set i (cs k (.adv n)).2, currs := s.currs.set i (cs k (.adv n)).1 } := by
  simp [Conj.advChild, callKid, h]

include hK in
theorem advPrefix_exact {Ls} {s : Conj ι} {lb m x : Nat}
    (hall : AllK (CKOk RelK L B lb) Ls s.kids s.currs) (hmx : m < x) (hlx : lb ≤ x)
    (hx : ∀ t ∈ L, lb ≤ t → x ≤ t) :
    ∀ i, (∀ j, j < i → s.currs[j]? = some (some m)) →
      (Conj.advPrefix cs s x i).init = s.init ∧
      AllK (CKOk RelK L B lb) Ls (Conj.advPrefix cs s x i).kids (Conj.advPrefix cs s x i).currs ∧
      (∀ j, i ≤ j → (Conj.advPrefix cs s x i).currs[j]? = s.currs[j]?) ∧
      pot B (Conj.advPrefix cs s x i).currs ≤ pot B s.currs := by
  intro i
  induction i with
  | zero => intro _; exact ⟨rfl, hall, fun _ _ => rfl, Nat.le_refl _⟩
  | succ i ih =>
    intro hpre
    obtain ⟨h1, h2, h3, h4⟩ := ih (fun j hj => hpre j (by omega))
    have hci : (Conj.advPrefix cs s x i).currs[i]? = some (some m) := by
      rw [h3 i (Nat.le_refl _)]; exact hpre i (by omega)
    obtain ⟨Li, k, hLi, hk, hP⟩ := h2.get_curr hci
    have hadv := ck_adv hK hP hmx hlx hx
    simp only [Conj.advPrefix]
    rw [advChild_eq hk]
    refine ⟨h1, h2.set i Li _ _ hLi hadv.1, ?_, ?_⟩
    · intro j hj
      simp only
      rw [List.getElem?_set_ne (by omega)]
      exact h3 j (by omega)
    · simp only
      have hxB : m < B := by
        obtain ⟨hsub, hm, _⟩ := hP
        exact hsub.2 m hm
      have := pot_set_lt (B := B) hci hxB (c' := (cs k (.adv x)).1)
        (by intro x' hx'; have := hadv.2 x' hx'; omega)
      omega

/-- the conclusion of an exact call -/
def ConjGoal (RelK : List Nat → ι → Phase → Prop) (L : List Nat) (B : Nat) (Ls : List (List Nat)) (lb : Nat)
    (r : Resp × Conj ι) : Prop :=
  IsFirstGE L lb r.1 ∧ ConjRel RelK L B Ls r.2 (after r.1)

include hK in
theorem conj_exact_aux {Ls : List (List Nat)} (hL : ∀ x, x ∈ L ↔ ∀ Li ∈ Ls, x ∈ Li) :
    ∀ f,
    (∀ (s : Conj ι) (lb : Nat), s.init = true → s.maxIdx < Ls.length →
      AllK (CKOk RelK L B lb) Ls s.kids s.currs →
      (∀ m, s.currs[s.maxIdx]? = some (some m) →
        (B - m) * (Ls.length + 2) + pot B s.currs + Ls.length + 2 ≤ f) →
      ConjGoal RelK L B Ls lb (Conj.outer cs f s)) ∧
    (∀ (s : Conj ι) (lb m i : Nat), s.init = true → s.maxIdx < Ls.length →
      AllK (CKOk RelK L B lb) Ls s.kids s.currs →
      s.currs[s.maxIdx]? = some (some m) → (∀ j, j < i → s.currs[j]? = some (some m)) → i ≤ Ls.length →
      (B - m) * (Ls.length + 2) + pot B s.currs + (Ls.length - i) + 1 ≤ f →
      ConjGoal RelK L B Ls lb (Conj.inner cs f s m i)) := by
  intro f
  induction f with
  | zero =>
    constructor
    · intro s lb hinit hmax hall hfuel
      have hlen := hall.len_currs
      obtain ⟨Li, k, c, hLi, hk, hc, hP⟩ := hall.get s.maxIdx hmax
      cases c with
      | some m => have := hfuel m hc; omega
      | none =>
        rw [Conj.outer]
        exact ⟨hP.2.2, hinit, hmax, hall.mono (fun _ _ _ h => cksnd_mono (Nat.zero_le _) (ck_to_snd h))⟩
    · intro s lb m i _ _ _ _ _ _ hfuel; omega
  | succ f ih =>
    obtain ⟨ihO, ihI⟩ := ih
    constructor
    · -- outer
      intro s lb hinit hmax hall hfuel
      have hlen := hall.len_currs
      obtain ⟨Li, k, c, hLi, hk, hc, hP⟩ := hall.get s.maxIdx hmax
      rw [Conj.outer]
      have hgd : s.currs.getD s.maxIdx none = c := by simp [List.getD_eq_getElem?_getD, hc]
      rw [hgd]
      cases c with
      | none =>
        exact ⟨hP.2.2, hinit, hmax, hall.mono (fun _ _ _ h => cksnd_mono (Nat.zero_le _) (ck_to_snd h))⟩
      | some m =>
        have := hfuel m hc
        exact ihI s lb m 0 hinit hmax hall hc (by intro j hj; omega) (Nat.zero_le _) (by omega)
    · -- inner
      intro s lb m i hinit hmax hall hcm hpre hi hfuel
      have hlen := hall.len_currs
      -- facts from the max child
      obtain ⟨Lm, km, hLm, hkm, hPm⟩ := hall.get_curr hcm
      have hlbm : lb ≤ m := hPm.2.2.1
      have hmmin : ∀ t ∈ L, lb ≤ t → m ≤ t := hPm.2.2.2.1
      have hmB : m < B := hPm.1.2 m hPm.2.1
      rw [Conj.inner]
      by_cases hdone : s.currs.length ≤ i
      · -- a doc matched all readers
        simp only [hdone, ↓reduceIte]
        have hall' := hall.with_curr (fun c => c = some m)
          (fun j c hc => by
            have hj : j < s.currs.length := (List.getElem?_eq_some_iff.mp hc).1
            have := hpre j (by omega)
            rw [hc] at this; injection this)
        have hmem : ∀ Li ∈ Ls, m ∈ Li := by
          intro Li hLi
          obtain ⟨k, c, hc, hP⟩ := hall'.forall_mem Li hLi
          subst hc; exact hP.2.1
        have hmL : m ∈ L := (hL m).mpr hmem
        refine ⟨⟨hmL, hlbm, hmmin⟩, hinit, hmax, ?_⟩
        simp only [after]
        exact nextAll_spec cs (fun Li k c h => by
          obtain ⟨hc, hP⟩ := h; subst hc; exact ck_next hK hP hmL) hall'
      · simp only [hdone, ↓reduceIte]
        have hil : i < Ls.length := by omega
        obtain ⟨Li, k, c, hLi, hk, hc, hP⟩ := hall.get i hil
        have hgd : s.currs.getD i none = c := by simp [List.getD_eq_getElem?_getD, hc]
        rw [hgd]
        cases c with
        | none =>
          exact ⟨hP.2.2, hinit, hmax, hall.mono (fun _ _ _ h => cksnd_mono (Nat.zero_le _) (ck_to_snd h))⟩
        | some x =>
          simp only
          by_cases him : i = s.maxIdx
          · simp only [him, ↓reduceIte]
            refine ihI s lb m (s.maxIdx + 1) hinit hmax hall hcm ?_ (by omega) (by omega)
            intro j hj
            by_cases hj' : j = s.maxIdx
            · rw [hj']; exact hcm
            · exact hpre j (by omega)
          · simp only [him, ↓reduceIte]
            by_cases hmx : m = x
            · simp only [hmx, ↓reduceIte]
              subst hmx
              refine ihI s lb m (i + 1) hinit hmax hall hcm ?_ (by omega) (by omega)
              intro j hj
              by_cases hj' : j = i
              · rw [hj']; exact hc
              · exact hpre j (by omega)
            · simp only [hmx, ↓reduceIte]
              by_cases hlt : m < x
              · -- new max: advance the prefix, continue OUTER
                simp only [hlt, ↓reduceIte]
                have hxB : x < B := hP.1.2 x hP.2.1
                obtain ⟨a1, a2, a3, a4⟩ := advPrefix_exact hK hall hlt hP.2.2.1 hP.2.2.2.1 i hpre
                have hci' : (Conj.advPrefix cs s x i).currs[i]? = some (some x) := by
                  rw [a3 i (Nat.le_refl _)]; exact hc
                refine ihO _ lb (by simpa using a1 ▸ hinit) (by simpa using hil) (by simpa using a2) ?_
                intro m' hm'
                simp only at hm'
                rw [hci'] at hm'
                injection hm' with hm'; injection hm' with hm'; subst hm'
                simp only
                have h1 : (B - x + 1) * (Ls.length + 2) ≤ (B - m) * (Ls.length + 2) :=
                  Nat.mul_le_mul_right _ (by omega)
                rw [Nat.add_mul, Nat.one_mul] at h1
                omega
              · -- behind: advance this child, look at it again
                simp only [hlt, ↓reduceIte]
                have hxm : x < m := by omega
                have hadv := ck_adv hK hP hxm hlbm hmmin
                rw [advChild_eq hk]
                have hpot := pot_set_lt (B := B) hc (hP.1.2 x hP.2.1) (c' := (cs k (.adv m)).1)
                  (by intro x' hx'; have := hadv.2 x' hx'; omega)
                refine ihI _ lb m i hinit hmax (hall.set i Li _ _ hLi hadv.1) ?_ ?_ hi ?_
                · simp only; rw [List.getElem?_set_ne him]; exact hcm
                · intro j hj; simp only; rw [List.getElem?_set_ne (by omega)]; exact hpre j hj
                · simp only; omega

end
end Bluge.C07

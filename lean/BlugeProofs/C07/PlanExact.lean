import BlugeProofs.C07.Tree
/-! Plans: the searcher tree built from a well-formed plan enumerates exactly the plan's set expression. -/
namespace Bluge.C07
open Bluge.Search

/-- structural induction on plans -/
theorem Plan.ind {P : Plan → Prop}
    (hleaf : ∀ k l, P (.leaf k l))
    (hconj : ∀ ps, (∀ p ∈ ps, P p) → P (.conj ps))
    (hdisj : ∀ ps min, (∀ p ∈ ps, P p) → P (.disj ps min))
    (hbool : ∀ m s n k, (∀ p, m = some p → P p) → (∀ p, s = some p → P p) → (∀ p, n = some p → P p) → P (.bool m s n k))
    (hfilt : ∀ p acc, P p → P (.filt p acc))
    (hphrase : ∀ p ok, P p → P (.phrase p ok)) :
    ∀ p, P p
  | .leaf k l => hleaf k l
  | .conj ps => hconj ps (fun p _ => Plan.ind hleaf hconj hdisj hbool hfilt hphrase p)
  | .disj ps min => hdisj ps min (fun p _ => Plan.ind hleaf hconj hdisj hbool hfilt hphrase p)
  | .bool m s n k => hbool m s n k
      (fun p _ => Plan.ind hleaf hconj hdisj hbool hfilt hphrase p)
      (fun p _ => Plan.ind hleaf hconj hdisj hbool hfilt hphrase p)
      (fun p _ => Plan.ind hleaf hconj hdisj hbool hfilt hphrase p)
  | .filt p acc => hfilt p acc (Plan.ind hleaf hconj hdisj hbool hfilt hphrase p)
  | .phrase p ok => hphrase p ok (Plan.ind hleaf hconj hdisj hbool hfilt hphrase p)
termination_by p => sizeOf p
decreasing_by
  all_goals simp_wf
  all_goals first
    | (have := List.sizeOf_lt_of_mem ‹_ ∈ _›; omega)
    | (subst_vars; simp; omega)
    | omega

/-- well-formed plans: sorted bounded leaves, non-empty conjunctions of width ≤ W, a boolean has a must or a should -/
inductive PlanOK (B W : Nat) : Plan → Prop
  | leaf {k l} : Sorted l → (∀ x ∈ l, x < B) → PlanOK B W (.leaf k l)
  | conj {ps} : ps ≠ [] → ps.length ≤ W → (∀ p ∈ ps, PlanOK B W p) → PlanOK B W (.conj ps)
  | disj {ps min} : (∀ p ∈ ps, PlanOK B W p) → PlanOK B W (.disj ps min)
  | bool {m s n smin} : (∀ p, m = some p → PlanOK B W p) → (∀ p, s = some p → PlanOK B W p) →
      (∀ p, n = some p → PlanOK B W p) → (m.isSome ∨ s.isSome) → PlanOK B W (.bool m s n smin)
  | filt {p acc} : PlanOK B W p → PlanOK B W (.filt p acc)
  | phrase {p ok} : PlanOK B W p → PlanOK B W (.phrase p ok)

theorem den_bool (B : Nat) (m s n : Option Plan) (k : Nat) :
    (Plan.bool m s n k).den B =
      ((match m with
        | some m => m.den B
        | none => match s with | some s => s.den B | none => []).filter (fun x =>
        (match n with | some n => !(n.den B).contains x | none => true) &&
        (match m, s with
         | some _, some s => k == 0 || (s.den B).contains x
         | _, _ => true))) := by
  cases m <;> cases s <;> cases n <;> simp [Plan.den]

theorem mem_den_bool (B : Nat) (m s n : Option Plan) (k : Nat) (x : Nat) :
    x ∈ (Plan.bool m s n k).den B ↔
      BMem (m.map (fun p => p.den B)) (s.map (fun p => p.den B)) (n.map (fun p => p.den B)) k x := by
  rw [den_bool]
  cases m <;> cases s <;> cases n <;> simp [BMem, DrvMem, List.mem_filter]

theorem sorted_range (B : Nat) : Sorted (List.range B) := by
  unfold Sorted
  rw [List.range_eq_range']
  exact List.pairwise_lt_range'

theorem sorted_filter {L : List Nat} (h : Sorted L) (p : Nat → Bool) : Sorted (L.filter p) :=
  List.Pairwise.sublist (List.filter_sublist) h

theorem den_bound {B W : Nat} : ∀ p, PlanOK B W p → ∀ x ∈ p.den B, x < B := by
  intro p
  induction p using Plan.ind with
  | hleaf k l => intro h; cases h with | leaf _ hb => simpa [Plan.den] using hb
  | hconj ps _ =>
    intro _ x hx
    simp only [Plan.den] at hx
    have := (List.mem_filter.mp hx).1
    simpa using this
  | hdisj ps min _ =>
    intro _ x hx
    simp only [Plan.den, atLeast] at hx
    have := (List.mem_filter.mp hx).1
    simpa using this
  | hbool m s n k ihm ihs _ =>
    intro h x hx
    cases h with
    | bool hm hs hn hsome =>
    rw [den_bool] at hx
    have hc := (List.mem_filter.mp hx).1
    cases m with
    | some pm => exact ihm pm rfl (hm pm rfl) x hc
    | none =>
      cases s with
      | some ps => exact ihs ps rfl (hs ps rfl) x hc
      | none => simp at hc
  | hfilt p acc ih =>
    intro h x hx
    cases h with
    | filt hp =>
    simp only [Plan.den] at hx
    exact ih hp x (List.mem_filter.mp hx).1
  | hphrase p ok ih =>
    intro h x hx
    cases h with
    | phrase hp =>
    simp only [Plan.den] at hx
    exact ih hp x (List.mem_filter.mp hx).1

theorem den_sorted {B W : Nat} : ∀ p, PlanOK B W p → Sorted (p.den B) := by
  intro p
  induction p using Plan.ind with
  | hleaf k l => intro h; cases h with | leaf hs _ => simpa [Plan.den] using hs
  | hconj ps _ => intro _; simp only [Plan.den]; exact sorted_filter (sorted_range B) _
  | hdisj ps min _ => intro _; simp only [Plan.den, atLeast]; exact sorted_filter (sorted_range B) _
  | hbool m s n k ihm ihs _ =>
    intro h
    cases h with
    | bool hm hs hn hsome =>
    rw [den_bool]
    apply sorted_filter
    cases m with
    | some pm => exact ihm pm rfl (hm pm rfl)
    | none =>
      cases s with
      | some ps => exact ihs ps rfl (hs ps rfl)
      | none => exact List.Pairwise.nil
  | hfilt p acc ih => intro h; cases h with | filt hp => simp only [Plan.den]; exact sorted_filter (ih hp) _
  | hphrase p ok ih => intro h; cases h with | phrase hp => simp only [Plan.den]; exact sorted_filter (ih hp) _

theorem sorted_length_le : ∀ (L : List Nat) (lo B : Nat), Sorted L → (∀ x ∈ L, lo ≤ x ∧ x < B) → L.length ≤ B - lo
  | [], _, _, _, _ => Nat.zero_le _
  | a :: t, lo, B, hs, hb => by
    have hp := List.pairwise_cons.mp hs
    have ha := hb a List.mem_cons_self
    have := sorted_length_le t (a + 1) B hp.2 (fun x hx => ⟨hp.1 x hx, (hb x (List.mem_cons_of_mem _ hx)).2⟩)
    simp only [List.length_cons]
    omega

theorem foldl_max_le {l : List Nat} {x : Nat} (h : x ∈ l) : ∀ (init : Nat), x ≤ l.foldl max init := by
  induction l with
  | nil => cases h
  | cons a t ih =>
    intro init
    simp only [List.foldl_cons]
    cases h with
    | head =>
      have : ∀ (l : List Nat) (i : Nat), i ≤ l.foldl max i := by
        intro l
        induction l with
        | nil => intro i; exact Nat.le_refl _
        | cons b u ihu => intro i; simp only [List.foldl_cons]; exact Nat.le_trans (Nat.le_max_left _ _) (ihu _)
      exact Nat.le_trans (Nat.le_max_right _ _) (this t _)
    | tail _ h => exact ih h _

theorem allK_map {ι α : Type} {P : List Nat → ι → Resp → Prop} (f : α → List Nat) (g : α → ι) (c : Resp) :
    ∀ (ps : List α), (∀ p ∈ ps, P (f p) (g p) c) → AllK P (ps.map f) (ps.map g) (ps.map (fun _ => c))
  | [], _ => .nil
  | p :: ps, h => .cons (h p List.mem_cons_self) (allK_map f g c ps (fun q hq => h q (List.mem_cons_of_mem _ hq)))

theorem depth_bool (m s n : Option Plan) (k : Nat) :
    (Plan.bool m s n k).depth = 1 + max (match m with | some p => p.depth | none => 0)
      (max (match s with | some p => p.depth | none => 0) (match n with | some p => p.depth | none => 0)) := by
  cases m <;> cases s <;> cases n <;> simp [Plan.depth]

theorem fuel_conj {B W len fuel : Nat} (hfuel : (B + 2) * (2 * W + 4) ≤ fuel) (hlen : len ≤ W) :
    B * (2 * len + 2) + len + 2 ≤ fuel := by
  have h1 : B * len ≤ B * W := Nat.mul_le_mul_left _ hlen
  have h2 : (B + 2) * (2 * W + 4) = 2 * (B * W) + 4 * B + 4 * W + 8 := by
    simp only [Nat.add_mul, Nat.mul_add]
    have : B * (2 * W) = 2 * (B * W) := by rw [Nat.mul_left_comm]
    omega
  have h3 : B * (2 * len + 2) = 2 * (B * len) + 2 * B := by
    simp only [Nat.mul_add]
    have : B * (2 * len) = 2 * (B * len) := by rw [Nat.mul_left_comm]
    omega
  omega

theorem fuel_simple {B W fuel : Nat} (hfuel : (B + 2) * (2 * W + 4) ≤ fuel) : B + 1 ≤ fuel := by
  have h2 : (B + 2) * (2 * W + 4) = 2 * (B * W) + 4 * B + 4 * W + 8 := by
    simp only [Nat.add_mul, Nat.mul_add]
    have : B * (2 * W) = 2 * (B * W) := by rw [Nat.mul_left_comm]
    omega
  omega

section
variable {Λ : Type} (mk : LeafKind → List Nat → Λ)
theorem build_leaf0 (k l) : Plan.build mk 0 (.leaf k l) = mk k l := rfl
theorem build_leaf (d k l) : Plan.build mk (d + 1) (.leaf k l) = NodeF.leaf (mk k l) := rfl
theorem build_conj (d ps) : Plan.build mk (d + 1) (.conj ps) = NodeF.conj (Conj.mk' (ps.map (fun p => p.build mk d))) := rfl
theorem build_disj (d ps min) : Plan.build mk (d + 1) (.disj ps min) =
    if heapTakeover < ps.length then NodeF.disjH (DisjH.mk' (ps.map (fun p => p.build mk d)) min)
    else NodeF.disjS (DisjS.mk' (ps.map (fun p => p.build mk d)) min) := rfl
theorem build_bool (d m s n smin) : Plan.build mk (d + 1) (.bool m s n smin) =
    NodeF.bool (BoolS.mk' (m.map (fun p => p.build mk d)) (s.map (fun p => p.build mk d)) (n.map (fun p => p.build mk d)) smin) := rfl
theorem build_filt (d p acc) : Plan.build mk (d + 1) (.filt p acc) = NodeF.filt ⟨p.build mk d, acc⟩ := rfl
theorem build_phrase (d p ok) : Plan.build mk (d + 1) (.phrase p ok) = NodeF.phrase (PhraseS.mk' (p.build mk d) ok) := rfl
end

/-- the tree built from a well-formed plan is fresh, for ANY leaf searchers whose constructor `mk` yields
a fresh leaf for every sorted list below `B` -/
theorem build_fresh {Λ : Type} {mk : LeafKind → List Nat → Λ} {LRel : List Nat → Λ → Phase → Prop}
    {B W fuel : Nat} (hmk : ∀ k l, Sorted l → (∀ x ∈ l, x < B) → LRel l (mk k l) .fresh)
    (hfuel : (B + 2) * (2 * W + 4) ≤ fuel) :
    ∀ p, PlanOK B W p → ∀ d, p.depth ≤ d → RelD LRel fuel d (p.den B) (p.build mk d) .fresh := by
  intro p
  induction p using Plan.ind with
  | hleaf k l =>
    intro h d _
    cases h with
    | leaf hs hb =>
    cases d with
    | zero => rw [build_leaf0]; simpa [RelD, Plan.den] using hmk k l hs hb
    | succ d => rw [build_leaf]; simpa [RelD, Plan.den] using hmk k l hs hb
  | hconj ps ih =>
    intro h d hd
    cases h with
    | conj hne hlen hps =>
    cases d with
    | zero => simp [Plan.depth] at hd
    | succ d =>
      have hL : ∀ x, x ∈ (Plan.conj ps).den B ↔ ∀ Li ∈ ps.map (fun p => p.den B), x ∈ Li := by
        intro x
        simp only [Plan.den, List.mem_filter, List.mem_range, List.all_eq_true, List.mem_map,
          forall_exists_index, and_imp, forall_apply_eq_imp_iff₂, List.contains_iff_mem]
        constructor
        · intro h; exact h.2
        · intro h
          refine ⟨?_, h⟩
          cases ps with
          | nil => exact absurd rfl hne
          | cons p0 t => exact den_bound p0 (hps p0 List.mem_cons_self) x (h p0 List.mem_cons_self)
      rw [build_conj]
      refine ⟨ps.map (fun p => p.den B), B, hL, ?_, ?_⟩
      · simp only [List.length_map]; exact fuel_conj hfuel hlen
      · refine ⟨rfl, ?_, ?_⟩
        · simp only [Conj.mk', List.length_map]
          exact List.length_pos_iff.mpr hne
        · simp only [Conj.mk', List.map_map]
          apply allK_map (fun p => p.den B) (fun p => p.build mk d) none ps
          intro p hp
          have hdp : p.depth ≤ d := by
            have := foldl_max_le (List.mem_map_of_mem (f := fun p => p.depth) hp) 0
            simp only [Plan.depth] at hd
            omega
          refine ⟨⟨?_, den_bound p (hps p hp)⟩, ih p hp (hps p hp) d hdp⟩
          intro t ht
          exact (hL t).mp ht _ (List.mem_map_of_mem hp)
  | hdisj ps min ih =>
    intro h d hd
    cases h with
    | disj hps =>
    cases d with
    | zero => simp [Plan.depth] at hd
    | succ d =>
      have hL : ∀ x, x ∈ (Plan.disj ps min).den B ↔ max min 1 ≤ cnt (ps.map (fun p => p.den B)) x := by
        intro x
        simp only [Plan.den, atLeast, cnt, List.mem_filter, List.mem_range, decide_eq_true_eq]
        constructor
        · intro h; exact h.2
        · intro h
          refine ⟨?_, h⟩
          have h1 : 1 ≤ cnt (ps.map (fun p => p.den B)) x := by unfold cnt; omega
          obtain ⟨Li, hLi, hx⟩ := cnt_pos h1
          obtain ⟨p, hp, rfl⟩ := List.mem_map.mp hLi
          exact den_bound p (hps p hp) x hx
      have hkids : ∀ p ∈ ps, (∀ y ∈ p.den B, y < B) ∧ RelD LRel fuel d (p.den B) (p.build mk d) .fresh := by
        intro p hp
        have hdp : p.depth ≤ d := by
          have := foldl_max_le (List.mem_map_of_mem (f := fun p => p.depth) hp) 0
          simp only [Plan.depth] at hd
          omega
        exact ⟨den_bound p (hps p hp), ih p hp (hps p hp) d hdp⟩
      rw [build_disj]
      by_cases hwide : heapTakeover < ps.length
      · simp only [hwide, ↓reduceIte]
        refine ⟨ps.map (fun p => p.den B), B, min, hL, ?_, fuel_simple hfuel, rfl, rfl, rfl, rfl, ?_⟩
        · intro Li hLi y hy
          obtain ⟨p, hp, rfl⟩ := List.mem_map.mp hLi
          exact den_bound p (hps p hp) y hy
        · simp only [DisjH.mk', List.map_map]
          exact allK_map (P := fun Li k _ => (∀ y ∈ Li, y < B) ∧ RelD LRel fuel d Li k .fresh)
            (fun p => p.den B) (fun p => p.build mk d) none ps hkids
      · simp only [hwide, ↓reduceIte]
        refine ⟨ps.map (fun p => p.den B), B, min, hL, fuel_simple hfuel, rfl, rfl, ?_⟩
        simp only [DisjS.mk', List.map_map]
        exact allK_map (P := fun Li k _ => (∀ y ∈ Li, y < B) ∧ RelD LRel fuel d Li k .fresh)
          (fun p => p.den B) (fun p => p.build mk d) none ps hkids
  | hbool m s n k ihm ihs ihn =>
    intro h d hd
    cases h with
    | bool hm hs hn hsome =>
    rw [depth_bool] at hd
    cases d with
    | zero => omega
    | succ d =>
      have hL : ∀ x, x ∈ (Plan.bool m s n k).den B ↔
          BMem (m.map (fun p => p.den B)) (s.map (fun p => p.den B)) (n.map (fun p => p.den B)) k x := by
        intro x
        rw [den_bool]
        cases m <;> cases s <;> cases n <;>
          simp [BMem, DrvMem, List.mem_filter]
      rw [build_bool]
      refine ⟨m.map (fun p => p.den B), s.map (fun p => p.den B), n.map (fun p => p.den B), k, B, hL,
        fuel_simple hfuel, rfl, rfl, rfl, ?_, ?_, ?_, ?_⟩
      · cases m with
        | none => simp [BoolS.mk']
        | some pm =>
          simp only [BoolS.mk', Option.map_some]
          exact ⟨den_bound pm (hm pm rfl), ihm pm rfl (hm pm rfl) d (by simp only at hd; omega)⟩
      · cases s with
        | none => simp [BoolS.mk']
        | some ps =>
          simp only [BoolS.mk', Option.map_some]
          exact ⟨den_bound ps (hs ps rfl), ihs ps rfl (hs ps rfl) d (by simp only at hd; omega)⟩
      · cases n with
        | none => simp [BoolS.mk']
        | some pn =>
          simp only [BoolS.mk', Option.map_some]
          exact ihn pn rfl (hn pn rfl) d (by simp only at hd; omega)
      · cases m <;> cases s <;> simp at hsome ⊢
  | hfilt p acc ih =>
    intro h d hd
    cases h with
    | filt hp =>
    cases d with
    | zero => simp [Plan.depth] at hd
    | succ d =>
      simp only [Plan.depth] at hd
      rw [build_filt]
      refine ⟨p.den B, acc, B, ?_, fuel_simple hfuel, ih hp d (by omega), rfl, den_bound p hp⟩
      intro x
      simp [Plan.den, List.mem_filter]
  | hphrase p ok ih =>
    intro h d hd
    cases h with
    | phrase hp =>
    cases d with
    | zero => simp [Plan.depth] at hd
    | succ d =>
      simp only [Plan.depth] at hd
      rw [build_phrase]
      refine ⟨p.den B, ok, B, ?_, fuel_simple hfuel, rfl, rfl, ih hp d (by omega), den_bound p hp⟩
      intro x
      simp [Plan.den, List.mem_filter]

/-- **the searcher tree of a well-formed plan, drained by a collector, yields exactly the plan's set** -/
theorem plan_runWith_eq_den {Λ : Type} {ls : Step Λ} {mk : LeafKind → List Nat → Λ}
    {LRel : List Nat → Λ → Phase → Prop} (hleaf : ∀ L, IsIter ls (LRel L) L) {B W : Nat}
    (hmk : ∀ k l, Sorted l → (∀ x ∈ l, x < B) → LRel l (mk k l) .fresh)
    (p : Plan) (h : PlanOK B W p) : p.runWith ls mk B W = p.den B := by
  unfold Plan.runWith
  have hiter := relD_is_iter hleaf (fuelFor B W) p.depth (p.den B)
  have hfresh := build_fresh hmk (fuel := fuelFor B W) (Nat.le_refl _) p h p.depth (Nat.le_refl _)
  apply drain_fresh hiter (den_sorted p h) _ _ hfresh
  have := sorted_length_le (p.den B) 0 B (den_sorted p h) (fun x hx => ⟨Nat.zero_le _, den_bound p h x hx⟩)
  omega

/-- … over the abstract sorted-list leaves -/
theorem plan_run_eq_den {B W : Nat} (p : Plan) (h : PlanOK B W p) : p.run B W = p.den B :=
  plan_runWith_eq_den leaf_is_iter_aux (fun k _ hs _ => leaf_fresh k hs) p h

end Bluge.C07

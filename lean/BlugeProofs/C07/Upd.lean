import BlugeProofs.C07.Kids
/-! Specification of `updateMatches` (DisjunctionSliceSearcher): the minimum of the current answers and
the (ascending) indices of the children standing on it. -/
namespace Bluge.C07
open Bluge.Search

/-- `(mv, idxs)` describes the list `cur` (whose first element has index 0) -/
structure UpdSpec (cur : List Resp) (mv : Option Nat) (idxs : List Nat) : Prop where
  none_all : mv = none → idxs = [] ∧ ∀ c ∈ cur, c = none
  some_min : ∀ m, mv = some m → ∀ x, some x ∈ cur → m ≤ x
  some_mem : ∀ m, mv = some m → ∀ j, j ∈ idxs ↔ cur[j]? = some (some m)
  sorted : idxs.Pairwise (· < ·)
  len : ∀ m, mv = some m → idxs.length = cur.countP (fun c => c == some m)
  nonempty : ∀ m, mv = some m → idxs ≠ []

theorem updateMatches_go_spec : ∀ (cs pre : List Resp) (mv : Option Nat) (idxs : List Nat),
    UpdSpec pre mv idxs →
    UpdSpec (pre ++ cs) (updateMatches.go pre.length cs (mv, idxs)).1 (updateMatches.go pre.length cs (mv, idxs)).2
  | [], pre, mv, idxs, h => by simpa [updateMatches.go] using h
  | none :: cs, pre, mv, idxs, h => by
    have h' : UpdSpec (pre ++ [none]) mv idxs := by
      refine ⟨?_, ?_, ?_, h.sorted, ?_, h.nonempty⟩
      · intro hm
        obtain ⟨h1, h2⟩ := h.none_all hm
        refine ⟨h1, ?_⟩
        intro c hc
        rcases List.mem_append.mp hc with hc | hc
        · exact h2 c hc
        · simpa using hc
      · intro m hm x hx
        rcases List.mem_append.mp hx with hx | hx
        · exact h.some_min m hm x hx
        · simp at hx
      · intro m hm j
        rw [h.some_mem m hm j]
        by_cases hj : j < pre.length
        · rw [List.getElem?_append_left hj]
        · have h1 : pre[j]? = none := List.getElem?_eq_none (by omega)
          rw [h1]
          by_cases hj2 : j = pre.length
          · subst hj2; simp
          · have : (pre ++ [none])[j]? = none := List.getElem?_eq_none (by simp; omega)
            rw [this]
      · intro m hm
        rw [h.len m hm]
        simp [List.countP_append]
    have := updateMatches_go_spec cs (pre ++ [none]) mv idxs h'
    simp only [List.length_append, List.length_cons, List.length_nil, List.append_assoc,
      List.cons_append, List.nil_append] at this
    simpa [updateMatches.go] using this
  | some c :: cs, pre, none, idxs, h => by
    obtain ⟨h1, h2⟩ := h.none_all rfl
    have h' : UpdSpec (pre ++ [some c]) (some c) [pre.length] := by
      refine ⟨(by intro hm; cases hm), ?_, ?_, (by simp), ?_, (by intro m _; simp)⟩
      · intro m hm x hx
        cases hm
        rcases List.mem_append.mp hx with hx | hx
        · have := h2 _ hx; cases this
        · simp at hx; omega
      · intro m hm j
        cases hm
        by_cases hj : j < pre.length
        · rw [List.getElem?_append_left hj]
          have hne : j ≠ pre.length := by omega
          have : pre[j]? ≠ some (some c) := by
            intro hp
            have hmem : some c ∈ pre := List.mem_of_getElem? hp
            have := h2 _ hmem; cases this
          simp [hne, this]
        · by_cases hj2 : j = pre.length
          · subst hj2; simp
          · have : (pre ++ [some c])[j]? = none := List.getElem?_eq_none (by simp; omega)
            rw [this]; simp [hj2]
      · intro m hm
        cases hm
        have : pre.countP (fun x => x == some c) = 0 := by
          rw [List.countP_eq_zero]
          intro x hx; have := h2 x hx; subst this; simp
        simp [List.countP_append, this]
    have := updateMatches_go_spec cs (pre ++ [some c]) (some c) [pre.length] h'
    simp only [List.length_append, List.length_cons, List.length_nil, List.append_assoc,
      List.cons_append, List.nil_append] at this
    simpa [updateMatches.go] using this
  | some c :: cs, pre, some m, idxs, h => by
    have hlt : ∀ j ∈ idxs, j < pre.length := by
      intro j hj
      have := (h.some_mem m rfl j).mp hj
      exact (List.getElem?_eq_some_iff.mp this).1
    by_cases h1 : m < c
    · -- keep
      have h' : UpdSpec (pre ++ [some c]) (some m) idxs := by
        refine ⟨(by intro hm; cases hm), ?_, ?_, h.sorted, ?_, h.nonempty⟩
        · intro m' hm x hx
          cases hm
          rcases List.mem_append.mp hx with hx | hx
          · exact h.some_min m rfl x hx
          · simp at hx; omega
        · intro m' hm j
          cases hm
          rw [h.some_mem m rfl j]
          by_cases hj : j < pre.length
          · rw [List.getElem?_append_left hj]
          · have hp : pre[j]? = none := List.getElem?_eq_none (by omega)
            rw [hp]
            by_cases hj2 : j = pre.length
            · subst hj2
              have : c ≠ m := by omega
              simp [this]
            · have : (pre ++ [some c])[j]? = none := List.getElem?_eq_none (by simp; omega)
              rw [this]
        · intro m' hm
          cases hm
          rw [h.len m rfl]
          have : c ≠ m := by omega
          simp [List.countP_append, this]
      have := updateMatches_go_spec cs (pre ++ [some c]) (some m) idxs h'
      simp only [List.length_append, List.length_cons, List.length_nil, List.append_assoc,
        List.cons_append, List.nil_append] at this
      simpa [updateMatches.go, h1] using this
    · by_cases h2 : c < m
      · -- new minimum
        have h' : UpdSpec (pre ++ [some c]) (some c) [pre.length] := by
          refine ⟨(by intro hm; cases hm), ?_, ?_, (by simp), ?_, (by intro m _; simp)⟩
          · intro m' hm x hx
            cases hm
            rcases List.mem_append.mp hx with hx | hx
            · have := h.some_min m rfl x hx; omega
            · simp at hx; omega
          · intro m' hm j
            cases hm
            by_cases hj : j < pre.length
            · rw [List.getElem?_append_left hj]
              have hne : j ≠ pre.length := by omega
              have : pre[j]? ≠ some (some c) := by
                intro hp
                have hmem : some c ∈ pre := List.mem_of_getElem? hp
                have := h.some_min m rfl c hmem; omega
              simp [hne, this]
            · by_cases hj2 : j = pre.length
              · subst hj2; simp
              · have : (pre ++ [some c])[j]? = none := List.getElem?_eq_none (by simp; omega)
                rw [this]; simp [hj2]
          · intro m' hm
            cases hm
            have : pre.countP (fun x => x == some c) = 0 := by
              rw [List.countP_eq_zero]
              intro x hx
              cases x with
              | none => simp
              | some y => have := h.some_min m rfl y hx; simp; omega
            simp [List.countP_append, this]
        have := updateMatches_go_spec cs (pre ++ [some c]) (some c) [pre.length] h'
        simp only [List.length_append, List.length_cons, List.length_nil, List.append_assoc,
          List.cons_append, List.nil_append] at this
        simpa [updateMatches.go, h1, h2] using this
      · -- equal: append the index
        have hcm : c = m := by omega
        subst hcm
        have h' : UpdSpec (pre ++ [some c]) (some c) (idxs ++ [pre.length]) := by
          refine ⟨(by intro hm; cases hm), ?_, ?_, ?_, ?_, (by intro m _; simp)⟩
          · intro m' hm x hx
            cases hm
            rcases List.mem_append.mp hx with hx | hx
            · exact h.some_min c rfl x hx
            · simp at hx; omega
          · intro m' hm j
            cases hm
            rw [List.mem_append, h.some_mem c rfl j]
            by_cases hj : j < pre.length
            · rw [List.getElem?_append_left hj]
              have hne : j ≠ pre.length := by omega
              simp [hne]
            · have hp : pre[j]? = none := List.getElem?_eq_none (by omega)
              rw [hp]
              by_cases hj2 : j = pre.length
              · subst hj2; simp
              · have : (pre ++ [some c])[j]? = none := List.getElem?_eq_none (by simp; omega)
                rw [this]; simp [hj2]
          · rw [List.pairwise_append]
            refine ⟨h.sorted, by simp, ?_⟩
            intro a ha b hb
            simp at hb; subst hb
            exact hlt a ha
          · intro m' hm
            cases hm
            simp [List.countP_append, h.len c rfl]
        have := updateMatches_go_spec cs (pre ++ [some c]) (some c) (idxs ++ [pre.length]) h'
        simp only [List.length_append, List.length_cons, List.length_nil, List.append_assoc,
          List.cons_append, List.nil_append] at this
        simpa [updateMatches.go, h1, h2] using this

theorem updateMatches_spec (cur : List Resp) : UpdSpec cur (updateMatches cur).1 (updateMatches cur).2 := by
  have h0 : UpdSpec [] none [] :=
    ⟨fun _ => ⟨rfl, by simp⟩, (by intro m hm; cases hm), (by intro m hm; cases hm), (by simp),
     (by intro m hm; cases hm), (by intro m hm; cases hm)⟩
  have := updateMatches_go_spec cur [] none [] h0
  simpa [updateMatches] using this

end Bluge.C07

import BlugeProofs.C07.HeapIter
/-! `DisjunctionHeapSearcher`: sound mode of the loops. -/
namespace Bluge.C07
open Bluge.Search

section
variable {ι : Type} {cs : Step ι} {RelK : List Nat → ι → Phase → Prop} {B : Nat} {Ls : List (List Nat)}
variable {L : List Nat} {min : Nat}
variable (hK : ∀ Li, IsIter cs (RelK Li) Li)

include hK in
theorem nextMatching_sound {m : Nat} :
    ∀ (ms : List HEntry) (s : DisjH ι),
      ((s.heap ++ ms).map (·.1)).Nodup →
      (∀ e ∈ s.heap, Ent (DKSnd RelK (m + 1)) Ls s.kids e) →
      (∀ e ∈ ms, e.2 = m ∧ Ent (DKSnd RelK m) Ls s.kids e) →
      s.kids.length = Ls.length →
      HSnd RelK Ls (m + 1) (DisjH.nextMatching cs s ms).kids (DisjH.nextMatching cs s ms).heap ∧
      (DisjH.nextMatching cs s ms).matching = s.matching ∧ (DisjH.nextMatching cs s ms).min = s.min ∧
      (DisjH.nextMatching cs s ms).init = s.init
  | [], s, hnd, hheap, _, hlen => by
    simp only [DisjH.nextMatching]
    exact ⟨⟨by simpa using hnd, hheap, hlen⟩, trivial, trivial, trivial⟩
  | e :: es, s, hnd, hheap, hms, hlen => by
    obtain ⟨hem, Li, k, hLi, hk, hP⟩ := hms e List.mem_cons_self
    rw [hem] at hP
    have hnx := dsn_next hK hP
    have hki : e.1 < s.kids.length := (List.getElem?_eq_some_iff.mp hk).1
    have hnd' : ((s.heap.map (·.1)) ++ e.1 :: es.map (·.1)).Nodup := by simpa using hnd
    have hother_heap : ∀ e' ∈ s.heap, e'.1 ≠ e.1 := by
      intro e' he' heq
      exact (List.nodup_append.mp hnd').2.2 e'.1 (List.mem_map_of_mem he') e.1 List.mem_cons_self heq
    have hother_es : ∀ e' ∈ es, e'.1 ≠ e.1 := by
      intro e' he' heq
      have h2 := (List.nodup_append.mp hnd').2.1
      exact (List.nodup_cons.mp h2).1 (heq ▸ List.mem_map_of_mem he')
    simp only [DisjH.nextMatching]
    rw [callKid_some cs hk]
    cases hr : (cs k .next).1 with
    | none =>
      simp only
      apply nextMatching_sound (m := m) es { s with kids := s.kids.set e.1 (cs k .next).2 }
      · simp only
        have : (s.heap.map (·.1) ++ es.map (·.1)).Nodup := by
          have h1 := List.nodup_append.mp hnd'
          refine List.nodup_append.mpr ⟨h1.1, (List.nodup_cons.mp h1.2.1).2, ?_⟩
          intro a ha b hb
          exact h1.2.2 a ha b (List.mem_cons_of_mem _ hb)
        simpa using this
      · intro e' he'; exact (hheap e' he').set_other (hother_heap e' he')
      · intro e' he'
        exact ⟨(hms e' (List.mem_cons_of_mem _ he')).1, (hms e' (List.mem_cons_of_mem _ he')).2.set_other (hother_es e' he')⟩
      · simp [hlen]
    | some c =>
      rw [hr] at hnx
      simp only
      have := nextMatching_sound (m := m) es
        { s with kids := s.kids.set e.1 (cs k .next).2, heap := s.heap ++ [(e.1, c)] } ?_ ?_ ?_ (by simp [hlen])
      · exact this
      · simp only [List.map_append, List.map_cons, List.map_nil, List.append_assoc, List.singleton_append]
        exact hnd'
      · intro e' he'
        simp only [List.mem_append, List.mem_singleton] at he'
        rcases he' with he' | rfl
        · exact (hheap e' he').set_other (hother_heap e' he')
        · exact ⟨Li, (cs k .next).2, hLi, by simp [List.getElem?_set_self hki], hnx⟩
      · intro e' he'
        exact ⟨(hms e' (List.mem_cons_of_mem _ he')).1, (hms e' (List.mem_cons_of_mem _ he')).2.set_other (hother_es e' he')⟩

include hK in
theorem advLoop_sound {p n : Nat} :
    ∀ (f : Nat) (s : DisjH ι) (tmp : List HEntry), s.heap.length ≤ f →
      ((s.heap ++ tmp).map (·.1)).Nodup →
      (∀ e ∈ s.heap, Ent (DKSnd RelK p) Ls s.kids e) →
      (∀ e ∈ tmp, Ent (DKSnd RelK n) Ls s.kids e) →
      s.kids.length = Ls.length →
      HSnd RelK Ls n (DisjH.advLoop cs n f s tmp).2.kids
        ((DisjH.advLoop cs n f s tmp).2.heap ++ (DisjH.advLoop cs n f s tmp).1) ∧
      (DisjH.advLoop cs n f s tmp).2.matching = s.matching ∧ (DisjH.advLoop cs n f s tmp).2.min = s.min ∧
      (DisjH.advLoop cs n f s tmp).2.init = s.init
  | 0, s, tmp, hf, hnd, _, htmp, hlen => by
    have hh : s.heap = [] := List.length_eq_zero_iff.mp (by omega)
    simp only [DisjH.advLoop]
    refine ⟨⟨hnd, ?_, hlen⟩, trivial, trivial, trivial⟩
    intro e he
    rw [hh] at he
    exact htmp e (by simpa using he)
  | f + 1, s, tmp, hf, hnd, hheap, htmp, hlen => by
    rw [DisjH.advLoop]
    cases hp : popMin s.heap with
    | none =>
      have hh := popMin_none.mp hp
      simp only
      refine ⟨⟨hnd, ?_, hlen⟩, trivial, trivial, trivial⟩
      intro e he
      rw [hh] at he
      exact htmp e (by simpa using he)
    | some r =>
      obtain ⟨e, h'⟩ := r
      obtain ⟨hperm, hmin⟩ := popMin_some hp
      simp only
      by_cases hlt : e.2 < n
      · simp only [hlt, ↓reduceIte]
        have he_mem : e ∈ s.heap := hperm.mem_iff.mpr List.mem_cons_self
        obtain ⟨Li, k, hLi, hk, hP⟩ := hheap e he_mem
        have hki : e.1 < s.kids.length := (List.getElem?_eq_some_iff.mp hk).1
        have hadv := dsn_adv hK hP (m := n) (by intro x hx; cases hx; exact hlt)
        rw [callKid_some cs hk]
        have hnd1 : ((e :: h' ++ tmp).map (·.1)).Nodup :=
          (List.Perm.nodup_iff ((hperm.append_right tmp).map _)).mp hnd
        have hnd1' : (e.1 :: (h'.map (·.1) ++ tmp.map (·.1))).Nodup := by simpa using hnd1
        have hne_h' : ∀ e' ∈ h', e'.1 ≠ e.1 := by
          intro e' he' heq
          exact (List.nodup_cons.mp hnd1').1 (heq ▸ List.mem_append_left _ (List.mem_map_of_mem he'))
        have hne_tmp : ∀ e' ∈ tmp, e'.1 ≠ e.1 := by
          intro e' he' heq
          exact (List.nodup_cons.mp hnd1').1 (heq ▸ List.mem_append_right _ (List.mem_map_of_mem he'))
        have hlen' : h'.length ≤ f := by have := hperm.length_eq; simp at this; omega
        have hheap' : ∀ e' ∈ h', Ent (DKSnd RelK p) Ls (s.kids.set e.1 (cs k (.adv n)).2) e' :=
          fun e' he' => (hheap e' (hperm.mem_iff.mpr (List.mem_cons_of_mem _ he'))).set_other (hne_h' e' he')
        have htmp' : ∀ e' ∈ tmp, Ent (DKSnd RelK n) Ls (s.kids.set e.1 (cs k (.adv n)).2) e' :=
          fun e' he' => (htmp e' he').set_other (hne_tmp e' he')
        cases hr : (cs k (.adv n)).1 with
        | none =>
          simp only
          apply advLoop_sound (p := p) (n := n) f { s with kids := s.kids.set e.1 (cs k (.adv n)).2, heap := h' } tmp hlen'
          · simp only [List.map_append]; exact (List.nodup_cons.mp hnd1').2
          · exact hheap'
          · exact htmp'
          · simp [hlen]
        | some c =>
          rw [hr] at hadv
          simp only
          have := advLoop_sound (p := p) (n := n) f { s with kids := s.kids.set e.1 (cs k (.adv n)).2, heap := h' }
            (tmp ++ [(e.1, c)]) hlen' ?_ hheap' ?_ (by simp [hlen])
          · exact this
          · simp only [List.map_append, List.map_cons, List.map_nil]
            have : (h'.map (·.1) ++ (tmp.map (·.1) ++ [e.1])).Perm (e.1 :: (h'.map (·.1) ++ tmp.map (·.1))) := by
              rw [← List.append_assoc]
              exact List.perm_append_singleton _ _
            exact (List.Perm.nodup_iff this).mpr hnd1'
          · intro e' he'
            simp only [List.mem_append, List.mem_singleton] at he'
            rcases he' with he' | rfl
            · exact htmp' e' he'
            · exact ⟨Li, (cs k (.adv n)).2, hLi, by simp [List.getElem?_set_self hki], hadv⟩
      · simp only [hlt, ↓reduceIte]
        refine ⟨⟨hnd, ?_, hlen⟩, trivial, trivial, trivial⟩
        intro e' he'
        rcases List.mem_append.mp he' with he' | he'
        · have h1 := hmin e' he'
          exact (hheap e' he').mono (fun Li k hP => ⟨hP.1, by omega, hP.2.2⟩)
        · exact htmp e' he'

def HeapSGoal (RelK : List Nat → ι → Phase → Prop) (L : List Nat) (B min : Nat) (Ls : List (List Nat)) (lo : Nat)
    (r : Resp × DisjH ι) : Prop :=
  (∀ d, r.1 = some d → d ∈ L ∧ lo ≤ d ∧ HeapRel RelK B min Ls r.2 (.done (d + 1))) ∧
  (r.1 = none → HeapRel RelK B min Ls r.2 (.done 0))

theorem hsnd_mono {p p' : Nat} {kids : List ι} {E : List HEntry} (h : HSnd RelK Ls p kids E) (hle : p' ≤ p) :
    HSnd RelK Ls p' kids E :=
  ⟨h.1, fun e he => (h.2.1 e he).mono (fun _ _ hP => dsnd_mono hle hP), h.2.2⟩

theorem hsnd_perm {p : Nat} {kids : List ι} {E E' : List HEntry} (h : HSnd RelK Ls p kids E) (hp : E.Perm E') :
    HSnd RelK Ls p kids E' :=
  ⟨(List.Perm.nodup_iff (hp.map _)).mp h.1, fun e he => h.2.1 e (hp.mem_iff.mpr he), h.2.2⟩

include hK in
theorem heap_loop_sound (hL : ∀ x, x ∈ L ↔ max min 1 ≤ cnt Ls x) :
    ∀ (f : Nat) (lo : Nat) (s : DisjH ι), s.init = true → s.min = min →
      HSnd RelK Ls lo s.kids (s.heap ++ s.matching) → Refreshed s →
      HeapSGoal RelK L B min Ls lo (DisjH.loop cs f s) := by
  have hstay : ∀ (lo : Nat) (s : DisjH ι), s.init = true → s.min = min →
      HSnd RelK Ls lo s.kids (s.heap ++ s.matching) → Refreshed s → HeapSGoal RelK L B min Ls lo (none, s) :=
    fun lo s hinit hmin hs hR => ⟨(by intro d hd; cases hd), fun _ => ⟨hinit, hmin, hsnd_mono hs (Nat.zero_le _), hR⟩⟩
  intro f
  induction f with
  | zero => intro lo s hinit hmin hs hR; rw [DisjH.loop]; exact hstay lo s hinit hmin hs hR
  | succ f ih =>
    intro lo s hinit hmin hs hR
    rw [DisjH.loop]
    cases hmt : s.matching with
    | nil => exact hstay lo s hinit hmin hs hR
    | cons e rest =>
      simp only
      obtain ⟨m, hmeq, hheapgt⟩ : ∃ m, (∀ x ∈ s.matching, x.2 = m) ∧ ∀ x ∈ s.heap, m < x.2 := by
        rcases hR with h | ⟨m, _, h2, h3⟩
        · rw [hmt] at h; cases h.1
        · exact ⟨m, h2, h3⟩
      have hem : e.2 = m := hmeq e (by rw [hmt]; exact List.mem_cons_self)
      obtain ⟨Le, ke, hLe, hke, hPe⟩ := hs.2.1 e (by rw [hmt]; simp)
      rw [hem] at hPe
      have hlom : lo ≤ m := hPe.2.1
      have hnm := nextMatching_sound (m := m) hK s.matching { s with matching := [] }
        (by simpa using hs.1)
        (by
          intro x hx
          exact (hs.2.1 x (List.mem_append_left _ hx)).mono
            (fun Li k hP => ⟨hP.1, by have := hheapgt x hx; omega, hP.2.2⟩))
        (by
          intro x hx
          refine ⟨hmeq x hx, (hs.2.1 x (List.mem_append_right _ hx)).mono (fun Li k hP => ?_)⟩
          rw [hmeq x hx] at hP ⊢
          exact ⟨hP.1, Nat.le_refl _, hP.2.2⟩)
        hs.2.2
      obtain ⟨a1, a2, a3, a4⟩ := hnm
      simp only at a2 a3 a4
      rw [← hmt]
      obtain ⟨r1, r2, r3, r4, r5⟩ := refresh_spec (DisjH.nextMatching cs { s with matching := [] } s.matching) a2
      have hs1 : HSnd RelK Ls (m + 1)
          (DisjH.refresh (DisjH.nextMatching cs { s with matching := [] } s.matching)).kids
          ((DisjH.refresh (DisjH.nextMatching cs { s with matching := [] } s.matching)).heap ++
           (DisjH.refresh (DisjH.nextMatching cs { s with matching := [] } s.matching)).matching) := by
        rw [r3]; exact hsnd_perm a1 r1
      have hlen1 : 1 ≤ s.matching.length := by rw [hmt]; simp
      by_cases hfound : s.min ≤ s.matching.length
      · simp only [hfound, decide_true, ↓reduceIte]
        rw [hem]
        refine ⟨?_, (by intro hn; cases hn)⟩
        intro d hd
        cases hd
        refine ⟨?_, hlom, r5.trans (a4.trans hinit), r4.trans (a3.trans hmin), hs1, r2⟩
        rw [hL]
        have hle : s.matching.length ≤ cnt Ls m := by
          unfold cnt
          rw [filter_length_range, ← List.length_map (f := (·.1)) (as := s.matching)]
          apply nodup_length_le
          · exact List.Nodup.sublist ((List.sublist_append_right s.heap s.matching).map _) hs.1
          · intro i hi
            obtain ⟨x, hx, hxi⟩ := List.mem_map.mp hi
            obtain ⟨Lx, kx, hLx, _, hPx⟩ := hs.2.1 x (List.mem_append_right _ hx)
            rw [hxi] at hLx
            have hil : i < Ls.length := (List.getElem?_eq_some_iff.mp hLx).1
            simp only [List.mem_filter, List.mem_range]
            refine ⟨hil, ?_⟩
            rw [hLx]
            have := hmeq x hx
            rw [this] at hPx
            simpa using hPx.1
        rw [hmin] at hfound
        omega
      · simp only [hfound, decide_false, Bool.false_eq_true, ↓reduceIte]
        exact ih lo _ (r5.trans (a4.trans hinit)) (r4.trans (a3.trans hmin)) (hsnd_mono hs1 (by omega)) r2

end
end Bluge.C07

import BlugeProofs.C07.CompileDen
/-! Concrete witnesses (evaluated by `decide` / `simp`): helper statements, restated in BlugeProofs.C07. -/
namespace Bluge.C07
open Bluge.Search

/-! ## Witnesses: where the implementation (as modelled) deviates from the documented meaning -/

namespace Witness
/-- docs 0:"x" 1:"x y" 2:"x z" 3:"y"; postings of x, y, z -/
def px : Plan := .leaf .postings [0, 1, 2]
def py : Plan := .leaf .postings [1, 3]
def pz : Plan := .leaf .postings [2]
/-- BooleanQuery: must x, should y z, SetMinShould(1) -/
def q : Plan := .bool (some (.conj [px])) (some (.disj [py, pz] 1)) none 1
/-- after the unadorned rewrite on the pinned tree: the should disjunction is ONE TermSearcher over the
OR of the bitmaps, and `TermSearcher.Min()` is 0 -/
def qNone : Plan := .bool (some (.conj [px])) (some (.leaf .unadorned [1, 2, 3])) none 0
/-- with a `minSearcher` wrapper that keeps `Min()` -/
def qNoneKept : Plan := .bool (some (.conj [px])) (some (.leaf .unadorned [1, 2, 3])) none 1

def doc0 : Doc := { id := "d0", terms := [("t", ["x"])], nums := [], geos := [] }
def idx1 : Index := [(0, doc0)]
/-- must x, no should clause, SetMinShould(1) -/
def q2 : Query := .bool [.term "t" "x"] [] [] 1
end Witness

open Witness in
/-- **minshould_lost_witness** (the defect behind `minshould-lost-under-score-none`): under
`SetScore("none")` the rewritten searcher tree returns the must-only document 0, which the meaning
(and the scored searcher tree) excludes. -/
theorem minshould_lost_aux :
    (q.rewriteNone ⟨false⟩ 4).1 = qNone ∧
    drain (stepD Leaf.step (fuelFor 4 2) 2) 5 (qNone.build Leaf.mk' 2) = [0, 1, 2] ∧
    drain (stepD Leaf.step (fuelFor 4 2) 2) 5 (q.build Leaf.mk' 2) = [1, 2] ∧
    q.den 4 = [1, 2] := by
  refine ⟨?_, by decide, by decide, ?_⟩
  · simp [q, px, py, pz, qNone, Plan.rewriteNone, optimizables, Plan.optimizable, unionAll]
    decide
  · simp [q, px, py, pz, den_bool, Plan.den, atLeast]
    decide

open Witness in
/-- the same rewrite with `Min()` preserved (`ScoreNone.keepMin`, the proposed repair) is exact here -/
theorem minshould_kept_aux :
    (q.rewriteNone ⟨true⟩ 4).1 = qNoneKept ∧ (q.rewriteNone ⟨true⟩ 4).2 = 0 ∧
    drain (stepD Leaf.step (fuelFor 4 2) 2) 5 (qNoneKept.build Leaf.mk' 2) = [1, 2] := by
  refine ⟨?_, ?_, by decide⟩
  · simp [q, px, py, pz, qNoneKept, Plan.rewriteNone, optimizables, Plan.optimizable, unionAll]
    decide
  · simp [q, Plan.rewriteNone]

/-- **fuzziness_0_panics_witness**: before 2b928d2 `NewFuzzySearcher` with fuzziness 0 indexed `automatons[0]`
of an empty slice (fuzziness 1, 2 construct a searcher; 3 and negative values are errors); now fuzziness 0
constructs a searcher (an exact term search) -/
theorem fuzziness_0_panics_aux :
    fuzzyOutcomePre 0 = .panic ∧ fuzzyOutcomePre 1 = .ok ∧ fuzzyOutcomePre 2 = .ok ∧ fuzzyOutcomePre 3 = .err ∧
    fuzzyOutcomePre (-1) = .err ∧
    fuzzyOutcome 0 = .ok ∧ fuzzyOutcome 1 = .ok ∧ fuzzyOutcome 2 = .ok ∧ fuzzyOutcome 3 = .err ∧ fuzzyOutcome (-1) = .err := by
  decide

/-- **termrange_inverted_witness**: an inverted term range with exclusive max — meaning: no term —
enumerates the term equal to `max` (vellum's FST range search when start ≥ end) -/
theorem termrange_inverted_aux :
    (Matcher.range (some "d") (some "abd") false false).accepts "abd" = false ∧
    (Matcher.range (some "d") (some "abd") false false).acceptsImpl "abd" = true ∧
    (Matcher.range (some "b") (some "b") true false).accepts "b" = false ∧
    (Matcher.range (some "b") (some "b") true false).acceptsImpl "b" = true := by decide

open Witness in
/-- **minshould_without_should_witness**: `SetMinShould(1)` on a boolean WITHOUT should clauses — meaning:
no document can satisfy one of zero should queries — is ignored: the searcher returns the must documents -/
theorem minshould_without_should_aux :
    denote idx1 q2 = [] ∧
    compile idx1 q2 = .bool (some (.conj [.leaf .postings [0]])) none none 0 ∧
    drain (stepD Leaf.step (fuelFor 1 1) 2) 2 ((Plan.bool (some (.conj [.leaf .postings [0]])) none none 0).build Leaf.mk' 2) = [0] := by
  refine ⟨?_, ?_, by decide⟩
  · simp [denote, idx1, q2, sat_bool, need]
  · simp [q2, compile_bool, compile_term, post, idx1, doc0, Doc.hasTerm, Doc.fieldTerms]


open Witness in
theorem witness_q_ok : q.okB 4 2 = true := by
  simp [q, px, py, pz, okB_bool, Plan.okB, sortedB, heapTakeover]

open Witness in
theorem witness_idx_wf : Index.WF idx1 1 := by
  refine ⟨by simp [idx1], ?_⟩
  intro e he
  simp [idx1] at he
  subst he
  decide

theorem witness_query_wf :
    (Query.bool [.term "t" "x"] [.phrase "t" 1 [["y"], ["z", "w"]], .term "t" "z"] [.term "t" "w"] 1).WF = true := by
  simp [wf_bool, Query.WF]

end Bluge.C07

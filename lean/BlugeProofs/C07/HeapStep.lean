import BlugeProofs.C07.HeapSound
/-! `DisjunctionHeapSearcher` over iterators is a sorted-list iterator (same denotation as the slice
implementation): `initSearchers` and the assembled contract. -/
namespace Bluge.C07
open Bluge.Search

section
variable {ι : Type} {cs : Step ι} {RelK : List Nat → ι → Phase → Prop} {B : Nat}
variable {L : List Nat} {min : Nat}
variable (hK : ∀ Li, IsIter cs (RelK Li) Li)

include hK in
theorem initGo_spec : ∀ {Ls : List (List Nat)} {ks : List ι} {dummy : List Resp},
    AllK (fun Li k _ => (∀ y ∈ Li, y < B) ∧ RelK Li k .fresh) Ls ks dummy → ∀ (off : Nat),
    (DisjH.initGo cs off ks).2.length = ks.length ∧
    ((DisjH.initGo cs off ks).1.map (·.1)).Pairwise (· < ·) ∧
    (∀ e ∈ (DisjH.initGo cs off ks).1, off ≤ e.1 ∧ e.1 < off + ks.length) ∧
    (∀ e ∈ (DisjH.initGo cs off ks).1, ∃ Li k', Ls[e.1 - off]? = some Li ∧
      (DisjH.initGo cs off ks).2[e.1 - off]? = some k' ∧ DKOk RelK B 0 Li k' (some e.2)) ∧
    (∀ (j : Nat) (Li : List Nat), Ls[j]? = some Li → (off + j) ∉ (DisjH.initGo cs off ks).1.map (·.1) → ∀ t ∈ Li, False)
  | _, _, _, .nil, off => by simp [DisjH.initGo]
  | _, _, _, .cons (Li := Li) (k := k) (Ls := Lt) (ks := kt) hp ht, off => by
    obtain ⟨i1, i2, i3, i4, i5⟩ := initGo_spec ht (off + 1)
    have hfresh := kid_fresh_call hK hp.2
    have hdk := dk_fresh_next hK hp.1 hp.2
    -- entries of the tail live beyond `off`
    have htail_ent : ∀ e ∈ (DisjH.initGo cs (off + 1) kt).1, ∃ Li' k', (Li :: Lt)[e.1 - off]? = some Li' ∧
        ((cs k .next).2 :: (DisjH.initGo cs (off + 1) kt).2)[e.1 - off]? = some k' ∧ DKOk RelK B 0 Li' k' (some e.2) := by
      intro e he
      obtain ⟨Li', k', h1, h2, h3⟩ := i4 e he
      have hb := i3 e he
      have hidx : e.1 - off = (e.1 - (off + 1)) + 1 := by omega
      exact ⟨Li', k', by rw [hidx]; simpa using h1, by rw [hidx]; simpa using h2, h3⟩
    have htail_gone : ∀ (j : Nat) (Li' : List Nat), Lt[j]? = some Li' →
        (off + (j + 1)) ∉ (DisjH.initGo cs (off + 1) kt).1.map (·.1) → ∀ t ∈ Li', False := by
      intro j Li' hLi' hni
      exact i5 j Li' hLi' (by rw [show off + 1 + j = off + (j + 1) by omega]; exact hni)
    simp only [DisjH.initGo]
    cases hr : (cs k .next).1 with
    | none =>
      rw [hr] at hfresh
      simp only
      refine ⟨by simp [i1], i2, ?_, htail_ent, ?_⟩
      · intro e he
        have := i3 e he
        simp only [List.length_cons]
        omega
      · intro j Li' hLi' hni
        cases j with
        | zero => simp at hLi'; subst hLi'; exact fun t ht => hfresh.1 t ht
        | succ j => exact htail_gone j Li' (by simpa using hLi') hni
    | some c =>
      rw [hr] at hdk
      simp only
      refine ⟨by simp [i1], ?_, ?_, ?_, ?_⟩
      · simp only [List.map_cons]
        refine List.pairwise_cons.mpr ⟨?_, i2⟩
        intro a ha
        obtain ⟨e, he, rfl⟩ := List.mem_map.mp ha
        have := i3 e he
        omega
      · intro e he
        simp only [List.length_cons]
        cases he with
        | head => simp only; omega
        | tail _ he => have := i3 e he; omega
      · intro e he
        cases he with
        | head => exact ⟨Li, (cs k .next).2, by simp, by simp, hdk⟩
        | tail _ he => exact htail_ent e he
      · intro j Li' hLi' hni
        cases j with
        | zero => simp at hni
        | succ j =>
          apply htail_gone j Li' (by simpa using hLi')
          intro hin
          exact hni (by simp only [List.map_cons]; exact List.mem_cons_of_mem _ hin)

include hK in
/-- `DisjunctionHeapSearcher` over iterators is an iterator over the docs in ≥ max min 1 children -/
theorem disjH_is_iter_aux {Ls : List (List Nat)} (hL : ∀ x, x ∈ L ↔ max min 1 ≤ cnt Ls x)
    (hB : ∀ Li ∈ Ls, ∀ y ∈ Li, y < B) (fuel : Nat) (hfuel : B + 1 ≤ fuel) :
    IsIter (DisjH.step cs fuel) (HeapRel RelK B min Ls) L := by
  constructor
  · -- next_fresh
    intro s h
    obtain ⟨hinit, hmin, hheap, hmat, hall⟩ := h
    show HeapGoal RelK L B min Ls 0 (DisjH.step cs fuel s .next)
    simp only [DisjH.step, DisjH.ensureInit, hinit, Bool.false_eq_true, ↓reduceIte]
    obtain ⟨i1, i2, i3, i4, i5⟩ := initGo_spec (B := B) hK hall 0
    have hinv : HInv RelK B Ls 0 (DisjH.initGo cs 0 s.kids).2 (DisjH.initGo cs 0 s.kids).1 := by
      refine ⟨?_, ?_, ?_, by rw [i1]; exact hall.len_kids⟩
      · exact List.Pairwise.imp (fun h => Nat.ne_of_lt h) i2
      · intro e he
        obtain ⟨Li, k', h1, h2, h3⟩ := i4 e he
        exact ⟨Li, k', by simpa using h1, by simpa using h2, h3⟩
      · intro i Li hLi hni t ht
        exact (i5 i Li hLi (by simpa using hni) t ht).elim
    have hrs := refresh_spec (ι := ι) ⟨(DisjH.initGo cs 0 s.kids).2, (DisjH.initGo cs 0 s.kids).1, s.matching, s.min, true⟩ hmat
    obtain ⟨r1, r2, r3, r4, r5⟩ := hrs
    refine heap_loop_exact hK hL hB fuel _ 0 r5 (r4.trans hmin) ?_ r2 (by omega)
    rw [r3]
    exact hinv.perm r1
  · -- next_at
    intro s lb h
    obtain ⟨hinit, hmin, hinv, hR⟩ := h
    show HeapGoal RelK L B min Ls lb (DisjH.step cs fuel s .next)
    simp only [DisjH.step, DisjH.ensureInit, hinit, ↓reduceIte]
    exact heap_loop_exact hK hL hB fuel s lb hinit hmin hinv hR (by omega)
  · -- adv_at
    intro s lb n h hn
    obtain ⟨hinit, hmin, hinv, hR⟩ := h
    show HeapGoal RelK L B min Ls n (DisjH.step cs fuel s (.adv n))
    cases s with
    | mk kids heap matching smin init =>
    simp only at hinit hmin hinv hR
    subst hinit
    simp only [DisjH.step, DisjH.ensureInit, ↓reduceIte]
    have hal := advLoop_exact (lb := lb) (n := n) hK hn (heap ++ matching).length
      ⟨kids, heap ++ matching, [], smin, true⟩ [] (Nat.le_refl _)
      (by simpa using hinv.nodup) (by intro e he; exact hinv.ent e he) (by intro e he; cases he)
      (by
        intro i Li hLi hni t ht
        have := hinv.gone i Li hLi (by simpa using hni) t ht
        omega)
      hinv.len
    obtain ⟨a1, a2, a3, a4⟩ := hal
    simp only at a2 a3 a4
    obtain ⟨r1, r2, r3, r4, r5⟩ := refresh_spec (ι := ι)
      ⟨(DisjH.advLoop cs n (heap ++ matching).length ⟨kids, heap ++ matching, [], smin, true⟩ []).2.kids,
       (DisjH.advLoop cs n (heap ++ matching).length ⟨kids, heap ++ matching, [], smin, true⟩ []).2.heap ++
         (DisjH.advLoop cs n (heap ++ matching).length ⟨kids, heap ++ matching, [], smin, true⟩ []).1,
       (DisjH.advLoop cs n (heap ++ matching).length ⟨kids, heap ++ matching, [], smin, true⟩ []).2.matching,
       (DisjH.advLoop cs n (heap ++ matching).length ⟨kids, heap ++ matching, [], smin, true⟩ []).2.min,
       (DisjH.advLoop cs n (heap ++ matching).length ⟨kids, heap ++ matching, [], smin, true⟩ []).2.init⟩ a2
    refine heap_loop_exact hK hL hB fuel _ n (r5.trans a4) (r4.trans (a3.trans hmin)) ?_ r2 (by omega)
    rw [r3]
    exact a1.perm r1
  · -- done_sound
    intro s p c h
    obtain ⟨hinit, hmin, hs, hR⟩ := h
    cases s with
    | mk kids heap matching smin init =>
    simp only at hinit hmin hs hR
    subst hinit
    cases c with
    | next =>
      have := heap_loop_sound (B := B) hK hL fuel p ⟨kids, heap, matching, smin, true⟩ rfl hmin hs hR
      simp only [DisjH.step, DisjH.ensureInit, ↓reduceIte]
      exact ⟨fun d hd => ⟨(this.1 d hd).1, fun _ => (this.1 d hd).2.1, (by intro n hn; cases hn), (this.1 d hd).2.2⟩, this.2⟩
    | adv n =>
      simp only [DisjH.step, DisjH.ensureInit, ↓reduceIte]
      have hal := advLoop_sound (p := p) (n := n) hK (heap ++ matching).length
        ⟨kids, heap ++ matching, [], smin, true⟩ [] (Nat.le_refl _)
        (by simpa using hs.1) (by intro e he; exact hs.2.1 e he) (by intro e he; cases he) hs.2.2
      obtain ⟨a1, a2, a3, a4⟩ := hal
      simp only at a2 a3 a4
      obtain ⟨r1, r2, r3, r4, r5⟩ := refresh_spec (ι := ι)
        ⟨(DisjH.advLoop cs n (heap ++ matching).length ⟨kids, heap ++ matching, [], smin, true⟩ []).2.kids,
         (DisjH.advLoop cs n (heap ++ matching).length ⟨kids, heap ++ matching, [], smin, true⟩ []).2.heap ++
           (DisjH.advLoop cs n (heap ++ matching).length ⟨kids, heap ++ matching, [], smin, true⟩ []).1,
         (DisjH.advLoop cs n (heap ++ matching).length ⟨kids, heap ++ matching, [], smin, true⟩ []).2.matching,
         (DisjH.advLoop cs n (heap ++ matching).length ⟨kids, heap ++ matching, [], smin, true⟩ []).2.min,
         (DisjH.advLoop cs n (heap ++ matching).length ⟨kids, heap ++ matching, [], smin, true⟩ []).2.init⟩ a2
      have := heap_loop_sound (B := B) hK hL fuel n _ (r5.trans a4) (r4.trans (a3.trans hmin))
        (by rw [r3]; exact hsnd_perm a1 r1) r2
      exact ⟨fun d hd => ⟨(this.1 d hd).1, (by intro hc; cases hc), (by intro m hm; cases hm; exact (this.1 d hd).2.1),
        (this.1 d hd).2.2⟩, this.2⟩
  · -- done_mono
    intro s p p' h hle
    obtain ⟨hinit, hmin, hs, hR⟩ := h
    exact ⟨hinit, hmin, hsnd_mono hs hle, hR⟩

end
end Bluge.C07

import BlugeProofs.C07.BoolIter
/-! `FilteringSearcher` and `PhraseSearcher` (as a cursor over its must-conjunction with a per-document
test) are sorted-list iterators over the accepted documents of their child. -/
namespace Bluge.C07
open Bluge.Search

section filt
variable {ι : Type} {cs : Step ι} {RelK : List Nat → ι → Phase → Prop} {B : Nat} {Lk L : List Nat} {acc : List Nat}
variable (hK : ∀ Li, IsIter cs (RelK Li) Li)

def FiltRel (RelK : List Nat → ι → Phase → Prop) (B : Nat) (Lk acc : List Nat) (s : Filt ι) : Phase → Prop
  | .fresh => RelK Lk s.kid .fresh ∧ s.acc = acc ∧ ∀ y ∈ Lk, y < B
  | .at lb => RelK Lk s.kid (.at lb) ∧ s.acc = acc ∧ lb ≤ B ∧ ∀ y ∈ Lk, y < B
  | .done p => RelK Lk s.kid (.done p) ∧ s.acc = acc

include hK in
theorem filt_loop_exact (hL : ∀ x, x ∈ L ↔ x ∈ Lk ∧ acc.contains x = true) (hB : ∀ y ∈ Lk, y < B) :
    ∀ (f : Nat) (s : Filt ι) (lb : Nat), (RelK Lk s.kid (.at lb) ∨ (RelK Lk s.kid .fresh ∧ lb = 0)) → s.acc = acc →
      lb ≤ B → B + 1 ≤ f + lb →
      IsFirstGE L lb (Filt.nextLoop cs f s).1 ∧
      FiltRel RelK B Lk acc (Filt.nextLoop cs f s).2 (after (Filt.nextLoop cs f s).1) := by
  intro f
  induction f with
  | zero => intro s lb _ _ h1 h2; omega
  | succ f ih =>
    intro s lb hrel hacc hlb hf
    have hcall : match (cs s.kid .next).1 with
        | some d => d ∈ Lk ∧ lb ≤ d ∧ (∀ t ∈ Lk, lb ≤ t → d ≤ t) ∧ RelK Lk (cs s.kid .next).2 (.at (d + 1))
        | none => (∀ t ∈ Lk, t < lb) ∧ RelK Lk (cs s.kid .next).2 (.done 0) := by
      rcases hrel with h | ⟨h, h0⟩
      · exact kid_next_call hK h
      · subst h0
        have := kid_fresh_call hK h
        cases hr : (cs s.kid .next).1 with
        | none => rw [hr] at this; exact ⟨fun t ht => (this.1 t ht).elim, this.2⟩
        | some d => rw [hr] at this; exact ⟨this.1, Nat.zero_le _, fun t ht _ => this.2.1 t ht, this.2.2⟩
    rw [Filt.nextLoop]
    cases hr : (cs s.kid .next).1 with
    | none =>
      rw [hr] at hcall
      simp only
      exact ⟨fun t ht => hcall.1 t ((hL t).mp ht).1, hcall.2, hacc⟩
    | some d =>
      rw [hr] at hcall
      simp only
      have hdB := hB d hcall.1
      by_cases ha : s.acc.contains d = true
      · simp only [ha, ↓reduceIte]
        refine ⟨⟨(hL d).mpr ⟨hcall.1, by rw [← hacc]; exact ha⟩, hcall.2.1, fun t ht hbt => hcall.2.2.1 t ((hL t).mp ht).1 hbt⟩, ?_⟩
        exact ⟨hcall.2.2.2, hacc, by omega, hB⟩
      · simp only [ha, Bool.false_eq_true, ↓reduceIte]
        have := ih { s with kid := (cs s.kid .next).2 } (d + 1) (Or.inl hcall.2.2.2) hacc (by omega) (by omega)
        refine ⟨isFirstGE_skip this.1 ?_ (fun t ht hbt => hcall.2.2.1 t ((hL t).mp ht).1 hbt) hcall.2.1, this.2⟩
        intro hd
        have := ((hL d).mp hd).2
        rw [← hacc] at this
        exact ha this

include hK in
theorem filt_loop_sound (hL : ∀ x, x ∈ L ↔ x ∈ Lk ∧ acc.contains x = true) :
    ∀ (f : Nat) (s : Filt ι) (p : Nat), RelK Lk s.kid (.done p) → s.acc = acc →
      (∀ d, (Filt.nextLoop cs f s).1 = some d → d ∈ L ∧ p ≤ d ∧
        FiltRel RelK B Lk acc (Filt.nextLoop cs f s).2 (.done (d + 1))) ∧
      ((Filt.nextLoop cs f s).1 = none → FiltRel RelK B Lk acc (Filt.nextLoop cs f s).2 (.done 0)) := by
  intro f
  induction f with
  | zero =>
    intro s p h hacc
    rw [Filt.nextLoop]
    exact ⟨(by intro d hd; cases hd), fun _ => ⟨(hK Lk).done_mono _ _ _ h (Nat.zero_le _), hacc⟩⟩
  | succ f ih =>
    intro s p h hacc
    have hcall := kid_done_call hK .next h
    rw [Filt.nextLoop]
    cases hr : (cs s.kid .next).1 with
    | none =>
      rw [hr] at hcall
      simp only
      exact ⟨(by intro d hd; cases hd), fun _ => ⟨hcall, hacc⟩⟩
    | some d =>
      rw [hr] at hcall
      simp only
      by_cases ha : s.acc.contains d = true
      · simp only [ha, ↓reduceIte]
        refine ⟨?_, (by intro hn; cases hn)⟩
        intro d' hd'
        cases hd'
        exact ⟨(hL d).mpr ⟨hcall.1, by rw [← hacc]; exact ha⟩, hcall.2.1 rfl, hcall.2.2.2, hacc⟩
      · simp only [ha, Bool.false_eq_true, ↓reduceIte]
        have := ih { s with kid := (cs s.kid .next).2 } (d + 1) hcall.2.2.2 hacc
        have hpd := hcall.2.1 rfl
        exact ⟨fun d' hd' => ⟨(this.1 d' hd').1, by have := (this.1 d' hd').2.1; omega, (this.1 d' hd').2.2⟩, this.2⟩

include hK in
theorem filt_is_iter_aux (hL : ∀ x, x ∈ L ↔ x ∈ Lk ∧ acc.contains x = true) (fuel : Nat) (hfuel : B + 1 ≤ fuel) :
    IsIter (Filt.step cs fuel) (FiltRel RelK B Lk acc) L := by
  constructor
  · intro s h
    obtain ⟨h1, h2, h3⟩ := h
    exact filt_loop_exact hK hL h3 fuel s 0 (Or.inr ⟨h1, rfl⟩) h2 (Nat.zero_le _) (by omega)
  · intro s lb h
    obtain ⟨h1, h2, h3, h4⟩ := h
    exact filt_loop_exact hK hL h4 fuel s lb (Or.inl h1) h2 h3 (by omega)
  · intro s lb n h hn
    obtain ⟨h1, h2, h3, h4⟩ := h
    have hcall := kid_adv_call hK h1 hn
    show IsFirstGE L n (Filt.step cs fuel s (.adv n)).1 ∧ FiltRel RelK B Lk acc (Filt.step cs fuel s (.adv n)).2 (after (Filt.step cs fuel s (.adv n)).1)
    simp only [Filt.step]
    cases hr : (cs s.kid (.adv n)).1 with
    | none =>
      rw [hr] at hcall
      simp only
      exact ⟨fun t ht => hcall.1 t ((hL t).mp ht).1, hcall.2, h2⟩
    | some d =>
      rw [hr] at hcall
      simp only
      have hdB := h4 d hcall.1
      by_cases ha : s.acc.contains d = true
      · simp only [ha, ↓reduceIte]
        exact ⟨⟨(hL d).mpr ⟨hcall.1, by rw [← h2]; exact ha⟩, hcall.2.1, fun t ht hbt => hcall.2.2.1 t ((hL t).mp ht).1 hbt⟩,
          hcall.2.2.2, h2, by omega, h4⟩
      · simp only [ha, Bool.false_eq_true, ↓reduceIte]
        have := filt_loop_exact hK hL h4 fuel { s with kid := (cs s.kid (.adv n)).2 } (d + 1) (Or.inl hcall.2.2.2) h2
          (by omega) (by omega)
        refine ⟨isFirstGE_skip this.1 ?_ (fun t ht hbt => hcall.2.2.1 t ((hL t).mp ht).1 hbt) hcall.2.1, this.2⟩
        intro hd
        have := ((hL d).mp hd).2
        rw [← h2] at this
        exact ha this
  · intro s p c h
    obtain ⟨h1, h2⟩ := h
    cases c with
    | next =>
      have := filt_loop_sound (B := B) hK hL fuel s p h1 h2
      simp only [Filt.step]
      exact ⟨fun d hd => ⟨(this.1 d hd).1, fun _ => (this.1 d hd).2.1, (by intro n hn; cases hn), (this.1 d hd).2.2⟩, this.2⟩
    | adv n =>
      have hcall := kid_done_call hK (.adv n) h1
      simp only [Filt.step]
      cases hr : (cs s.kid (.adv n)).1 with
      | none =>
        rw [hr] at hcall
        simp only
        exact ⟨(by intro d hd; cases hd), fun _ => ⟨hcall, h2⟩⟩
      | some d =>
        rw [hr] at hcall
        simp only
        have hnd := hcall.2.2.1 n rfl
        by_cases ha : s.acc.contains d = true
        · simp only [ha, ↓reduceIte]
          refine ⟨?_, (by intro hn; cases hn)⟩
          intro d' hd'
          cases hd'
          exact ⟨(hL d).mpr ⟨hcall.1, by rw [← h2]; exact ha⟩, (by intro hc; cases hc),
            (by intro m hm; cases hm; exact hnd), hcall.2.2.2, h2⟩
        · simp only [ha, Bool.false_eq_true, ↓reduceIte]
          have := filt_loop_sound (B := B) hK hL fuel { s with kid := (cs s.kid (.adv n)).2 } (d + 1) hcall.2.2.2 h2
          refine ⟨fun d' hd' => ⟨(this.1 d' hd').1, (by intro hc; cases hc), ?_, (this.1 d' hd').2.2⟩, this.2⟩
          intro m hm; cases hm
          have := (this.1 d' hd').2.1
          omega
  · intro s p p' h hle
    exact ⟨(hK Lk).done_mono _ _ _ h.1 hle, h.2⟩

end filt

section phrase
variable {ι : Type} {cs : Step ι} {RelK : List Nat → ι → Phase → Prop} {B : Nat} {Lk L : List Nat} {ok : List Nat}
variable (hK : ∀ Li, IsIter cs (RelK Li) Li)

def PhraseRel (RelK : List Nat → ι → Phase → Prop) (B : Nat) (Lk ok : List Nat) (s : PhraseS ι) : Phase → Prop
  | .fresh => s.init = false ∧ s.ok = ok ∧ RelK Lk s.must .fresh ∧ ∀ y ∈ Lk, y < B
  | .at lb => s.init = true ∧ s.ok = ok ∧ DKOk RelK B lb Lk s.must s.currMust
  | .done _ => s.init = true ∧ s.ok = ok ∧ s.currMust = none

include hK in
theorem phrase_loop_exact (hL : ∀ x, x ∈ L ↔ x ∈ Lk ∧ ok.contains x = true) :
    ∀ (f : Nat) (s : PhraseS ι) (lb : Nat), s.init = true → s.ok = ok → DKOk RelK B lb Lk s.must s.currMust →
      B + 1 ≤ f + lb →
      IsFirstGE L lb (PhraseS.nextLoop cs f s).1 ∧
      PhraseRel RelK B Lk ok (PhraseS.nextLoop cs f s).2 (after (PhraseS.nextLoop cs f s).1) := by
  intro f
  induction f with
  | zero =>
    intro s lb hinit hok h hf
    rw [PhraseS.nextLoop]
    cases hc : s.currMust with
    | some c => rw [hc] at h; have := h.1 c h.2.1; have := h.2.2.1; omega
    | none =>
      rw [hc] at h
      exact ⟨fun t ht => h.2.2 t ((hL t).mp ht).1, hinit, hok, hc⟩
  | succ f ih =>
    intro s lb hinit hok h hf
    rw [PhraseS.nextLoop]
    cases hc : s.currMust with
    | none =>
      rw [hc] at h
      simp only
      exact ⟨fun t ht => h.2.2 t ((hL t).mp ht).1, hinit, hok, hc⟩
    | some d =>
      rw [hc] at h
      simp only
      have hnx := dk_next hK h
      have hs1 : DKOk RelK B (d + 1) Lk (PhraseS.advanceNextMust cs s).must (PhraseS.advanceNextMust cs s).currMust := hnx.1
      by_cases ha : s.ok.contains d = true
      · simp only [ha, ↓reduceIte]
        exact ⟨⟨(hL d).mpr ⟨h.2.1, by rw [← hok]; exact ha⟩, h.2.2.1, fun t ht hbt => h.2.2.2.1 t ((hL t).mp ht).1 hbt⟩,
          hinit, hok, hs1⟩
      · simp only [ha, Bool.false_eq_true, ↓reduceIte]
        have hdB := h.1 d h.2.1
        have hld := h.2.2.1
        have := ih (PhraseS.advanceNextMust cs s) (d + 1) hinit hok hs1 (by omega)
        refine ⟨isFirstGE_skip this.1 ?_ (fun t ht hbt => h.2.2.2.1 t ((hL t).mp ht).1 hbt) h.2.2.1, this.2⟩
        intro hd
        have := ((hL d).mp hd).2
        rw [← hok] at this
        exact ha this

include hK in
theorem phrase_is_iter_aux (hL : ∀ x, x ∈ L ↔ x ∈ Lk ∧ ok.contains x = true) (fuel : Nat) (hfuel : B + 1 ≤ fuel) :
    IsIter (PhraseS.step cs fuel) (PhraseRel RelK B Lk ok) L := by
  have hdone : ∀ (f : Nat) (s : PhraseS ι), s.currMust = none → PhraseS.nextLoop cs f s = (none, s) := by
    intro f s h
    cases f <;> simp [PhraseS.nextLoop, h]
  constructor
  · intro s h
    obtain ⟨h1, h2, h3, h4⟩ := h
    simp only [PhraseS.step, PhraseS.ensureInit, h1, Bool.false_eq_true, ↓reduceIte]
    exact phrase_loop_exact hK hL fuel _ 0 rfl h2 (dk_fresh_next hK h4 h3) (by omega)
  · intro s lb h
    obtain ⟨h1, h2, h3⟩ := h
    simp only [PhraseS.step, PhraseS.ensureInit, h1, ↓reduceIte]
    exact phrase_loop_exact hK hL fuel s lb h1 h2 h3 (by omega)
  · intro s lb n h hn
    obtain ⟨h1, h2, h3⟩ := h
    show IsFirstGE L n (PhraseS.step cs fuel s (.adv n)).1 ∧
      PhraseRel RelK B Lk ok (PhraseS.step cs fuel s (.adv n)).2 (after (PhraseS.step cs fuel s (.adv n)).1)
    cases s with
    | mk must currMust ok' init =>
    simp only at h1 h2 h3
    subst h1 h2
    simp only [PhraseS.step, PhraseS.ensureInit, ↓reduceIte]
    cases currMust with
    | none =>
      simp only
      exact ⟨fun t ht => by have := h3.2.2 t ((hL t).mp ht).1; omega, rfl, rfl, rfl⟩
    | some d =>
      simp only
      by_cases hnd : n ≤ d
      · simp only [hnd, ↓reduceIte]
        exact phrase_loop_exact hK hL fuel _ n rfl rfl (dk_keep h3 hn hnd) (by omega)
      · simp only [hnd, ↓reduceIte]
        have := dk_advn hK h3 hn (by intro x hx; cases hx; omega)
        exact phrase_loop_exact hK hL fuel ⟨(cs must (.adv n)).2, (cs must (.adv n)).1, ok', true⟩
          n rfl rfl this (by omega)
  · intro s p c h
    obtain ⟨h1, h2, h3⟩ := h
    cases c with
    | next =>
      simp only [PhraseS.step, PhraseS.ensureInit, h1, ↓reduceIte, hdone fuel s h3]
      exact ⟨(by intro d hd; cases hd), fun _ => ⟨h1, h2, h3⟩⟩
    | adv n =>
      simp only [PhraseS.step, PhraseS.ensureInit, h1, ↓reduceIte, h3]
      exact ⟨(by intro d hd; cases hd), fun _ => ⟨h1, h2, h3⟩⟩
  · intro s p p' h _
    exact h

end phrase
end Bluge.C07

import BlugeProofs.C07.PostSeg
/-! `postingsIterator.Next` / `Advance` as a scan over the segments from `segmentOffset` on. -/
namespace Bluge.C07
open Bluge.Search

/-- the `Next` loop on the list of segments from `segmentOffset` on:
(answer, number of exhausted segments stepped over, the segments with their iterators updated) -/
def scan : List PSeg → Resp × Nat × List PSeg
  | [] => (none, 0, [])
  | g :: t =>
    match g.it.next.1 with
    | some x => (some (x + g.off), 0, { g with it := g.it.next.2 } :: t)
    | none => ((scan t).1, (scan t).2.1 + 1, { g with it := g.it.next.2 } :: (scan t).2.2)

/-- the iterator after a scan: `pre` = the segments before `segmentOffset` -/
def finish (s : PIter) (pre : List PSeg) (r : Resp × Nat × List PSeg) : PIter :=
  { kind := s.kind, segs := pre ++ r.2.2, segOff := pre.length + r.2.1,
    started := match r.1 with
      | some _ => if s.kind == .all then s.started else true
      | none => s.started,
    curr := match r.1 with
      | some d => if s.kind == .all then s.curr else d
      | none => s.curr }

theorem modify_append_length {α} (pre : List α) (g : α) (t : List α) (f : α → α) :
    (pre ++ g :: t).modify pre.length f = pre ++ f g :: t := by
  induction pre with
  | nil => simp [List.modify]
  | cons a p ih => simp [List.modify_succ_cons, ih]

theorem getElem?_append_length {α} (pre : List α) (g : α) (t : List α) :
    (pre ++ g :: t)[pre.length]? = some g := by
  simp

theorem getElem?_length_append_nil {α} (pre : List α) : (pre ++ ([] : List α))[pre.length]? = none := by
  simp

theorem scan_length (post : List PSeg) : (scan post).2.2.length = post.length := by
  induction post with
  | nil => rfl
  | cons g t ih =>
    unfold scan
    cases g.it.next.1 <;> simp [ih]

/-- `nextLoop` with enough iterations is `scan` on the segments from `segmentOffset` on -/
theorem nextLoop_scan : ∀ (post pre : List PSeg) (k : Nat) (s : PIter),
    s.segs = pre ++ post → s.segOff = pre.length → post.length < k →
    PIter.nextLoop k s = ((scan post).1, finish s pre (scan post)) := by
  intro post
  induction post with
  | nil =>
    intro pre k s hs ho hk
    cases k with
    | zero => omega
    | succ k =>
      unfold PIter.nextLoop
      rw [hs, ho, getElem?_length_append_nil]
      simp only [scan, finish]
      congr 1
      cases s
      simp only at hs ho
      simp [hs, ho]
  | cons g t ih =>
    intro pre k s hs ho hk
    cases k with
    | zero => omega
    | succ k =>
      unfold PIter.nextLoop
      rw [hs, ho, getElem?_append_length]
      simp only
      cases hr : g.it.next.1 with
      | some x =>
        simp only [scan, hr, finish, PIter.setIt, hs, ho, modify_append_length, Nat.add_zero]
        cases hk' : (s.kind == LeafKind.all) <;> simp
      | none =>
        simp only
        have := ih (pre ++ [{ g with it := g.it.next.2 }]) k
          { (s.setIt pre.length g.it.next.2) with segOff := pre.length + 1 }
          (by simp [PIter.setIt, hs, modify_append_length])
          (by simp) (by simp only [List.length_cons] at hk; omega)
        rw [ho] at *
        rw [this]
        simp only [scan, hr, finish, PIter.setIt, List.append_assoc, List.cons_append, List.nil_append,
          List.length_append, List.length_cons, List.length_nil]
        congr 2
        omega

theorem next_scan (s : PIter) (pre post : List PSeg) (hs : s.segs = pre ++ post) (ho : s.segOff = pre.length) :
    s.next = ((scan post).1, finish s pre (scan post)) := by
  unfold PIter.next
  apply nextLoop_scan post pre _ s hs ho
  rw [hs, ho]
  simp only [List.length_append]
  omega

/-- `Advance`, once the target segment is known: a scan from that segment on, after `AdvanceIfNeeded` on
its iterator — for `postingsIterator` (`Advance` on the segment iterator, falling through to `Next()`)
and for `postingsIteratorAll` alike -/
theorem seek_scan (s1 : PIter) (pre : List PSeg) (g : PSeg) (t : List PSeg) (n : Nat)
    (hs : s1.segs = pre ++ g :: t) :
    (if s1.kind == .all then
        (({ s1 with segOff := pre.length } : PIter).setIt pre.length (g.it.advanceIfNeeded (n - g.off))).next
      else
        match (g.it.adv (n - g.off)).1 with
        | none => (({ s1 with segOff := pre.length } : PIter).setIt pre.length (g.it.adv (n - g.off)).2).next
        | some x => (some (x + g.off),
            { (({ s1 with segOff := pre.length } : PIter).setIt pre.length (g.it.adv (n - g.off)).2) with
                started := true, curr := x + g.off })) =
    ((scan ({ g with it := g.it.advanceIfNeeded (n - g.off) } :: t)).1,
      finish s1 pre (scan ({ g with it := g.it.advanceIfNeeded (n - g.off) } :: t))) := by
  cases hk : (s1.kind == LeafKind.all) with
  | true =>
    simp only [↓reduceIte]
    have := next_scan (({ s1 with segOff := pre.length } : PIter).setIt pre.length (g.it.advanceIfNeeded (n - g.off)))
      pre ({ g with it := g.it.advanceIfNeeded (n - g.off) } :: t)
      (by simp [PIter.setIt, hs, modify_append_length]) (by simp [PIter.setIt])
    rw [this]
    simp [finish, PIter.setIt]
  | false =>
    simp only [Bool.false_eq_true, ↓reduceIte]
    rw [SegIt.adv_eq]
    cases hr : (g.it.advanceIfNeeded (n - g.off)).next.1 with
    | some x =>
      simp only [scan, hr, finish, hk, PIter.setIt, hs, modify_append_length, Nat.add_zero]
      simp
    | none =>
      simp only
      have := next_scan (({ s1 with segOff := pre.length } : PIter).setIt pre.length (g.it.advanceIfNeeded (n - g.off)).next.2)
        pre ({ g with it := (g.it.advanceIfNeeded (n - g.off)).next.2 } :: t)
        (by simp [PIter.setIt, hs, modify_append_length]) (by simp [PIter.setIt])
      rw [this]
      have hidem := SegIt.next_none_idem _ hr
      simp only [scan, hr, hidem, finish, PIter.setIt]
      rfl

end Bluge.C07

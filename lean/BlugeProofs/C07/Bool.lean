import BlugeProofs.C07.Disj
/-! `BooleanSearcher`: invariants and the three phases of one loop iteration
(`advanceNextMust`, the must-not test, the should test). -/
namespace Bluge.C07
open Bluge.Search

/-- membership in the boolean's result, from the (optional) lists of its three children:
candidate from must, else from should; not in must-not; with must and should both present, in should
unless `shouldSearcher.Min() == 0` -/
def DrvMem (Lm Ls : Option (List Nat)) (x : Nat) : Prop :=
  match Lm with
  | some M => x ∈ M
  | none => match Ls with | some S => x ∈ S | none => False

def BMem (Lm Ls Ln : Option (List Nat)) (smin : Nat) (x : Nat) : Prop :=
  DrvMem Lm Ls x ∧
  (∀ N, Ln = some N → x ∉ N) ∧
  (∀ M S, Lm = some M → Ls = some S → smin = 0 ∨ x ∈ S)

section defs
variable {ι : Type} (RelK : List Nat → ι → Phase → Prop) (B : Nat)

/-- a follower (must-not; should under a must): a live cursor that has skipped no element `≥ b` -/
def FOk (b : Nat) (Li : List Nat) (k : ι) : Resp → Prop
  | some y => y ∈ Li ∧ RelK Li k (.at (y + 1)) ∧ ∀ t ∈ Li, b ≤ t → y ≤ t
  | none => RelK Li k (.done 0) ∧ ∀ t ∈ Li, t < b

/-- optional follower -/
def OptF (b : Nat) (Lo : Option (List Nat)) (ko : Option ι) (c : Resp) : Prop :=
  match Lo, ko with
  | some Li, some k => FOk RelK b Li k c
  | none, none => c = none
  | _, _ => False

variable (Lm Ls : Option (List Nat)) (smin : Nat)

/-- the candidate source (must, else should) and the should follower -/
def DriverInv (b : Nat) (s : BoolS ι) : Prop :=
  match Lm, Ls with
  | some M, some S => ∃ km ks, s.must = some km ∧ s.should = some ks ∧ DKOk RelK B b M km s.currMust ∧
      s.currentMatch = s.currMust ∧ (smin = 0 ∨ FOk RelK b S ks s.currShould)
  | some M, none => ∃ km, s.must = some km ∧ s.should = none ∧ s.currShould = none ∧
      DKOk RelK B b M km s.currMust ∧ s.currentMatch = s.currMust
  | none, some S => ∃ ks, s.must = none ∧ s.should = some ks ∧ DKOk RelK B b S ks s.currShould ∧
      s.currentMatch = s.currShould
  | none, none => False

variable (Ln : Option (List Nat))

/-- loop invariant at lower bound `b` -/
structure LInv (b : Nat) (s : BoolS ι) : Prop where
  init : s.init = true
  ndone : s.done = false
  hsmin : s.shouldMin = smin
  drv : DriverInv RelK B Lm Ls smin b s
  mn : OptF RelK b Ln s.mustNot s.currMustNot

/-- at a call boundary the should follower (under a must, `Min() > 0`) is behind the lower bound -/
def ShouldBehind (lb : Nat) (s : BoolS ι) : Prop :=
  match Lm, Ls with
  | some _, some _ => smin = 0 ∨ ∀ sh, s.currShould = some sh → sh < lb
  | _, _ => True

def BoolRel (s : BoolS ι) : Phase → Prop
  | .fresh => s.init = false ∧ s.done = false ∧ s.shouldMin = smin ∧
      (match Lm, s.must with | some M, some k => (∀ y ∈ M, y < B) ∧ RelK M k .fresh | none, none => True | _, _ => False) ∧
      (match Ls, s.should with | some S, some k => (∀ y ∈ S, y < B) ∧ RelK S k .fresh | none, none => True | _, _ => False) ∧
      (match Ln, s.mustNot with | some N, some k => RelK N k .fresh | none, none => True | _, _ => False) ∧
      (Lm.isSome ∨ Ls.isSome)
  | .at lb => LInv RelK B Lm Ls smin Ln lb s ∧ ShouldBehind Lm Ls smin lb s
  | .done _ => s.done = true

end defs

section lemmas
variable {ι : Type} {cs : Step ι} {RelK : List Nat → ι → Phase → Prop} {B : Nat}
variable {Lm Ls Ln : Option (List Nat)} {smin : Nat}
variable (hK : ∀ Li, IsIter cs (RelK Li) Li)

theorem fok_mono {b b' Li} {k : ι} {c : Resp} (h : FOk RelK b Li k c) (hle : b ≤ b') : FOk RelK b' Li k c := by
  cases c with
  | none => exact ⟨h.1, fun t ht => by have := h.2 t ht; omega⟩
  | some y => exact ⟨h.1, h.2.1, fun t ht hbt => h.2.2 t ht (by omega)⟩

theorem optf_mono {b b' Lo} {ko : Option ι} {c : Resp} (h : OptF RelK b Lo ko c) (hle : b ≤ b') :
    OptF RelK b' Lo ko c := by
  cases Lo <;> cases ko <;> simp only [OptF] at h ⊢
  · exact h
  · exact fok_mono h hle

theorem callOpt_some (k : ι) (c : Call) : BoolS.callOpt cs (some k) c = ((cs k c).1, some (cs k c).2) := rfl

/-- raising the lower bound up to the candidate -/
theorem linv_raise {b b' : Nat} {s : BoolS ι} {cand : Nat} (h : LInv RelK B Lm Ls smin Ln b s)
    (hc : s.currentMatch = some cand) (hb : b ≤ b') (hb' : b' ≤ cand) : LInv RelK B Lm Ls smin Ln b' s := by
  refine ⟨h.init, h.ndone, h.hsmin, ?_, optf_mono h.mn hb⟩
  have hd := h.drv
  cases Lm with
  | none =>
    cases Ls with
    | none => exact hd
    | some S =>
      obtain ⟨ks, h1, h2, h3, h4⟩ := hd
      rw [hc] at h4
      rw [← h4] at h3
      exact ⟨ks, h1, h2, by rw [← h4]; exact dk_keep h3 hb hb', by rw [hc]; exact h4⟩
  | some M =>
    cases Ls with
    | none =>
      obtain ⟨km, h1, h2, h3, h4, h5⟩ := hd
      rw [hc] at h5
      rw [← h5] at h4
      exact ⟨km, h1, h2, h3, by rw [← h5]; exact dk_keep h4 hb hb', by rw [hc]; exact h5⟩
    | some S =>
      obtain ⟨km, ks, h1, h2, h3, h4, h5⟩ := hd
      rw [hc] at h4
      rw [← h4] at h3
      exact ⟨km, ks, h1, h2, by rw [← h4]; exact dk_keep h3 hb hb', by rw [hc]; exact h4,
        h5.elim Or.inl (fun h => Or.inr (fok_mono h hb))⟩

/-- facts about the candidate drawn from the driver -/
theorem linv_cand {b : Nat} {s : BoolS ι} {cand : Nat} (h : LInv RelK B Lm Ls smin Ln b s)
    (hc : s.currentMatch = some cand) :
    b ≤ cand ∧ cand < B ∧ DrvMem Lm Ls cand ∧ (∀ t, DrvMem Lm Ls t → b ≤ t → cand ≤ t) := by
  have hd := h.drv
  cases Lm with
  | none =>
    cases Ls with
    | none => exact hd.elim
    | some S =>
      obtain ⟨ks, h1, h2, h3, h4⟩ := hd
      rw [hc] at h4; rw [← h4] at h3
      exact ⟨h3.2.2.1, h3.1 cand h3.2.1, h3.2.1, fun t ht hbt => h3.2.2.2.1 t ht hbt⟩
  | some M =>
    cases Ls with
    | none =>
      obtain ⟨km, h1, h2, h3, h4, h5⟩ := hd
      rw [hc] at h5; rw [← h5] at h4
      exact ⟨h4.2.2.1, h4.1 cand h4.2.1, h4.2.1, fun t ht hbt => h4.2.2.2.1 t ht hbt⟩
    | some S =>
      obtain ⟨km, ks, h1, h2, h3, h4, h5⟩ := hd
      rw [hc] at h4; rw [← h4] at h3
      exact ⟨h3.2.2.1, h3.1 cand h3.2.1, h3.2.1, fun t ht hbt => h3.2.2.2.1 t ht hbt⟩

/-- when the driver is exhausted nothing `≥ b` is left -/
theorem linv_none {b : Nat} {s : BoolS ι} (h : LInv RelK B Lm Ls smin Ln b s) (hc : s.currentMatch = none) :
    ∀ t, DrvMem Lm Ls t → t < b := by
  have hd := h.drv
  cases Lm with
  | none =>
    cases Ls with
    | none => exact hd.elim
    | some S =>
      obtain ⟨ks, h1, h2, h3, h4⟩ := hd
      rw [hc] at h4; rw [← h4] at h3
      exact fun t ht => h3.2.2 t ht
  | some M =>
    cases Ls with
    | none =>
      obtain ⟨km, h1, h2, h3, h4, h5⟩ := hd
      rw [hc] at h5; rw [← h5] at h4
      exact fun t ht => h4.2.2 t ht
    | some S =>
      obtain ⟨km, ks, h1, h2, h3, h4, h5⟩ := hd
      rw [hc] at h4; rw [← h4] at h3
      exact fun t ht => h3.2.2 t ht

/-- every driver element is below `B` -/
theorem linv_bound {b : Nat} {s : BoolS ι} (h : LInv RelK B Lm Ls smin Ln b s) :
    ∀ t, DrvMem Lm Ls t → t < B := by
  have hd := h.drv
  have aux : ∀ {b Li} {k : ι} {c : Resp}, DKOk RelK B b Li k c → ∀ y ∈ Li, y < B := by
    intro b Li k c h; cases c <;> exact h.1
  cases Lm with
  | none =>
    cases Ls with
    | none => exact hd.elim
    | some S => obtain ⟨ks, h1, h2, h3, h4⟩ := hd; exact fun t ht => aux h3 t ht
  | some M =>
    cases Ls with
    | none => obtain ⟨km, h1, h2, h3, h4, h5⟩ := hd; exact fun t ht => aux h4 t ht
    | some S => obtain ⟨km, ks, h1, h2, h3, h4, h5⟩ := hd; exact fun t ht => aux h3 t ht

include hK in
/-- `advanceNextMust` moves the driver past the candidate -/
theorem anm_spec {s : BoolS ι} {cand : Nat} (h : LInv RelK B Lm Ls smin Ln cand s)
    (hc : s.currentMatch = some cand) :
    LInv RelK B Lm Ls smin Ln (cand + 1) (BoolS.advanceNextMust cs s) ∧
    (s.must.isSome → (BoolS.advanceNextMust cs s).currShould = s.currShould) := by
  have hd := h.drv
  have hmn := optf_mono h.mn (Nat.le_succ cand)
  cases Lm with
  | none =>
    cases Ls with
    | none => exact hd.elim
    | some S =>
      obtain ⟨ks, h1, h2, h3, h4⟩ := hd
      rw [hc] at h4; rw [← h4] at h3
      have hnx := dk_next hK h3
      simp only [BoolS.advanceNextMust, h1, h2, Option.isSome_none, Bool.false_eq_true, ↓reduceIte, callOpt_some]
      refine ⟨⟨h.init, h.ndone, h.hsmin, ?_, hmn⟩, by intro hf; cases hf⟩
      simp only [DriverInv, BoolS.setCurrent, Option.isSome_none, Bool.false_and, Bool.false_eq_true, ↓reduceIte,
        Option.isNone_none, Bool.true_and]
      refine ⟨(cs ks .next).2, trivial, rfl, hnx.1, ?_⟩
      cases (cs ks .next).1 <;> simp
  | some M =>
    cases Ls with
    | none =>
      obtain ⟨km, h1, h2, h3, h4, h5⟩ := hd
      rw [hc] at h5; rw [← h5] at h4
      have hnx := dk_next hK h4
      simp only [BoolS.advanceNextMust, h1, Option.isSome_some, ↓reduceIte, callOpt_some]
      refine ⟨⟨h.init, h.ndone, h.hsmin, ?_, hmn⟩, fun _ => rfl⟩
      simp only [DriverInv, BoolS.setCurrent, Option.isSome_some, Bool.true_and, Option.isNone_some, Bool.false_and,
        Bool.false_eq_true, ↓reduceIte]
      refine ⟨(cs km .next).2, rfl, h2, h3, hnx.1, ?_⟩
      cases (cs km .next).1 <;> simp
    | some S =>
      obtain ⟨km, ks, h1, h2, h3, h4, h5⟩ := hd
      rw [hc] at h4; rw [← h4] at h3
      have hnx := dk_next hK h3
      simp only [BoolS.advanceNextMust, h1, Option.isSome_some, ↓reduceIte, callOpt_some]
      refine ⟨⟨h.init, h.ndone, h.hsmin, ?_, hmn⟩, fun _ => rfl⟩
      simp only [DriverInv, BoolS.setCurrent, Option.isSome_some, Bool.true_and, Option.isNone_some, Bool.false_and,
        Bool.false_eq_true, ↓reduceIte]
      refine ⟨(cs km .next).2, ks, rfl, h2, hnx.1, ?_, h5.elim Or.inl (fun h => Or.inr (fok_mono h (Nat.le_succ _)))⟩
      cases (cs km .next).1 <;> simp

end lemmas
end Bluge.C07

import BlugeProofs.C07.HeapLoop
import BlugeProofs.C07.BoolIter
/-! `DisjunctionHeapSearcher`: the `Next` loop in exact mode. -/
namespace Bluge.C07
open Bluge.Search

section
variable {ι : Type} {cs : Step ι} {RelK : List Nat → ι → Phase → Prop} {B : Nat} {Ls : List (List Nat)}
variable {L : List Nat} {min : Nat}

/-- sound-mode invariant over the entries -/
def HSnd (RelK : List Nat → ι → Phase → Prop) (Ls : List (List Nat)) (p : Nat) (kids : List ι) (E : List HEntry) : Prop :=
  (E.map (·.1)).Nodup ∧ (∀ e ∈ E, Ent (DKSnd RelK p) Ls kids e) ∧ kids.length = Ls.length

def HeapRel (RelK : List Nat → ι → Phase → Prop) (B min : Nat) (Ls : List (List Nat)) (s : DisjH ι) : Phase → Prop
  | .fresh => s.init = false ∧ s.min = min ∧ s.heap = [] ∧ s.matching = [] ∧
      AllK (fun Li k _ => (∀ y ∈ Li, y < B) ∧ RelK Li k .fresh) Ls s.kids (Ls.map (fun _ => none))
  | .at lb => s.init = true ∧ s.min = min ∧ HInv RelK B Ls lb s.kids (s.heap ++ s.matching) ∧ Refreshed s
  | .done p => s.init = true ∧ s.min = min ∧ HSnd RelK Ls p s.kids (s.heap ++ s.matching) ∧ Refreshed s

theorem hinv_to_snd {lb : Nat} {kids : List ι} {E : List HEntry} (h : HInv RelK B Ls lb kids E) :
    HSnd RelK Ls 0 kids E :=
  ⟨h.nodup, fun e he => (h.ent e he).mono (fun _ _ hP => dsnd_mono (Nat.zero_le _) (dk_to_snd hP)), h.len⟩

def HeapGoal (RelK : List Nat → ι → Phase → Prop) (L : List Nat) (B min : Nat) (Ls : List (List Nat)) (lb : Nat)
    (r : Resp × DisjH ι) : Prop :=
  IsFirstGE L lb r.1 ∧ HeapRel RelK B min Ls r.2 (after r.1)

variable (hK : ∀ Li, IsIter cs (RelK Li) Li)

include hK in
theorem heap_loop_exact (hL : ∀ x, x ∈ L ↔ max min 1 ≤ cnt Ls x) (hB : ∀ Li ∈ Ls, ∀ y ∈ Li, y < B) :
    ∀ (f : Nat) (s : DisjH ι) (lb : Nat), s.init = true → s.min = min →
      HInv RelK B Ls lb s.kids (s.heap ++ s.matching) → Refreshed s → B + 1 ≤ f + lb →
      HeapGoal RelK L B min Ls lb (DisjH.loop cs f s) := by
  -- every element of L lies in some list
  have hLmem : ∀ t ∈ L, ∃ (i : Nat) (Li : List Nat), Ls[i]? = some Li ∧ t ∈ Li := by
    intro t ht
    have h1 : 1 ≤ cnt Ls t := by have := (hL t).mp ht; omega
    obtain ⟨Li, hLi, htLi⟩ := cnt_pos h1
    obtain ⟨i, hi, rfl⟩ := List.mem_iff_getElem.mp hLi
    exact ⟨i, Ls[i], List.getElem?_eq_getElem hi, htLi⟩
  intro f
  induction f with
  | zero =>
    intro s lb hinit hmin hinv hR hf
    rw [DisjH.loop]
    refine ⟨?_, hinit, hmin, hinv_to_snd hinv, hR⟩
    intro t ht
    obtain ⟨i, Li, hLi, htLi⟩ := hLmem t ht
    have := hB Li (List.mem_of_getElem? hLi) t htLi
    omega
  | succ f ih =>
    intro s lb hinit hmin hinv hR hf
    rw [DisjH.loop]
    cases hmt : s.matching with
    | nil =>
      simp only
      refine ⟨?_, hinit, hmin, hinv_to_snd hinv, hR⟩
      have hheap : s.heap = [] := by
        rcases hR with h | ⟨m, h, _⟩
        · exact h.2
        · exact absurd hmt h
      intro t ht
      obtain ⟨i, Li, hLi, htLi⟩ := hLmem t ht
      exact hinv.gone i Li hLi (by simp [hheap, hmt]) t htLi
    | cons e rest =>
      simp only
      -- the minimum
      obtain ⟨m, hmeq, hheapgt⟩ : ∃ m, (∀ x ∈ s.matching, x.2 = m) ∧ ∀ x ∈ s.heap, m < x.2 := by
        rcases hR with h | ⟨m, _, h2, h3⟩
        · rw [hmt] at h; cases h.1
        · exact ⟨m, h2, h3⟩
      have hem : e.2 = m := hmeq e (by rw [hmt]; exact List.mem_cons_self)
      have he_ent := hinv.ent e (by rw [hmt]; simp)
      obtain ⟨Le, ke, hLe, hke, hPe⟩ := he_ent
      rw [hem] at hPe
      have hlbm : lb ≤ m := hPe.2.2.1
      have hmB : m < B := hPe.1 m hPe.2.1
      have hmge : ∀ x ∈ s.heap ++ s.matching, m ≤ x.2 := by
        intro x hx
        rcases List.mem_append.mp hx with h | h
        · exact Nat.le_of_lt (hheapgt x h)
        · exact Nat.le_of_eq (hmeq x h).symm
      -- F1
      have hF1 : ∀ (i : Nat) (Li : List Nat) (t : Nat), Ls[i]? = some Li → t ∈ Li → lb ≤ t → m ≤ t := by
        intro i Li t hLi htLi hlt
        by_cases hin : i ∈ (s.heap ++ s.matching).map (·.1)
        · obtain ⟨x, hx, hxi⟩ := List.mem_map.mp hin
          obtain ⟨Lx, kx, hLx, _, hPx⟩ := hinv.ent x hx
          rw [hxi, hLi] at hLx; cases hLx
          have := hPx.2.2.2.1 t htLi hlt
          have := hmge x hx
          omega
        · have := hinv.gone i Li hLi hin t htLi; omega
      -- F2
      have hF2 : s.matching.length = cnt Ls m := by
        unfold cnt
        rw [filter_length_range, ← List.length_map (f := (·.1)) (as := s.matching)]
        apply List.Perm.length_eq
        rw [List.perm_ext_iff_of_nodup]
        · intro i
          simp only [List.mem_filter, List.mem_range]
          constructor
          · intro hi
            obtain ⟨x, hx, hxi⟩ := List.mem_map.mp hi
            obtain ⟨Lx, kx, hLx, _, hPx⟩ := hinv.ent x (List.mem_append_right _ hx)
            rw [hxi] at hLx
            have hil : i < Ls.length := (List.getElem?_eq_some_iff.mp hLx).1
            refine ⟨hil, ?_⟩
            rw [hLx]
            have := hmeq x hx
            rw [this] at hPx
            simpa using hPx.2.1
          · rintro ⟨hil, hq⟩
            have hLi : Ls[i]? = some Ls[i] := List.getElem?_eq_getElem hil
            rw [hLi] at hq
            have hmLi : m ∈ Ls[i] := by simpa using hq
            by_cases hin : i ∈ (s.heap ++ s.matching).map (·.1)
            · obtain ⟨x, hx, hxi⟩ := List.mem_map.mp hin
              obtain ⟨Lx, kx, hLx, _, hPx⟩ := hinv.ent x hx
              rw [hxi, hLi] at hLx; cases hLx
              have h1 := hPx.2.2.2.1 m hmLi hlbm
              rcases List.mem_append.mp hx with h | h
              · have := hheapgt x h; omega
              · exact List.mem_map.mpr ⟨x, h, hxi⟩
            · have := hinv.gone i _ hLi hin m hmLi; omega
        · exact List.Nodup.sublist ((List.sublist_append_right s.heap s.matching).map _) hinv.nodup
        · exact List.Nodup.sublist List.filter_sublist List.nodup_range
      -- bump the matching children
      have hnm := nextMatching_exact (lb := lb) (m := m) hK s.matching { s with matching := [] }
        (by simpa using hinv.nodup)
        (by
          intro x hx
          exact (hinv.ent x (List.mem_append_left _ hx)).mono
            (fun Li k hP => dk_pass hP (by omega) (by intro y hy; cases hy; exact hheapgt x hx)))
        (by intro x hx; exact ⟨hmeq x hx, hinv.ent x (List.mem_append_right _ hx)⟩)
        (by
          intro i Li hLi hni t ht
          have := hinv.gone i Li hLi (by simpa using hni) t ht
          omega)
        hinv.len
      obtain ⟨a1, a2, a3, a4⟩ := hnm
      simp only at a2 a3 a4
      rw [← hmt]
      have hrs := refresh_spec (DisjH.nextMatching cs { s with matching := [] } s.matching) a2
      obtain ⟨r1, r2, r3, r4, r5⟩ := hrs
      have hrel1 : HeapRel RelK B min Ls
          (DisjH.refresh (DisjH.nextMatching cs { s with matching := [] } s.matching)) (.at (m + 1)) := by
        refine ⟨r5.trans (a4.trans hinit), r4.trans (a3.trans hmin), ?_, r2⟩
        rw [r3]
        exact a1.perm r1
      have hlen1 : 1 ≤ s.matching.length := by rw [hmt]; simp
      by_cases hfound : s.min ≤ s.matching.length
      · simp only [hfound, decide_true, ↓reduceIte]
        rw [hem]
        refine ⟨⟨?_, hlbm, ?_⟩, hrel1⟩
        · rw [hL, ← hF2]; rw [hmin] at hfound; omega
        · intro t ht hlt
          obtain ⟨i, Li, hLi, htLi⟩ := hLmem t ht
          exact hF1 i Li t hLi htLi hlt
      · simp only [hfound, decide_false, Bool.false_eq_true, ↓reduceIte]
        have hmL : m ∉ L := by rw [hL, ← hF2]; rw [hmin] at hfound; omega
        have := ih _ (m + 1) hrel1.1 hrel1.2.1 hrel1.2.2.1 hrel1.2.2.2 (by omega)
        refine ⟨isFirstGE_skip this.1 hmL ?_ hlbm, this.2⟩
        intro t ht hlt
        obtain ⟨i, Li, hLi, htLi⟩ := hLmem t ht
        exact hF1 i Li t hLi htLi hlt

end
end Bluge.C07

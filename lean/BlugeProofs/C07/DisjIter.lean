import BlugeProofs.C07.Disj
/-! The `for !found && len(matching) > 0` loop of `DisjunctionSliceSearcher.Next`, exact and sound
mode, and the assembled contract `disjS_is_iter_aux`. -/
namespace Bluge.C07
open Bluge.Search

section
variable {ι : Type} {cs : Step ι} {RelK : List Nat → ι → Phase → Prop} {L : List Nat} {B : Nat} {min : Nat}
variable (hK : ∀ Li, IsIter cs (RelK Li) Li)

def DisjGoal (RelK : List Nat → ι → Phase → Prop) (L : List Nat) (B min : Nat) (Ls : List (List Nat)) (lb : Nat)
    (r : Resp × DisjS ι) : Prop :=
  IsFirstGE L lb r.1 ∧ DisjRel RelK B min Ls r.2 (after r.1)

theorem refresh_kids (s : DisjS ι) : (DisjS.refresh s).kids = s.kids ∧ (DisjS.refresh s).currs = s.currs ∧
    (DisjS.refresh s).init = s.init ∧ (DisjS.refresh s).min = s.min ∧
    (DisjS.refresh s).mval = (updateMatches s.currs).1 ∧ (DisjS.refresh s).midx = (updateMatches s.currs).2 :=
  ⟨rfl, rfl, rfl, rfl, rfl, rfl⟩

include hK in
theorem disj_loop_exact {Ls : List (List Nat)} (hL : ∀ x, x ∈ L ↔ max min 1 ≤ cnt Ls x) :
    ∀ (f : Nat) (s : DisjS ι) (lb : Nat), s.init = true → s.min = min →
      AllK (DKOk RelK B lb) Ls s.kids s.currs →
      s.mval = (updateMatches s.currs).1 → s.midx = (updateMatches s.currs).2 →
      B + 1 ≤ f + lb →
      DisjGoal RelK L B min Ls lb (DisjS.loop cs f s) := by
  intro f
  induction f with
  | zero =>
    intro s lb hinit hmin hall hmv hmi hfuel
    rw [DisjS.loop]
    refine ⟨?_, hinit, hmin, hall.mono (fun _ _ _ h => dsnd_mono (Nat.zero_le _) (dk_to_snd h)), hmv, hmi⟩
    intro t ht
    have h1 : 1 ≤ cnt Ls t := by have := (hL t).mp ht; omega
    obtain ⟨Li, hLi, htLi⟩ := cnt_pos h1
    obtain ⟨k, c, hP⟩ := hall.forall_mem Li hLi
    have hB : ∀ y ∈ Li, y < B := by cases c <;> exact hP.1
    have := hB t htLi
    omega
  | succ f ih =>
    intro s lb hinit hmin hall hmv hmi hfuel
    have hspec := updateMatches_spec s.currs
    rw [DisjS.loop]
    cases hm : s.mval with
    | none =>
      simp only
      refine ⟨?_, hinit, hmin, hall.mono (fun _ _ _ h => dsnd_mono (Nat.zero_le _) (dk_to_snd h)), hmv, hmi⟩
      rw [hmv] at hm
      obtain ⟨_, hnone⟩ := hspec.none_all hm
      intro t ht
      have h1 : 1 ≤ cnt Ls t := by have := (hL t).mp ht; omega
      obtain ⟨Li, hLi, htLi⟩ := cnt_pos h1
      obtain ⟨k, c, hc, hP⟩ := hall.forall_mem' Li hLi
      have := hnone c hc
      subst this
      exact hP.2.2 t htLi
    | some m =>
      simp only
      rw [hmv] at hm
      -- a child standing on m
      have hne := hspec.nonempty m hm
      obtain ⟨j0, hj0⟩ : ∃ j, j ∈ (updateMatches s.currs).2 := by
        cases hq : (updateMatches s.currs).2 with
        | nil => exact absurd hq hne
        | cons a t => exact ⟨a, List.mem_cons_self⟩
      have hcj0 := (hspec.some_mem m hm j0).mp hj0
      obtain ⟨Lj, kj, hLj, hkj, hPj⟩ := hall.get_curr hcj0
      have hlbm : lb ≤ m := hPj.2.2.1
      -- F1: m is below every element ≥ lb of every list
      have hF1 : ∀ t, (∃ Li ∈ Ls, t ∈ Li) → lb ≤ t → m ≤ t := by
        intro t ⟨Li, hLi, htLi⟩ hlt
        obtain ⟨k, c, hc, hP⟩ := hall.forall_mem' Li hLi
        cases c with
        | none => have := hP.2.2 t htLi; omega
        | some x =>
          have h1 := hP.2.2.2.1 t htLi hlt
          have h2 := hspec.some_min m hm x hc
          omega
      -- F2: the number of children standing on m is the number of lists containing m
      have hF2 : s.midx.length = cnt Ls m := by
        rw [hmi, hspec.len m hm]
        have hall' := hall.with_curr (fun c => ∀ x, c = some x → m ≤ x)
          (fun j c hc x hx => by
            subst hx
            exact hspec.some_min m hm x (List.mem_of_getElem? hc))
        apply AllK.count_eq hall'
        intro Li k c ⟨hq, hP⟩
        cases c with
        | none =>
          have hnot : m ∉ Li := by
            intro hc
            have := hP.2.2 m hc
            omega
          simp [hnot]
        | some x =>
          have hmx := hq x rfl
          by_cases hxm : x = m
          · subst hxm
            have hin : x ∈ Li := hP.2.1
            simp [hin]
          · have hnot : m ∉ Li := by
              intro hc
              have := hP.2.2.2.1 m hc hlbm
              omega
            simp [hnot, hxm]
      -- bump the matching children and recompute the matches
      have hmid : AllK (DMid RelK B lb m) Ls s.kids s.currs := by
        have hall' := hall.with_curr (fun c => ∀ x, c = some x → m ≤ x)
          (fun j c hc x hx => by
            subst hx
            exact hspec.some_min m hm x (List.mem_of_getElem? hc))
        refine hall'.mono ?_
        intro Li k c ⟨hq, hP⟩
        by_cases hc : c = some m
        · exact Or.inl ⟨hc, hP⟩
        · refine Or.inr ⟨hc, dk_pass hP (by omega) ?_⟩
          intro x hx
          have := hq x hx
          subst hx
          have : x ≠ m := by intro h; exact hc (by rw [h])
          omega
      have hidx : ∀ i ∈ s.midx, s.currs[i]? = some (some m) := by
        intro i hi; rw [hmi] at hi; exact (hspec.some_mem m hm i).mp hi
      have hsorted : s.midx.Pairwise (· < ·) := by rw [hmi]; exact hspec.sorted
      obtain ⟨a1, a2, a3, a4⟩ := nextIdxs_exact hK s.midx s hmid hidx hsorted
      have hall1 : AllK (DKOk RelK B (m + 1)) Ls (DisjS.nextIdxs cs s s.midx).kids (DisjS.nextIdxs cs s s.midx).currs := by
        have := a1.with_curr (fun c => c ≠ some m)
          (fun j c hc hcm => by
            subst hcm
            have := a2 j hc
            exact this.2 (by rw [hmi]; exact (hspec.some_mem m hm j).mpr this.1))
        refine this.mono ?_
        intro Li k c ⟨hq, hP⟩
        rcases hP with h | h
        · exact absurd h.1 hq
        · exact h.2
      have hrel1 : DisjRel RelK B min Ls (DisjS.refresh (DisjS.nextIdxs cs s s.midx)) (.at (m + 1)) :=
        ⟨a3.trans hinit, a4.trans hmin, hall1, rfl, rfl⟩
      have hmB : m < B := hPj.1 m hPj.2.1
      by_cases hfound : s.min ≤ s.midx.length
      · -- found
        simp only [hfound, decide_true, ↓reduceIte]
        refine ⟨⟨?_, hlbm, ?_⟩, hrel1⟩
        · rw [hL, ← hF2]
          have : 1 ≤ s.midx.length := by
            rw [hmi]
            cases hq : (updateMatches s.currs).2 with
            | nil => exact absurd hq hne
            | cons a t => simp
          rw [hmin] at hfound
          omega
        · intro t ht hlt
          have h1 : 1 ≤ cnt Ls t := by have := (hL t).mp ht; omega
          exact hF1 t (cnt_pos h1) hlt
      · -- not enough clauses matched: m is not in L, continue
        simp only [hfound, decide_false, Bool.false_eq_true, ↓reduceIte]
        have hmL : m ∉ L := by
          rw [hL, ← hF2]; rw [hmin] at hfound; omega
        have := ih (DisjS.refresh (DisjS.nextIdxs cs s s.midx)) (m + 1) hrel1.1 hrel1.2.1 hrel1.2.2.1 rfl rfl (by omega)
        obtain ⟨g1, g2⟩ := this
        refine ⟨?_, g2⟩
        have hskip : ∀ t ∈ L, lb ≤ t → m + 1 ≤ t := by
          intro t ht hlt
          have h1 : 1 ≤ cnt Ls t := by have := (hL t).mp ht; omega
          have := hF1 t (cnt_pos h1) hlt
          by_cases htm : t = m
          · subst htm; exact absurd ht hmL
          · omega
        cases hr : (DisjS.loop cs f (DisjS.refresh (DisjS.nextIdxs cs s s.midx))).1 with
        | none =>
          rw [hr] at g1
          intro t ht
          have := g1 t ht
          by_cases hlt : lb ≤ t
          · have := hskip t ht hlt; omega
          · omega
        | some d =>
          rw [hr] at g1
          exact ⟨g1.1, by have := g1.2.1; omega, fun t ht hlt => g1.2.2 t ht (hskip t ht hlt)⟩

def DisjSGoal (RelK : List Nat → ι → Phase → Prop) (L : List Nat) (B min : Nat) (Ls : List (List Nat)) (lo : Nat)
    (r : Resp × DisjS ι) : Prop :=
  (∀ d, r.1 = some d → d ∈ L ∧ lo ≤ d ∧ DisjRel RelK B min Ls r.2 (.done (d + 1))) ∧
  (r.1 = none → DisjRel RelK B min Ls r.2 (.done 0))

include hK in
theorem disj_loop_sound {Ls : List (List Nat)} (hL : ∀ x, x ∈ L ↔ max min 1 ≤ cnt Ls x) :
    ∀ (f : Nat) (lo : Nat) (s : DisjS ι), s.init = true → s.min = min →
      AllK (DKSnd RelK lo) Ls s.kids s.currs →
      s.mval = (updateMatches s.currs).1 → s.midx = (updateMatches s.currs).2 →
      DisjSGoal RelK L B min Ls lo (DisjS.loop cs f s) := by
  have hstay : ∀ (lo : Nat) (s : DisjS ι), s.init = true → s.min = min →
      AllK (DKSnd RelK lo) Ls s.kids s.currs →
      s.mval = (updateMatches s.currs).1 → s.midx = (updateMatches s.currs).2 →
      DisjSGoal RelK L B min Ls lo (none, s) := by
    intro lo s hinit hmin hall hmv hmi
    exact ⟨(by intro d hd; cases hd),
      fun _ => ⟨hinit, hmin, hall.mono (fun _ _ _ h => dsnd_mono (Nat.zero_le _) h), hmv, hmi⟩⟩
  intro f
  induction f with
  | zero => intro lo s hinit hmin hall hmv hmi; rw [DisjS.loop]; exact hstay lo s hinit hmin hall hmv hmi
  | succ f ih =>
    intro lo s hinit hmin hall hmv hmi
    have hspec := updateMatches_spec s.currs
    rw [DisjS.loop]
    cases hm : s.mval with
    | none => exact hstay lo s hinit hmin hall hmv hmi
    | some m =>
      simp only
      rw [hmv] at hm
      have hne := hspec.nonempty m hm
      obtain ⟨j0, hj0⟩ : ∃ j, j ∈ (updateMatches s.currs).2 := by
        cases hq : (updateMatches s.currs).2 with
        | nil => exact absurd hq hne
        | cons a t => exact ⟨a, List.mem_cons_self⟩
      have hcj0 := (hspec.some_mem m hm j0).mp hj0
      obtain ⟨Lj, kj, hLj, hkj, hPj⟩ := hall.get_curr hcj0
      have hlom : lo ≤ m := hPj.2.1
      have hidx : ∀ i ∈ s.midx, s.currs[i]? = some (some m) := by
        intro i hi; rw [hmi] at hi; exact (hspec.some_mem m hm i).mp hi
      have hsorted : s.midx.Pairwise (· < ·) := by rw [hmi]; exact hspec.sorted
      -- all answers are ≥ m: a child stands on m or beyond it
      have hmid : AllK (SMid RelK m) Ls s.kids s.currs := by
        have hall' := hall.with_curr (fun c => ∀ x, c = some x → m ≤ x)
          (fun j c hc x hx => by
            subst hx
            exact hspec.some_min m hm x (List.mem_of_getElem? hc))
        refine hall'.mono ?_
        intro Li k c ⟨hq, hP⟩
        by_cases hc : c = some m
        · subst hc; exact Or.inl ⟨rfl, hP.1, Nat.le_refl _, hP.2.2⟩
        · refine Or.inr ⟨hc, ?_⟩
          cases c with
          | none => exact hP
          | some x =>
            have := hq x rfl
            have : x ≠ m := by intro h; exact hc (by rw [h])
            exact ⟨hP.1, by omega, hP.2.2⟩
      obtain ⟨a1, a2, a3, a4⟩ := nextIdxs_sound hK s.midx s hmid hidx hsorted
      have hall1 : AllK (DKSnd RelK (m + 1)) Ls (DisjS.nextIdxs cs s s.midx).kids (DisjS.nextIdxs cs s s.midx).currs := by
        have := a1.with_curr (fun c => c ≠ some m)
          (fun j c hc hcm => by
            subst hcm
            have := a2 j hc
            exact this.2 (by rw [hmi]; exact (hspec.some_mem m hm j).mpr this.1))
        refine this.mono ?_
        intro Li k c ⟨hq, hP⟩
        rcases hP with h | h
        · exact absurd h.1 hq
        · exact h.2
      by_cases hfound : s.min ≤ s.midx.length
      · simp only [hfound, decide_true, ↓reduceIte]
        refine ⟨?_, (by intro hn; cases hn)⟩
        intro d hd
        simp only at hd
        cases hd
        refine ⟨?_, hlom, ?_⟩
        · rw [hL]
          have hle : s.midx.length ≤ cnt Ls m := by
            rw [hmi, hspec.len m hm]
            apply AllK.count_le hall
            intro Li k c hP hc
            subst hc
            simpa using hP.1
          have : 1 ≤ s.midx.length := by
            rw [hmi]
            cases hq : (updateMatches s.currs).2 with
            | nil => exact absurd hq hne
            | cons a t => simp
          rw [hmin] at hfound
          omega
        · -- every child now answers beyond m
          exact ⟨a3.trans hinit, a4.trans hmin, hall1, rfl, rfl⟩
      · simp only [hfound, decide_false, Bool.false_eq_true, ↓reduceIte]
        exact ih lo _ (a3.trans hinit) (a4.trans hmin) (hall1.mono (fun _ _ _ h => dsnd_mono (by omega) h)) rfl rfl

include hK in
/-- `DisjunctionSliceSearcher` over iterators is an iterator over the docs in ≥ max min 1 children -/
theorem disjS_is_iter_aux {Ls : List (List Nat)} (hL : ∀ x, x ∈ L ↔ max min 1 ≤ cnt Ls x) (fuel : Nat)
    (hfuel : B + 1 ≤ fuel) :
    IsIter (DisjS.step cs fuel) (DisjRel RelK B min Ls) L := by
  constructor
  · -- next_fresh
    intro s h
    obtain ⟨hinit, hmin, hall⟩ := h
    show DisjGoal RelK L B min Ls 0 (DisjS.step cs fuel s .next)
    simp only [DisjS.step, DisjS.ensureInit, hinit, Bool.false_eq_true, ↓reduceIte]
    exact disj_loop_exact hK hL fuel _ 0 rfl hmin
      (nextAll_spec cs (fun Li k c h => dk_fresh_next hK h.1 h.2) hall) rfl rfl (by omega)
  · -- next_at
    intro s lb h
    obtain ⟨hinit, hmin, hall, hmv, hmi⟩ := h
    show DisjGoal RelK L B min Ls lb (DisjS.step cs fuel s .next)
    simp only [DisjS.step, DisjS.ensureInit, hinit, ↓reduceIte]
    exact disj_loop_exact hK hL fuel s lb hinit hmin hall hmv hmi (by omega)
  · -- adv_at
    intro s lb n h hn
    obtain ⟨hinit, hmin, hall, hmv, hmi⟩ := h
    show DisjGoal RelK L B min Ls n (DisjS.step cs fuel s (.adv n))
    cases s with
    | mk kids currs smin mval midx init =>
    simp only at hinit hmin hall
    subst hinit
    simp only [DisjS.step, DisjS.ensureInit, ↓reduceIte]
    refine disj_loop_exact hK hL fuel _ n rfl hmin ?_ rfl rfl (by omega)
    exact advBehind_spec cs n (P := DKOk RelK B lb) (Q := DKOk RelK B n)
      (fun Li k x h hx => dk_keep h hn hx) (fun Li k c h hc => dk_advn hK h hn hc) hall
  · -- done_sound
    intro s p c h
    obtain ⟨hinit, hmin, hall, hmv, hmi⟩ := h
    cases s with
    | mk kids currs smin mval midx init =>
    simp only at hinit hmin hall hmv hmi
    subst hinit
    cases c with
    | next =>
      have := disj_loop_sound (B := B) hK hL fuel p ⟨kids, currs, smin, mval, midx, true⟩ rfl hmin hall hmv hmi
      simp only [DisjS.step, DisjS.ensureInit, ↓reduceIte]
      exact ⟨fun d hd => ⟨(this.1 d hd).1, fun _ => (this.1 d hd).2.1, (by intro n hn; cases hn), (this.1 d hd).2.2⟩, this.2⟩
    | adv n =>
      simp only [DisjS.step, DisjS.ensureInit, ↓reduceIte]
      have hall' : AllK (DKSnd RelK n) Ls (advBehind cs n kids currs).2 (advBehind cs n kids currs).1 :=
        advBehind_spec cs n (P := DKSnd RelK p) (Q := DKSnd RelK n)
          (fun Li k x h hx => by obtain ⟨h1, _, h3⟩ := h; exact ⟨h1, hx, h3⟩)
          (fun Li k c h hc => dsn_adv hK h hc) hall
      have := disj_loop_sound (B := B) hK hL fuel n
        (DisjS.refresh ⟨(advBehind cs n kids currs).2, (advBehind cs n kids currs).1, smin, mval, midx, true⟩)
        rfl hmin hall' rfl rfl
      exact ⟨fun d hd => ⟨(this.1 d hd).1, (by intro hc; cases hc), (by intro m hm; cases hm; exact (this.1 d hd).2.1),
        (this.1 d hd).2.2⟩, this.2⟩
  · -- done_mono
    intro s p p' h hle
    obtain ⟨hinit, hmin, hall, hmv, hmi⟩ := h
    exact ⟨hinit, hmin, hall.mono (fun _ _ _ h => dsnd_mono hle h), hmv, hmi⟩

end
end Bluge.C07

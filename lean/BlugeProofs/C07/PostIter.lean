import BlugeProofs.C07.PostInv
/-! `postingsIterator` / `postingsIteratorAll` satisfy the sorted-list iterator contract. -/
namespace Bluge.C07
open Bluge.Search

theorem done_mono' {L : List Nat} {s : PIter} {p p' : Nat} (h : Done L s p) (hle : p' ≤ p) : Done L s p' := by
  obtain ⟨pre, post, h1, h2, h3, h4, h5, h6⟩ := h
  exact ⟨pre, post, h1, h2, h3, h4, h5, fun g hg y hy => Nat.le_trans hle (h6 g hg y hy)⟩

theorem inv_done {L : List Nat} {s : PIter} {lb : Nat} (h : Inv L s lb) : Done L s 0 := by
  obtain ⟨pre, post, h1, h2, h3, h4, _, _, _, h8, _, _, _⟩ := h
  exact ⟨pre, post, h1, h2, h3, fun x hx => (h4 x).mpr hx, h8, fun _ _ _ _ => Nat.zero_le _⟩

theorem inv_scanPre {L : List Nat} {s : PIter} {lb : Nat} (h : Inv L s lb) :
    ∃ pre post, s.segs = pre ++ post ∧ s.segOff = pre.length ∧ ScanPre L pre post lb := by
  obtain ⟨pre, post, h1, h2, h3, h4, h5, h6, h7, h8, _, _, _⟩ := h
  refine ⟨pre, post, h1, h2, ?_⟩
  rw [h1] at h3 h4 h8
  exact { ok := h3, sound := fun x hx => (h4 x).mpr hx, ahead := h7, sub := h8,
          complete := fun x hx => (h4 x).mp hx, passed := h5, kept := h6 }

theorem done_scanBase {L : List Nat} {s : PIter} {p : Nat} (h : Done L s p) :
    ∃ pre post, s.segs = pre ++ post ∧ s.segOff = pre.length ∧ ScanBase L pre post p := by
  obtain ⟨pre, post, h1, h2, h3, h4, h5, h6⟩ := h
  refine ⟨pre, post, h1, h2, ?_⟩
  rw [h1] at h3 h4 h5
  exact { ok := h3, sound := h4, ahead := h6, sub := h5 }

/-! ### `Next` -/

theorem next_live {L : List Nat} {s : PIter} {lb : Nat} (h : Inv L s lb) :
    IsFirstGE L lb s.next.1 ∧ PRel L s.next.2 (after s.next.1) := by
  obtain ⟨pre, post, hs, ho, hp⟩ := inv_scanPre h
  rw [next_scan s pre post hs ho]
  have h1 := scan_live s hp
  have h2 := scan_done s hp.toScanBase
  refine ⟨h1.1, ?_⟩
  cases hr : (scan post).1 with
  | none => exact h2.2 hr
  | some d => exact h1.2 d hr

theorem next_done {L : List Nat} {s : PIter} {p : Nat} (h : Done L s p) :
    (∀ d, s.next.1 = some d → d ∈ L ∧ p ≤ d ∧ Done L s.next.2 (d + 1)) ∧
    (s.next.1 = none → Done L s.next.2 0) := by
  obtain ⟨pre, post, hs, ho, hp⟩ := done_scanBase h
  rw [next_scan s pre post hs ho]
  exact scan_done s hp

/-! ### `Advance` -/

theorem seek_none (s1 : PIter) (n : Nat) (h : segIndexOf (s1.segs.map (·.off)) n = none) :
    s1.seek n = (none, s1) := by
  unfold PIter.seek
  rw [h]

theorem seek_some (s1 : PIter) (n : Nat) (pre : List PSeg) (g : PSeg) (t : List PSeg)
    (hs : s1.segs = pre ++ g :: t) (h : segIndexOf (s1.segs.map (·.off)) n = some pre.length) :
    s1.seek n = ((scan ({ g with it := g.it.advanceIfNeeded (n - g.off) } :: t)).1,
      finish s1 pre (scan ({ g with it := g.it.advanceIfNeeded (n - g.off) } :: t))) := by
  have key := seek_scan s1 pre g t n hs
  have hget : s1.segs[pre.length]? = some g := by rw [hs]; exact getElem?_append_length pre g t
  unfold PIter.seek
  rw [h]
  simp only [hget]
  exact key

theorem mono_of_segsOK {segs : List PSeg} (h : SegsOK segs) : segs.Pairwise (fun g g' => g.off ≤ g'.off) :=
  h.2.imp (fun hab => hab.1)

theorem stat_replace (pre : List PSeg) (g : PSeg) (it : SegIt) (t : List PSeg) :
    stat (pre ++ { g with it := it } :: t) = stat (pre ++ g :: t) := by
  simp [stat]

/-- the target segment's iterator after `AdvanceIfNeeded(n - off)` -/
theorem seek_facts {g : PSeg} {n : Nat} (hoff : g.off ≤ n) (hsub : g.it.toList.Sublist g.fresh) (hsrt : Sorted g.fresh) :
    (g.it.advanceIfNeeded (n - g.off)).toList.Sublist g.fresh ∧
    (∀ y ∈ (g.it.advanceIfNeeded (n - g.off)).toList, n ≤ y + g.off) ∧
    (∀ y ∈ g.it.toList, n ≤ y + g.off → y ∈ (g.it.advanceIfNeeded (n - g.off)).toList) := by
  rw [SegIt.advanceIfNeeded_toList]
  have hs : Sorted g.it.toList := List.Pairwise.sublist hsub hsrt
  refine ⟨(List.dropWhile_sublist _).trans hsub, ?_, ?_⟩
  · intro y hy
    have := dropWhile_lt_ge hs (n - g.off) y hy
    omega
  · intro y hy hle
    -- y is not among the dropped prefix, all of whose elements are < n - off
    have hsplit := List.takeWhile_append_dropWhile (p := fun x => decide (x < n - g.off)) (l := g.it.toList)
    rw [← hsplit] at hy
    rcases List.mem_append.mp hy with h1 | h2
    · have := mem_takeWhile_sat h1
      simp only [decide_eq_true_eq] at this
      omega
    · exact h2

theorem adv_live {L : List Nat} {s : PIter} {lb n : Nat} (h : Inv L s lb) (hn : lb ≤ n) :
    IsFirstGE L n (s.adv n).1 ∧ PRel L (s.adv n).2 (after (s.adv n).1) := by
  have hstart : s.advStart n = s := by
    obtain ⟨_, _, _, _, _, _, _, _, _, _, _, _, hcur⟩ := h
    unfold PIter.advStart
    by_cases hk : s.kind = .all
    · simp [hk]
    · by_cases hst : s.started = true
      · have := hcur hk hst
        have hlt : ¬ n ≤ s.curr := by omega
        simp [hlt]
      · simp [hst]
  obtain ⟨pre, post, hs, ho, hok, hmem, hpassed, hkept, hahead, hsub, hhead, hne, hcur⟩ := h
  cases hidx : segIndexOf ((s.advStart n).segs.map (·.off)) n with
  | none =>
    rw [PIter.adv, seek_none _ n hidx, hstart]
    rw [hstart] at hidx
    have hempty : s.segs = [] := by
      rcases segIndexOf_none hidx with h0 | ⟨g, t, hgt, hlt⟩
      · exact h0
      · exfalso
        rcases hne with hpne | h0
        · cases post with
          | nil => exact hpne rfl
          | cons g0 pt =>
            have hg0 := hhead g0 rfl
            cases pre with
            | nil =>
              simp only [List.nil_append] at hs
              rw [hs] at hgt
              cases hgt
              omega
            | cons p0 pr =>
              rw [hs] at hgt
              simp only [List.cons_append, List.cons.injEq] at hgt
              obtain ⟨rfl, rfl⟩ := hgt
              have hpw := hok.2
              rw [hs] at hpw
              simp only [List.cons_append] at hpw
              have := (List.pairwise_cons.mp hpw).1 g0 (by simp)
              omega
        · rw [h0] at hgt; cases hgt
    refine ⟨?_, ?_⟩
    · intro x hx
      have := (hmem x).mp hx
      rw [hempty] at this
      simp [globOf] at this
    · exact inv_done ⟨pre, post, hs, ho, hok, hmem, hpassed, hkept, hahead, hsub, hhead, hne, hcur⟩
  | some k =>
    rw [hstart] at hidx
    obtain ⟨prek, gk, tk, hsk, hlen, hoffk, hlater⟩ := segIndexOf_some (mono_of_segsOK hok) hidx
    -- the target segment is at or after segmentOffset
    have hsplit : ∃ mid, prek = pre ++ mid ∧ post = mid ++ gk :: tk := by
      rw [hs] at hsk
      rcases List.append_eq_append_iff.mp hsk with ⟨a', ha1, ha2⟩ | ⟨c', hc1, hc2⟩
      · -- prek = pre ++ a', post = a' ++ gk :: tk
        exact ⟨a', ha1, ha2⟩
      · -- pre = prek ++ c', gk :: tk = c' ++ post
        cases c' with
        | nil =>
          simp only [List.append_nil] at hc1
          simp only [List.nil_append] at hc2
          exact ⟨[], by simp [hc1], by simp [hc2]⟩
        | cons c0 ct =>
          exfalso
          simp only [List.cons_append, List.cons.injEq] at hc2
          obtain ⟨rfl, htk⟩ := hc2
          rcases hne with hpne | h0
          · cases post with
            | nil => exact hpne rfl
            | cons g0 pt =>
              have hg0 := hhead g0 rfl
              have := hlater g0 (by rw [htk]; simp)
              omega
          · rw [h0] at hs
            have := congrArg List.length hs
            simp at this
            rw [hc1] at this
            simp at this
            omega
    obtain ⟨mid, rfl, rfl⟩ := hsplit
    subst hlen
    have hsk' : (s.advStart n).segs = (pre ++ mid) ++ gk :: tk := by rw [hstart, hs]; simp
    have hidx' : segIndexOf ((s.advStart n).segs.map (·.off)) n = some (pre ++ mid).length := by
      rw [hstart]; exact hidx
    rw [PIter.adv, seek_some _ n (pre ++ mid) gk tk hsk' hidx', hstart]
    have hsegs : s.segs = (pre ++ mid) ++ gk :: tk := by rw [hs]; simp
    have hgk : gk ∈ mid ++ gk :: tk := by simp
    have hgks : gk ∈ s.segs := by rw [hsegs]; simp
    obtain ⟨f1, f2, f3⟩ := seek_facts hoffk (hsub gk hgks) (hok.1 gk hgks)
    have hstat := stat_replace (pre ++ mid) gk (gk.it.advanceIfNeeded (n - gk.off)) tk
    have hpw := hok.2
    rw [hsegs, List.pairwise_append] at hpw
    have hp : ScanPre L (pre ++ mid) ({ gk with it := gk.it.advanceIfNeeded (n - gk.off) } :: tk) n :=
      { ok := segsOK_congr hstat.symm (hsegs ▸ hok)
        sound := by
          rw [globOf_congr hstat, ← hsegs]; intro x hx; exact (hmem x).mpr hx
        complete := by
          rw [globOf_congr hstat, ← hsegs]; intro x hx; exact (hmem x).mp hx
        ahead := by
          intro g0 hg0 y hy
          simp only [List.mem_cons] at hg0
          rcases hg0 with rfl | ht
          · exact f2 y hy
          · have := hlater g0 ht; omega
        sub := by
          intro g0 hg0
          simp only [List.mem_append, List.mem_cons] at hg0
          rcases hg0 with (hp | hm) | rfl | ht
          · exact hsub g0 (by rw [hs]; simp [hp])
          · exact hsub g0 (by rw [hs]; simp [hm])
          · exact f1
          · exact hsub g0 (by rw [hs]; simp [ht])
        passed := by
          intro g0 hg0 y hy
          rcases List.mem_append.mp hg0 with hp | hm
          · have := hpassed g0 hp y hy; omega
          · have := (hpw.2.2 g0 (by simp [hm]) gk (by simp)).2 y hy
            omega
        kept := by
          intro g0 hg0 y hy hle
          simp only [List.mem_cons] at hg0
          rcases hg0 with rfl | ht
          · simp only at hy hle ⊢
            exact f3 y (hkept gk hgk y hy (by omega)) hle
          · exact hkept g0 (by simp [ht]) y hy (by omega) }
    have h1 := scan_live s hp
    have h2 := scan_done s hp.toScanBase
    refine ⟨h1.1, ?_⟩
    cases hr : (scan ({ gk with it := gk.it.advanceIfNeeded (n - gk.off) } :: tk)).1 with
    | none => exact h2.2 hr
    | some d => exact h1.2 d hr

theorem restart_done {L : List Nat} {s : PIter} {p : Nat} (h : Done L s p) : Done L s.restart 0 := by
  obtain ⟨pre, post, hs, ho, hok, hsound, hsub, hahead⟩ := h
  unfold PIter.restart
  cases hk : s.kind with
  | postings =>
    simp only
    have hstat : stat (s.segs.map (fun g => { g with it := SegIt.list g.fresh })) = stat s.segs := by
      simp [stat]
    refine ⟨[], s.segs.map (fun g => { g with it := SegIt.list g.fresh }), by simp, rfl,
      segsOK_congr hstat.symm hok, ?_, ?_, fun _ _ _ _ => Nat.zero_le _⟩
    · rw [globOf_congr hstat]; exact hsound
    · intro g hg
      obtain ⟨g0, _, rfl⟩ := List.mem_map.mp hg
      exact List.Sublist.refl _
  | unadorned =>
    simp only
    refine ⟨[], s.segs.map (fun g => { g with fresh := [], it := SegIt.list [] }), by simp, rfl, ?_, ?_, ?_,
      fun _ _ _ _ => Nat.zero_le _⟩
    · refine ⟨?_, ?_⟩
      · intro g hg
        obtain ⟨g0, _, rfl⟩ := List.mem_map.mp hg
        exact List.Pairwise.nil
      · rw [List.pairwise_map]
        exact hok.2.imp (fun hab => ⟨hab.1, by intro y hy; cases hy⟩)
    · intro x hx
      obtain ⟨g, hg, y, hy, _⟩ := mem_globOf.mp hx
      obtain ⟨g0, _, rfl⟩ := List.mem_map.mp hg
      cases hy
    · intro g hg
      obtain ⟨g0, _, rfl⟩ := List.mem_map.mp hg
      exact List.Sublist.refl _
  | all =>
    simp only
    exact ⟨pre, post, hs, ho, hok, hsound, hsub, fun _ _ _ _ => Nat.zero_le _⟩

theorem advStart_done {L : List Nat} {s : PIter} {p : Nat} (n : Nat) (h : Done L s p) : Done L (s.advStart n) 0 := by
  unfold PIter.advStart
  split
  · exact restart_done h
  · exact done_mono' h (Nat.zero_le _)

theorem adv_done {L : List Nat} {s : PIter} {p n : Nat} (h : Done L s p) :
    (∀ d, (s.adv n).1 = some d → d ∈ L ∧ n ≤ d ∧ Done L (s.adv n).2 (d + 1)) ∧
    ((s.adv n).1 = none → Done L (s.adv n).2 0) := by
  have h1 := advStart_done n h
  cases hidx : segIndexOf ((s.advStart n).segs.map (·.off)) n with
  | none =>
    rw [PIter.adv, seek_none _ n hidx]
    exact ⟨fun d hd => (by cases hd), fun _ => h1⟩
  | some k =>
    obtain ⟨_, _, _, _, hok, hsound, hsub, _⟩ := h1
    obtain ⟨prek, gk, tk, hsk, hlen, hoffk, hlater⟩ := segIndexOf_some (mono_of_segsOK hok) hidx
    subst hlen
    rw [PIter.adv, seek_some _ n prek gk tk hsk hidx]
    have hgks : gk ∈ (s.advStart n).segs := by rw [hsk]; simp
    obtain ⟨f1, f2, _⟩ := seek_facts hoffk (hsub gk hgks) (hok.1 gk hgks)
    have hstat := stat_replace prek gk (gk.it.advanceIfNeeded (n - gk.off)) tk
    have hp : ScanBase L prek ({ gk with it := gk.it.advanceIfNeeded (n - gk.off) } :: tk) n :=
      { ok := segsOK_congr hstat.symm (hsk ▸ hok)
        sound := by rw [globOf_congr hstat, ← hsk]; exact hsound
        ahead := by
          intro g0 hg0 y hy
          simp only [List.mem_cons] at hg0
          rcases hg0 with rfl | ht
          · exact f2 y hy
          · have := hlater g0 ht; omega
        sub := by
          intro g0 hg0
          simp only [List.mem_append, List.mem_cons] at hg0
          rcases hg0 with hp | rfl | ht
          · exact hsub g0 (by rw [hsk]; simp [hp])
          · exact f1
          · exact hsub g0 (by rw [hsk]; simp [ht]) }
    exact scan_done (s.advStart n) hp

/-- **`postingsIterator` / `postingsIteratorAll` (and the unadorned iterators inside them) are sorted-list
iterators** over the global numbers `L` of their per-segment postings -/
theorem postings_is_iter_aux (L : List Nat) : IsIter PIter.step (PRel L) L where
  next_fresh := by intro s h; exact next_live h
  next_at := by intro s lb h; exact next_live h
  adv_at := by intro s lb n h hn; exact adv_live h hn
  done_sound := by
    intro s p c h
    cases c with
    | next =>
      have := next_done h
      exact ⟨fun d hd => ⟨(this.1 d hd).1, fun _ => (this.1 d hd).2.1, (by intro n hn; cases hn), (this.1 d hd).2.2⟩,
        this.2⟩
    | adv n =>
      have := adv_done (n := n) h
      exact ⟨fun d hd => ⟨(this.1 d hd).1, (by intro hc; cases hc),
        (by intro m hm; cases hm; exact (this.1 d hd).2.1), (this.1 d hd).2.2⟩, this.2⟩
  done_mono := by intro s p p' h hle; exact done_mono' h hle

end Bluge.C07

import BlugeProofs.C07.Bool
/-! The must-not test and the should test of one iteration of `BooleanSearcher.nextInternal`. -/
namespace Bluge.C07
open Bluge.Search

section
variable {ι : Type} {cs : Step ι} {RelK : List Nat → ι → Phase → Prop} {B : Nat}
variable {Lm Ls Ln : Option (List Nat)} {smin : Nat}
variable (hK : ∀ Li, IsIter cs (RelK Li) Li)

include hK in
theorem mnp_spec {s : BoolS ι} {cand : Nat} (h : LInv RelK B Lm Ls smin Ln cand s)
    (hc : s.currentMatch = some cand) :
    ((BoolS.mustNotPhase cs s cand).1 = true →
      (∃ N, Ln = some N ∧ cand ∈ N) ∧ LInv RelK B Lm Ls smin Ln (cand + 1) (BoolS.mustNotPhase cs s cand).2) ∧
    ((BoolS.mustNotPhase cs s cand).1 = false →
      (∀ N, Ln = some N → cand ∉ N) ∧ LInv RelK B Lm Ls smin Ln cand (BoolS.mustNotPhase cs s cand).2 ∧
      (BoolS.mustNotPhase cs s cand).2.currentMatch = some cand) := by
  have hmn := h.mn
  cases Ln with
  | none =>
    cases hk : s.mustNot with
    | some k => rw [hk] at hmn; exact hmn.elim
    | none =>
      rw [hk] at hmn
      simp only [OptF] at hmn
      simp only [BoolS.mustNotPhase, hmn]
      exact ⟨(by intro hf; cases hf), fun _ => ⟨(by intro N hN; cases hN), h, hc⟩⟩
  | some N =>
    cases hk : s.mustNot with
    | none => rw [hk] at hmn; exact hmn.elim
    | some kn =>
      rw [hk] at hmn
      simp only [OptF] at hmn
      cases hcm : s.currMustNot with
      | none =>
        rw [hcm] at hmn
        simp only [BoolS.mustNotPhase, hcm]
        refine ⟨(by intro hf; cases hf), fun _ => ⟨?_, h, hc⟩⟩
        intro N' hN' hin
        cases hN'
        have := hmn.2 cand hin
        omega
      | some mn =>
        rw [hcm] at hmn
        simp only [BoolS.mustNotPhase, hcm, BoolS.mustNotExcludes]
        by_cases h1 : mn < cand
        · simp only [h1, ↓reduceIte, hk, callOpt_some]
          have hcall := kid_adv_call hK hmn.2.1 (n := cand) (by omega)
          -- the state after advancing must-not
          have hs1 : LInv RelK B Lm Ls smin (some N) cand
              { s with mustNot := some (cs kn (.adv cand)).2, currMustNot := (cs kn (.adv cand)).1 } := by
            refine ⟨h.init, h.ndone, h.hsmin, h.drv, ?_⟩
            show FOk RelK cand N (cs kn (.adv cand)).2 (cs kn (.adv cand)).1
            cases hr : (cs kn (.adv cand)).1 with
            | none => rw [hr] at hcall; exact ⟨hcall.2, hcall.1⟩
            | some d => rw [hr] at hcall; exact ⟨hcall.1, hcall.2.2.2, hcall.2.2.1⟩
          by_cases h2 : (cs kn (.adv cand)).1 = some cand
          · simp only [h2, ↓reduceIte]
            refine ⟨fun _ => ⟨⟨N, rfl, ?_⟩, ?_⟩, (by intro hf; cases hf)⟩
            · rw [h2] at hcall; exact hcall.1
            · rw [← h2]; exact (anm_spec hK hs1 hc).1
          · simp only [h2, ↓reduceIte]
            refine ⟨(by intro hf; cases hf), fun _ => ⟨?_, hs1, hc⟩⟩
            intro N' hN' hin
            cases hN'
            cases hr : (cs kn (.adv cand)).1 with
            | none => rw [hr] at hcall; have := hcall.1 cand hin; omega
            | some d =>
              rw [hr] at hcall h2
              have := hcall.2.2.1 cand hin (Nat.le_refl _)
              have := hcall.2.1
              exact h2 (by congr; omega)
        · simp only [h1, ↓reduceIte]
          by_cases h2 : mn = cand
          · simp only [h2, ↓reduceIte]
            refine ⟨fun _ => ⟨⟨N, rfl, ?_⟩, (anm_spec hK h hc).1⟩, (by intro hf; cases hf)⟩
            rw [← h2]; exact hmn.1
          · simp only [h2, ↓reduceIte]
            refine ⟨(by intro hf; cases hf), fun _ => ⟨?_, h, hc⟩⟩
            intro N' hN' hin
            cases hN'
            have := hmn.2.2 cand hin (Nat.le_refl _)
            omega

include hK in
theorem sp_spec {s : BoolS ι} {cand : Nat} (h : LInv RelK B Lm Ls smin Ln cand s)
    (hc : s.currentMatch = some cand) (hnot : ∀ N, Ln = some N → cand ∉ N) :
    ((BoolS.shouldPhase cs s cand).1 = true →
      BMem Lm Ls Ln smin cand ∧ LInv RelK B Lm Ls smin Ln (cand + 1) (BoolS.shouldPhase cs s cand).2 ∧
      ShouldBehind Lm Ls smin (cand + 1) (BoolS.shouldPhase cs s cand).2) ∧
    ((BoolS.shouldPhase cs s cand).1 = false →
      ¬ BMem Lm Ls Ln smin cand ∧ LInv RelK B Lm Ls smin Ln (cand + 1) (BoolS.shouldPhase cs s cand).2) := by
  cases Lm with
  | none =>
    cases Ls with
    | none => exact h.drv.elim
    | some S =>
      -- should is the driver: currShould = currentMatch = some cand
      have hd := h.drv
      have hcand := linv_cand h hc
      obtain ⟨ks, h1, h2, h3, h4⟩ := hd
      rw [hc] at h4
      have hanm := anm_spec hK h hc
      simp only [BoolS.shouldPhase, ← h4, Nat.lt_irrefl, ↓reduceIte]
      refine ⟨fun _ => ⟨⟨hcand.2.2.1, hnot, by intro M S' hM; cases hM⟩, hanm.1, trivial⟩, (by intro hf; cases hf)⟩
  | some M =>
    cases Ls with
    | none =>
      have hd := h.drv
      have hcand := linv_cand h hc
      obtain ⟨km, h1, h2, h3, h4, h5⟩ := hd
      have hanm := anm_spec hK h hc
      simp only [BoolS.shouldPhase, h3, h2, Option.isNone_none, Bool.true_or, ↓reduceIte]
      refine ⟨fun _ => ⟨⟨hcand.2.2.1, hnot, by intro M' S' _ hS; cases hS⟩, hanm.1, trivial⟩, (by intro hf; cases hf)⟩
    | some S =>
      have hd := h.drv
      have hcand := linv_cand h hc
      obtain ⟨km, ks, h1, h2, h3, h4, h5⟩ := hd
      have hsmin := h.hsmin
      cases s with
      | mk must should mustNot shouldMin currMust currShould currMustNot currentMatch init done =>
      simp only at h1 h2 h3 h4 h5 hc hsmin
      subst h1 h2 hsmin
      -- LInv for a state that differs only in the should cursor
      have hs1 : ∀ (ks' : ι) (c' : Resp), (shouldMin = 0 ∨ FOk RelK cand S ks' c') →
          LInv RelK B (some M) (some S) shouldMin Ln cand
            ⟨some km, some ks', mustNot, shouldMin, currMust, c', currMustNot, currentMatch, init, done⟩ := by
        intro ks' c' hf
        exact ⟨h.init, h.ndone, rfl, ⟨km, ks', rfl, rfl, h3, h4, hf⟩, h.mn⟩
      by_cases hz : shouldMin = 0
      · -- should is optional: every path matches
        subst hz
        have hbm : BMem (some M) (some S) Ln 0 cand :=
          ⟨hcand.2.2.1, hnot, fun _ _ _ _ => Or.inl rfl⟩
        simp only [BoolS.shouldPhase, callOpt_some]
        cases currShould with
        | none =>
          simp only [↓reduceIte, Bool.or_true, decide_true]
          have := anm_spec hK h hc
          exact ⟨fun _ => ⟨hbm, this.1, Or.inl rfl⟩, (by intro hf; cases hf)⟩
        | some sh =>
          simp only
          by_cases hlt : sh < cand
          · simp only [hlt, ↓reduceIte]
            have := anm_spec hK (hs1 (cs ks (.adv cand)).2 (cs ks (.adv cand)).1 (Or.inl rfl)) hc
            split
            · exact ⟨fun _ => ⟨hbm, this.1, Or.inl rfl⟩, (by intro hf; cases hf)⟩
            · exact ⟨fun _ => ⟨hbm, this.1, Or.inl rfl⟩, (by intro hf; cases hf)⟩
          · simp only [hlt, ↓reduceIte]
            have := anm_spec hK h hc
            split
            · exact ⟨fun _ => ⟨hbm, this.1, Or.inl rfl⟩, (by intro hf; cases hf)⟩
            · simp only [↓reduceIte, Bool.or_true, decide_true]
              exact ⟨fun _ => ⟨hbm, this.1, Or.inl rfl⟩, (by intro hf; cases hf)⟩
      · -- should is required
        have hfok : FOk RelK cand S ks currShould := h5.elim (fun h => absurd h hz) id
        have hin : cand ∈ S → BMem (some M) (some S) Ln shouldMin cand :=
          fun hS => ⟨hcand.2.2.1, hnot, fun _ S' _ hS' => by cases hS'; exact Or.inr hS⟩
        have hout : cand ∉ S → ¬ BMem (some M) (some S) Ln shouldMin cand :=
          fun hS hb => (hb.2.2 M S rfl rfl).elim hz hS
        simp only [BoolS.shouldPhase, callOpt_some]
        cases currShould with
        | none =>
          simp only [hz, ↓reduceIte, Option.isNone_some, Bool.or_self, Bool.false_eq_true]
          have := anm_spec hK h hc
          refine ⟨(by intro hf; cases hf), fun _ => ⟨hout ?_, this.1⟩⟩
          intro hS; have := hfok.2 cand hS; omega
        | some sh =>
          simp only
          by_cases hlt : sh < cand
          · simp only [hlt, ↓reduceIte]
            have hcall := kid_adv_call hK hfok.2.1 (n := cand) (by omega)
            have hf1 : FOk RelK cand S (cs ks (.adv cand)).2 (cs ks (.adv cand)).1 := by
              cases hr : (cs ks (.adv cand)).1 with
              | none => rw [hr] at hcall; exact ⟨hcall.2, hcall.1⟩
              | some d => rw [hr] at hcall; exact ⟨hcall.1, hcall.2.2.2, hcall.2.2.1⟩
            have hanm := anm_spec hK (hs1 _ _ (Or.inr hf1)) hc
            by_cases heq : (cs ks (.adv cand)).1 = some cand
            · simp only [heq, ↓reduceIte]
              refine ⟨fun _ => ⟨hin ?_, ?_, ?_⟩, (by intro hf; cases hf)⟩
              · rw [heq] at hcall; exact hcall.1
              · rw [← heq]; exact hanm.1
              · refine Or.inr ?_
                intro sh' hsh'
                have h9 := hanm.2 rfl
                simp only at h9
                rw [heq] at h9
                rw [h9] at hsh'
                cases hsh'
                omega
            · simp only [heq, hz, ↓reduceIte]
              refine ⟨(by intro hf; cases hf), fun _ => ⟨hout ?_, hanm.1⟩⟩
              intro hS
              cases hr : (cs ks (.adv cand)).1 with
              | none => rw [hr] at hcall; have := hcall.1 cand hS; omega
              | some d =>
                rw [hr] at hcall heq
                have := hcall.2.2.1 cand hS (Nat.le_refl _)
                have := hcall.2.1
                exact heq (by congr; omega)
          · simp only [hlt, ↓reduceIte]
            have hanm := anm_spec hK h hc
            by_cases heq : sh = cand
            · subst heq
              simp only [↓reduceIte]
              refine ⟨fun _ => ⟨hin ?_, hanm.1, Or.inr ?_⟩, (by intro hf; cases hf)⟩
              · exact hfok.1
              · intro sh' hsh'
                have h9 := hanm.2 rfl
                simp only at h9
                rw [h9] at hsh'
                cases hsh'
                omega
            · simp only [heq, hz, ↓reduceIte, Option.isNone_some, Bool.or_self, Bool.false_eq_true]
              refine ⟨(by intro hf; cases hf), fun _ => ⟨hout ?_, hanm.1⟩⟩
              intro hS
              have := hfok.2.2 cand hS (Nat.le_refl _)
              omega

end
end Bluge.C07

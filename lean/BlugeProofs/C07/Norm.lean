import BlugeProofs.C07.CompileDen
/-! `Query.norm` (the two early `MatchNoneSearcher` returns of the current code) preserves the meaning and
lands in the domain of `compile_den`. -/
namespace Bluge.C07
open Bluge.Search

theorem norm_bool (ms ss ns : List Query) (k : Nat) :
    (Query.bool ms ss ns k).norm =
      if ss.isEmpty && k != 0 then .none
      else .bool (ms.map Query.norm) (ss.map Query.norm) (ns.map Query.norm) k := by
  rw [Query.norm]

theorem hasClauses_bool (ms ss ns : List Query) (k : Nat) :
    (Query.bool ms ss ns k).hasClauses =
      ((!ms.isEmpty || !ss.isEmpty || !ns.isEmpty) &&
       (ms.map (fun q => q.hasClauses)).all id && (ss.map (fun q => q.hasClauses)).all id && (ns.map (fun q => q.hasClauses)).all id) := by
  rw [Query.hasClauses]

theorem not_lt_empty (t : String) : ¬ t < "" := by
  intro h
  have h' : t.toList < ([] : List Char) := String.lt_iff.mp h
  exact absurd h' (List.not_lt_nil _)

theorem irregular_accepts {m : Matcher} (h : m.regular = false) (t : String) : m.accepts t = false := by
  cases m with
  | pfx p => simp [Matcher.regular] at h
  | wild p => simp [Matcher.regular] at h
  | oneOf ts => simp [Matcher.regular] at h
  | range lo hi il ih =>
    cases lo <;> cases hi <;> cases ih <;> simp [Matcher.regular] at h
    · rename_i hi
      simp only [Matcher.accepts, Bool.true_and, Bool.false_eq_true, ↓reduceIte, decide_eq_false_iff_not]
      intro hlt
      exact not_lt_empty t (Std.lt_of_lt_of_le hlt h)
    · rename_i lo hi
      simp only [Matcher.accepts, Bool.false_eq_true, ↓reduceIte, Bool.and_eq_false_imp, decide_eq_false_iff_not]
      intro hlo hlt
      have h1 : t < lo := Std.lt_of_lt_of_le hlt h
      cases il
      · simp only [Bool.false_eq_true, ↓reduceIte, decide_eq_true_eq] at hlo
        exact String.lt_asymm hlo h1
      · simp only [↓reduceIte, decide_eq_true_eq] at hlo
        exact String.lt_irrefl _ (Std.lt_of_lt_of_le h1 hlo)

/-- normalisation does not change the meaning -/
theorem sat_norm (d : Doc) : ∀ q : Query, sat d q.norm = sat d q := by
  intro q
  induction q using Query.ind with
  | hbase q hnb =>
    cases q with
    | multi f m =>
      simp only [Query.norm]
      by_cases hr : m.regular = true
      · simp [hr]
      · have hr' : m.regular = false := by simpa using hr
        simp only [hr', Bool.false_eq_true, ↓reduceIte, sat]
        symm
        rw [List.any_eq_false]
        intro t _
        simp [irregular_accepts hr' t]
    | bool ms ss ns k => exact absurd rfl (hnb ms ss ns k)
    | _ => simp [Query.norm]
  | hbool ms ss ns k ihm ihs ihn =>
    rw [norm_bool]
    by_cases hc : (ss.isEmpty && k != 0) = true
    · simp only [hc, ↓reduceIte]
      simp only [Bool.and_eq_true, List.isEmpty_iff, bne_iff_ne, ne_eq] at hc
      obtain ⟨rfl, hk⟩ := hc
      rw [sat_bool]
      have : need ms [] k = k := by simp [need]
      simp only [sat, List.map_nil, List.filter_nil, List.length_nil, this]
      have : ¬ k ≤ 0 := by omega
      simp [this]
    · simp only [hc, Bool.false_eq_true, ↓reduceIte]
      rw [sat_bool, sat_bool]
      have hm : (ms.map Query.norm).map (fun q => sat d q) = ms.map (fun q => sat d q) := by
        rw [List.map_map]; apply List.map_congr_left; intro q hq; exact ihm q hq
      have hs : (ss.map Query.norm).map (fun q => sat d q) = ss.map (fun q => sat d q) := by
        rw [List.map_map]; apply List.map_congr_left; intro q hq; exact ihs q hq
      have hn : (ns.map Query.norm).map (fun q => sat d q) = ns.map (fun q => sat d q) := by
        rw [List.map_map]; apply List.map_congr_left; intro q hq; exact ihn q hq
      have hneed : need (ms.map Query.norm) (ss.map Query.norm) k = need ms ss k := by
        simp [need]
      rw [hm, hs, hn, hneed]

theorem denote_norm (idx : Index) (q : Query) : denote idx q.norm = denote idx q := by
  unfold denote
  congr 1
  apply List.filter_congr
  intro e _
  exact sat_norm e.2 q

/-- a normalised query with clauses is in the domain of `compile_den` -/
theorem wf_norm : ∀ q : Query, q.hasClauses = true → q.norm.WF = true := by
  intro q
  induction q using Query.ind with
  | hbase q hnb =>
    intro _
    cases q with
    | multi f m =>
      simp only [Query.norm]
      by_cases hr : m.regular = true
      · simp [hr, Query.WF]
      · simp [hr, Query.WF]
    | bool ms ss ns k => exact absurd rfl (hnb ms ss ns k)
    | _ => simp [Query.norm, Query.WF]
  | hbool ms ss ns k ihm ihs ihn =>
    intro h
    rw [hasClauses_bool] at h
    simp only [Bool.and_eq_true, Bool.or_eq_true, Bool.not_eq_true', List.all_eq_true, List.mem_map, id_eq,
      forall_exists_index, and_imp, forall_apply_eq_imp_iff₂] at h
    obtain ⟨⟨⟨hne, hm⟩, hs⟩, hn⟩ := h
    rw [norm_bool]
    by_cases hc : (ss.isEmpty && k != 0) = true
    · simp [hc, Query.WF]
    · simp only [hc, Bool.false_eq_true, ↓reduceIte]
      rw [wf_bool]
      simp only [Bool.and_eq_true, Bool.or_eq_true, Bool.not_eq_true', List.all_eq_true, List.mem_map, id_eq,
        forall_exists_index, and_imp, forall_apply_eq_imp_iff₂, beq_iff_eq, List.isEmpty_map]
      refine ⟨⟨⟨⟨hne, ?_⟩, fun q hq => ihm q hq (hm q hq)⟩, fun q hq => ihs q hq (hs q hq)⟩, fun q hq => ihn q hq (hn q hq)⟩
      simp only [Bool.and_eq_true, bne_iff_ne, ne_eq, not_and, Decidable.not_not] at hc
      by_cases hse : ss.isEmpty = true
      · right; exact hc hse
      · left; simpa using hse

end Bluge.C07

import BlugeProofs.C07.PlanExact
import Bluge.C07.Query
/-! `Plan.okB` is sound for `PlanOK`; the plan compiled from a query denotes the query's meaning. -/
namespace Bluge.C07
open Bluge.Search

theorem sortedB_sound : ∀ (l : List Nat), sortedB l = true → Sorted l
  | [], _ => List.Pairwise.nil
  | [a], _ => by simp [Sorted]
  | a :: b :: t, h => by
    simp only [sortedB, Bool.and_eq_true, decide_eq_true_eq] at h
    have ih := sortedB_sound (b :: t) h.2
    have hp := List.pairwise_cons.mp ih
    refine List.pairwise_cons.mpr ⟨?_, ih⟩
    intro x hx
    cases hx with
    | head => exact h.1
    | tail _ hx => have := hp.1 x hx; omega

theorem okB_bool (B W : Nat) (m s n : Option Plan) (k : Nat) :
    (Plan.bool m s n k).okB B W =
      ((match m with | some p => p.okB B W | none => true) && (match s with | some p => p.okB B W | none => true) &&
       (match n with | some p => p.okB B W | none => true) && (m.isSome || s.isSome)) := by
  cases m <;> cases s <;> cases n <;> simp [Plan.okB]

theorem okB_sound {B W : Nat} : ∀ p : Plan, p.okB B W = true → PlanOK B W p := by
  intro p
  induction p using Plan.ind with
  | hleaf k l =>
    intro h
    simp only [Plan.okB, Bool.and_eq_true, List.all_eq_true, decide_eq_true_eq] at h
    exact .leaf (sortedB_sound l h.1) h.2
  | hconj ps ih =>
    intro h
    simp only [Plan.okB, Bool.and_eq_true, Bool.not_eq_true', List.isEmpty_eq_false_iff, decide_eq_true_eq,
      List.all_eq_true, List.mem_map, id_eq, forall_exists_index, and_imp, forall_apply_eq_imp_iff₂] at h
    exact .conj h.1.1 h.1.2 (fun p hp => ih p hp (h.2 p hp))
  | hdisj ps min ih =>
    intro h
    simp only [Plan.okB,
      List.all_eq_true, List.mem_map, id_eq, forall_exists_index, and_imp, forall_apply_eq_imp_iff₂] at h
    exact .disj (fun p hp => ih p hp (h p hp))
  | hbool m s n k ihm ihs ihn =>
    intro h
    rw [okB_bool] at h
    simp only [Bool.and_eq_true, Bool.or_eq_true] at h
    refine .bool ?_ ?_ ?_ h.2
    · intro p hp; subst hp; exact ihm p rfl h.1.1.1
    · intro p hp; subst hp; exact ihs p rfl h.1.1.2
    · intro p hp; subst hp; exact ihn p rfl h.1.2
  | hfilt p acc ih => intro h; simp only [Plan.okB] at h; exact .filt (ih h)
  | hphrase p ok ih => intro h; simp only [Plan.okB] at h; exact .phrase (ih h)

/-- **plan_exact**: a searcher tree of any depth built by `Plan.build` from a well-formed plan, drained
with `Next` like a collector does, produces exactly the plan's set expression — strictly increasing. -/
theorem plan_exact_aux {B W : Nat} (p : Plan) (h : p.okB B W = true) :
    p.run B W = p.den B ∧ (p.run B W).Pairwise (· < ·) := by
  have hok := okB_sound p h
  have := plan_run_eq_den p hok
  exact ⟨this, this ▸ den_sorted p hok⟩

end Bluge.C07

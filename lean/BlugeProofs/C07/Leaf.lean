import BlugeProofs.C07.Iter
/-! The leaf searchers (TermSearcher over postingsIterator / the unadorned iterator, MatchAllSearcher,
MatchNoneSearcher) are sorted-list iterators. -/
namespace Bluge.C07
open Bluge.Search

/-- live leaf positioned after everything `< lb` -/
def LeafAt (L : List Nat) (l : Leaf) (lb : Nat) : Prop :=
  Sorted L ∧ (∃ pre, L = pre ++ l.rest ∧ ∀ x ∈ pre, x < lb) ∧ (∀ x ∈ l.rest, lb ≤ x) ∧
  l.list = L ∧ (l.kind ≠ .all → l.started = true → l.curr < lb)

def LeafRel (L : List Nat) (l : Leaf) : Phase → Prop
  | .fresh => Sorted L ∧ l.rest = L ∧ l.started = false ∧ l.list = L
  | .at lb => LeafAt L l lb
  | .done p => Sorted l.rest ∧ Sorted l.list ∧ (∀ x ∈ l.rest, x ∈ L ∧ p ≤ x) ∧ (∀ x ∈ l.list, x ∈ L)

theorem dropWhile_lt_ge {R : List Nat} (hs : Sorted R) (n : Nat) :
    ∀ x ∈ R.dropWhile (fun x => decide (x < n)), n ≤ x := by
  induction R with
  | nil => intro x hx; cases hx
  | cons a t ih =>
    have hs' := List.pairwise_cons.mp hs
    by_cases h : a < n
    · simp only [List.dropWhile_cons, h, decide_true, ↓reduceIte]
      exact ih hs'.2
    · simp only [List.dropWhile_cons, h, decide_false]
      intro x hx
      cases hx with
      | head => omega
      | tail _ hx => have := hs'.1 x hx; omega

theorem dropWhile_head_not {R : List Nat} {p : Nat → Bool} {x : Nat} {r : List Nat}
    (h : R.dropWhile p = x :: r) : p x = false := by
  induction R with
  | nil => simp at h
  | cons a t ih =>
    by_cases hp : p a = true
    · simp only [List.dropWhile_cons, hp, ↓reduceIte] at h; exact ih h
    · simp only [List.dropWhile_cons, hp] at h
      have : a = x := by injection h
      subst this; simpa using hp

theorem mem_takeWhile_sat {R : List Nat} {p : Nat → Bool} {x : Nat} (h : x ∈ R.takeWhile p) : p x = true := by
  induction R with
  | nil => simp at h
  | cons a t ih =>
    by_cases hp : p a = true
    · simp only [List.takeWhile_cons, hp, ↓reduceIte] at h
      cases h with
      | head => exact hp
      | tail _ h => exact ih h
    · simp [List.takeWhile_cons, hp] at h

theorem mem_of_mem_dropWhile {R : List Nat} {p : Nat → Bool} {x : Nat} (h : x ∈ R.dropWhile p) : x ∈ R :=
  (List.dropWhile_sublist p).subset h

theorem leaf_next_at {L l lb} (h : LeafAt L l lb) :
    IsFirstGE L lb l.next.1 ∧ LeafRel L l.next.2 (after l.next.1) := by
  obtain ⟨hs, ⟨pre, hL, hpre⟩, hrest, hlist, hcurr⟩ := h
  unfold Leaf.next
  cases hr : l.rest with
  | nil =>
    simp only
    rw [hr, List.append_nil] at hL
    subst hL
    refine ⟨fun x hx => hpre x hx, ?_⟩
    simp only [after, LeafRel]
    exact ⟨by simp [hr], by rw [hlist]; exact hs, by simp [hr], by rw [hlist]; exact fun x hx => hx⟩
  | cons x r =>
    simp only [after]
    rw [hr] at hL hrest
    have hsr : Sorted (pre ++ x :: r) := hL ▸ hs
    have hsr' := List.pairwise_append.mp hsr
    have hxr := List.pairwise_cons.mp hsr'.2.1
    refine ⟨⟨by rw [hL]; simp, hrest x List.mem_cons_self, ?_⟩, ?_⟩
    · intro t ht hlt
      rw [hL] at ht
      rcases List.mem_append.mp ht with hp | hx
      · have := hpre t hp; omega
      · cases hx with
        | head => exact Nat.le_refl _
        | tail _ hx => exact Nat.le_of_lt (hxr.1 t hx)
    · refine ⟨hs, ⟨pre ++ [x], by simp [hL], ?_⟩, ?_, hlist, ?_⟩
      · intro t ht
        rcases List.mem_append.mp ht with hp | hx
        · have := hsr'.2.2 t hp x List.mem_cons_self; omega
        · simp at hx; omega
      · intro t ht; have := hxr.1 t ht; omega
      · intro _ _; simp

theorem leaf_is_iter_aux (L : List Nat) : IsIter Leaf.step (LeafRel L) L where
  next_fresh := by
    intro l h
    obtain ⟨hs, hrest, hst, hlist⟩ := h
    have : LeafAt L l 0 :=
      ⟨hs, ⟨[], by simp [hrest], by simp⟩, by simp, hlist, by intro _ h; rw [hst] at h; cases h⟩
    exact leaf_next_at this
  next_at := by
    intro l lb h
    exact leaf_next_at h
  adv_at := by
    intro l lb n h hn
    obtain ⟨hs, ⟨pre, hL, hpre⟩, hrest, hlist, hcurr⟩ := h
    have hcond : (l.kind != .all && l.started && decide (n ≤ l.curr)) = false := by
      by_cases hk : l.kind = .all
      · simp [hk]
      · by_cases hst : l.started = true
        · have := hcurr hk hst
          have : ¬ n ≤ l.curr := by omega
          simp [this]
        · simp [hst]
    show IsFirstGE L n (l.adv n).1 ∧ LeafRel L (l.adv n).2 (after (l.adv n).1)
    unfold Leaf.adv
    simp only [hcond, Bool.false_eq_true, ↓reduceIte]
    apply leaf_next_at
    have hsr : Sorted (pre ++ l.rest) := hL ▸ hs
    have hsr' := List.pairwise_append.mp hsr
    refine ⟨hs, ⟨pre ++ l.rest.takeWhile (fun x => decide (x < n)), ?_, ?_⟩, ?_, hlist, ?_⟩
    · simp only [List.append_assoc, List.takeWhile_append_dropWhile]; exact hL
    · intro t ht
      rcases List.mem_append.mp ht with hp | hx
      · have := hpre t hp; omega
      · have := mem_takeWhile_sat hx; simpa using this
    · exact dropWhile_lt_ge hsr'.2.1 n
    · intro hk hst; have := hcurr hk hst; simp only; omega
  done_sound := by
    intro l p c h
    have hnext : ∀ (l' : Leaf) (q : Nat), LeafRel L l' (.done q) →
        (∀ d, l'.next.1 = some d → d ∈ L ∧ q ≤ d ∧ LeafRel L l'.next.2 (.done (d + 1))) ∧
        (l'.next.1 = none → LeafRel L l'.next.2 (.done 0)) := by
      intro l' q h'
      obtain ⟨h1, h2, h3, h4⟩ := h'
      unfold Leaf.next
      cases hr : l'.rest with
      | nil =>
        refine ⟨(by intro d hd; cases hd), ?_⟩
        intro _
        exact ⟨by simp [hr], h2, by simp [hr], h4⟩
      | cons x r =>
        rw [hr] at h1 h3
        have hp := List.pairwise_cons.mp h1
        refine ⟨?_, (by intro hn; cases hn)⟩
        intro d hd
        simp only at hd
        cases hd
        refine ⟨(h3 x List.mem_cons_self).1, (h3 x List.mem_cons_self).2, hp.2, h2, ?_, h4⟩
        intro y hy
        exact ⟨(h3 y (List.mem_cons_of_mem _ hy)).1, by have := hp.1 y hy; omega⟩
    cases c with
    | next =>
      have := hnext l p h
      exact ⟨fun d hd => ⟨(this.1 d hd).1, fun _ => (this.1 d hd).2.1, (by intro n hn; cases hn), (this.1 d hd).2.2⟩, this.2⟩
    | adv n =>
      obtain ⟨h1, h2, h3, h4⟩ := h
      show (∀ d, (l.adv n).1 = some d → d ∈ L ∧ (Call.adv n = Call.next → p ≤ d) ∧
          (∀ m, Call.adv n = Call.adv m → m ≤ d) ∧ LeafRel L (l.adv n).2 (.done (d + 1))) ∧
        ((l.adv n).1 = none → LeafRel L (l.adv n).2 (.done 0))
      unfold Leaf.adv
      generalize hl1 : (if (l.kind != .all && l.started && decide (n ≤ l.curr)) = true then l.restart else l) = l1
      have hl1' : Sorted l1.rest ∧ Sorted l1.list ∧ (∀ x ∈ l1.rest, x ∈ L) ∧ (∀ x ∈ l1.list, x ∈ L) := by
        subst hl1
        split
        · unfold Leaf.restart
          cases l.kind <;> simp only
          · exact ⟨h2, h2, h4, h4⟩
          · exact ⟨by simp, by simp, by simp, by simp⟩
          · exact ⟨h1, h2, fun x hx => (h3 x hx).1, h4⟩
        · exact ⟨h1, h2, fun x hx => (h3 x hx).1, h4⟩
      have hrel : LeafRel L { l1 with rest := l1.rest.dropWhile (fun x => decide (x < n)) } (.done n) :=
        ⟨hl1'.1.sublist (List.dropWhile_sublist _), hl1'.2.1,
         fun x hx => ⟨hl1'.2.2.1 x (mem_of_mem_dropWhile hx), dropWhile_lt_ge hl1'.1 n x hx⟩, hl1'.2.2.2⟩
      have := hnext _ n hrel
      refine ⟨fun d hd => ?_, this.2⟩
      have hd' := this.1 d hd
      exact ⟨hd'.1, (by intro hc; cases hc), (by intro m hm; cases hm; exact hd'.2.1), hd'.2.2⟩
  done_mono := by
    intro l p p' h hle
    obtain ⟨h1, h2, h3, h4⟩ := h
    exact ⟨h1, h2, fun x hx => ⟨(h3 x hx).1, by have := (h3 x hx).2; omega⟩, h4⟩

/-- a freshly constructed leaf over a sorted list is in phase `fresh` -/
theorem leaf_fresh (k : LeafKind) {L : List Nat} (hs : Sorted L) : LeafRel L (Leaf.mk' k L) .fresh :=
  ⟨hs, rfl, rfl, rfl⟩

end Bluge.C07

import BlugeProofs.C07.ConjLoop
/-! Sound mode of the leap-frog loops and the assembled contract `conj_is_iter_aux`. -/
namespace Bluge.C07
open Bluge.Search

section
variable {ι : Type} {cs : Step ι} {RelK : List Nat → ι → Phase → Prop} {L : List Nat} {B : Nat}
variable (hK : ∀ Li, IsIter cs (RelK Li) Li)

include hK in
theorem advPrefix_sound {Ls} {s : Conj ι} {lo m x : Nat}
    (hall : AllK (CKSnd RelK L B lo) Ls s.kids s.currs) (hmx : m < x) (hlx : lo ≤ x) :
    ∀ i, (∀ j, j < i → s.currs[j]? = some (some m)) →
      (Conj.advPrefix cs s x i).init = s.init ∧
      AllK (CKSnd RelK L B lo) Ls (Conj.advPrefix cs s x i).kids (Conj.advPrefix cs s x i).currs ∧
      (∀ j, i ≤ j → (Conj.advPrefix cs s x i).currs[j]? = s.currs[j]?) := by
  intro i
  induction i with
  | zero => intro _; exact ⟨rfl, hall, fun _ _ => rfl⟩
  | succ i ih =>
    intro hpre
    obtain ⟨h1, h2, h3⟩ := ih (fun j hj => hpre j (by omega))
    have hci : (Conj.advPrefix cs s x i).currs[i]? = some (some m) := by
      rw [h3 i (Nat.le_refl _)]; exact hpre i (by omega)
    obtain ⟨Li, k, hLi, hk, hP⟩ := h2.get_curr hci
    have hadv := sn_adv hK hP (m := x) (by intro y hy; cases hy; exact hmx)
    simp only [Conj.advPrefix]
    rw [advChild_eq hk]
    refine ⟨h1, h2.set i Li _ _ hLi (cksnd_mono hlx hadv), ?_⟩
    intro j hj
    simp only
    rw [List.getElem?_set_ne (by omega)]
    exact h3 j (by omega)

def ConjSGoal (RelK : List Nat → ι → Phase → Prop) (L : List Nat) (B : Nat) (Ls : List (List Nat)) (lo : Nat)
    (r : Resp × Conj ι) : Prop :=
  (∀ d, r.1 = some d → d ∈ L ∧ lo ≤ d ∧ ConjRel RelK L B Ls r.2 (.done (d + 1))) ∧
  (r.1 = none → ConjRel RelK L B Ls r.2 (.done 0))

include hK in
theorem conj_sound_aux {Ls : List (List Nat)} (hL : ∀ x, x ∈ L ↔ ∀ Li ∈ Ls, x ∈ Li) (lo : Nat) :
    ∀ f,
    (∀ (s : Conj ι), s.init = true → s.maxIdx < Ls.length →
      AllK (CKSnd RelK L B lo) Ls s.kids s.currs →
      ConjSGoal RelK L B Ls lo (Conj.outer cs f s)) ∧
    (∀ (s : Conj ι) (m i : Nat), s.init = true → s.maxIdx < Ls.length →
      AllK (CKSnd RelK L B lo) Ls s.kids s.currs →
      s.currs[s.maxIdx]? = some (some m) → (∀ j, j < i → s.currs[j]? = some (some m)) → i ≤ Ls.length →
      ConjSGoal RelK L B Ls lo (Conj.inner cs f s m i)) := by
  have hstay : ∀ (s : Conj ι), s.init = true → s.maxIdx < Ls.length →
      AllK (CKSnd RelK L B lo) Ls s.kids s.currs → ConjSGoal RelK L B Ls lo (none, s) := by
    intro s hinit hmax hall
    exact ⟨(by intro d hd; cases hd), fun _ => ⟨hinit, hmax, hall.mono (fun _ _ _ h => cksnd_mono (Nat.zero_le _) h)⟩⟩
  intro f
  induction f with
  | zero =>
    constructor
    · intro s hinit hmax hall; rw [Conj.outer]; exact hstay s hinit hmax hall
    · intro s m i hinit hmax hall _ _ _; rw [Conj.inner]; exact hstay s hinit hmax hall
  | succ f ih =>
    obtain ⟨ihO, ihI⟩ := ih
    constructor
    · intro s hinit hmax hall
      obtain ⟨Li, k, c, hLi, hk, hc, hP⟩ := hall.get s.maxIdx hmax
      rw [Conj.outer]
      have hgd : s.currs.getD s.maxIdx none = c := by simp [List.getD_eq_getElem?_getD, hc]
      rw [hgd]
      cases c with
      | none => exact hstay s hinit hmax hall
      | some m => exact ihI s m 0 hinit hmax hall hc (by intro j hj; omega) (Nat.zero_le _)
    · intro s m i hinit hmax hall hcm hpre hi
      have hlen := hall.len_currs
      obtain ⟨Lm, km, hLm, hkm, hPm⟩ := hall.get_curr hcm
      have hlom : lo ≤ m := hPm.2.2.1
      rw [Conj.inner]
      by_cases hdone : s.currs.length ≤ i
      · simp only [hdone, ↓reduceIte]
        have hall' := hall.with_curr (fun c => c = some m)
          (fun j c hc => by
            have hj : j < s.currs.length := (List.getElem?_eq_some_iff.mp hc).1
            have := hpre j (by omega)
            rw [hc] at this; injection this)
        have hmem : ∀ Li ∈ Ls, m ∈ Li := by
          intro Li hLi
          obtain ⟨k, c, hc, hP⟩ := hall'.forall_mem Li hLi
          subst hc; exact hP.2.1
        refine ⟨?_, (by intro hn; cases hn)⟩
        intro d hd; simp only at hd; cases hd
        refine ⟨(hL m).mpr hmem, hlom, hinit, hmax, ?_⟩
        exact nextAll_spec cs (fun Li k c h => by obtain ⟨hc, hP⟩ := h; subst hc; exact sn_next hK hP) hall'
      · simp only [hdone, ↓reduceIte]
        have hil : i < Ls.length := by omega
        obtain ⟨Li, k, c, hLi, hk, hc, hP⟩ := hall.get i hil
        have hgd : s.currs.getD i none = c := by simp [List.getD_eq_getElem?_getD, hc]
        rw [hgd]
        cases c with
        | none => exact hstay s hinit hmax hall
        | some x =>
          simp only
          by_cases him : i = s.maxIdx
          · simp only [him, ↓reduceIte]
            refine ihI s m (s.maxIdx + 1) hinit hmax hall hcm ?_ (by omega)
            intro j hj
            by_cases hj' : j = s.maxIdx
            · rw [hj']; exact hcm
            · exact hpre j (by omega)
          · simp only [him, ↓reduceIte]
            by_cases hmx : m = x
            · simp only [hmx, ↓reduceIte]
              subst hmx
              refine ihI s m (i + 1) hinit hmax hall hcm ?_ (by omega)
              intro j hj
              by_cases hj' : j = i
              · rw [hj']; exact hc
              · exact hpre j (by omega)
            · simp only [hmx, ↓reduceIte]
              by_cases hlt : m < x
              · simp only [hlt, ↓reduceIte]
                obtain ⟨a1, a2, a3⟩ := advPrefix_sound hK hall hlt hP.2.2.1 i hpre
                exact ihO _ (by simpa using a1 ▸ hinit) (by simpa using hil) (by simpa using a2)
              · simp only [hlt, ↓reduceIte]
                have hxm : x < m := by omega
                have hadv := sn_adv hK hP (m := m) (by intro y hy; cases hy; exact hxm)
                rw [advChild_eq hk]
                refine ihI _ m i hinit hmax (hall.set i Li _ _ hLi (cksnd_mono hlom hadv)) ?_ ?_ hi
                · simp only; rw [List.getElem?_set_ne him]; exact hcm
                · intro j hj; simp only; rw [List.getElem?_set_ne (by omega)]; exact hpre j hj

include hK in
/-- `ConjunctionSearcher` over iterators is an iterator over the intersection -/
theorem conj_is_iter_aux {Ls : List (List Nat)} (hL : ∀ x, x ∈ L ↔ ∀ Li ∈ Ls, x ∈ Li) (fuel : Nat)
    (hfuel : B * (2 * Ls.length + 2) + Ls.length + 2 ≤ fuel) :
    IsIter (Conj.step cs fuel) (ConjRel RelK L B Ls) L := by
  have hexact : ∀ (s : Conj ι) (lb : Nat), s.init = true → s.maxIdx < Ls.length →
      AllK (CKOk RelK L B lb) Ls s.kids s.currs → ConjGoal RelK L B Ls lb (Conj.outer cs fuel s) := by
    intro s lb hinit hmax hall
    refine (conj_exact_aux hK hL fuel).1 s lb hinit hmax hall ?_
    intro m _
    have h1 := pot_le B s.currs
    rw [hall.len_currs] at h1
    have h2 : (B - m) * (Ls.length + 2) ≤ B * (Ls.length + 2) := Nat.mul_le_mul_right _ (Nat.sub_le _ _)
    have h3 : B * (2 * Ls.length + 2) = B * (Ls.length + 2) + Ls.length * B := by
      rw [Nat.mul_comm Ls.length B, ← Nat.mul_add]; congr 1; omega
    omega
  constructor
  · -- next_fresh
    intro s h
    obtain ⟨hinit, hmax, hall⟩ := h
    show ConjGoal RelK L B Ls 0 (Conj.step cs fuel s .next)
    simp only [Conj.step, Conj.ensureInit, hinit, Bool.false_eq_true, ↓reduceIte]
    exact hexact _ 0 rfl hmax (nextAll_spec cs (fun Li k c h => ck_fresh_next hK h.1 h.2) hall)
  · -- next_at
    intro s lb h
    obtain ⟨hinit, hmax, hall⟩ := h
    show ConjGoal RelK L B Ls lb (Conj.step cs fuel s .next)
    simp only [Conj.step, Conj.ensureInit, hinit, ↓reduceIte]
    exact hexact s lb hinit hmax hall
  · -- adv_at
    intro s lb n h hn
    obtain ⟨hinit, hmax, hall⟩ := h
    show ConjGoal RelK L B Ls n (Conj.step cs fuel s (.adv n))
    cases s with
    | mk kids currs maxIdx init =>
    simp only at hinit hmax hall
    subst hinit
    simp only [Conj.step, Conj.ensureInit, ↓reduceIte]
    refine hexact _ n rfl hmax ?_
    exact advBehind_spec cs n (P := CKOk RelK L B lb) (Q := CKOk RelK L B n)
      (fun Li k x h hx => ck_keep h hn hx) (fun Li k c h hc => ck_advn hK h hn hc) hall
  · -- done_sound
    intro s p c h
    obtain ⟨hinit, hmax, hall⟩ := h
    cases s with
    | mk kids currs maxIdx init =>
    simp only at hinit hmax hall
    subst hinit
    cases c with
    | next =>
      have := (conj_sound_aux hK hL p fuel).1 ⟨kids, currs, maxIdx, true⟩ rfl hmax hall
      simp only [Conj.step, Conj.ensureInit, ↓reduceIte]
      exact ⟨fun d hd => ⟨(this.1 d hd).1, fun _ => (this.1 d hd).2.1, (by intro n hn; cases hn), (this.1 d hd).2.2⟩, this.2⟩
    | adv n =>
      simp only [Conj.step, Conj.ensureInit, ↓reduceIte]
      have hall' : AllK (CKSnd RelK L B n) Ls (advBehind cs n kids currs).2 (advBehind cs n kids currs).1 :=
        advBehind_spec cs n (P := CKSnd RelK L B p) (Q := CKSnd RelK L B n)
          (fun Li k x h hx => by obtain ⟨h1, h2, _, h4⟩ := h; exact ⟨h1, h2, hx, h4⟩)
          (fun Li k c h hc => sn_adv hK h hc) hall
      have := (conj_sound_aux hK hL n fuel).1 ⟨(advBehind cs n kids currs).2, (advBehind cs n kids currs).1, maxIdx, true⟩
        rfl hmax hall'
      exact ⟨fun d hd => ⟨(this.1 d hd).1, (by intro hc; cases hc), (by intro m hm; cases hm; exact (this.1 d hd).2.1),
        (this.1 d hd).2.2⟩, this.2⟩
  · -- done_mono
    intro s p p' h hle
    obtain ⟨hinit, hmax, hall⟩ := h
    exact ⟨hinit, hmax, hall.mono (fun _ _ _ h => cksnd_mono hle h)⟩

end
end Bluge.C07

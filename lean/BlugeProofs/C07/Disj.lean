import BlugeProofs.C07.Conj
import BlugeProofs.C07.Upd
/-! `DisjunctionSliceSearcher` (min-match counting) is a sorted-list iterator over the documents that
occur in at least `max min 1` of its children: per-child lemmas and the `nextIdxs` loop. -/
namespace Bluge.C07
open Bluge.Search

/-- in how many of the lists `x` occurs -/
def cnt (Ls : List (List Nat)) (x : Nat) : Nat := (Ls.filter (fun Li => Li.contains x)).length

theorem cnt_pos {Ls : List (List Nat)} {x : Nat} (h : 1 ≤ cnt Ls x) : ∃ Li ∈ Ls, x ∈ Li := by
  unfold cnt at h
  cases hf : Ls.filter (fun Li => Li.contains x) with
  | nil => rw [hf] at h; simp at h
  | cons a t =>
    have : a ∈ Ls.filter (fun Li => Li.contains x) := by rw [hf]; exact List.mem_cons_self
    have := List.mem_filter.mp this
    exact ⟨a, this.1, by simpa using this.2⟩

section defs
variable {ι : Type} (RelK : List Nat → ι → Phase → Prop) (B : Nat)

/-- exact-mode invariant of one child: its current answer is the first element `≥ lb` of its list -/
def DKOk (lb : Nat) (Li : List Nat) (k : ι) : Resp → Prop
  | some x => (∀ y ∈ Li, y < B) ∧ x ∈ Li ∧ lb ≤ x ∧ (∀ t ∈ Li, lb ≤ t → x ≤ t) ∧ RelK Li k (.at (x + 1))
  | none => (∀ y ∈ Li, y < B) ∧ RelK Li k (.done 0) ∧ ∀ t ∈ Li, t < lb

def DKSnd (lo : Nat) (Li : List Nat) (k : ι) : Resp → Prop
  | some x => x ∈ Li ∧ lo ≤ x ∧ (RelK Li k (.at (x + 1)) ∨ RelK Li k (.done (x + 1)))
  | none => RelK Li k (.done 0)

def DisjRel (min : Nat) (Ls : List (List Nat)) (s : DisjS ι) : Phase → Prop
  | .fresh => s.init = false ∧ s.min = min ∧
      AllK (fun Li k _ => (∀ y ∈ Li, y < B) ∧ RelK Li k .fresh) Ls s.kids s.currs
  | .at lb => s.init = true ∧ s.min = min ∧ AllK (DKOk RelK B lb) Ls s.kids s.currs ∧
      s.mval = (updateMatches s.currs).1 ∧ s.midx = (updateMatches s.currs).2
  | .done p => s.init = true ∧ s.min = min ∧ AllK (DKSnd RelK p) Ls s.kids s.currs ∧
      s.mval = (updateMatches s.currs).1 ∧ s.midx = (updateMatches s.currs).2

end defs

section lemmas
variable {ι : Type} {cs : Step ι} {RelK : List Nat → ι → Phase → Prop} {B : Nat}
variable (hK : ∀ Li, IsIter cs (RelK Li) Li)

theorem dk_to_snd {lb Li} {k : ι} {c : Resp} (h : DKOk RelK B lb Li k c) : DKSnd RelK lb Li k c := by
  cases c with
  | none => exact h.2.1
  | some x => obtain ⟨_, h2, h3, _, h5⟩ := h; exact ⟨h2, h3, Or.inl h5⟩

theorem dsnd_mono {lo lo' Li} {k : ι} {c : Resp} (hle : lo' ≤ lo) (h : DKSnd RelK lo Li k c) :
    DKSnd RelK lo' Li k c := by
  cases c with
  | none => exact h
  | some x => obtain ⟨h1, h2, h3⟩ := h; exact ⟨h1, by omega, h3⟩

theorem dk_keep {lb n Li} {k : ι} {x : Nat} (h : DKOk RelK B lb Li k (some x)) (hln : lb ≤ n) (hnx : n ≤ x) :
    DKOk RelK B n Li k (some x) := by
  obtain ⟨h1, h2, _, h4, h5⟩ := h
  exact ⟨h1, h2, hnx, fun t ht hnt => h4 t ht (by omega), h5⟩

include hK in
theorem dk_advn {lb n Li} {k : ι} {c : Resp} (h : DKOk RelK B lb Li k c) (hln : lb ≤ n)
    (hc : ∀ x, c = some x → x < n) :
    DKOk RelK B n Li (cs k (.adv n)).2 (cs k (.adv n)).1 := by
  cases c with
  | some x =>
    obtain ⟨hB, _, _, _, hat⟩ := h
    have hxn := hc x rfl
    have := kid_adv_call hK hat (n := n) (by omega)
    cases hr : (cs k (.adv n)).1 with
    | none => rw [hr] at this; exact ⟨hB, this.2, this.1⟩
    | some x' => rw [hr] at this; exact ⟨hB, this.1, this.2.1, this.2.2.1, this.2.2.2⟩
  | none =>
    obtain ⟨hB, hdone, hnone⟩ := h
    have := kid_done_call hK (.adv n) hdone
    cases hr : (cs k (.adv n)).1 with
    | none => rw [hr] at this; exact ⟨hB, this, fun t ht => by have := hnone t ht; omega⟩
    | some x' =>
      rw [hr] at this
      have h1 := hnone x' this.1
      have h2 := this.2.2.1 n rfl
      omega

include hK in
theorem dk_next {lb Li} {k : ι} {m : Nat} (h : DKOk RelK B lb Li k (some m)) :
    DKOk RelK B (m + 1) Li (cs k .next).2 (cs k .next).1 ∧ (cs k .next).1 ≠ some m := by
  obtain ⟨hB, _, _, _, hat⟩ := h
  have := kid_next_call hK hat
  cases hr : (cs k .next).1 with
  | none => rw [hr] at this; exact ⟨⟨hB, this.2, this.1⟩, by simp⟩
  | some x' =>
    rw [hr] at this
    refine ⟨⟨hB, this.1, this.2.1, this.2.2.1, this.2.2.2⟩, ?_⟩
    intro hx; injection hx with hx; have := this.2.1; omega

theorem dk_pass {lb m Li} {k : ι} {c : Resp} (h : DKOk RelK B lb Li k c) (hlm : lb ≤ m + 1)
    (hc : ∀ x, c = some x → m < x) : DKOk RelK B (m + 1) Li k c := by
  cases c with
  | none => obtain ⟨h1, h2, h3⟩ := h; exact ⟨h1, h2, fun t ht => by have := h3 t ht; omega⟩
  | some x =>
    obtain ⟨h1, h2, h3, h4, h5⟩ := h
    have := hc x rfl
    exact ⟨h1, h2, by omega, fun t ht hmt => h4 t ht (by omega), h5⟩

include hK in
theorem dk_fresh_next {Li} {k : ι} (hB : ∀ y ∈ Li, y < B) (h : RelK Li k .fresh) :
    DKOk RelK B 0 Li (cs k .next).2 (cs k .next).1 := by
  have := kid_fresh_call hK h
  cases hr : (cs k .next).1 with
  | none => rw [hr] at this; exact ⟨hB, this.2, fun t ht => (this.1 t ht).elim⟩
  | some x' => rw [hr] at this; exact ⟨hB, this.1, Nat.zero_le _, fun t ht _ => this.2.1 t ht, this.2.2⟩

include hK in
theorem dsn_adv {lo m Li} {k : ι} {c : Resp} (h : DKSnd RelK lo Li k c) (hc : ∀ x, c = some x → x < m) :
    DKSnd RelK m Li (cs k (.adv m)).2 (cs k (.adv m)).1 := by
  have hcases : (∃ x, c = some x ∧ RelK Li k (.at (x + 1))) ∨ ∃ p, RelK Li k (.done p) := by
    cases c with
    | none => exact Or.inr ⟨0, h⟩
    | some x => obtain ⟨_, _, hrel⟩ := h; exact hrel.elim (fun h => Or.inl ⟨x, rfl, h⟩) (fun h => Or.inr ⟨_, h⟩)
  rcases hcases with ⟨x, hx, hat⟩ | ⟨p, hdone⟩
  · have hxn := hc x hx
    have := kid_adv_call hK hat (n := m) (by omega)
    cases hr : (cs k (.adv m)).1 with
    | none => rw [hr] at this; exact this.2
    | some x' => rw [hr] at this; exact ⟨this.1, this.2.1, Or.inl this.2.2.2⟩
  · have := kid_done_call hK (.adv m) hdone
    cases hr : (cs k (.adv m)).1 with
    | none => rw [hr] at this; exact this
    | some x' => rw [hr] at this; exact ⟨this.1, this.2.2.1 m rfl, Or.inr this.2.2.2⟩

include hK in
theorem dsn_next {lo Li} {k : ι} {x : Nat} (h : DKSnd RelK lo Li k (some x)) :
    DKSnd RelK (x + 1) Li (cs k .next).2 (cs k .next).1 := by
  obtain ⟨_, _, hrel⟩ := h
  rcases hrel with hat | hdone
  · have := kid_next_call hK hat
    cases hr : (cs k .next).1 with
    | none => rw [hr] at this; exact this.2
    | some x' => rw [hr] at this; exact ⟨this.1, this.2.1, Or.inl this.2.2.2⟩
  · have := kid_done_call hK .next hdone
    cases hr : (cs k .next).1 with
    | none => rw [hr] at this; exact this
    | some x' => rw [hr] at this; exact ⟨this.1, this.2.1 rfl, Or.inr this.2.2.2⟩

/-! ### `for _, i := range matchingIdxs { currs[i] = searchers[i].Next() }` -/

/-- a child is either still standing on `m` (not yet bumped) or already synchronised at `m + 1` -/
def DMid (RelK : List Nat → ι → Phase → Prop) (B lb m : Nat) (Li : List Nat) (k : ι) (c : Resp) : Prop :=
  (c = some m ∧ DKOk RelK B lb Li k c) ∨ (c ≠ some m ∧ DKOk RelK B (m + 1) Li k c)

include hK in
theorem nextIdxs_exact {Ls : List (List Nat)} {lb m : Nat} :
    ∀ (idxs : List Nat) (s : DisjS ι), AllK (DMid RelK B lb m) Ls s.kids s.currs →
      (∀ i ∈ idxs, s.currs[i]? = some (some m)) → idxs.Pairwise (· < ·) →
      AllK (DMid RelK B lb m) Ls (DisjS.nextIdxs cs s idxs).kids (DisjS.nextIdxs cs s idxs).currs ∧
      (∀ j, (DisjS.nextIdxs cs s idxs).currs[j]? = some (some m) → s.currs[j]? = some (some m) ∧ j ∉ idxs) ∧
      (DisjS.nextIdxs cs s idxs).init = s.init ∧ (DisjS.nextIdxs cs s idxs).min = s.min
  | [], s, hall, _, _ => ⟨hall, fun j hj => ⟨hj, by simp⟩, rfl, rfl⟩
  | i :: is, s, hall, hidx, hsorted => by
    have hp := List.pairwise_cons.mp hsorted
    have hci := hidx i List.mem_cons_self
    obtain ⟨Li, k, hLi, hk, hP⟩ := hall.get_curr hci
    have hP' : DKOk RelK B lb Li k (some m) := by
      rcases hP with h | h
      · exact h.2
      · exact absurd rfl h.1
    have hnx := dk_next hK hP'
    simp only [DisjS.nextIdxs]
    rw [callKid_some cs hk]
    have hall1 := hall.set i Li (cs k .next).2 (cs k .next).1 hLi (Or.inr ⟨hnx.2, hnx.1⟩)
    have := nextIdxs_exact is
      { s with kids := s.kids.set i (cs k .next).2, currs := s.currs.set i (cs k .next).1 } hall1
      (by
        intro i' hi'
        have := hp.1 i' hi'
        simp only
        rw [List.getElem?_set_ne (by omega)]
        exact hidx i' (List.mem_cons_of_mem _ hi'))
      hp.2
    obtain ⟨a1, a2, a3, a4⟩ := this
    refine ⟨a1, ?_, a3, a4⟩
    intro j hj
    obtain ⟨b1, b2⟩ := a2 j hj
    simp only at b1
    have hji : j ≠ i := by
      intro hji
      subst hji
      have hlt : j < s.currs.length := (List.getElem?_eq_some_iff.mp hci).1
      rw [List.getElem?_set_self hlt] at b1
      injection b1 with b1
      exact hnx.2 b1
    rw [List.getElem?_set_ne (Ne.symm hji)] at b1
    exact ⟨b1, by simp [hji, b2]⟩

/-- sound-mode analogue of `DMid` -/
def SMid (RelK : List Nat → ι → Phase → Prop) (m : Nat) (Li : List Nat) (k : ι) (c : Resp) : Prop :=
  (c = some m ∧ DKSnd RelK m Li k c) ∨ (c ≠ some m ∧ DKSnd RelK (m + 1) Li k c)

include hK in
theorem nextIdxs_sound {Ls : List (List Nat)} {m : Nat} :
    ∀ (idxs : List Nat) (s : DisjS ι), AllK (SMid RelK m) Ls s.kids s.currs →
      (∀ i ∈ idxs, s.currs[i]? = some (some m)) → idxs.Pairwise (· < ·) →
      AllK (SMid RelK m) Ls (DisjS.nextIdxs cs s idxs).kids (DisjS.nextIdxs cs s idxs).currs ∧
      (∀ j, (DisjS.nextIdxs cs s idxs).currs[j]? = some (some m) → s.currs[j]? = some (some m) ∧ j ∉ idxs) ∧
      (DisjS.nextIdxs cs s idxs).init = s.init ∧ (DisjS.nextIdxs cs s idxs).min = s.min
  | [], s, hall, _, _ => ⟨hall, fun j hj => ⟨hj, by simp⟩, rfl, rfl⟩
  | i :: is, s, hall, hidx, hsorted => by
    have hp := List.pairwise_cons.mp hsorted
    have hci := hidx i List.mem_cons_self
    obtain ⟨Li, k, hLi, hk, hP⟩ := hall.get_curr hci
    have hP' : DKSnd RelK m Li k (some m) := by
      rcases hP with h | h
      · exact h.2
      · exact absurd rfl h.1
    have hnx := dsn_next hK hP'
    have hne : (cs k .next).1 ≠ some m := by
      intro hx
      rw [hx] at hnx
      have := hnx.2.1
      omega
    simp only [DisjS.nextIdxs]
    rw [callKid_some cs hk]
    have hall1 := hall.set i Li (cs k .next).2 (cs k .next).1 hLi (Or.inr ⟨hne, hnx⟩)
    have := nextIdxs_sound is
      { s with kids := s.kids.set i (cs k .next).2, currs := s.currs.set i (cs k .next).1 } hall1
      (by
        intro i' hi'
        have := hp.1 i' hi'
        simp only
        rw [List.getElem?_set_ne (by omega)]
        exact hidx i' (List.mem_cons_of_mem _ hi'))
      hp.2
    obtain ⟨a1, a2, a3, a4⟩ := this
    refine ⟨a1, ?_, a3, a4⟩
    intro j hj
    obtain ⟨b1, b2⟩ := a2 j hj
    simp only at b1
    have hji : j ≠ i := by
      intro hji
      subst hji
      have hlt : j < s.currs.length := (List.getElem?_eq_some_iff.mp hci).1
      rw [List.getElem?_set_self hlt] at b1
      injection b1 with b1
      exact hne b1
    rw [List.getElem?_set_ne (Ne.symm hji)] at b1
    exact ⟨b1, by simp [hji, b2]⟩

end lemmas
end Bluge.C07

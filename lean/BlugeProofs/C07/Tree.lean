import BlugeProofs.C07.Leaf
import BlugeProofs.C07.ConjIter
import BlugeProofs.C07.DisjIter
import BlugeProofs.C07.BoolStep
import BlugeProofs.C07.FiltPhrase
import BlugeProofs.C07.HeapStep
/-! Searcher trees of any depth: every node of `NodeD d` built from iterators is an iterator
(induction on the depth). -/
namespace Bluge.C07
open Bluge.Search

/-- the relation "this node, in this phase, enumerates `L`", by recursion on the depth bound
(`LRel` is the relation of the leaf searchers).
The composite cases name the children's lists; `fuel` must cover the node's loops. -/
def RelD {Λ : Type} (LRel : List Nat → Λ → Phase → Prop) (fuel : Nat) :
    (d : Nat) → List Nat → NodeD Λ d → Phase → Prop
  | 0, L, l, ph => LRel L l ph
  | d + 1, L, node, ph =>
    match node with
    | .leaf l => LRel L l ph
    | .conj s => ∃ (Ls : List (List Nat)) (B : Nat), (∀ x, x ∈ L ↔ ∀ Li ∈ Ls, x ∈ Li) ∧
        B * (2 * Ls.length + 2) + Ls.length + 2 ≤ fuel ∧ ConjRel (RelD LRel fuel d) L B Ls s ph
    | .disjS s => ∃ (Ls : List (List Nat)) (B min : Nat), (∀ x, x ∈ L ↔ max min 1 ≤ cnt Ls x) ∧
        B + 1 ≤ fuel ∧ DisjRel (RelD LRel fuel d) B min Ls s ph
    | .disjH s => ∃ (Ls : List (List Nat)) (B min : Nat), (∀ x, x ∈ L ↔ max min 1 ≤ cnt Ls x) ∧
        (∀ Li ∈ Ls, ∀ y ∈ Li, y < B) ∧ B + 1 ≤ fuel ∧ HeapRel (RelD LRel fuel d) B min Ls s ph
    | .bool s => ∃ (Lm Ls Ln : Option (List Nat)) (smin B : Nat), (∀ x, x ∈ L ↔ BMem Lm Ls Ln smin x) ∧
        B + 1 ≤ fuel ∧ BoolRel (RelD LRel fuel d) B Lm Ls smin Ln s ph
    | .filt s => ∃ (Lk acc : List Nat) (B : Nat), (∀ x, x ∈ L ↔ x ∈ Lk ∧ acc.contains x = true) ∧
        B + 1 ≤ fuel ∧ FiltRel (RelD LRel fuel d) B Lk acc s ph
    | .phrase s => ∃ (Lk ok : List Nat) (B : Nat), (∀ x, x ∈ L ↔ x ∈ Lk ∧ ok.contains x = true) ∧
        B + 1 ≤ fuel ∧ PhraseRel (RelD LRel fuel d) B Lk ok s ph

/-- transport a contract through a constructor of `NodeF` -/
theorem isIter_map {σ τ : Type} {step : Step σ} {Rel : σ → Phase → Prop} {L : List Nat}
    (h : IsIter step Rel L) (mk : σ → τ) (step' : Step τ) (Rel' : τ → Phase → Prop)
    (hstep : ∀ s c, step' (mk s) c = ((step s c).1, mk (step s c).2))
    (hrel : ∀ s ph, Rel s ph → Rel' (mk s) ph) :
    ∀ s ph, Rel s ph →
      (ph = .fresh → IsFirstGE L 0 (step' (mk s) .next).1 ∧ Rel' (step' (mk s) .next).2 (after (step' (mk s) .next).1)) ∧
      (∀ lb, ph = .at lb → IsFirstGE L lb (step' (mk s) .next).1 ∧ Rel' (step' (mk s) .next).2 (after (step' (mk s) .next).1)) ∧
      (∀ lb n, ph = .at lb → lb ≤ n → IsFirstGE L n (step' (mk s) (.adv n)).1 ∧
        Rel' (step' (mk s) (.adv n)).2 (after (step' (mk s) (.adv n)).1)) ∧
      (∀ p c, ph = .done p → (∀ d, (step' (mk s) c).1 = some d →
          d ∈ L ∧ (c = .next → p ≤ d) ∧ (∀ n, c = .adv n → n ≤ d) ∧ Rel' (step' (mk s) c).2 (.done (d + 1))) ∧
        ((step' (mk s) c).1 = none → Rel' (step' (mk s) c).2 (.done 0))) ∧
      (∀ p p', ph = .done p → p' ≤ p → Rel' (mk s) (.done p')) := by
  intro s ph hr'
  refine ⟨?_, ?_, ?_, ?_, ?_⟩
  · intro hph; subst hph
    have := h.next_fresh s hr'
    rw [hstep]; exact ⟨this.1, (hrel _ _) this.2⟩
  · intro lb hph; subst hph
    have := h.next_at s lb hr'
    rw [hstep]; exact ⟨this.1, (hrel _ _) this.2⟩
  · intro lb n hph hn; subst hph
    have := h.adv_at s lb n hr' hn
    rw [hstep]; exact ⟨this.1, (hrel _ _) this.2⟩
  · intro p c hph; subst hph
    have := h.done_sound s p c hr'
    rw [hstep]
    exact ⟨fun d hd => ⟨(this.1 d hd).1, (this.1 d hd).2.1, (this.1 d hd).2.2.1, (hrel _ _) (this.1 d hd).2.2.2⟩,
      fun hn => (hrel _ _) (this.2 hn)⟩
  · intro p p' hph hle; subst hph
    exact (hrel _ _) (h.done_mono s p p' hr' hle)

theorem relD_is_iter {Λ : Type} {ls : Step Λ} {LRel : List Nat → Λ → Phase → Prop}
    (hleaf : ∀ L, IsIter ls (LRel L) L) (fuel : Nat) :
    ∀ (d : Nat) (L : List Nat), IsIter (stepD ls fuel d) (RelD LRel fuel d L) L := by
  intro d
  induction d with
  | zero => intro L; exact hleaf L
  | succ d ih =>
    intro L
    -- all five clauses of the contract for one node, by cases on the node
    have key : ∀ (node : NodeD Λ (d + 1)) (ph : Phase), RelD LRel fuel (d + 1) L node ph →
      (ph = .fresh → IsFirstGE L 0 (stepD ls fuel (d + 1) node .next).1 ∧
        RelD LRel fuel (d + 1) L (stepD ls fuel (d + 1) node .next).2 (after (stepD ls fuel (d + 1) node .next).1)) ∧
      (∀ lb, ph = .at lb → IsFirstGE L lb (stepD ls fuel (d + 1) node .next).1 ∧
        RelD LRel fuel (d + 1) L (stepD ls fuel (d + 1) node .next).2 (after (stepD ls fuel (d + 1) node .next).1)) ∧
      (∀ lb n, ph = .at lb → lb ≤ n → IsFirstGE L n (stepD ls fuel (d + 1) node (.adv n)).1 ∧
        RelD LRel fuel (d + 1) L (stepD ls fuel (d + 1) node (.adv n)).2 (after (stepD ls fuel (d + 1) node (.adv n)).1)) ∧
      (∀ p c, ph = .done p → (∀ x, (stepD ls fuel (d + 1) node c).1 = some x →
          x ∈ L ∧ (c = .next → p ≤ x) ∧ (∀ n, c = .adv n → n ≤ x) ∧
          RelD LRel fuel (d + 1) L (stepD ls fuel (d + 1) node c).2 (.done (x + 1))) ∧
        ((stepD ls fuel (d + 1) node c).1 = none → RelD LRel fuel (d + 1) L (stepD ls fuel (d + 1) node c).2 (.done 0))) ∧
      (∀ p p', ph = .done p → p' ≤ p → RelD LRel fuel (d + 1) L node (.done p')) := by
      intro node ph hr
      cases node with
      | leaf l =>
        exact isIter_map (hleaf L) NodeF.leaf (stepD ls fuel (d + 1)) (RelD LRel fuel (d + 1) L)
          (fun s c => rfl) (fun s ph h => h) l ph hr
      | conj s =>
        obtain ⟨Ls, B, hL, hf, hrel⟩ := hr
        have h := conj_is_iter_aux (cs := stepD ls fuel d) (RelK := RelD LRel fuel d) (B := B) (fun Li => ih Li) hL fuel hf
        exact isIter_map h NodeF.conj (stepD ls fuel (d + 1)) (RelD LRel fuel (d + 1) L)
          (fun s c => rfl) (fun s ph hr' => ⟨Ls, B, hL, hf, hr'⟩) s ph hrel
      | disjS s =>
        obtain ⟨Ls, B, min, hL, hf, hrel⟩ := hr
        have h := disjS_is_iter_aux (cs := stepD ls fuel d) (RelK := RelD LRel fuel d) (B := B) (min := min)
          (fun Li => ih Li) hL fuel hf
        exact isIter_map h NodeF.disjS (stepD ls fuel (d + 1)) (RelD LRel fuel (d + 1) L)
          (fun s c => rfl) (fun s ph hr' => ⟨Ls, B, min, hL, hf, hr'⟩) s ph hrel
      | disjH s =>
        obtain ⟨Ls, B, min, hL, hB, hf, hrel⟩ := hr
        have h := disjH_is_iter_aux (cs := stepD ls fuel d) (RelK := RelD LRel fuel d) (B := B) (min := min)
          (fun Li => ih Li) hL hB fuel hf
        exact isIter_map h NodeF.disjH (stepD ls fuel (d + 1)) (RelD LRel fuel (d + 1) L)
          (fun s c => rfl) (fun s ph hr' => ⟨Ls, B, min, hL, hB, hf, hr'⟩) s ph hrel
      | bool s =>
        obtain ⟨Lm, Ls, Ln, smin, B, hL, hf, hrel⟩ := hr
        have h := bool_is_iter_aux (cs := stepD ls fuel d) (RelK := RelD LRel fuel d) (B := B) (Lm := Lm) (Ls := Ls) (Ln := Ln)
          (smin := smin) (fun Li => ih Li) hL fuel hf
        exact isIter_map h NodeF.bool (stepD ls fuel (d + 1)) (RelD LRel fuel (d + 1) L)
          (fun s c => rfl) (fun s ph hr' => ⟨Lm, Ls, Ln, smin, B, hL, hf, hr'⟩) s ph hrel
      | filt s =>
        obtain ⟨Lk, acc, B, hL, hf, hrel⟩ := hr
        have h := filt_is_iter_aux (cs := stepD ls fuel d) (RelK := RelD LRel fuel d) (B := B) (Lk := Lk) (acc := acc)
          (fun Li => ih Li) hL fuel hf
        exact isIter_map h NodeF.filt (stepD ls fuel (d + 1)) (RelD LRel fuel (d + 1) L)
          (fun s c => rfl) (fun s ph hr' => ⟨Lk, acc, B, hL, hf, hr'⟩) s ph hrel
      | phrase s =>
        obtain ⟨Lk, ok, B, hL, hf, hrel⟩ := hr
        have h := phrase_is_iter_aux (cs := stepD ls fuel d) (RelK := RelD LRel fuel d) (B := B) (Lk := Lk) (ok := ok)
          (fun Li => ih Li) hL fuel hf
        exact isIter_map h NodeF.phrase (stepD ls fuel (d + 1)) (RelD LRel fuel (d + 1) L)
          (fun s c => rfl) (fun s ph hr' => ⟨Lk, ok, B, hL, hf, hr'⟩) s ph hrel
    constructor
    · intro s h; exact (key s .fresh h).1 rfl
    · intro s lb h; exact (key s (.at lb) h).2.1 lb rfl
    · intro s lb n h hn; exact (key s (.at lb) h).2.2.1 lb n rfl hn
    · intro s p c h; exact (key s (.done p) h).2.2.2.1 p c rfl
    · intro s p p' h hle; exact (key s (.done p) h).2.2.2.2 p p' rfl hle

end Bluge.C07

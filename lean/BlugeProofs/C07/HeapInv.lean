import BlugeProofs.C07.Heap
/-! Invariant of `DisjunctionHeapSearcher` and its loops (`nextMatching`, the pop-and-advance loop). -/
namespace Bluge.C07
open Bluge.Search

section
variable {ι : Type} {cs : Step ι} {RelK : List Nat → ι → Phase → Prop} {B : Nat} {Ls : List (List Nat)}

/-- an entry `(i, c)`: child `i` stands on `c` and satisfies `P` -/
def Ent (P : List Nat → ι → Resp → Prop) (Ls : List (List Nat)) (kids : List ι) (e : HEntry) : Prop :=
  ∃ Li k, Ls[e.1]? = some Li ∧ kids[e.1]? = some k ∧ P Li k (some e.2)

theorem Ent.set_other {P : List Nat → ι → Resp → Prop} {kids : List ι} {e : HEntry} {i : Nat} {k' : ι}
    (h : Ent P Ls kids e) (hne : e.1 ≠ i) : Ent P Ls (kids.set i k') e := by
  obtain ⟨Li, k, h1, h2, h3⟩ := h
  exact ⟨Li, k, h1, by rw [List.getElem?_set_ne (Ne.symm hne)]; exact h2, h3⟩

theorem Ent.mono {P Q : List Nat → ι → Resp → Prop} {kids : List ι} {e : HEntry}
    (h : Ent P Ls kids e) (hpq : ∀ Li k, P Li k (some e.2) → Q Li k (some e.2)) : Ent Q Ls kids e := by
  obtain ⟨Li, k, h1, h2, h3⟩ := h
  exact ⟨Li, k, h1, h2, hpq Li k h3⟩

/-- exact-mode invariant over the entries `E` (heap and matching together) -/
structure HInv (RelK : List Nat → ι → Phase → Prop) (B : Nat) (Ls : List (List Nat)) (lb : Nat)
    (kids : List ι) (E : List HEntry) : Prop where
  nodup : (E.map (·.1)).Nodup
  ent : ∀ e ∈ E, Ent (DKOk RelK B lb) Ls kids e
  gone : ∀ i Li, Ls[i]? = some Li → i ∉ E.map (·.1) → ∀ t ∈ Li, t < lb
  len : kids.length = Ls.length

theorem HInv.perm {lb : Nat} {kids : List ι} {E E' : List HEntry} (h : HInv RelK B Ls lb kids E) (hp : E.Perm E') :
    HInv RelK B Ls lb kids E' :=
  ⟨(List.Perm.nodup_iff (hp.map _)).mp h.nodup, fun e he => h.ent e (hp.mem_iff.mpr he),
   fun i Li hLi hni => h.gone i Li hLi (fun hi => hni ((hp.map _).mem_iff.mp hi)), h.len⟩

variable (hK : ∀ Li, IsIter cs (RelK Li) Li)

include hK in
/-- `for _, matchingCurr := range matchingCurrs { curr = searcher.Next(); if curr != nil { push } }` -/
theorem nextMatching_exact {lb m : Nat} :
    ∀ (ms : List HEntry) (s : DisjH ι),
      ((s.heap ++ ms).map (·.1)).Nodup →
      (∀ e ∈ s.heap, Ent (DKOk RelK B (m + 1)) Ls s.kids e) →
      (∀ e ∈ ms, e.2 = m ∧ Ent (DKOk RelK B lb) Ls s.kids e) →
      (∀ i Li, Ls[i]? = some Li → i ∉ (s.heap ++ ms).map (·.1) → ∀ t ∈ Li, t < m + 1) →
      s.kids.length = Ls.length →
      HInv RelK B Ls (m + 1) (DisjH.nextMatching cs s ms).kids (DisjH.nextMatching cs s ms).heap ∧
      (DisjH.nextMatching cs s ms).matching = s.matching ∧ (DisjH.nextMatching cs s ms).min = s.min ∧
      (DisjH.nextMatching cs s ms).init = s.init
  | [], s, hnd, hheap, _, hgone, hlen => by
    simp only [DisjH.nextMatching]
    exact ⟨⟨by simpa using hnd, hheap, by simpa using hgone, hlen⟩, trivial, trivial, trivial⟩
  | e :: es, s, hnd, hheap, hms, hgone, hlen => by
    obtain ⟨hem, Li, k, hLi, hk, hP⟩ := hms e List.mem_cons_self
    rw [hem] at hP
    have hnx := dk_next hK hP
    have hki : e.1 < s.kids.length := (List.getElem?_eq_some_iff.mp hk).1
    -- indices of the other entries differ from e.1
    have hnd' : ((s.heap.map (·.1)) ++ e.1 :: es.map (·.1)).Nodup := by simpa using hnd
    have hother_heap : ∀ e' ∈ s.heap, e'.1 ≠ e.1 := by
      intro e' he' heq
      have := (List.nodup_append.mp hnd').2.2 e'.1 (List.mem_map_of_mem he') e.1 List.mem_cons_self
      exact this heq
    have hother_es : ∀ e' ∈ es, e'.1 ≠ e.1 := by
      intro e' he' heq
      have h2 := (List.nodup_append.mp hnd').2.1
      have := (List.nodup_cons.mp h2).1
      exact this (heq ▸ List.mem_map_of_mem he')
    simp only [DisjH.nextMatching]
    rw [callKid_some cs hk]
    cases hr : (cs k .next).1 with
    | none =>
      rw [hr] at hnx
      simp only
      apply nextMatching_exact (lb := lb) (m := m) es { s with kids := s.kids.set e.1 (cs k .next).2 }
      · simp only
        have : (s.heap.map (·.1) ++ es.map (·.1)).Nodup := by
          have h1 := List.nodup_append.mp hnd'
          refine List.nodup_append.mpr ⟨h1.1, (List.nodup_cons.mp h1.2.1).2, ?_⟩
          intro a ha b hb
          exact h1.2.2 a ha b (List.mem_cons_of_mem _ hb)
        simpa using this
      · intro e' he'; exact (hheap e' he').set_other (hother_heap e' he')
      · intro e' he'
        exact ⟨(hms e' (List.mem_cons_of_mem _ he')).1, (hms e' (List.mem_cons_of_mem _ he')).2.set_other (hother_es e' he')⟩
      · intro i Li' hLi' hni t ht
        simp only at hni
        by_cases hie : i = e.1
        · subst hie
          rw [hLi] at hLi'; cases hLi'
          exact hnx.1.2.2 t ht
        · apply hgone i Li' hLi' _ t ht
          intro hin
          simp only [List.map_append, List.map_cons, List.mem_append, List.mem_cons] at hin hni
          rcases hin with h | h | h
          · exact hni (Or.inl h)
          · exact hie h
          · exact hni (Or.inr h)
      · simp [hlen]
    | some c =>
      rw [hr] at hnx
      simp only
      have := nextMatching_exact (lb := lb) (m := m) es
        { s with kids := s.kids.set e.1 (cs k .next).2, heap := s.heap ++ [(e.1, c)] } ?_ ?_ ?_ ?_ (by simp [hlen])
      · exact this
      · simp only [List.map_append, List.map_cons, List.map_nil, List.append_assoc, List.singleton_append]
        exact hnd'
      · intro e' he'
        simp only [List.mem_append, List.mem_singleton] at he'
        rcases he' with he' | rfl
        · exact (hheap e' he').set_other (hother_heap e' he')
        · exact ⟨Li, (cs k .next).2, hLi, by simp [List.getElem?_set_self hki], hnx.1⟩
      · intro e' he'
        exact ⟨(hms e' (List.mem_cons_of_mem _ he')).1, (hms e' (List.mem_cons_of_mem _ he')).2.set_other (hother_es e' he')⟩
      · intro i Li' hLi' hni t ht
        apply hgone i Li' hLi' _ t ht
        intro hin
        apply hni
        simp only [List.map_append, List.map_cons, List.map_nil, List.mem_append, List.mem_cons, List.not_mem_nil,
          or_false] at hin ⊢
        rcases hin with h | h | h
        · exact Or.inl (Or.inl h)
        · exact Or.inl (Or.inr h)
        · exact Or.inr h

end
end Bluge.C07

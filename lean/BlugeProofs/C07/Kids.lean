import BlugeProofs.C07.Iter
/-! Lists of children: pointwise invariants, `nextAll`, `advBehind`, `callKid`, and the potential
function used as termination measure. -/
namespace Bluge.C07
open Bluge.Search

/-- pointwise relation between the children's denotations, states and current answers -/
inductive AllK {ι : Type} (P : List Nat → ι → Resp → Prop) : List (List Nat) → List ι → List Resp → Prop
  | nil : AllK P [] [] []
  | cons {Li k c Ls ks cs} : P Li k c → AllK P Ls ks cs → AllK P (Li :: Ls) (k :: ks) (c :: cs)

namespace AllK
variable {ι : Type} {P Q : List Nat → ι → Resp → Prop}

theorem mono (h : ∀ Li k c, P Li k c → Q Li k c) : ∀ {Ls ks cs}, AllK P Ls ks cs → AllK Q Ls ks cs
  | _, _, _, .nil => .nil
  | _, _, _, .cons hp ht => .cons (h _ _ _ hp) (mono h ht)

theorem len_kids : ∀ {Ls ks cs}, AllK P Ls ks cs → ks.length = Ls.length
  | _, _, _, .nil => rfl
  | _, _, _, .cons _ ht => by simp [len_kids ht]

theorem len_currs : ∀ {Ls ks cs}, AllK P Ls ks cs → cs.length = Ls.length
  | _, _, _, .nil => rfl
  | _, _, _, .cons _ ht => by simp [len_currs ht]

theorem get : ∀ {Ls ks cs}, AllK P Ls ks cs → ∀ i, i < Ls.length →
    ∃ Li k c, Ls[i]? = some Li ∧ ks[i]? = some k ∧ cs[i]? = some c ∧ P Li k c
  | _, _, _, .nil, i, hi => by simp at hi
  | _, _, _, .cons hp ht, 0, _ => ⟨_, _, _, rfl, rfl, rfl, hp⟩
  | _, _, _, .cons _ ht, i + 1, hi => by
    have := get ht i (by simpa using hi)
    simpa using this

theorem set : ∀ {Ls ks cs}, AllK P Ls ks cs → ∀ i Li k' c', Ls[i]? = some Li → P Li k' c' →
    AllK P Ls (ks.set i k') (cs.set i c')
  | _, _, _, .nil, i, _, _, _, h, _ => by simp at h
  | _, _, _, .cons _ ht, 0, _, _, _, h, hp => by
    simp at h; subst h; exact .cons hp ht
  | _, _, _, .cons hp0 ht, i + 1, Li, k', c', h, hp => by
    simp at h
    exact .cons hp0 (set ht i Li k' c' h hp)

theorem get_curr {Ls ks cs} (h : AllK P Ls ks cs) {i : Nat} {c : Resp} (hc : cs[i]? = some c) :
    ∃ Li k, Ls[i]? = some Li ∧ ks[i]? = some k ∧ P Li k c := by
  have hi : i < cs.length := (List.getElem?_eq_some_iff.mp hc).1
  rw [len_currs h] at hi
  obtain ⟨Li, k, c', h1, h2, h3, h4⟩ := get h i hi
  rw [hc] at h3; cases h3
  exact ⟨Li, k, h1, h2, h4⟩

theorem with_curr (Q : Resp → Prop) : ∀ {Ls ks cs}, AllK P Ls ks cs → (∀ (j : Nat) (c : Resp), cs[j]? = some c → Q c) →
    AllK (fun Li k c => Q c ∧ P Li k c) Ls ks cs
  | _, _, _, .nil, _ => .nil
  | _, _, _, .cons hp ht, hq =>
    .cons ⟨hq 0 _ rfl, hp⟩ (with_curr Q ht (fun j c hc => hq (j + 1) c (by simpa using hc)))

/-- every list has the property at every index -/
theorem forall_mem : ∀ {Ls ks cs}, AllK P Ls ks cs → ∀ Li ∈ Ls, ∃ k c, P Li k c
  | _, _, _, .nil, _, h => by cases h
  | _, _, _, .cons hp ht, Li, h => by
    cases h with
    | head => exact ⟨_, _, hp⟩
    | tail _ h => exact forall_mem ht Li h

/-- like `forall_mem`, also naming the current answer as a member of `cs` -/
theorem forall_mem' : ∀ {Ls ks cs}, AllK P Ls ks cs → ∀ Li ∈ Ls, ∃ k c, c ∈ cs ∧ P Li k c
  | _, _, _, .nil, _, h => by cases h
  | _, _, _, .cons hp ht, Li, h => by
    cases h with
    | head => exact ⟨_, _, List.mem_cons_self, hp⟩
    | tail _ h =>
      obtain ⟨k, c, hc, hP⟩ := forall_mem' ht Li h
      exact ⟨k, c, List.mem_cons_of_mem _ hc, hP⟩

/-- counting the children standing on `m` -/
theorem count_eq {m : Nat} : ∀ {Ls ks cs}, AllK P Ls ks cs →
    (∀ Li k c, P Li k c → ((c == some m) = Li.contains m)) →
    cs.countP (fun c => c == some m) = (Ls.filter (fun Li => Li.contains m)).length
  | _, _, _, .nil, _ => rfl
  | _, _, _, .cons (Li := Li) (c := c) hp ht, h => by
    have ih := count_eq ht h
    have h1 := h _ _ _ hp
    simp only [List.countP_cons, List.filter_cons]
    by_cases hc : Li.contains m = true
    · rw [hc] at h1; simp only [h1, hc, ↓reduceIte, List.length_cons]; omega
    · have hc' : Li.contains m = false := by simpa using hc
      rw [hc'] at h1
      simp only [h1, hc', Bool.false_eq_true, ↓reduceIte]; omega

theorem count_le {m : Nat} : ∀ {Ls ks cs}, AllK P Ls ks cs →
    (∀ Li k c, P Li k c → c = some m → Li.contains m = true) →
    cs.countP (fun c => c == some m) ≤ (Ls.filter (fun Li => Li.contains m)).length
  | _, _, _, .nil, _ => Nat.le_refl _
  | _, _, _, .cons (Li := Li) (c := c) hp ht, h => by
    have ih := count_le ht h
    simp only [List.countP_cons, List.filter_cons]
    by_cases hc : c = some m
    · have := h _ _ _ hp hc
      subst hc
      simp only [this, ↓reduceIte, List.length_cons, beq_self_eq_true]; omega
    · have : (c == some m) = false := by simpa using hc
      simp only [this, Bool.false_eq_true, ↓reduceIte]
      split
      · simp only [List.length_cons]; omega
      · omega

end AllK

variable {ι : Type}

theorem callKid_some (cs : Step ι) {kids : List ι} {i : Nat} {k : ι} (h : kids[i]? = some k) (c : Call) :
    callKid cs kids i c = ((cs k c).1, kids.set i (cs k c).2) := by
  simp [callKid, h]

/-- `Next` on every child -/
theorem nextAll_spec (cs : Step ι) {P Q : List Nat → ι → Resp → Prop}
    (h : ∀ Li k c, P Li k c → Q Li (cs k .next).2 (cs k .next).1) :
    ∀ {Ls ks cur}, AllK P Ls ks cur → AllK Q Ls (nextAll cs ks).2 (nextAll cs ks).1
  | _, _, _, .nil => .nil
  | _, _, _, .cons hp ht => by
    simp only [nextAll]
    exact .cons (h _ _ _ hp) (nextAll_spec cs h ht)

/-- `Advance n` on every child that is behind `n` -/
theorem advBehind_spec (cs : Step ι) (n : Nat) {P Q : List Nat → ι → Resp → Prop}
    (hkeep : ∀ Li k x, P Li k (some x) → n ≤ x → Q Li k (some x))
    (hadv : ∀ Li k c, P Li k c → (∀ x, c = some x → x < n) → Q Li (cs k (.adv n)).2 (cs k (.adv n)).1) :
    ∀ {Ls ks cur}, AllK P Ls ks cur → AllK Q Ls (advBehind cs n ks cur).2 (advBehind cs n ks cur).1
  | _, _, _, .nil => by simp [advBehind]; exact .nil
  | _, _, _, .cons (c := c) hp ht => by
    have ih := advBehind_spec cs n hkeep hadv ht
    cases c with
    | none =>
      simp only [advBehind]
      exact .cons (hadv _ _ _ hp (by intro x hx; cases hx)) ih
    | some x =>
      simp only [advBehind]
      by_cases hnx : n ≤ x
      · simp only [hnx, ↓reduceIte]
        exact .cons (hkeep _ _ _ hp hnx) ih
      · simp only [hnx, ↓reduceIte]
        exact .cons (hadv _ _ _ hp (by intro y hy; cases hy; show x < n; omega)) ih

/-- potential: how far the children can still move -/
def pot (B : Nat) (cur : List Resp) : Nat :=
  (cur.map (fun c => match c with | some x => B - x | none => 0)).sum

theorem pot_set_lt {B : Nat} : ∀ {cur : List Resp} {i x : Nat} {c' : Resp},
    cur[i]? = some (some x) → x < B → (∀ x', c' = some x' → x < x') → pot B (cur.set i c') < pot B cur
  | [], i, x, c', h, _, _ => by simp at h
  | c :: cur, 0, x, c', h, hx, hc => by
    simp at h; subst h
    simp only [List.set_cons_zero, pot, List.map_cons, List.sum_cons]
    cases c' with
    | none => simp only; omega
    | some x' => have := hc x' rfl; simp only; omega
  | c :: cur, i + 1, x, c', h, hx, hc => by
    simp at h
    have := pot_set_lt (cur := cur) h hx hc
    simp only [List.set_cons_succ, pot, List.map_cons, List.sum_cons] at this ⊢
    omega

theorem pot_le (B : Nat) : ∀ cur : List Resp, pot B cur ≤ cur.length * B
  | [] => by simp [pot]
  | c :: cur => by
    have := pot_le B cur
    simp only [pot, List.map_cons, List.sum_cons, List.length_cons] at this ⊢
    cases c <;> simp only <;> rw [Nat.succ_mul] <;> omega

end Bluge.C07

import Bluge.Refs
import BlugeGen.C04
import BlugeProofs.C04.View
/-! # C04 — a Reader is an immutable point-in-time view until it is closed

Property theorems only (helper lemmas: `BlugeProofs/C04/{Lemmas,Inv,Step,View}.lean`).
The model is `Bluge.Refs` (reference counts of snapshots and loaded segment wrappers, every single
reference operation of package `index` an event); all theorems quantify over **every** event sequence,
i.e. every interleaving of introductions, merges, persists, readers and `Writer.Close`.
The tie to /repo: the Gen tables `BlugeGen.C04` (obligations `*_allowed` below, re-decided on every run
against the current source) and the correspondence stream `isolation` (go/harness/c04). -/
namespace Bluge.C04
open Bluge.Refs

/-! ## the reference-count protocol -/

/-- **refcount_inv.** In every reachable state: a snapshot's counter is the number of its holders (root
pointer + open readers + local variables), and a loaded wrapper's counter is the number of listings by
live (`refs > 0`) snapshots plus its temporary owners (loaded but not yet introduced). -/
theorem refcount_inv {st : State} (h : Reachable st) :
    (∀ i, st.sRefs i = (holders st i : Int)) ∧
    (∀ w, st.wt.refs w = (listed st w : Int) + (st.tempW.count w : Int)) :=
  ⟨(reachable_inv h).hS, (reachable_inv h).hW⟩

/-- the closer of a wrapper has run (exactly once) iff the wrapper exists and its counter is zero -/
theorem closer_iff_zero {st : State} (h : Reachable st) (w : Nat) :
    st.wt.closes w = if w < st.nW ∧ st.wt.refs w = 0 then 1 else 0 :=
  (reachable_inv h).hC w

/-- **C04_no_early_close.** While a reader holds snapshot `i` (opened, not yet closed), every wrapper
listed by `i` has at least one reference and its closer (unmap + close + release of the shared flock)
has not run — in every reachable state, so across any batches, merges, persists and `Writer.Close`. -/
theorem C04_no_early_close {st : State} (h : Reachable st) {i w : Nat}
    (hr : i ∈ st.readers) (hw : w ∈ st.sSegs i) : 1 ≤ st.wt.refs w ∧ st.wt.closes w = 0 := by
  have hinv := reachable_inv h
  have hp := hinv.refs_pos_of_listed (hinv.pos_of_reader hr) hw
  exact ⟨by omega, hinv.closes_zero_of_pos hp⟩

/-- a reader's snapshot exists and is published (nobody is still appending to it) -/
theorem reader_published {st : State} (h : Reachable st) {i : Nat} (hr : i ∈ st.readers) :
    i < st.nS ∧ i ∉ st.building :=
  ⟨(reachable_inv h).lt_nS ((reachable_inv h).pos_of_reader hr), (reachable_inv h).hRd i hr⟩

/-- **C04_view_constant (model part).** Once a snapshot is published its segment list never changes
again, whatever events follow. -/
theorem C04_view_constant {st st' : State} {es : List Event} {i : Nat}
    (hi : i < st.nS) (hb : i ∉ st.building) (hrun : run st es = some st') :
    st'.sSegs i = st.sSegs i :=
  (run_published hrun hi hb).1

/-- **C04_reader_stable.** From any reachable state in which a reader holds `i`, along any further
events other than that reader's own `readerClose i`: the reader still holds `i`, `i` lists exactly the
same wrappers, and every one of them is still referenced and not closed. -/
theorem C04_reader_stable {st st' : State} {es : List Event} {i : Nat} (h : Reachable st)
    (hr : i ∈ st.readers) (hrun : run st es = some st') (hne : ∀ e, e ∈ es → e ≠ Event.readerClose i) :
    i ∈ st'.readers ∧ st'.sSegs i = st.sSegs i ∧
      ∀ w, w ∈ st.sSegs i → 1 ≤ st'.wt.refs w ∧ st'.wt.closes w = 0 := by
  have hr' := run_keeps_reader hrun hr hne
  have ⟨hlt, hnb⟩ := reader_published h hr
  have hseg := C04_view_constant hlt hnb hrun
  refine ⟨hr', hseg, ?_⟩
  intro w hw
  exact C04_no_early_close (reachable_run h hrun) hr' (by rw [hseg]; exact hw)

/-- **handles_once (at most).** No closer ever runs twice. -/
theorem handles_once {st : State} (h : Reachable st) (w : Nat) : st.wt.closes w ≤ 1 := by
  rw [closer_iff_zero h w]; split <;> omega

/-- **handles_once (exactly, complete runs).** When the writer is closed, every reader closed and no
goroutine holds anything any more, every wrapper that was ever loaded has been closed exactly once. -/
theorem handles_exactly_once {st : State} (h : Reachable st) (hq : Quiescent st) {w : Nat}
    (hw : w < st.nW) : st.wt.closes w = 1 := by
  have hinv := reachable_inv h
  obtain ⟨hroot, hrd, hts, htw⟩ := hq
  have hdead : ∀ i, st.sRefs i = 0 := by
    intro i; rw [hinv.hS i, holders_def, hroot, hrd, hts]; simp
  have hl : listed st w = 0 := by
    apply sumTo_zero; intro i _; simp [term, hdead i]
  have hz : st.wt.refs w = 0 := by rw [hinv.hW w, hl, htw]; simp
  rw [closer_iff_zero h w]; simp [hw, hz]

/-- **recycle_only_own.** A pooled postings iterator always sits in the pool of the snapshot that built
it (and whose per-segment dictionaries it caches), for every sequence of alloc / close events: recycling
cannot hand state of one snapshot to a reader of another. -/
theorem recycle_only_own (es : List PEvent) (s it : Nat)
    (h : it ∈ (Pools.init.run es).pool s) : (Pools.init.run es).owner it = s :=
  ((pools_run_inv (es := es) pools_init_inv).own s it h).1

/-- **pool_exclusive.** For every sequence of pool events of the code (allocations, closes, and the
backward-seek restart of `postingsIterator.Advance` as it is now: swap the structs, close the
replacement object), a pooled iterator has no user — so `allocPostingsIterator` never hands an iterator
to a second searcher while the first still uses it, and a query repeated on an open reader meets
fresh or properly returned iterators every time. The pre-fix path (`restartRecycleSelf`: `i.Close()`
followed by `*i = *i2`) is not in the code's alphabet: Gen obligation `no_close_then_reuse`. -/
theorem pool_exclusive (es : List PEvent) (hr : ∀ e, e ∈ es → e.isOldRestart = false) :
    (Pools.init.run es).Exclusive := by
  intro s it hm
  have hinv := pools_run_inv (es := es) pools_init_inv
  have hx := pools_run_excl (es := es) pools_init_inv pools_init_excl hr
  have hown := (hinv.own s it hm).1
  have hc : 0 < ((Pools.init.run es).pool s).count it := List.count_pos_iff.mpr hm
  have := hx.one it
  rw [hown] at this
  omega

/-- why the exclusion matters (the defect fixed by commit a8a2358, kept as a regression witness): with the
old path one searcher allocates iterator 0 from the root snapshot 0 and seeks backwards — iterator 0 is
pooled while still in use — and the next `PostingsIterator` call hands the same object to a second
searcher. The correspondence stream's directed first case reproduces exactly this on a tree that has
the path (verdict `bad:repeated-boolean-query-differs`). -/
theorem pool_exclusive_violated_by_old_restart :
    ¬ (Pools.init.run [.alloc 0, .restartRecycleSelf 0 0]).Exclusive ∧
    (Pools.init.run [.alloc 0, .restartRecycleSelf 0 0, .alloc 0]).users 0 = 2 := by
  constructor
  · intro h
    have := h 0 0 (by decide)
    revert this; decide
  · decide

/-- the same history through the current path: the replacement object is recycled, iterator 0 is not -/
example : ((Pools.init.run [.alloc 0, .restart 0 0]).pool 0, (Pools.init.run [.alloc 0, .restart 0 0]).users 0,
           (Pools.init.run [.alloc 0, .restart 0 0, .alloc 0]).users 0,
           (Pools.init.run [.alloc 0, .restart 0 0, .alloc 0]).users 1) = ([1], 1, 1, 1) := by decide

/-! ## non-vacuity: a concrete history (persist, reader, merge that drops the reader's segment, Close) -/

/-- S0 := empty root; w0 loaded and swapped in by a persist (S1=[w0]); a reader opens S1; a merge result
w1 replaces w0 (S2=[w1], w0 goes away) -/
def demo : List Event :=
  [.newSnap, .publish 0, .loadSeg, .grab, .newSnap, .own 1 0, .publish 1, .release 0, .release 0,
   .readerOpen,
   .loadSeg, .grab, .newSnap, .own 2 1, .dup 2, .publish 2, .release 1, .release 1, .release 2]

example : ((run init demo).map fun s => (s.readers, s.sSegs 1, s.wt.refs 0, s.wt.closes 0, s.wt.refs 1)) =
    some ([1], [0], 1, 0, 1) := by decide
/-- the writer closes: w1 is closed, the reader's w0 is not -/
example : ((run init (demo ++ [.unroot, .release 2])).map fun s => (s.wt.closes 0, s.wt.closes 1, s.wt.refs 0)) =
    some (0, 1, 1) := by decide
/-- the reader closes last: now w0 is closed too, exactly once each, and the run is complete -/
example : ((run init (demo ++ [.unroot, .release 2, .readerClose 1])).map fun s =>
    (s.wt.closes 0, s.wt.closes 1, s.readers, s.tempS, s.tempW)) = some (1, 1, [], [], []) := by decide
example : ((run init (demo ++ [.unroot, .release 2, .readerClose 1])).map fun s => s.root.isNone) = some true := by
  decide
/-- the guards bite: appending to the published root is not an event of the protocol -/
example : (run init (demo ++ [.keep 2 2 1])).isNone = true := by decide
example : ((Pools.init.run [.alloc 3, .close 0 3, .alloc 5, .close 1 4, .alloc 3]).pool 3,
           (Pools.init.run [.alloc 3, .close 0 3, .alloc 5, .close 1 4, .alloc 3]).owner 0) = ([], 3) := by decide

/-! ## Gen obligations: nothing reachable from a published snapshot is written in place

`allowed*` are the hand-reviewed current lists; each entry says why it cannot touch published data.
A new in-place mutation (e.g. `root.segment[i].deleted.Or(delta)` → class `field:deleted`) or a new
write to a field of a snapshot that is not under construction is not in the list and breaks `decide`. -/

/-- in-place roaring mutators: (function, method, provenance of the receiver) -/
def allowedMutators : List (String × String × String) := [
  -- snapshot decoder: `deletedBitmap := roaring.NewBitmap()` filled from the file before it is published in `ss`
  ("Snapshot.readSegmentSnapshot", "ReadFrom", "fresh"),
  -- `newSegmentDeleted := roaring.NewBitmap()`: deletions of the merged segment, built before the new root exists
  ("Writer.introduceMerge", "Add", "fresh"),
  -- the only caller is introduceMerge, which passes that same fresh `newSegmentDeleted`
  ("segmentMerge.ProcessSegmentNow", "Add", "param"),
  -- `bm := roaring.And(a, b)` is a new bitmap private to this search; further `bm.And(x)` only reads x
  ("optimizeConjunction.Finish", "And", "fresh"),
  ("optimizeConjunctionUnadorned.Finish", "And", "fresh"),
  -- `bm` from roaring.Or/HeapOr/New: private to this search
  ("optimizeDisjunctionUnadorned.Finish", "AddMany", "fresh"),
  -- `rv := roaring.NewBitmap()`; `rv.AndNot(s.deleted)` reads the published bitmap, writes the fresh one
  ("segmentSnapshot.DocNumbersLive", "AddRange", "fresh"),
  ("segmentSnapshot.DocNumbersLive", "AndNot", "fresh")]

/-- writes to fields of `Snapshot` / `segmentSnapshot`: (function, struct, field, class of the object) -/
def allowedFieldWrites : List (String × String × String × String) := [
  -- the reference count, under `Snapshot.m` (the protocol proved above)
  ("Snapshot.addRef", "Snapshot", "refs", "recv"),
  ("Snapshot.decRef", "Snapshot", "refs", "recv"),
  -- the iterator pool, under `Snapshot.m2` (see `recycle_only_own`)
  ("Snapshot.allocPostingsIterator", "Snapshot", "fieldTFRs", "recv"),
  ("Snapshot.recyclePostingsIterator", "Snapshot", "fieldTFRs", "recv"),
  -- constructor-time methods, only called on fresh snapshots (`allowedViewMethodCalls`)
  ("Snapshot.readFromVersion1", "Snapshot", "segment", "recv"),
  ("Snapshot.updateSize", "Snapshot", "size", "recv"),
  -- a `segmentSnapshot` / `Snapshot` created by a composite literal in the same function, before `replaceRoot`
  ("Snapshot.readSegmentSnapshot", "segmentSnapshot", "deleted", "fresh"),
  ("Writer.introduceMerge", "Snapshot", "offsets", "fresh"),
  ("Writer.introduceMerge", "Snapshot", "segment", "fresh"),
  ("Writer.introducePersist", "Snapshot", "offsets", "fresh"),
  ("Writer.introducePersist", "Snapshot", "segment", "fresh"),
  ("Writer.introduceSegment", "Snapshot", "offsets", "fresh"),
  ("Writer.introduceSegment", "Snapshot", "segment", "fresh"),
  ("Writer.introduceSegment", "segmentSnapshot", "deleted", "fresh"),
  ("Writer.loadSnapshot", "Snapshot", "offsets", "fresh"),
  -- the segmentSnapshots just decoded into the fresh snapshot get their loaded segment
  ("Writer.loadSnapshot", "segmentSnapshot", "segment", "range(fresh)"),
  -- the persister's private `equiv` snapshot (never published, never ref-counted)
  ("Writer.persistSnapshotMaybeMerge", "Snapshot", "segment", "fresh")]

/-- calls of methods that write view fields of their receiver: only on fresh objects (or relayed on the receiver) -/
def allowedViewMethodCalls : List (String × String × String) := [
  ("Snapshot.ReadFrom", "Snapshot.readFromVersion1", "recv"),
  ("Writer.introduceMerge", "Snapshot.updateSize", "fresh"),
  ("Writer.introducePersist", "Snapshot.updateSize", "fresh"),
  ("Writer.introduceSegment", "Snapshot.updateSize", "fresh"),
  ("Writer.loadSnapshot", "Snapshot.ReadFrom", "fresh")]

/-- the reference-count call sites the model transcribes: one `AddRef` next to each of the three "kept
segment" appends (events `keep`), `addRef` in `currentSnapshot` (`readerOpen`/`grab`), in the persister's
grab and for the merge notification (`dup`); `DecRef` of every segment in `Snapshot.decRef`, of a loaded
segment given up (`dropSeg`: `segmentWrapper.Close`, `mergeSegmentBases`' close path); `Close = decRef`. -/
def expectedRefCalls : List (String × String × String) := [
  ("Snapshot.Close", "decRef", "1"),
  ("Snapshot.decRef", "DecRef", "1"),
  ("Writer.currentSnapshot", "addRef", "1"),
  ("Writer.introduceMerge", "AddRef", "1"),
  ("Writer.introduceMerge", "addRef", "1"),
  ("Writer.introducePersist", "AddRef", "1"),
  ("Writer.introduceSegment", "AddRef", "1"),
  ("Writer.mergeSegmentBases", "DecRef", "1"),
  ("Writer.persisterLoop", "addRef", "1"),
  ("segmentWrapper.Close", "DecRef", "1")]

/-- the release sites of temporary snapshot references (events `release`), with the conditions they sit
under, reviewed: every `currentSnapshot()` / grab / notification reference is closed exactly once on every
path — `defer` for the introducer's and `prepareSegment`'s `root`, the three-way pattern
`err == ErrClosed` (Close; break) / other error (Close; continue) / success (Close) in the persister and
the merger, `rootPrev` in `replaceRoot`, the half-built `newSnapshot` on `introduceSegment`'s error path,
the merge notification in `executeMergeTask` / `persistSnapshotMaybeMerge` (defer) / `mergeSegmentBases`
(skipped). -/
def expectedSnapshotCloses : List (String × String × String) := [
("Writer.MemoryUsed", "indexSnapshot", "defer"),
  ("Writer.currentEpoch", "indexSnapshot", "indexSnapshot!=nil"),
  ("Writer.executeMergeTask", "mergeTaskIntroStatus.snapshot", "mergeTaskIntroStatus!=nil&&mergeTaskIntroStatus.snapshot!=nil"),
  ("Writer.introduceMerge", "root", "defer"),
  ("Writer.introducePersist", "root", "defer"),
  ("Writer.introduceSegment", "root", "defer"),
  ("Writer.introduceSegment", "newSnapshot", "!ok > err!=nil"),
  ("Writer.mergeSegmentBases", "newSnapshot", "mergeTaskIntroStatus!=nil&&mergeTaskIntroStatus.snapshot!=nil > mergeTaskIntroStatus.skipped"),
  ("Writer.mergerLoop", "ourSnapshot", "select:<-ew.notifyCh > ourSnapshot.epoch!=lastEpochMergePlanned > err!=nil > err==segment.ErrClosed"),
  ("Writer.mergerLoop", "ourSnapshot", "select:<-ew.notifyCh > ourSnapshot.epoch!=lastEpochMergePlanned > err!=nil"),
  ("Writer.mergerLoop", "ourSnapshot", "select:<-ew.notifyCh"),
  ("Writer.persistSnapshotMaybeMerge", "newSnapshot", "defer"),
  ("Writer.persisterLoop", "ourSnapshot", "select:<-introducerEpochWatcher.notifyCh > ourSnapshot!=nil > err!=nil > err==segment.ErrClosed"),
  ("Writer.persisterLoop", "ourSnapshot", "select:<-introducerEpochWatcher.notifyCh > ourSnapshot!=nil > err!=nil"),
  ("Writer.persisterLoop", "ourSnapshot", "select:<-introducerEpochWatcher.notifyCh > ourSnapshot!=nil"),
  ("Writer.prepareSegment", "root", "defer"),
  ("Writer.replaceRoot", "rootPrev", "rootPrev!=nil")]

/-- where references are taken, reviewed: the two places that read the SHARED root pointer (`Writer.root`)
and add a reference — `currentSnapshot` and the persister's grab — do both inside one `rootLock` region
(`replaceRoot` swaps the pointer under the write lock and closes `rootPrev` only after unlocking, so a root
read under the lock still has the root's own reference when `addRef` runs). Every other `addRef`/`AddRef`
is on a snapshot the function built itself (`fresh`) or on a segment listed by a snapshot it holds a
reference on (`root := s.currentSnapshot()`: `path(local)`; the freshly built `newIndexSnapshot`:
`path(fresh)`), which the guards of `keep`/`dup` in the model state. -/
def expectedRefTakes : List (String × String × String × String × String) := [
  ("Writer.currentSnapshot", "addRef", "rv", "shared:s.root", "locked:s.rootLock"),
  ("Writer.introduceMerge", "AddRef", "root.segment[i].segment", "path(local)", "-"),
  ("Writer.introduceMerge", "addRef", "newSnapshot", "fresh", "-"),
  ("Writer.introducePersist", "AddRef", "newIndexSnapshot.segment[i].segment", "path(fresh)", "-"),
  ("Writer.introduceSegment", "AddRef", "root.segment[i].segment", "path(local)", "-"),
  ("Writer.persisterLoop", "addRef", "ourSnapshot", "shared:s.root", "locked:s.rootLock")]

/-- `X ⊆ Y` as a decidable check -/
def subsetOf {α : Type} [BEq α] (xs ys : List α) : Bool := xs.all fun x => ys.contains x

/-- **mutators_allowed.** Every in-place bitmap mutation in package `index` is on the reviewed list. -/
theorem mutators_allowed : subsetOf BlugeGen.C04.mutators allowedMutators = true := by decide

/-- **field_writes_allowed.** Every write to a field of a snapshot outside a composite literal is either
the lock-protected counter/pool or goes to an object created in the same function. -/
theorem field_writes_allowed : subsetOf BlugeGen.C04.fieldWrites allowedFieldWrites = true := by decide

/-- **view_method_calls_allowed.** Receiver-mutating view methods are only called on fresh snapshots. -/
theorem view_method_calls_allowed :
    subsetOf BlugeGen.C04.viewMethodCalls allowedViewMethodCalls = true := by decide

/-- **ref_sites.** The `AddRef`/`DecRef`/`addRef`/`decRef` call sites of package `index` are exactly the ones
the events of `Bluge.Refs` transcribe (a dropped or an added reference operation changes this table). -/
theorem ref_sites : (BlugeGen.C04.refCalls == expectedRefCalls) = true := by decide

/-- **refs_taken_under_the_lock_that_guards_the_pointer.** Every reference taken on a pointer read from shared
state is taken inside the lock region in which the pointer was read. This is what justifies that `readerOpen`
and `grab` are ONE atomic event ("read `root` and `addRef` it") in `Bluge.Refs`: were the `addRef` outside the
region, the code would have the two-step event "remember the root" … "addRef whatever that snapshot is now",
between which `publish` + `release` can take the remembered snapshot to zero, and `refcount_inv` /
`C04_no_early_close` would not be theorems about the code (a dead snapshot would be resurrected and its
segments released twice). -/
theorem refs_taken_under_the_lock_that_guards_the_pointer :
    (BlugeGen.C04.refTakes == expectedRefTakes) = true := by decide

/-- **release_sites.** The `Close()` calls on snapshots held by local variables are exactly the reviewed ones,
under exactly the reviewed conditions (a hoisted, duplicated or dropped release changes this table). -/
theorem release_sites : (BlugeGen.C04.snapshotCloses == expectedSnapshotCloses) = true := by decide

/-- **no_close_then_reuse.** No method of `postingsIterator` calls `Close()` on its own receiver and then
overwrites and keeps using `*recv` (the pre-fix backward-seek path of `Advance`); this is what removes
`restartRecycleSelf` from the alphabet of `pool_exclusive`. -/
theorem no_close_then_reuse : BlugeGen.C04.closeThenReuse.isEmpty = true := by decide

/-- **pool_facts.** The model of the iterator pool is what the code does: the pool touched is always the
receiver's own (`i.fieldTFRs`), `Close` recycles into the iterator's own snapshot
(`i.snapshot.recyclePostingsIterator(i)`), and an iterator's `snapshot` is only ever set to the snapshot
that builds it. -/
theorem pool_facts :
    (BlugeGen.C04.poolAccess.all fun p => p.2 == "recv") = true ∧
    (BlugeGen.C04.recycleCalls.all fun c => c.2.1 == c.2.2 ++ ".snapshot") = true ∧
    (BlugeGen.C04.iterSnapshotSets.all fun p => p.2 == "recv") = true := by decide

end Bluge.C04

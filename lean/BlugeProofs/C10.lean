import Bluge.Numeric
/-! # C10 — numeric encoding preserves order; range decomposition is exact
Property theorems only (helper lemmas live in `BlugeProofs/C10/*.lean`). -/
namespace Bluge.C10
open Bluge.Numeric

theorem lowMask_msb : lowMask.msb = false := by decide

/-- the XOR mask has a clear sign bit, so flipping with it keeps the sign -/
theorem msb_xor_lowMask (x : I64) : (x ^^^ lowMask).msb = x.msb := by
  rw [BitVec.msb_xor, lowMask_msb]; simp

/-- Float64ToInt64 ∘ Int64ToFloat64 = id on all 2^64 patterns -/
theorem f2i_i2f (i : I64) : f2i (i2f i) = i := by
  unfold f2i i2f
  by_cases h : i.msb
  · rw [if_pos h, if_pos (by rw [msb_xor_lowMask]; exact h), BitVec.xor_assoc]; simp
  · rw [if_neg h, if_neg h]

/-- Int64ToFloat64 ∘ Float64ToInt64 = id on all 2^64 patterns (every float, NaNs and infinities included) -/
theorem i2f_f2i (f : I64) : i2f (f2i f) = f := f2i_i2f f

end Bluge.C10

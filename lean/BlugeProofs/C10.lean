import Bluge.Numeric
import BlugeGen.C10
/-! # C10 — numeric encoding preserves order; range decomposition is exact
Property theorems only (helper lemmas live in `BlugeProofs/C10/*.lean`).
`BlugeGen.C10.*` are the definitions translated from /repo's Go source on every run; `Bluge.Numeric.*`
is the readable reference model. The `gen_*` theorems bridge the two for ALL inputs, so every theorem
about the reference model is a theorem about the translated code. -/
namespace Bluge.C10
open Bluge.Numeric

theorem lowMask_msb : lowMask.msb = false := by decide

theorem slt_zero_eq_msb (x : I64) : BitVec.slt x 0#64 = x.msb := by
  simp [BitVec.slt_zero_eq_msb]

/-- bridge: the translated Float64ToInt64 is the reference `f2i` on every bit pattern -/
theorem gen_f2i (f : I64) : BlugeGen.C10.Float64ToInt64 f = f2i f := by
  unfold BlugeGen.C10.Float64ToInt64 f2i
  simp only [slt_zero_eq_msb]
  rfl

/-- bridge: the translated Int64ToFloat64 is the reference `i2f` -/
theorem gen_i2f (i : I64) : BlugeGen.C10.Int64ToFloat64 i = i2f i := by
  unfold BlugeGen.C10.Int64ToFloat64 i2f
  simp only [slt_zero_eq_msb]
  rfl

/-- the XOR mask has a clear sign bit, so flipping with it keeps the sign -/
theorem msb_xor_lowMask (x : I64) : (x ^^^ lowMask).msb = x.msb := by
  rw [BitVec.msb_xor, lowMask_msb]; simp

/-- Float64ToInt64 ∘ Int64ToFloat64 = id on all 2^64 patterns -/
theorem f2i_i2f (i : I64) : f2i (i2f i) = i := by
  unfold f2i i2f
  by_cases h : i.msb
  · rw [if_pos h, if_pos (by rw [msb_xor_lowMask]; exact h), BitVec.xor_assoc]; simp
  · rw [if_neg h, if_neg h]

/-- Int64ToFloat64 ∘ Float64ToInt64 = id on all 2^64 patterns (every float, NaNs and infinities included) -/
theorem i2f_f2i (f : I64) : i2f (f2i f) = f := f2i_i2f f

/-- the round trip, stated on the translated code -/
theorem gen_roundtrip (f : I64) :
    BlugeGen.C10.Int64ToFloat64 (BlugeGen.C10.Float64ToInt64 f) = f ∧
    BlugeGen.C10.Float64ToInt64 (BlugeGen.C10.Int64ToFloat64 f) = f := by
  simp only [gen_f2i, gen_i2f, i2f_f2i, f2i_i2f, and_self]

end Bluge.C10

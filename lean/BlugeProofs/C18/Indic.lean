import Bluge.C18.Indic
/-! C18: the Indic normaliser never panics and its loop ends, for every rune slice, every script lookup and
every decomposition table whose rows have five entries (the extracted table: `decide`). -/
namespace Bluge.C18.Indic
open Bluge Bluge.Go

theorem idx_ok {α : Type} (xs : List α) (i : Nat) (h : i < xs.length) : idx xs i = .ok xs[i] := by
  unfold idx; simp [h]

theorem deleteRune_length_le (xs : List Rune) (pos : Nat) : (deleteRune xs pos).length ≤ xs.length := by
  unfold deleteRune
  split
  · exact Nat.le_refl _
  · rw [List.length_eraseIdx]; split <;> omega

theorem row5 (d : List Rune) (h : d.length = 5) : ∃ a b c e f, d = [a, b, c, e, f] := by
  match d, h with
  | [a, b, c, e, f], _ => exact ⟨a, b, c, e, f, rfl⟩

theorem composeRows_ok (sd : ScriptData) (ch0 ch1 ch2 : Rune) (pos : Nat) :
    ∀ (rows : List (List Rune)) (input : List Rune), (∀ d ∈ rows, d.length = 5) → pos < input.length →
      ∃ out, composeRows sd ch0 ch1 ch2 input pos rows = .ok out ∧ out.length ≤ input.length := by
  intro rows
  induction rows with
  | nil => intro input _ _; exact ⟨input, rfl, Nat.le_refl _⟩
  | cons d rest ih =>
    intro input hrows hpos
    obtain ⟨a, b, c, e, f, rfl⟩ := row5 d (hrows _ (by simp))
    have hrest := ih input (fun d hd => hrows d (by simp [hd])) hpos
    simp only [composeRows, idx, List.getElem?_cons_zero, List.getElem?_cons_succ, Res.ok_bind, Res.pure_eq]
    split
    · split
      · split
        · split
          · simp only [setAt, hpos, if_true, Res.ok_bind]
            have h1 := deleteRune_length_le (input.set pos (sd.base + e)) (pos + 1)
            have h2 := deleteRune_length_le (deleteRune (input.set pos (sd.base + e)) (pos + 1)) (pos + 1)
            simp only [List.length_set] at h1
            split
            · exact ⟨_, rfl, by omega⟩
            · exact ⟨_, rfl, h1⟩
          · exact hrest
        · exact hrest
      · exact hrest
    · exact hrest

theorem compose_ok (look : Rune → Option Nat) (rows : List (List Rune)) (hrows : ∀ d ∈ rows, d.length = 5) (ch0 : Rune)
    (script0 : Nat) (sd : ScriptData) (input : List Rune) (pos inputLen : Nat) (hlen : inputLen = input.length)
    (_hpos : pos < inputLen) :
    ∃ out, compose look rows ch0 script0 sd input pos inputLen = .ok out ∧ out.length ≤ input.length := by
  unfold compose
  split
  · exact ⟨input, rfl, Nat.le_refl _⟩
  · next h1 =>
    rw [idx_ok input (pos + 1) (by omega)]
    simp only [Res.ok_bind]
    split
    · exact ⟨input, rfl, Nat.le_refl _⟩
    · split
      · rw [idx_ok input (pos + 2) (by omega)]
        simp only [Res.ok_bind, Res.pure_eq]
        exact composeRows_ok sd ch0 _ _ pos rows input hrows (by omega)
      · simp only [Res.ok_bind, Res.pure_eq]
        exact composeRows_ok sd ch0 _ _ pos rows input hrows (by omega)

theorem normLoop_ok (look : Rune → Option Nat) (table : List ScriptData) (rows : List (List Rune))
    (hrows : ∀ d ∈ rows, d.length = 5) :
    ∀ (fuel : Nat) (input : List Rune) (i inputLen : Nat), inputLen = input.length → inputLen - i < fuel →
      ∃ st, normLoop look table rows fuel input i inputLen = .ok st ∧ st.2 = st.1.length ∧ st.1.length ≤ input.length := by
  intro fuel
  induction fuel with
  | zero => intro _ _ _ _ h; omega
  | succ fuel ih =>
    intro input i inputLen hlen hfuel
    unfold normLoop
    split
    · next hi =>
      rw [idx_ok input i (by omega)]
      simp only [Res.ok_bind]
      split
      · next k _ =>
        split
        · obtain ⟨out, ho, hl⟩ := compose_ok look rows hrows (input[i] - (table.getD k default).base) k (table.getD k default)
            input i inputLen hlen hi
          rw [ho]
          simp only [Res.ok_bind]
          obtain ⟨st, h1, h2, h3⟩ := ih out (i + 1) out.length rfl (by omega)
          exact ⟨st, h1, h2, by omega⟩
        · exact ih input (i + 1) inputLen hlen (by omega)
      · exact ih input (i + 1) inputLen hlen (by omega)
    · exact ⟨(input, inputLen), rfl, hlen, Nat.le_refl _⟩

/-- `normalize` returns a value for every rune slice (no index / slice out of range, the loop ends) -/
theorem normalizeWith_ok (look : Rune → Option Nat) (table : List ScriptData) (rows : List (List Rune))
    (hrows : ∀ d ∈ rows, d.length = 5) (input : List Rune) :
    ∃ out, normalizeWith look table rows input = .ok out ∧ out.length ≤ input.length := by
  obtain ⟨st, hs, hl, hle⟩ := normLoop_ok look table rows hrows (input.length + 1) input 0 input.length rfl (by omega)
  unfold normalizeWith
  rw [hs]
  simp only [Res.ok_bind]
  rw [if_pos (by omega)]
  exact ⟨_, rfl, by simp only [List.length_take]; omega⟩

theorem decompRows_five : ∀ d ∈ decompRows, d.length = 5 := by
  unfold decompRows
  intro d hd
  simp only [List.mem_map] at hd
  obtain ⟨r, hr, rfl⟩ := hd
  rw [List.length_map]
  revert r
  decide

end Bluge.C18.Indic

import Bluge.Analysis
import BlugeProofs.C18.DictCamel
/-! Concrete evaluations of the models (witnesses of what the code does NOT satisfy, and satisfiable premises). -/
namespace Bluge.C18
open Bluge.Analysis

theorem runes_nil : runes [] = [] := by rw [runes]; simp

theorem runes_ff : runes [0xff#8] = [runeError] := by
  rw [runes]; simp [decodeRune, runes]

theorem runes_ab : runes [0x61#8, 0x62#8] = [0x61, 0x62] := by
  rw [runes]; simp [decodeRune]; rw [runes]; simp [decodeRune, runes]

/-- token/camelcase_parser.go on the single-token tokenizer's token for the one-byte text `ff`: one piece [0,3) -/
theorem camel_ff_invalid (cls : Rune → Nat) : ¬ Valid 1 (camelCaseFilter cls (singleTokenize [0xff#8])) := by
  simp [camelCaseFilter, singleTokenize, camelToken, runes_ff, camelPushAll, Parser.push, Parser.build, buildTerm,
    encodeRune, runeError, Valid, Token.ok]

/-- token/dict.go on a token [0,1) whose term was rewritten to "ab", dictionary {"b"} -/
theorem dict_ab_eval : dictFilter [[0x62#8]] 1 1 1 false [{ term := [0x61#8, 0x62#8], start := 0, stop := 1, posIncr := 1 }] =
    some [{ term := [0x61#8, 0x62#8], start := 0, stop := 1, posIncr := 1 }, { term := [0x62#8], start := 1, stop := 2, posIncr := 0 }] := by
  simp [dictFilter, dictDecompose, loop, runes_ab, intRange, List.range, List.range.loop, goSlice, buildTerm, encodeRune]

theorem empty_token_fits : (∀ t ∈ singleTokenize [], FitsRunes t) ∧ (∀ t ∈ singleTokenize [], FitsBytes t) ∧
    ∀ t ∈ singleTokenize [], IdeoFits t := by
  simp [singleTokenize, FitsRunes, FitsBytes, IdeoFits, runes_nil, buildTerm]

end Bluge.C18

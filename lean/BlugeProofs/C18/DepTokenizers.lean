import Bluge.Analysis
import BlugeProofs.C18.Filters
/-! Lemmas for C18: the tokenizers whose offsets come from a dependency, over the dependency's output
(regexp match indices; the word segmenter's segments). -/
namespace Bluge.C18
open Bluge.Analysis

/-! ### regexp tokenizer -/

theorem regexpTokenize_valid' (typeOf : Bytes → Nat) (found : List (Int × Int)) (input : Bytes) (out : List Token)
    (h : regexpTokenize typeOf found input = some out) :
    Valid input.length out ∧ SliceEq input out := by
  simp only [regexpTokenize, Option.map_eq_some_iff] at h
  obtain ⟨rv, hloop, rfl⟩ := h
  have key := loop_inv_simple (fun (rv : List Token) => ∀ t ∈ rv, t.ok input.length ∧ t.term = slice input t.start t.stop) ?_ _ _ _
    (by simp) hloop
  · exact ⟨fun t ht => (key t (List.mem_reverse.mp ht)).1, fun t ht => (key t (List.mem_reverse.mp ht)).2⟩
  intro m rv rv' hrv hb
  split at hb
  · contradiction
  · next mb hmb =>
    have hbnd := goSlice_bounds hmb
    split at hb
    · injection hb with hb; subst hb
      intro t ht
      simp only [List.mem_cons] at ht
      rcases ht with rfl | ht
      · refine ⟨?_, ?_⟩
        · unfold Token.ok; simp only; omega
        · unfold goSlice at hmb
          rw [if_pos hbnd] at hmb
          injection hmb with hmb
          simp only [slice]; exact hmb.symm
      · exact hrv t ht
    · injection hb with hb; subst hb; exact hrv

theorem regexpTokenize_total' (typeOf : Bytes → Nat) (found : List (Int × Int)) (input : Bytes)
    (hm : MatchesFrom input.length 0 found) : ∃ out, regexpTokenize typeOf found input = some out := by
  unfold regexpTokenize
  apply exists_map_some
  -- every match is in range
  have hall : ∀ (ms : List (Int × Int)) (cur : Int), 0 ≤ cur → MatchesFrom input.length cur ms →
      ∀ m ∈ ms, 0 ≤ m.1 ∧ m.1 ≤ m.2 ∧ m.2 ≤ input.length := by
    intro ms
    induction ms with
    | nil => intro _ _ _ m hm; simp at hm
    | cons m0 rest ih =>
      intro cur hc hmf m hmem
      unfold MatchesFrom at hmf
      simp only [List.mem_cons] at hmem
      rcases hmem with rfl | hmem
      · exact ⟨by omega, hmf.2.1, hmf.2.2.1⟩
      · exact ih m0.2 (by omega) hmf.2.2.2 m hmem
  apply loop_some
  intro m hmem rv
  obtain ⟨sl, hsl⟩ := goSlice_some (s := input) (lo := m.1) (hi := m.2) (hall found 0 (Int.le_refl _) hm m hmem)
  rw [hsl]
  dsimp only
  split <;> exact ⟨_, rfl⟩

/-! ### exceptions tokenizer -/

theorem shiftTok_ok {n cur len : Int} {t : Token} (h : t.ok n) (hc : 0 ≤ cur) (hl : cur + n ≤ len) : (shiftTok cur t).ok len := by
  unfold Token.ok shiftTok at *
  simp only
  omega

theorem goSlice_len {α : Type} {s sl : List α} {lo hi : Int} (h : goSlice s lo hi = some sl) : (sl.length : Int) = hi - lo :=
  goSlice_length h

theorem exceptionsTokenize_valid' (remaining : Bytes → List Token) (hrem : ∀ seg, Valid seg.length (remaining seg))
    (found : List (Int × Int)) (input : Bytes) (out : List Token) (hm : MatchesFrom input.length 0 found)
    (h : exceptionsTokenize remaining found input = some out) : Valid input.length out := by
  simp only [exceptionsTokenize, Option.bind_eq_some_iff] at h
  obtain ⟨st, hloop, hfin⟩ := h
  have key := loop_inv (fun ms (st : Int × List Token) =>
      MatchesFrom input.length st.1 ms ∧ 0 ≤ st.1 ∧ st.1 ≤ input.length ∧ ∀ t ∈ st.2, t.ok input.length)
    (by
      intro m rest st st' hP hb
      obtain ⟨hmf, h0, h1, hrv⟩ := hP
      unfold MatchesFrom at hmf
      obtain ⟨hm1, hm2, hm3, hmrest⟩ := hmf
      unfold exceptionsStep at hb
      split at hb
      · contradiction
      · next inter hinter =>
        split at hb
        · contradiction
        · next term hterm =>
          injection hb with hb; subst hb
          refine ⟨hmrest, by dsimp only; omega, hm3, ?_⟩
          intro t ht
          simp only [List.mem_cons, List.mem_append, List.mem_reverse] at ht
          rcases ht with rfl | ht | ht
          · unfold Token.ok; simp only; omega
          · split at hinter
            · simp only [Option.map_eq_some_iff] at hinter
              obtain ⟨seg, hseg, rfl⟩ := hinter
              simp only [List.mem_map] at ht
              obtain ⟨u, hu, rfl⟩ := ht
              have hl := goSlice_len hseg
              exact shiftTok_ok (hrem seg u hu) h0 (by omega)
            · injection hinter with hinter; subst hinter; simp at ht
          · exact hrv t ht)
    found (0, []) st ⟨hm, Int.le_refl _, by omega, by simp⟩ hloop
  obtain ⟨_, h0, h1, hrv⟩ := key
  split at hfin
  · simp only [Option.map_eq_some_iff] at hfin
    obtain ⟨seg, hseg, rfl⟩ := hfin
    have hl := goSlice_len hseg
    intro t ht
    simp only [List.mem_reverse, List.mem_append, List.mem_map] at ht
    rcases ht with ⟨u, hu, rfl⟩ | ht
    · exact shiftTok_ok (hrem seg u hu) h0 (by omega)
    · exact hrv t ht
  · injection hfin with hfin; subst hfin
    intro t ht
    exact hrv t (List.mem_reverse.mp ht)

theorem exceptionsTokenize_total' (remaining : Bytes → List Token) (found : List (Int × Int)) (input : Bytes)
    (hm : MatchesFrom input.length 0 found) : ∃ out, exceptionsTokenize remaining found input = some out := by
  unfold exceptionsTokenize
  have key : ∀ (ms : List (Int × Int)) (st : Int × List Token), 0 ≤ st.1 → st.1 ≤ input.length →
      MatchesFrom input.length st.1 ms →
      ∃ st', loop ms (exceptionsStep remaining input) st = some st' ∧ 0 ≤ st'.1 ∧ st'.1 ≤ input.length := by
    intro ms
    induction ms with
    | nil => intro st h0 h1 _; exact ⟨st, rfl, h0, h1⟩
    | cons m rest ih =>
      intro st h0 h1 hmf
      unfold MatchesFrom at hmf
      obtain ⟨hm1, hm2, hm3, hmrest⟩ := hmf
      obtain ⟨seg, hseg⟩ := goSlice_some (s := input) (lo := st.1) (hi := m.1) ⟨h0, hm1, by omega⟩
      obtain ⟨term, hterm⟩ := goSlice_some (s := input) (lo := m.1) (hi := m.2) ⟨by omega, hm2, hm3⟩
      simp only [loop, exceptionsStep]
      by_cases hgt : m.1 > st.1
      · simp only [hgt, if_true, hseg, Option.map_some, hterm]
        exact ih _ (by dsimp only; omega) hm3 hmrest
      · simp only [hgt, if_false, hterm]
        exact ih _ (by dsimp only; omega) hm3 hmrest
  obtain ⟨st', hl, h0, h1⟩ := key found (0, []) (Int.le_refl _) (by simp) hm
  rw [hl]
  simp only [Option.bind_some]
  split
  · obtain ⟨seg, hseg⟩ := goSlice_some (s := input) (lo := st'.1) (hi := input.length) ⟨h0, h1, Int.le_refl _⟩
    rw [hseg]; exact ⟨_, rfl⟩
  · exact ⟨_, rfl⟩

/-! ### unicode tokenizer -/

theorem unicodeTokenize_fold (N : Nat) : ∀ (segs : List (Bytes × Nat)) (st : Nat × List Token),
    st.1 + (segs.map (fun s => s.1.length)).sum ≤ N → (∀ t ∈ st.2, t.ok (N : Int)) →
    ∀ t ∈ (segs.foldl (fun (st : Nat × List Token) (seg : Bytes × Nat) =>
      let stop := st.1 + seg.1.length
      if seg.2 ≠ 0 then
        (stop, ({ term := seg.1, start := st.1, stop := stop, posIncr := 1, typ := convertType seg.2 } : Token) :: st.2)
      else (stop, st.2)) st).2, t.ok (N : Int) := by
  intro segs
  induction segs with
  | nil => intro st _ h; simpa using h
  | cons seg rest ih =>
    intro st hsum hrv
    simp only [List.foldl_cons]
    simp only [List.map_cons, List.sum_cons] at hsum
    split
    · apply ih
      · dsimp only; omega
      · apply cons_ok hrv
        unfold Token.ok
        simp only
        omega
    · apply ih
      · dsimp only; omega
      · exact hrv

theorem unicodeTokenize_valid' (segs : List (Bytes × Nat)) (len : Int)
    (hlen : (((segs.map (fun s => s.1.length)).sum : Nat) : Int) ≤ len) : Valid len (unicodeTokenize segs) := by
  intro t ht
  have h := unicodeTokenize_fold (segs.map (fun s => s.1.length)).sum segs (0, []) (by simp) (by simp) t
    (List.mem_reverse.mp ht)
  unfold Token.ok at *
  omega

end Bluge.C18

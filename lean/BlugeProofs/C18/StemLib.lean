import Bluge.Go
import Bluge.C18.GoStd
/-! # A small weakest-precondition calculus for the definitions translated from Go (`Bluge.Go.Res`)

`wp r Q` : the run `r` does not panic (`crash`: index / slice out of range, explicit `panic`, exhausted loop
fuel), and if it returns a value, the value satisfies `Q` (an `error` result satisfies every postcondition).
The rules below are the verification-condition generator used for the translated stemmers
(`BlugeGen.C18S`): every rule leaves the *bounds check* of the Go operation as a goal and continues with
the continuation of the `do` block; values read from a slice are generalised (no-panic never depends on
them), results of slicing / storing are generalised to their length. `wp_go` runs the rules; `bv_len`
discharges the bounds checks (linear arithmetic over `BitVec 64` lengths, through `bv_omega`). -/
namespace Bluge.C18.Stem
open Bluge Bluge.Go

def wp {α : Type} (r : Res α) (Q : α → Prop) : Prop :=
  match r with
  | .ok a => Q a
  | .err => True
  | .crash => False

theorem wp_ok {α : Type} (a : α) (Q : α → Prop) : wp (Res.ok a) Q = Q a := rfl
theorem wp_pure {α : Type} (a : α) (Q : α → Prop) : wp (pure a : Res α) Q = Q a := rfl
theorem wp_crash {α : Type} (Q : α → Prop) : wp (Res.crash : Res α) Q = False := rfl

theorem wp_pure_intro {α : Type} {a : α} {Q : α → Prop} (h : Q a) : wp (pure a : Res α) Q := h

theorem ne_crash_of_wp {α : Type} {r : Res α} {Q : α → Prop} (h : wp r Q) : r ≠ .crash := by
  intro hc; rw [hc] at h; exact h

theorem wp_mono {α : Type} {r : Res α} {P Q : α → Prop} (h : wp r P) (hpq : ∀ a, P a → Q a) : wp r Q := by
  cases r with
  | ok a => exact hpq a h
  | err => trivial
  | crash => exact h

theorem wp_bind {α β : Type} (x : Res α) (f : α → Res β) (Q : β → Prop) :
    wp (x >>= f) Q = wp x (fun a => wp (f a) Q) := by
  cases x <;> rfl

/-- sequencing with an intermediate assertion (the rule for calls of translated functions and loops) -/
theorem wp_bind_cut {α β : Type} {x : Res α} {f : α → Res β} {P : α → Prop} {Q : β → Prop}
    (hx : wp x P) (hk : ∀ a, P a → wp (f a) Q) : wp (x >>= f) Q := by
  rw [wp_bind]; exact wp_mono hx hk

theorem wp_bind_pure {α β : Type} {a : α} {f : α → Res β} {Q : β → Prop} (h : wp (f a) Q) :
    wp ((pure a : Res α) >>= f) Q := h

theorem getIdx_eq {α : Type} {xs : List α} {i : BitVec 64} (hi : i.toNat < xs.length) :
    Go.getIdx xs i = .ok xs[i.toNat] := by
  unfold Go.getIdx; simp [hi]

theorem wp_bind_getIdx {α β : Type} {xs : List α} {i : BitVec 64} {f : α → Res β} {Q : β → Prop}
    (hi : i.toNat < xs.length) (hk : ∀ v, wp (f v) Q) : wp (Go.getIdx xs i >>= f) Q := by
  rw [getIdx_eq hi]; exact hk _

theorem wp_getIdx {α : Type} {xs : List α} {i : BitVec 64} {Q : α → Prop}
    (hi : i.toNat < xs.length) (hk : ∀ v, Q v) : wp (Go.getIdx xs i) Q := by
  rw [getIdx_eq hi]; exact hk _

theorem wp_bind_setIdx {α β : Type} {xs : List α} {i : BitVec 64} {v : α} {f : List α → Res β} {Q : β → Prop}
    (hi : i.toNat < xs.length) (hk : ∀ ys : List α, ys.length = xs.length → wp (f ys) Q) :
    wp (Go.setIdx xs i v >>= f) Q := by
  unfold Go.setIdx; rw [if_pos hi]; exact hk _ (by simp)

theorem wp_bind_slice {α β : Type} {xs : List α} {a b : BitVec 64} {f : List α → Res β} {Q : β → Prop}
    (h : a.toNat ≤ b.toNat ∧ b.toNat ≤ xs.length)
    (hk : ∀ ys : List α, ys.length = b.toNat - a.toNat → wp (f ys) Q) : wp (Go.slice xs a b >>= f) Q := by
  unfold Go.slice; rw [if_pos h]; exact hk _ (by simp; omega)

theorem wp_bind_copyInto {α β : Type} {dst src : List α} {a b : BitVec 64} {f : List α → Res β} {Q : β → Prop}
    (h : a.toNat ≤ b.toNat ∧ b.toNat ≤ dst.length)
    (hk : ∀ ys : List α, ys.length = dst.length → wp (f ys) Q) : wp (Go.copyInto dst a b src >>= f) Q := by
  unfold Go.copyInto; rw [if_pos h]
  refine hk _ ?_
  simp only [Go.copy, List.length_append, List.length_take, List.length_drop]
  omega

/-- `c && e` where evaluating `e` may panic: `e` is only evaluated under `c`; afterwards all that is kept
about the value is that it implies `c` -/
theorem wp_bind_and {β : Type} {c : Bool} {y : Res Bool} {f : Bool → Res β} {Q : β → Prop}
    (hy : c = true → wp y (fun _ => True)) (hk : ∀ t : Bool, (t = true → c = true) → wp (f t) Q) :
    wp ((if (!c) = true then pure false else y) >>= f) Q := by
  cases c with
  | false => exact hk false (by simp)
  | true =>
    simp only [Bool.not_true, Bool.false_eq_true, if_false]
    exact wp_bind_cut (hy rfl) (fun t _ => hk t (fun _ => rfl))

/-- `c || e` -/
theorem wp_bind_or {β : Type} {c : Bool} {y : Res Bool} {f : Bool → Res β} {Q : β → Prop}
    (hy : c = false → wp y (fun _ => True)) (hk : ∀ t : Bool, (t = false → c = false) → wp (f t) Q) :
    wp ((if c = true then pure true else y) >>= f) Q := by
  cases c with
  | true => exact hk true (by simp)
  | false =>
    simp only [Bool.false_eq_true, if_false]
    exact wp_bind_cut (hy rfl) (fun t _ => hk t (fun _ => rfl))

theorem wp_bind_ite {α β : Type} {c : Prop} [Decidable c] {a b : Res α} {f : α → Res β} {Q : β → Prop}
    (ht : c → wp (a >>= f) Q) (he : ¬c → wp (b >>= f) Q) : wp ((if c then a else b) >>= f) Q := by
  split
  · exact ht ‹_›
  · exact he ‹_›

theorem wp_ite {α : Type} {c : Prop} [Decidable c] {a b : Res α} {Q : α → Prop}
    (ht : c → wp a Q) (he : ¬c → wp b Q) : wp (if c then a else b) Q := by
  split
  · exact ht ‹_›
  · exact he ‹_›

/-- a merge point with an intermediate assertion chosen by hand (`refine wp_bind_cut (P := …) ?_ ?_`) is
`wp_bind_cut`; this is the same for a conditional whose two arms are proved separately -/
theorem wp_ite_cut {α β : Type} {c : Prop} [Decidable c] {a b : Res α} {f : α → Res β} {P : α → Prop} {Q : β → Prop}
    (ht : c → wp a P) (he : ¬c → wp b P) (hk : ∀ x, P x → wp (f x) Q) : wp ((if c then a else b) >>= f) Q :=
  wp_bind_cut (wp_ite ht he) hk

theorem wp_match_option {α β : Type} {o : Option α} {s : α → Res β} {n : Res β} {Q : β → Prop}
    (hs : ∀ v, o = some v → wp (s v) Q) (hn : o = none → wp n Q) :
    wp (match o with | some v => s v | none => n) Q := by
  cases o with
  | some v => exact hs v rfl
  | none => exact hn rfl

/-! ### lengths -/

theorem len_toNat {α : Type} (xs : List α) (h : xs.length < 2 ^ 63) : (Go.len xs).toNat = xs.length := by
  simp only [Go.len, BitVec.toNat_ofNat]; omega

theorem make_length {α : Type} (z : α) (n : BitVec 64) : (Go.make z n).length = n.toNat := by
  simp [Go.make]

theorem copy_length {α : Type} (dst src : List α) : (Go.copy dst src).length = dst.length := by
  simp only [Go.copy, List.length_append, List.length_take, List.length_drop]; omega

/-! ### tactics -/

/-- calls of translated functions and loops: every `…_bind` rule is registered here by `macro_rules` -/
syntax "wp_call" : tactic
macro_rules | `(tactic| wp_call) => `(tactic| fail "wp_call: no rule applies")

/-- one step of the verification-condition generator -/
macro "wp_step" : tactic => `(tactic| first
  | refine wp_bind_pure ?_
  | refine wp_bind_getIdx ?_ (fun _ => ?_)
  | refine wp_bind_setIdx ?_ (fun _ _ => ?_)
  | refine wp_bind_slice ?_ (fun _ _ => ?_)
  | refine wp_bind_copyInto ?_ (fun _ _ => ?_)
  | refine wp_bind_and (fun _ => ?_) (fun _ _ => ?_)
  | refine wp_bind_or (fun _ => ?_) (fun _ _ => ?_)
  | wp_call
  | refine wp_bind_ite (fun _ => ?_) (fun _ => ?_)
  | refine wp_ite (fun _ => ?_) (fun _ => ?_)
  | refine wp_match_option (fun _ _ => ?_) (fun _ => ?_)
  | refine wp_getIdx ?_ (fun _ => ?_)
  | refine wp_pure_intro ?_
  | dsimp only)

macro "wp_go" : tactic => `(tactic| repeat' wp_step)

/-- bounds checks: signed comparisons and lengths to `Nat`, then `bv_omega` -/
macro "bv_len" : tactic => `(tactic| (
  simp only [Go.len, make_length, copy_length, BitVec.slt_eq_decide, BitVec.sle_eq_decide, BitVec.toInt_eq_toNat_cond,
    decide_eq_true_eq, Bool.not_eq_true', decide_eq_false_iff_not, Bool.and_eq_true, Bool.or_eq_true, Bool.not_eq_true,
    Bool.true_eq_false, Bool.false_eq_true, false_implies, true_implies, implies_true, forall_const, not_false_eq_true,
    List.length_cons, List.length_nil, List.length_append, List.length_replicate, beq_iff_eq, bne_iff_ne] at *
  <;> bv_omega))

end Bluge.C18.Stem

import Bluge.Go
import Bluge.C18.GoStd
/-! # A small weakest-precondition calculus for the definitions translated from Go (`Bluge.Go.Res`)

`wp r Q` : the run `r` does not panic (`crash`: index / slice out of range, explicit `panic`, exhausted loop
fuel), and if it returns a value, the value satisfies `Q` (an `error` result satisfies every postcondition).
The rules below are the verification-condition generator used for the translated stemmers
(`BlugeGen.C18S`): every rule leaves the *bounds check* of the Go operation as a goal and continues with
the continuation of the `do` block; values read from a slice are generalised (no-panic never depends on
them), results of slicing / storing are generalised to their length. `wp_go` runs the rules; `bv_len`
discharges the bounds checks (linear arithmetic over `BitVec 64` lengths, through `bv_omega`). -/
namespace Bluge.C18.Stem
open Bluge Bluge.Go

def wp {α : Type} (r : Res α) (Q : α → Prop) : Prop :=
  match r with
  | .ok a => Q a
  | .err => True
  | .crash => False

theorem wp_ok {α : Type} (a : α) (Q : α → Prop) : wp (Res.ok a) Q = Q a := rfl
theorem wp_pure {α : Type} (a : α) (Q : α → Prop) : wp (pure a : Res α) Q = Q a := rfl
theorem wp_crash {α : Type} (Q : α → Prop) : wp (Res.crash : Res α) Q = False := rfl

theorem wp_pure_intro {α : Type} {a : α} {Q : α → Prop} (h : Q a) : wp (pure a : Res α) Q := h

theorem ne_crash_of_wp {α : Type} {r : Res α} {Q : α → Prop} (h : wp r Q) : r ≠ .crash := by
  intro hc; rw [hc] at h; exact h

theorem wp_mono {α : Type} {r : Res α} {P Q : α → Prop} (h : wp r P) (hpq : ∀ a, P a → Q a) : wp r Q := by
  cases r with
  | ok a => exact hpq a h
  | err => trivial
  | crash => exact h

theorem wp_bind {α β : Type} (x : Res α) (f : α → Res β) (Q : β → Prop) :
    wp (x >>= f) Q = wp x (fun a => wp (f a) Q) := by
  cases x <;> rfl

/-- sequencing with an intermediate assertion (the rule for calls of translated functions and loops) -/
theorem wp_bind_cut {α β : Type} {x : Res α} {f : α → Res β} {P : α → Prop} {Q : β → Prop}
    (hx : wp x P) (hk : ∀ a, P a → wp (f a) Q) : wp (x >>= f) Q := by
  rw [wp_bind]; exact wp_mono hx hk

theorem wp_bind_pure {α β : Type} {a : α} {f : α → Res β} {Q : β → Prop} (h : wp (f a) Q) :
    wp ((pure a : Res α) >>= f) Q := h

theorem wp_bind_assoc {α β γ : Type} {x : Res α} {g : α → Res β} {f : β → Res γ} {Q : γ → Prop}
    (h : wp (x >>= fun a => g a >>= f) Q) : wp ((x >>= g) >>= f) Q := by
  cases x <;> exact h

theorem getIdx_eq {α : Type} {xs : List α} {i : BitVec 64} (hi : i.toNat < xs.length) :
    Go.getIdx xs i = .ok xs[i.toNat] := by
  unfold Go.getIdx; simp [hi]

theorem wp_bind_getIdx {α β : Type} {xs : List α} {i : BitVec 64} {f : α → Res β} {Q : β → Prop}
    (hi : i.toNat < xs.length) (hk : ∀ v, wp (f v) Q) : wp (Go.getIdx xs i >>= f) Q := by
  rw [getIdx_eq hi]; exact hk _

theorem wp_getIdx {α : Type} {xs : List α} {i : BitVec 64} {Q : α → Prop}
    (hi : i.toNat < xs.length) (hk : ∀ v, Q v) : wp (Go.getIdx xs i) Q := by
  rw [getIdx_eq hi]; exact hk _

theorem wp_bind_setIdx {α β : Type} {xs : List α} {i : BitVec 64} {v : α} {f : List α → Res β} {Q : β → Prop}
    (hi : i.toNat < xs.length) (hk : ∀ ys : List α, ys.length = xs.length → wp (f ys) Q) :
    wp (Go.setIdx xs i v >>= f) Q := by
  unfold Go.setIdx; rw [if_pos hi]; exact hk _ (by simp)

theorem wp_bind_slice {α β : Type} {xs : List α} {a b : BitVec 64} {f : List α → Res β} {Q : β → Prop}
    (h : a.toNat ≤ b.toNat ∧ b.toNat ≤ xs.length)
    (hk : ∀ ys : List α, ys.length = b.toNat - a.toNat → wp (f ys) Q) : wp (Go.slice xs a b >>= f) Q := by
  unfold Go.slice; rw [if_pos h]; exact hk _ (by simp; omega)

theorem wp_bind_copyInto {α β : Type} {dst src : List α} {a b : BitVec 64} {f : List α → Res β} {Q : β → Prop}
    (h : a.toNat ≤ b.toNat ∧ b.toNat ≤ dst.length)
    (hk : ∀ ys : List α, ys.length = dst.length → wp (f ys) Q) : wp (Go.copyInto dst a b src >>= f) Q := by
  unfold Go.copyInto; rw [if_pos h]
  refine hk _ ?_
  simp only [Go.copy, List.length_append, List.length_take, List.length_drop]
  omega

theorem wp_bind_makeSlice {α β : Type} {z : α} {n : BitVec 64} {f : List α → Res β} {Q : β → Prop}
    (h : n.toNat < 2 ^ 63) (hk : ∀ ys : List α, ys.length = n.toNat → wp (f ys) Q) : wp (Go.makeSlice z n >>= f) Q := by
  unfold Go.makeSlice; rw [if_pos h]; exact hk _ (by simp)

/-- `c && e` where evaluating `e` may panic: `e` is only evaluated under `c`; afterwards all that is kept
about the value is that it implies `c` -/
theorem wp_bind_and {β : Type} {c : Bool} {y : Res Bool} {f : Bool → Res β} {Q : β → Prop}
    (hy : c = true → wp y (fun _ => True)) (hk : ∀ t : Bool, (t = true → c = true) → wp (f t) Q) :
    wp ((if (!c) = true then pure false else y) >>= f) Q := by
  cases c with
  | false => exact hk false (by simp)
  | true =>
    simp only [Bool.not_true, Bool.false_eq_true, if_false]
    exact wp_bind_cut (hy rfl) (fun t _ => hk t (fun _ => rfl))

/-- `c || e` -/
theorem wp_bind_or {β : Type} {c : Bool} {y : Res Bool} {f : Bool → Res β} {Q : β → Prop}
    (hy : c = false → wp y (fun _ => True)) (hk : ∀ t : Bool, (t = false → c = false) → wp (f t) Q) :
    wp ((if c = true then pure true else y) >>= f) Q := by
  cases c with
  | true => exact hk true (by simp)
  | false =>
    simp only [Bool.false_eq_true, if_false]
    exact wp_bind_cut (hy rfl) (fun t _ => hk t (fun _ => rfl))

theorem wp_bind_ite {α β : Type} {c : Prop} [Decidable c] {a b : Res α} {f : α → Res β} {Q : β → Prop}
    (ht : c → wp (a >>= f) Q) (he : ¬c → wp (b >>= f) Q) : wp ((if c then a else b) >>= f) Q := by
  split
  · exact ht ‹_›
  · exact he ‹_›

theorem wp_ite {α : Type} {c : Prop} [Decidable c] {a b : Res α} {Q : α → Prop}
    (ht : c → wp a Q) (he : ¬c → wp b Q) : wp (if c then a else b) Q := by
  split
  · exact ht ‹_›
  · exact he ‹_›

/-! conditions that compare RUNES (`switch r { case 'a', 'o': … }`) never matter for a bounds check: the two arms are
proved without the hypothesis (this keeps the contexts of the 40-arm switches small) -/

theorem wp_bind_ite_beq32 {α β : Type} {x y : BitVec 32} {a b : Res α} {f : α → Res β} {Q : β → Prop}
    (ht : wp (a >>= f) Q) (he : wp (b >>= f) Q) : wp ((if (x == y) = true then a else b) >>= f) Q := by
  split <;> assumption

theorem wp_bind_ite_or32 {α β : Type} {z : Bool} {x y : BitVec 32} {a b : Res α} {f : α → Res β} {Q : β → Prop}
    (ht : wp (a >>= f) Q) (he : wp (b >>= f) Q) : wp ((if (z || x == y) = true then a else b) >>= f) Q := by
  split <;> assumption

theorem wp_ite_beq32 {α : Type} {x y : BitVec 32} {a b : Res α} {Q : α → Prop}
    (ht : wp a Q) (he : wp b Q) : wp (if (x == y) = true then a else b) Q := by
  split <;> assumption

theorem wp_ite_or32 {α : Type} {z : Bool} {x y : BitVec 32} {a b : Res α} {Q : α → Prop}
    (ht : wp a Q) (he : wp b Q) : wp (if (z || x == y) = true then a else b) Q := by
  split <;> assumption

/-- a merge point with an intermediate assertion chosen by hand (`refine wp_bind_cut (P := …) ?_ ?_`) is
`wp_bind_cut`; this is the same for a conditional whose two arms are proved separately -/
theorem wp_ite_cut {α β : Type} {c : Prop} [Decidable c] {a b : Res α} {f : α → Res β} {P : α → Prop} {Q : β → Prop}
    (ht : c → wp a P) (he : ¬c → wp b P) (hk : ∀ x, P x → wp (f x) Q) : wp ((if c then a else b) >>= f) Q :=
  wp_bind_cut (wp_ite ht he) hk

theorem wp_slice {α : Type} {xs : List α} {a b : BitVec 64} {Q : List α → Prop}
    (h : a.toNat ≤ b.toNat ∧ b.toNat ≤ xs.length) (hk : ∀ ys : List α, ys.length = b.toNat - a.toNat → Q ys) :
    wp (Go.slice xs a b) Q := by
  unfold Go.slice; rw [if_pos h]; exact hk _ (by simp; omega)

theorem wp_setIdx {α : Type} {xs : List α} {i : BitVec 64} {v : α} {Q : List α → Prop}
    (hi : i.toNat < xs.length) (hk : ∀ ys : List α, ys.length = xs.length → Q ys) : wp (Go.setIdx xs i v) Q := by
  unfold Go.setIdx; rw [if_pos hi]; exact hk _ (by simp)

theorem wp_copyInto {α : Type} {dst src : List α} {a b : BitVec 64} {Q : List α → Prop}
    (h : a.toNat ≤ b.toNat ∧ b.toNat ≤ dst.length) (hk : ∀ ys : List α, ys.length = dst.length → Q ys) :
    wp (Go.copyInto dst a b src) Q := by
  unfold Go.copyInto; rw [if_pos h]
  refine hk _ ?_
  simp only [Go.copy, List.length_append, List.length_take, List.length_drop]
  omega

/-! ### `utf8.EncodeRune` / `utf8.RuneLen` -/

theorem encodeRune_length (r : GoStd.Rune) : 1 ≤ (GoStd.encodeRune r).length ∧ (GoStd.encodeRune r).length ≤ 4 := by
  unfold GoStd.encodeRune Analysis.encodeRune
  split
  · simp
  · split
    · simp
    · split
      · simp
      · split <;> simp

/-- a rune `utf8.RuneLen` accepts (not negative, not a surrogate, at most U+10FFFF) -/
def ValidRune (r : GoStd.Rune) : Prop := GoStd.runeLen r ≠ BitVec.ofInt 64 (-1)

instance (r : GoStd.Rune) : Decidable (ValidRune r) := by unfold ValidRune; infer_instance

/-- for a valid rune `RuneLen` is the number of bytes `EncodeRune` writes -/
theorem runeLen_eq_of_valid (r : GoStd.Rune) (h : ValidRune r) :
    GoStd.runeLen r = BitVec.ofNat 64 (GoStd.encodeRune r).length := by
  unfold ValidRune at h
  unfold GoStd.runeLen at h ⊢
  unfold GoStd.encodeRune Analysis.encodeRune
  unfold GoStd.isSurrogate at h ⊢
  by_cases h1 : r.toNat < 0x80
  · simp [h1]
  · by_cases h2 : r.toNat < 0x800
    · simp [h1, h2]
    · by_cases h3 : (decide (0xD800 ≤ r.toNat) && decide (r.toNat ≤ 0xDFFF)) = true
      · simp [h1, h2, h3] at h
      · have h3' : ¬ (0xD800 ≤ r.toNat ∧ r.toNat ≤ 0xDFFF) := by simpa using h3
        by_cases h4 : r.toNat < 0x10000
        · have h5 : ¬ (r.toNat > 0x10FFFF) := by omega
          simp [h1, h2, h3, h4, h5, h3']
        · by_cases h5 : r.toNat ≤ 0x10FFFF
          · have h6 : ¬ (r.toNat > 0x10FFFF) := by omega
            simp [h1, h2, h3, h4, h5, h6, h3']
          · simp [h1, h2, h3, h4, h5] at h

theorem wp_bind_encodeRuneAt {β : Type} {p : List (BitVec 8)} {off : BitVec 64} {r : GoStd.Rune}
    {f : List (BitVec 8) × BitVec 64 → Res β} {Q : β → Prop}
    (h : ∀ e : Nat, 1 ≤ e → e ≤ 4 → (ValidRune r → GoStd.runeLen r = BitVec.ofNat 64 e) → off.toNat + e ≤ p.length)
    (hk : ∀ (p' : List (BitVec 8)) (e : Nat), p'.length = p.length → 1 ≤ e → e ≤ 4 →
      (ValidRune r → GoStd.runeLen r = BitVec.ofNat 64 e) → wp (f (p', BitVec.ofNat 64 e)) Q) :
    wp (GoStd.encodeRuneAt p off r >>= f) Q := by
  have hl := encodeRune_length r
  have hb := h _ hl.1 hl.2 (runeLen_eq_of_valid r)
  unfold GoStd.encodeRuneAt
  simp only [if_pos hb]
  refine hk _ _ ?_ hl.1 hl.2 (runeLen_eq_of_valid r)
  simp only [List.length_append, List.length_take, List.length_drop]
  omega

/-! ### merge points

`let xs ← if c then … else pure xs` (a conditional trim or in-place edit of a slice) followed by more code: instead
of proving the rest once per arm (2ⁿ paths after n such statements) the rest is proved once for every list
that is at most `K` shorter than `xs`. -/

def Trim {α : Type} (K : Nat) (x r : List α) : Prop := r.length ≤ x.length ∧ x.length ≤ r.length + K

theorem wp_bind_ite_trim {α β : Type} (K : Nat) {c : Prop} [Decidable c] {a : Res (List α)} {x : List α}
    {f : List α → Res β} {Q : β → Prop}
    (ht : c → wp a (fun r => r.length ≤ x.length ∧ x.length ≤ r.length + K))
    (hk : ∀ r : List α, r.length ≤ x.length → x.length ≤ r.length + K → wp (f r) Q) :
    wp ((if c then a else pure x) >>= f) Q := by
  split
  · exact wp_bind_cut (ht ‹_›) (fun r hr => hk r hr.1 hr.2)
  · exact hk x (Nat.le_refl _) (Nat.le_add_right _ _)

/-- the same for the pair `(input, inputLen)` with `inputLen = len(input)` re-established by the arm -/
theorem wp_bind_ite_trim2 {α β : Type} (K : Nat) {c : Prop} [Decidable c] {a : Res (List α × BitVec 64)} {x : List α}
    {f : List α × BitVec 64 → Res β} {Q : β → Prop}
    (ht : c → wp a (fun r => (r.1.length ≤ x.length ∧ x.length ≤ r.1.length + K) ∧ r.2 = Go.len r.1))
    (hk : ∀ r : List α, r.length ≤ x.length → x.length ≤ r.length + K → wp (f (r, Go.len r)) Q) :
    wp ((if c then a else pure (x, Go.len x)) >>= f) Q := by
  split
  · refine wp_bind_cut (ht ‹_›) ?_
    rintro ⟨r, l⟩ ⟨hr, hl⟩
    dsimp only at hr hl
    subst hl
    exact hk r hr.1 hr.2
  · exact hk x (Nat.le_refl _) (Nat.le_add_right _ _)

theorem wp_match_option {α β : Type} {o : Option α} {s : α → Res β} {n : Res β} {Q : β → Prop}
    (hs : ∀ v, o = some v → wp (s v) Q) (hn : o = none → wp n Q) :
    wp (match o with | some v => s v | none => n) Q := by
  cases o with
  | some v => exact hs v rfl
  | none => exact hn rfl

/-! ### lengths -/

theorem len_toNat {α : Type} (xs : List α) (h : xs.length < 2 ^ 63) : (Go.len xs).toNat = xs.length := by
  simp only [Go.len, BitVec.toNat_ofNat]; omega

theorem make_length {α : Type} (z : α) (n : BitVec 64) : (Go.make z n).length = n.toNat := by
  simp [Go.make]

theorem copy_length {α : Type} (dst src : List α) : (Go.copy dst src).length = dst.length := by
  simp only [Go.copy, List.length_append, List.length_take, List.length_drop]; omega

/-! ### tactics -/

/-- calls of translated functions and loops: every `…_bind` rule is registered here by `macro_rules` -/
syntax "wp_call" : tactic
macro_rules | `(tactic| wp_call) => `(tactic| fail "wp_call: no rule applies")

syntax "wp_go" : tactic
syntax "wp_go_merge" : tactic
syntax "bv_len" : tactic

/-- one step of the verification-condition generator (every rule except the ones for a conditional in
sequence position, which `wp_go` and `wp_go_merge` treat differently) -/
macro "wp_step0" : tactic => `(tactic| first
  | with_reducible refine wp_bind_pure ?_
  | with_reducible refine wp_bind_assoc ?_
  | with_reducible refine wp_bind_getIdx ?_ (fun _ => ?_)
  | with_reducible refine wp_bind_setIdx ?_ (fun _ _ => ?_)
  | with_reducible refine wp_bind_slice ?_ (fun _ _ => ?_)
  | with_reducible refine wp_bind_copyInto ?_ (fun _ _ => ?_)
  | with_reducible refine wp_bind_makeSlice ?_ (fun _ _ => ?_)
  | with_reducible refine wp_bind_encodeRuneAt (fun _ _ _ _ => ?_) (fun _ _ _ _ _ _ => ?_)
  | with_reducible refine wp_bind_and (fun _ => ?_) (fun _ _ => ?_)
  | with_reducible refine wp_bind_or (fun _ => ?_) (fun _ _ => ?_)
  | wp_call
  | with_reducible refine wp_ite_beq32 ?_ ?_
  | with_reducible refine wp_ite_or32 ?_ ?_
  | with_reducible refine wp_ite (fun _ => ?_) (fun _ => ?_)
  | with_reducible refine wp_match_option (fun _ _ => ?_) (fun _ => ?_)
  | with_reducible refine wp_getIdx ?_ (fun _ => ?_)
  | with_reducible refine wp_slice ?_ (fun _ _ => ?_)
  | with_reducible refine wp_setIdx ?_ (fun _ _ => ?_)
  | with_reducible refine wp_copyInto ?_ (fun _ _ => ?_)
  | with_reducible refine wp_pure_intro ?_)

/-- a conditional in sequence position, the precise way: the rest of the code is proved once per arm -/
macro "wp_split" : tactic => `(tactic| first
  | with_reducible refine wp_bind_ite_beq32 ?_ ?_
  | with_reducible refine wp_bind_ite_or32 ?_ ?_
  | with_reducible refine wp_bind_ite (fun _ => ?_) (fun _ => ?_))

/-- a merge point `let xs ← if c then … else pure xs`: prove the arm completely (it has to end within `K` of
`xs`), continue once with a list that is at most `K` shorter. Loses which arm was taken. -/
syntax "wp_merge " num : tactic
macro_rules
  | `(tactic| wp_merge $k) => `(tactic| first
      | (with_reducible refine wp_bind_ite_trim $k (fun _ => ?_) (fun _ _ _ => ?_)
         · (wp_go_merge; all_goals bv_len))
      | (with_reducible refine wp_bind_ite_trim2 $k (fun _ => ?_) (fun _ _ _ => ?_)
         · (wp_go_merge; all_goals bv_len)))

/-- run the verification-condition generator; conditionals in sequence position are split (2ⁿ paths after n of
them: meant for loop bodies and short functions) -/
macro_rules | `(tactic| wp_go) => `(tactic| repeat' (first | wp_step0 | wp_split | dsimp only))

/-- the same with merge points summarised by `Trim` (K = 0 … 7) where that works: for the long straight-line
suffix strippers -/
macro_rules | `(tactic| wp_go_merge) => `(tactic| repeat' (first
  | wp_step0
  | wp_merge 0 | wp_merge 1 | wp_merge 2 | wp_merge 3 | wp_merge 4 | wp_merge 5 | wp_merge 6 | wp_merge 7
  | wp_split | dsimp only))

/-- bounds checks: boolean guards propagated, signed comparisons and lengths to `Nat`, then `bv_omega` -/
macro_rules | `(tactic| bv_len) => `(tactic| (
  (try simp_all only [Bool.not_eq_true', Bool.and_eq_true, Bool.or_eq_true, Bool.not_eq_true, Bool.true_eq_false, Bool.false_eq_true,
    false_implies, true_implies, implies_true, forall_const, not_false_eq_true, not_true_eq_false, Bool.not_eq_false',
    and_true, true_and, and_self, and_false, false_and, or_true, true_or, or_false, false_or, eq_self_iff_true, ne_eq])
  <;> (try simp only [Go.len, GoStd.runeCount, GoStd.runes, List.length_map, make_length, copy_length, BitVec.slt_eq_decide, BitVec.sle_eq_decide, BitVec.toInt_eq_toNat_cond,
    decide_eq_true_eq, decide_eq_false_iff_not, List.length_cons, List.length_nil, List.length_append, List.length_replicate] at *)
  <;> bv_omega))

end Bluge.C18.Stem

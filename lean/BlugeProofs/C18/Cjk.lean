import Bluge.Analysis
import BlugeProofs.C18.Filters
/-! Lemmas for C18: the CJK bigram filter. Its per-rune offsets are `Start + Σ width` over the *term* bytes, so
an ideographic token must still span at least the length of its term. -/
namespace Bluge.C18
open Bluge.Analysis

def SlotsOK (len : Int) (r : Ring2) : Prop :=
  (∀ c, r.cur = some c → c.ok len) ∧ (r.items = 2 → ∀ o, r.other = some o → o.ok len)

def RingInv (len : Int) (r : Ring2) : Prop :=
  (∀ t ∈ r.rv, t.ok len) ∧ SlotsOK len r ∧ (r.items = 2 → ∀ o c, r.other = some o → r.cur = some c → o.stop = c.start)

theorem single_ok {len : Int} {p : Token} (h : p.ok len) (k : Int) (hk : 0 ≤ k) : Token.ok len { single p with posIncr := k } := by
  unfold Token.ok single at *
  simp only
  omega

theorem buildUnigram_ok {len : Int} {r : Ring2} (h : SlotsOK len r) {u : Token} (hu : r.buildUnigram = some u) :
    Token.ok len { u with posIncr := 1 } := by
  unfold Ring2.buildUnigram at hu
  split at hu
  · next h2 =>
    simp only [Option.map_eq_some_iff] at hu
    obtain ⟨o, ho, rfl⟩ := hu
    exact single_ok (h.2 h2 o ho) 1 (by omega)
  · split at hu
    · simp only [Option.map_eq_some_iff] at hu
      obtain ⟨c, hc, rfl⟩ := hu
      exact single_ok (h.1 c hc) 1 (by omega)
    · contradiction

theorem outputBigram_ok {len : Int} {r : Ring2} (h : RingInv len r) {b : Token} (hb : r.outputBigram = some b) :
    b.ok len ∧ Token.ok len { b with posIncr := 1 } := by
  unfold Ring2.outputBigram at hb
  split at hb
  · next h2 =>
    split at hb
    · next prev curr hp hc =>
      injection hb with hb; subst hb
      have h1 := h.2.1.2 h2 prev hp
      have h3 := h.2.1.1 curr hc
      have h4 := h.2.2 h2 prev curr hp hc
      unfold Token.ok at *
      simp only
      omega
    · contradiction
  · contradiction

theorem ringInv_push_rv {len : Int} {r : Ring2} (h : RingInv len r) (x : Token) (hx : x.ok len) :
    RingInv len { r with rv := x :: r.rv } :=
  ⟨cons_ok h.1 x hx, h.2.1, h.2.2⟩

theorem flushEmit_inv {len : Int} {r : Ring2} (h : RingInv len r) : RingInv len r.flushEmit ∧ r.flushEmit.items = 0 := by
  unfold Ring2.flushEmit
  have hbase : RingInv len { r with cur := none, items := 0 } :=
    ⟨h.1, ⟨by simp, by simp⟩, by simp⟩
  dsimp only
  split
  · next t ht =>
    split at ht
    · exact ⟨ringInv_push_rv hbase _ (buildUnigram_ok h.2.1 ht), rfl⟩
    · contradiction
  · exact ⟨hbase, rfl⟩

theorem align_inv {len : Int} {r : Ring2} (h : RingInv len r) (token : Token) :
    RingInv len (r.align token) ∧ ((r.align token).items > 0 → ∀ c, (r.align token).cur = some c → c.stop = token.start) := by
  unfold Ring2.align
  split
  · split
    · next curr hc =>
      split
      · have := flushEmit_inv h
        exact ⟨this.1, fun hpos => by omega⟩
      · next hal =>
        refine ⟨h, fun _ c hc' => ?_⟩
        rw [hc] at hc'; injection hc' with hc'; subst hc'
        omega
    · next hc =>
      exact ⟨h, fun _ c hc' => by rw [hc] at hc'; contradiction⟩
  · next h0 => exact ⟨h, fun hpos => absurd hpos h0⟩

theorem advance_inv {len : Int} {r : Ring2} (h : RingInv len r) (token : Token) (htok : token.ok len)
    (hal : r.items > 0 → ∀ c, r.cur = some c → c.stop = token.start) : RingInv len (r.advance token) := by
  unfold Ring2.advance
  refine ⟨h.1, ⟨?_, ?_⟩, ?_⟩
  · intro c hc; simp only [Option.some.injEq] at hc; subst hc; exact htok
  · intro _ o ho; exact h.2.1.1 o ho
  · intro h2 o c ho hc
    simp only [Option.some.injEq] at hc; subst hc
    have hpos : r.items > 0 := by
      dsimp only at h2
      split at h2 <;> omega
    exact hal hpos o ho

theorem emitUnigram_inv {len : Int} {r : Ring2} (h : RingInv len r) (ou : Bool) : RingInv len (r.emitUnigram ou) := by
  unfold Ring2.emitUnigram
  split
  · split
    · next u hu => exact ringInv_push_rv h _ (buildUnigram_ok h.2.1 hu)
    · exact h
  · exact h

theorem emitBigram_inv {len : Int} {r : Ring2} (h : RingInv len r) (ou : Bool) : RingInv len (r.emitBigram ou) := by
  unfold Ring2.emitBigram
  split
  · next b hb =>
    have hbo := outputBigram_ok h hb
    apply ringInv_push_rv h
    split
    · exact hbo.2
    · exact hbo.1
  · exact h

/-- one rune of an ideographic token -/
theorem cjkRune_inv (ou : Bool) (len : Int) (tokout : Token) (htok : tokout.ok len)
    (hfit : (tokout.term.length : Int) ≤ tokout.stop - tokout.start) (run : Rune)
    (st st' : Ring2 × Int) (hr : RingInv len st.1) (h : cjkRune ou tokout st run = some st') : RingInv len st'.1 := by
  unfold cjkRune at h
  split at h
  · contradiction
  · next rest hrest =>
    have hb := goSlice_bounds hrest
    have hl := goSlice_length hrest
    have hd := decodeRune_size_le rest
    dsimp only at h
    split at h
    · contradiction
    · next piece _ =>
      injection h with h
      subst h
      have hnew : (cjkPiece tokout piece st.2 ((decodeRune rest).2 : Nat)).ok len := by
        unfold Token.ok cjkPiece at *
        simp only
        omega
      have h1 := align_inv hr (cjkPiece tokout piece st.2 ((decodeRune rest).2 : Nat))
      have h2 := advance_inv h1.1 _ hnew h1.2
      exact emitBigram_inv (emitUnigram_inv h2 ou) ou

theorem cjkBigramFilter_valid' (ou : Bool) (len : Int) (input out : List Token) (hv : Valid len input)
    (hfit : ∀ t ∈ input, IdeoFits t) (h : cjkBigramFilter ou input = some out) : Valid len out := by
  simp only [cjkBigramFilter, Option.map_eq_some_iff] at h
  obtain ⟨r, hloop, rfl⟩ := h
  have key := loop_inv (fun rest (r : Ring2) => (∀ t ∈ rest, t.ok len ∧ IdeoFits t) ∧ RingInv len r)
    (by
      intro tokout rest r r' hP hb
      obtain ⟨hin, hr⟩ := hP
      refine ⟨fun t ht => hin t (by simp [ht]), ?_⟩
      have htok := (hin tokout (by simp)).1
      have hf := (hin tokout (by simp)).2
      split at hb
      · next hty =>
        simp only [Option.map_eq_some_iff] at hb
        obtain ⟨st, hl, rfl⟩ := hb
        exact loop_inv_simple (fun (st : Ring2 × Int) => RingInv len st.1)
          (fun run st st' hQ hb2 => cjkRune_inv ou len tokout htok (hf hty) run st st' hQ hb2)
          (runes tokout.term) (r, 0) st hr hl
      · injection hb with hb; subst hb
        exact ringInv_push_rv (flushEmit_inv hr).1 _ htok)
    input _ r ⟨fun t ht => ⟨hv t ht, hfit t ht⟩, ⟨by simp, ⟨by simp, by simp⟩, by simp⟩⟩ hloop
  have hr := key.2
  intro t ht
  have ht' := List.mem_reverse.mp ht
  split at ht'
  · -- trailing unigram
    have hslots : SlotsOK len (if r.items = 2 then { r with cur := r.other, other := r.cur } else r) := by
      split
      · next h2 => exact ⟨fun c hc => hr.2.1.2 h2 c hc, fun _ o ho => hr.2.1.1 o ho⟩
      · exact hr.2.1
    have hrv : ∀ t ∈ (if r.items = 2 then { r with cur := r.other, other := r.cur } else r).rv, t.ok len := by
      split <;> exact hr.1
    generalize (if r.items = 2 then ({ r with cur := r.other, other := r.cur } : Ring2) else r) = r' at ht' hslots hrv
    split at ht'
    · next u hu => exact cons_ok hrv _ (buildUnigram_ok hslots hu) t ht'
    · exact hrv t ht'
  · exact hr.1 t ht'

/-- the rune loop of one ideographic token never slices out of range: `sofar` walks the term by the widths
`DecodeRune` reports, exactly as `bytes.Runes` did when it counted the runes -/
theorem cjk_loop_total (ou : Bool) (tokout : Token) :
    ∀ (n : Nat) (p : Bytes) (st : Ring2 × Int), p.length = n → 0 ≤ st.2 → tokout.term.drop st.2.toNat = p →
      st.2 + p.length = tokout.term.length → ∃ st', loop (runes p) (cjkRune ou tokout) st = some st' := by
  intro n
  induction n using Nat.strongRecOn with
  | _ n ih =>
    intro p st hn h0 hdrop hsum
    rw [runes]
    split
    · exact ⟨st, rfl⟩
    · next hne =>
      have hpos := decodeRune_size_pos p hne
      have hle := decodeRune_size_le p
      have h1 : goSlice tokout.term st.2 tokout.term.length = some p := by
        unfold goSlice
        rw [if_pos ⟨h0, by omega, Int.le_refl _⟩, hdrop, List.take_of_length_le (by omega)]
      obtain ⟨piece, h2⟩ := goSlice_some (s := tokout.term) (lo := st.2) (hi := st.2 + (((decodeRune p).2 : Nat) : Int))
        ⟨h0, by omega, by omega⟩
      have hstep : ∃ s1, cjkRune ou tokout st (decodeRune p).1 = some s1 ∧ s1.2 = st.2 + (((decodeRune p).2 : Nat) : Int) := by
        unfold cjkRune
        rw [h1]
        dsimp only
        rw [h2]
        exact ⟨_, rfl, rfl⟩
      obtain ⟨s1, hs1, hs2⟩ := hstep
      have hrec := ih (p.drop (decodeRune p).2).length (by simp only [List.length_drop]; omega) (p.drop (decodeRune p).2) s1 rfl
        (by omega)
        (by rw [hs2, ← hdrop, List.drop_drop]; congr 1; omega)
        (by rw [hs2]; simp only [List.length_drop]; omega)
      obtain ⟨s2, hl2⟩ := hrec
      exact ⟨s2, by simp [loop, hs1, hl2]⟩

/-- FULL strength (after the fix): the CJK bigram filter never panics, on any token stream -/
theorem cjkBigramFilter_total' (ou : Bool) (input : List Token) : ∃ out, cjkBigramFilter ou input = some out := by
  unfold cjkBigramFilter
  apply exists_map_some
  apply loop_some
  intro tokout _ r
  split
  · apply exists_map_some
    exact cjk_loop_total ou tokout _ tokout.term (r, 0) rfl (Int.le_refl _) (by simp) (by simp)
  · exact ⟨_, rfl⟩

end Bluge.C18

import BlugeProofs.C18.StemLatin
/-! No-panic specifications of the translated Portuguese light stemmer and French light stemmer. -/
namespace Bluge.C18.Stem
open Bluge Bluge.Go BlugeGen.C18S

/-! ## Portuguese light stemmer -/

theorem pt_removeSuffix_spec (input : List (BitVec 32)) (h : input.length < 2 ^ 63) :
    wp (pt_removeSuffix input) (fun r => r.length ≤ input.length) := by
  unfold pt_removeSuffix
  wp_go_merge
  all_goals bv_len

theorem pt_normFeminine_spec (input : List (BitVec 32)) (h : input.length < 2 ^ 63) :
    wp (pt_normFeminine input) (fun r => r.length ≤ input.length ∧ input.length ≤ r.length + 1) := by
  unfold pt_normFeminine
  wp_go_merge
  all_goals bv_len

theorem pt_removeSuffix_bind {β : Type} {input : List (BitVec 32)} {f : List (BitVec 32) → Res β} {Q : β → Prop}
    (h : input.length < 2 ^ 63) (hk : ∀ r : List (BitVec 32), r.length ≤ input.length → wp (f r) Q) :
    wp (pt_removeSuffix input >>= f) Q :=
  wp_bind_cut (pt_removeSuffix_spec input h) hk

theorem pt_normFeminine_bind {β : Type} {input : List (BitVec 32)} {f : List (BitVec 32) → Res β} {Q : β → Prop}
    (h : input.length < 2 ^ 63)
    (hk : ∀ r : List (BitVec 32), (r.length ≤ input.length ∧ input.length ≤ r.length + 1) → wp (f r) Q) :
    wp (pt_normFeminine input >>= f) Q :=
  wp_bind_cut (pt_normFeminine_spec input h) hk

macro_rules | `(tactic| wp_call) => `(tactic| with_reducible refine pt_removeSuffix_bind ?_ (fun _ _ => ?_))
macro_rules | `(tactic| wp_call) => `(tactic| with_reducible refine pt_normFeminine_bind ?_ (fun _ _ => ?_))

theorem pt_stem_loop (L : Nat) (hL : L < 2 ^ 63) (inputLen : BitVec 64) (hIL : inputLen.toNat ≤ L) :
    ∀ (fuel : Nat) (input : List (BitVec 32)) (i : BitVec 64), input.length = L → i.toNat ≤ inputLen.toNat →
    inputLen.toNat - i.toNat < fuel →
    wp (pt_stem.loop1 fuel input inputLen i) (fun r => r.1.length = L) := by
  intro fuel
  induction fuel with
  | zero => intro _ _ _ _ h; omega
  | succ fuel ih =>
    intro input i h1 h2 h3
    unfold pt_stem.loop1
    wp_go
    all_goals first
      | bv_len
      | exact h1
      | (refine ih _ _ ?_ ?_ ?_ <;> bv_len)

theorem pt_stem_loop_bind {β : Type} {fuel : Nat} {input : List (BitVec 32)} {i : BitVec 64}
    {f : List (BitVec 32) × BitVec 64 × BitVec 64 → Res β} {Q : β → Prop}
    (h : input.length < 2 ^ 63 ∧ i = 0#64 ∧ input.length < fuel)
    (hk : ∀ r : List (BitVec 32) × BitVec 64 × BitVec 64, r.1.length = input.length → wp (f r) Q) :
    wp (pt_stem.loop1 fuel input (Go.len input) i >>= f) Q := by
  obtain ⟨h1, rfl, h3⟩ := h
  refine wp_bind_cut (pt_stem_loop input.length h1 (Go.len input) (by bv_len) fuel input 0#64 rfl (by simp) ?_) hk
  bv_len

macro_rules | `(tactic| wp_call) => `(tactic| with_reducible refine pt_stem_loop_bind ?_ (fun _ _ => ?_))

theorem pt_stem_spec (input : List (BitVec 32)) (h : input.length < 2 ^ 63) :
    wp (pt_stem input) (fun r => r.length ≤ input.length) := by
  unfold pt_stem
  wp_go_merge
  all_goals bv_len

/-! ## French light stemmer -/

/-- the inner loop of `norm` (collapse a run of one letter): `1 ≤ i ≤ len(input)` at the loop head, a deletion at
`i ≥ 1` keeps both, so `input[0]` stays readable and `len(input) − i` drops on every iteration -/
theorem fr_norm_loop2 (L : Nat) (hL : L < 2 ^ 63) :
    ∀ (fuel : Nat) (uc : GoStd.Unicode) (input : List (BitVec 32)) (i : BitVec 64) (sw ch : BitVec 32) (i_2 : BitVec 64),
      input.length ≤ L → 1 ≤ i_2.toNat → i_2.toNat ≤ input.length → input.length - i_2.toNat < fuel →
      wp (fr_norm.loop2 fuel uc input i sw ch i_2)
        (fun r => r.2.1.length ≤ input.length ∧ 1 ≤ r.2.1.length ∧ r.2.2.1 = i) := by
  intro fuel
  induction fuel with
  | zero => intro _ _ _ _ _ _ _ _ _ h; omega
  | succ fuel ih =>
    intro uc input i sw ch i_2 h0 h1 h2 h3
    unfold fr_norm.loop2
    wp_go
    all_goals first
      | bv_len
      | exact ⟨Nat.le_refl _, by omega, rfl⟩
      | (refine wp_mono (ih _ _ _ _ _ _ ?_ ?_ ?_ ?_) (fun _ hr => ⟨?_, hr.2.1, hr.2.2⟩) <;> (try have := hr.1) <;> bv_len)

/-- the outer loop of `norm`: the slice never grows and never becomes empty; `i` advances by one -/
theorem fr_norm_loop1 (L : Nat) (hL : L < 2 ^ 62) :
    ∀ (fuel : Nat) (uc : GoStd.Unicode) (input : List (BitVec 32)) (i : BitVec 64),
      input.length ≤ L → i.toNat ≤ L → input.length - i.toNat < fuel →
      wp (fr_norm.loop1 fuel uc input i) (fun r => r.2.1.length ≤ input.length) := by
  intro fuel
  induction fuel with
  | zero => intro _ _ _ _ _ h; omega
  | succ fuel ih =>
    intro uc input i h0 h1 h2
    unfold fr_norm.loop1
    dsimp only
    refine wp_ite (fun hlt => ?_) (fun _ => Nat.le_refl _)
    have hi : i.toNat < input.length := by bv_len
    refine wp_bind_getIdx hi (fun v => ?_)
    -- the accent switch: an in-place edit
    refine wp_bind_cut (P := fun r : List (BitVec 32) => r.length = input.length) ?_ ?_
    · wp_go
      all_goals first | rfl | bv_len
    · intro in1 hin1
      refine wp_bind_getIdx (by bv_len) (fun ch => ?_)
      refine wp_bind_cut (fr_norm_loop2 L (by omega) _ uc in1 i v ch 1#64 (by omega) (by simp) (by simp; omega)
        (by simp; omega)) ?_
      rintro ⟨uc', in2, i', sw', ch', j⟩ ⟨hle, hpos, hi'⟩
      dsimp only at hle hpos hi' ⊢
      subst hi'
      refine wp_mono (ih _ _ _ ?_ ?_ ?_) (fun _ hr => ?_) <;> bv_len

theorem fr_norm_spec (uc : GoStd.Unicode) (input : List (BitVec 32)) (h : input.length < 2 ^ 62) :
    wp (fr_norm uc input) (fun r => r.length ≤ input.length) := by
  unfold fr_norm
  refine wp_bind_cut (P := fun r : List (BitVec 32) => r.length ≤ input.length) ?_ ?_
  · refine wp_ite (fun _ => ?_) (fun _ => Nat.le_refl _)
    dsimp only
    refine wp_bind_cut (fr_norm_loop1 input.length h _ uc input 0#64 (Nat.le_refl _) (by simp) (by simp; omega)) ?_
    rintro ⟨u, a, i⟩ ha
    exact ha
  · intro in1 hin1
    wp_go_merge
    all_goals bv_len

theorem fr_norm_bind {β : Type} {uc : GoStd.Unicode} {input : List (BitVec 32)} {f : List (BitVec 32) → Res β} {Q : β → Prop}
    (h : input.length < 2 ^ 62) (hk : ∀ r : List (BitVec 32), r.length ≤ input.length → wp (f r) Q) :
    wp (fr_norm uc input >>= f) Q :=
  wp_bind_cut (fr_norm_spec uc input h) hk

theorem fr_norm_tail {uc : GoStd.Unicode} {input : List (BitVec 32)} {Q : List (BitVec 32) → Prop}
    (h : input.length < 2 ^ 62) (hk : ∀ r : List (BitVec 32), r.length ≤ input.length → Q r) :
    wp (fr_norm uc input) Q :=
  wp_mono (fr_norm_spec uc input h) hk

macro_rules | `(tactic| wp_call) => `(tactic| with_reducible refine fr_norm_tail ?_ (fun _ _ => ?_))
macro_rules | `(tactic| wp_call) => `(tactic| with_reducible refine fr_norm_bind ?_ (fun _ _ => ?_))

-- 290 lines of Go: 6 merge points, 31 exits through `norm`, about 300 bounds checks in all
set_option maxHeartbeats 4000000 in
theorem fr_stem_spec (uc : GoStd.Unicode) (input : List (BitVec 32)) (h : input.length < 2 ^ 62) :
    wp (fr_stem uc input) (fun r => r.length ≤ input.length) := by
  unfold fr_stem
  wp_go_merge
  all_goals bv_len

end Bluge.C18.Stem

import BlugeProofs.C18.StemLib
import BlugeProofs.C18.Tokenizers
import BlugeGen.C18S
/-! No-panic specifications of the rune helpers of analysis/util.go, as translated in `BlugeGen.C18S`. -/
namespace Bluge.C18.Stem
open Bluge Bluge.Go BlugeGen.C18S

theorem runes_length_le (p : List (BitVec 8)) : (GoStd.runes p).length ≤ p.length := by
  simp only [GoStd.runes, List.length_map]
  exact Bluge.C18.runes_length_le _ p rfl

theorem runeCount_eq (p : List (BitVec 8)) : GoStd.runeCount p = Go.len (GoStd.runes p) := by
  simp [GoStd.runeCount, Go.len, GoStd.runes]

/-! ## DeleteRune, InsertRune -/

theorem DeleteRune_spec (in_ : List (BitVec 32)) (pos : BitVec 64) (h : in_.length < 2 ^ 63) (hp : pos.toNat < 2 ^ 63) :
    wp (DeleteRune in_ pos) (fun r => (pos.toNat < in_.length → r.length + 1 = in_.length) ∧
      (in_.length ≤ pos.toNat → r.length = in_.length)) := by
  unfold DeleteRune
  wp_go
  all_goals bv_len

theorem DeleteRune_bind {β : Type} {in_ : List (BitVec 32)} {pos : BitVec 64} {f : List (BitVec 32) → Res β} {Q : β → Prop}
    (h : in_.length < 2 ^ 63 ∧ pos.toNat < 2 ^ 63)
    (hk : ∀ r : List (BitVec 32), ((pos.toNat < in_.length → r.length + 1 = in_.length) ∧
      (in_.length ≤ pos.toNat → r.length = in_.length)) → wp (f r) Q) : wp (DeleteRune in_ pos >>= f) Q :=
  wp_bind_cut (DeleteRune_spec in_ pos h.1 h.2) hk

macro_rules | `(tactic| wp_call) => `(tactic| with_reducible refine DeleteRune_bind ?_ (fun _ _ => ?_))

theorem InsertRune_spec (in_ : List (BitVec 32)) (pos : BitVec 64) (r : BitVec 32) (h : in_.length + 1 < 2 ^ 63)
    (hp : pos.toNat ≤ in_.length) : wp (InsertRune in_ pos r) (fun o => o.length = in_.length + 1) := by
  unfold InsertRune
  wp_go
  all_goals bv_len

theorem InsertRune_bind {β : Type} {in_ : List (BitVec 32)} {pos : BitVec 64} {r : BitVec 32} {f : List (BitVec 32) → Res β}
    {Q : β → Prop} (h : in_.length + 1 < 2 ^ 63 ∧ pos.toNat ≤ in_.length)
    (hk : ∀ o : List (BitVec 32), o.length = in_.length + 1 → wp (f o) Q) : wp (InsertRune in_ pos r >>= f) Q :=
  wp_bind_cut (InsertRune_spec in_ pos r h.1 h.2) hk

macro_rules | `(tactic| wp_call) => `(tactic| with_reducible refine InsertRune_bind ?_ (fun _ _ => ?_))

/-! ## BuildTermFromRunesOptimistic, BuildTermFromRunes -/

/-- the loop of `BuildTermFromRunesOptimistic`: `used` never exceeds four bytes per rune consumed, so after a
re-allocation (`4 * len(runes)` bytes) everything fits; before one, a VALID rune fits because `RuneLen` was
checked against the buffer. An invalid rune (`RuneLen = -1`, three bytes written) is only safe in the big buffer. -/
theorem btfro_loop (runes : List (BitVec 32)) (hN : runes.length < 2 ^ 61) :
    ∀ (xs_ : List (BitVec 32)) (buf rv : List (BitVec 8)) (used : BitVec 64),
      used.toNat + 4 * xs_.length ≤ 4 * runes.length → used.toNat ≤ rv.length → rv.length < 2 ^ 63 →
      ((∀ r ∈ xs_, ValidRune r) ∨ rv.length = 4 * runes.length) →
      wp (BuildTermFromRunesOptimistic.loop1 xs_ buf runes rv used)
        (fun st => st.2.2.2.toNat ≤ st.2.2.1.length ∧ st.2.2.1.length < 2 ^ 63) := by
  intro xs_
  induction xs_ with
  | nil =>
    intro buf rv used _ h2 h3 _
    unfold BuildTermFromRunesOptimistic.loop1
    exact ⟨h2, h3⟩
  | cons r rest ih =>
    intro buf rv used h1 h2 h3 hv
    have hr : ValidRune r ∨ rv.length = 4 * runes.length := by
      cases hv with
      | inl h => exact .inl (h r List.mem_cons_self)
      | inr h => exact .inr h
    have hrest : ∀ rv' : List (BitVec 8), rv'.length = rv.length ∨ rv'.length = 4 * runes.length →
        ((∀ r ∈ rest, ValidRune r) ∨ rv'.length = 4 * runes.length) := by
      intro rv' h'
      cases hv with
      | inl h => exact .inl (fun x hx => h x (List.mem_cons_of_mem _ hx))
      | inr h => exact .inr (by omega)
    simp only [List.length_cons] at h1
    unfold BuildTermFromRunesOptimistic.loop1
    wp_go
    all_goals first
      | (refine ih _ _ _ ?_ ?_ ?_ (hrest _ ?_) <;> (cases hr <;> bv_len))
      | (cases hr <;> bv_len)

theorem BuildTermFromRunesOptimistic_spec (buf : List (BitVec 8)) (runes : List (BitVec 32))
    (hN : runes.length < 2 ^ 61) (hb : buf.length < 2 ^ 63)
    (hv : (∀ r ∈ runes, ValidRune r) ∨ buf.length = 4 * runes.length) :
    wp (BuildTermFromRunesOptimistic buf runes) (fun _ => True) := by
  unfold BuildTermFromRunesOptimistic
  refine wp_bind_cut (btfro_loop runes hN runes buf buf 0#64 (by simp) (by simp) hb hv) ?_
  rintro ⟨b, rs, rv, used⟩ ⟨h1, h2⟩
  dsimp only at h1 h2 ⊢
  wp_go
  all_goals bv_len

/-- `BuildTermFromRunes` never panics, whatever the runes (also negative ones, surrogates, runes beyond U+10FFFF) -/
theorem BuildTermFromRunes_spec (runes : List (BitVec 32)) (hN : runes.length < 2 ^ 61) :
    wp (BuildTermFromRunes runes) (fun _ => True) := by
  unfold BuildTermFromRunes
  refine wp_bind_makeSlice ?_ (fun ys hys => ?_)
  · bv_len
  · refine BuildTermFromRunesOptimistic_spec ys runes hN ?_ (.inr ?_) <;> bv_len

theorem BuildTermFromRunes_bind {β : Type} {runes : List (BitVec 32)} {f : List (BitVec 8) → Res β} {Q : β → Prop}
    (h : runes.length < 2 ^ 61) (hk : ∀ o, wp (f o) Q) : wp (BuildTermFromRunes runes >>= f) Q :=
  wp_bind_cut (BuildTermFromRunes_spec runes h) (fun o _ => hk o)

macro_rules | `(tactic| wp_call) => `(tactic| with_reducible refine BuildTermFromRunes_bind ?_ (fun _ => ?_))

theorem BuildTermFromRunes_tail {runes : List (BitVec 32)} {Q : List (BitVec 8) → Prop}
    (h : runes.length < 2 ^ 61) (hk : ∀ o, Q o) : wp (BuildTermFromRunes runes) Q :=
  wp_mono (BuildTermFromRunes_spec runes h) (fun o _ => hk o)

macro_rules | `(tactic| wp_call) => `(tactic| with_reducible refine BuildTermFromRunes_tail ?_ (fun _ => ?_))

/-! ## TruncateRunes -/

/-- `TruncateRunes(input, num)` is safe exactly on its domain `0 ≤ num ≤ number of runes` -/
theorem TruncateRunes_spec (input : List (BitVec 8)) (num : BitVec 64) (h : input.length < 2 ^ 61)
    (hn : num.toNat ≤ (GoStd.runes input).length) : wp (TruncateRunes input num) (fun _ => True) := by
  have hr := runes_length_le input
  unfold TruncateRunes
  wp_go
  all_goals bv_len

theorem TruncateRunes_tail {input : List (BitVec 8)} {num : BitVec 64} {Q : List (BitVec 8) → Prop}
    (h : input.length < 2 ^ 61 ∧ num.toNat ≤ (GoStd.runes input).length) (hk : ∀ o, Q o) :
    wp (TruncateRunes input num) Q :=
  wp_mono (TruncateRunes_spec input num h.1 h.2) (fun o _ => hk o)

theorem TruncateRunes_bind {β : Type} {input : List (BitVec 8)} {num : BitVec 64} {f : List (BitVec 8) → Res β} {Q : β → Prop}
    (h : input.length < 2 ^ 61 ∧ num.toNat ≤ (GoStd.runes input).length) (hk : ∀ o, wp (f o) Q) :
    wp (TruncateRunes input num >>= f) Q :=
  wp_bind_cut (TruncateRunes_spec input num h.1 h.2) (fun o _ => hk o)

macro_rules | `(tactic| wp_call) => `(tactic| with_reducible refine TruncateRunes_tail ?_ (fun _ => ?_))
macro_rules | `(tactic| wp_call) => `(tactic| with_reducible refine TruncateRunes_bind ?_ (fun _ => ?_))

/-! ## RunesEndsWith -/

theorem RunesEndsWith_loop (input : List (BitVec 32)) (suffix : List (BitVec 8)) (suffixRunes : List (BitVec 32))
    (hi : input.length < 2 ^ 63) (hs : suffixRunes.length < 2 ^ 63) (hle : suffixRunes.length ≤ input.length) :
    ∀ (fuel : Nat) (i : BitVec 64), (i + 1#64).toNat < fuel → (i + 1#64).toNat ≤ suffixRunes.length →
      wp (RunesEndsWith.loop1 fuel input suffix (Go.len input) suffixRunes (Go.len suffixRunes) i) (fun _ => True) := by
  intro fuel
  induction fuel with
  | zero => intro i h; omega
  | succ fuel ih =>
    intro i hf hb
    unfold RunesEndsWith.loop1
    wp_go
    all_goals first
      | (refine ih _ ?_ ?_ <;> bv_len)
      | bv_len
      | trivial

theorem RunesEndsWith_spec (input : List (BitVec 32)) (suffix : List (BitVec 8)) (hi : input.length < 2 ^ 63)
    (hs : suffix.length < 2 ^ 63) : wp (RunesEndsWith input suffix) (fun _ => True) := by
  have hr := runes_length_le suffix
  unfold RunesEndsWith
  dsimp only
  refine wp_ite (fun _ => trivial) (fun hlt => ?_)
  refine wp_bind_cut (RunesEndsWith_loop input suffix (GoStd.runes suffix) hi (by omega) ?_ _ _ ?_ ?_) ?_
  · bv_len
  · bv_len
  · bv_len
  · rintro ⟨ret, _⟩ _
    cases ret <;> trivial

theorem RunesEndsWith_tail {input : List (BitVec 32)} {suffix : List (BitVec 8)} {Q : Bool → Prop}
    (h : input.length < 2 ^ 63 ∧ suffix.length < 2 ^ 63) (hk : ∀ o, Q o) : wp (RunesEndsWith input suffix) Q :=
  wp_mono (RunesEndsWith_spec input suffix h.1 h.2) (fun o _ => hk o)

theorem RunesEndsWith_bind {β : Type} {input : List (BitVec 32)} {suffix : List (BitVec 8)} {f : Bool → Res β} {Q : β → Prop}
    (h : input.length < 2 ^ 63 ∧ suffix.length < 2 ^ 63) (hk : ∀ o, wp (f o) Q) : wp (RunesEndsWith input suffix >>= f) Q :=
  wp_bind_cut (RunesEndsWith_spec input suffix h.1 h.2) (fun o _ => hk o)

macro_rules | `(tactic| wp_call) => `(tactic| with_reducible refine RunesEndsWith_tail ?_ (fun _ => ?_))
macro_rules | `(tactic| wp_call) => `(tactic| with_reducible refine RunesEndsWith_bind ?_ (fun _ => ?_))

end Bluge.C18.Stem

import Bluge.Analysis
import BlugeProofs.C18.Filters
/-! Lemmas for C18: the reverse filter (after the fix): term-only, and it never panics. -/
namespace Bluge.C18
open Bluge.Analysis

theorem markWidth_le (isMark : Rune → Bool) : ∀ (n : Nat) (p : Bytes), p.length = n → markWidth isMark p ≤ p.length := by
  intro n
  induction n using Nat.strongRecOn with
  | _ n ih =>
    intro p hn
    rw [markWidth]
    split
    · omega
    · next hne =>
      split
      · have hpos := decodeRune_size_pos p hne
        have hle := decodeRune_size_le p
        have := ih (p.drop (decodeRune p).2).length (by simp only [List.length_drop]; omega) _ rfl
        simp only [List.length_drop] at this
        omega
      · omega

theorem stepWidth_le (isMark : Rune → Bool) (rest : Bytes) : stepWidth isMark rest ≤ rest.length := by
  unfold stepWidth
  have hle := decodeRune_size_le rest
  have := markWidth_le isMark _ (rest.drop (decodeRune rest).2) rfl
  simp only [List.length_drop] at this
  omega

theorem reverseLoop_total (isMark : Rune → Bool) (s : Bytes) :
    ∀ (n : Nat) (cursorIn : Nat) (cursorOut : Int) (out : Bytes), s.length - cursorIn = n → cursorIn ≤ s.length →
      cursorOut = (s.length : Int) - cursorIn → ∃ o, reverseLoop isMark s cursorIn cursorOut out = some o := by
  intro n
  induction n using Nat.strongRecOn with
  | _ n ih =>
    intro cursorIn cursorOut out hn hle hout
    rw [reverseLoop]
    split
    · next hlt =>
      have hne : s.drop cursorIn ≠ [] := by
        intro h; have := congrArg List.length h; simp only [List.length_drop, List.length_nil] at this; omega
      have hpos := stepWidth_pos isMark (s.drop cursorIn) hne
      have hw := stepWidth_le isMark (s.drop cursorIn)
      simp only [List.length_drop] at hw
      dsimp only
      have hc : ¬ (cursorOut - ((stepWidth isMark (s.drop cursorIn) : Nat) : Int) < 0) := by omega
      rw [if_neg hc]
      obtain ⟨piece, hp⟩ := goSlice_some (s := s) (lo := (cursorIn : Int))
        (hi := (cursorIn : Int) + ((stepWidth isMark (s.drop cursorIn) : Nat) : Int)) ⟨by omega, by omega, by omega⟩
      rw [hp]
      exact ih (s.length - (cursorIn + stepWidth isMark (s.drop cursorIn))) (by omega) _ _ _ rfl (by omega) (by push_cast; omega)
    · exact ⟨_, rfl⟩

/-- FULL strength (after the fix): every term is reversed without a slice panic -/
theorem reverseTerm_total (isMark : Rune → Bool) (s : Bytes) : ∃ o, reverseTerm isMark s = some o := by
  unfold reverseTerm
  exact reverseLoop_total isMark s _ 0 s.length [] rfl (Nat.zero_le _) (by simp)

theorem reverseFilter_total' (isMark : Rune → Bool) (input : List Token) : ∃ out, reverseFilter isMark input = some out := by
  unfold reverseFilter
  apply exists_map_some
  apply loop_some
  intro token _ rv
  obtain ⟨o, ho⟩ := reverseTerm_total isMark token.term
  rw [ho]
  exact ⟨_, rfl⟩

theorem reverseFilter_valid' (isMark : Rune → Bool) (len : Int) (input out : List Token) (hv : Valid len input)
    (h : reverseFilter isMark input = some out) : Valid len out := by
  simp only [reverseFilter, Option.map_eq_some_iff] at h
  obtain ⟨rv, hloop, rfl⟩ := h
  have key := loop_tokens_ok (len := len) (Q := fun t => t.ok len) ?_ input rv hv hloop
  · intro t ht
    exact key t (List.mem_reverse.mp ht)
  intro token rv rv' htok hrv hb
  split at hb
  · contradiction
  · injection hb with hb
    subst hb; exact cons_ok hrv _ (ok_with_term htok _)

end Bluge.C18

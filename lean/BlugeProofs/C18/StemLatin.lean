import BlugeProofs.C18.StemUtil
/-! No-panic specifications of the translated Latin-script stemmers and normalisers: German (normalize, light),
Spanish, Italian, French minimal. (Portuguese and French light: `StemLatin2`.) -/
namespace Bluge.C18.Stem
open Bluge Bluge.Go BlugeGen.C18S

/-- finish the goals `wp_go` leaves in a loop body: the recursive call (by the induction hypothesis `ih`,
whose hypotheses are bounds checks) or a bounds check -/
syntax "wp_loop_finish " term : tactic
macro_rules
  | `(tactic| wp_loop_finish $ih) => `(tactic| all_goals first
      | bv_len
      | (refine wp_mono ($ih) (fun _ _ => ?_) <;> bv_len)
      | trivial)

/-! ## German light stemmer -/

theorem de_step1_spec (s : List (BitVec 32)) (h : s.length < 2 ^ 63) :
    wp (de_step1 s) (fun r => r.length ≤ s.length) := by
  unfold de_step1
  wp_go
  all_goals bv_len

theorem de_step2_spec (s : List (BitVec 32)) (h : s.length < 2 ^ 63) :
    wp (de_step2 s) (fun r => r.length ≤ s.length) := by
  unfold de_step2
  wp_go
  all_goals bv_len

theorem de_stem_loop : ∀ (xs_ : List (BitVec 32)) (i : BitVec 64) (input : List (BitVec 32)),
    i.toNat + xs_.length = input.length → input.length < 2 ^ 63 →
    wp (de_stem.loop1 xs_ i input) (fun r => r.length = input.length) := by
  intro xs_
  induction xs_ with
  | nil => intro i input _ _; unfold de_stem.loop1; rfl
  | cons r rest ih =>
    intro i input h1 h2
    simp only [List.length_cons] at h1
    unfold de_stem.loop1
    wp_go
    wp_loop_finish (ih _ _ ?_ ?_)

theorem de_stem_spec (input : List (BitVec 32)) (h : input.length < 2 ^ 63) :
    wp (de_stem input) (fun r => r.length ≤ input.length) := by
  unfold de_stem
  refine wp_bind_cut (de_stem_loop input 0#64 input (by simp) h) (fun a ha => ?_)
  refine wp_bind_cut (de_step1_spec a (by omega)) (fun b hb => ?_)
  exact wp_mono (de_step2_spec b (by omega)) (fun c hc => by omega)

/-! ## Spanish light stemmer -/

theorem es_stem_loop : ∀ (xs_ : List (BitVec 32)) (i : BitVec 64) (input : List (BitVec 32)) (l : BitVec 64),
    i.toNat + xs_.length = input.length → input.length < 2 ^ 63 →
    wp (es_stem.loop1 xs_ i input l) (fun r => r.1.length = input.length ∧ r.2 = l) := by
  intro xs_
  induction xs_ with
  | nil => intro i input l _ _; unfold es_stem.loop1; exact ⟨rfl, rfl⟩
  | cons r rest ih =>
    intro i input l h1 h2
    simp only [List.length_cons] at h1
    unfold es_stem.loop1
    wp_go
    all_goals first
      | bv_len
      | (refine wp_mono (ih _ _ _ ?_ ?_) (fun _ hr => ⟨?_, hr.2⟩) <;> (try have := hr.1) <;> bv_len)

theorem es_stem_spec (input : List (BitVec 32)) (h : input.length < 2 ^ 63) :
    wp (es_stem input) (fun r => r.length ≤ input.length) := by
  unfold es_stem
  dsimp only
  refine wp_ite (fun _ => Nat.le_refl _) (fun hl => ?_)
  refine wp_bind_cut (es_stem_loop input 0#64 input _ (by simp) h) ?_
  rintro ⟨a, l⟩ ⟨ha, hl'⟩
  dsimp only at ha hl' ⊢
  subst hl'
  wp_go
  all_goals bv_len

/-! ## Italian light stemmer -/

theorem it_stem_loop (L : Nat) (hL : L < 2 ^ 63) (inputLen : BitVec 64) (hIL : inputLen.toNat ≤ L) :
    ∀ (fuel : Nat) (input : List (BitVec 32)) (i : BitVec 64), input.length = L → i.toNat ≤ inputLen.toNat →
    inputLen.toNat - i.toNat < fuel →
    wp (it_stem.loop1 fuel input inputLen i) (fun r => r.1.length = L ∧ r.2.1 = inputLen) := by
  intro fuel
  induction fuel with
  | zero => intro _ _ _ _ h; omega
  | succ fuel ih =>
    intro input i h1 h2 h3
    unfold it_stem.loop1
    wp_go
    all_goals first
      | bv_len
      | exact ⟨h1, rfl⟩
      | (refine ih _ _ ?_ ?_ ?_ <;> bv_len)

theorem it_stem_spec (input : List (BitVec 32)) (h : input.length < 2 ^ 63) :
    wp (it_stem input) (fun r => r.length ≤ input.length) := by
  unfold it_stem
  dsimp only
  refine wp_ite (fun _ => Nat.le_refl _) (fun hl => ?_)
  refine wp_bind_cut (it_stem_loop input.length h (Go.len input) (by bv_len) (input.length + 1) input 0#64 rfl (by simp) (by bv_len)) ?_
  rintro ⟨a, l, i⟩ ⟨ha, hl'⟩
  dsimp only at ha hl' ⊢
  subst hl'
  wp_go
  all_goals bv_len

/-! ## French minimal stemmer -/

theorem fr_minstem_spec (input : List (BitVec 32)) (h : input.length < 2 ^ 63) :
    wp (fr_minstem input) (fun r => r.length ≤ input.length) := by
  unfold fr_minstem
  wp_go_merge
  all_goals bv_len

end Bluge.C18.Stem

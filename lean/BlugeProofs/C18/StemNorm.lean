import BlugeProofs.C18.StemUtil
/-! No-panic specifications of the translated normalisers: German, Arabic, Persian, Hindi, Sorani.

All five are `for i := 0; i < len(runes); i++ { switch runes[i] { … } }` with arms that overwrite `runes[i]`, delete a
rune (`DeleteRune(runes, i); i--`, Hindi also `DeleteRune(runes, i+1)`) or insert one (German `ß` → `ss`). The
invariant at the loop head is `0 ≤ i ≤ len(runes)` and `2·len(runes) − i ≤ B` (an insertion advances `i` by two,
so the slice at most doubles); the measure `len(runes) − i` drops on every iteration, which bounds the fuel. -/
namespace Bluge.C18.Stem
open Bluge Bluge.Go BlugeGen.C18S

theorem de_normalize_loop (B : Nat) (hB : B < 2 ^ 62) :
    ∀ (fuel : Nat) (input : List (BitVec 8)) (state : BitVec 64) (runes : List (BitVec 32)) (i : BitVec 64),
      i.toNat ≤ runes.length → 2 * runes.length - i.toNat ≤ B → runes.length - i.toNat < fuel →
      wp (de_normalize.loop1 fuel input state runes i) (fun r => r.2.2.1.length ≤ B) := by
  intro fuel
  induction fuel with
  | zero => intro _ _ _ _ _ _ h; omega
  | succ fuel ih =>
    intro input state runes i h1 h2 h3
    unfold de_normalize.loop1
    wp_go
    all_goals first
      | bv_len
      | (refine ih _ _ _ _ ?_ ?_ ?_ <;> bv_len)

theorem de_normalize_spec (input : List (BitVec 8)) (h : input.length < 2 ^ 60) :
    wp (de_normalize input) (fun _ => True) := by
  have hr := runes_length_le input
  unfold de_normalize
  dsimp only
  refine wp_bind_cut (de_normalize_loop (2 * (GoStd.runes input).length) (by omega) _ input 0#64 (GoStd.runes input) 0#64
    (by simp) (by simp) (by simp; omega)) ?_
  rintro ⟨a, st, rs, i⟩ hrs
  dsimp only at hrs ⊢
  wp_go
  all_goals bv_len

theorem ar_normalize_loop (B : Nat) (hB : B < 2 ^ 62) :
    ∀ (fuel : Nat) (input : List (BitVec 8)) (runes : List (BitVec 32)) (i : BitVec 64),
      i.toNat ≤ runes.length → 2 * runes.length - i.toNat ≤ B → runes.length - i.toNat < fuel →
      wp (ar_normalize.loop1 fuel input runes i) (fun r => r.2.1.length ≤ B) := by
  intro fuel
  induction fuel with
  | zero => intro _ _ _ _ _ h; omega
  | succ fuel ih =>
    intro input runes i h1 h2 h3
    unfold ar_normalize.loop1
    wp_go
    all_goals first
      | bv_len
      | (refine ih _ _ _ ?_ ?_ ?_ <;> bv_len)

theorem ar_normalize_spec (input : List (BitVec 8)) (h : input.length < 2 ^ 60) :
    wp (ar_normalize input) (fun _ => True) := by
  have hr := runes_length_le input
  unfold ar_normalize
  dsimp only
  refine wp_bind_cut (ar_normalize_loop (2 * (GoStd.runes input).length) (by omega) _ input (GoStd.runes input) 0#64
    (by simp) (by simp) (by simp; omega)) ?_
  rintro ⟨a, rs, i⟩ hrs
  dsimp only at hrs ⊢
  wp_go
  all_goals bv_len

theorem fa_normalize_loop (B : Nat) (hB : B < 2 ^ 62) :
    ∀ (fuel : Nat) (input : List (BitVec 8)) (runes : List (BitVec 32)) (i : BitVec 64),
      i.toNat ≤ runes.length → 2 * runes.length - i.toNat ≤ B → runes.length - i.toNat < fuel →
      wp (fa_normalize.loop1 fuel input runes i) (fun r => r.2.1.length ≤ B) := by
  intro fuel
  induction fuel with
  | zero => intro _ _ _ _ _ h; omega
  | succ fuel ih =>
    intro input runes i h1 h2 h3
    unfold fa_normalize.loop1
    wp_go
    all_goals first
      | bv_len
      | (refine ih _ _ _ ?_ ?_ ?_ <;> bv_len)

theorem fa_normalize_spec (input : List (BitVec 8)) (h : input.length < 2 ^ 60) :
    wp (fa_normalize input) (fun _ => True) := by
  have hr := runes_length_le input
  unfold fa_normalize
  dsimp only
  refine wp_bind_cut (fa_normalize_loop (2 * (GoStd.runes input).length) (by omega) _ input (GoStd.runes input) 0#64
    (by simp) (by simp) (by simp; omega)) ?_
  rintro ⟨a, rs, i⟩ hrs
  dsimp only at hrs ⊢
  wp_go
  all_goals bv_len

-- 45 switch arms, four bounds checks each: more elaboration work than the default budget, nothing slow in itself
set_option maxHeartbeats 1600000 in
theorem hi_normalize_loop (B : Nat) (hB : B < 2 ^ 62) :
    ∀ (fuel : Nat) (input : List (BitVec 8)) (runes : List (BitVec 32)) (i : BitVec 64),
      i.toNat ≤ runes.length → 2 * runes.length - i.toNat ≤ B → runes.length - i.toNat < fuel →
      wp (hi_normalize.loop1 fuel input runes i) (fun r => r.2.1.length ≤ B) := by
  intro fuel
  induction fuel with
  | zero => intro _ _ _ _ _ h; omega
  | succ fuel ih =>
    intro input runes i h1 h2 h3
    unfold hi_normalize.loop1
    wp_go
    all_goals first
      | bv_len
      | (refine ih _ _ _ ?_ ?_ ?_ <;> bv_len)

theorem hi_normalize_spec (input : List (BitVec 8)) (h : input.length < 2 ^ 60) :
    wp (hi_normalize input) (fun _ => True) := by
  have hr := runes_length_le input
  unfold hi_normalize
  dsimp only
  refine wp_bind_cut (hi_normalize_loop (2 * (GoStd.runes input).length) (by omega) _ input (GoStd.runes input) 0#64
    (by simp) (by simp) (by simp; omega)) ?_
  rintro ⟨a, rs, i⟩ hrs
  dsimp only at hrs ⊢
  wp_go
  all_goals bv_len

theorem ckb_normalize_loop (B : Nat) (hB : B < 2 ^ 62) :
    ∀ (fuel : Nat) (uc : GoStd.Unicode) (input : List (BitVec 8)) (runes : List (BitVec 32)) (i : BitVec 64),
      i.toNat ≤ runes.length → 2 * runes.length - i.toNat ≤ B → runes.length - i.toNat < fuel →
      wp (ckb_normalize.loop1 fuel uc input runes i) (fun r => r.2.2.1.length ≤ B) := by
  intro fuel
  induction fuel with
  | zero => intro _ _ _ _ _ _ h; omega
  | succ fuel ih =>
    intro uc input runes i h1 h2 h3
    unfold ckb_normalize.loop1
    wp_go
    all_goals first
      | bv_len
      | (refine ih _ _ _ _ ?_ ?_ ?_ <;> bv_len)

theorem ckb_normalize_spec (uc : GoStd.Unicode) (input : List (BitVec 8)) (h : input.length < 2 ^ 60) :
    wp (ckb_normalize uc input) (fun _ => True) := by
  have hr := runes_length_le input
  unfold ckb_normalize
  dsimp only
  refine wp_bind_cut (ckb_normalize_loop (2 * (GoStd.runes input).length) (by omega) _ uc input (GoStd.runes input) 0#64
    (by simp) (by simp) (by simp; omega)) ?_
  rintro ⟨u, a, rs, i⟩ hrs
  dsimp only at hrs ⊢
  wp_go
  all_goals bv_len

end Bluge.C18.Stem

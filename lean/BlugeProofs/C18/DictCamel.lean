import Bluge.Analysis
import BlugeProofs.C18.Filters
/-! Lemmas for C18: dictionary compound and camel case filters — their offsets are computed from the
*term* (rune indices, re-encoded byte lengths), so they stay inside the text only when the term still
fits the span of its token. -/
namespace Bluge.C18
open Bluge.Analysis

/-! ### dictionary compound -/

theorem dictDecompose_ok (dict : List Bytes) (minSub maxSub : Int) (longest : Bool) (len : Int) (token : Token)
    (new : List Token) (htok : token.ok len) (hfit : FitsRunes token)
    (h : dictDecompose dict minSub maxSub longest token = some new) : ∀ t ∈ new, t.ok len := by
  simp only [dictDecompose, Option.map_eq_some_iff] at h
  obtain ⟨rv, hloop, rfl⟩ := h
  have key := loop_inv_simple (fun (rv : List Token) => ∀ t ∈ rv, t.ok len) ?_ _ _ _ (by simp) hloop
  · intro t ht; exact key t (List.mem_reverse.mp ht)
  intro i rv rv' hrv hb
  simp only [Option.map_eq_some_iff] at hb
  obtain ⟨st, hl, rfl⟩ := hb
  have inner := loop_inv_simple
    (fun (st : Bool × Option Token × List Token) => (∀ l, st.2.1 = some l → l.ok len) ∧ ∀ t ∈ st.2.2, t.ok len) ?_ _ _ _
    ⟨by simp, hrv⟩ hl
  · -- after the inner loop
    split
    · next hlm => exact cons_ok inner.2 _ (inner.1 _ hlm)
    · exact inner.2
  intro j st st' hst hb2
  obtain ⟨hl1, hl2⟩ := hst
  split at hb2
  · injection hb2 with hb2; subst hb2; exact ⟨hl1, hl2⟩
  · split at hb2
    · injection hb2 with hb2; subst hb2; exact ⟨hl1, hl2⟩
    · split at hb2
      · contradiction
      · next sl hsl =>
        have hbnd := goSlice_bounds hsl
        have hnew : Token.ok len (Token.mk (buildTerm sl) (token.start + i) (token.start + i + j) 0 token.typ token.kw) := by
          unfold Token.ok FitsRunes at *
          simp only
          omega
        split at hb2
        · split at hb2
          · split at hb2
            · injection hb2 with hb2; subst hb2
              refine ⟨?_, hl2⟩
              intro l hl; simp only [Option.some.injEq] at hl; subst hl; exact hnew
            · split at hb2
              · injection hb2 with hb2; subst hb2
                refine ⟨?_, hl2⟩
                intro l hl; simp only [Option.some.injEq] at hl; subst hl; exact hnew
              · injection hb2 with hb2; subst hb2; exact ⟨hl1, hl2⟩
          · injection hb2 with hb2; subst hb2
            exact ⟨hl1, cons_ok hl2 _ hnew⟩
        · injection hb2 with hb2; subst hb2; exact ⟨hl1, hl2⟩

theorem dictFilter_valid' (dict : List Bytes) (minWord minSub maxSub : Int) (longest : Bool) (len : Int)
    (input out : List Token) (hv : Valid len input) (hfit : ∀ t ∈ input, FitsRunes t)
    (h : dictFilter dict minWord minSub maxSub longest input = some out) : Valid len out := by
  simp only [dictFilter, Option.map_eq_some_iff] at h
  obtain ⟨rv, hloop, rfl⟩ := h
  have key := loop_tokens_ok (len := len) (Q := fun t => t.ok len ∧ FitsRunes t) ?_ input rv
    (fun t ht => ⟨hv t ht, hfit t ht⟩) hloop
  · intro t ht; exact key t (List.mem_reverse.mp ht)
  intro token rv rv' hq hrv hb
  split at hb
  · split at hb
    · contradiction
    · next new hnew =>
      injection hb with hb; subst hb
      have hn := dictDecompose_ok dict minSub maxSub longest len token new hq.1 hq.2 hnew
      intro t ht
      simp only [List.mem_append, List.mem_reverse, List.mem_cons] at ht
      rcases ht with ht | rfl | ht
      · exact hn t ht
      · exact hq.1
      · exact hrv t ht
  · injection hb with hb; subst hb
    exact cons_ok hrv _ hq.1

theorem dictFilter_total' (dict : List Bytes) (minWord minSub maxSub : Int) (hmin : 0 ≤ minSub) (longest : Bool)
    (input : List Token) : ∃ out, dictFilter dict minWord minSub maxSub longest input = some out := by
  unfold dictFilter
  apply exists_map_some
  apply loop_some
  intro token _ rv
  have hd : ∃ new, dictDecompose dict minSub maxSub longest token = some new := by
    unfold dictDecompose
    apply exists_map_some
    apply loop_some
    intro i hi rv
    apply exists_map_some
    apply loop_some
    intro j hj st
    have hi' := mem_intRange.mp hi
    have hj' := mem_intRange.mp hj
    split
    · exact ⟨_, rfl⟩
    · split
      · exact ⟨_, rfl⟩
      · next hc =>
        obtain ⟨sl, hsl⟩ := goSlice_some (s := runes token.term) (lo := i) (hi := i + j) ⟨by omega, by omega, by omega⟩
        rw [hsl]
        dsimp only
        split
        · split
          · split
            · exact ⟨_, rfl⟩
            · split <;> exact ⟨_, rfl⟩
          · exact ⟨_, rfl⟩
        · exact ⟨_, rfl⟩
  obtain ⟨new, hnew⟩ := hd
  split
  · rw [hnew]; exact ⟨_, rfl⟩
  · exact ⟨_, rfl⟩

/-! ### camel case -/

theorem buildTerm_nil : buildTerm [] = [] := rfl
theorem buildTerm_cons (r : Rune) (rs : List Rune) : buildTerm (r :: rs) = encodeRune r ++ buildTerm rs := by
  simp [buildTerm]
theorem buildTerm_append (a b : List Rune) : buildTerm (a ++ b) = buildTerm a ++ buildTerm b := by
  simp [buildTerm]

/-- parser invariant while the runes `rest` are still to be pushed -/
def CamInv (token : Token) (len : Int) (rest : List Rune) (p : Parser) : Prop :=
  token.start ≤ p.index ∧
  p.index + ((buildTerm p.buffer.reverse).length : Int) + ((buildTerm rest).length : Int) ≤ token.stop ∧
  ∀ t ∈ p.tokens, t.ok len

theorem build_tokens_ok (token : Token) (len : Int) (htok : token.ok len) (rest : List Rune) (p : Parser)
    (h : CamInv token len rest p) : ∀ t ∈ p.build.tokens, t.ok len := by
  obtain ⟨h1, h2, h3⟩ := h
  unfold Parser.build
  apply cons_ok h3
  unfold Token.ok at *
  simp only
  omega

theorem push_inv (cls : Rune → Nat) (token : Token) (len : Int) (htok : token.ok len) (sym : Rune) (rest : List Rune)
    (peek : Option Rune) (p : Parser) (h : CamInv token len (sym :: rest) p) : CamInv token len rest (p.push cls sym peek) := by
  have hb := build_tokens_ok token len htok _ p h
  obtain ⟨h1, h2, h3⟩ := h
  rw [buildTerm_cons, List.length_append] at h2
  have grow : ((buildTerm (sym :: p.buffer).reverse).length : Int) =
      ((buildTerm p.buffer.reverse).length : Int) + ((encodeRune sym).length : Int) := by
    rw [List.reverse_cons, buildTerm_append, List.length_append, buildTerm_cons, buildTerm_nil]
    simp
  unfold Parser.push
  split
  · refine ⟨h1, ?_, h3⟩
    simp only [grow]; omega
  · dsimp only
    split
    · refine ⟨h1, ?_, h3⟩
      simp only [grow]; omega
    · refine ⟨?_, ?_, hb⟩
      · simp only [Parser.build]; omega
      · simp only [Parser.build, List.reverse_cons, List.reverse_nil, List.nil_append, buildTerm_cons, buildTerm_nil,
          List.append_nil]
        omega

theorem camelPushAll_inv (cls : Rune → Nat) (token : Token) (len : Int) (htok : token.ok len) :
    ∀ (rs : List Rune) (p : Parser), CamInv token len rs p → CamInv token len [] (camelPushAll cls p rs) := by
  intro rs
  induction rs with
  | nil => intro p h; simpa [camelPushAll] using h
  | cons r rest ih =>
    intro p h
    cases rest with
    | nil =>
      simp only [camelPushAll]
      exact push_inv cls token len htok r [] none p h
    | cons r2 rest2 =>
      simp only [camelPushAll]
      exact ih _ (push_inv cls token len htok r (r2 :: rest2) (some r2) p h)

theorem camelToken_ok (cls : Rune → Nat) (len : Int) (token : Token) (htok : token.ok len) (hfit : FitsBytes token) :
    ∀ t ∈ camelToken cls token, t.ok len := by
  unfold camelToken
  have h0 : CamInv token len (runes token.term) { buffer := [], current := none, tokens := [], index := token.start } := by
    refine ⟨Int.le_refl _, ?_, by simp⟩
    unfold FitsBytes at hfit
    simp only [List.reverse_nil, buildTerm_nil, List.length_nil]
    omega
  have h1 := camelPushAll_inv cls token len htok _ _ h0
  have h2 := build_tokens_ok token len htok [] _ h1
  intro t ht
  exact h2 t (List.mem_reverse.mp ht)

theorem camelCaseFilter_valid' (cls : Rune → Nat) (len : Int) (input : List Token) (hv : Valid len input)
    (hfit : ∀ t ∈ input, FitsBytes t) : Valid len (camelCaseFilter cls input) := by
  intro t ht
  simp only [camelCaseFilter, List.mem_flatMap] at ht
  obtain ⟨token, hmem, ht⟩ := ht
  exact camelToken_ok cls len token (hv token hmem) (hfit token hmem) t ht

end Bluge.C18

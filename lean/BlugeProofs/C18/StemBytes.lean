import BlugeProofs.C18.StemRunes
/-! No-panic specifications of the translated stemmers that work on the term bytes: Hindi, Sorani, Arabic. -/
namespace Bluge.C18.Stem
open Bluge Bluge.Go BlugeGen.C18S

/-! ## Hindi stemmer: `inputLen > k && HasSuffix(…) → TruncateRunes(input, k)` -/

theorem hi_stem_spec (input : List (BitVec 8)) (h : input.length < 2 ^ 61) : wp (hi_stem input) (fun _ => True) := by
  have hr := runes_length_le input
  unfold hi_stem
  wp_go
  all_goals bv_len

/-! ## Sorani stemmer -/

/-- `ckb.buildTermFromRunes`: `make([]byte, utf8.RuneLen(r))` panics for a rune `RuneLen` rejects (length −1); the
runes of a byte string are never such runes -/
theorem ckb_buildTerm_loop : ∀ (xs_ : List (BitVec 32)) (runes : List (BitVec 32)) (rv : List (BitVec 8)),
    (∀ r ∈ xs_, ValidRune r) →
    wp (ckb_buildTermFromRunes.loop1 xs_ runes rv) (fun o => o.2.length ≤ rv.length + 4 * xs_.length) := by
  intro xs_
  induction xs_ with
  | nil => intro _ _ _; unfold ckb_buildTermFromRunes.loop1; exact Nat.le_refl _
  | cons r rest ih =>
    intro runes rv hv
    have hr : ValidRune r := hv r List.mem_cons_self
    have hrest : ∀ x ∈ rest, ValidRune x := fun x hx => hv x (List.mem_cons_of_mem _ hx)
    have hl := encodeRune_length r
    have he := runeLen_eq_of_valid r hr
    unfold ckb_buildTermFromRunes.loop1
    wp_go
    all_goals first
      | (refine wp_mono (ih _ _ hrest) (fun _ _ => ?_) <;> bv_len)
      | bv_len

theorem ckb_buildTermFromRunes_spec (runes : List (BitVec 32)) (hv : ∀ r ∈ runes, ValidRune r) :
    wp (ckb_buildTermFromRunes runes) (fun o => o.length ≤ 4 * runes.length) := by
  unfold ckb_buildTermFromRunes
  refine wp_bind_makeSlice (by decide) (fun ys hys => ?_)
  refine wp_bind_cut (ckb_buildTerm_loop runes runes ys hv) ?_
  rintro ⟨a, o⟩ ho
  simp at hys
  simp only [hys, List.length_nil] at ho
  exact (by simpa using ho : o.length ≤ 4 * runes.length)

theorem mem_slice_of_mem {α : Type} {xs ys : List α} {a b : Nat} (h : ys = (xs.take b).drop a) :
    ∀ x ∈ ys, x ∈ xs := by
  intro x hx
  rw [h] at hx
  exact List.mem_of_mem_take (List.mem_of_mem_drop hx)

theorem ckb_truncateRunes_spec (input : List (BitVec 8)) (num : BitVec 64) (h : input.length < 2 ^ 63)
    (hn : num.toNat ≤ (GoStd.runes input).length) :
    wp (ckb_truncateRunes input num) (fun o => o.length ≤ 4 * input.length) := by
  have hr := runes_length_le input
  have hlen : (Go.len (GoStd.runes input)).toNat = (GoStd.runes input).length := len_toNat _ (by omega)
  unfold ckb_truncateRunes
  dsimp only
  have hb : (0#64).toNat ≤ (Go.len (GoStd.runes input) - num).toNat ∧
      (Go.len (GoStd.runes input) - num).toNat ≤ (GoStd.runes input).length := by
    constructor
    · simp
    · rw [BitVec.toNat_sub_of_le (by rw [BitVec.le_def, hlen]; exact hn), hlen]; omega
  unfold Go.slice
  rw [if_pos hb]
  simp only [Res.ok_bind]
  refine wp_bind_cut (ckb_buildTermFromRunes_spec _ ?_) (fun o ho => ?_)
  · intro r hr'
    exact runes_valid input r (mem_slice_of_mem rfl r hr')
  · simp only [List.length_drop, List.length_take] at ho
    show o.length ≤ 4 * input.length
    omega

theorem ckb_truncateRunes_bind {β : Type} {input : List (BitVec 8)} {num : BitVec 64} {f : List (BitVec 8) → Res β} {Q : β → Prop}
    (h : input.length < 2 ^ 63 ∧ num.toNat ≤ (GoStd.runes input).length) (hk : ∀ o : List (BitVec 8), o.length ≤ 4 * input.length → wp (f o) Q) :
    wp (ckb_truncateRunes input num >>= f) Q :=
  wp_bind_cut (ckb_truncateRunes_spec input num h.1 h.2) hk

theorem ckb_truncateRunes_tail {input : List (BitVec 8)} {num : BitVec 64} {Q : List (BitVec 8) → Prop}
    (h : input.length < 2 ^ 63 ∧ num.toNat ≤ (GoStd.runes input).length) (hk : ∀ o, Q o) :
    wp (ckb_truncateRunes input num) Q :=
  wp_mono (ckb_truncateRunes_spec input num h.1 h.2) (fun o _ => hk o)

macro_rules | `(tactic| wp_call) => `(tactic| with_reducible refine ckb_truncateRunes_tail ?_ (fun _ => ?_))
macro_rules | `(tactic| wp_call) => `(tactic| with_reducible refine ckb_truncateRunes_bind ?_ (fun _ _ => ?_))

/-- the two "strip one affix, recount" statements are summarised by: the term grew at most fourfold (an invalid
byte is re-encoded as U+FFFD) and `inputLen` is again its rune count; the 21 suffix rules that follow are then
proved once -/
theorem ckb_stem_spec (input : List (BitVec 8)) (h : input.length < 2 ^ 55) : wp (ckb_stem input) (fun _ => True) := by
  have hr0 := runes_length_le input
  unfold ckb_stem
  dsimp only
  refine wp_bind_cut (P := fun r => r.1.length ≤ 4 * input.length ∧ r.2 = GoStd.runeCount r.1) ?_ ?_
  · wp_go
    all_goals first
      | exact ⟨by omega, rfl⟩
      | (refine ⟨?_, rfl⟩; bv_len)
      | bv_len
  · rintro ⟨in1, len1⟩ ⟨h1, h2⟩
    dsimp only at h1 h2
    subst h2
    have hr1 := runes_length_le in1
    dsimp only
    refine wp_bind_cut (P := fun r => r.1.length ≤ 16 * input.length ∧ r.2 = GoStd.runeCount r.1) ?_ ?_
    · wp_go
      all_goals first
        | exact ⟨by omega, rfl⟩
        | (refine ⟨?_, rfl⟩; bv_len)
        | bv_len
    · rintro ⟨in2, len2⟩ ⟨h3, h4⟩
      dsimp only at h3 h4
      subst h4
      have hr2 := runes_length_le in2
      dsimp only
      wp_go
      all_goals first
        | trivial
        | bv_len

/-! ## Arabic stemmer -/

theorem ar_canStemPrefix_loop (input prefix_ : List (BitVec 32)) (hp : prefix_.length ≤ input.length)
    (hi : input.length < 2 ^ 63) :
    ∀ (xs_ : List (BitVec 32)) (i : BitVec 64), i.toNat + xs_.length = prefix_.length →
      wp (ar_canStemPrefix.loop1 xs_ i input prefix_) (fun r => ∀ v, r.1 = some v → v = false) := by
  intro xs_
  induction xs_ with
  | nil => intro i _; unfold ar_canStemPrefix.loop1; intro v hv; cases hv
  | cons x rest ih =>
    intro i h1
    simp only [List.length_cons] at h1
    unfold ar_canStemPrefix.loop1
    wp_go
    all_goals first
      | (intro v hv; injection hv with hv; exact hv.symm)
      | (refine ih _ ?_; bv_len)
      | bv_len

/-- `canStemPrefix(input, prefix)` only answers true when at least two runes remain behind the prefix -/
theorem ar_canStemPrefix_spec (input prefix_ : List (BitVec 32)) (hi : input.length < 2 ^ 63) (hp : prefix_.length < 2 ^ 63) :
    wp (ar_canStemPrefix input prefix_) (fun b => b = true → prefix_.length + 2 ≤ input.length) := by
  unfold ar_canStemPrefix
  refine wp_ite (fun _ => by intro hb; cases hb) (fun _ => ?_)
  refine wp_ite (fun _ => by intro hb; cases hb) (fun hge => ?_)
  have hle : prefix_.length + 2 ≤ input.length := by bv_len
  refine wp_bind_cut (ar_canStemPrefix_loop input prefix_ (by omega) hi prefix_ 0#64 (by simp)) ?_
  rintro ⟨ret, a, b⟩ hret
  dsimp only at hret ⊢
  cases ret with
  | none => exact fun _ => hle
  | some v => intro hv; rw [hret v rfl] at hv; cases hv

theorem ar_canStemSuffix_loop (input suffix : List (BitVec 32)) (stemEnd : BitVec 64)
    (hs : stemEnd.toNat + suffix.length = input.length) (hi : input.length < 2 ^ 63) :
    ∀ (xs_ : List (BitVec 32)) (i : BitVec 64), i.toNat + xs_.length = suffix.length →
      wp (ar_canStemSuffix.loop1 xs_ i input suffix stemEnd) (fun r => ∀ v, r.1 = some v → v = false) := by
  intro xs_
  induction xs_ with
  | nil => intro i _; unfold ar_canStemSuffix.loop1; intro v hv; cases hv
  | cons x rest ih =>
    intro i h1
    simp only [List.length_cons] at h1
    unfold ar_canStemSuffix.loop1
    wp_go
    all_goals first
      | (intro v hv; injection hv with hv; exact hv.symm)
      | (refine ih _ ?_; bv_len)
      | bv_len

theorem ar_canStemSuffix_spec (input suffix : List (BitVec 32)) (hi : input.length < 2 ^ 63) (hp : suffix.length < 2 ^ 63) :
    wp (ar_canStemSuffix input suffix) (fun b => b = true → suffix.length + 2 ≤ input.length) := by
  unfold ar_canStemSuffix
  refine wp_ite (fun _ => by intro hb; cases hb) (fun hge => ?_)
  have hle : suffix.length + 2 ≤ input.length := by bv_len
  dsimp only
  refine wp_bind_cut (ar_canStemSuffix_loop input suffix _ (by bv_len) hi suffix 0#64 (by simp)) ?_
  rintro ⟨ret, a, b, c⟩ hret
  dsimp only at hret ⊢
  cases ret with
  | none => exact fun _ => hle
  | some v => intro hv; rw [hret v rfl] at hv; cases hv

theorem ar_canStemPrefix_bind {β : Type} {input prefix_ : List (BitVec 32)} {f : Bool → Res β} {Q : β → Prop}
    (h : input.length < 2 ^ 63 ∧ prefix_.length < 2 ^ 63)
    (hk : ∀ b : Bool, (b = true → prefix_.length + 2 ≤ input.length) → wp (f b) Q) :
    wp (ar_canStemPrefix input prefix_ >>= f) Q :=
  wp_bind_cut (ar_canStemPrefix_spec input prefix_ h.1 h.2) hk

theorem ar_canStemSuffix_bind {β : Type} {input suffix : List (BitVec 32)} {f : Bool → Res β} {Q : β → Prop}
    (h : input.length < 2 ^ 63 ∧ suffix.length < 2 ^ 63)
    (hk : ∀ b : Bool, (b = true → suffix.length + 2 ≤ input.length) → wp (f b) Q) :
    wp (ar_canStemSuffix input suffix >>= f) Q :=
  wp_bind_cut (ar_canStemSuffix_spec input suffix h.1 h.2) hk

macro_rules | `(tactic| wp_call) => `(tactic| with_reducible refine ar_canStemPrefix_bind ?_ (fun _ _ => ?_))
macro_rules | `(tactic| wp_call) => `(tactic| with_reducible refine ar_canStemSuffix_bind ?_ (fun _ _ => ?_))

theorem ar_stem_loop1 : ∀ (xs_ : List (List (BitVec 32))) (input : List (BitVec 8)) (runes : List (BitVec 32)),
    runes.length < 2 ^ 63 → (∀ p ∈ xs_, p.length < 2 ^ 63) →
    wp (ar_stem.loop1 xs_ input runes) (fun r => r.2.length ≤ runes.length) := by
  intro xs_
  induction xs_ with
  | nil => intro _ _ _ _; unfold ar_stem.loop1; exact Nat.le_refl _
  | cons p rest ih =>
    intro input runes hr hp
    have hp0 : p.length < 2 ^ 63 := hp p List.mem_cons_self
    have hrest : ∀ q ∈ rest, q.length < 2 ^ 63 := fun q hq => hp q (List.mem_cons_of_mem _ hq)
    unfold ar_stem.loop1
    wp_go
    all_goals first
      | exact ih _ _ hr hrest
      | bv_len

theorem ar_stem_loop2 : ∀ (xs_ : List (List (BitVec 32))) (input : List (BitVec 8)) (runes : List (BitVec 32)),
    runes.length < 2 ^ 63 → (∀ p ∈ xs_, p.length < 2 ^ 63) →
    wp (ar_stem.loop2 xs_ input runes) (fun r => r.2.length ≤ runes.length) := by
  intro xs_
  induction xs_ with
  | nil => intro _ _ _ _; unfold ar_stem.loop2; exact Nat.le_refl _
  | cons p rest ih =>
    intro input runes hr hp
    have hp0 : p.length < 2 ^ 63 := hp p List.mem_cons_self
    have hrest : ∀ q ∈ rest, q.length < 2 ^ 63 := fun q hq => hp q (List.mem_cons_of_mem _ hq)
    unfold ar_stem.loop2
    wp_go
    all_goals first
      | (refine wp_mono (ih _ _ ?_ hrest) (fun _ _ => ?_) <;> bv_len)
      | bv_len

theorem ar_affixes_short : (∀ p ∈ ar_prefixes, p.length < 2 ^ 63) ∧ (∀ p ∈ ar_suffixes, p.length < 2 ^ 63) := by
  unfold ar_prefixes ar_suffixes
  decide

theorem ar_stem_spec (input : List (BitVec 8)) (h : input.length < 2 ^ 61) : wp (ar_stem input) (fun _ => True) := by
  have hr := runes_length_le input
  unfold ar_stem
  dsimp only
  refine wp_bind_cut (ar_stem_loop1 ar_prefixes input _ (by omega) ar_affixes_short.1) ?_
  rintro ⟨a, r1⟩ h1
  dsimp only at h1 ⊢
  refine wp_bind_cut (ar_stem_loop2 ar_suffixes a r1 (by omega) ar_affixes_short.2) ?_
  rintro ⟨b, r2⟩ h2
  dsimp only at h2 ⊢
  wp_go
  all_goals bv_len

end Bluge.C18.Stem

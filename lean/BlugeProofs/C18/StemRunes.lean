import BlugeProofs.C18.StemUtil
/-! Every rune `bytes.Runes` produces is one `utf8.RuneLen` accepts: at most U+10FFFF and not a surrogate
(the decoder of `Bluge.Analysis`, transcribed from unicode/utf8, rejects surrogate and over-long encodings). -/
set_option linter.unusedSimpArgs false
namespace Bluge.C18.Stem
open Bluge Bluge.Go Bluge.Analysis

def RuneOk (r : Nat) : Prop := r ≤ 0x10FFFF ∧ ¬ (0xD800 ≤ r ∧ r ≤ 0xDFFF)

theorem runeOk_error : RuneOk runeError := by unfold RuneOk runeError; omega

theorem dec2_ok (p0 : Nat) (r : Analysis.Bytes) : RuneOk (dec2 p0 r).1 := by
  unfold dec2
  split
  · split
    · unfold RuneOk; dsimp only; omega
    · exact runeOk_error
  · exact runeOk_error

theorem dec3_ok (p0 : Nat) (h0 : 0xE0 ≤ p0) (h1 : p0 < 0xF0) (r : Analysis.Bytes) : RuneOk (dec3 p0 r).1 := by
  rcases r with _ | ⟨b1, _ | ⟨b2, t⟩⟩
  · exact runeOk_error
  · exact runeOk_error
  · have hb1 := b1.isLt
    have hb2 := b2.isLt
    simp only [dec3]
    split
    · exact runeOk_error
    · next hsec =>
      split
      · exact runeOk_error
      · unfold RuneOk; dsimp only
        unfold secondLo secondHi at hsec
        by_cases e1 : p0 = 0xE0 <;> by_cases e2 : p0 = 0xED <;>
          simp only [e1, e2, if_true, if_false, if_pos, if_neg, Nat.reduceEqDiff] at hsec <;> omega

theorem dec4_ok (p0 : Nat) (h0 : 0xF0 ≤ p0) (h1 : p0 < 0xF5) (r : Analysis.Bytes) : RuneOk (dec4 p0 r).1 := by
  rcases r with _ | ⟨b1, _ | ⟨b2, _ | ⟨b3, t⟩⟩⟩
  · exact runeOk_error
  · exact runeOk_error
  · exact runeOk_error
  · have hb1 := b1.isLt
    have hb2 := b2.isLt
    have hb3 := b3.isLt
    simp only [dec4]
    split
    · exact runeOk_error
    · next hsec =>
      split
      · exact runeOk_error
      · split
        · exact runeOk_error
        · unfold RuneOk; dsimp only
          unfold secondLo secondHi at hsec
          by_cases e1 : p0 = 0xF0 <;> by_cases e2 : p0 = 0xF4 <;>
            simp only [e1, e2, if_true, if_false, if_pos, if_neg, Nat.reduceEqDiff] at hsec <;> omega

theorem decodeRune_ok (p : Analysis.Bytes) : RuneOk (decodeRune p).1 := by
  rcases p with _ | ⟨b0, rest⟩
  · exact runeOk_error
  · have hb0 := b0.isLt
    simp only [decodeRune]
    split
    · unfold RuneOk; dsimp only; omega
    · split
      · exact runeOk_error
      · split
        · exact dec2_ok _ _
        · split
          · exact dec3_ok _ (by omega) (by omega) _
          · split
            · exact dec4_ok _ (by omega) (by omega) _
            · exact runeOk_error

theorem runes_ok : ∀ (n : Nat) (p : Analysis.Bytes), p.length = n → ∀ r ∈ Analysis.runes p, RuneOk r := by
  intro n
  induction n using Nat.strongRecOn with
  | _ n ih =>
    intro p hn r hr
    rw [Analysis.runes] at hr
    split at hr
    · simp at hr
    · next hne =>
      have hpos := decodeRune_size_pos p hne
      have hlen : 0 < p.length := List.length_pos_iff.mpr hne
      rcases List.mem_cons.mp hr with h | h
      · rw [h]; exact decodeRune_ok p
      · exact ih (p.drop (decodeRune p).2).length (by simp only [List.length_drop]; omega) _ rfl r h

theorem validRune_of_ok (r : Nat) (h : RuneOk r) : ValidRune (BitVec.ofNat 32 r) := by
  unfold RuneOk at h
  have hr : (BitVec.ofNat 32 r).toNat = r := by simp; omega
  unfold ValidRune GoStd.runeLen GoStd.isSurrogate
  rw [hr]
  by_cases h1 : r < 0x80
  · simp [h1]
  · by_cases h2 : r < 0x800
    · simp [h1, h2]
    · have h3 : (decide (0xD800 ≤ r) && decide (r ≤ 0xDFFF)) = false := by
        simp only [Bool.and_eq_false_iff, decide_eq_false_iff_not]; omega
      by_cases h4 : r < 0x10000
      · simp [h1, h2, h3, h4]
      · have h5 : r ≤ 0x10FFFF := h.1
        simp [h1, h2, h3, h4, h5]

/-- the runes of any byte string are valid -/
theorem runes_valid (p : List (BitVec 8)) : ∀ r ∈ GoStd.runes p, ValidRune r := by
  intro r hr
  simp only [GoStd.runes, List.mem_map] at hr
  obtain ⟨n, hn, rfl⟩ := hr
  exact validRune_of_ok n (runes_ok _ p rfl n hn)

end Bluge.C18.Stem

import Bluge.Analysis
/-! Lemmas for C18: the pipeline, TokenFrequency, Document.Analyze and the tokenizers. -/
namespace Bluge.C18
open Bluge.Analysis

/-! ### pipeline -/

theorem foldl_filters_valid (fs : List (List Token → List Token)) (len : Int) :
    ∀ ts, Valid len ts → (∀ f ∈ fs, OffsetSafe f) → Valid len (fs.foldl (fun toks tf => tf toks) ts) := by
  induction fs with
  | nil => intro ts h _; simpa using h
  | cons f rest ih =>
    intro ts h hf
    simp only [List.foldl_cons]
    exact ih (f ts) (hf f (by simp) len ts h) (fun g hg => hf g (by simp [hg]))

theorem termOnly_offsetSafe (f : List Token → List Token) (h : TermOnly f) : OffsetSafe f := by
  intro len ts hv t ht
  obtain ⟨s, hs, h1, h2, h3⟩ := h ts t ht
  have := hv s hs
  unfold Token.ok at *
  rw [h1, h2, h3]; exact this

/-! ### TokenFrequency -/

theorem locations_length (ts : List Token) : ∀ so, (locations ts so).1.length = ts.length := by
  induction ts with
  | nil => intro so; simp [locations]
  | cons t rest ih => intro so; simp [locations, ih]

/-- locations carry the token offsets unchanged, in stream order -/
theorem locations_offsets (ts : List Token) :
    ∀ so, (locations ts so).1.map (fun l => (l.start, l.stop)) = ts.map (fun t => (t.start, t.stop)) := by
  induction ts with
  | nil => intro so; simp [locations]
  | cons t rest ih => intro so; simp [locations, ih]

/-- every position is `startOffset` plus the increments so far: at least the start offset, at most the
final position, non-decreasing along the stream -/
theorem locations_positions (ts : List Token) (hpi : ∀ t ∈ ts, 0 ≤ t.posIncr) :
    ∀ so, (∀ l ∈ (locations ts so).1, so ≤ l.pos ∧ l.pos ≤ (locations ts so).2) ∧ so ≤ (locations ts so).2 ∧
      (locations ts so).1.Pairwise (fun a b => a.pos ≤ b.pos) := by
  induction ts with
  | nil => intro so; simp [locations]
  | cons t rest ih =>
    intro so
    have h0 := hpi t (by simp)
    obtain ⟨h1, h2, h3⟩ := ih (fun u hu => hpi u (by simp [hu])) (so + t.posIncr)
    simp only [locations]
    refine ⟨?_, by omega, ?_⟩
    · intro l hl
      simp only [List.mem_cons] at hl
      rcases hl with rfl | hl
      · simp; omega
      · have := h1 l hl; omega
    · simp only [List.pairwise_cons]
      refine ⟨?_, h3⟩
      intro l hl
      have := h1 l hl
      simp; omega

/-- the final position is the start offset plus the sum of the increments -/
theorem locations_final (ts : List Token) : ∀ so, (locations ts so).2 = so + (ts.map (·.posIncr)).sum := by
  induction ts with
  | nil => intro so; simp [locations]
  | cons t rest ih => intro so; simp [locations, ih]; omega

theorem tfInsert_locs (m : List TokenFreq) (term : Bytes) (loc : Option Location) (P : Location → Prop)
    (hm : ∀ e ∈ m, ∀ l ∈ e.locs, P l) (hl : ∀ l ∈ loc.toList, P l) :
    ∀ e ∈ tfInsert m term loc, ∀ l ∈ e.locs, P l := by
  induction m with
  | nil =>
    intro e he l hle
    simp only [tfInsert, List.mem_singleton] at he
    subst he; exact hl l hle
  | cons e0 rest ih =>
    intro e he l hle
    simp only [tfInsert] at he
    split at he
    · simp only [List.mem_cons] at he
      rcases he with rfl | he
      · simp only [List.mem_append] at hle
        rcases hle with h | h
        · exact hm e0 (by simp) l h
        · exact hl l h
      · exact hm e (by simp [he]) l hle
    · simp only [List.mem_cons] at he
      rcases he with rfl | he
      · exact hm e (by simp) l hle
      · exact ih (fun e' he' => hm e' (by simp [he'])) e he l hle

theorem foldl_tfInsert_locs (P : Location → Prop) (zs : List (Token × Location)) (hz : ∀ z ∈ zs, P z.2) :
    ∀ m, (∀ e ∈ m, ∀ l ∈ e.locs, P l) →
      ∀ e ∈ zs.foldl (fun m tl => tfInsert m tl.1.term (some tl.2)) m, ∀ l ∈ e.locs, P l := by
  induction zs with
  | nil => intro m hm; simpa using hm
  | cons z rest ih =>
    intro m hm
    simp only [List.foldl_cons]
    apply ih (fun z' hz' => hz z' (by simp [hz']))
    apply tfInsert_locs m _ _ P hm
    intro l hl
    simp at hl; subst hl; exact hz z (by simp)

/-- every location stored in the frequency map is one of the per-token locations -/
theorem tokenFrequency_locs_mem (ts : List Token) (so : Int) :
    ∀ e ∈ (tokenFrequency ts true so).1, ∀ l ∈ e.locs, l ∈ (locations ts so).1 := by
  simp only [tokenFrequency, if_true]
  apply foldl_tfInsert_locs (fun l => l ∈ (locations ts so).1)
  · intro z hz; exact (List.of_mem_zip hz).2
  · intro e he; simp at he


/-! ### every analysed term is a key of the frequency map -/

theorem tfInsert_has (m : List TokenFreq) (term : Bytes) (loc : Option Location) :
    (∃ e ∈ tfInsert m term loc, e.term = term) ∧ ∀ e ∈ m, ∃ e' ∈ tfInsert m term loc, e'.term = e.term := by
  induction m with
  | nil => simp [tfInsert]
  | cons e0 rest ih =>
    simp only [tfInsert]
    split
    · next heq =>
      refine ⟨⟨_, List.mem_cons_self, heq⟩, ?_⟩
      intro e he
      simp only [List.mem_cons] at he
      rcases he with rfl | he
      · exact ⟨_, List.mem_cons_self, rfl⟩
      · exact ⟨e, by simp [he], rfl⟩
    · refine ⟨?_, ?_⟩
      · obtain ⟨e, he, ht⟩ := ih.1
        exact ⟨e, by simp [he], ht⟩
      · intro e he
        simp only [List.mem_cons] at he
        rcases he with rfl | he
        · exact ⟨e, List.mem_cons_self, rfl⟩
        · obtain ⟨e', he', ht⟩ := ih.2 e he
          exact ⟨e', by simp [he'], ht⟩

theorem foldl_tfInsert_has {α : Type} (termOf : α → Bytes) (locOf : α → Option Location) (zs : List α) :
    ∀ m, (∀ z ∈ zs, ∃ e ∈ zs.foldl (fun m z => tfInsert m (termOf z) (locOf z)) m, e.term = termOf z) ∧
         (∀ e ∈ m, ∃ e' ∈ zs.foldl (fun m z => tfInsert m (termOf z) (locOf z)) m, e'.term = e.term) := by
  induction zs with
  | nil => intro m; exact ⟨by simp, fun e he => ⟨e, by simpa using he, rfl⟩⟩
  | cons z rest ih =>
    intro m
    simp only [List.foldl_cons]
    have h1 := tfInsert_has m (termOf z) (locOf z)
    have h2 := ih (tfInsert m (termOf z) (locOf z))
    refine ⟨?_, ?_⟩
    · intro y hy
      simp only [List.mem_cons] at hy
      rcases hy with rfl | hy
      · obtain ⟨e, he, ht⟩ := h1.1
        obtain ⟨e', he', ht'⟩ := h2.2 e he
        exact ⟨e', he', by rw [ht', ht]⟩
      · exact h2.1 y hy
    · intro e he
      obtain ⟨e1, he1, ht1⟩ := h1.2 e he
      obtain ⟨e2, he2, ht2⟩ := h2.2 e1 he1
      exact ⟨e2, he2, by rw [ht2, ht1]⟩

theorem mem_zip_of_length_eq {α β : Type} : ∀ (as : List α) (bs : List β), as.length = bs.length →
    ∀ a ∈ as, ∃ b, (a, b) ∈ as.zip bs := by
  intro as
  induction as with
  | nil => intro bs _ a ha; simp at ha
  | cons x rest ih =>
    intro bs hlen a ha
    cases bs with
    | nil => simp at hlen
    | cons y ys =>
      simp only [List.mem_cons] at ha
      rcases ha with rfl | ha
      · exact ⟨y, by simp⟩
      · obtain ⟨b, hb⟩ := ih ys (by simpa using hlen) a ha
        exact ⟨b, by simp [hb]⟩

/-- every token's term is a key of the frequency map built from the same token stream -/
theorem tokenFrequency_has_term (ts : List Token) (tv : Bool) (so : Int) :
    ∀ t ∈ ts, ∃ e ∈ (tokenFrequency ts tv so).1, e.term = t.term := by
  intro t ht
  unfold tokenFrequency
  split
  · obtain ⟨l, hl⟩ := mem_zip_of_length_eq ts (locations ts so).1 (locations_length ts so).symm t ht
    exact (foldl_tfInsert_has (fun (z : Token × Location) => z.1.term) (fun z => some z.2) _ []).1 (t, l) hl
  · exact (foldl_tfInsert_has (fun (z : Token) => z.term) (fun _ => none) _ []).1 t ht

/-! ### Document.Analyze -/

theorem docAnalyze_lower (gap : Int) (hg : 0 ≤ gap) (fields : List (List Token))
    (hpi : ∀ f ∈ fields, ∀ t ∈ f, 0 ≤ t.posIncr) :
    ∀ off, ∀ ls ∈ docAnalyze gap fields off, ∀ l ∈ ls, off ≤ l.pos := by
  induction fields with
  | nil => intro off ls hls; simp [docAnalyze] at hls
  | cons f rest ih =>
    intro off ls hls l hl
    simp only [docAnalyze, List.mem_cons] at hls
    have hoff : off ≤ (if off > 0 then off + gap else off) := by split <;> omega
    generalize (if off > 0 then off + gap else off) = off' at hls hoff
    have hf := locations_positions f (hpi f (by simp)) off'
    rcases hls with rfl | hls
    · have := (hf.1 l hl).1
      omega
    · have h2 := hf.2.1
      have := ih (fun g hg' => hpi g (by simp [hg'])) _ ls hls l hl
      omega

/-- positions never decrease from one field of a name to the next one -/
theorem docAnalyze_mono (gap : Int) (hg : 0 ≤ gap) (fields : List (List Token))
    (hpi : ∀ f ∈ fields, ∀ t ∈ f, 0 ≤ t.posIncr) :
    ∀ off, (docAnalyze gap fields off).Pairwise (fun A B => ∀ a ∈ A, ∀ b ∈ B, a.pos ≤ b.pos) := by
  induction fields with
  | nil => intro off; simp [docAnalyze]
  | cons f rest ih =>
    intro off
    simp only [docAnalyze, List.pairwise_cons]
    refine ⟨?_, ih (fun g hg' => hpi g (by simp [hg'])) _⟩
    intro B hB a ha b hb
    have hf := locations_positions f (hpi f (by simp)) (if off > 0 then off + gap else off)
    have h1 := (hf.1 a ha).2
    have h2 := docAnalyze_lower gap hg rest (fun g hg' => hpi g (by simp [hg'])) _ B hB b hb
    omega

end Bluge.C18

import Bluge.Analysis
/-! Lemmas for C18: n-gram, edge n-gram, truncate, length, unique, stop, keyword marker, elision, apostrophe. -/
namespace Bluge.C18
open Bluge.Analysis

theorem loop_inv_simple {α σ : Type} {body : σ → α → Option σ} (P : σ → Prop)
    (step : ∀ x s s', P s → body s x = some s' → P s') (xs : List α) (st st' : σ)
    (h : P st) (e : loop xs body st = some st') : P st' :=
  loop_inv (fun _ s => P s) (fun x _ s s' hs hb => step x s s' hs hb) xs st st' h e

theorem foldl_inv {α β : Type} (P : β → Prop) (f : β → α → β) :
    ∀ (l : List α) (b : β), P b → (∀ b a, a ∈ l → P b → P (f b a)) → P (l.foldl f b) := by
  intro l
  induction l with
  | nil => intro b h _; simpa using h
  | cons a rest ih =>
    intro b h step
    simp only [List.foldl_cons]
    exact ih (f b a) (step b a (by simp) h) (fun b' a' ha' hb' => step b' a' (by simp [ha']) hb')

theorem goSlice_some {α : Type} {s : List α} {lo hi : Int} (h : 0 ≤ lo ∧ lo ≤ hi ∧ hi ≤ s.length) :
    ∃ sl, goSlice s lo hi = some sl := by
  simp [goSlice, h]

theorem goSlice_bounds {α : Type} {s sl : List α} {lo hi : Int} (h : goSlice s lo hi = some sl) :
    0 ≤ lo ∧ lo ≤ hi ∧ hi ≤ s.length := by
  unfold goSlice at h
  split at h
  · assumption
  · contradiction

theorem goSlice_length {α : Type} {s sl : List α} {lo hi : Int} (h : goSlice s lo hi = some sl) :
    (sl.length : Int) = hi - lo := by
  have hb := goSlice_bounds h
  unfold goSlice at h
  rw [if_pos hb] at h
  injection h with h
  subst h
  simp only [List.length_take, List.length_drop]
  omega

/-- a new token that copies the offsets of a valid token and has increment 0 or 1 is valid -/
theorem ok_of_copy {len : Int} {token : Token} (h : token.ok len) (term : Bytes) (first : Bool) (typ : Nat) (kw : Bool) :
    Token.ok len { term := term, start := token.start, stop := token.stop, posIncr := if first then 1 else 0, typ := typ, kw := kw } := by
  unfold Token.ok at *
  refine ⟨h.1, h.2.1, h.2.2.1, ?_⟩
  cases first <;> simp

theorem ok_with_term {len : Int} {token : Token} (h : token.ok len) (term : Bytes) : Token.ok len { token with term := term } := h
theorem ok_with_kw {len : Int} {token : Token} (h : token.ok len) (kw : Bool) : Token.ok len { token with kw := kw } := h

theorem ok_add_posIncr {len : Int} {token : Token} (h : token.ok len) (k : Int) (hk : 0 ≤ k) :
    Token.ok len { token with posIncr := token.posIncr + k } := by
  unfold Token.ok at *
  refine ⟨h.1, h.2.1, h.2.2.1, ?_⟩
  simp only; omega



theorem loop_some {α σ : Type} {body : σ → α → Option σ} (xs : List α) (st : σ)
    (step : ∀ x ∈ xs, ∀ s, ∃ s', body s x = some s') : ∃ st', loop xs body st = some st' := by
  obtain ⟨st', h, _⟩ := loop_total_mem (body := body) (fun _ => True) xs st
    (fun x hx s _ => by obtain ⟨s', hs⟩ := step x hx s; exact ⟨s', hs, trivial⟩) trivial
  exact ⟨st', h⟩

theorem exists_map_some {α β : Type} {f : α → β} {o : Option α} (h : ∃ a, o = some a) : ∃ b, o.map f = some b := by
  obtain ⟨a, rfl⟩ := h; exact ⟨f a, rfl⟩

/-- a `for _, token := range input` loop that appends to `rv`: if every step keeps `rv` valid, the result is valid -/
theorem loop_tokens_ok {len : Int} {Q : Token → Prop} {body : List Token → Token → Option (List Token)}
    (step : ∀ token rv rv', Q token → (∀ t ∈ rv, t.ok len) → body rv token = some rv' → ∀ t ∈ rv', t.ok len)
    (input rv : List Token) (hin : ∀ t ∈ input, Q t) (h : loop input body [] = some rv) : ∀ t ∈ rv, t.ok len := by
  have key := loop_inv (body := body) (fun rest rv => (∀ t ∈ rest, Q t) ∧ ∀ t ∈ rv, t.ok len)
    (by
      intro token rest rv rv' hP hb
      exact ⟨fun t ht => hP.1 t (by simp [ht]), step token rv rv' (hP.1 token (by simp)) hP.2 hb⟩)
    input [] rv ⟨hin, by simp⟩ h
  exact key.2

theorem cons_ok {len : Int} {rv : List Token} (hrv : ∀ t ∈ rv, t.ok len) (x : Token) (hx : x.ok len) :
    ∀ t ∈ x :: rv, t.ok len := by
  intro t ht
  simp only [List.mem_cons] at ht
  rcases ht with rfl | ht
  · exact hx
  · exact hrv t ht

/-! ### n-gram -/

theorem ngramFilter_valid' (min max len : Int) (input out : List Token) (hv : Valid len input)
    (h : ngramFilter min max input = some out) : Valid len out := by
  simp only [ngramFilter, Option.map_eq_some_iff] at h
  obtain ⟨rv, hloop, rfl⟩ := h
  have key := loop_tokens_ok (len := len) (Q := fun t => t.ok len) ?_ input rv hv hloop
  · intro t ht
    exact key t (List.mem_reverse.mp ht)
  intro token rv rv' htok hrv hb
  simp only [Option.map_eq_some_iff] at hb
  obtain ⟨st, hl, rfl⟩ := hb
  refine loop_inv_simple (fun (st : Bool × List Token) => ∀ t ∈ st.2, t.ok len) ?_ _ _ _ hrv hl
  intro i st st' hst hb2
  refine loop_inv_simple (fun (st : Bool × List Token) => ∀ t ∈ st.2, t.ok len) ?_ _ _ _ hst hb2
  intro n st st' hst hb3
  split at hb3
  · split at hb3
    · contradiction
    · injection hb3 with hb3
      subst hb3
      exact cons_ok hst _ (ok_of_copy htok _ _ _ _)
  · injection hb3 with hb3
    subst hb3; exact hst

theorem ngramFilter_total' (min max : Int) (hmin : 0 ≤ min) (input : List Token) :
    ∃ out, ngramFilter min max input = some out := by
  unfold ngramFilter
  apply exists_map_some
  apply loop_some
  intro token _ rv
  apply exists_map_some
  apply loop_some
  intro i hi st
  apply loop_some
  intro n hn st
  have hi' := mem_intRange.mp hi
  have hn' := mem_intRange.mp hn
  split
  · next hc =>
    obtain ⟨sl, hsl⟩ := goSlice_some (s := runes token.term) (lo := i) (hi := i + n) ⟨by omega, by omega, hc⟩
    rw [hsl]; exact ⟨_, rfl⟩
  · exact ⟨_, rfl⟩

/-! ### edge n-gram -/

theorem edgeNgramFilter_valid' (back : Bool) (min max len : Int) (input out : List Token) (hv : Valid len input)
    (h : edgeNgramFilter back min max input = some out) : Valid len out := by
  simp only [edgeNgramFilter, Option.map_eq_some_iff] at h
  obtain ⟨rv, hloop, rfl⟩ := h
  have key := loop_tokens_ok (len := len) (Q := fun t => t.ok len) ?_ input rv hv hloop
  · intro t ht
    exact key t (List.mem_reverse.mp ht)
  intro token rv rv' htok hrv hb
  simp only [Option.map_eq_some_iff] at hb
  obtain ⟨st, hl, rfl⟩ := hb
  refine loop_inv_simple (fun (st : Bool × List Token) => ∀ t ∈ st.2, t.ok len) ?_ _ _ _ hrv hl
  intro n st st' hst hb3
  split at hb3
  · split at hb3
    · split at hb3
      · contradiction
      · injection hb3 with hb3
        subst hb3; exact cons_ok hst _ (ok_of_copy htok _ _ _ _)
    · injection hb3 with hb3
      subst hb3; exact hst
  · split at hb3
    · split at hb3
      · contradiction
      · injection hb3 with hb3
        subst hb3; exact cons_ok hst _ (ok_of_copy htok _ _ _ _)
    · injection hb3 with hb3
      subst hb3; exact hst

theorem edgeNgramFilter_total' (back : Bool) (min max : Int) (hmin : 0 ≤ min) (input : List Token) :
    ∃ out, edgeNgramFilter back min max input = some out := by
  unfold edgeNgramFilter
  apply exists_map_some
  apply loop_some
  intro token _ rv
  apply exists_map_some
  apply loop_some
  intro n hn st
  have hn' := mem_intRange.mp hn
  split
  · dsimp only
    split
    · next _hc =>
      obtain ⟨sl, hsl⟩ := goSlice_some (s := runes token.term) (lo := ((runes token.term).length : Int) - n)
        (hi := ((runes token.term).length : Int)) ⟨by omega, by omega, by omega⟩
      rw [hsl]; exact ⟨_, rfl⟩
    · exact ⟨_, rfl⟩
  · dsimp only
    split
    · next hc =>
      obtain ⟨sl, hsl⟩ := goSlice_some (s := runes token.term) (lo := 0) (hi := 0 + n) ⟨by omega, by omega, hc⟩
      rw [hsl]; exact ⟨_, rfl⟩
    · exact ⟨_, rfl⟩

/-! ### truncate -/

theorem truncateFilter_valid' (length len : Int) (input out : List Token) (hv : Valid len input)
    (h : truncateFilter length input = some out) : Valid len out := by
  simp only [truncateFilter, Option.map_eq_some_iff] at h
  obtain ⟨rv, hloop, rfl⟩ := h
  have key := loop_tokens_ok (len := len) (Q := fun t => t.ok len) ?_ input rv hv hloop
  · intro t ht
    exact key t (List.mem_reverse.mp ht)
  intro token rv rv' htok hrv hb
  split at hb
  · split at hb
    · contradiction
    · injection hb with hb
      subst hb; exact cons_ok hrv _ (ok_with_term htok _)
  · injection hb with hb
    subst hb; exact cons_ok hrv _ htok

theorem truncateFilter_total' (length : Int) (hl : 0 ≤ length) (input : List Token) :
    ∃ out, truncateFilter length input = some out := by
  unfold truncateFilter
  apply exists_map_some
  apply loop_some
  intro token _ rv
  dsimp only
  split
  · next _hc =>
    obtain ⟨sl, hsl⟩ := goSlice_some (s := runes token.term) (lo := 0)
      (hi := ((runes token.term).length : Int) - (((runes token.term).length : Int) - length)) ⟨by omega, by omega, by omega⟩
    rw [hsl]; exact ⟨_, rfl⟩
  · exact ⟨_, rfl⟩

/-- what truncate leaves: at most `length` runes (before re-encoding) -/
theorem truncate_slice_len (length : Int) (rs sl : List Rune) (_hc : (rs.length : Int) > length)
    (h : goSlice rs 0 ((rs.length : Int) - ((rs.length : Int) - length)) = some sl) : (sl.length : Int) = length := by
  have := goSlice_length h; omega

/-! ### length, unique, stop: tokens are dropped, the increments of the dropped ones are added to the next kept one -/

theorem lengthFilter_valid' (min max len : Int) (input : List Token) (hv : Valid len input) :
    Valid len (lengthFilter min max input) := by
  have key : 0 ≤ (input.foldl (fun (st : Int × List Token) (token : Token) =>
      let wordLen : Int := (runes token.term).length
      if min > 0 ∧ min > wordLen then (st.1 + token.posIncr, st.2)
      else if max > 0 ∧ max < wordLen then (st.1 + token.posIncr, st.2)
      else if st.1 > 0 then (0, { token with posIncr := token.posIncr + st.1 } :: st.2)
      else (st.1, token :: st.2)) (0, [])).1 ∧ ∀ t ∈ (input.foldl (fun (st : Int × List Token) (token : Token) =>
      let wordLen : Int := (runes token.term).length
      if min > 0 ∧ min > wordLen then (st.1 + token.posIncr, st.2)
      else if max > 0 ∧ max < wordLen then (st.1 + token.posIncr, st.2)
      else if st.1 > 0 then (0, { token with posIncr := token.posIncr + st.1 } :: st.2)
      else (st.1, token :: st.2)) (0, [])).2, t.ok len := by
    apply foldl_inv (fun (st : Int × List Token) => 0 ≤ st.1 ∧ ∀ t ∈ st.2, t.ok len)
    · exact ⟨Int.le_refl _, by simp⟩
    · intro st token hmem hst
      obtain ⟨h1, h2⟩ := hst
      have htok := hv token hmem
      have hpi : 0 ≤ token.posIncr := htok.2.2.2
      dsimp only
      split
      · exact ⟨by dsimp only; omega, h2⟩
      · split
        · exact ⟨by dsimp only; omega, h2⟩
        · split
          · refine ⟨Int.le_refl _, ?_⟩
            intro t ht
            simp only [List.mem_cons] at ht
            rcases ht with rfl | ht
            · exact ok_add_posIncr htok _ h1
            · exact h2 t ht
          · refine ⟨h1, ?_⟩
            intro t ht
            simp only [List.mem_cons] at ht
            rcases ht with rfl | ht
            · exact htok
            · exact h2 t ht
  intro t ht
  exact key.2 t (List.mem_reverse.mp ht)

theorem uniqueFilter_valid' (len : Int) (input : List Token) (hv : Valid len input) : Valid len (uniqueFilter input) := by
  have key := foldl_inv (fun (st : List Bytes × Int × List Token) => 0 ≤ st.2.1 ∧ ∀ t ∈ st.2.2, t.ok len)
    (fun (st : List Bytes × Int × List Token) (token : Token) =>
      if st.1.contains token.term then (st.1, st.2.1 + token.posIncr, st.2.2)
      else (token.term :: st.1, 0, { token with posIncr := token.posIncr + st.2.1 } :: st.2.2))
    input ([], 0, []) ⟨Int.le_refl _, by simp⟩ (by
      intro st token hmem hst
      obtain ⟨h1, h2⟩ := hst
      have htok := hv token hmem
      have hpi : 0 ≤ token.posIncr := htok.2.2.2
      split
      · exact ⟨by dsimp only; omega, h2⟩
      · refine ⟨Int.le_refl _, ?_⟩
        intro t ht
        simp only [List.mem_cons] at ht
        rcases ht with rfl | ht
        · exact ok_add_posIncr htok _ h1
        · exact h2 t ht)
  intro t ht
  exact key.2 t (List.mem_reverse.mp ht)

theorem stopFilter_valid' (stop : List Bytes) (len : Int) (input : List Token) (hv : Valid len input) :
    Valid len (stopFilter stop input) := by
  have key := foldl_inv (fun (st : Int × List Token) => 0 ≤ st.1 ∧ ∀ t ∈ st.2, t.ok len)
    (fun (st : Int × List Token) (token : Token) =>
      if !stop.contains token.term then (0, { token with posIncr := token.posIncr + st.1 } :: st.2)
      else (st.1 + token.posIncr, st.2))
    input (0, []) ⟨Int.le_refl _, by simp⟩ (by
      intro st token hmem hst
      obtain ⟨h1, h2⟩ := hst
      have htok := hv token hmem
      have hpi : 0 ≤ token.posIncr := htok.2.2.2
      split
      · refine ⟨Int.le_refl _, ?_⟩
        intro t ht
        simp only [List.mem_cons] at ht
        rcases ht with rfl | ht
        · exact ok_add_posIncr htok _ h1
        · exact h2 t ht
      · exact ⟨by dsimp only; omega, h2⟩)
  intro t ht
  exact key.2 t (List.mem_reverse.mp ht)

/-! ### the modelled term-only filters really are term-only -/

theorem keywordMarkerFilter_termOnly' (kws : List Bytes) : TermOnly (keywordMarkerFilter kws) := by
  intro ts t ht
  simp only [keywordMarkerFilter, List.mem_map] at ht
  obtain ⟨s, hs, rfl⟩ := ht
  refine ⟨s, hs, ?_⟩
  split <;> simp

theorem elisionFilter_termOnly' (articles : List Bytes) : TermOnly (elisionFilter articles) := by
  intro ts t ht
  simp only [elisionFilter, List.mem_map] at ht
  obtain ⟨s, hs, rfl⟩ := ht
  exact ⟨s, hs, rfl, rfl, rfl⟩

theorem apostropheFilter_termOnly' : TermOnly apostropheFilter := by
  intro ts t ht
  simp only [apostropheFilter, List.mem_map] at ht
  obtain ⟨s, hs, rfl⟩ := ht
  refine ⟨s, hs, ?_⟩
  split <;> simp

end Bluge.C18

import Bluge.Analysis
/-! Lemmas for C18: the character-class tokenizers and the single-token tokenizer. -/
namespace Bluge.C18
open Bluge.Analysis

@[simp] theorem mkTok_start (input : Bytes) (s e : Nat) : (mkTok input s e).start = (s : Int) := rfl
@[simp] theorem mkTok_stop (input : Bytes) (s e : Nat) : (mkTok input s e).stop = (e : Int) := rfl
@[simp] theorem mkTok_posIncr (input : Bytes) (s e : Nat) : (mkTok input s e).posIncr = 1 := rfl
@[simp] theorem mkTok_term (input : Bytes) (s e : Nat) : (mkTok input s e).term = (input.drop s).take (e - s) := rfl

/-- what the character tokenizer loop emits from a state (offset, start, stop) with `rest = input[offset:]`:
tokens `input[s:e]` with `start ≤ s < e ≤ len`, in text order without overlap -/
theorem charTokLoop_spec (isTok : Rune → Bool) (input : Bytes) :
    ∀ (n : Nat) (rest : Bytes) (offset start stop : Nat), rest.length = n →
      offset + rest.length = input.length → start ≤ stop → stop ≤ offset →
      (∀ t ∈ charTokLoop isTok input rest offset start stop,
          ∃ s e, t = mkTok input s e ∧ start ≤ s ∧ s < e ∧ e ≤ input.length) ∧
      (charTokLoop isTok input rest offset start stop).Pairwise (fun a b => a.stop ≤ b.start) := by
  intro n
  induction n using Nat.strongRecOn with
  | _ n ih =>
    intro rest offset start stop hn hlen hss hso
    rw [charTokLoop]
    split
    · -- loop exit
      split
      · refine ⟨?_, by simp⟩
        intro t ht
        simp only [List.mem_singleton] at ht
        exact ⟨start, stop, ht, Nat.le_refl _, by assumption, by omega⟩
      · simp
    · next hne =>
      have hne' := decodeRune_ne_error rest hne
      have hpos := decodeRune_size_pos rest hne'
      have hle := decodeRune_size_le rest
      have hlt : (rest.drop (decodeRune rest).2).length < n := by simp only [List.length_drop]; omega
      have hlen' : offset + (decodeRune rest).2 + (rest.drop (decodeRune rest).2).length = input.length := by
        simp only [List.length_drop]; omega
      simp only []
      split
      · -- a token rune: the token grows
        have := ih _ hlt (rest.drop (decodeRune rest).2) (offset + (decodeRune rest).2) start (offset + (decodeRune rest).2)
          rfl hlen' (by omega) (Nat.le_refl _)
        exact this
      · -- a separator: flush, restart after it
        have hrec := ih _ hlt (rest.drop (decodeRune rest).2) (offset + (decodeRune rest).2) (offset + (decodeRune rest).2)
          (offset + (decodeRune rest).2) rfl hlen' (Nat.le_refl _) (Nat.le_refl _)
        refine ⟨?_, ?_⟩
        · intro t ht
          simp only [List.mem_append] at ht
          rcases ht with ht | ht
          · split at ht
            · simp only [List.mem_singleton] at ht
              exact ⟨start, stop, ht, Nat.le_refl _, by assumption, by omega⟩
            · simp at ht
          · obtain ⟨s, e, h1, h2, h3, h4⟩ := hrec.1 t ht
            exact ⟨s, e, h1, by omega, h3, h4⟩
        · rw [List.pairwise_append]
          refine ⟨?_, hrec.2, ?_⟩
          · split <;> simp
          · intro a ha b hb
            obtain ⟨s, e, h1, h2, h3, h4⟩ := hrec.1 b hb
            split at ha
            · simp only [List.mem_singleton] at ha
              subst ha; subst h1
              simp only [mkTok_stop, mkTok_start]; omega
            · simp at ha

theorem charTokenize_spec (isTok : Rune → Bool) (input : Bytes) :
    (∀ t ∈ charTokenize isTok input, ∃ s e, t = mkTok input s e ∧ s < e ∧ e ≤ input.length) ∧ Ordered (charTokenize isTok input) := by
  have h := charTokLoop_spec isTok input input.length input 0 0 0 rfl (by simp) (Nat.le_refl _) (Nat.le_refl _)
  refine ⟨?_, h.2⟩
  intro t ht
  obtain ⟨s, e, h1, _, h3, h4⟩ := h.1 t ht
  exact ⟨s, e, h1, h3, h4⟩

theorem charTokenize_valid' (isTok : Rune → Bool) (input : Bytes) : Valid input.length (charTokenize isTok input) := by
  intro t ht
  obtain ⟨s, e, h1, h3, h4⟩ := (charTokenize_spec isTok input).1 t ht
  subst h1
  unfold Token.ok
  simp only [mkTok_start, mkTok_stop, mkTok_posIncr]
  omega

theorem charTokenize_slice_eq' (isTok : Rune → Bool) (input : Bytes) : SliceEq input (charTokenize isTok input) := by
  intro t ht
  obtain ⟨s, e, h1, h3, h4⟩ := (charTokenize_spec isTok input).1 t ht
  subst h1
  simp only [slice, mkTok_term, mkTok_start, mkTok_stop, Int.toNat_natCast]
  congr 1
  omega

/-- tokens are never empty -/
theorem charTokenize_nonempty' (isTok : Rune → Bool) (input : Bytes) : ∀ t ∈ charTokenize isTok input, t.term ≠ [] := by
  intro t ht
  obtain ⟨s, e, h1, h3, h4⟩ := (charTokenize_spec isTok input).1 t ht
  subst h1
  simp only [mkTok_term, ne_eq, List.take_eq_nil_iff, List.drop_eq_nil_iff]
  omega


/-- a byte string has at most as many runes as bytes -/
theorem runes_length_le : ∀ (n : Nat) (p : Bytes), p.length = n → (runes p).length ≤ p.length := by
  intro n
  induction n using Nat.strongRecOn with
  | _ n ih =>
    intro p hn
    rw [runes]
    split
    · simp
    · next hne =>
      have hpos := decodeRune_size_pos p hne
      have hle := decodeRune_size_le p
      have := ih (p.drop (decodeRune p).2).length (by simp only [List.length_drop]; omega) _ rfl
      simp only [List.length_cons, List.length_drop] at *
      omega

theorem singleTokenize_valid' (input : Bytes) : Valid input.length (singleTokenize input) := by
  intro t ht
  simp only [singleTokenize, List.mem_singleton] at ht
  subst ht
  unfold Token.ok; simp

theorem singleTokenize_slice_eq' (input : Bytes) : SliceEq input (singleTokenize input) := by
  intro t ht
  simp only [singleTokenize, List.mem_singleton] at ht
  subst ht
  simp [slice]

end Bluge.C18

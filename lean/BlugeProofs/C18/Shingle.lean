import Bluge.Analysis
import BlugeProofs.C18.Filters
/-! Lemmas for C18: the shingle filter keeps offsets valid on a valid, monotone stream. -/
namespace Bluge.C18
open Bluge.Analysis

/-- the two sentinel values of a filler token -/
def IsFiller (t : Token) : Prop := t.start = -1 ∧ t.stop = -1

/-- a ring entry: a filler, or a token of the input -/
def ItemOK (len : Int) (t : Token) : Prop := IsFiller t ∨ t.ok len

/-- entries oldest first: an earlier real token does not start after a later real token ends -/
def ItemsMono (items : List Token) : Prop :=
  items.Pairwise fun a b => ¬ IsFiller a → ¬ IsFiller b → a.start ≤ b.stop

theorem not_filler_of_ok {len : Int} {t : Token} (h : t.ok len) : ¬ IsFiller t := by
  intro hf; unfold Token.ok at h; unfold IsFiller at hf; omega

theorem fillerToken_isFiller (fill : Bytes) : IsFiller (fillerToken fill) := ⟨rfl, rfl⟩

/-- (start, end) after the inner loop: untouched sentinels, or a valid span -/
def SpanOK (len : Int) (se : Int × Int) : Prop := (se.1 = -1 ∧ se.2 = 0) ∨ (0 ≤ se.1 ∧ se.1 ≤ se.2 ∧ se.2 ≤ len)

theorem shingleJoin_fold (sep : Bytes) (len : Int) :
    ∀ (items : List Token) (st : (Bool × Bytes) × Int × Int),
      (∀ t ∈ items, ItemOK len t) → ItemsMono items →
      ((st.2.1 = -1 ∧ st.2.2 = 0) ∨
        (0 ≤ st.2.1 ∧ st.2.1 ≤ st.2.2 ∧ st.2.2 ≤ len ∧ ∀ c ∈ items, ¬ IsFiller c → st.2.1 ≤ c.stop)) →
      SpanOK len (items.foldl (shingleJoinStep sep) st).2 := by
  intro items
  induction items with
  | nil =>
    intro st _ _ h
    simp only [List.foldl_nil]
    rcases h with h | h
    · exact Or.inl h
    · exact Or.inr ⟨h.1, h.2.1, h.2.2.1⟩
  | cons c rest ih =>
    intro st hok hmono h
    simp only [List.foldl_cons]
    have hrest : ∀ t ∈ rest, ItemOK len t := fun t ht => hok t (by simp [ht])
    have hmono' : ItemsMono rest := (List.pairwise_cons.mp hmono).2
    have hhead := (List.pairwise_cons.mp hmono).1
    apply ih _ hrest hmono'
    rcases hok c (by simp) with hc | hc
    · -- a filler leaves (start, end) alone
      have h1 : c.start = -1 := hc.1
      have h2 : c.stop = -1 := hc.2
      simp only [shingleJoinStep, h1, h2]
      rcases h with h | h
      · left; simp [h.1, h.2]
      · right
        refine ⟨by simp; exact h.1, by simp; exact h.2.1, by simp; exact h.2.2.1, ?_⟩
        intro d hd hdf
        simp
        exact h.2.2.2 d (by simp [hd]) hdf
    · -- a real token
      have hnf := not_filler_of_ok hc
      unfold Token.ok at hc
      have h1 : c.start ≠ -1 := by omega
      have h2 : c.stop ≠ -1 := by omega
      right
      simp only [shingleJoinStep, h2, ne_eq, not_false_eq_true, if_true, h1, and_true]
      rcases h with h | h
      · simp only [h.1, if_true]
        refine ⟨hc.1, hc.2.1, hc.2.2.1, ?_⟩
        intro d hd hdf
        exact hhead d hd hnf hdf
      · have hs : st.2.1 ≠ -1 := by omega
        simp only [hs, if_false]
        refine ⟨h.1, h.2.2.2 c (by simp) hnf, hc.2.2.1, ?_⟩
        intro d hd hdf
        exact h.2.2.2 d (by simp [hd]) hdf

theorem shingleJoin_span (sep : Bytes) (len : Int) (items : List Token)
    (hok : ∀ t ∈ items, ItemOK len t) (hmono : ItemsMono items) : SpanOK len (shingleJoin sep items).2 :=
  shingleJoin_fold sep len items _ hok hmono (Or.inl ⟨rfl, rfl⟩)

theorem shingleToken_ok (len : Int) (hlen : 0 ≤ len) (z : Bool) (j : (Bool × Bytes) × Int × Int) (h : SpanOK len j.2) :
    (shingleToken z j).ok len := by
  unfold SpanOK at h
  unfold Token.ok shingleToken
  rcases h with h | h
  · have h1 : j.2.1 = -1 := h.1
    have h2 : j.2.2 = 0 := h.2
    cases z <;> simp [h1, h2] <;> omega
  · have h1 : j.2.1 ≠ -1 := by omega
    have h2 : j.2.2 ≠ -1 := by omega
    cases z <;> simp [h1, h2] <;> omega

/-- the ring, most recent first -/
def HistOK (len : Int) (hist : List Token) : Prop :=
  (∀ t ∈ hist, ItemOK len t) ∧ hist.Pairwise fun newer older => ¬ IsFiller older → ¬ IsFiller newer → older.start ≤ newer.stop

theorem items_of_hist (len : Int) (hist : List Token) (h : HistOK len hist) (n : Nat) :
    (∀ t ∈ (hist.take n).reverse, ItemOK len t) ∧ ItemsMono (hist.take n).reverse := by
  refine ⟨?_, ?_⟩
  · intro t ht
    exact h.1 t (List.mem_of_mem_take (List.mem_reverse.mp ht))
  · unfold ItemsMono
    rw [List.pairwise_reverse]
    exact List.Pairwise.sublist (List.take_sublist n hist) h.2

theorem shingleCurrent_ok (min max : Int) (oo : Bool) (sep : Bytes) (len : Int) (hlen : 0 ≤ len) (hist : List Token)
    (h : HistOK len hist) : ∀ t ∈ shingleCurrent min max oo sep hist, t.ok len := by
  have key := foldl_inv (fun (rv : List Token) => ∀ t ∈ rv, t.ok len) (shingleCurrentStep oo sep hist)
    (intRange min max) [] (by simp) (by
      intro rv n _ hrv
      unfold shingleCurrentStep
      split
      · exact hrv
      · apply cons_ok hrv
        apply shingleToken_ok len hlen
        have := items_of_hist len hist h n.toNat
        exact shingleJoin_span sep len _ this.1 this.2)
  intro t ht
  exact key t (List.mem_reverse.mp ht)

theorem histOK_push (len : Int) (hist : List Token) (h : HistOK len hist) (v : Token) (hv : ItemOK len v)
    (hord : ∀ o ∈ hist, ¬ IsFiller o → ¬ IsFiller v → o.start ≤ v.stop) (m : Nat) : HistOK len ((v :: hist).take m) := by
  have hfull : HistOK len (v :: hist) := by
    refine ⟨?_, ?_⟩
    · intro t ht
      simp only [List.mem_cons] at ht
      rcases ht with rfl | ht
      · exact hv
      · exact h.1 t ht
    · rw [List.pairwise_cons]
      exact ⟨hord, h.2⟩
  exact ⟨fun t ht => hfull.1 t (List.mem_of_mem_take ht), List.Pairwise.sublist (List.take_sublist m _) hfull.2⟩

/-- state invariant of the filter loop, relative to the tokens not yet read -/
def ShingleInv (len : Int) (rest : List Token) (st : List Token × List Token) : Prop :=
  HistOK len st.1 ∧ (∀ t ∈ st.2, t.ok len) ∧ ∀ o ∈ st.1, ¬ IsFiller o → ∀ y ∈ rest, o.start ≤ y.stop

theorem shinglePush_inv (min max : Int) (oo : Bool) (sep : Bytes) (len : Int) (hlen : 0 ≤ len)
    (rest : List Token) (st : List Token × List Token) (v : Token) (hv : ItemOK len v)
    (hord : ∀ o ∈ st.1, ¬ IsFiller o → ¬ IsFiller v → o.start ≤ v.stop)
    (hnext : ¬ IsFiller v → ∀ y ∈ rest, v.start ≤ y.stop)
    (h : ShingleInv len rest st) : ShingleInv len rest (shinglePush min max oo sep st v) := by
  obtain ⟨h1, h2, h3⟩ := h
  have hh := histOK_push len st.1 h1 v hv hord max.toNat
  unfold shinglePush
  refine ⟨hh, ?_, ?_⟩
  · intro t ht
    simp only [List.mem_append, List.mem_reverse] at ht
    rcases ht with ht | ht
    · exact shingleCurrent_ok min max oo sep len hlen _ hh t ht
    · exact h2 t ht
  · intro o ho hof y hy
    have ho' := List.mem_of_mem_take ho
    simp only [List.mem_cons] at ho'
    rcases ho' with rfl | ho'
    · exact hnext hof y hy
    · exact h3 o ho' hof y hy

theorem shingleFilter_valid' (min max : Int) (oo : Bool) (sep fill : Bytes) (len : Int) (input out : List Token)
    (hv : Valid len input) (hm : Mono input) (h : shingleFilter min max oo sep fill input = some out) : Valid len out := by
  simp only [shingleFilter, Option.map_eq_some_iff] at h
  obtain ⟨st, hloop, rfl⟩ := h
  have key := loop_inv (fun rest (st : List Token × List Token) => Valid len rest ∧ Mono rest ∧ ShingleInv len rest st)
    (by
      intro token rest st st' hP hb
      obtain ⟨hvr, hmr, hinv⟩ := hP
      have htok : token.ok len := hvr token (by simp)
      have hlen : 0 ≤ len := by unfold Token.ok at htok; omega
      have hvr' : Valid len rest := fun t ht => hvr t (by simp [ht])
      have hmr' : Mono rest := (List.pairwise_cons.mp hmr).2
      have hhead := (List.pairwise_cons.mp hmr).1
      refine ⟨hvr', hmr', ?_⟩
      split at hb
      · contradiction
      · injection hb with hb
        subst hb
        -- outputOriginal
        have h1 : ShingleInv len (token :: rest) (if oo = true then (st.1, token :: st.2) else st) := by
          split
          · exact ⟨hinv.1, cons_ok hinv.2.1 _ htok, hinv.2.2⟩
          · exact hinv
        -- fillers
        have h2 := foldl_inv (fun s => ShingleInv len (token :: rest) s)
          (fun s (_ : Nat) => shinglePush min max oo sep s (fillerToken fill))
          (List.range (token.posIncr - 1).toNat) _ h1 (by
            intro s _ _ hs
            apply shinglePush_inv min max oo sep len hlen _ s _ (Or.inl (fillerToken_isFiller fill)) _ _ hs
            · intro o _ _ hnf; exact absurd (fillerToken_isFiller fill) hnf
            · intro hnf; exact absurd (fillerToken_isFiller fill) hnf)
        -- the token itself
        have h3 := shinglePush_inv min max oo sep len hlen (token :: rest) _ token (Or.inr htok)
          (fun o ho hof _ => h2.2.2 o ho hof token (by simp))
          (fun _ y hy => by
            simp only [List.mem_cons] at hy
            rcases hy with rfl | hy
            · unfold Token.ok at htok; omega
            · exact hhead y hy) h2
        exact ⟨h3.1, h3.2.1, fun o ho hof y hy => h3.2.2 o ho hof y (by simp [hy])⟩)
    input ([], []) st ⟨hv, hm, ⟨⟨by simp, by simp⟩, by simp, by simp⟩⟩ hloop
  intro t ht
  exact key.2.2.2.1 t (List.mem_reverse.mp ht)

theorem shingleFilter_total' (min max : Int) (hmax : 1 ≤ max) (oo : Bool) (sep fill : Bytes) (input : List Token) :
    ∃ out, shingleFilter min max oo sep fill input = some out := by
  unfold shingleFilter
  apply exists_map_some
  apply loop_some
  intro token _ st
  have : ¬ max ≤ 0 := by omega
  simp only [this, if_false]
  exact ⟨_, rfl⟩

end Bluge.C18

import BlugeProofs.C03.Lemmas
/-! Helper lemmas of C14: the deletion policy's queues are in commit order, so the content of the newest complete
snapshot never decreases; `applied` only grows within a writer lifetime. -/
namespace Bluge.Persist

/-- `deletableEpochs ++ liveEpochs` is strictly ascending (auxiliary invariant) -/
def PolAsc (s : State) : Prop := (s.pol.deletable ++ s.pol.live).Pairwise (· < ·)

theorem pairwise_lt_of_le_nodup {l : List SnapFile} (h1 : l.Pairwise (fun a b => a.epoch ≤ b.epoch))
    (h2 : (l.map (·.epoch)).Nodup) : (l.map (·.epoch)).Pairwise (· < ·) := by
  induction l with
  | nil => exact List.Pairwise.nil
  | cons a r ih =>
    simp only [List.map_cons, List.pairwise_cons, List.nodup_cons, List.mem_map] at *
    refine ⟨?_, ih h1.2 h2.2⟩
    intro b hb
    obtain ⟨x, hx, hxe⟩ := hb
    have hle := h1.1 x hx
    have hne : a.epoch ≠ x.epoch := fun he => h2.1 ⟨x, hx, he.symm⟩
    omega

theorem polAsc_init (n : Nat) : PolAsc (init n) := by simp [PolAsc, init]

theorem polAsc_step {s s' : State} {ev : Event} (hI : Inv s) (hp : PolAsc s) (h : step s ev = some s') : PolAsc s' := by
  cases ev with
  | commit =>
    simp only [step, stepCommit] at h
    split at h
    · rename_i j hj
      split at h
      · rename_i hph
        cases h
        unfold PolAsc
        simp only []
        rw [Policy.commit_del_live, ← List.append_assoc, List.pairwise_append]
        refine ⟨hp, by simp, ?_⟩
        intro a ha b hb
        simp at hb; subst hb
        have ho : s.isOpen = true := by
          cases hopen : s.isOpen with
          | true => rfl
          | false => have := (hI.closed_idle hopen).1; rw [hj] at this; cases this
        rcases hI.pe ho a (by simpa using List.mem_append.mp ha) with h1 | ⟨j', hj', hc, _⟩
        · have := (hI.e1 j hj).1; omega
        · rw [hj] at hj'; cases hj'; rw [hph] at hc; cases hc
      · cases h
    · cases h
  | cleanupRemoveSnap e ok =>
    simp only [step, stepCleanupSnap] at h
    split at h
    · split at h
      · cases h
        unfold PolAsc at *
        simp only [Policy.removedSnap]
        exact hp.sublist (List.Sublist.append List.filter_sublist (List.Sublist.refl _))
      · cases h; exact hp
    · cases h
  | cleanupRemoveSeg sid ok =>
    simp only [step, stepCleanupSeg] at h
    split at h
    · split at h
      · split at h
        · cases h; exact hp
        · cases h
      · cases h; exact hp
    · cases h
  | openWriter =>
    simp only [step, stepOpen] at h
    split at h
    · cases h; exact hp
    · split at h
      · cases h
      · unfold reopen at h
        simp only [] at h
        split at h
        · split at h
          · cases h; simp [PolAsc]
          · cases h
        · cases h
          unfold PolAsc
          simp only []
          have hdl := commitFrom_del_live { n := s.pol.n } (loadOrder s.disk)
          simp only [List.append_nil, List.nil_append] at hdl
          rw [commitAll_eq, hdl]
          exact pairwise_lt_of_le_nodup (sortAsc_sorted _) (loadOrder_nodup hI.snap_nodup)
  | crash =>
    simp only [step, stepCrash] at h
    cases h; simp [PolAsc]
  | closeWriter =>
    simp only [step, stepClose] at h
    split at h
    · cases h; exact hp
    · cases h
  | _ =>
    simp only [step, stepIntro, stepIntroMerge, stepIntroPersist, stepIntroFail, stepGrab, stepSegBegin, stepSegEnd,
      stepMergeSegBegin, stepMergeSegEnd, stepEquiv, stepSnapBegin, stepSnapEnd, stepAck, stepPersistFail,
      stepReaderOpen, stepReaderClose, stepFault] at h
    repeat' split at h
    all_goals first | (cases h; done) | (cases h; exact hp)

theorem polAsc_xstep {s s' : State} {ev : XEvent} (hI : Inv s) (hp : PolAsc s) (h : xstep s ev = some s') : PolAsc s' := by
  cases ev with
  | base ev => exact polAsc_step hI hp h
  | tornSeg sid =>
    simp only [xstep, stepTornSeg] at h
    split at h
    · cases h; exact hp
    · cases h

theorem polAsc_xreachable {n : Nat} (hn : 1 ≤ n) {s : State} (h : XReachable n s) : PolAsc s := by
  induction h with
  | init => exact polAsc_init n
  | step ev hr _ hs ih => exact polAsc_xstep (inv_xreachable hn hr) ih hs

/-- every complete snapshot is followed, after any event, by a complete snapshot of at least its epoch and content -/
theorem content_stable_step {s s' : State} {ev : Event} (hI : Inv s) (hq : DelCommitted s) (hp : PolAsc s) (hx : ev.exact = true)
    (h : step s ev = some s') {f : SnapFile} (hf : f ∈ s.disk.snaps) (hfc : f.complete = true) :
    ∃ g ∈ s'.disk.snaps, g.complete = true ∧ f.epoch ≤ g.epoch ∧ f.k ≤ g.k := by
  have hjob : ∀ j, s.job = some j → ¬ j.phase.done → f.epoch ≠ j.epoch := by
    intro j hj hnd he
    have ho : s.isOpen = true := by
      cases hopen : s.isOpen with
      | true => rfl
      | false => have := (hI.closed_idle hopen).1; rw [hj] at this; cases this
    rcases hI.e2 ho f hf hfc with h1 | ⟨j', hj', _, hd⟩
    · have := (hI.e1 j hj).1; omega
    · rw [hj] at hj'; cases hj'; exact hnd hd
  have keep : f ∈ s'.disk.snaps → ∃ g ∈ s'.disk.snaps, g.complete = true ∧ f.epoch ≤ g.epoch ∧ f.k ≤ g.k :=
    fun hm => ⟨f, hm, hfc, Nat.le_refl _, Nat.le_refl _⟩
  cases ev with
  | snapBegin =>
    simp only [step, stepSnapBegin] at h
    split at h
    · rename_i j hj
      split at h
      · rename_i hph
        cases h
        apply keep
        rw [Disk.mem_putSnap]
        exact Or.inr ⟨hf, hjob j hj (by simp [Phase.done, hph])⟩
      · cases h
    · cases h
  | snapEnd ok exact =>
    simp only [step, stepSnapEnd] at h
    split at h
    · rename_i j hj
      split at h
      · rename_i hph
        split at h
        · cases h
          apply keep
          rw [Disk.mem_putSnap]
          exact Or.inr ⟨hf, hjob j hj (by simp [Phase.done, hph])⟩
        · cases h
          apply keep
          rw [Disk.mem_delSnap]
          exact ⟨hf, hjob j hj (by simp [Phase.done, hph])⟩
      · cases h
    · cases h
  | cleanupRemoveSnap e ok =>
    simp only [step, stepCleanupSnap] at h
    split at h
    · rename_i hg
      split at h
      · cases h
        by_cases hfe : f.epoch = e
        · have hne : s.pol.deletable ≠ [] := by intro h0; rw [h0] at hg; exact absurd hg.2.2 (by simp)
          have hlive := live_ne_nil hI (hq hne)
          cases hl : s.pol.live with
          | nil => exact absurd hl hlive
          | cons e' r =>
            have he' : e' ∈ s.pol.live := by simp [hl]
            obtain ⟨g, hg1, hg2, hg3⟩ := hI.lf e' he'
            have hlt : e < e' := by
              have := List.pairwise_append.mp hp
              exact this.2.2 e hg.2.2 e' he'
            have hge : f.epoch ≤ g.epoch := by omega
            refine ⟨g, ?_, hg3, hge, hI.mo f hf g hg1 hfc hg3 hge⟩
            rw [Disk.mem_delSnap]
            exact ⟨hg1, by omega⟩
        · apply keep
          rw [Disk.mem_delSnap]
          exact ⟨hf, hfe⟩
      · cases h; exact keep hf
    · cases h
  | _ =>
    simp only [step, stepIntro, stepIntroMerge, stepIntroPersist, stepIntroFail, stepGrab, stepSegBegin, stepSegEnd,
      stepMergeSegBegin, stepMergeSegEnd, stepEquiv, stepCommit, stepAck, stepPersistFail, stepCleanupSeg,
      stepReaderOpen, stepReaderClose, stepFault, stepCrash, stepOpen, stepClose, reopen] at h
    repeat' split at h
    all_goals first | (cases h; done) | (cases h; exact keep hf)

theorem content_stable_xstep {s s' : State} {ev : XEvent} (hI : Inv s) (hq : DelCommitted s) (hp : PolAsc s) (hx : ev.exact = true)
    (h : xstep s ev = some s') {f : SnapFile} (hf : f ∈ s.disk.snaps) (hfc : f.complete = true) :
    ∃ g ∈ s'.disk.snaps, g.complete = true ∧ f.epoch ≤ g.epoch ∧ f.k ≤ g.k := by
  cases ev with
  | base ev => exact content_stable_step hI hq hp hx h hf hfc
  | tornSeg sid =>
    simp only [xstep, stepTornSeg] at h
    split at h
    · cases h; exact ⟨f, hf, hfc, Nat.le_refl _, Nat.le_refl _⟩
    · cases h

theorem content_stable_xlater {n : Nat} (hn : 1 ≤ n) {s s' : State} (hr : XReachable n s) (hl : XLater s s')
    {f : SnapFile} (hf : f ∈ s.disk.snaps) (hfc : f.complete = true) :
    ∃ g ∈ s'.disk.snaps, g.complete = true ∧ f.epoch ≤ g.epoch ∧ f.k ≤ g.k := by
  induction hl with
  | refl => exact ⟨f, hf, hfc, Nat.le_refl _, Nat.le_refl _⟩
  | step ev hl' hx hs ih =>
    obtain ⟨g, hg, hgc, he, hk⟩ := ih
    have hr' := xreachable_xlater hr hl'
    obtain ⟨g2, hg2, hg2c, he2, hk2⟩ :=
      content_stable_xstep (inv_xreachable hn hr') (delCommitted_xreachable hr') (polAsc_xreachable hn hr') hx hs hg hgc
    exact ⟨g2, hg2, hg2c, Nat.le_trans he he2, Nat.le_trans hk hk2⟩

/-- events that do not end the writer's lifetime -/
def keepsLifetime : Event → Bool
  | .crash => false
  | .closeWriter => false
  | _ => true

/-- within a lifetime the number of applied batches only grows -/
theorem applied_mono {s s' : State} {ev : Event} (hI : Inv s) (ho : s.isOpen = true) (hk : keepsLifetime ev = true)
    (h : step s ev = some s') : s.applied ≤ s'.applied ∧ s'.isOpen = true := by
  have hlock : s.lock = true := by rw [hI.lock_iff]; exact ho
  cases ev with
  | crash => cases hk
  | closeWriter => cases hk
  | openWriter =>
    simp only [step, stepOpen, hlock, if_true] at h
    cases h; exact ⟨Nat.le_refl _, ho⟩
  | _ =>
    simp only [step, stepIntro, stepIntroMerge, stepIntroPersist, stepIntroFail, stepGrab, stepSegBegin, stepSegEnd,
      stepMergeSegBegin, stepMergeSegEnd, stepEquiv, stepSnapBegin, stepSnapEnd, stepCommit, stepAck, stepPersistFail,
      stepCleanupSnap, stepCleanupSeg, stepReaderOpen, stepReaderClose, stepFault] at h
    repeat' split at h
    all_goals first | (cases h; done) | (cases h; exact ⟨by simp, ho⟩) | (cases h; exact ⟨Nat.le_refl _, ho⟩)

/-- `s'` is reached from `s` without a crash or a close (the same writer keeps running) -/
inductive SameLifetime : State → State → Prop
  | refl (s : State) : SameLifetime s s
  | step {s s' s'' : State} (ev : Event) : SameLifetime s s' → ev.exact = true → keepsLifetime ev = true →
      step s' ev = some s'' → SameLifetime s s''

theorem sameLifetime_applied {s s' : State} (hI : Inv s) (ho : s.isOpen = true) (h : SameLifetime s s') :
    s.applied ≤ s'.applied ∧ s'.isOpen = true ∧ Inv s' := by
  induction h with
  | refl => exact ⟨Nat.le_refl _, ho, hI⟩
  | step ev _ hx hk hs ih =>
    obtain ⟨h1, h2, h3⟩ := ih
    obtain ⟨h4, h5⟩ := applied_mono h3 h2 hk hs
    exact ⟨Nat.le_trans h1 h4, h5, inv_step h3 hx hs⟩

theorem isFault_exact {ev : Event} (h : isFault ev = true) : ev.exact = true := by
  cases ev with
  | segEnd sid ok x => cases ok <;> simp_all [isFault, Event.exact]
  | mergeSegEnd sid ok x => cases ok <;> simp_all [isFault, Event.exact]
  | snapEnd ok x => cases ok <;> simp_all [isFault, Event.exact]
  | _ => rfl

/-- without a fault `reopenSkip` is `reopen` -/
theorem reopenSkip_nil (s : State) : reopenSkip [] s = reopen s := by
  unfold reopenSkip reopen
  have : (loadOrder s.disk).filter (fun f => !([] : List Nat).contains f.epoch) = loadOrder s.disk := by
    rw [List.filter_eq_self]; intro a _; simp
  simp only [this]
  rfl

end Bluge.Persist

import BlugeProofs.C01
import BlugeProofs.C06.Equiv
import BlugeProofs.C06.Align
import BlugeProofs.C19.Plan
import BlugeProofs.C06.Facts
import BlugeGen.C06
/-! # C06 — background merges and persists never change logical content

Property theorems only (lemmas: `BlugeProofs/C06/*.lean` and C01's `BlugeProofs/C01/*.lean`; model: `Bluge/Index.lean`
+ `Bluge/C06/Model.lean`). A *history* is any finite sequence of `Event`s — batches (each prepared against ANY root of
the history), persist introductions, merge introductions (each planned against ANY root of the history, over any of
its segments, in-memory or file merge) — that is `HistoryWF`: segment ids are fresh and a re-loaded segment has the
documents that were written. The merge task is what the plugin assumption says (`MergeTask.plan`/`mergeSpec`); the
harness checks that on every real `Merge` (`bad:assumption-merge-wf`).
`~` is `List.Perm`, `Root.abs` the live documents of a root, `absOf` the abstract index (`foldl applyBatch []`). -/
namespace Bluge.C06
open Bluge.Index List

/-! ## the tie to the source (Gen) -/

set_option maxRecDepth 100000 in
/-- The statements of `ProcessSegmentNow`, `introduceMerge`, `introducePersist`, `introduceSegment`,
`persistSnapshotMaybeMerge`, `mergeSegmentBases`, `planSegmentsToMerge`, `executeMergeTask` and `segmentSnapshot.Count/
DocNumbersLive` that touch the deleted bitmaps, the doc-number tables, the running offsets and `old`, extracted from
/repo's current source, are the ones the model was transcribed from (`BlugeProofs/C06/Facts.lean` says where each went);
in particular the set algebra is `roaring.AndNot` / `roaring.Or` (pure), and no method that mutates a bitmap is ever
called on a `deleted` bitmap. -/
theorem gen_facts_match_model : BlugeGen.C06.facts = expectedFacts := by decide

/-! ## what never changes: segment ids, segment contents, deleted sets only grow -/

/-- **deleted sets only grow, segments are immutable**: along every history, a segment id that stands in an earlier
and in a later root has the same documents in both, and everything deleted earlier is deleted later -/
theorem deleted_monotone (evs evs' : List Event) (hwf : HistoryWF State.init (evs ++ evs')) :
    ∀ so ∈ (run evs).root.segs, ∀ sn ∈ (run (evs ++ evs')).root.segs, so.sid = sn.sid →
      so.docs = sn.docs ∧ ∀ x ∈ so.deleted, x ∈ sn.deleted := by
  intro so hso sn hsn hsid
  have hi := C01.reachable_inv _ hwf
  have hmem := prefix_root_mem evs evs'
  exact ⟨hi.hist.cons _ hmem _ (root_mem_history _) so hso sn hsn hsid,
         hi.hist.mono_root _ hmem so hso sn hsn hsid⟩

/-- **a segment id that left the root never returns** -/
theorem sid_never_returns (evs₁ evs₂ evs₃ : List Event) (hwf : HistoryWF State.init (evs₁ ++ evs₂ ++ evs₃)) (sid : Nat)
    (h1 : sid ∈ (run evs₁).root.sids) (h2 : sid ∉ (run (evs₁ ++ evs₂)).root.sids) :
    sid ∉ (run (evs₁ ++ evs₂ ++ evs₃)).root.sids := by
  intro h3
  have hc := reachable_chain _ hwf
  unfold HistChain at hc
  obtain ⟨l, hl⟩ := history_foldl evs₃ (run (evs₁ ++ evs₂))
  rw [← run_append] at hl
  have hmid : ∃ y ∈ (run (evs₁ ++ evs₂)).history, sid ∈ y.sids := ⟨_, prefix_root_mem evs₁ evs₂, h1⟩
  cases l with
  | nil =>
    -- nothing happened after the middle state
    have : (run (evs₁ ++ evs₂ ++ evs₃)).root = (run (evs₁ ++ evs₂)).root := by
      have := congrArg List.head? hl
      simpa [State.history] using this
    rw [this] at h3; exact h2 h3
  | cons r l' =>
    have hr : r = (run (evs₁ ++ evs₂ ++ evs₃)).root := by
      have := congrArg List.head? hl
      simpa [State.history] using this.symm
    rw [hl] at hc
    have hc' : Chain (r :: (l' ++ (run (evs₁ ++ evs₂)).root :: (run (evs₁ ++ evs₂)).past)) := hc
    exact h2 (chain_contiguous l' r _ _ sid hc' (by rw [hr]; exact h3) hmid)

/-! ## the two background introductions keep the live documents -/

/-- a persist swap keeps the root's current deleted bitmaps, hence the live documents -/
theorem introducePersist_abs (r : Root) (epoch : Nat) (p : Persisted) (h : PersistWF r p) :
    (introducePersist r epoch p).abs = r.abs := C01.introducePersist_abs r epoch p h

/-- **a merge introduction keeps the live documents** — all four cases of `introduceMerge`: a merged segment still in
the root (deletes since merge start `AndNot(now, atStart)` mapped through `oldNewDocNums`), a merged segment dropped
from the root meanwhile (the loop over what is left in `old`), `old[sid] = nil`, and the skipped introduction — for
segment snapshots `picked` compatible with the current root (`MergeCompat`) -/
theorem introduceMerge_abs (P : Root) (picked : List SegSnap) (hc : MergeCompat P picked)
    (fileMerge : Bool) (id epoch : Nat) :
    (introduceMerge P epoch (MergeTask.plan picked id fileMerge)).abs ~ P.abs :=
  C01.introduceMerge_abs P picked hc fileMerge id epoch

/-- … and the snapshots a merge took from ANY earlier root of ANY history are compatible with the current root: a merge
planned `k` roots ago over any segments `pick`, introduced now, keeps the live documents -/
theorem introduceMerge_abs_reachable (evs : List Event) (hwf : HistoryWF State.init evs) (k : Nat) (pick : List Nat)
    (fileMerge : Bool) (id epoch : Nat) :
    (introduceMerge (run evs).root epoch
      (MergeTask.plan (((run evs).seen k).segs.filter (fun ss => pick.contains ss.sid)) id fileMerge)).abs ~ (run evs).root.abs :=
  C01.introduceMerge_abs _ _ (C01.merge_compat_of_reachable evs hwf k pick) fileMerge id epoch

/-- **every document of the merged segments deleted before the introduction** (each merged segment has no live document
in the root any more: deleted there, or the segment dropped) ⇒ the introduction is skipped, the new root consists of
segments of the old root only, and the live documents are unchanged (as a list, not only up to permutation) -/
theorem merge_all_deleted (P : Root) (picked : List SegSnap) (hc : MergeCompat P picked) (fileMerge : Bool) (id epoch : Nat)
    (hall : ∀ s0 ∈ picked, ∀ s ∈ P.segs, s.sid = s0.sid → s.live = []) :
    mergeSkipped P (MergeTask.plan picked id fileMerge) = true ∧
    (∀ ss ∈ (introduceMerge P epoch (MergeTask.plan picked id fileMerge)).segs, ss ∈ P.segs) ∧
    (introduceMerge P epoch (MergeTask.plan picked id fileMerge)).abs = P.abs :=
  introduceMerge_all_deleted hc fileMerge id epoch hall

/-- the real `introduceMerge` dereferences a `nil` entry left behind in `old` (`ss.DocNumbersLive()` on a nil
receiver); that entry needs a segment without live documents in a root — **no reachable history has one**
(`noEmpty` is an invariant), so the model's totality hides no panic -/
theorem no_merge_faults_reachable (evs : List Event) (hwf : HistoryWF State.init evs) (k : Nat) (pick : List Nat)
    (fileMerge : Bool) (id : Nat) :
    mergeFaults (run evs).root
      (MergeTask.plan (((run evs).seen k).segs.filter (fun ss => pick.contains ss.sid)) id fileMerge) = false := by
  have hne := reachable_noEmpty evs hwf _ ((run evs).seen_mem k)
  have hi := C01.reachable_inv evs hwf
  have hnd := hi.hist.nodup _ (root_mem_history (run evs))
  have hml := (mergeLoop_spec (MergeTask.plan (((run evs).seen k).segs.filter (fun ss => pick.contains ss.sid)) id fileMerge).oldNew
    (run evs).root.segs (MergeTask.plan (((run evs).seen k).segs.filter (fun ss => pick.contains ss.sid)) id fileMerge).old [] hnd).2.1
  show ((mergeLoop _ (run evs).root.segs _ []).2.1).any (fun e => e.2.isNone) = false
  rw [hml, plan_old, List.any_eq_false]
  intro e he
  have he' := (List.mem_filter.mp he).1
  obtain ⟨ss, hss, rfl⟩ := List.mem_map.mp he'
  have hpos := hne ss (List.mem_filter.mp hss).1
  unfold oldEntry
  simp [hpos]

/-- every root of every reachable history holds only segments with live documents -/
theorem reachable_roots_noEmpty (evs : List Event) (hwf : HistoryWF State.init evs) :
    ∀ r ∈ (run evs).history, r.noEmpty := reachable_noEmpty evs hwf

/-! ## the snapshot written after an in-memory merge -/

/-- **`equiv_snapshot_abs`**: the persister grabbed the root after `evs` (epoch E); while it merged the in-memory
segments of that root, ANY further batches, merges and persists `evs'` were introduced; the merge is introduced now.
If `persistSnapshotMaybeMerge` persists its `equiv` snapshot, that snapshot carries epoch E and holds exactly the
abstract index after the batches of `evs` — the documents of the root grabbed at E, none of the later ones. -/
theorem equiv_snapshot_abs (evs evs' : List Event) (hwf : HistoryWF State.init (evs ++ evs'))
    (id : Nat) (hid : id ∉ (run (evs ++ evs')).usedSids) (minSegs : Nat) (newRoot eq : Root)
    (h : persistSnapshotMaybeMerge (run evs).root (run (evs ++ evs')).root (run (evs ++ evs')).nextEpoch id minSegs
          = some (newRoot, eq)) :
    eq.epoch = (run evs).root.epoch ∧ eq.abs ~ (run evs).root.abs ∧ eq.abs ~ absOf (batchesOf evs) ∧
    newRoot.abs ~ absOf (batchesOf (evs ++ evs')) := by
  have hi := C01.reachable_inv _ hwf
  have hmem := prefix_root_mem evs evs'
  -- the grabbed root is `seen k` for some k
  obtain ⟨k, hk⟩ : ∃ k, (run (evs ++ evs')).seen k = (run evs).root := by
    obtain ⟨k, hk⟩ := List.getElem?_of_mem hmem
    exact ⟨k, by unfold State.seen; rw [hk]; rfl⟩
  have hsub : (inMemSegs (run evs).root).Sublist ((run (evs ++ evs')).seen k).segs := by
    rw [hk]; exact List.filter_sublist
  have hc := hi.mergeCompat_sub k hsub
  have hnd := hi.hist.nodup _ hmem
  have hfresh : ∀ ss ∈ (run (evs ++ evs')).root.segs, ss.sid ≠ id :=
    not_mem_usedSids hid _ (root_mem_history _)
  obtain ⟨h1, h2, h3⟩ := equivSnapshot_abs hc hnd hfresh _ minSegs h
  have hpre := C01.C01_refines evs (historyWF_append hwf).1
  refine ⟨h2, h3, h3.trans hpre, ?_⟩
  rw [h1]
  exact (introduceMerge_plan_abs hc false id _).trans (C01.C01_refines _ hwf)

/-! ## `executeMergeTask`: `task.Segments[i]` ↔ `newDocNums[i]` -/

section planner
open Bluge.MergePlan
variable {σ : Type} (o : Options) (cb : Int → Int → Int) (score : List MergePlan.Seg → σ) (lt : σ → σ → Bool)

/-- every task the planner (model of `mergeplan.Plan`, C19) returns is all-empty or all-non-empty -/
theorem plan_tasks_homogeneous (segs : List MergePlan.Seg) :
    ∀ t ∈ planTasks o cb score lt segs, (∀ s ∈ t, s.liveSize ≤ 0) ∨ (∀ s ∈ t, 0 < s.liveSize) := by
  intro t ht
  rcases C19.task_cases o cb score lt ht with ⟨rfl, _⟩ | hg
  · left; intro s hs; exact ((C19.mem_prep_empties o cb).1 hs).2
  · right; intro s hs; exact (C19.mem_prep_eligibles1 o cb (hg.sub.subset hs)).2

/-- what the merger shows the planner of a segment snapshot (`mergeplan.Segment`: `ID`, `FullSize`, `LiveSize`) -/
def toPlanSeg (ss : SegSnap) : MergePlan.Seg := ⟨ss.sid, ss.docs.length, ss.liveSize⟩

/-- **alignment for planned tasks**: a task the planner returned is homogeneous, so `executeMergeTask` — which attaches
the i-th table the plugin returned to the i-th segment of the TASK — builds exactly the task of the model, where
every table is keyed by the segment it was computed for -/
theorem executeMergeTask_aligned_planned (segs : List MergePlan.Seg) (task : List SegSnap) (id : Nat)
    (ht : task.map toPlanSeg ∈ planTasks o cb score lt segs) :
    executeMergeTask task id = MergeTask.plan task id true := by
  apply executeMergeTask_aligned'
  rcases plan_tasks_homogeneous o cb score lt segs _ ht with h | h
  · left
    intro ss hss
    have := h (toPlanSeg ss) (List.mem_map.mpr ⟨ss, hss, rfl⟩)
    unfold toPlanSeg at this
    simp only [] at this
    omega
  · right
    intro ss hss
    have := h (toPlanSeg ss) (List.mem_map.mpr ⟨ss, hss, rfl⟩)
    unfold toPlanSeg at this
    simp only [] at this
    omega
end planner

/-- alignment, for any homogeneous task -/
theorem executeMergeTask_aligned (task : List SegSnap) (id : Nat) (h : Homogeneous task) :
    executeMergeTask task id = MergeTask.plan task id true := executeMergeTask_aligned' task id h

/-- **alignment for every task over a reachable root, whatever the planner does**: no reachable root has a segment
without live documents, so every sub-list of segments of any root of the history is homogeneous -/
theorem executeMergeTask_aligned_reachable (evs : List Event) (hwf : HistoryWF State.init evs) (k : Nat)
    (task : List SegSnap) (hsub : ∀ ss ∈ task, ss ∈ ((run evs).seen k).segs) (id : Nat) :
    executeMergeTask task id = MergeTask.plan task id true := by
  apply executeMergeTask_aligned'
  right
  intro ss hss
  exact reachable_noEmpty evs hwf _ ((run evs).seen_mem k) ss (hsub ss hss)

/-- homogeneity is needed: a task that mixes an empty segment (id 1) with a non-empty one (id 2) gets the table of
segment 2 attached to segment 1; the delete of document 3 that raced with the merge is then lost (in Go the lookup
`oldNewDocNums[2][1]` indexes a nil slice and panics; the total model returns `docDropped`) and the document is back -/
theorem executeMergeTask_misaligned_witness :
    let e : SegSnap := ⟨1, [⟨1, 10⟩], [0], true⟩
    let a : SegSnap := ⟨2, [⟨2, 20⟩, ⟨3, 30⟩], [], true⟩
    let P : Root := ⟨5, [⟨2, [⟨2, 20⟩, ⟨3, 30⟩], [1], true⟩]⟩
    ¬ Homogeneous [e, a] ∧
    (executeMergeTask [e, a] 9).oldNew = [(1, [0, 1])] ∧ (MergeTask.plan [e, a] 9 true).oldNew = [(2, [0, 1])] ∧
    P.abs = [⟨2, 20⟩] ∧
    (introduceMerge P 6 (MergeTask.plan [e, a] 9 true)).abs = [⟨2, 20⟩] ∧
    (introduceMerge P 6 (executeMergeTask [e, a] 9)).abs = [⟨2, 20⟩, ⟨3, 30⟩] := by
  decide

/-! ## refinement over all histories -/

/-- **refinement** (C01's theorem, restated for C06): for every well-formed history of batches interleaved with any
in-memory merges, file merges, skipped merges and persist swaps, the live documents of the root are a permutation of
the abstract index of the batches in introduction order -/
theorem C06_refines (evs : List Event) (hwf : HistoryWF State.init evs) :
    (run evs).root.abs ~ absOf (batchesOf evs) := C01.C01_refines evs hwf

/-- … and that holds at EVERY phase: every root a reader can ever have seen (every prefix of the history) holds
exactly the abstract index of the batches introduced up to then -/
theorem C06_refines_every_phase (evs evs' : List Event) (hwf : HistoryWF State.init (evs ++ evs')) :
    (run evs).root ∈ (run (evs ++ evs')).history ∧ (run evs).root.abs ~ absOf (batchesOf evs) :=
  ⟨prefix_root_mem evs evs', C01.C01_refines evs (historyWF_append hwf).1⟩

/-- **merges and persists are invisible**: whatever sequence `bg` of merge and persist introductions (no batch) follows
a history, the live documents are those before it -/
theorem merge_persist_invisible (evs bg : List Event) (hwf : HistoryWF State.init (evs ++ bg)) (hbg : batchesOf bg = []) :
    (run (evs ++ bg)).root.abs ~ (run evs).root.abs := by
  have h1 := C01.C01_refines _ hwf
  have h2 := C01.C01_refines evs (historyWF_append hwf).1
  rw [batchesOf_app, hbg, List.append_nil] at h1
  exact h1.trans h2.symm

/-- **a delete or update that races with merges and persists is applied exactly**: a batch `b` (prepared against any
root) followed by any merge/persist introductions `bg` — merges planned BEFORE the batch (`seen` pointing behind it)
included — leaves exactly the content before the batch with the batch applied -/
theorem racing_batch_exact (evs bg : List Event) (b : Batch) (k sid : Nat)
    (hwf : HistoryWF State.init (evs ++ [Event.batch b k sid] ++ bg)) (hbg : batchesOf bg = []) :
    (run (evs ++ [Event.batch b k sid] ++ bg)).root.abs ~ applyBatch (run evs).root.abs b := by
  have h1 := C01.C01_refines _ hwf
  have hwf' := (historyWF_append (historyWF_append hwf).1).1
  have h2 := C01.C01_refines evs hwf'
  rw [batchesOf_app, batchesOf_app, hbg, List.append_nil] at h1
  have : batchesOf [Event.batch b k sid] = [b] := rfl
  rw [this, absOf_append] at h1
  exact h1.trans (applyBatch_perm h2.symm b)

/-- … so the old version of a document named by the batch does not reappear (**no lost delete, no resurrection**): every
live document whose id the batch names is one of the batch's own documents -/
theorem racing_delete_not_lost (evs bg : List Event) (b : Batch) (k sid : Nat)
    (hwf : HistoryWF State.init (evs ++ [Event.batch b k sid] ++ bg)) (hbg : batchesOf bg = []) :
    ∀ d ∈ (run (evs ++ [Event.batch b k sid] ++ bg)).root.abs, d.id ∈ b.ids → d ∈ b.docs := by
  intro d hd hid
  have hp := racing_batch_exact evs bg b k sid hwf hbg
  have hd' := hp.subset hd
  unfold applyBatch at hd'
  rcases List.mem_append.mp hd' with h | h
  · have := (List.mem_filter.mp h).2
    simp at this
    exact absurd hid this
  · exact h

/-- … and **nothing is dropped or duplicated**: every document occurs exactly as often as in the abstract index -/
theorem no_drop_no_duplicate (evs : List Event) (hwf : HistoryWF State.init evs) (d : Doc) :
    (run evs).root.abs.count d = (absOf (batchesOf evs)).count d := C01.matchAll_enumerates evs hwf d

/-! ## non-vacuity -/

/-- a file merge of segments 1 and 2 is planned against the root after two batches (`seen = 2` roots back at its
introduction); meanwhile one batch deletes id 1 (segment 1: delete since merge start, mapped) and one deletes ids 3 and 4
(ALL of segment 2: dropped from the root meanwhile); the merged segment 9 comes in with exactly those three deleted -/
example :
    let evs := [Event.batch (Batch.ofOps [.update 1 ⟨1, 10⟩, .update 2 ⟨2, 11⟩]) 0 1,
                Event.batch (Batch.ofOps [.update 3 ⟨3, 12⟩, .update 4 ⟨4, 13⟩]) 0 2,
                Event.persist [(1, [⟨1, 10⟩, ⟨2, 11⟩]), (2, [⟨3, 12⟩, ⟨4, 13⟩])],
                Event.batch (Batch.ofOps [.delete 1]) 0 3,
                Event.batch (Batch.ofOps [.delete 3, .delete 4]) 0 4,
                Event.merge 2 [1, 2] true 9]
    HistoryWF State.init evs ∧
    (run evs).root.segs = [⟨9, [⟨1, 10⟩, ⟨2, 11⟩, ⟨3, 12⟩, ⟨4, 13⟩], [0, 2, 3], true⟩] ∧
    absOf (batchesOf evs) = [⟨2, 11⟩] := by
  decide

/-- `merge_all_deleted` is not vacuous: both merged segments are completely deleted before the introduction (one still
in the root would contradict `noEmpty`, so both have been dropped); the introduction is skipped -/
example :
    let P : Root := ⟨7, [⟨3, [⟨5, 30⟩], [], false⟩]⟩
    let picked : List SegSnap := [⟨1, [⟨1, 10⟩, ⟨2, 11⟩], [0], true⟩, ⟨2, [⟨4, 20⟩], [], true⟩]
    (∀ s0 ∈ picked, ∀ s ∈ P.segs, s.sid = s0.sid → s.live = []) ∧
    mergeSkipped P (MergeTask.plan picked 9 true) = true ∧
    (introduceMerge P 8 (MergeTask.plan picked 9 true)).segs = P.segs := by
  decide

/-- `equiv_snapshot_abs` is not vacuous: the persister grabs the root after two batches (two in-memory segments), a third
batch deleting id 1 lands while it merges; the snapshot written for epoch 2 still holds document 1, the root does not -/
example :
    let evs := [Event.batch (Batch.ofOps [.update 1 ⟨1, 10⟩]) 0 1, Event.batch (Batch.ofOps [.update 2 ⟨2, 11⟩]) 0 2]
    let evs' := [Event.batch (Batch.ofOps [.delete 1]) 0 3]
    HistoryWF State.init (evs ++ evs') ∧ 9 ∉ (run (evs ++ evs')).usedSids ∧
    persistSnapshotMaybeMerge (run evs).root (run (evs ++ evs')).root 4 9 2 =
      some (⟨4, [⟨9, [⟨1, 10⟩, ⟨2, 11⟩], [0], true⟩]⟩, ⟨2, [⟨9, [⟨1, 10⟩, ⟨2, 11⟩], [], true⟩]⟩) := by
  decide

end Bluge.C06

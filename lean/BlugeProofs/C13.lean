import Bluge.FS
import BlugeGen.C13
import BlugeProofs.C13.Canon
/-! # C13 — the file-system directory reports success only for durable, exact files

Property theorems only (helper lemmas: `BlugeProofs/C13/Lemmas.lean`, `BlugeProofs/C13/Canon.lean`).
Every theorem is about `interp BlugeGen.C13.persistProgram` / `removeProgram`, the programs that
`go/extract/c13.go` regenerates from `FileSystemDirectory.Persist` / `.remove` of /repo's working
tree on every run.  They quantify over **every** environment `env` (content, chunking, the byte at
which the writer stops with an error or is cancelled, which calls fail, a lock held by somebody
else) and **every** prior state `s` (file absent / shorter / equal / longer, durable or not).

The generated program is tied to the proved family `canon p` by `persist_shape` (`decide`): a
dropped or moved `Sync`, a missing clean-up call, an error branch that does not return — each makes
`persist_shape` (and with it `lake build`) fail.  Whether the program empties the file before
writing is *not* fixed by the shape: it is the decidable `HasTruncate persistProgram`, and

* `persist_exact_durable`   : `HasTruncate persistProgram = true → ExactDurable persistProgram`
  is the FULL statement of the property (no restriction on the prior file);
* `persist_exact_durable_partial` is what holds without truncation (prior file not longer);
* `persist_no_truncate_counterexample` / `persist_exact_durable_iff` : without truncation the full
  statement is FALSE, with the concrete witness `new` over `OLDOLDOLDOLDOLDOLD`.

Which of the two worlds the current tree is in is decided by the kernel in `checks/c13.py`
(`ExactDurable persistProgram := persist_exact_durable (by decide)` either checks or it does not) and
the witness is replayed on the real code by the correspondence stream.
-/
namespace Bluge.C13
open Bluge.FS BlugeGen.C13

/-- Gen tie: the extracted `Persist` is a program of the proved shape (exclusive non-truncating open
with usable flags; optional `Truncate(0)`; writer, `Sync`, `Close` in this order; every error branch
after the open closes and unlinks). -/
theorem persist_shape :
    canon (shapeOf persistProgram) = persistProgram ∧ Good (shapeOf persistProgram) = true ∧
    (shapeOf persistProgram).lock = .exclusive := by decide

/-- Gen tie: the open of `Persist` does not carry `O_TRUNC` (which would empty a file whose lock is not ours). -/
theorem persist_open_does_not_truncate : openTruncates persistProgram = false := by decide

/-- Gen tie: the extracted `remove` is: exclusive non-truncating open, deferred close, unlink. -/
theorem remove_shape :
    canonRemove (removeShapeOf removeProgram).1 (removeShapeOf removeProgram).2.1 (removeShapeOf removeProgram).2.2 = removeProgram ∧
    Good ⟨(removeShapeOf removeProgram).1, (removeShapeOf removeProgram).2.1, (removeShapeOf removeProgram).2.2, false⟩ = true ∧
    (removeShapeOf removeProgram).1.contains .O_TRUNC = false ∧
    (removeShapeOf removeProgram).2.2 = .exclusive := by decide

/-- FULL statement. For every content, chunking, fault placement and every prior file state
(absent, shorter, equal, longer): if `Persist` returns nil then the file is exactly the content,
volatile and durable image alike, the handle is released, and an `fsync` succeeded after the last
write/truncate and before the return.  Hypothesis: the extracted program empties the file before
writing (decidable on the generated program; FALSE on the pinned tree, see below). -/
theorem persist_exact_durable (h : HasTruncate persistProgram = true) : ExactDurable persistProgram := by
  have e := persist_shape.1
  rw [← e] at h ⊢
  exact canon_exact _ persist_shape.2.1 h

/-- What holds for the program as extracted, truncating or not: the full conclusion for every prior
file that is not longer than the new content. -/
theorem persist_exact_durable_partial : ExactDurableIfNotLonger persistProgram := by
  have e := persist_shape.1
  rw [← e]
  exact canon_partial _ persist_shape.2.1

/-- Without truncation the full statement fails on a concrete input: persisting `new` over an
existing `OLDOLDOLDOLDOLDOLD` returns nil and leaves (durably) `newOLDOLDOLDOLDOLD`. -/
theorem persist_no_truncate_counterexample (h : HasTruncate persistProgram = false) :
    (interp persistProgram witnessEnv witnessState).1 = .ok ∧
    (interp persistProgram witnessEnv witnessState).2.1.dir witnessEnv.name =
      some ⟨bNew ++ bOld.drop bNew.length, some (bNew ++ bOld.drop bNew.length)⟩ := by
  have e := persist_shape.1
  rw [← e] at h ⊢
  exact canon_witness _ persist_shape.2.1 h

/-- The full statement holds exactly when the program truncates. -/
theorem persist_exact_durable_iff : ExactDurable persistProgram ↔ HasTruncate persistProgram = true := by
  constructor
  · intro hx
    cases h : HasTruncate persistProgram
    · exfalso
      have e := persist_shape.1
      rw [← e] at h hx
      exact canon_not_exact _ persist_shape.2.1 h hx
    · rfl
  · exact persist_exact_durable

/-- If the writer fails after any k bytes or is cancelled, or `Sync` fails, or `Close` fails (or the
truncation fails), `Persist` returns the error and the name is absent afterwards, handle released —
for every prior state and chunking; given that the file could be opened and `unlink` itself works.
Conversely a nil return implies that none of these happened. -/
theorem persist_fail_clean : FailClean persistProgram := by
  have e := persist_shape.1
  rw [← e]
  exact canon_fail_clean _ persist_shape.2.1

/-- `Persist` touches no other name, whatever happens. -/
theorem persist_frame : Frame persistProgram := by
  have e := persist_shape.1
  rw [← e]
  exact canon_frame _ persist_shape.2.1

/-- `OpenFile` itself fails: error, directory untouched. -/
theorem persist_open_fault (env : Env) (s : FSState) (h : env.openFault = true) :
    (interp persistProgram env s).1 = .err ∧ (interp persistProgram env s).2.1.dir = s.dir := by
  have e := persist_shape.1
  rw [← e]
  exact canon_open_fault _ env s h

/-- The one failure that leaves a file: somebody else holds a lock (so the exclusive, non-blocking
lock attempt fails) on a name that did not exist when `O_CREATE` ran — the empty file stays.
Stated, not judged: the file is empty, not partial, and belongs to whoever holds the lock. -/
theorem open_fail_leaves_empty (env : Env) (s : FSState) (h1 : env.openFault = false)
    (h2 : env.otherLock ≠ .none) (hd : s.dir env.name = none) :
    (interp persistProgram env s).1 = .err ∧
    (interp persistProgram env s).2.1.dir env.name = some ⟨[], none⟩ := by
  have e := persist_shape.1
  have hl : lockBlocked (shapeOf persistProgram).lock env.otherLock = true := by
    rw [persist_shape.2.2]; cases ho : env.otherLock <;> simp_all [lockBlocked]
  rw [← e]
  exact canon_lock_fail_absent _ persist_shape.2.1 env s h1 hl hd

/-- A file that somebody else holds a lock on is not modified by a `Persist` of the same name
(this is what `O_TRUNC` in the open flags would break, and why the repair truncates after the lock). -/
theorem lock_fail_preserves_prior (env : Env) (s : FSState) (f : File) (h1 : env.openFault = false)
    (h2 : env.otherLock ≠ .none) (hd : s.dir env.name = some f) :
    (interp persistProgram env s).1 = .err ∧ (interp persistProgram env s).2.1.dir env.name = some f := by
  have e := persist_shape.1
  have hl : lockBlocked (shapeOf persistProgram).lock env.otherLock = true := by
    rw [persist_shape.2.2]; cases ho : env.otherLock <;> simp_all [lockBlocked]
  have hnt := persist_open_does_not_truncate
  rw [← e] at hnt ⊢
  exact canon_lock_fail_present _ persist_shape.2.1 env s f hnt h1 hl hd

/-- `remove` reports success only when the name is gone, and has released its handle. -/
theorem remove_ok_absent (env : Env) (s : FSState) (hok : (interp removeProgram env s).1 = .ok) :
    (interp removeProgram env s).2.1.dir env.name = none ∧ (interp removeProgram env s).2.1.h = none := by
  have e := remove_shape.1
  rw [← e] at hok ⊢
  exact canonRemove_ok _ _ _ remove_shape.2.1 env s hok

/-- `remove` takes the exclusive non-blocking lock first: a file held by anybody else (an open reader
holds a shared lock) is neither unlinked nor modified, and the error is returned (C11 re-uses this). -/
theorem remove_blocked_by_lock (env : Env) (s : FSState) (f : File) (h1 : env.openFault = false)
    (h2 : env.otherLock ≠ .none) (hd : s.dir env.name = some f) :
    (interp removeProgram env s).1 = .err ∧ (interp removeProgram env s).2.1.dir env.name = some f := by
  have e := remove_shape.1
  have hl : lockBlocked (removeShapeOf removeProgram).2.2 env.otherLock = true := by
    rw [remove_shape.2.2.2]; cases ho : env.otherLock <;> simp_all [lockBlocked]
  rw [← e]
  exact canonRemove_blocked _ _ _ remove_shape.2.1 remove_shape.2.2.1 env s f h1 hl hd

/-! Non-vacuity: the premises are satisfiable and the conclusions are about real runs. -/

-- the premise of `persist_exact_durable` is satisfiable: the routine with a `Truncate(0)` step after the
-- open (the proposed repair) has it, and the full statement then holds for that program
example : HasTruncate (canon ⟨[.O_CREATE, .O_RDWR], 0o600, .exclusive, true⟩) = true := by decide
example : ExactDurable (canon ⟨[.O_CREATE, .O_RDWR], 0o600, .exclusive, true⟩) :=
  canon_exact _ (by decide) (by decide)
-- … and so is the premise of `persist_no_truncate_counterexample` (the routine as pinned)
example : HasTruncate (canon ⟨[.O_CREATE, .O_RDWR], 0o600, .exclusive, false⟩) = false := by decide
example : ¬ ExactDurable (canon ⟨[.O_CREATE, .O_RDWR], 0o600, .exclusive, false⟩) :=
  canon_not_exact _ (by decide) (by decide)
-- a prior file that IS longer, on the repaired routine: exact all the same (pure evaluation)
example : ((interp (canon ⟨[.O_CREATE, .O_RDWR], 0o600, .exclusive, true⟩) witnessEnv witnessState).2.1.dir 10)
    = some ⟨bNew, some bNew⟩ := by decide

-- a successful run exists (so `ExactDurable…` is not vacuous): 5 bytes in chunks of 2 over a shorter prior file
example : (interp persistProgram { name := 3, content := [1, 2, 3, 4, 5], chunks := [2, 2] }
    { dir := fun n => if n = 3 then some ⟨[9, 9], none⟩ else none }).1 = .ok := by decide
example : PriorNotLonger { name := 3, content := [1, 2, 3, 4, 5] }
    { dir := fun n => if n = 3 then some ⟨[9, 9], none⟩ else none } := by decide
-- a failing run exists and is cleaned up: the writer stops after 3 of 5 bytes
example : (interp persistProgram { name := 3, content := [1, 2, 3, 4, 5], writerStop := some 3 }
    { dir := fun _ => none }).1 = .err := by decide
example : (interp persistProgram { name := 3, content := [1, 2, 3, 4, 5], writerStop := some 3 }
    { dir := fun _ => none }).2.1.dir 3 = none := by decide
example : OpenOk { name := 3, content := [] } = true := by decide
-- the lock premise of `open_fail_leaves_empty` / `lock_fail_preserves_prior` / `remove_blocked_by_lock`
example : ({ name := 3, content := [], otherLock := .shared } : Env).otherLock ≠ .none := by decide
-- the trace of a successful run has its fsync after the last write
example : syncedAtReturn (interp persistProgram { name := 3, content := [1, 2, 3], chunks := [1] }
    { dir := fun _ => none }).2.2 = true := by decide

end Bluge.C13
